import MoThreads.Model.Sched
import MoThreads.Model.SignalCore
import MoThreads.Props.C01
import MoThreads.Props.C02
