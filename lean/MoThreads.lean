import MoThreads.Model.Sched
import MoThreads.Model.SignalCore
import MoThreads.Model.Monitor
import MoThreads.Props.C01
import MoThreads.Props.C02
import MoThreads.Props.C05
import MoThreads.Props.C06
import MoThreads.Props.C20
