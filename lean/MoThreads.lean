import MoThreads.Model.Sched
import MoThreads.Model.SignalCore
