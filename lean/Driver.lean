/-
  Line-protocol driver: replays implementation traces through the executable models.
  Usage: driver < traces.txt   (or: lake env lean --run Driver.lean < traces.txt)
  Output: one line per run: `ok <id> steps=<n>` or `FAIL <id> line=<n> <message>`.
-/
import MoThreads.Driver.M1
import MoThreads.Driver.M3
import MoThreads.Driver.M4
import MoThreads.Driver.M6
import MoThreads.Driver.M5
import MoThreads.Driver.M7
import MoThreads.Driver.M9
import MoThreads.Driver.M10
import MoThreads.Driver.M8
import MoThreads.Driver.M2
open MoThreads.Driver

inductive Model
  | none
  | m1 (m : M1.Sim)
  | m3 (m : M3.Sim)
  | m4 (m : M4.Sim)
  | m6 (m : M6.Sim)
  | m5 (m : M5.Sim)
  | m7 (m : M7.Sim)
  | m9 (m : M9.Sim)
  | m10 (m : M10.Sim)
  | m8 (m : M8.Sim)
  | m2 (m : M2.Sim)

structure DState where
  runId : String := ""
  model : Model := .none
  failed : Bool := false
  lineNo : Nat := 0
  active : Bool := false

def words (line : String) : List String :=
  (line.splitOn " ").filter (· ≠ "")

def kv (ws : List String) (key : String) : String :=
  match ws.find? (fun w => w.startsWith (key ++ "=")) with
  | some w => (w.drop (key.length + 1)).toString
  | none => ""

def finish (d : DState) : IO Unit := do
  if d.active && !d.failed then
    match d.model with
    | .m1 m => IO.println s!"ok {d.runId} steps={m.steps}"
    | .m3 m => IO.println s!"ok {d.runId} steps={m.steps}"
    | .m4 m => IO.println s!"ok {d.runId} steps={m.steps}"
    | .m6 m => IO.println s!"ok {d.runId} steps={m.steps}"
    | .m5 m => IO.println s!"ok {d.runId} steps={m.steps}"
    | .m7 m => IO.println s!"ok {d.runId} steps={m.steps}"
    | .m9 m => IO.println s!"ok {d.runId} steps={m.steps}"
    | .m10 m => IO.println s!"ok {d.runId} steps={m.steps}"
    | .m8 m => IO.println s!"ok {d.runId} steps={m.steps}"
    | .m2 m => IO.println s!"ok {d.runId} steps={m.steps}"
    | .none => IO.println s!"ok {d.runId} steps=0"

def startRun (ws : List String) : Except String Model :=
  match ws with
  | _ :: _ :: "m1" :: rest =>
    let never := kv rest "never" == "1"
    let rs := (kv rest "raises").splitOn "," |>.filterMap String.toNat?
    .ok (.m1 (M1.start never rs))
  | _ :: _ :: "m3" :: _ => .ok (.m3 M3.start)
  | _ :: _ :: "m5" :: _ => .ok (.m5 M5.start)
  | _ :: _ :: "m9" :: _ => .ok (.m9 {})
  | _ :: _ :: "m10" :: _ => .ok (.m10 {})
  | _ :: _ :: "m2" :: _ => .ok (.m2 {})
  | _ :: _ :: "m8" :: rest => .ok (.m8 (M8.start (kv rest "script") ((kv rest "status").toNat?.getD 0)))
  | _ :: _ :: "m7" :: rest =>
    let fl := (kv rest "fails").splitOn "," |>.filterMap String.toNat? |>.map (· != 0)
    .ok (.m7 (M7.start ((kv rest "batch").toNat?.getD 1) fl))
  | _ :: _ :: "m6" :: rest => .ok (.m6 (M6.start ((kv rest "I").toNat?.getD 128)))
  | _ :: _ :: "m4" :: rest =>
    let mx := (kv rest "max").toNat?.getD 1024
    let pre := (kv rest "prefill").splitOn "," |>.filterMap String.toNat?
    .ok (.m4 (M4.start mx (kv rest "allow" == "1") (kv rest "silent" != "0") pre))
  | _ => .error "unknown model"

partial def loop (h : IO.FS.Stream) (d : DState) : IO Unit := do
  let line ← h.getLine
  if line.isEmpty then
    finish d
    return ()
  let ws := words (line.trimAscii.toString)
  let d := { d with lineNo := d.lineNo + 1 }
  match ws with
  | "run" :: id :: _ =>
    finish d
    match startRun ws with
    | .ok m => loop h { runId := id, model := m, failed := false, lineNo := 0, active := true }
    | .error e =>
      IO.println s!"FAIL {id} line=0 {e}"
      loop h { runId := id, model := .none, failed := true, lineNo := 0, active := true }
  | _ =>
    if d.failed || !d.active then loop h d
    else
      match d.model with
      | .m1 m =>
        match M1.feed m ws with
        | .ok m' => loop h { d with model := .m1 m' }
        | .error e =>
          IO.println s!"FAIL {d.runId} line={d.lineNo} {e}"
          loop h { d with failed := true }
      | .m3 m =>
        match M3.feed m ws with
        | .ok m' => loop h { d with model := .m3 m' }
        | .error e =>
          IO.println s!"FAIL {d.runId} line={d.lineNo} {e}"
          loop h { d with failed := true }
      | .m4 m =>
        match M4.feed m ws with
        | .ok m' => loop h { d with model := .m4 m' }
        | .error e =>
          IO.println s!"FAIL {d.runId} line={d.lineNo} {e}"
          loop h { d with failed := true }
      | .m6 m =>
        match M6.feed m ws with
        | .ok m' => loop h { d with model := .m6 m' }
        | .error e =>
          IO.println s!"FAIL {d.runId} line={d.lineNo} {e}"
          loop h { d with failed := true }
      | .m5 m =>
        match M5.feed m ws with
        | .ok m' => loop h { d with model := .m5 m' }
        | .error e =>
          IO.println s!"FAIL {d.runId} line={d.lineNo} {e}"
          loop h { d with failed := true }
      | .m7 m =>
        match M7.feed m ws with
        | .ok m' => loop h { d with model := .m7 m' }
        | .error e =>
          IO.println s!"FAIL {d.runId} line={d.lineNo} {e}"
          loop h { d with failed := true }
      | .m9 m =>
        match M9.feed m ws with
        | .ok m' => loop h { d with model := .m9 m' }
        | .error e =>
          IO.println s!"FAIL {d.runId} line={d.lineNo} {e}"
          loop h { d with failed := true }
      | .m10 m =>
        match M10.feed m ws with
        | .ok m' => loop h { d with model := .m10 m' }
        | .error e =>
          IO.println s!"FAIL {d.runId} line={d.lineNo} {e}"
          loop h { d with failed := true }
      | .m8 m =>
        match M8.feed m ws with
        | .ok m' => loop h { d with model := .m8 m' }
        | .error e =>
          IO.println s!"FAIL {d.runId} line={d.lineNo} {e}"
          loop h { d with failed := true }
      | .m2 m =>
        match M2.feed m ws with
        | .ok m' => loop h { d with model := .m2 m' }
        | .error e =>
          IO.println s!"FAIL {d.runId} line={d.lineNo} {e}"
          loop h { d with failed := true }
      | .none => loop h d

def main : IO Unit := do
  loop (← IO.getStdin) {}
