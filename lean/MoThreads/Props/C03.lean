/-
  C03 — Signal OR: the composite is true exactly when some operand is.
  Theorems about M2 (Model/Composite.lean), for every history of building composites (nested, shared
  operands), dropping references, triggering and waiting, and every interleaving of those operations at the
  granularity of one Signal operation (then / go / remove_then are the atomic operations of M1, C01-C02).

  Proved for every reachable state: the operands of a live, untriggered OR composite stay alive (so a Till
  inside `a | Till(..)` is not lost) and cannot be collected; a composite that was not triggered directly is
  true only if some operand is (at every moment), and at every quiescent point a live composite is true
  exactly when some operand is — whether the operands were triggered before, during or after it was built.
  Constants (None / True / False / DONE / NEVER) and the release of waiters (C01 on the composite, an ordinary
  Signal) are checked on the real operators by monitors.
-/
import MoThreads.Proofs.CompIff
namespace MoThreads.Composite
open MoThreads

/-- Operands are kept alive: every operand of a live, untriggered OR composite is itself alive. -/
theorem C03_operands_kept_alive {s : State} (h : sys.Reach s) (o : Nat) (ho : o < s.nOr)
    (hal : (s.sigs (s.ors o).target).alive = true) (hgo : (s.sigs (s.ors o).target).go = false) :
    ∀ d, d ∈ (s.ors o).deps0 → d < s.nSig ∧ (s.sigs d).alive = true :=
  (reach_invL h).Lo o ho hal hgo

/-- The operand list of the OrSignal object is emptied only once the composite has been triggered or has died. -/
theorem C03_operand_list_intact {s : State} (h : sys.Reach s) (o : Nat) (ho : o < s.nOr)
    (hal : (s.sigs (s.ors o).target).alive = true) (hgo : (s.sigs (s.ors o).target).go = false) :
    (s.ors o).deps = (s.ors o).deps0 := by
  have i := reach_invL h
  cases hdd : decide ((s.ors o).deps = (s.ors o).deps0) with
  | true => exact of_decide_eq_true hdd
  | false =>
    rcases i.Jv o ho (of_decide_eq_false hdd) with h1 | h1
    · rw [hgo] at h1; cases h1
    · rw [hal] at h1; cases h1

theorem C03_operand_not_collectable {s : State} (h : sys.Reach s) (o : Nat) (ho : o < s.nOr)
    (hal : (s.sigs (s.ors o).target).alive = true) (hgo : (s.sigs (s.ors o).target).go = false)
    (d : Nat) (hd : d ∈ (s.ors o).deps0) : collectable s d = false := by
  cases hc : collectable s d with
  | false => rfl
  | true =>
    exfalso
    have C := collectable_spec hc
    exact C.noOr o ho (orRef_of_target_alive hal) (by rw [C03_operand_list_intact h o ho hal hgo]; exact hd)

/-- "Only if": at every moment, a composite that the program did not trigger directly is true only if at least one
of its operands is true. -/
theorem C03_true_only_if_some_operand {s : State} (h : sys.Reach s) (o : Nat) (ho : o < s.nOr)
    (hgo : (s.sigs (s.ors o).target).go = true) (hdir : (s.sigs (s.ors o).target).direct = false) :
    ∃ d, d ∈ (s.ors o).deps0 ∧ (s.sigs d).go = true := by
  obtain ⟨hl, _, hg⟩ := reach_all h
  exact hg.G1 _ o (hl.F1 o ho).1 (hl.F1 o ho).2 hgo hdir

/-- "As soon as": an operand that is true has its hook still to be registered, queued, or has already made the
composite true — so once the triggering `go()` (and the construction, if still running) has finished, the live
composite is true. -/
theorem C03_true_operand_propagates {s : State} (h : sys.Reach s) (o i d : Nat) (ho : o < s.nOr) (hd : (s.ors o).deps0[i]? = some d)
    (hgo : (s.sigs d).go = true) : HD s o i d :=
  (reach_all h).2.2.H o i d ho hd hgo

/-- The equivalence: at every quiescent point, a live composite `c = x | y` that was not triggered directly is
true exactly when at least one operand is true. -/
theorem C03_or_iff {s : State} (h : sys.Reach s) (hq : Quiet s) (o : Nat) (ho : o < s.nOr)
    (hal : (s.sigs (s.ors o).target).alive = true) (hdir : (s.sigs (s.ors o).target).direct = false) :
    (s.sigs (s.ors o).target).go = true ↔ ∃ d, d ∈ (s.ors o).deps0 ∧ (s.sigs d).go = true := by
  constructor
  · intro hgo; exact C03_true_only_if_some_operand h o ho hgo hdir
  · rintro ⟨d, hdm, hgd⟩
    obtain ⟨i, hi⟩ := List.mem_iff_getElem?.mp hdm
    rcases C03_true_operand_propagates h o i d ho hi hgd with h1 | h1 | h1 | h1 | h1
    · exact absurd h1 (not_inTodos_of_quiet hq _)
    · exact absurd h1 (not_inTodos_of_quiet hq _)
    · exact absurd h1 (not_inTodos_of_quiet hq _)
    · exact h1
    · rw [hal] at h1; cases h1

/-- ... in terms of the two operands. -/
theorem C03_or_iff_operands {s : State} (h : sys.Reach s) (hq : Quiet s) (o : Nat) (ho : o < s.nOr)
    (hal : (s.sigs (s.ors o).target).alive = true) (hdir : (s.sigs (s.ors o).target).direct = false) :
    ∃ x y, (s.ors o).deps0 = [x, y] ∧ ((s.sigs (s.ors o).target).go = true ↔ ((s.sigs x).go = true ∨ (s.sigs y).go = true)) := by
  obtain ⟨x, y, hxy⟩ := (reach_all h).2.1.D2 o ho
  refine ⟨x, y, hxy, ?_⟩
  rw [C03_or_iff h hq o ho hal hdir, hxy]
  constructor
  · rintro ⟨d, hdm, hg⟩
    simp only [List.mem_cons, List.mem_nil_iff, or_false] at hdm
    rcases hdm with rfl | rfl
    · exact Or.inl hg
    · exact Or.inr hg
  · rintro (hg | hg)
    · exact ⟨x, by simp, hg⟩
    · exact ⟨y, by simp, hg⟩

/-- Once true, always true. -/
theorem C03_flag_is_monotone {s s' : State} {t : Nat} {l : Label} (h : sys.Reach s) (hs : step s t = some (s', l)) (z : Nat) (hz : z < s.nSig)
    (hgo : (s.sigs z).go = true) : (s'.sigs z).go = true := by
  unfold step at hs
  split at hs
  · cases htd : s.todo t with
    | nil => rw [htd] at hs; cases hs
    | cons a rest =>
      rw [htd] at hs; simp only at hs
      cases he : exec s t a rest with
      | none => rw [he] at hs; cases hs
      | some s2 => rw [he] at hs; cases hs; exact (ext_exec he).go z hz hgo
  · cases hs

/-- a reachable quiescent state with a live composite that is true because its first operand is -/
example : ∃ s, sys.Reach s ∧ s.nOr = 1 ∧ (s.ors 0).target = 4 ∧ (s.ors 0).deps0 = [2, 3] ∧ (s.sigs 4).alive = true
    ∧ (s.sigs 4).direct = false ∧ (s.sigs 2).go = true ∧ (s.sigs 3).go = false ∧ (s.sigs 4).go = true
    ∧ s.todo 0 = [] ∧ s.todo 1 = [] :=
  ⟨demoO4.getD init, demoO_reach.2, by decide +kernel, by decide +kernel, by decide +kernel, by decide +kernel, by decide +kernel,
    by decide +kernel, by decide +kernel, by decide +kernel, by decide +kernel, by decide +kernel⟩

end MoThreads.Composite
