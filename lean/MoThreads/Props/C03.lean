/-
  C03 — Signal OR: the composite is true exactly when some operand is.
  Theorems about M2 (Model/Composite.lean), for every history of building composites (nested, shared
  operands), dropping references, triggering and waiting, and every interleaving of those operations at the
  granularity of one Signal operation (then / go / remove_then are the atomic operations of M1, C01-C02).

  PARTIAL.  Proved for every reachable state: the operands of a live, untriggered OR composite stay alive
  (so a Till inside `a | Till(..)` is not lost) and cannot be collected.  The equivalence `c ↔ x ∨ y` at
  quiescence is checked on the real code by the monitor and by trace acceptance, not yet a theorem.
-/
import MoThreads.Proofs.CompLive
namespace MoThreads.Composite
open MoThreads

/-- Operands are kept alive: every operand of a live, untriggered OR composite is itself alive. -/
theorem C03_operands_kept_alive {s : State} (h : sys.Reach s) (o : Nat) (ho : o < s.nOr)
    (hal : (s.sigs (s.ors o).target).alive = true) (hgo : (s.sigs (s.ors o).target).go = false) :
    ∀ d, d ∈ (s.ors o).deps0 → d < s.nSig ∧ (s.sigs d).alive = true :=
  (reach_invL h).Lo o ho hal hgo

/-- The operand list of the OrSignal object is emptied only once the composite has been triggered or has died. -/
theorem C03_operand_list_intact {s : State} (h : sys.Reach s) (o : Nat) (ho : o < s.nOr)
    (hal : (s.sigs (s.ors o).target).alive = true) (hgo : (s.sigs (s.ors o).target).go = false) :
    (s.ors o).deps = (s.ors o).deps0 := by
  have i := reach_invL h
  cases hdd : decide ((s.ors o).deps = (s.ors o).deps0) with
  | true => exact of_decide_eq_true hdd
  | false =>
    rcases i.Jv o ho (of_decide_eq_false hdd) with h1 | h1
    · rw [hgo] at h1; cases h1
    · rw [hal] at h1; cases h1

theorem C03_operand_not_collectable {s : State} (h : sys.Reach s) (o : Nat) (ho : o < s.nOr)
    (hal : (s.sigs (s.ors o).target).alive = true) (hgo : (s.sigs (s.ors o).target).go = false)
    (d : Nat) (hd : d ∈ (s.ors o).deps0) : collectable s d = false := by
  cases hc : collectable s d with
  | false => rfl
  | true =>
    exfalso
    have C := collectable_spec hc
    exact C.noOr o ho (orRef_of_target_alive hal) (by rw [C03_operand_list_intact h o ho hal hgo]; exact hd)

end MoThreads.Composite
