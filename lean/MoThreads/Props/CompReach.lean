/-
  C03 / C04 — the operands of a composite are reachable from it by strong references alone (robust against a cyclic collector).
-/
import MoThreads.Props.C03
import MoThreads.Props.C04
import MoThreads.Proofs.CompRef
namespace MoThreads.Composite
open MoThreads

/-- objects of the heap and the STRONG references between them (an OrSignal refers to its composite only weakly, so
there is no edge from an OrSignal to its composite) -/
inductive Obj
  | sig (z : Nat) | orO (o : Nat) | andO (n : Nat)

inductive Edge (s : State) : Obj → Obj → Prop
  | jobOr {z o : Nat} {j : Job} : j ∈ (s.sigs z).jobs → j.orObj = some o → Edge s (.sig z) (.orO o)
  | jobAnd {z n : Nat} {j : Job} : j ∈ (s.sigs z).jobs → j.andObj = some n → Edge s (.sig z) (.andO n)
  | orDep {o d : Nat} : d ∈ (s.ors o).deps → Edge s (.orO o) (.sig d)
  | andDep {n d : Nat} : d ∈ (s.ands n).deps → Edge s (.andO n) (.sig d)
  | andTarget {n : Nat} : Edge s (.andO n) (.sig (s.ands n).target)

/-- A live, untriggered OR composite holds its OrSignal strongly — its cleanup is in the composite's callback list, or
the thread building the composite is about to put it there — and the OrSignal's operand list is intact. -/
theorem C03_composite_owns_its_OrSignal {s : State} (h : sys.Reach s) (o : Nat) (ho : o < s.nOr)
    (hal : (s.sigs (s.ors o).target).alive = true) (hgo : (s.sigs (s.ors o).target).go = false) :
    (Job.orCleanup o ∈ (s.sigs (s.ors o).target).jobs ∨ InTodos s (.thenJ (s.ors o).target (.orCleanup o)))
    ∧ (s.ors o).deps = (s.ors o).deps0 :=
  ⟨(reach_ko h).2 o ho hal hgo, C03_operand_list_intact h o ho hal hgo⟩

/-- Hence, at every quiescent point, every operand of a live untriggered OR composite is reachable from the composite
by strong references alone (composite → OrSignal → operand): a collector that frees what is unreachable from the
program — reference counting or cycle detection — cannot free an operand of a composite the program can reach. -/
theorem C03_operands_strongly_reachable {s : State} (h : sys.Reach s) (hq : Quiet s) (o : Nat) (ho : o < s.nOr)
    (hal : (s.sigs (s.ors o).target).alive = true) (hgo : (s.sigs (s.ors o).target).go = false)
    (d : Nat) (hd : d ∈ (s.ors o).deps0) :
    Edge s (.sig (s.ors o).target) (.orO o) ∧ Edge s (.orO o) (.sig d) := by
  obtain ⟨h1, h2⟩ := C03_composite_owns_its_OrSignal h o ho hal hgo
  refine ⟨?_, .orDep (by rw [h2]; exact hd)⟩
  rcases h1 with h1 | h1
  · exact .jobOr h1 rfl
  · exact absurd h1 (not_inTodos_of_quiet hq _)

/-- The same for AND (the repaired wiring): composite → AndSignals → operand. -/
theorem C04_operands_strongly_reachable {s : State} (h : sys.Reach s) (hq : Quiet s) (n : Nat) (hn : n < s.nAnd)
    (hal : (s.sigs (s.ands n).target).alive = true) (hgo : (s.sigs (s.ands n).target).go = false)
    (d : Nat) (hd : d ∈ (s.ands n).deps0) :
    Edge s (.sig (s.ands n).target) (.andO n) ∧ Edge s (.andO n) (.sig d) := by
  have hl := (reach_all4 h).1
  have hdeps : (s.ands n).deps = (s.ands n).deps0 := by
    cases hdd : decide ((s.ands n).deps = (s.ands n).deps0) with
    | true => exact of_decide_eq_true hdd
    | false => have := hl.Jva n hn (of_decide_eq_false hdd); rw [hgo] at this; cases this
  refine ⟨?_, .andDep (by rw [hdeps]; exact hd)⟩
  rcases hl.Ka n hn hal hgo with h1 | h1
  · exact .jobAnd h1 rfl
  · exact absurd h1 (not_inTodos_of_quiet hq _)

/-- non-vacuity: in the quiescent state after `c = a | b` has been built, c → OrSignal 0 → a and b -/
example : Edge (demoO2.getD init) (.sig 4) (.orO 0) ∧ Edge (demoO2.getD init) (.orO 0) (.sig 2) ∧ Edge (demoO2.getD init) (.orO 0) (.sig 3) := by
  refine ⟨.jobOr (j := .orCleanup 0) (by decide +kernel) rfl, .orDep (by decide +kernel), .orDep (by decide +kernel)⟩

end MoThreads.Composite
