/-
  C17 — Process: output lines and exit status are reported faithfully.
  Theorems about M8 (Model/ProcessIO.lean, the model of the REPAIRED readers and monitor), for every child
  script (any number of lines on either stream, in any order), every exit status below 256, every
  interleaving of the child, the two readers, the monitor and the caller of join(), and every timing of
  wait() time-outs, idle kills and stop() requests (the environment).

  Hypothesis carried by the line theorems: the reader of the stream was not abandoned by the monitor
  (`abandoned k = false`): processes.py gives a reader one second after the loop ended and then closes its
  queue ("THREAD LOST ON PIPE.readline()"); what is read after that is dropped by design.
-/
import MoThreads.Proofs.ProcSteps
import MoThreads.Proofs.ProcRank
namespace MoThreads.ProcessIO
open MoThreads

/-- Every line exactly once and in order, queue closed: when `stopped` has been triggered, the queue of a
stream whose reader was not abandoned holds exactly the lines the child wrote to that stream, in order,
and is closed. -/
theorem C17_lines_exactly_once_in_order {s : State} (h : sys.Reach s) (hst : s.stopped = true) (k : Nat) (hk : k < 2)
    (ha : s.abandoned k = false) : s.q k = s.written k ∧ s.closed k = true := by
  have i := reach_inv h
  have hm := i.I8.mp hst
  have hd : s.rpc k = .done := by
    rcases i.I7b (by rw [hm]; rfl) k hk with h1 | h1
    · exact h1
    · rw [ha] at h1; cases h1
  have h4 := i.I4 k (by rw [hd]; rfl) ha
  have h1 := i.I1 k ha
  rw [hd, h4.2] at h1
  exact ⟨by simpa [RPC.hand] using h1, i.I5c k (by rw [hd]; rfl)⟩

/-- ... and for a child that ended on its own these are ALL the lines of its script for that stream. -/
theorem C17_all_lines_of_a_child_that_exits {s : State} (h : sys.Reach s) (hst : s.stopped = true) (k : Nat) (hk : k < 2)
    (ha : s.abandoned k = false) (st : Nat) (he : s.exited = some st) (hkill : s.killed = false) :
    s.q k = linesOf k s.script0 := by
  have i := reach_inv h
  have h1 := (C17_lines_exactly_once_in_order h hst k hk ha).1
  rcases i.I3 st he with ⟨hk', _⟩ | ⟨_, _, hsc⟩
  · rw [hkill] at hk'; cases hk'
  · have := i.I2 k
    rw [hsc] at this
    rw [h1]; simpa [linesOf] using this

/-- The queue is closed only after the last line: once a (not abandoned) queue is closed it already holds
everything the child wrote, and the child has ended, so nothing can follow. -/
theorem C17_closed_after_last_line {s : State} (h : sys.Reach s) (k : Nat) (hc : s.closed k = true) (ha : s.abandoned k = false) :
    s.q k = s.written k ∧ s.exited.isSome = true := by
  have i := reach_inv h
  have hq : (s.rpc k).closedQ = true := by
    rcases i.I5 k hc with h1 | h1
    · rw [ha] at h1; cases h1
    · exact h1
  have hf : (s.rpc k).finished = true := by
    cases hp : s.rpc k <;> rw [hp] at hq <;> simp [RPC.closedQ, RPC.finished] at hq ⊢
  have h4 := i.I4 k hf ha
  have h1 := i.I1 k ha
  have hh : (s.rpc k).hand = [] := by
    cases hp : s.rpc k <;> rw [hp] at hq <;> simp [RPC.closedQ, RPC.hand] at hq ⊢
  rw [hh, h4.2] at h1
  exact ⟨by simpa using h1, h4.1⟩

/-- returncode is the child's exit status: what the monitor (or a late kill) reaped is what the child
ended with; for a child that was not killed that is the status of its own script. -/
theorem C17_returncode_is_exit_status {s : State} (h : sys.Reach s) (st : Nat) (hr : s.rc = some st) :
    s.exited = some st ∧ (s.killed = false → st = s.status) := by
  have i := reach_inv h
  have he := i.I6 st hr
  refine ⟨he, fun hk => ?_⟩
  rcases i.I3 st he with ⟨hk', _⟩ | ⟨_, h2, _⟩
  · rw [hk] at hk'; cases hk'
  · exact h2

/-- join() returns, normally or not, only after `stopped` and after the child has ended. -/
theorem C17_join_only_after_exit {s : State} (h : sys.Reach s)
    (hu : s.upc = .returned ∨ s.upc = .raisedFail ∨ s.upc = .raisedTimeout) : s.stopped = true ∧ s.exited.isSome = true := by
  have i := reach_inv h
  rcases hu with hu | hu | hu
  · have h3 := i.U3 hu
    exact ⟨i.U1 (by rw [hu]; rfl), by rw [i.I6 0 h3]; rfl⟩
  · obtain ⟨st, h4, _⟩ := i.U4 hu
    exact ⟨i.U1 (by rw [hu]; rfl), by rw [i.I6 st h4]; rfl⟩
  · exact ⟨i.U1 (by rw [hu]; rfl), (i.U5 hu).2⟩

/-- join() returns normally only for a child that exited 0 on its own. -/
theorem C17_join_returns_only_for_exit_zero {s : State} (h : sys.Reach s) (hu : s.upc = .returned) :
    s.exited = some 0 ∧ s.killed = false ∧ s.status = 0 := by
  have i := reach_inv h
  have he := i.I6 0 (i.U3 hu)
  rcases i.I3 0 he with ⟨_, h2⟩ | ⟨h1, h2, _⟩
  · simp [KILLED] at h2
  · exact ⟨he, h1, h2.symm⟩

/-- join() raises exactly when the status is non-zero or the child had to be killed — never for a child
that exited 0 on its own — unless the program itself asked the process to stop (then a child that is
still running after the grace period is killed by join(), reported as TIMEOUT). -/
theorem C17_join_raises_iff {s : State} (h : sys.Reach s) (hus : s.userStop = false)
    (hu : s.upc = .returned ∨ s.upc = .raisedFail ∨ s.upc = .raisedTimeout) :
    (s.upc = .returned ↔ (s.status = 0 ∧ s.killed = false)) ∧ s.upc ≠ .raisedTimeout := by
  have i := reach_inv h
  have hnt : s.upc ≠ .raisedTimeout := by
    intro ht; have := (i.U5 ht).1; rw [hus] at this; cases this
  refine ⟨⟨fun hr => ?_, fun ⟨h0, hk⟩ => ?_⟩, hnt⟩
  · have := C17_join_returns_only_for_exit_zero h hr
    exact ⟨this.2.2, this.2.1⟩
  · rcases hu with hu | hu | hu
    · exact hu
    · exfalso
      obtain ⟨st, h4, hne⟩ := i.U4 hu
      have := (C17_returncode_is_exit_status h st h4).2 hk
      omega
    · exact absurd hu hnt

/-- No hang (L1): in a state where nobody can move — child, readers, monitor, caller — the caller of join()
is not waiting: the child has ended, both readers have finished, `stopped` is set and join() has returned
or raised. -/
theorem C17_join_does_not_hang {s : State} (h : sys.Reach s) (hq : sys.Quiescent s) :
    s.upc = .idle ∨ s.upc = .returned ∨ s.upc = .raisedFail ∨ s.upc = .raisedTimeout := by
  have i := reach_inv h
  have q0 := hq 0
  have q1 := hq 1
  have q2 := hq 2
  have q3 := hq 3
  have q4 := hq 4
  simp only [sys, step] at q0 q1 q2 q3 q4
  simp at q1 q2 q3 q4
  have hex : s.exited.isSome = true := by
    unfold stepChild at q0
    cases he : s.exited with
    | some st => rfl
    | none => rw [he] at q0; simp only at q0; cases hsc : s.script <;> rw [hsc] at q0 <;> cases q0
  have hr : ∀ k, stepReader s k = none → s.rpc k = .done := by
    intro k hk
    unfold stepReader at hk
    cases hp : s.rpc k <;> rw [hp] at hk <;> simp only at hk
    · cases hb : s.buf k <;> rw [hb] at hk <;> simp [hex] at hk
    · split at hk <;> cases hk
    · cases hk
    · cases hk
    · cases hk
  have h0 := hr 0 q1
  have h1 := hr 1 q2
  have hm : s.mpc = .done := by
    unfold stepMonitor at q3
    cases hp : s.mpc <;> rw [hp] at q3 <;> simp only at q3
    all_goals (first | rfl | (cases q3; done) | skip)
    · cases he : s.exited <;> rw [he] at q3 hex <;> simp at q3 hex
    · cases he : s.exited <;> rw [he] at q3 hex <;> simp at q3 hex
    · simp [h0] at q3
    · simp [h1] at q3
  have hst := i.I8.mpr hm
  unfold stepUser at q4
  cases hp : s.upc <;> rw [hp] at q4 <;> simp only at q4
  · exact Or.inl rfl
  · simp [hst] at q4
  · cases hr : s.rc <;> rw [hr] at q4 <;> simp at q4
  · cases q4
  · exact Or.inr (Or.inl rfl)
  · exact Or.inr (Or.inr (Or.inr rfl))
  · exact Or.inr (Or.inr (Or.inl rfl))

/-- L2: join() returns.  For a child that ends by itself (the model's child follows a finite script), with no timeout, no
kill and no abandoned reader, every schedule of the child, the two readers, the monitor and the caller takes at most
`rank s` steps, and where nobody can move join() has returned or raised (and by the theorems above: returned exactly for
exit status 0, with every line delivered). -/
theorem C17_join_returns {s s' : State} {tr : List (Nat × Label)} (h : sys.Reach s) (r : sys.Run s tr s') :
    tr.length ≤ rank s ∧
    (sys.Quiescent s' → s'.upc = .idle ∨ s'.upc = .returned ∨ s'.upc = .raisedFail ∨ s'.upc = .raisedTimeout) := by
  have := run_length_le_rank r
  exact ⟨by omega, fun hq => C17_join_does_not_hang (h.run sys r) hq⟩

/-! ### the hypotheses are satisfiable -/

def runSched (s : State) : List Nat → Option State
  | [] => some s
  | t :: ts => match step s t with
    | some (s', _) => runSched s' ts
    | none => none

theorem reach_runSched {s s' : State} (ts : List Nat) (h : sys.Reach s) (hr : runSched s ts = some s') : sys.Reach s' := by
  induction ts generalizing s with
  | nil => cases hr; exact h
  | cons t ts ih =>
    simp only [runSched] at hr
    cases hst : step s t with
    | none => rw [hst] at hr; cases hr
    | some p =>
      rw [hst] at hr
      exact ih (Sys.Reach.step (t := t) (l := p.2) h (by show step s t = some (p.1, p.2); rw [hst])) hr

theorem some_getD_of_isSome {α : Type} (o : Option α) (d : α) (h : o.isSome = true) : o = some (o.getD d) := by
  cases o with
  | none => cases h
  | some x => rfl

/-- a child writing 7 and 9 to stdout and 8 to stderr, exit status 3; join() is called at once -/
def demoInit : State := init [(0, 7), (1, 8), (0, 9)] 3
def demo1 : Option State := callJoin demoInit
def demoSched : List Nat :=
  [0, 0, 0, 0, 1, 1, 1, 1, 1, 1, 1, 1, 2, 2, 2, 2, 2, 2, 3, 3, 3, 3, 3, 3, 4, 4, 4]
def demo2 : Option State := runSched (demo1.getD demoInit) demoSched

example : ∃ s, sys.Reach s ∧ s.stopped = true ∧ s.abandoned 0 = false ∧ s.abandoned 1 = false ∧ s.q 0 = [7, 9] ∧ s.q 1 = [8]
    ∧ s.upc = .raisedFail ∧ s.rc = some 3 ∧ s.userStop = false ∧ s.killed = false := by
  have h1 := some_getD_of_isSome demo1 demoInit (by decide +kernel)
  have h2 := some_getD_of_isSome demo2 demoInit (by decide +kernel)
  refine ⟨demo2.getD demoInit, ?_, by decide +kernel, by decide +kernel, by decide +kernel, by decide +kernel, by decide +kernel,
    by decide +kernel, by decide +kernel, by decide +kernel, by decide +kernel⟩
  have r0 : sys.Reach demoInit := Sys.Reach.init ⟨_, 3, by decide, rfl⟩
  have r1 : sys.Reach (demo1.getD demoInit) := Sys.Reach.env r0 (Or.inr (Or.inr (Or.inr (Or.inr (Or.inl h1)))))
  exact reach_runSched demoSched r1 h2

example : rank (demo1.getD demoInit) = 30 := by decide +kernel

end MoThreads.ProcessIO
