/-
  C20 — Blocked threads stay blocked: no busy waiting among waiters.

  What is proved: a thread parked in Signal.wait() (M1), Lock.wait() (M3) or Queue.pop()/add() (M4) is
  DISABLED — it takes no step at all — until its own wake-up source fires; a single Lock waiter leaves the
  system quiescent.
  What is NOT true of the unchanged code, and is proved as a negation witness: two or more threads
  re-waiting on the same Lock wake each other forever although nothing else happens
  (`C20_violated_two_waiters_pingpong`).  That is the open known finding
  C20/two-or-more-waiters-on-one-lock; the full statement therefore stays a `_partial`.
-/
import MoThreads.Props.C02
import MoThreads.Props.C06
import MoThreads.Props.C09
namespace MoThreads
open MoThreads

/-- Signal.wait(): while the flag is false a parked waiter cannot move (it is blocked on its own
stopper, which only the publishing go() releases). -/
theorem C20_signal_waiter_stays_parked {s : SignalCore.State} (h : SignalCore.sys.Reach s) (t x : Nat)
    (hp : s.pc t = .w7 x) (hg : s.go = false) : SignalCore.step s t = none := by
  have i := SignalCore.reach_inv h
  have : s.unlocked x = false := by
    cases hu : s.unlocked x with
    | false => rfl
    | true => have := i.unl x hu; simp [hg] at this
  unfold SignalCore.step; rw [hp]; simp [this]

/-- Lock.wait(): a parked waiter that is neither signalled nor timed out cannot move. -/
theorem C20_lock_waiter_stays_parked {s : Monitor.State} (t w : Nat) (c : Monitor.Cond) (tl : Option Nat)
    (hp : s.pc t = .parked w c tl) (hf : s.fired w = false) (ht : Monitor.tillOn s tl = false) :
    Monitor.step s t = none := by
  unfold Monitor.step; rw [hp]; simp [hf, ht]

/-- Queue.pop(): a consumer parked on an empty queue does nothing while it is not signalled (no thread
left the lock), the queue is not closed and its till has not fired. -/
theorem C20_queue_consumer_stays_parked {s : Queue.State} (t : Nat) (tl : Option Nat) (hp : s.pc t = .pParked tl)
    (hsig : s.signalled t = false) (hcl : s.closed = false) (ht : Queue.tillOn s tl = false) : Queue.step s t = none := by
  unfold Queue.step; rw [hp]; simp [hsig, hcl, ht]

/-- Queue.add()/push()/extend() on a full queue: a parked producer does nothing while it is not signalled and
its wake-up timer has not fired — the caller's till on a silent queue, the stall timer of THIS wait otherwise
(`C08_stall_timer_is_fresh`: an old, already fired stall timer cannot resume it again). -/
theorem C20_queue_producer_stays_parked {s : Queue.State} (t : Nat) (a : Queue.Act) (tl : Option Nat)
    (hp : s.pc t = .sParked a tl) (hsig : s.signalled t = false)
    (ht : (if s.silent then Queue.tillOn s tl else s.stalled t) = false) : Queue.step s t = none := by
  unfold Queue.step; rw [hp]; simp [hsig, ht]

/-- A parked Lock waiter is never signalled spuriously: if its waiter signal is fired, some thread
performed a release (the waiter was popped by a lock holder) — `fired` implies it left the list. -/
theorem C20_lock_signal_only_by_release {s : Monitor.State} (h : Monitor.sys.Reach s) (w : Nat)
    (hf : s.fired w = true) : w ∉ s.waiting := (Monitor.reach_inv h).firedW w hf

/-- One waiter on a Lock, everybody else outside: the system is at rest (no polling, no self wake-up). -/
theorem C20_single_waiter_partial {s : Monitor.State} (t w : Nat) (c : Monitor.Cond) (tl : Option Nat)
    (hp : s.pc t = .parked w c tl) (hf : s.fired w = false) (ht : Monitor.tillOn s tl = false)
    (hothers : ∀ u, u ≠ t → ∃ r, s.pc u = .idle r) : Monitor.sys.Quiescent s := by
  intro u
  by_cases hu : u = t
  · subst hu; exact C20_lock_waiter_stays_parked u w c tl hp hf ht
  · obtain ⟨r, hr⟩ := hothers u hu
    show Monitor.step s u = none
    unfold Monitor.step; rw [hr]

namespace Monitor

/-- a consumer-style loop iteration: the thread re-tests its (false) condition and waits again -/
def rewait (s : State) (t : Nat) : Option State := call s t (.wait (some (0, 1)) none)

def runSteps (s : State) (ts : List Nat) : Option State := ts.foldlM (fun s t => (step s t).map (·.1)) s

/-- two idle consumers t0, t1 on one lock, condition `σ0 ≥ 1` never made true -/
def pingpongStart : Option State := do
  let s ← call init 0 .enter
  let s ← runSteps s [0]
  let s ← rewait s 0
  let s ← runSteps s [0, 0, 0]          -- t0 parked, waiting = [w0]
  let s ← call s 1 .enter
  let s ← runSteps s [1]
  let s ← rewait s 1
  runSteps s [1, 1, 1, 1, 1]            -- t1 popped+fired w0, listed w1, released, parked

/-- one round: the signalled thread `a` wakes, finds its condition false, waits again — which signals `b` -/
def pingpongRound (s : State) (a : Nat) : Option State := do
  let s ← runSteps s [a, a]             -- re-acquire, remove own waiter -> wait() returned True
  let s ← rewait s a                    -- condition still false: wait again
  runSteps s [a, a, a, a, a]            -- pops + fires the OTHER waiter, lists own, releases, parks

/-- both consumers parked, lock free, exactly one listed waiter and one signal in flight -/
def shapeOK (s : State) : Bool :=
  s.mutex.isNone && s.waiting.length == 1 && s.hot.length == 1 &&
  (match s.pc 0 with | .parked .. => true | _ => false) &&
  (match s.pc 1 with | .parked .. => true | _ => false)

def pingpongTrace : Option (Bool × Nat × Nat) := do
  let s0 ← pingpongStart
  let s1 ← pingpongRound s0 0
  let s2 ← pingpongRound s1 1
  let s3 ← pingpongRound s2 0
  let s4 ← pingpongRound s3 1
  let s5 ← pingpongRound s4 0
  let s6 ← pingpongRound s5 1
  pure ([s0, s1, s2, s3, s4, s5, s6].all shapeOK, s6.σ 0, s6.nextW)

/- NEGATION WITNESS (the unchanged lock.py): with NO state change, NO timeout and NO other thread,
the two parked consumers keep waking each other: every round is possible, performs 7 system steps
and returns to the same shape (both parked, one listed waiter, one signal in flight) — forever.
Six consecutive rounds are checked by evaluation; the state is the same up to fresh waiter ids
(8 waiter signals were created, σ never changed). -/
theorem C20_violated_two_waiters_pingpong : pingpongTrace = some (true, 0, 8) := by decide

end Monitor
end MoThreads
