/-
  C13 / C14 — L2 for the timer daemon (M6): it settles (no spinning), and a requested shutdown completes.
-/
import MoThreads.Props.C13
import MoThreads.Props.C14
import MoThreads.Proofs.TillRank
namespace MoThreads.Till
open MoThreads

/-- L2: the daemon does not spin.  From any reachable state, with no new Till, no stop request and no passing of time,
every schedule takes at most `rank N s` steps (N bounds the ids of the creators inside a creation): the daemon can start
a scan without having slept only as often as a creator lowers `next_ping` to the present, and fires each timer once.
Where nobody can move, every creation has completed and the daemon is asleep with its wake-up time ahead, or has ended. -/
theorem C13_daemon_settles {N : Nat} {s s' : State} {tr : List (Nat × Label)} (h : sys.Reach s) (hb : Below N s)
    (r : sys.Run s tr s') :
    tr.length ≤ rank N s ∧
    (sys.Quiescent s' → (∀ t, s'.cpc t = .idle) ∧ (s'.dpc = .done ∨ ∃ w, s'.dpc = .asleep w ∧ s'.now < w)) := by
  have := run_length_le_rank (reach_inv h) hb r
  exact ⟨by omega, fun hq => quiescent_settled (reach_inv (h.run sys r)) (reach_headOK (h.run sys r)) hq⟩

/-- L2 for shutdown: once a stop has been requested and the daemon is awake at its loop test (or its sleep is over),
every schedule ends — within the rank bound — with the daemon done and EVERY Till ever created true, whatever creators
were doing meanwhile. -/
theorem C14_shutdown_completes {N : Nat} {s s' : State} {tr : List (Nat × Label)} (h : sys.Reach s) (hb : Below N s)
    (hp : StopPath s) (r : sys.Run s tr s') :
    tr.length ≤ rank N s ∧ (sys.Quiescent s' → s'.dpc = .done ∧ ∀ id, s'.created id = true → s'.fired id = true) := by
  obtain ⟨h1, h2⟩ := C13_daemon_settles h hb r
  refine ⟨h1, fun hq => ?_⟩
  have hd : s'.dpc = .done := by
    rcases (h2 hq).2 with hd | ⟨w, hw, hlt⟩
    · exact hd
    · have := (stopPath_run hp r).2
      rw [hw] at this
      have : w ≤ s'.now := this
      omega
  exact ⟨hd, fun id hc => C14_no_stranded_till (h.run sys r) hq hd id hc⟩

/-! non-vacuity -/
def stepG (s : State) (t : Nat) : State := ((step s t).map (·.1)).getD s

theorem reach_stepG {s : State} (h : sys.Reach s) (t : Nat) : sys.Reach (stepG s t) := by
  unfold stepG
  cases hs : step s t with
  | none => exact h
  | some p => exact Sys.Reach.step (t := t) (l := p.2) h (by show step s t = some (p.1, p.2); rw [hs])

theorem reach_foldG {s : State} (h : sys.Reach s) (ts : List Nat) : sys.Reach (ts.foldl stepG s) := by
  induction ts generalizing s with
  | nil => exact h
  | cons t ts ih => exact ih (reach_stepG h t)

def callG (s : State) (t : Nat) (secs : Int) : State := (callTill s t secs).getD s
def callGA (s : State) (t : Nat) (secs : Int) : State := (callTillAbs s t secs).getD s

theorem reach_callG {s : State} (h : sys.Reach s) (t : Nat) (secs : Int) : sys.Reach (callG s t secs) := by
  unfold callG
  cases hs : callTill s t secs with
  | none => exact h
  | some p => exact Sys.Reach.env h (Or.inl ⟨t, secs, hs⟩)

theorem reach_callGA {s : State} (h : sys.Reach s) (t : Nat) (secs : Int) : sys.Reach (callGA s t secs) := by
  unfold callGA
  cases hs : callTillAbs s t secs with
  | none => exact h
  | some p => exact Sys.Reach.env h (Or.inr (Or.inl ⟨t, secs, hs⟩))

/-- daemon started; creator 1 is about to register a Till due in 5 ticks, creator 2 one with a deadline in the past -/
def demoT0 : State := callGA (callG (stepG (init 10) 0) 1 5) 2 (-3)

theorem demoT0_reach : sys.Reach demoT0 :=
  reach_callGA (reach_callG (reach_stepG (Sys.Reach.init ⟨10, by decide, rfl⟩) 0) 1 5) 2 (-3)

example : Below 3 demoT0 := by
  intro t ht
  have : t ≠ 1 ∧ t ≠ 2 := by omega
  simp [demoT0, callG, callGA, callTill, callTillAbs, stepG, step, stepD, init, State.setC, this.1, this.2]

example : rank 3 demoT0 = 68 := by decide

/-- both creations complete, the daemon scans (no sleep: `next_ping` was lowered to the past), fires the overdue Till,
scans again and goes to sleep: 50-odd steps, fewer than the rank allows -/
def demoT1 : State := (List.replicate 8 1 ++ List.replicate 8 2 ++ List.replicate 40 0).foldl stepG demoT0

example : demoT1.dpc = .asleep 5 ∧ demoT1.cpc 1 = .idle ∧ demoT1.cpc 2 = .idle ∧ demoT1.fired 0 = false ∧ demoT1.fired 1 = true ∧
    step demoT1 0 = none ∧ rank 3 demoT1 = 8 := by decide +kernel
theorem demoT1_reach : sys.Reach demoT1 := reach_foldG demoT0_reach _

/-- the stop request arrives while the daemon is at its loop test -/
def demoStop : State := requestStop demoT0
example : StopPath demoStop := ⟨rfl, by show stopPc DPC.d0 _; trivial⟩

end MoThreads.Till
