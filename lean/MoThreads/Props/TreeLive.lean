/-
  C10 / C11 / C12 — L2 for the thread tree (M5): with no new API calls every schedule, fair or not, runs out of steps
  (an explicit rank: a thread id is worth 2^(N-id), the children of a thread weigh less than the thread), and where nobody
  can move, whoever has not finished is waiting for a thread whose target is still running (or for a timeout).
-/
import MoThreads.Props.C11
import MoThreads.Props.C12
import MoThreads.Proofs.TreeLive
namespace MoThreads.ThreadTree
open MoThreads

/-- L2 (termination): from any reachable state, without new API calls, at most `rank s.nextId s` steps are taken,
whatever the scheduler does. -/
theorem C10_runs_terminate {s s' : State} {tr : List (Nat × Label)} (h : sys.Reach s) (r : sys.Run s tr s') :
    tr.length ≤ rank s.nextId s := by
  have := run_length_le_rank (rankOK_of_reach h) r; omega

/-- **`stopped` does become true.**  Take any run that cannot be extended.  A thread whose target has returned or raised
has triggered `stopped` — unless the target of one of its registered descendants (any number of generations) is still
running: nothing else can hold the shutdown block up, not a child that failed, not one that was joined or released
early, not one whose registration was still under way. -/
theorem C10_stopped_once_all_done {s s' : State} {tr : List (Nat × Label)} (h : sys.Reach s) (r : sys.Run s tr s')
    (hq : sys.Quiescent s') (t : Nat) (hpost : (s'.phase t).post = true)
    (hall : ∀ u, Desc s' t u → s'.phase u ≠ .running) : s'.stopped t = true :=
  quiescent_stopped (h.run sys r) hq _ t (Nat.le_refl _) hpost hall

/-- stop() returns: it never blocks (C11_stop_never_blocks), every run is finite, so in a run that cannot be extended
the call has returned; C11_stop_returned says what holds then. -/
theorem C11_stop_returns {s s' : State} {tr : List (Nat × Label)} (h : sys.Reach s) (t : Nat) (w : List SAct)
    (hph : s.phase t = .running) (hc : s.call t = .stopping w) (r : sys.Run s tr s') :
    tr.length ≤ rank s.nextId s ∧ (sys.Quiescent s' → s'.call t = .idle .done) := by
  refine ⟨C10_runs_terminate h r, fun hq => ?_⟩
  obtain ⟨hp', hc'⟩ := inStop_run (reach_invR h).1 ⟨hph, Or.inl ⟨w, hc⟩⟩ r
  rcases hc' with ⟨w', hw'⟩ | hd
  · exfalso
    have hst : step s' t = none := hq t
    unfold step at hst; rw [hp'] at hst; simp only [hw'] at hst
    cases w' with
    | nil => cases hst
    | cons a rest => unfold stepStop at hst; cases a <;> cases hst
  · exact hd

/-- join() / join_all_threads() block on one thing only: a thread that has not stopped, while the timeout (if any) has
not fired.  With termination: they return within a bounded number of steps once that thread stops or the timeout fires. -/
theorem C12_join_blocks_only_on_unstopped {s : State} (t : Nat) (top : List Nat) (work : List JAct) (tl : Option Nat)
    (raised : List Nat) (all : Bool) (hph : s.phase t = .running) (hc : s.call t = .joining top work tl raised all)
    (hq : step s t = none) : ∃ v rest, work = .wait v :: rest ∧ s.stopped v = false ∧ tillOn s tl = false := by
  unfold step at hq; rw [hph] at hq; simp only [hc] at hq
  cases work with
  | nil => cases hq
  | cons a rest =>
    unfold stepJoin at hq
    cases a with
    | wait v =>
      simp only at hq
      cases hsv : s.stopped v with
      | true => rw [hsv] at hq; simp at hq
      | false =>
        cases htl : tillOn s tl with
        | true => rw [hsv, htl] at hq; simp at hq
        | false => exact ⟨v, rest, rfl, hsv, rfl⟩
    | _ => cases hq

/-! non-vacuity: main spawns t1, t1 spawns t2, t1's target returns (its shutdown block blocks joining t2), t2 fails,
everything runs to the end: a reachable state in which nobody can move, t1's target has ended, and `stopped` is true -/

def callD (s : State) (t : Nat) (op : Op) : State := (call s t op).getD s

theorem reach_callD {s : State} (h : sys.Reach s) (t : Nat) (op : Op) : sys.Reach (callD s t op) := by
  unfold callD
  cases hs : call s t op with
  | none => exact h
  | some p => exact Sys.Reach.env h (Or.inl ⟨t, op, hs⟩)

theorem reach_settle {s : State} (h : sys.Reach s) (t : Nat) : ∀ fuel, sys.Reach (settle fuel s t) := by
  intro fuel
  induction fuel generalizing s with
  | zero => exact h
  | succ n ih =>
    unfold settle
    cases hs : step s t with
    | none => exact h
    | some p => exact ih (Sys.Reach.step (t := t) (l := p.2) h (by show step s t = some (p.1, p.2); rw [hs]))

def demoMid : State :=
  settle 40 (callD (settle 10 (settle 10 (callD (settle 10 (settle 10 (callD init 0 .spawn) 0) 1) 1 .spawn) 1) 2) 1 (.finish (.ok 5))) 1

def demoLive : State := settle 40 (settle 40 (callD demoMid 2 (.finish .fail)) 2) 1

theorem demoMid_reach : sys.Reach demoMid := by
  unfold demoMid
  repeat (first | apply reach_settle | apply reach_callD)
  exact Sys.Reach.init rfl

theorem demoLive_reach : sys.Reach demoLive := by
  unfold demoLive
  repeat (first | exact demoMid_reach | apply reach_settle | apply reach_callD)

/-- in the middle: t1's shutdown block is blocked on t2, whose target is still running; the rank bounds what is left -/
example : demoMid.stopped 1 = false ∧ demoMid.phase 2 = .running ∧ step demoMid 1 = none := by decide
example : rank 3 demoMid = 8 := by decide

theorem demoLive_quiescent : sys.Quiescent demoLive := by
  intro t
  have hf := (reach_invR demoLive_reach).1.fresh
  by_cases ht : t < 3
  · have : t = 0 ∨ t = 1 ∨ t = 2 := by omega
    rcases this with rfl | rfl | rfl <;> decide
  · have : demoLive.phase t = .absent := hf t (by have : demoLive.nextId = 3 := by decide
                                                  omega)
    show step demoLive t = none
    unfold step; rw [this]

example : demoLive.stopped 1 = true :=
  C10_stopped_once_all_done demoLive_reach Sys.Run.nil demoLive_quiescent 1 (by decide) (by
    intro u hu
    have := desc_lt (reach_invD demoLive_reach) hu
    have h3 : demoLive.nextId = 3 := by decide
    have : u = 2 := by omega
    subst this; decide)

end MoThreads.ThreadTree
