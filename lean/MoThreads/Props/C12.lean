/-
  C12 — Threads: join() reports the target's outcome faithfully.  Theorems about M5.
  Values are naturals standing for arbitrary return values; the failure outcome stands for any
  exception derived from Exception (the cause chain itself is compared on real runs, see harness).
-/
import MoThreads.Props.C10
namespace MoThreads.ThreadTree
open MoThreads

/-- The outcome is stored before `stopped` is triggered … -/
theorem C12_outcome_before_stopped {s : State} (h : sys.Reach s) (t : Nat) (hs : s.stopped t = true) :
    s.outcome t ≠ none := by
  have i := reach_inv h
  have hph := (i.stP t).mp hs
  exact i.outP t (by cases hp : s.phase t <;> simp_all [Phase.isStopped, Phase.post])

theorem stepStop_outcome {s s' : State} {t : Nat} {w : List SAct} {k : List SAct → Call} {l : Label}
    (hs : stepStop s t w k = some (s', l)) : s'.outcome = s.outcome := by
  unfold stepStop at hs
  cases w with
  | nil => cases hs
  | cons a r => cases a <;> (cases hs; rfl)

theorem stepJoin_outcome {s s' : State} {t : Nat} {top : List Nat} {w : List JAct} {tl : Option Nat} {raised : List Nat}
    {all : Bool} {k : List JAct → List Nat → Call} {l : Label}
    (hs : stepJoin s t top w tl raised all k = some (s', l)) : s'.outcome = s.outcome := by
  unfold stepJoin at hs
  cases w with
  | nil => cases hs
  | cons a r =>
    cases a with
    | wait u => simp only at hs; split at hs; (cases hs; rfl); split at hs; (cases hs; rfl); cases hs
    | _ => cases hs; rfl

set_option hygiene false in
macro "oc" : tactic => `(tactic| first
  | (cases hs; done)
  | (cases hs; rfl)
  | (exact congrFun (stepStop_outcome hs) _)
  | (exact congrFun (stepJoin_outcome hs) _))

/-- … and never changes afterwards (no step writes `outcome`; only the target's own end does, once). -/
theorem C12_outcome_stable_step {s s' : State} {t u : Nat} {l : Label} (hs : step s t = some (s', l)) :
    s'.outcome u = s.outcome u := by
  unfold step at hs
  split at hs <;> (try oc)
  all_goals (split at hs <;> (try oc))
  all_goals (split at hs <;> (try oc))
  all_goals (try (split at hs <;> (try oc)))

theorem C12_outcome_set_once {s s' : State} {t : Nat} {o : Outcome} (hc : call s t (.finish o) = some s') :
    s.phase t = .running ∧ s'.outcome t = some o := by
  unfold call at hc
  split at hc
  · rename_i r hph hcl
    simp only at hc
    split at hc
    · cases hc
    · cases hc; exact ⟨hph, by simp [upd]⟩
  · cases hc

theorem joinRet_single (s : State) (u : Nat) (raised : List Nat) : joinRet s [u] raised false = joinRet1 s u raised := rfl

/-- what the join work list guarantees about its top-level thread when it is exhausted -/
theorem join_done_facts {s : State} (h : sys.Reach s) (t u : Nat) (tl : Option Nat) (raised : List Nat)
    (hc : s.call t = .joining [u] [] tl raised false) :
    s.stopped u = true ∨ (tillOn s tl = true ∧ u ∈ raised) := by
  have hj := (reach_inv h).jtop t [u] [] tl raised (by simp [hc, Call.jwork]) u (by simp)
  rcases hj with h1 | h1 | h1 | h1
  · cases h1
  · cases h1
  · exact Or.inl h1
  · exact Or.inr h1

/-- join(u) returning a value: the thread has stopped and the value is exactly what its target returned. -/
theorem C12_join_value {s : State} (h : sys.Reach s) (t u v : Nat) (tl : Option Nat) (raised : List Nat)
    (hc : s.call t = .joining [u] [] tl raised false) (hr : joinRet s [u] raised false = .value v) :
    s.stopped u = true ∧ s.outcome u = some (.ok v) := by
  rw [joinRet_single] at hr
  unfold joinRet1 at hr
  split at hr
  · split at hr <;> cases hr
  · rename_i hru
    have hnr : u ∉ raised := by simpa using hru
    have hst : s.stopped u = true := by
      rcases join_done_facts h t u tl raised hc with h1 | h1
      · exact h1
      · exact absurd h1.2 hnr
    refine ⟨hst, ?_⟩
    split at hr
    · rename_i v' ho; cases hr; exact ho
    · cases hr

/-- join(u, till) reports a timeout only if its till fired and the thread has not stopped; any other
result (a value or a raised failure) means the thread HAS stopped. -/
theorem C12_join_result_means_stopped {s : State} (h : sys.Reach s) (t u : Nat) (tl : Option Nat) (raised : List Nat)
    (hc : s.call t = .joining [u] [] tl raised false) :
    (joinRet s [u] raised false = .timeout → tillOn s tl = true ∧ s.stopped u = false) ∧
    (joinRet s [u] raised false ≠ .timeout → s.stopped u = true) := by
  rw [joinRet_single]
  have hf := join_done_facts h t u tl raised hc
  unfold joinRet1
  split
  · rename_i hru
    split
    · rename_i hst
      exact ⟨fun hh => (by cases hh), fun _ => (by simpa using hst)⟩
    · rename_i hst
      have hsf : s.stopped u = false := by simpa using hst
      refine ⟨fun _ => ⟨?_, hsf⟩, fun hne => absurd rfl hne⟩
      rcases hf with h1 | h1
      · simp [hsf] at h1
      · exact h1.1
  · rename_i hru
    have hnr : u ∉ raised := by simpa using hru
    have hst : s.stopped u = true := by
      rcases hf with h1 | h1
      · exact h1
      · exact absurd h1.2 hnr
    constructor
    · intro hh; split at hh <;> cases hh
    · intro _; exact hst

/-- A failed target is never reported as a normal return. -/
theorem C12_failure_is_raised {s : State} (u : Nat) (raised : List Nat) (hf : s.outcome u = some .fail) (v : Nat) :
    joinRet s [u] raised false ≠ .value v := by
  rw [joinRet_single]; unfold joinRet1
  split
  · split <;> simp
  · simp [hf]

/-- join_all_threads: when it returns, every listed thread has been waited for (no timeout without a
till), the results are in input order, and it raises iff some join raised. -/
theorem C12_join_all {s : State} (h : sys.Reach s) (t : Nat) (us : List Nat) (raised : List Nat)
    (hc : s.call t = .joining us [] none raised true) :
    (∀ u, u ∈ us → s.stopped u = true) ∧
    (joinRet s us raised true = .allRaised ↔ us.any raised.contains = true) ∧
    (us.any raised.contains = false →
      joinRet s us raised true = .values (us.map (resultOf s))) := by
  have i := reach_inv h
  refine ⟨?_, ?_, ?_⟩
  · intro u hu
    rcases i.jtop t us [] none raised (by simp [hc, Call.jwork]) u hu with h1 | h1 | h1 | h1
    · cases h1
    · cases h1
    · exact h1
    · simp [tillOn] at h1
  · simp only [joinRet, if_true]; split <;> simp_all
  · intro hn; simp only [joinRet, if_true, hn, Bool.false_eq_true, if_false]


/-- The sixty seconds of an unjoined thread: when they run out the thread leaves `linger` — a failure is only logged; a thread
whose parent is a Thread takes itself out of that parent's list — and in every case its outcome stays where it was: a join()
that comes later returns or raises exactly as an early one would (C12_join_value, C12_failure_is_raised hold in every
reachable state, before and after). -/
theorem C12_expiry_keeps_the_outcome {s s' : State} {t : Nat} {l : Label} (hph : s.phase t = .linger) (hj : s.joiner t = false)
    (hx : s.lingerFired t = true) (hs : step s t = some (s', l)) :
    s'.phase t = .dead ∧ s'.outcome = s.outcome ∧ s'.stopped = s.stopped ∧
    (l = .tau ∨ l = .unreg t (s.parent t) ((s.children (s.parent t)).contains t)) := by
  unfold step at hs
  rw [hph] at hs
  simp only [hj, hx, Bool.false_eq_true, if_false, if_true] at hs
  split at hs
  · cases hs; exact ⟨by simp [upd], rfl, rfl, Or.inl rfl⟩
  · cases hs; exact ⟨by simp [upd], rfl, rfl, Or.inr rfl⟩

/-- non-vacuity: main starts t1, t1 starts t2 and lives on; t2 returns 5 and nobody joins it; sixty seconds pass; t2 takes itself
out of t1's list; THEN t1 joins t2 and gets 5 -/
def demoLate : Option (State × State) := do
  let s ← call init 0 .spawn
  let s := settle 10 s 0
  let s := settle 10 s 1
  let s ← call s 1 .spawn
  let s := settle 10 s 1
  let s := settle 10 s 2
  let s ← call s 2 (.finish (.ok 5))
  let s := settle 40 s 2                  -- t2's shutdown block; it lingers
  let s := expire s 2
  let s1 := settle 5 s 2                  -- the sixty seconds are over
  let s ← call s1 1 (.join 2 none)
  let s := settle 40 s 1
  pure (s1, s)

example : (demoLate.map fun q => (q.1.phase 2, q.1.children 1, q.1.everChild 1, q.2.call 1, q.2.outcome 2)) =
    some (.dead, [], [2], .idle (.value 5), some (.ok 5)) := by decide

end MoThreads.ThreadTree
