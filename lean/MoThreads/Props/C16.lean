/-
  C16 — ThreadedQueue: ordered, loss-free hand-off and terminating stop().
  Theorems about M7 (Model/TQWorker.lean, the model of the REPAIRED worker_bee), for every batch size,
  every timing of producers relative to the flush timers, and every finite failure pattern of the slow
  queue's extend() (a failed attempt delivers nothing).
-/
import MoThreads.Proofs.TQInv
import MoThreads.Proofs.TQRank
namespace MoThreads.TQWorker
open MoThreads

/-- Loss-free, ordered, exactly-once hand-off: in every reachable state
  (batches accepted by the slow queue, flattened) ++ (buffer) ++ (item in hand) ++ (values still queued)
is exactly the sequence of values added, in the order added. -/
theorem C16_delivery_invariant {s : State} (h : sys.Reach s) :
    flat s.sink ++ s.buffer ++ s.pc.pend ++ vals s.q = s.added := (reach_inv h).D

/-- When the worker has finished, everything added before the stop marker was handed to the slow
queue, in order, each value once; what is left over is exactly what is still in the own queue
(values added behind the marker). -/
theorem C16_delivery {s : State} (h : sys.Reach s) (hd : s.pc = .done) : flat s.sink ++ vals s.q = s.added := by
  have i := reach_inv h
  have hb := i.B0 (by simp [hd, WPC.flushed])
  have := i.D
  simpa [hd, hb, WPC.pend] using this

/-- Only a batch whose delivery raised is offered again: a failed extend() changes neither what the
slow queue has accepted nor the buffer, and the buffer is emptied only by a successful one. -/
theorem C16_failed_batch_is_kept {s s' : State} {b : List Nat} (hs : step s = some (s', .extend b false)) :
    s'.sink = s.sink ∧ s'.buffer = s.buffer ∧ b = s.buffer := by
  unfold step at hs
  cases hp : s.pc <;> rw [hp] at hs <;> simp only at hs <;> (try (cases hs; done)) <;> (try (split at hs <;> cases hs <;> simp))
  all_goals (try (rename_i x; cases x <;> (try (rename_i y; cases y)) <;> cases hs))
  all_goals (try (cases hq : s.q <;> rw [hq] at hs <;> simp only at hs <;> (try (split at hs)) <;> cases hs))
  all_goals (try (simp only [Option.some.injEq, Prod.mk.injEq] at hs; obtain ⟨_, h2⟩ := hs; split at h2 <;> cases h2))

theorem C16_accepted_batch_is_the_buffer {s s' : State} {b : List Nat} (hs : step s = some (s', .extend b true)) :
    s'.sink = s.sink ++ [s.buffer] ∧ s'.buffer = [] ∧ b = s.buffer := by
  unfold step at hs
  cases hp : s.pc <;> rw [hp] at hs <;> simp only at hs <;> (try (cases hs; done)) <;> (try (split at hs <;> cases hs <;> simp))
  all_goals (try (rename_i x; cases x <;> (try (rename_i y; cases y)) <;> cases hs))
  all_goals (try (cases hq : s.q <;> rw [hq] at hs <;> simp only at hs <;> (try (split at hs)) <;> cases hs))
  all_goals (try (simp only [Option.some.injEq, Prod.mk.injEq] at hs; obtain ⟨_, h2⟩ := hs; split at h2 <;> cases h2))

/-- Exactly one stop marker reaches the slow queue, and only as the worker's very last act. -/
theorem C16_one_marker {s : State} (h : sys.Reach s) : s.markers = if s.pc = .done then 1 else 0 := (reach_inv h).Mk

/-- Without an external abort (please_stop triggered from outside, e.g. `with` leaving on an exception)
the worker never dies on a failing flush: the last flush before the marker is retried, not abandoned. -/
theorem C16_no_crash_without_abort {s : State} (h : sys.Reach s) (hx : s.extStop = false) : s.pc ≠ .crashed :=
  ((reach_inv h).X2 hx).2.2

/-- stop() terminates (L1): once the stop marker has been appended, the worker cannot come to rest
anywhere but at its end — whatever the failure pattern, including a failure on the final flush
(the marker is put back and the flush retried). -/
theorem C16_stop_terminates {s : State} (h : sys.Reach s) (hr : s.stopReq = true) (hq : step s = none) :
    s.pc = .done ∨ s.pc = .crashed := by
  have i := reach_inv h
  have hmq : s.q = [] → s.pc ≠ .popE ∧ s.pc ≠ .popT := by
    intro hqq
    rcases i.S hr with h1 | h1 | h1
    · rw [hqq] at h1; cases h1
    · constructor <;> (intro hp; simp [hp, WPC.holdsMarker] at h1)
    · constructor <;> (intro hp; simp [hp, WPC.leaving] at h1)
  unfold step at hq
  cases hp : s.pc with
  | done => exact Or.inl rfl
  | crashed => exact Or.inr rfl
  | popE =>
    rw [hp] at hq; simp only at hq
    cases hqq : s.q with
    | nil => exact absurd hp (hmq hqq).1
    | cons x r => rw [hqq] at hq; cases hq
  | popT =>
    rw [hp] at hq; simp only at hq
    cases hqq : s.q with
    | nil => exact absurd hp (hmq hqq).2
    | cons x r => rw [hqq] at hq; cases hq
  | dispatch x =>
    rw [hp] at hq
    cases x with
    | none => cases hq
    | some it => cases it <;> cases hq
  | flushM => rw [hp] at hq; simp only at hq; split at hq <;> cases hq
  | flush2 => rw [hp] at hq; simp only at hq; split at hq <;> cases hq
  | finalFlush => rw [hp] at hq; simp only at hq; split at hq <;> cases hq
  | _ => rw [hp] at hq; cases hq

/-- and with no external abort it ends at `done`, i.e. stop() (which joins the worker) returns normally. -/
theorem C16_stop_returns {s : State} (h : sys.Reach s) (hr : s.stopReq = true) (hx : s.extStop = false)
    (hq : step s = none) : s.pc = .done := by
  rcases C16_stop_terminates h hr hq with h1 | h1
  · exact h1
  · exact absurd h1 (C16_no_crash_without_abort h hx)

/-- Non-vacuity: batch 2, values 1,2,3, the slow queue fails on the 2nd attempt — which is the final
flush while handling the stop marker; the marker is re-queued, the flush retried, one marker sent. -/
def settle : Nat → State → State
  | 0, s => s
  | fuel + 1, s => match step s with
    | some (s', _) => settle fuel s'
    | none => s

def demo16 : State :=
  let s := init 2 [false, true]
  let s := add (add (add s (.val 1)) (.val 2)) (.val 3)
  let s := add s .marker
  settle 200 s

example : (demo16.pc, demo16.sink, demo16.markers, demo16.q, demo16.added) = (.done, [[1, 2], [3]], 1, [], [1, 2, 3]) := by
  decide

theorem step_keeps_requests {s s' : State} {l : Label} (hs : step s = some (s', l)) :
    s'.stopReq = s.stopReq ∧ s'.extStop = s.extStop := by
  unfold step at hs
  cases hp : s.pc <;> rw [hp] at hs <;> simp only at hs <;>
    (first
      | (cases hs; exact ⟨rfl, rfl⟩)
      | (split at hs <;> (first | (cases hs; exact ⟨rfl, rfl⟩) | cases hs | (split at hs <;> (first | (cases hs; exact ⟨rfl, rfl⟩) | cases hs))))
      | (cases hs))

theorem run_keeps_requests {s s' : State} {tr : List (Nat × Label)} (r : sys.Run s tr s') :
    s'.stopReq = s.stopReq ∧ s'.extStop = s.extStop := by
  induction r with
  | nil => exact ⟨rfl, rfl⟩
  | @cons s0 s1 s2 t l tr' hs _ ih =>
    change (if t = 0 then step s0 else none) = some (s1, l) at hs
    split at hs
    · have := step_keeps_requests hs; exact ⟨ih.1.trans this.1, ih.2.trans this.2⟩
    · cases hs

/-- L2: without new values and without timers firing, the worker takes at most `rank s` steps — every turn of its
loop consumes a queued item, an entry of the (finite) failure pattern of the slow queue, or the fired state of the
current flush timer (`Fresh`: timers that do not exist yet have not fired). -/
theorem C16_worker_runs_terminate {s s' : State} {tr : List (Nat × Label)} (hf : Fresh s) (r : sys.Run s tr s') :
    tr.length ≤ rank s := by
  have := run_length_le_rank hf r; omega

/-- … and once the stop marker has been queued (no external abort), the state in which such a run comes to rest is
the worker's normal end: stop(), which joins the worker, returns — for every failure pattern. -/
theorem C16_stop_returns_in_bounded_steps {s s' : State} {tr : List (Nat × Label)} (h : sys.Reach s) (hf : Fresh s)
    (hr : s.stopReq = true) (hx : s.extStop = false) (r : sys.Run s tr s') :
    tr.length ≤ rank s ∧ (sys.Quiescent s' → s'.pc = .done) := by
  refine ⟨C16_worker_runs_terminate hf r, fun hq => ?_⟩
  have hk := run_keeps_requests r
  have hq0 : step s' = none := by
    have := hq 0
    change (if (0 : Nat) = 0 then step s' else none) = none at this
    simpa using this
  exact C16_stop_returns (h.run sys r) (hk.1.trans hr) (hk.2.trans hx) hq0

/-- non-vacuity: the state of `demo16` before the worker runs (three values and the marker queued, failure on the
second attempt) is reachable and fresh; its rank is 20·4 + 30·2 + 40 -/
def demo16start : State := add (add (add (add (init 2 [false, true]) (.val 1)) (.val 2)) (.val 3)) .marker

example : sys.Reach demo16start ∧ Fresh demo16start ∧ demo16start.stopReq = true ∧ demo16start.extStop = false ∧ rank demo16start = 180 := by
  refine ⟨?_, ?_, by decide, by decide, by decide⟩
  · exact Sys.Reach.env (Sys.Reach.env (Sys.Reach.env (Sys.Reach.env (Sys.Reach.init ⟨2, [false, true], rfl⟩)
      (Or.inl ⟨_, rfl⟩)) (Or.inl ⟨_, rfl⟩)) (Or.inl ⟨_, rfl⟩)) (Or.inl ⟨_, rfl⟩)
  · intro k _; rfl

end MoThreads.TQWorker
