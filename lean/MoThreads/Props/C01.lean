/-
  C01 — Signal: one-shot broadcast with no lost wake-up.
  Theorems about M1 (Model/SignalCore.lean): every reachable state, any number of threads, any
  interleaving of wait()/go()/bool()/then()/remove_then() at single-shared-access granularity.
  ONLY property statements here; lemmas live in Proofs/.
-/
import MoThreads.Proofs.SignalCoreMain
import MoThreads.Proofs.SignalCoreRank
namespace MoThreads.SignalCore
open MoThreads

/-- Nobody is released early: a thread that has returned from `wait()` proves the flag is true. -/
theorem C01_no_early_release {s : State} (h : sys.Reach s) (t : Nat)
    (hret : s.pc t = .idle .waitTrue) : s.go = true :=
  (reach_inv h).sawGo t (by simp [hret, PC.sawGo])

/-- The release step itself (`stopper.acquire()` succeeding, or either fast path) happens with the flag true. -/
theorem C01_release_step_sees_flag {s s' : State} {t : Nat} {l : Label} (h : sys.Reach s)
    (hs : step s t = some (s', l)) (hret : s'.pc t = .idle .waitTrue) : s'.go = true :=
  C01_no_early_release (Sys.Reach.step h hs) t hret

/-- Once true, true forever: no system step and no API call resets the flag. -/
theorem C01_flag_monotone_step {s s' : State} {t : Nat} {l : Label}
    (hs : step s t = some (s', l)) (hg : s.go = true) : s'.go = true := by
  unfold step at hs
  split at hs <;> (try split at hs) <;> (try split at hs) <;> simp_all [State.setPc, State.setPcG] <;>
    (obtain ⟨rfl, _⟩ := hs; simp_all)

theorem C01_flag_monotone_call {s s' : State} {t : Nat} {op : Op}
    (hc : call s t op = some s') (hg : s.go = true) : s'.go = true := by
  unfold call at hc
  split at hc
  · cases op <;> simp only at hc <;> (try split at hc) <;> (cases hc; simpa [State.setPc] using hg)
  · cases hc

/-- `bool()` returns the current flag (one shared read). -/
theorem C01_bool_reads_flag {s s' : State} {t : Nat} {l : Label} (hp : s.pc t = .b0)
    (hs : step s t = some (s', l)) : s'.pc t = .idle (.boolV s.go) ∧ l = .rGo s.go := by
  unfold step at hs; rw [hp] at hs; cases hs; simp [State.setPc]

/-- Everyone who ever read `true` agrees with the state: a `bool()`/`wait()` that saw true implies the flag is true now. -/
theorem C01_read_true_is_stable {s : State} (h : sys.Reach s) (t : Nat)
    (hret : s.pc t = .idle (.boolV true)) : s.go = true :=
  (reach_inv h).sawGo t (by simp [hret, PC.sawGo])

/-- At most one `go()` call is ever in the post-publish region: repeated/concurrent go() have one winner. -/
theorem C01_go_unique_winner {s : State} (h : sys.Reach s) (t u : Nat)
    (ht : (s.pc t).isWinner = true) (hu : (s.pc u).isWinner = true) : t = u := by
  have i := reach_inv h
  have a := (i.win t).mp ht
  have b := (i.win u).mp hu
  rw [a] at b; exact Option.some.inj b

/-- A `go()` issued when the flag is already true never reaches the publishing write … -/
theorem C01_go_idempotent_never_publishes {s : State} (h : sys.Reach s) (t : Nat) (hg : s.go = true) :
    s.pc t ≠ .g3 := by
  intro hp
  have := (reach_inv h).preSet t (by simp [hp, PC.preSet])
  simp [hg] at this

/-- … and its steps (fast path, lock, locked re-test, unlock) change nothing but its own pc and the mutex. -/
theorem C01_go_idempotent_no_effect {s s' : State} {t : Nat} {l : Label}
    (hp : s.pc t = .g0 ∨ s.pc t = .g1 ∨ s.pc t = .g2 ∨ s.pc t = .g2r)
    (hs : step s t = some (s', l)) :
    s'.go = s.go ∧ s'.jobs = s.jobs ∧ s'.waiting = s.waiting ∧ s'.unlocked = s.unlocked ∧
    s'.ran = s.ran ∧ s'.errs = s.errs := by
  unfold step at hs
  rcases hp with hp | hp | hp | hp <;> rw [hp] at hs <;> simp only at hs
  all_goals first
    | (cases hs; simp [State.setPc]; done)
    | (split at hs <;> cases hs <;> simp [State.setPc])

/-- No lost wake-up: when the flag is true and no go() is still publishing, every parked (or about
to park) waiter's stopper has been released, i.e. the waiter is enabled.  Covers waiters that were
already parked, that had tested the flag but not yet parked, and that came later. -/
theorem C01_no_lost_wakeup {s : State} (h : sys.Reach s) (hg : s.go = true) (hw : s.winner = none)
    (t x : Nat) (hp : s.pc t = .w6 x ∨ s.pc t = .w7 x) : s.unlocked x = true := by
  have i := reach_inv h
  rcases i.noLost t x hp with h1 | h1 | h1
  · exact h1
  · have : truthy s.waiting = true := truthy_iff.mpr (by intro hn; rw [hn] at h1; cases h1)
    rcases i.liveW this with h2 | h2
    · simp [hg] at h2
    · simp [State.winPC, hw, PC.preDetachW] at h2
  · simp [State.winPC, hw, PC.pendingS] at h1

/-- A thread holding the signal's lock is never blocked (no blocking operation inside `with self.lock`). -/
theorem C01_lock_holder_enabled {s : State} (h : sys.Reach s) (t : Nat) (hl : s.lock = some t) :
    (step s t).isSome = true := by
  have i := reach_inv h
  have hh := (i.mutex t).mpr hl
  unfold step
  cases hp : s.pc t <;> simp_all [PC.holds]

/-- The publishing go() is never blocked either (it only releases and runs callbacks). -/
theorem C01_winner_enabled {s : State} (h : sys.Reach s) (t : Nat) (hw : (s.pc t).isWinner = true) :
    (step s t).isSome = true := by
  have i := reach_inv h
  unfold step
  cases hp : s.pc t with
  | g9 js ws => have := i.g9ne t js ws hp; cases ws <;> simp_all
  | g10 js => have := i.g10ne t js hp; cases js <;> simp_all
  | _ => simp_all [PC.isWinner]

/-- No deadlock / no stranded waiter: in a reachable state where nothing can move and the flag is
true, every call has returned — in particular every `wait()`. -/
theorem C01_quiescent_all_returned {s : State} (h : sys.Reach s) (hq : sys.Quiescent s)
    (hg : s.go = true) (t : Nat) : ∃ r, s.pc t = .idle r := by
  have i := reach_inv h
  have hlock : s.lock = none := by
    cases hl : s.lock with
    | none => rfl
    | some u =>
      have := C01_lock_holder_enabled h u hl
      have hq' : step s u = none := hq u
      rw [hq'] at this; cases this
  have hwin : s.winner = none := by
    cases hl : s.winner with
    | none => rfl
    | some u =>
      have := C01_winner_enabled h u ((i.win u).mpr hl)
      have hq' : step s u = none := hq u
      rw [hq'] at this; cases this
  have hst : step s t = none := hq t
  unfold step at hst
  cases hp : s.pc t with
  | idle r => exact ⟨r, rfl⟩
  | w7 x =>
    have := C01_no_lost_wakeup h hg hwin t x (Or.inr hp)
    rw [hp] at hst; simp [this] at hst
  | g9 js ws => have := (i.win t).mp (by simp [hp, PC.isWinner]); simp [hwin] at this
  | g10 js => have := (i.win t).mp (by simp [hp, PC.isWinner]); simp [hwin] at this
  | _ => rw [hp] at hst; simp_all

/-- The `Never` variant (NEVER constant): the flag is false in every reachable state. -/
theorem C01_never {s : State} (h : sys.Reach s) (hn : s.never = true) : s.go = false := by
  suffices hs : s.never = true → s.go = false ∧ ∀ t, s.pc t ≠ .g3 ∧ s.pc t ≠ .g2 ∧ s.pc t ≠ .g1 ∧ s.pc t ≠ .g0 from (hs hn).1
  clear hn
  refine Sys.Reach.invariant sys (P := fun s => s.never = true → s.go = false ∧ ∀ t, s.pc t ≠ .g3 ∧ s.pc t ≠ .g2 ∧ s.pc t ≠ .g1 ∧ s.pc t ≠ .g0) ?_ ?_ ?_ h
  · rintro s ⟨nv, rs, rfl⟩ _; simp [init]
  · rintro s s' ih ⟨t, op, hc⟩
    unfold call at hc
    split at hc
    · cases op <;> simp only at hc <;> (try split at hc) <;> cases hc <;> intro hn <;>
        have := ih (by simpa [State.setPc] using hn) <;> simp_all [State.setPc] <;> grind
    · cases hc
  · intro s s' t l ih hs hn'
    change step s t = _ at hs
    unfold step at hs
    split at hs <;> (try split at hs) <;> (try split at hs) <;> (try cases hs) <;>
      (have := ih (by simpa [State.setPc, State.setPcG] using hn')) <;>
      simp_all [State.setPc, State.setPcG] <;> grind [afterJob, afterStoppers]

/-- Non-vacuity: a concrete run — t0 waits and parks, t1 calls go() — reaches a state with the flag
true in which t0 has returned. -/
def demoRun : Option State := do
  let s ← call (init false (fun _ => false)) 0 .wait
  let s ← call s 1 .go
  let run (s : State) (ts : List Nat) : Option State := ts.foldlM (fun s t => (step s t).map (·.1)) s
  run s [0, 0, 0, 0, 0, 0, 0, 1, 1, 1, 1, 1, 1, 1, 1, 1, 1, 0]

example : (demoRun.map fun s => (s.go, s.pc 0, s.pc 1)) = some (true, .idle .waitTrue, .idle .goSelf) := by
  decide

theorem run_go_mono {s s' : State} {tr : List (Nat × Label)} (r : sys.Run s tr s') (hg : s.go = true) : s'.go = true := by
  induction r with
  | nil => exact hg
  | cons hs _ ih => exact ih (C01_flag_monotone_step hs hg)

/-- L2 (termination): with no new API calls, every schedule — fair or not — takes at most `rank N s`
steps, where `N` bounds the ids of the threads that are inside a call; the rank is an explicit function
of the program counters and the lengths of the two shared lists. -/
theorem C01_runs_terminate {N : Nat} {s s' : State} {tr : List (Nat × Label)} (hb : Below N s)
    (r : sys.Run s tr s') : tr.length ≤ rank N s := by
  have := run_length_le_rank hb r; omega

/-- … and a run that cannot be extended has released everybody: once the flag is true every `wait()`,
`go()`, `then()`, `remove_then()` in progress returns after finitely many steps of any scheduler that
does not stop while some thread can move. -/
theorem C01_every_wait_returns {N : Nat} {s s' : State} {tr : List (Nat × Label)} (h : sys.Reach s) (hb : Below N s)
    (hg : s.go = true) (r : sys.Run s tr s') :
    tr.length ≤ rank N s ∧ (sys.Quiescent s' → ∀ t, ∃ r, s'.pc t = .idle r) :=
  ⟨C01_runs_terminate hb r, fun hq t => C01_quiescent_all_returned (h.run sys r) hq (run_go_mono r hg) t⟩


/-! non-vacuity of the L2 theorems: t0 is parked in wait(), t1 has just published the flag -/

def stepD (s : State) (t : Nat) : State := ((step s t).map (·.1)).getD s
def callD (s : State) (t : Nat) (op : Op) : State := (call s t op).getD s
def demoL2 : State :=
  [0, 0, 0, 0, 0, 0, 0, 1, 1, 1, 1].foldl stepD (callD (callD (init false (fun _ => false)) 0 .wait) 1 .go)

theorem reach_stepD {s : State} (h : sys.Reach s) (t : Nat) : sys.Reach (stepD s t) := by
  unfold stepD
  cases hs : step s t with
  | none => exact h
  | some p => exact Sys.Reach.step (t := t) (l := p.2) h (by show step s t = some (p.1, p.2); rw [hs])

theorem reach_callD {s : State} (h : sys.Reach s) (t : Nat) (op : Op) : sys.Reach (callD s t op) := by
  unfold callD
  cases hs : call s t op with
  | none => exact h
  | some p => exact Sys.Reach.env h ⟨t, op, hs⟩

theorem below_stepD {N : Nat} {s : State} (h : Below N s) (t : Nat) : Below N (stepD s t) := by
  unfold stepD
  cases hs : step s t with
  | none => exact h
  | some p => exact below_step (t := t) (l := p.2) h (by show step s t = some (p.1, p.2); rw [hs])

theorem below_callD {N : Nat} {s : State} (h : Below N s) (t : Nat) (ht : t < N) (op : Op) : Below N (callD s t op) := by
  unfold callD
  cases hs : call s t op with
  | none => exact h
  | some p =>
    intro u hu
    have hne : u ≠ t := by omega
    unfold call at hs
    split at hs
    · cases op <;> simp only at hs <;> (try split at hs) <;> (cases hs; simpa [State.setPc, hne] using h u hu)
    · cases hs

theorem reach_foldl {s : State} (h : sys.Reach s) (ts : List Nat) : sys.Reach (ts.foldl stepD s) := by
  induction ts generalizing s with
  | nil => exact h
  | cons t ts ih => exact ih (reach_stepD h t)

theorem below_foldl {N : Nat} {s : State} (h : Below N s) (ts : List Nat) : Below N (ts.foldl stepD s) := by
  induction ts generalizing s with
  | nil => exact h
  | cons t ts ih => exact ih (below_stepD h t)

example : sys.Reach demoL2 ∧ Below 2 demoL2 ∧ demoL2.go = true ∧ demoL2.pc 0 = .w7 0 ∧ demoL2.pc 1 = .g4 ∧ rank 2 demoL2 = 7 := by
  refine ⟨reach_foldl (reach_callD (reach_callD (Sys.Reach.init ⟨_, _, rfl⟩) 0 .wait) 1 .go) _,
    below_foldl (below_callD (below_callD (fun t _ => ⟨.none, rfl⟩) 0 (by omega) .wait) 1 (by omega) .go) _,
    by decide, by decide, by decide, by decide⟩

end MoThreads.SignalCore
