/-
  C06 — Lock: no lost notification; monitor loops terminate.
  Theorems about M3.  Thread programs are arbitrary (the environment issues enter/set/wait/exit under
  the monitor discipline); a `wait c` declares the condition `c` the caller re-tests after waking.
-/
import MoThreads.Props.C05
import MoThreads.Proofs.MonitorRank
namespace MoThreads.Monitor
open MoThreads

/-- Every release passes the baton: when __exit__ is about to release, either nobody was waiting or a
waiter has been signalled and has not yet consumed the signal … -/
theorem C06_exit_signals_one {s : State} (h : sys.Reach s) (t : Nat) (hp : s.pc t = .x3) :
    s.waiting = [] ∨ s.hot ≠ [] := (reach_inv h).X t hp

/-- … and when wait() is about to release, either it signalled another waiter, or it is the only
waiter (and its own condition is false). -/
theorem C06_wait_signals_one {s : State} (h : sys.Reach s) (t w : Nat) (c : Cond) (tl : Option Nat)
    (hp : s.pc t = .a5 w c tl) : (s.hot ≠ [] ∨ s.waiting = [w]) ∧ c.holds s.σ = false :=
  ⟨(reach_inv h).A5 t w c tl hp, (reach_inv h).cFalse t c (by simp [hp, PC.waitCond])⟩

/-- The waiter that gets signalled is the oldest one (the list is LIFO-inserted, popped from the end). -/
theorem C06_signals_oldest {s s' : State} {t : Nat} {l : Label} (hp : s.pc t = .x1)
    (hs : step s t = some (s', l)) : ∃ o, s.waiting.getLast? = some o ∧ s'.pc t = .x2 o ∧ s'.waiting = s.waiting.dropLast := by
  unfold step at hs; rw [hp] at hs; simp only at hs
  cases hg : s.waiting.getLast? with
  | none => rw [hg] at hs; cases hs
  | some o => rw [hg] at hs; cases hs; exact ⟨o, rfl, by simp [State.setPc], rfl⟩

/-- A signalled waiter stays signalled until its owner re-acquires: the signal is not lost. -/
theorem C06_signal_not_lost {s : State} (h : sys.Reach s) (w : Nat) (hw : w ∈ s.hot) :
    s.fired w = true ∧ (s.pc (s.owner w)).parkedOn = some w := (reach_inv h).hotI w hw

/-- No ghost entries: every entry of the waiting list belongs to a thread that is inside wait() on it
(registered, not yet removed).  So a wait() that returned — in particular one that timed out — leaves
nothing behind that could absorb a later notification. -/
theorem C06_no_ghost_entries {s : State} (h : sys.Reach s) (w : Nat) (hw : w ∈ s.waiting) :
    (s.pc (s.owner w)).listedOwn = some w := (reach_inv h).listed w hw

theorem C06_returned_wait_left_nothing {s : State} (h : sys.Reach s) (t : Nat) (r : Ret)
    (hp : s.pc t = .inside r) (w : Nat) (hw : w ∈ s.waiting) : s.owner w ≠ t := by
  intro he
  have := (reach_inv h).listed w hw
  rw [he, hp] at this; simp [PC.listedOwn] at this

/-- The list never holds the same waiter twice. -/
theorem C06_no_duplicates {s : State} (h : sys.Reach s) : s.waiting.Nodup := (reach_inv h).nodupW

/-- wait() returns False only if its timeout signal has fired. -/
theorem C06_false_only_on_timeout {s s' : State} {t w : Nat} {c : Cond} {tl : Option Nat} {l : Label}
    (h : sys.Reach s) (hp : s.pc t = .a6 w c tl) (hs : step s t = some (s', l))
    (hret : s'.pc t = .inside (.waited false)) : tillOn s tl = true := by
  have i := reach_inv h
  unfold step at hs; rw [hp] at hs; cases hs
  simp [State.setPc] at hret
  rcases i.A6 t w c tl hp with h1 | h1
  · simp [h1] at hret
  · exact h1

/-- No lost notification / monitor loops terminate (L1): in every reachable state where nothing can
move and the lock is free, every thread parked in `wait c` has `c` FALSE (and is neither signalled nor
timed out).  Hence once a condition is made true inside the lock, the system cannot come to rest with
its waiter still parked — for any number of waiters, setters, timeouts and any interleaving. -/
theorem C06_no_lost_notification {s : State} (h : sys.Reach s) (hq : sys.Quiescent s)
    (hm : s.mutex = none) (t w : Nat) (c : Cond) (tl : Option Nat) (hp : s.pc t = .parked w c tl) :
    c.holds s.σ = false ∧ s.fired w = false ∧ tillOn s tl = false := by
  have i := reach_inv h
  -- t itself is disabled
  have hst : step s t = none := hq t
  unfold step at hst; rw [hp] at hst; simp only at hst
  have hdis : (s.fired w || tillOn s tl) = false := by
    cases hb : (s.fired w || tillOn s tl) with
    | false => rfl
    | true => simp [hb, hm] at hst
  simp only [Bool.or_eq_false_iff] at hdis
  refine ⟨?_, hdis.1, hdis.2⟩
  -- no signalled-but-unconsumed waiter exists
  have hhot : s.hot = [] := by
    cases hh : s.hot with
    | nil => rfl
    | cons w' rest =>
      have hw' : w' ∈ s.hot := by rw [hh]; simp
      obtain ⟨hf, hpk⟩ := i.hotI w' hw'
      have hq' : step s (s.owner w') = none := hq _
      unfold step at hq'
      cases hpo : s.pc (s.owner w') <;> rw [hpo] at hpk <;> simp [PC.parkedOn] at hpk
      subst hpk
      rw [hpo] at hq'; simp [hf, hm] at hq'
  have hhand : s.hand = none := by
    cases hh : s.hand with
    | none => rfl
    | some w' => obtain ⟨u, hu, _⟩ := i.handM w' hh; simp [hm] at hu
  -- so t's waiter is still listed, and K gives the claim
  have hin : w ∈ s.waiting := by
    rcases i.noLost t w (by simp [hp, PC.sleepOn]) with h1 | h1 | h1
    · exact h1
    · simp [hhot] at h1
    · simp [hhand] at h1
  have hne : s.waiting ≠ [] := by intro hn; rw [hn] at hin; cases hin
  rcases i.K hne with h1 | h1 | h1
  · exact absurd hm h1
  · exact absurd hhot h1
  · exact h1 t w c tl hp hin

/-- Non-vacuity of the hypotheses of `C06_no_lost_notification`: after t0 parks with condition
σ0 ≥ 1 (false) and nobody else around, the state is quiescent with the lock free. -/
def demoParked : Option State := do
  let s ← call init 0 .enter
  let (s, _) ← step s 0
  let s ← call s 0 (.wait (some (0, 1)) none)
  [0, 0, 0].foldlM (fun s t => (step s t).map (·.1)) s

example : (demoParked.map fun s => (s.mutex, s.pc 0, step s 0 |>.isSome)) =
    some (none, .parked 0 (some (0, 1)) none, false) := by decide

/-- L2: every Lock operation is a bounded number of its own steps (at most 7, plus waiting for the mutex or the
wake-up), so with no new calls and no new timeouts every schedule takes at most `rank N s` steps — the sum of the
remaining steps of the operations in progress; combined with `C06_no_lost_notification`, such a run ends in a
state where no waiter whose condition holds is parked while the lock is free. -/
theorem C06_runs_terminate {N : Nat} {s s' : State} {tr : List (Nat × Label)} (hb : Below N s) (r : sys.Run s tr s') :
    tr.length ≤ rank N s := by
  have := run_length_le_rank hb r; omega

theorem C06_waiters_resume {N : Nat} {s s' : State} {tr : List (Nat × Label)} (h : sys.Reach s) (hb : Below N s)
    (r : sys.Run s tr s') :
    tr.length ≤ rank N s ∧
      (sys.Quiescent s' → s'.mutex = none → ∀ t w c tl, s'.pc t = .parked w c tl → c.holds s'.σ = false) :=
  ⟨C06_runs_terminate hb r, fun hq hm t w c tl hp => (C06_no_lost_notification (h.run sys r) hq hm t w c tl hp).1⟩

end MoThreads.Monitor
