/-
  C13 — Till: never early, and at most one polling interval late.
  Theorems about M6 (Model/Till.lean): every reachable state, any number of creators, any multiset of
  deadlines, any creation order, any interleaving of creators with the daemon's scan/sleep cycle —
  including the unlocked read-modify-write of `next_ping` racing with a creation — for every INTERVAL > 0.
  Clock discipline = "otherwise idle system": steps cost no time, the clock moves only while the daemon sleeps.
-/
import MoThreads.Proofs.TillMain
namespace MoThreads.Till
open MoThreads

/-- Never early: in no reachable state has the normal polling loop fired a timer before its deadline
(as read from the clock the daemon uses). -/
theorem C13_never_early {s : State} (h : sys.Reach s) : s.early = false := (reach_inv h).Ea

/-- … because every timer the loop is about to fire is due. -/
theorem C13_fires_only_due {s : State} (h : sys.Reach s) (x : Timer) (rest : List Timer)
    (hp : s.dpc = .d9 (x :: rest)) : s.deadline x.2 ≤ s.now := by
  have i := reach_inv h
  have h1 := i.Due (by simp [hp, DPC.dueWork]) x (by simp [hp, DPC.transit])
  have h2 := (i.E x (Or.inr (Or.inr (by simp [hp, DPC.transit])))).1
  omega

/-- Consecutive scans are at most one interval apart, and the clock never runs more than one
interval ahead of the last scan while the daemon lives. -/
theorem C13_scan_spacing {s : State} (h : sys.Reach s) :
    s.lastScan ≤ s.prevScan + s.I ∧ (s.dpc ≠ .done → s.now ≤ s.lastScan + s.I) :=
  ⟨(reach_inv h).S.2, (reach_inv h).A⟩

/-- At most one polling interval late: while the daemon runs (it has not begun its shutdown drain),
a registered Till that has not fired yet implies the clock is still within
`max(deadline, registration time) + INTERVAL`.  Contrapositive: once the clock exceeds that bound
the Till is true — for every number of timers, creation order, creating thread and interleaving. -/
theorem C13_at_most_one_interval_late {s : State} (h : sys.Reach s) (hrun : s.dpc.final = false)
    (id : Nat) (hr : s.regd id = true) (hf : s.fired id = false) :
    s.now ≤ maxI (s.deadline id) (s.regAt id) + s.I := by
  have i := reach_inv h
  have hnd : s.dpc ≠ .done := by intro hd; rw [hd] at hrun; simp [DPC.final] at hrun
  have hA := i.A hnd
  have hS := i.S
  have hmax1 : s.deadline id ≤ maxI (s.deadline id) (s.regAt id) := by unfold maxI; split <;> omega
  have hmax2 : s.regAt id ≤ maxI (s.deadline id) (s.regAt id) := by unfold maxI; split <;> omega
  rcases i.Loc id hr hf with h1 | h1 | h1
  · have := i.B _ h1; simp only at this; omega
  · have hC := i.C _ h1
    by_cases hm : s.dpc.midScan = true
    · simp only [hm, if_true] at hC
      have hsc : s.dpc.scanning = true := by cases hd : s.dpc <;> simp_all [DPC.midScan, DPC.scanning]
      have := i.Nw hsc; omega
    · simp only [hm] at hC; simp only [Bool.false_eq_true, if_false] at hC; omega
  · by_cases hsc : s.dpc.scanning = true
    · have hT := i.Tr hsc _ h1
      have := i.Nw hsc
      simp only at hT
      rcases hT with hT | hT <;> omega
    · cases hd : s.dpc <;> simp_all [DPC.transit, DPC.scanning, DPC.final]

/-- A Till with non-positive `seconds` is the always-true signal (no timer is created). -/
theorem C13_nonpositive {s s' : State} {t : Nat} {secs : Int} {g0 : Bool} {l : Label} (ht : t ≠ 0)
    (hp : s.cpc t = .c0 secs g0) (hs : secs ≤ 0) (hst : step s t = some (s', l)) :
    s'.cpc t = .idle ∧ s'.nextId = s.nextId := by
  unfold step at hst; simp only [ht, if_false] at hst
  unfold stepC at hst; rw [hp] at hst; cases hst
  simp [State.setC, hs]

/-- `Till(till=<absolute time>)` has no such shortcut: while timers are enabled a Till object is always created and
registered, even when the deadline has already passed (it is then due at once: `C13_at_most_one_interval_late` bounds its
firing by one interval after its registration). -/
theorem C13_absolute_deadline_is_registered {s s' : State} {t : Nat} {secs : Int} {g0 : Bool} {l : Label} (ht : t ≠ 0)
    (hp : s.cpc t = .c0a secs g0) (hst : step s t = some (s', l)) :
    s'.cpc t = (if g0 && s.started then .c1 secs else .idle) := by
  unfold step at hst; simp only [ht, if_false] at hst
  unfold stepC at hst; rw [hp] at hst; cases hst
  cases h : (g0 && s.started) <;> simp [State.setC, h]

/-- run thread `t` until it cannot move (or the fuel runs out) -/
def settle : Nat → State → Nat → State
  | 0, s, _ => s
  | fuel + 1, s, t => match step s t with
    | some (s', _) => settle fuel s' t
    | none => s

/-- Non-vacuity: I = 128; creator t1 makes Till(seconds=200) at clock 0; the daemon scans at 0, sleeps
to 128, scans, sleeps to 200, scans and fires the Till exactly at its deadline, never early. -/
def demo13 : Option State := do
  let s := settle 3 (init 128) 0                       -- enable, loop test, read clock
  let s ← callTill s 1 200
  let s := settle 20 s 1                               -- create + register
  let s := settle 40 s 0                               -- scan at 0, then sleep
  let s := tick s 128
  let s := settle 40 s 0
  let s := tick s 72
  pure (settle 40 s 0)

example : (demo13.map fun s => (s.now, s.fired 0, s.firedAt 0, s.deadline 0, s.early)) = some (200, true, 200, 200, false) := by
  decide

end MoThreads.Till
