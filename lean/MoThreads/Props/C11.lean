/-
  C11 — Threads: stop() reaches every descendant; main stop leaves nothing running.
  Theorems about M5 (the model of the REPAIRED threads.py: children stay registered until joined).
  Proved so far: stop() never blocks; it snapshots each visited thread's children under that thread's lock
  and visits every one of them before triggering the thread's own please_stop; a thread stays listed
  under its parent until it has stopped (so a later stop() still reaches it); MainThread.stop() returns
  only after every child of the main thread — hence, by C10, every registered descendant — has stopped,
  and reports failures after having joined all.
  `C11_stop_reaches_every_descendant` / `C11_stop_returned`: when stop(p) returns, every thread that was p or a
  registered descendant of p when the call started has please_stop set or has already stopped — for every
  tree, and for every interleaving with threads that end, are joined and unregistered, or register new
  children while stop() walks (Proofs/TreeStop.lean: the walk keeps every target covered).
-/
import MoThreads.Props.C12
import MoThreads.Proofs.TreeStop
import MoThreads.Proofs.TreeRank
namespace MoThreads.ThreadTree
open MoThreads

/-- stop() never blocks: every step of the flattened stop() is enabled. -/
theorem C11_stop_never_blocks {s : State} (t : Nat) (a : SAct) (rest : List SAct) (k : List SAct → Call) :
    (stepStop s t (a :: rest) k).isSome = true := by
  unfold stepStop; cases a <;> simp

/-- Visiting a thread snapshots its children (one locked read) and schedules a visit of every one of
them before the thread's own please_stop is triggered. -/
theorem C11_visit_reaches_children {s s' : State} {t u : Nat} {rest : List SAct} {k : List SAct → Call} {l : Label}
    (hs : stepStop s t (.visit u :: rest) k = some (s', l)) :
    l = .snap u (s.children u) ∧
    s'.call t = k ((s.children u).map .visit ++ [.fire u] ++ rest) ∧ s'.pstop = s.pstop := by
  unfold stepStop at hs; cases hs; simp [upd]

theorem C11_fire_sets_please_stop {s s' : State} {t u : Nat} {rest : List SAct} {k : List SAct → Call} {l : Label}
    (hs : stepStop s t (.fire u :: rest) k = some (s', l)) : s'.pstop u = true ∧ s'.call t = k rest := by
  unfold stepStop at hs; cases hs; simp [upd]

/-- please_stop is never reset. -/
theorem C11_please_stop_permanent {s s' : State} {t u : Nat} {l : Label} (hs : step s t = some (s', l))
    (hp : s.pstop u = true) : s'.pstop u = true := by
  have hS : ∀ {w : List SAct} {k : List SAct → Call}, stepStop s t w k = some (s', l) → s'.pstop u = true := by
    intro w k h; unfold stepStop at h
    cases w with
    | nil => cases h
    | cons a r => cases a <;> cases h <;> simp [upd, hp] <;> (try (split <;> simp_all))
  have hJ : ∀ {top : List Nat} {w : List JAct} {tl : Option Nat} {raised : List Nat} {all : Bool} {k : List JAct → List Nat → Call},
      stepJoin s t top w tl raised all k = some (s', l) → s'.pstop u = true := by
    intro top w tl raised all k h; unfold stepJoin at h
    cases w with
    | nil => cases h
    | cons a r =>
      cases a with
      | wait x => simp only at h; split at h; (cases h; exact hp); split at h; (cases h; exact hp); cases h
      | _ => cases h; exact hp
  unfold step at hs
  split at hs <;> (try (cases hs; done)) <;> (try (cases hs; exact hp))
  all_goals (split at hs <;> (try (cases hs; done)) <;> (try (cases hs; exact hp)) <;> (try exact hS hs) <;> (try exact hJ hs))
  all_goals (try (split at hs <;> (try (cases hs; done)) <;> (try (cases hs; exact hp)) <;> (try exact hS hs) <;> (try exact hJ hs)))
  all_goals (try (split at hs <;> (try (cases hs; done)) <;> (try (cases hs; exact hp)) <;> (try exact hS hs) <;> (try exact hJ hs)))
  all_goals (try (cases hs; (first | (simp [upd, hp]; done) | (simp only [upd]; split <;> simp_all))))

/-- A thread that has not stopped is still listed under its parent: a stop() issued now on the
parent will find it (this is what the repaired shutdown block guarantees; the pinned tree detached the
list before stopping the children). -/
theorem C11_running_child_is_listed {s : State} (h : sys.Reach s) (p c : Nat) (hc : c ∈ s.everChild p)
    (hr : s.stopped c = false) : c ∈ s.children p := C10_listed_until_stopped h p c hc hr

/-- MainThread.stop(): when its join phase is over every thread that was a child of the main thread
at the snapshot has stopped — and, by C10, so has every registered descendant. -/
theorem C11_main_stop_waits_for_all {s : State} (h : sys.Reach s) (cs raised : List Nat)
    (hc : s.call 0 = .mJ cs [] raised) (c d : Nat) (hcm : c ∈ cs) :
    s.stopped c = true ∧ (Desc s c d → s.stopped d = true) := by
  have i := reach_inv h
  have hst : s.stopped c = true := by
    rcases i.jtop 0 cs [] none raised (by simp [hc, Call.jwork]) c hcm with h1 | h1 | h1 | h1
    · cases h1
    · cases h1
    · exact h1
    · simp [tillOn] at h1
  exact ⟨hst, fun hd => C10_descendants_first h c d hst hd⟩

/-- **Closure of stop().**  Thread `t` calls `stop(p)` in state `s0`; `s1` is any later state (any
interleaving of steps of any threads, API calls and timeouts in between).  Then either the walk is
still under way, or every thread that was `p` or a registered descendant of `p` (through any number of
generations, `Desc` over the ghost registration lists) when the call started has been asked to stop
or has already stopped — even though the tree keeps changing while stop() walks it (children being
joined and unregistered, threads ending, new threads registering). -/
theorem C11_stop_reaches_every_descendant {s0 s1 : State} {t p : Nat} (h0 : sys.Reach s0)
    (hph : s0.phase t = .running) (hc : s0.call t = .stopping [.visit p]) (g : Seg s0 s1) :
    (∃ a work, s1.call t = .stopping (a :: work)) ∨
    (∀ d, d = p ∨ Desc s0 p d → s1.pstop d = true ∨ s1.stopped d = true) := by
  rcases walk_seg h0 hph hc g with h | ⟨_, work, hcl, hcov⟩
  · exact Or.inr h
  · cases work with
    | cons a w => exact Or.inl ⟨a, w, hcl⟩
    | nil =>
      refine Or.inr (fun d hd => ?_)
      rcases hcov d hd with h1 | h1 | h1 | h1 | ⟨u, hu, _⟩
      · exact Or.inl h1
      · exact Or.inr h1
      · cases h1
      · cases h1
      · cases hu

/-- … in particular at the moment stop() returns (empty work list) and at any time after it -/
theorem C11_stop_returned {s0 s1 : State} {t p : Nat} (h0 : sys.Reach s0)
    (hph : s0.phase t = .running) (hc : s0.call t = .stopping [.visit p]) (g : Seg s0 s1)
    (hret : s1.call t = .stopping [] ∨ ∃ r, s1.call t = .idle r) (d : Nat) (hd : d = p ∨ Desc s0 p d) :
    s1.pstop d = true ∨ s1.stopped d = true := by
  rcases C11_stop_reaches_every_descendant h0 hph hc g with ⟨a, w, hw⟩ | h
  · rcases hret with hr | ⟨r, hr⟩ <;> (rw [hr] at hw; cases hw)
  · exact h d hd

/-- a thread that is still running (not stopped) when stop() has returned has `please_stop` set -/
theorem C11_running_descendant_is_signalled {s0 s1 : State} {t p : Nat} (h0 : sys.Reach s0)
    (hph : s0.phase t = .running) (hc : s0.call t = .stopping [.visit p]) (g : Seg s0 s1)
    (hret : s1.call t = .stopping []) (d : Nat) (hd : d = p ∨ Desc s0 p d) (hrun : s1.stopped d = false) :
    s1.pstop d = true := by
  rcases C11_stop_returned h0 hph hc g (Or.inl hret) d hd with h | h
  · exact h
  · rw [hrun] at h; cases h

/-! non-vacuity: main spawns t1, t1 spawns t2, t2 spawns t3; main calls stop(t1) while all run -/
def demo11 : Option (State × State) := do
  let s ← call init 0 .spawn
  let s := settle 10 s 0
  let s := settle 10 s 1
  let s ← call s 1 .spawn
  let s := settle 10 s 1
  let s := settle 10 s 2
  let s ← call s 2 .spawn
  let s := settle 10 s 2
  let s := settle 10 s 3
  let s0 ← call s 0 (.stop 1)
  let s1 := settle 6 s0 0          -- visit 1, visit 2, visit 3, fire 3, fire 2, fire 1
  pure (s0, s1)

example : (demo11.map fun q => (q.1.call 0, q.1.everChild 1, q.1.everChild 2, q.2.call 0)) = some (.stopping [.visit 1], [2], [3], .stopping []) := by
  decide
example : (demo11.map fun q => (q.2.pstop 1, q.2.pstop 2, q.2.pstop 3, q.2.stopped 3)) = some (true, true, true, false) := by
  decide


/-- Every thread that exists descends, through the registration lists, from the main thread or from an orphan (a thread
created with `parent_thread=Null`, registered in `ALL` only). -/
theorem C11_every_thread_has_a_root {s : State} (h : sys.Reach s) (c : Nat) (hc0 : c ≠ 0)
    (hpc : s.phase c ≠ .absent) : Desc s 0 c ∨ ∃ o, s.orphan o = true ∧ (c = o ∨ Desc s o c) := desc_of_root h c hc0 hpc

/-- The sweep takes the whole registry: the step that removes the main thread from `ALL` snapshots everything that is
left, and a stop() of each of those threads is scheduled. -/
theorem C11_sweep_snapshot_is_the_registry {s s' : State} {l : Label} (h : sys.Reach s) (cs raised : List Nat)
    (hc : s.call 0 = .m2 cs raised) (hs : step s 0 = some (s', l)) :
    ∃ res, s'.call 0 = .mRS cs raised res (res.map .visit) ∧ ∀ u, u ≠ 0 → s.inAll u = true → u ∈ res := by
  have hr := (reach_invR h).2
  unfold step at hs; rw [hr.R5] at hs; simp only [hc] at hs; cases hs
  refine ⟨_, by simp [upd], fun u hu hin => (List.mem_erase_of_ne hu).mpr (hr.R8 u hin)⟩

/-- MainThread.stop() leaves nothing behind: when the join of the swept threads is over, every thread that was in the
registry `ALL` at the snapshot has stopped and is out of the registry, and so has every thread that descends from the main
thread (children, their descendants through any number of generations, threads registered while the shutdown was under way);
what is reported (`C12`) comes after all of them have been stopped — a failure in one does not stop the sweep. -/
theorem C11_main_stop_leaves_nothing_registered {s : State} (h : sys.Reach s) (cs raised res raised2 : List Nat)
    (hc : s.call 0 = .mRJ cs raised res [] raised2) :
    (∀ u, u ∈ res → s.stopped u = true ∧ (u ≠ 0 → s.inAll u = false)) ∧
    (∀ c, Desc s 0 c → s.stopped c = true ∧ (c ≠ 0 → s.inAll c = false)) := by
  obtain ⟨hi, hr⟩ := reach_invR h
  have unreg : ∀ c, s.stopped c = true → c ≠ 0 → s.inAll c = false := by
    intro c hst hc0
    refine hr.R1 c hc0 ?_
    have := (hi.stP c).mp hst
    cases hp : s.phase c <;> simp_all [Phase.isStopped, Phase.unregistered]
  constructor
  · intro u hu
    have := hi.jtop 0 res [] none raised2 (by simp [hc, Call.jwork]) u hu
    have hst : s.stopped u = true := by simpa [tillOn] using this
    exact ⟨hst, unreg u hst⟩
  · intro c hd
    have top : ∀ c1, c1 ∈ s.everChild 0 → s.stopped c1 = true := hr.R0 (by rw [hc]; rfl)
    have hst : s.stopped c = true := by
      cases hd with
      | child h1 => exact top c h1
      | step h1 hd' => exact C10_descendants_first h _ _ (top _ h1) hd'
    exact ⟨hst, unreg c hst⟩

/-- non-vacuity: main spawns t1, t1 starts the orphan t2; MainThread.stop() is called while both run; t1 fails; the join
phase ends, the registry sweep finds t2, stops it and joins it; at the end both have stopped, neither is registered any
more, and the failure of t1 is on record (the call returns `allRaised`) -/
def demoMainStop : Option State := do
  let s ← call init 0 .spawn
  let s := settle 10 s 0
  let s := settle 10 s 1
  let s ← call s 1 .spawnOrphan
  let s := settle 10 s 1
  let s := settle 10 s 2
  let s ← call s 0 .mainStop
  let s := settle 40 s 0            -- please_stop, snapshot, stop the children, block joining t1
  let s ← call s 1 (.finish .fail)
  let s := settle 40 s 1
  let s := settle 40 s 0            -- join phase over; sweep: snapshot [t2], stop(t2), block joining t2
  let s ← call s 2 (.finish (.ok 1))
  let s := settle 40 s 2
  pure (settle 3 s 0)

example : (demoMainStop.map fun s => (s.call 0, s.orphan 2, s.pstop 2)) = some (.mRJ [1] [1] [2] [] [], true, true) := by decide
example : (demoMainStop.map fun s => (s.stopped 1, s.stopped 2, s.inAll 1, s.inAll 2)) = some (true, true, false, false) := by decide

example : (demoMainStop.map fun s => (settle 1 s 0).call 0) = some (.idle .allRaised) := by decide

end MoThreads.ThreadTree
