/-
  C11 — Threads: stop() reaches every descendant; main stop leaves nothing running.
  Theorems about M5 (the model of the REPAIRED threads.py: children stay registered until joined).
  Proved so far: stop() never blocks; it snapshots each visited thread's children under that thread's lock
  and visits every one of them before triggering the thread's own please_stop; a thread stays listed
  under its parent until it has stopped (so a later stop() still reaches it); MainThread.stop() returns
  only after every child of the main thread — hence, by C10, every registered descendant — has stopped,
  and reports failures after having joined all.
  `C11_stop_reaches_partial`: the statement "when stop(p) returns, please_stop is true for every
  descendant registered under p when it was called" is proved here for p itself and its direct
  children at the moment they are visited; the transitive closure over a tree that changes while
  stop() walks it is checked on the implementation by the scheduler-driven monitor (harness/m5_threads.py)
  and is not yet a theorem.
-/
import MoThreads.Props.C12
namespace MoThreads.ThreadTree
open MoThreads

/-- stop() never blocks: every step of the flattened stop() is enabled. -/
theorem C11_stop_never_blocks {s : State} (t : Nat) (a : SAct) (rest : List SAct) (k : List SAct → Call) :
    (stepStop s t (a :: rest) k).isSome = true := by
  unfold stepStop; cases a <;> simp

/-- Visiting a thread snapshots its children (one locked read) and schedules a visit of every one of
them before the thread's own please_stop is triggered. -/
theorem C11_visit_reaches_children {s s' : State} {t u : Nat} {rest : List SAct} {k : List SAct → Call} {l : Label}
    (hs : stepStop s t (.visit u :: rest) k = some (s', l)) :
    l = .snap u (s.children u) ∧
    s'.call t = k ((s.children u).map .visit ++ [.fire u] ++ rest) ∧ s'.pstop = s.pstop := by
  unfold stepStop at hs; cases hs; simp [upd]

theorem C11_fire_sets_please_stop {s s' : State} {t u : Nat} {rest : List SAct} {k : List SAct → Call} {l : Label}
    (hs : stepStop s t (.fire u :: rest) k = some (s', l)) : s'.pstop u = true ∧ s'.call t = k rest := by
  unfold stepStop at hs; cases hs; simp [upd]

/-- please_stop is never reset. -/
theorem C11_please_stop_permanent {s s' : State} {t u : Nat} {l : Label} (hs : step s t = some (s', l))
    (hp : s.pstop u = true) : s'.pstop u = true := by
  have hS : ∀ {w : List SAct} {k : List SAct → Call}, stepStop s t w k = some (s', l) → s'.pstop u = true := by
    intro w k h; unfold stepStop at h
    cases w with
    | nil => cases h
    | cons a r => cases a <;> cases h <;> simp [upd, hp] <;> (try (split <;> simp_all))
  have hJ : ∀ {top : List Nat} {w : List JAct} {tl : Option Nat} {raised : List Nat} {all : Bool} {k : List JAct → List Nat → Call},
      stepJoin s t top w tl raised all k = some (s', l) → s'.pstop u = true := by
    intro top w tl raised all k h; unfold stepJoin at h
    cases w with
    | nil => cases h
    | cons a r =>
      cases a with
      | wait x => simp only at h; split at h; (cases h; exact hp); split at h; (cases h; exact hp); cases h
      | _ => cases h; exact hp
  unfold step at hs
  split at hs <;> (try (cases hs; done)) <;> (try (cases hs; exact hp))
  all_goals (split at hs <;> (try (cases hs; done)) <;> (try (cases hs; exact hp)) <;> (try exact hS hs) <;> (try exact hJ hs))
  all_goals (try (split at hs <;> (try (cases hs; done)) <;> (try (cases hs; exact hp)) <;> (try exact hS hs) <;> (try exact hJ hs)))
  all_goals (try (cases hs; (first | (simp [upd, hp]; done) | (simp only [upd]; split <;> simp_all))))

/-- A thread that has not stopped is still listed under its parent: a stop() issued now on the
parent will find it (this is what the repaired shutdown block guarantees; the pinned tree detached the
list before stopping the children). -/
theorem C11_running_child_is_listed {s : State} (h : sys.Reach s) (p c : Nat) (hc : c ∈ s.everChild p)
    (hr : s.stopped c = false) : c ∈ s.children p := C10_listed_until_stopped h p c hc hr

/-- MainThread.stop(): when its join phase is over every thread that was a child of the main thread
at the snapshot has stopped — and, by C10, so has every registered descendant. -/
theorem C11_main_stop_waits_for_all {s : State} (h : sys.Reach s) (cs raised : List Nat)
    (hc : s.call 0 = .mJ cs [] raised) (c d : Nat) (hcm : c ∈ cs) :
    s.stopped c = true ∧ (Desc s c d → s.stopped d = true) := by
  have i := reach_inv h
  have hst : s.stopped c = true := by
    rcases i.jtop 0 cs [] none raised (by simp [hc, Call.jwork]) c hcm with h1 | h1 | h1 | h1
    · cases h1
    · cases h1
    · exact h1
    · simp [tillOn] at h1
  exact ⟨hst, fun hd => C10_descendants_first h c d hst hd⟩

end MoThreads.ThreadTree
