/-
  C07 — Queue: linearizable FIFO, every value delivered exactly once.
  Theorems about M4 (Model/Queue.lean).  Every deque mutation is one atomic step of the thread that
  holds the queue's mutex during its own call, i.e. a linearisation point inside the call's interval;
  the theorems below say that the sequence of these points is a legal sequential FIFO history.
  Wake-ups are arbitrary (environment `signal`), so nothing here depends on the Lock's baton discipline.
-/
import MoThreads.Proofs.QueueMain
namespace MoThreads.Queue
open MoThreads

/-- Mutations happen only while holding the mutex, and at most one thread holds it: operations take
effect one at a time. -/
theorem C07_one_at_a_time {s : State} (h : sys.Reach s) (t u : Nat)
    (ht : (s.pc t).holds = true) (hu : (s.pc u).holds = true) : t = u := by
  have i := reach_inv h
  have a := (i.mutex t).mp ht
  have b := (i.mutex u).mp hu
  rw [a] at b; exact Option.some.inj b

/-- FIFO refinement: as long as nobody sneaks values to the front, (initial contents ++ everything
appended so far) = (everything taken out so far, in the order taken) ++ (current contents).
So values leave in exactly the order they were appended, each at most once, none lost. -/
theorem C07_fifo {s : State} (h : sys.Reach s) (hp : s.pushed = []) :
    s.dq0 ++ s.added = s.removed ++ s.dq := (reach_inv h).fifo hp

/-- In general (with push): conservation of every value's multiplicity — nothing is duplicated or lost. -/
theorem C07_conservation {s : State} (h : sys.Reach s) (v : Nat) :
    s.dq0.count v + s.added.count v + s.pushed.count v = s.removed.count v + s.dq.count v :=
  (reach_inv h).cnt v

/-- Every value handed out is the head of the queue at that instant (pop, pop_one). -/
theorem C07_pop_takes_head {s s' : State} {t v : Nat} (hs : step s t = some (s', .popleft v)) :
    ∃ rest, s.dq = v :: rest ∧ s'.dq = rest := by
  unfold step at hs
  cases hp : s.pc t <;> rw [hp] at hs <;> simp only [acquire] at hs <;> (try split at hs) <;> (try split at hs) <;>
    (try cases hs) <;> (try (rename_i a _; cases a <;> (try rename_i l; cases l) <;> cases hs))
  all_goals (rename_i rest heq; exact ⟨rest, heq, by simp [State.setPc]⟩)

/-- pop(till) returns None only on the timed-out path, after its till fired (or close, which yields
the stop marker instead) … -/
theorem C07_pop_none_only_after_till {s : State} (h : sys.Reach s) (t : Nat) (tl : Option Nat)
    (hp : s.pc t = .pT tl) : s.closed = true ∨ tillOn s tl = true :=
  (reach_inv h).tout t tl (by simp [hp, PC.timedOutTill])

/-- … and that path leaves the contents untouched: the step that decides None/STOP changes nothing. -/
theorem C07_pop_none_untouched {s s' : State} {t : Nat} {tl : Option Nat} {l : Label} (hp : s.pc t = .pT tl)
    (hs : step s t = some (s', l)) : s'.dq = s.dq ∧ s'.removed = s.removed ∧
      s'.pc t = .sRel (if s.closed then .stop else .nothing) := by
  unfold step at hs; rw [hp] at hs; cases hs; simp [State.setPc]

/-- a pop never finds an empty deque at its popleft -/
theorem C07_popleft_enabled {s : State} (h : sys.Reach s) (t : Nat) (hp : s.pc t = .pPop ∨ s.pc t = .oPop) :
    s.dq ≠ [] := (reach_inv h).popNe t (by rcases hp with hp | hp <;> simp [hp, PC.popping])

/-- Non-vacuity: producer t0 adds 7 then 8, consumer t1 pops twice: gets 7 then 8. -/
def demo : Option State := do
  let run (s : State) (ts : List Nat) : Option State := ts.foldlM (fun s t => (step s t).map (·.1)) s
  let s ← call (init 2 false true []) 0 (.add 7 none false)
  let s ← run s [0, 0, 0, 0, 0, 0]
  let s ← call s 0 (.add 8 none false)
  let s ← run s [0, 0, 0, 0, 0, 0]
  let s ← call s 1 (.pop none)
  let s ← run s [1, 1, 1, 1]
  let s ← call s 1 (.pop none)
  run s [1, 1, 1, 1]

example : (demo.map fun s => (s.removed, s.dq, s.pc 1, s.added)) = some ([7, 8], [], .idle (.val 8), [7, 8]) := by decide

end MoThreads.Queue
