/-
  C02 — Signal.then: every callback runs exactly once, only after trigger.
  Theorems about M1.  `k` ranges over registration ids (one per then() call); `raises` is arbitrary,
  so everything below holds for every subset of raising callbacks.
-/
import MoThreads.Props.C01
namespace MoThreads.SignalCore
open MoThreads

/-- Never twice: in every reachable state callback `k` has run at most once. -/
theorem C02_at_most_once {s : State} (h : sys.Reach s) (k : Nat) : s.ran k ≤ 1 := by
  have := (reach_inv h).ranLoc k; rw [this]; split <;> omega

/-- Only when true: if `k` has run, the flag is true … -/
theorem C02_only_when_true {s : State} (h : sys.Reach s) (k : Nat) (hr : 1 ≤ s.ran k) : s.go = true := by
  have i := reach_inv h
  have := i.ranLoc k
  by_cases hh : (s.loc k).hasRun = true
  · exact i.ranGo k (Or.inl hh)
  · simp [hh] at this; omega

/-- … and the very step that invokes the callback is taken in a state whose flag is already true. -/
theorem C02_callback_step_sees_flag {s s' : State} {t k : Nat} (h : sys.Reach s)
    (hs : step s t = some (s', .cb k)) : s.go = true := by
  have i := reach_inv h
  unfold step at hs
  cases hp : s.pc t <;> rw [hp] at hs <;> simp only at hs <;> (try split at hs) <;> (try cases hs)
  all_goals exact i.sawGo t (by simp [hp, PC.sawGo])

/-- Exactly once: once the system is quiescent with the flag true, every registration that was made
(`k < nextK`) and not removed while the flag was false has run exactly once — whatever the
interleaving of then()/remove_then()/go()/wait() and whichever callbacks raise. -/
theorem C02_exactly_once {s : State} (h : sys.Reach s) (hq : sys.Quiescent s) (hg : s.go = true)
    (k : Nat) (hk : k < s.nextK) (hrem : s.removed k = false) : s.ran k = 1 := by
  have i := reach_inv h
  have hidle := C01_quiescent_all_returned h hq hg
  have hwin : s.winner = none := by
    cases hl : s.winner with
    | none => rfl
    | some u =>
      obtain ⟨r, hr⟩ := hidle u
      have := (i.win u).mpr hl; simp [hr, PC.isWinner] at this
  have hloc : s.loc k = .done := by
    cases hl : s.loc k with
    | unborn => exact absurd hl (i.locBorn k hk)
    | inThen t =>
      obtain ⟨r, hr⟩ := hidle t
      have := (i.locThen t k).mpr hl; simp [hr, PC.thenK] at this
    | queued =>
      have hm := (i.locQ k).mpr hl
      have : truthy s.jobs = true := truthy_iff.mpr (by intro hn; rw [hn] at hm; cases hm)
      rcases i.liveJ this with h2 | h2
      · simp [hg] at h2
      · simp [State.winPC, hwin, PC.preDetachJ] at h2
    | detached =>
      have := (i.locD k).mp hl; simp [State.winPC, hwin, PC.pendingJ] at this
    | erring t =>
      obtain ⟨r, hr⟩ := hidle t
      have := (i.locErr t k).mpr hl; simp [hr, PC.errK] at this
    | done => rfl
    | removed => have := (i.remLoc k).mpr hl; simp [hrem] at this
  have := i.ranLoc k; simp [hloc, Loc.hasRun] at this; exact this

/-- While the flag is still false a registered callback stays queued (it is not lost), and has not run. -/
theorem C02_pending_until_trigger {s : State} (h : sys.Reach s) (k : Nat) (hq : s.loc k = .queued) :
    k ∈ lst s.jobs ∧ s.ran k = 0 := by
  have i := reach_inv h
  refine ⟨(i.locQ k).mpr hq, ?_⟩
  have := i.ranLoc k; simpa [hq, Loc.hasRun] using this

/-- A callback removed before the trigger never runs: `removed k` is permanent and implies `ran k = 0`. -/
theorem C02_removed_never_runs {s : State} (h : sys.Reach s) (k : Nat) (hr : s.removed k = true) :
    s.ran k = 0 := by
  have i := reach_inv h
  have hl := (i.remLoc k).mp hr
  have := i.ranLoc k; simpa [hl, Loc.hasRun] using this

theorem C02_removed_is_permanent {s s' : State} {t : Nat} {l : Label} (hs : step s t = some (s', l))
    (k : Nat) (hr : s.removed k = true) : s'.removed k = true := by
  unfold step at hs
  split at hs <;> (try split at hs) <;> (try split at hs) <;> (try cases hs) <;>
    simp_all [State.setPc, State.setPcG]

/-- remove_then only deletes while the flag is false and under the lock (so it cannot race a run). -/
theorem C02_remove_only_before_trigger {s : State} (h : sys.Reach s) (t k : Nat) (hp : s.pc t = .r5 k) :
    s.go = false ∧ s.lock = some t ∧ k ∈ lst s.jobs := by
  have i := reach_inv h
  exact ⟨i.preSet t (by simp [hp, PC.preSet]), (i.mutex t).mp (by simp [hp, PC.holds]), i.inJ t k hp⟩

/-- A raising callback is isolated: its error handler runs exactly when it ran and raises (never more
than once), for every `raises`; all other theorems of C01/C02 are independent of `raises`. -/
theorem C02_error_handler_at_most_once {s : State} (h : sys.Reach s) (k : Nat) :
    s.errs k ≤ s.ran k ∧ (s.errs k = 1 → s.raises k = true) := by
  have i := reach_inv h
  have h1 := i.errLoc k
  have h2 := i.ranLoc k
  constructor
  · rw [h1, h2]; by_cases hd : s.loc k = .done <;> simp [hd, Loc.hasRun] <;> split <;> omega
  · intro he; rw [h1] at he; split at he
    · rename_i hh; exact hh.2
    · omega

theorem C02_raise_isolated {s : State} (h : sys.Reach s) (hq : sys.Quiescent s) (hg : s.go = true)
    (k : Nat) : s.errs k = if s.raises k = true then s.ran k else 0 := by
  have i := reach_inv h
  have hidle := C01_quiescent_all_returned h hq hg
  have h1 := i.errLoc k
  have h2 := i.ranLoc k
  have hne : ∀ t, s.loc k ≠ .erring t := by
    intro t hl
    obtain ⟨r, hr⟩ := hidle t
    have := (i.locErr t k).mpr hl; simp [hr, PC.errK] at this
  rw [h1, h2]
  cases hl : s.loc k <;> simp_all [Loc.hasRun]

/-- Waiters first: when the publishing go() invokes a callback, every waiter that had registered
has already been released (stoppers are released before any callback runs, so a raising or slow
callback cannot keep a waiter parked). -/
theorem C02_waiters_released_before_callbacks {s : State} (h : sys.Reach s) (g : Nat) (js : List Nat)
    (hp : s.pc g = .g10 js ∨ ∃ k, s.pc g = .g11 k js) (t x : Nat)
    (hw : s.pc t = .w6 x ∨ s.pc t = .w7 x) : s.unlocked x = true := by
  have i := reach_inv h
  have hwin : s.winner = some g := (i.win g).mp (by rcases hp with hp | ⟨k, hp⟩ <;> simp [hp, PC.isWinner])
  have hgo : s.go = true := i.sawGo g (by rcases hp with hp | ⟨k, hp⟩ <;> simp [hp, PC.sawGo])
  rcases i.noLost t x hw with h1 | h1 | h1
  · exact h1
  · have : truthy s.waiting = true := truthy_iff.mpr (by intro hn; rw [hn] at h1; cases h1)
    rcases i.liveW this with h2 | h2
    · simp [hgo] at h2
    · rcases hp with hp | ⟨k, hp⟩ <;> simp [State.winPC, hwin, hp, PC.preDetachW] at h2
  · rcases hp with hp | ⟨k, hp⟩ <;> simp [State.winPC, hwin, hp, PC.pendingS] at h1

/-- Non-vacuity: t0 registers callback 0 (which raises), t1 registers callback 1, t2 triggers;
both ran once, the handler of 0 ran once, flag true, everybody returned. -/
def demoThen : Option State := do
  let s ← call (init false (fun k => k == 0)) 0 .then_
  let s ← call s 1 .then_
  let s ← call s 2 .go
  let run (s : State) (ts : List Nat) : Option State := ts.foldlM (fun s t => (step s t).map (·.1)) s
  run s ([0, 0, 0, 0, 0] ++ [1, 1, 1, 1, 1] ++ List.replicate 12 2)

example : (demoThen.map fun s => (s.go, s.ran 0, s.ran 1, s.errs 0, s.errs 1, s.pc 2)) =
    some (true, 1, 1, 1, 0, .idle .goSelf) := by decide

/-- every callback registered and not removed before the trigger has run exactly once when such a run ends -/
theorem C02_every_callback_runs {N : Nat} {s s' : State} {tr : List (Nat × Label)} (h : sys.Reach s) (hb : Below N s)
    (hg : s.go = true) (r : sys.Run s tr s') :
    tr.length ≤ rank N s ∧ (sys.Quiescent s' → ∀ k, k < s'.nextK → s'.removed k = false → s'.ran k = 1) :=
  ⟨C01_runs_terminate hb r, fun hq k hk hr => C02_exactly_once (h.run sys r) hq (run_go_mono r hg) k hk hr⟩


end MoThreads.SignalCore
