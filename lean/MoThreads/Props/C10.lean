/-
  C10 — Threads: a parent is never 'stopped' before its children.
  Theorems about M5 (Model/ThreadTree.lean, the model of the REPAIRED threads.py): every reachable state of
  every dynamic thread tree, every mix of children that return, raise, are joined early (also with
  timeouts) or are released, every interleaving.  `everChild p` is the ghost list of all threads ever
  registered under p.
-/
import MoThreads.Proofs.TreeAll
namespace MoThreads.ThreadTree
open MoThreads

/-- `stopped` is triggered only by the last step of the thread's own shutdown block. -/
theorem C10_stopped_iff_shutdown_done {s : State} (h : sys.Reach s) (t : Nat) :
    s.stopped t = true ↔ (s.phase t = .linger ∨ s.phase t = .dead) := by
  have := (reach_inv h).stP t
  cases hp : s.phase t <;> simp_all [Phase.isStopped]

/-- Children first: when a thread's `stopped` is true, every thread ever registered as its child has stopped. -/
theorem C10_children_first {s : State} (h : sys.Reach s) (p c : Nat) (hs : s.stopped p = true)
    (hc : c ∈ s.everChild p) : s.stopped c = true := by
  have i := reach_inv h
  have hph := (i.stP p).mp hs
  exact i.finD p (by cases hp : s.phase p <;> simp_all [Phase.isStopped, Phase.finDone]) c hc

/-- descendants through any number of generations -/
inductive Desc (s : State) : Nat → Nat → Prop
  | child {p c} : c ∈ s.everChild p → Desc s p c
  | step {p c d} : c ∈ s.everChild p → Desc s c d → Desc s p d

/-- … and transitively: no registered descendant of a stopped thread is still running. -/
theorem C10_descendants_first {s : State} (h : sys.Reach s) (p d : Nat) (hs : s.stopped p = true)
    (hd : Desc s p d) : s.stopped d = true := by
  induction hd with
  | child hc => exact C10_children_first h _ _ hs hc
  | step hc _ ih => exact ih (C10_children_first h _ _ hs hc)

/-- Every registration is recorded: the step that appends a child to `children` also puts it in `everChild`. -/
theorem C10_registration_recorded {s s' : State} {t c : Nat} {l : Label} (hph : s.phase t = .running)
    (hc : s.call t = .spawn c) (hnc : c ∉ s.children t) (hno : s.orphan c = false) (hs : step s t = some (s', l)) :
    l = .reg c t ∧ c ∈ s'.everChild t ∧ c ∈ s'.children t := by
  unfold step at hs; rw [hph] at hs; simp only [hc, hnc, hno, false_or, Bool.false_eq_true, if_false] at hs
  cases hs; simp [upd]

/-- A child is unregistered (by join) only after it has stopped; so while a thread is not stopped it is
still listed under its parent — stop() issued on the parent can reach it. -/
theorem C10_listed_until_stopped {s : State} (h : sys.Reach s) (p c : Nat) (hc : c ∈ s.everChild p)
    (hr : s.stopped c = false) : c ∈ s.children p := by
  rcases (reach_inv h).ever p c hc with h1 | h1
  · exact h1
  · simp [hr] at h1

/-- The shutdown block never blocks except while waiting for a child that has not stopped yet. -/
theorem C10_shutdown_waits_only_for_children {s : State} (h : sys.Reach s) (t : Nat) (cs : List Nat)
    (hph : s.phase t = .fin3 cs) (hq : step s t = none) :
    ∃ u rest raised, s.call t = .joining cs (.wait u :: rest) none raised true ∧ s.stopped u = false := by
  obtain ⟨work, raised, hc⟩ := (reach_inv h).fin3C t cs hph
  unfold step at hq; rw [hph] at hq; simp only [hc] at hq
  cases work with
  | nil => simp at hq
  | cons a rest =>
    simp only [stepJoin] at hq
    cases a with
    | wait u =>
      simp only at hq
      split at hq
      · cases hq
      · rename_i hst
        exact ⟨u, rest, raised, hc, by simpa using hst⟩
    | _ => simp at hq

/-- Non-vacuity: main spawns t1; t1 spawns t2; t2 fails; t1 returns; t1's shutdown block joins t2 and only
then t1 is stopped. -/
def settle : Nat → State → Nat → State
  | 0, s, _ => s
  | fuel + 1, s, t => match step s t with
    | some (s', _) => settle fuel s' t
    | none => s

def demo10 : Option State := do
  let s ← call init 0 .spawn
  let s := settle 10 s 0
  let s := settle 10 s 1            -- t1 registers in ALL, runs
  let s ← call s 1 .spawn
  let s := settle 10 s 1
  let s := settle 10 s 2
  let s ← call s 1 (.finish (.ok 5))
  let s := settle 40 s 1            -- t1's shutdown block: stops t2, blocks joining it
  let blocked := s.stopped 1
  let s ← call s 2 (.finish .fail)
  let s := settle 40 s 2            -- t2 ends
  let s := settle 40 s 1            -- now t1 finishes
  if blocked then none else pure s

example : (demo10.map fun s => (s.stopped 1, s.stopped 2, s.everChild 1, s.outcome 2)) = some (true, true, [2], some .fail) := by
  decide

end MoThreads.ThreadTree
