/-
  C08 — Queue: capacity bound and back-pressure.  Theorems about M4, for every `max`, any number of
  producers/consumers, any wake-up policy.
-/
import MoThreads.Props.C07
namespace MoThreads.Queue
open MoThreads

/-- A non-forced add() appends only after passing the space test under the mutex: at the append,
the queue is closed or holds fewer than `max` values — so an open queue never grows past `max`
through add(). -/
theorem C08_bound {s s' : State} {t v : Nat} {l : Label} (h : sys.Reach s) (hp : s.pc t = .sAct (.add v) true)
    (hs : step s t = some (s', l)) : s.closed = true ∨ s'.dq.length ≤ s.max := by
  have i := reach_inv h
  rcases i.room t (by simp [hp, PC.passed]) with h1 | h1
  · exact Or.inl h1
  · right
    unfold step at hs; rw [hp] at hs; cases hs
    simp [State.setPc]; omega

/-- The space test itself: a producer that finds the open queue full does not add; it tests its
give-up signal, raises THREAD_TIMEOUT if that has fired (contents unchanged), and parks otherwise. -/
theorem C08_full_blocks_or_raises {s s' : State} {t x : Nat} {a : Act} {l : Label} (hp : s.pc t = .sTill a x)
    (hs : step s t = some (s', l)) :
    s'.dq = s.dq ∧ s'.added = s.added ∧
      s'.pc t = (if s.tillFired x then .sRel .timeout else .sPark a (some x)) := by
  unfold step at hs; rw [hp] at hs; cases hs; simp [State.setPc]

/-- A timed-out wake-up re-tests everything: after waking, the producer goes back to the loop head
(closed?, room?, till?) — it never appends without room. -/
theorem C08_woken_producer_retests {s s' : State} {t : Nat} {a : Act} {tl : Option Nat} {l : Label}
    (hp : s.pc t = .sWoke a tl) (hs : step s t = some (s', l)) : s'.pc t = .sC a tl ∧ s'.dq = s.dq := by
  unfold step at hs; rw [hp] at hs; cases hs; simp [State.setPc]

/-- A parked producer is resumed by a signal (a consumer made room and passed the baton) or by its
own till, and only takes the mutex when it is free. -/
theorem C08_parked_producer_enabled_iff {s : State} (t : Nat) (a : Act) (tl : Option Nat)
    (hp : s.pc t = .sParked a tl) :
    (step s t).isSome = true ↔ ((s.signalled t = true ∨ tillOn s tl = true) ∧ s.mutex = none) := by
  unfold step; rw [hp]; simp only
  by_cases hc : ((s.signalled t || tillOn s tl) && decide (s.mutex = none)) = true
  · simp only [hc, if_true, Option.isSome_some, true_iff]
    simpa [Bool.and_eq_true, Bool.or_eq_true] using hc
  · simp only [hc]; simp
    simp [Bool.and_eq_true, Bool.or_eq_true] at hc
    intro h1; exact hc h1

/-- Non-vacuity: max = 1, queue holds 5; producer t0 with till 3 finds it full, parks; the till
fires; it wakes (timeout), re-tests, raises, contents unchanged. -/
def demo8 : Option State := do
  let run (s : State) (ts : List Nat) : Option State := ts.foldlM (fun s t => (step s t).map (·.1)) s
  let s ← call (init 1 false [5]) 0 (.add 9 (some 3) false)
  let s ← run s [0, 0, 0, 0, 0, 0]
  let s := fireTill s 3
  run s [0, 0, 0, 0, 0, 0]

example : (demo8.map fun s => (s.dq, s.pc 0, s.mutex)) = some ([5], .idle .timeout, none) := by decide

end MoThreads.Queue
