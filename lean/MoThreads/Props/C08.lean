/-
  C08 — Queue: capacity bound and back-pressure.  Theorems about M4, for every `max`, any number of
  producers/consumers, any wake-up policy, silent and non-silent queues.
-/
import MoThreads.Props.C07
namespace MoThreads.Queue
open MoThreads

/-- A non-forced add() appends only after passing the space test under the mutex: at the append,
the queue is closed or holds fewer than `max` values — so an open queue never grows past `max`
through add(). -/
theorem C08_bound {s s' : State} {t v : Nat} {l : Label} (h : sys.Reach s) (hp : s.pc t = .sAct (.add v) true)
    (hs : step s t = some (s', l)) : s.closed = true ∨ s'.dq.length ≤ s.max := by
  have i := reach_inv h
  rcases i.room t (by simp [hp, PC.passed]) with h1 | h1
  · exact Or.inl h1
  · right
    unfold step at hs; rw [hp] at hs; cases hs
    simp [State.setPc]; omega

/-- The space test itself: a producer that finds the open queue full does not add; it tests its
give-up signal, raises THREAD_TIMEOUT if that has fired (contents unchanged), and parks otherwise. -/
theorem C08_full_blocks_or_raises {s s' : State} {t x : Nat} {a : Act} {l : Label} (hp : s.pc t = .sTill a x)
    (hs : step s t = some (s', l)) :
    s'.dq = s.dq ∧ s'.added = s.added ∧
      s'.pc t = (if s.tillFired x then .sRel .timeout else .sPark a (some x)) := by
  unfold step at hs; rw [hp] at hs; cases hs; simp [State.setPc]

/-- A wake-up re-tests everything: after waking, the producer goes back to the loop head (closed?, room?,
till?) — directly in silent mode, after the "queue is full" alert test (one read of its till, one of the
length) otherwise — and it never appends on the way. -/
theorem C08_woken_producer_retests {s s' : State} {t : Nat} {a : Act} {tl : Option Nat} {l : Label}
    (hp : s.pc t = .sWoke a tl) (hs : step s t = some (s', l)) :
    s'.dq = s.dq ∧ s'.added = s.added ∧
      s'.pc t = (if s.silent then .sC a tl else (match tl with | some x => .sAlertT a x | none => .sAlertLen a none)) := by
  unfold step at hs; rw [hp] at hs; cases hs
  cases tl <;> simp [State.setPc]

theorem C08_alert_test_returns_to_loop_head {s s' : State} {t : Nat} {l : Label} (hs : step s t = some (s', l)) :
    (∀ a x, s.pc t = .sAlertT a x → s'.dq = s.dq ∧ (s'.pc t = .sC a (some x) ∨ s'.pc t = .sAlertLen a (some x))) ∧
    (∀ a tl, s.pc t = .sAlertLen a tl → s'.dq = s.dq ∧ (s'.pc t = .sC a tl ∨ s'.pc t = .sAlertNum a tl)) ∧
    (∀ a tl, s.pc t = .sAlertNum a tl → s'.dq = s.dq ∧ s'.pc t = .sC a tl) := by
  refine ⟨?_, ?_, ?_⟩
  · intro a x hp; unfold step at hs; rw [hp] at hs; cases hs
    simp only [State.setPc, if_true, true_and]; split <;> simp
  · intro a tl hp; unfold step at hs; rw [hp] at hs; cases hs
    simp only [State.setPc, if_true, true_and]; split <;> simp
  · intro a tl hp; unfold step at hs; rw [hp] at hs; cases hs; simp [State.setPc]

/-- A parked producer is resumed by a signal (a consumer made room and passed the baton), by its own till
(silent queue) or by the stall timer of THIS wait (queue that is not silent), and only takes the mutex when it
is free: while none of these happens it does not move. -/
theorem C08_parked_producer_enabled_iff {s : State} (t : Nat) (a : Act) (tl : Option Nat)
    (hp : s.pc t = .sParked a tl) :
    (step s t).isSome = true ↔
      ((s.signalled t = true ∨ (if s.silent then tillOn s tl else s.stalled t) = true) ∧ s.mutex = none) := by
  unfold step; rw [hp]; simp only
  by_cases hc : ((s.signalled t || (if s.silent then tillOn s tl else s.stalled t)) && decide (s.mutex = none)) = true
  · simp only [hc, if_true, Option.isSome_some, true_iff]
    simpa [Bool.and_eq_true, Bool.or_eq_true] using hc
  · simp only [hc]; simp
    simp [Bool.and_eq_true, Bool.or_eq_true] at hc
    intro h1; exact hc h1

/-- Every wait gets a fresh stall timer: parking clears the stall flag, so a timer that fired during an earlier
wait cannot resume the producer again (a producer that kept one timer for the whole stall would spin). -/
theorem C08_stall_timer_is_fresh {s s' : State} {t : Nat} {a : Act} {tl : Option Nat} {l : Label}
    (hp : s.pc t = .sPark a tl) (hs : step s t = some (s', l)) : s'.stalled t = false ∧ s'.pc t = .sRel2 a tl := by
  unfold step at hs; rw [hp] at hs; cases hs; simp [State.setPc]

/-- Non-vacuity: max = 1, queue holds 5; producer t0 with till 3 finds it full, parks; the till
fires; it wakes (timeout), re-tests, raises, contents unchanged. -/
def demo8 : Option State := do
  let run (s : State) (ts : List Nat) : Option State := ts.foldlM (fun s t => (step s t).map (·.1)) s
  let s ← call (init 1 false true [5]) 0 (.add 9 (some 3) false)
  let s ← run s [0, 0, 0, 0, 0, 0]
  let s := fireTill s 3
  run s [0, 0, 0, 0, 0, 0]

example : (demo8.map fun s => (s.dq, s.pc 0, s.mutex)) = some ([5], .idle .timeout, none) := by decide

/-- … and the same on a queue that is not silent: the till fires while the producer is parked, nothing happens
until the stall timer of that wait fires; then it wakes, re-tests and raises. -/
def demo8ns : Option (State × State) := do
  let run (s : State) (ts : List Nat) : Option State := ts.foldlM (fun s t => (step s t).map (·.1)) s
  let s ← call (init 1 false false [5]) 0 (.add 9 (some 3) false)
  let s ← run s [0, 0, 0, 0, 0, 0]
  let s1 := fireTill s 3                -- the caller's till alone does not resume it
  let s := stall s1 0
  let s ← run s [0, 0, 0, 0, 0, 0, 0]
  pure (s1, s)

example : (demo8ns.map fun q => ((step q.1 0).isSome, q.2.dq, q.2.pc 0, q.2.mutex)) = some (false, [5], .idle .timeout, none) := by decide

end MoThreads.Queue
