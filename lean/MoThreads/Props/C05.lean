/-
  C05 — Lock: mutual exclusion, and wait() always returns holding the lock.
  Theorems about M3 (Model/Monitor.lean): every reachable state, any number of threads, any monitor
  program, timeouts fired by the environment at any point.
-/
import MoThreads.Proofs.MonitorMain
namespace MoThreads.Monitor
open MoThreads

/-- At most one thread is inside the `with lock:` region (parked threads are not inside). -/
theorem C05_mutual_exclusion {s : State} (h : sys.Reach s) (t u : Nat)
    (ht : (s.pc t).holdsM = true) (hu : (s.pc u).holdsM = true) : t = u := by
  have i := reach_inv h
  have a := (i.mutex t).mp ht
  have b := (i.mutex u).mp hu
  rw [a] at b; exact Option.some.inj b

/-- A thread suspended inside wait() does not count as inside, and does not own the mutex. -/
theorem C05_parked_is_outside {s : State} (h : sys.Reach s) (t w : Nat) (c : Cond) (tl : Option Nat)
    (hp : s.pc t = .parked w c tl) : s.mutex ≠ some t := by
  intro hm
  have := (reach_inv h).mutex t |>.mpr hm
  simp [hp, PC.holdsM] at this

/-- wait() returns holding the lock — whether it was signalled, timed out, or both. -/
theorem C05_wait_returns_locked {s : State} (h : sys.Reach s) (t : Nat) (b : Bool)
    (hp : s.pc t = .inside (.waited b)) : s.mutex = some t :=
  (reach_inv h).mutex t |>.mp (by simp [hp, PC.holdsM])

/-- Every path out of the parked state goes through the re-acquire step, which needs the mutex free
(nobody is ever released into an occupied critical section). -/
theorem C05_wake_reacquires {s s' : State} {t w : Nat} {c : Cond} {tl : Option Nat} {l : Label}
    (hp : s.pc t = .parked w c tl) (hs : step s t = some (s', l)) :
    s.mutex = none ∧ l = .acq ∧ s'.mutex = some t ∧ (s.fired w = true ∨ tillOn s tl = true) := by
  unfold step at hs; rw [hp] at hs; simp only at hs
  split at hs
  · rename_i hc; cases hs
    simp only [Bool.and_eq_true, Bool.or_eq_true, decide_eq_true_eq] at hc
    exact ⟨hc.2, rfl, by simp [State.setPc], hc.1⟩
  · cases hs

/-- Leaving the block — normally or by an exception (`with` calls __exit__ either way) — releases. -/
theorem C05_exit_releases {s s' : State} {t : Nat} {l : Label} (hp : s.pc t = .x3)
    (hs : step s t = some (s', l)) : s'.mutex = none ∧ l = .rel ∧ s'.pc t = .idle .exited := by
  unfold step at hs; rw [hp] at hs; cases hs; simp [State.setPc]

/-- __exit__ never blocks: from the call of exit to the release every step is enabled. -/
theorem C05_exit_never_blocks {s : State} (h : sys.Reach s) (t : Nat)
    (hp : s.pc t = .x0 ∨ s.pc t = .x1 ∨ (∃ w, s.pc t = .x2 w) ∨ s.pc t = .x3) : (step s t).isSome = true := by
  have i := reach_inv h
  unfold step
  rcases hp with hp | hp | ⟨w, hp⟩ | hp <;> rw [hp] <;> simp
  have := i.x1ne t hp
  cases hg : s.waiting.getLast? with
  | none => simp [List.getLast?_eq_none_iff] at hg; exact absurd hg this
  | some o => simp

/-- Non-vacuity: t0 enters and waits with till 7; t1 enters, sets σ0 := 1, exits (firing t0's waiter);
t0 wakes, re-acquires, returns True holding the lock. -/
def demo : Option State := do
  let s ← call init 0 .enter
  let (s, _) ← step s 0
  let s ← call s 0 (.wait (some (0, 1)) (some 7))
  let run (s : State) (ts : List Nat) : Option State := ts.foldlM (fun s t => (step s t).map (·.1)) s
  let s ← run s [0, 0, 0]
  let s ← call s 1 .enter
  let (s, _) ← step s 1
  let s ← call s 1 (.set 0 1)
  let s ← call s 1 .exit
  let s ← run s [1, 1, 1, 1]
  run s [0, 0]

example : (demo.map fun s => (s.mutex, s.pc 0, s.pc 1, s.waiting)) =
    some (some 0, .inside (.waited true), .idle .exited, []) := by decide

end MoThreads.Monitor
