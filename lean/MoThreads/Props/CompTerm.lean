/-
  C03 / C04 / C15 — L2 for composites (M2): expressions and go() cascades finish, so the quiescent points at which the
  equivalences and the no-leak theorem are stated are reached after finitely many steps of any scheduler.
-/
import MoThreads.Props.C03
import MoThreads.Props.C04
import MoThreads.Props.C15
import MoThreads.Proofs.CompRank
namespace MoThreads.Composite
open MoThreads

/-- L2: with no new operation, no timer firing and no collection, every schedule takes at most `rank s` steps, and where
nobody can move every thread has finished what it was doing or is parked in `wait()` on a signal that is still false. -/
theorem C03_runs_terminate {s s' : State} {tr : List (Nat × Label)} (h : sys.Reach s) (r : sys.Run s tr s') :
    tr.length ≤ rank s ∧
    (sys.Quiescent s' → ∀ t, t < NT → s'.todo t = [] ∨ ∃ c rest, s'.todo t = .waitS c :: rest ∧ (s'.sigs c).go = false) := by
  have := run_length_le_rank (reach_invL h) r
  exact ⟨by omega, fun hq t ht => quiescent_todo hq t ht⟩

/-- no thread is parked in a wait -/
def NoWaiter (s : State) : Prop := ∀ t, t < NT → ∀ c rest, s.todo t ≠ .waitS c :: rest

theorem quiet_of_quiescent {s : State} (hq : sys.Quiescent s) (hw : NoWaiter s) : Quiet s := by
  intro t ht
  rcases quiescent_todo hq t ht with h | ⟨c, rest, h, _⟩
  · exact h
  · exact absurd h (hw t ht c rest)

/-- … so, after finitely many steps, an AND composite is true exactly when both operands are (C04_and_iff_operands at the
state where the cascade has come to rest) -/
theorem C04_and_settles {s s' : State} {tr : List (Nat × Label)} (h : sys.Reach s) (r : sys.Run s tr s')
    (hq : sys.Quiescent s') (hw : NoWaiter s') (n : Nat) (hn : n < s'.nAnd) (hdir : (s'.sigs (s'.ands n).target).direct = false) :
    tr.length ≤ rank s ∧
    ∃ x y, (s'.ands n).deps0 = [x, y] ∧ ((s'.sigs (s'.ands n).target).go = true ↔ ((s'.sigs x).go = true ∧ (s'.sigs y).go = true)) :=
  ⟨(C03_runs_terminate h r).1, C04_and_iff_operands (h.run sys r) (quiet_of_quiescent hq hw) n hn hdir⟩

/-- … and no long-lived signal is left holding a hook of a composite that is gone or triggered -/
theorem C15_no_leak_once_settled {s s' : State} {tr : List (Nat × Label)} (h : sys.Reach s) (r : sys.Run s tr s')
    (hq : sys.Quiescent s') (hw : NoWaiter s') (z o i : Nat) (hj : Job.orHook o i ∈ (s'.sigs z).jobs) :
    tr.length ≤ rank s ∧
    (s'.sigs (s'.ors o).target).alive = true ∧ (s'.sigs (s'.ors o).target).go = false ∧ (s'.ors o).deps0[i]? = some z := by
  have := C15_no_leaked_hook (h.run sys r) (quiet_of_quiescent hq hw) z o i hj
  exact ⟨(C03_runs_terminate h r).1, this.1, this.2.1, this.2.2.1⟩

/-! non-vacuity: `c = a | b` under construction (rank 15), built (7: the two hooks and the cleanup now wait on a, b and c), `a.go()` called (8: the flag, the hook, c.go(), the cleanup
with its two removals, …), and the cascade run to its end in 6 steps (0): nobody can move, nobody is parked -/
example : rank (demoO1.getD init) = 15 ∧ rank (demoO2.getD init) = 7 ∧ rank (demoO3.getD init) = 8 ∧ rank (demoO4.getD init) = 0 := by
  decide +kernel

example : sys.Quiescent (demoO4.getD init) ∧ NoWaiter (demoO4.getD init) := by
  have hall : ∀ t, t < NT → (demoO4.getD init).todo t = [] := by decide +kernel
  constructor
  · intro t
    show step (demoO4.getD init) t = none
    unfold step
    split
    · rename_i ht; rw [hall t ht]
    · rfl
  · intro t ht c rest hh; rw [hall t ht] at hh; cases hh

end MoThreads.Composite
