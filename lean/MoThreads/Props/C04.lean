/-
  C04 — Signal AND: the composite is true exactly when all operands are.
  Theorems about M2 (Model/Composite.lean, the model of `__and__` as REPAIRED: the AndSignals object keeps its
  operands), for every history of building composites (nested, shared operands, `a & a`), dropping references,
  triggering, the reference-count collector, and every interleaving of those operations at the granularity of
  one Signal operation; the countdown step (decrement under its own lock, go() at zero) is one model step, and is
  additionally explored on the real code at the granularity of every access to `remaining` (fine-mode runs).
-/
import MoThreads.Proofs.CompAnd
namespace MoThreads.Composite
open MoThreads

/-- Operands are kept alive: in every reachable state, every operand of a live, untriggered AND composite
is itself alive (it can still be triggered; its own operands, recursively, by `C03_operands_kept_alive`). -/
theorem C04_operands_kept_alive {s : State} (h : sys.Reach s) (n : Nat) (hn : n < s.nAnd)
    (hal : (s.sigs (s.ands n).target).alive = true) (hgo : (s.sigs (s.ands n).target).go = false) :
    ∀ d, d ∈ (s.ands n).deps0 → d < s.nSig ∧ (s.sigs d).alive = true :=
  (reach_invL h).La n hn hal hgo

/-- The reference that keeps them is the one the repair added: the operand list of the AndSignals object is
intact until the composite is triggered, and the object itself is referenced from the composite's job list
(or by the construction still in progress). -/
theorem C04_operand_list_intact {s : State} (h : sys.Reach s) (n : Nat) (hn : n < s.nAnd)
    (hal : (s.sigs (s.ands n).target).alive = true) (hgo : (s.sigs (s.ands n).target).go = false) :
    (s.ands n).deps = (s.ands n).deps0 ∧
    (Job.andCleanup n ∈ (s.sigs (s.ands n).target).jobs ∨ InTodos s (.thenJ (s.ands n).target (.andCleanup n))) := by
  have i := reach_invL h
  refine ⟨?_, i.Ka n hn hal hgo⟩
  cases hdd : decide ((s.ands n).deps = (s.ands n).deps0) with
  | true => exact of_decide_eq_true hdd
  | false =>
    have h1 := i.Jva n hn (of_decide_eq_false hdd)
    rw [hgo] at h1; cases h1

/-- Such an operand cannot be collected: the collector's guard fails for it. -/
theorem C04_operand_not_collectable {s : State} (h : sys.Reach s) (n : Nat) (hn : n < s.nAnd)
    (hal : (s.sigs (s.ands n).target).alive = true) (hgo : (s.sigs (s.ands n).target).go = false)
    (d : Nat) (hd : d ∈ (s.ands n).deps0) : collectable s d = false := by
  have i := reach_invL h
  obtain ⟨hdeps, hk⟩ := C04_operand_list_intact h n hn hal hgo
  cases hc : collectable s d with
  | false => rfl
  | true =>
    exfalso
    have C := collectable_spec hc
    have href : andRef s n = true := by
      rcases hk with h1 | h1
      · exact andRef_of_job (i.F2 n hn).1 hal h1 rfl
      · exact andRef_of_todo h1 rfl rfl
    exact (C.noAnd n hn href).1 (by rw [hdeps]; exact hd)

/-- The countdown never skips and never double-counts: the token of each operand is in at most one place (still to be
registered, registered on the operand, or detached and queued), and `remaining` is exactly the number of operands
whose token has not been consumed (an operand that is true and whose token is gone has been counted). -/
theorem C04_countdown_is_exact {s : State} (h : sys.Reach s) (n x y : Nat) (hn : n < s.nAnd) (hxy : (s.ands n).deps0 = [x, y]) :
    liveA s n 0 x ≤ 1 ∧ liveA s n 1 y ≤ 1 ∧ (s.ands n).remaining = wA s n 0 x + wA s n 1 y := by
  have ha := (reach_all4 h).2.2.2
  exact ⟨ha.TA n 0 x (by rw [hxy]; rfl), ha.TA n 1 y (by rw [hxy]; rfl), ha.W n x y hn hxy⟩

/-- "Only when": at every moment, an AND composite that the program did not trigger directly is true only if every
operand is true. -/
theorem C04_true_only_if_all_operands {s : State} (h : sys.Reach s) (n : Nat) (hn : n < s.nAnd)
    (hgo : (s.sigs (s.ands n).target).go = true) (hdir : (s.sigs (s.ands n).target).direct = false) :
    ∀ d, d ∈ (s.ands n).deps0 → (s.sigs d).go = true := by
  obtain ⟨hl, _, _, ha⟩ := reach_all4 h
  exact ha.GA1 _ n (hl.F2 n hn).1 (hl.F2 n hn).2 hgo hdir

/-- The equivalence, "exactly at the last trigger": at every quiescent point an AND composite that was not triggered
directly is true exactly when all its operands are true — so it is false as long as one operand is false, and true
once the `go()` that triggered the last operand has finished. -/
theorem C04_and_iff {s : State} (h : sys.Reach s) (hq : Quiet s) (n : Nat) (hn : n < s.nAnd)
    (hdir : (s.sigs (s.ands n).target).direct = false) :
    (s.sigs (s.ands n).target).go = true ↔ ∀ d, d ∈ (s.ands n).deps0 → (s.sigs d).go = true := by
  obtain ⟨hl, hh, hg, ha⟩ := reach_all4 h
  constructor
  · intro hgo; exact C04_true_only_if_all_operands h n hn hgo hdir
  · intro hall
    obtain ⟨x, y, hxy⟩ := ha.D2a n hn
    have hx : (s.sigs x).go = true := hall x (by rw [hxy]; simp)
    have hy : (s.sigs y).go = true := hall y (by rw [hxy]; simp)
    have nocnt : ∀ b, cnt s b = 0 := fun b => cnt_zero.mpr (not_inTodos_of_quiet hq b)
    have w0 : ∀ i d, (s.sigs d).go = true → wA s n i d = 0 := by
      intro i d hgd
      unfold wA liveA
      rw [nocnt, nocnt, hh.A1 d hgd, hgd]; simp
    have hr : (s.ands n).remaining = 0 := by rw [ha.W n x y hn hxy, w0 0 x hx, w0 1 y hy]
    rcases ha.Z n hn hr with h1 | h1
    · exact h1
    · exact absurd h1 (not_inTodos_of_quiet hq _)

/-- ... in terms of the two operands. -/
theorem C04_and_iff_operands {s : State} (h : sys.Reach s) (hq : Quiet s) (n : Nat) (hn : n < s.nAnd)
    (hdir : (s.sigs (s.ands n).target).direct = false) :
    ∃ x y, (s.ands n).deps0 = [x, y] ∧ ((s.sigs (s.ands n).target).go = true ↔ ((s.sigs x).go = true ∧ (s.sigs y).go = true)) := by
  obtain ⟨x, y, hxy⟩ := (reach_all4 h).2.2.2.D2a n hn
  refine ⟨x, y, hxy, ?_⟩
  rw [C04_and_iff h hq n hn hdir, hxy]
  constructor
  · intro hall; exact ⟨hall x (by simp), hall y (by simp)⟩
  · rintro ⟨hx, hy⟩ d hd
    simp only [List.mem_cons, List.mem_nil_iff, or_false] at hd
    rcases hd with rfl | rfl
    · exact hx
    · exact hy

/-! ### the hypotheses are satisfiable: `c = a & b`, then `a.go()`, then `b.go()` -/

def demoA0 : State := newLeaf (newLeaf init)                                   -- a = 2, b = 3
def demoA1 : Option State := call demoA0 0 (.mkAnd 2 3)
def demoA2 : Option State := runSched (demoA1.getD init) [0, 0, 0, 0, 0]          -- andNew, three registrations, ret: c = 4
def demoA3 : Option State := call (demoA2.getD init) 1 (.go 2)
def demoA4 : Option State := runSched (demoA3.getD init) [1, 1]                   -- a.go(): flag, countdown step
def demoA5 : Option State := call (demoA4.getD init) 1 (.go 3)
def demoA6 : Option State := runSched (demoA5.getD init) [1, 1, 1, 1]             -- b.go(): flag, countdown step, c.go(), cleanup

example : ∃ s, sys.Reach s ∧ s.nAnd = 1 ∧ (s.ands 0).target = 4 ∧ (s.ands 0).deps0 = [2, 3] ∧ (s.sigs 4).direct = false
    ∧ (s.sigs 2).go = true ∧ (s.sigs 3).go = true ∧ (s.sigs 4).go = true ∧ (s.ands 0).remaining = 0
    ∧ s.todo 0 = [] ∧ s.todo 1 = [] := by
  have h1 := some_getD_of_isSome demoA1 init (by decide +kernel)
  have h2 := some_getD_of_isSome demoA2 init (by decide +kernel)
  have h3 := some_getD_of_isSome demoA3 init (by decide +kernel)
  have h4 := some_getD_of_isSome demoA4 init (by decide +kernel)
  have h5 := some_getD_of_isSome demoA5 init (by decide +kernel)
  have h6 := some_getD_of_isSome demoA6 init (by decide +kernel)
  refine ⟨demoA6.getD init, ?_, by decide +kernel, by decide +kernel, by decide +kernel, by decide +kernel, by decide +kernel, by decide +kernel,
    by decide +kernel, by decide +kernel, by decide +kernel, by decide +kernel⟩
  have r0 : sys.Reach demoA0 :=
    Sys.Reach.env (Sys.Reach.env (Sys.Reach.init rfl) (Or.inr (Or.inl rfl))) (Or.inr (Or.inl rfl))
  have r1 : sys.Reach (demoA1.getD init) := Sys.Reach.env r0 (Or.inl ⟨0, _, h1⟩)
  have r2 : sys.Reach (demoA2.getD init) := reach_runSched _ r1 h2
  have r3 : sys.Reach (demoA3.getD init) := Sys.Reach.env r2 (Or.inl ⟨1, _, h3⟩)
  have r4 : sys.Reach (demoA4.getD init) := reach_runSched _ r3 h4
  have r5 : sys.Reach (demoA5.getD init) := Sys.Reach.env r4 (Or.inl ⟨1, _, h5⟩)
  exact reach_runSched _ r5 h6

end MoThreads.Composite
