/-
  C04 — Signal AND: the composite is true exactly when all operands are.
  Theorems about M2 (Model/Composite.lean, the model of `__and__` as REPAIRED: the AndSignals object keeps its
  operands), for every history of building composites (nested, shared operands), dropping references,
  triggering, and every interleaving of those operations at the granularity of one Signal operation.

  PARTIAL.  Proved: the part of the property the pinned tree violated — an operand that only the expression
  references (the composite in `(a | b) & c`, a Till) stays alive, and so able to trigger, as long as the AND
  composite is alive and untriggered — for every reachable state.  The countdown (`c` true iff both operands
  are true at quiescence) is checked on the real code by the monitor and by trace acceptance, not yet a theorem.
-/
import MoThreads.Proofs.CompLive
namespace MoThreads.Composite
open MoThreads

/-- Operands are kept alive: in every reachable state, every operand of a live, untriggered AND composite
is itself alive (it can still be triggered; its own operands, recursively, by `C03_operands_kept_alive`). -/
theorem C04_operands_kept_alive {s : State} (h : sys.Reach s) (n : Nat) (hn : n < s.nAnd)
    (hal : (s.sigs (s.ands n).target).alive = true) (hgo : (s.sigs (s.ands n).target).go = false) :
    ∀ d, d ∈ (s.ands n).deps0 → d < s.nSig ∧ (s.sigs d).alive = true :=
  (reach_invL h).La n hn hal hgo

/-- The reference that keeps them is the one the repair added: the operand list of the AndSignals object is
intact until the composite is triggered, and the object itself is referenced from the composite's job list
(or by the construction still in progress). -/
theorem C04_operand_list_intact {s : State} (h : sys.Reach s) (n : Nat) (hn : n < s.nAnd)
    (hal : (s.sigs (s.ands n).target).alive = true) (hgo : (s.sigs (s.ands n).target).go = false) :
    (s.ands n).deps = (s.ands n).deps0 ∧
    (Job.andCleanup n ∈ (s.sigs (s.ands n).target).jobs ∨ InTodos s (.thenJ (s.ands n).target (.andCleanup n))) := by
  have i := reach_invL h
  refine ⟨?_, i.Ka n hn hal hgo⟩
  cases hdd : decide ((s.ands n).deps = (s.ands n).deps0) with
  | true => exact of_decide_eq_true hdd
  | false =>
    have h1 := i.Jva n hn (of_decide_eq_false hdd)
    rw [hgo] at h1; cases h1

/-- Such an operand cannot be collected: the collector's guard fails for it. -/
theorem C04_operand_not_collectable {s : State} (h : sys.Reach s) (n : Nat) (hn : n < s.nAnd)
    (hal : (s.sigs (s.ands n).target).alive = true) (hgo : (s.sigs (s.ands n).target).go = false)
    (d : Nat) (hd : d ∈ (s.ands n).deps0) : collectable s d = false := by
  have i := reach_invL h
  obtain ⟨hdeps, hk⟩ := C04_operand_list_intact h n hn hal hgo
  cases hc : collectable s d with
  | false => rfl
  | true =>
    exfalso
    have C := collectable_spec hc
    have href : andRef s n = true := by
      rcases hk with h1 | h1
      · exact andRef_of_job (i.F2 n hn).1 hal h1 rfl
      · exact andRef_of_todo h1 rfl rfl
    exact (C.noAnd n hn href).1 (by rw [hdeps]; exact hd)

end MoThreads.Composite
