/-
  C15 — Signal OR does not leak callbacks onto long-lived signals.
  Theorems about M2 (Model/Composite.lean) for every history of building composites (nested, shared operands),
  dropping references, triggering operands and composites, waiting with `wait(till=)`, with the collector and
  any number of threads interleaved at the granularity of one Signal operation — including an operand being
  triggered by another thread while a composite is being wired or is detaching.
-/
import MoThreads.Proofs.CompHook2
namespace MoThreads.Composite
open MoThreads

/-- No leaked hook: at every quiescent point, a hook of an OrSignal sitting in the callback list of a signal `z`
belongs to a composite that is alive, untriggered, built on `z` (at that operand position), whose operand list
is intact and whose own cleanup is registered — i.e. once a composite has been triggered or is no longer
referenced, the long-lived signal holds no callback for it. -/
theorem C15_no_leaked_hook {s : State} (h : sys.Reach s) (hq : Quiet s) (z o i : Nat) (hj : Job.orHook o i ∈ (s.sigs z).jobs) :
    (s.sigs (s.ors o).target).alive = true ∧ (s.sigs (s.ors o).target).go = false ∧ (s.ors o).deps0[i]? = some z
    ∧ (s.ors o).deps = (s.ors o).deps0 ∧ Job.orCleanup o ∈ (s.sigs (s.ors o).target).jobs := by
  obtain ⟨_, hh⟩ := reach_invLH h
  have hb := hh.B1 z o i hj
  rcases hh.C z o i hj with g | g | g | g
  · exact absurd g.2 (not_inTodos_of_quiet hq _)
  · exact ⟨g.2.2.1, g.2.2.2, hb, g.1, g.2.1⟩
  · exact absurd g.2 (not_inTodos_of_quiet hq _)
  · exact absurd g (not_inTodos_of_quiet hq _)

/-- Each hook is there at most once (per OrSignal and operand position): so the OR hooks pending on a signal
are bounded by the live, untriggered composites built on it, counted with the multiplicity of the operand. -/
theorem C15_hook_at_most_once {s : State} (h : sys.Reach s) (z o i : Nat) : (s.sigs z).jobs.count (.orHook o i) ≤ 1 := by
  have := (reach_invLH h).2.T z o i; omega

/-- A signal that has been triggered, or has died, holds no callbacks at all. -/
theorem C15_triggered_signal_holds_nothing {s : State} (h : sys.Reach s) (z : Nat)
    (hz : (s.sigs z).go = true ∨ (s.sigs z).alive = false) : (s.sigs z).jobs = [] := by
  obtain ⟨_, hh⟩ := reach_invLH h
  rcases hz with h1 | h1
  · exact hh.A1 z h1
  · exact hh.A2 z h1

/-- Also while operations are in progress (a composite being wired in one thread, an operand triggered or a
cleanup detaching in another), every hook is covered: its composite's cleanup is still to be registered by the
construction in progress, is registered on the live untriggered composite, is queued to run, or the removal of
this very hook is queued. -/
theorem C15_every_hook_is_covered {s : State} (h : sys.Reach s) (z o i : Nat) (hj : Job.orHook o i ∈ (s.sigs z).jobs) :
    Guard s z o i := (reach_invLH h).2.C z o i hj

/-- ... and a queued removal does remove it: `remove_then` on an untriggered signal erases the hook, and no
second copy exists (`C15_hook_at_most_once`); on a triggered signal there is nothing left to remove. -/
theorem C15_removal_is_effective {s : State} (h : sys.Reach s) (t d o i : Nat) (rest : List Act) (ht : t < NT)
    (hs : s.todo t = Act.removeJ d (.orHook o i) :: rest) (s' : State) (he : exec s t (.removeJ d (.orHook o i)) rest = some s') :
    Job.orHook o i ∉ (s'.sigs d).jobs := by
  obtain ⟨_, hh⟩ := reach_invLH h
  simp only [exec] at he
  split at he
  · rename_i hgo
    simp only [Option.some.injEq] at he; subst he
    show Job.orHook o i ∉ (s.sigs d).jobs
    rw [hh.A1 d hgo]; simp
  · simp only [Option.some.injEq] at he; subst he
    show Job.orHook o i ∉ ((s.setSig d _).sigs d).jobs
    simp only [State.setSig, upd_same]
    intro hm
    have h5 : 0 < ((s.sigs d).jobs.erase (.orHook o i)).count (.orHook o i) := List.count_pos_iff.mpr hm
    rw [List.count_erase_self] at h5
    have := hh.T d o i; omega

/-- a reachable quiescent state in which the long-lived operands carry the hooks of a live composite … -/
example : ∃ s, sys.Reach s ∧ (s.sigs 2).jobs = [.orHook 0 0] ∧ (s.sigs 3).jobs = [.orHook 0 1] ∧ (s.sigs 4).jobs = [.orCleanup 0]
    ∧ (s.sigs 4).alive = true ∧ (s.sigs 4).go = false ∧ s.todo 0 = [] ∧ s.todo 1 = [] :=
  ⟨demoO2.getD init, demoO_reach.1, by decide +kernel, by decide +kernel, by decide +kernel, by decide +kernel, by decide +kernel,
    by decide +kernel, by decide +kernel⟩

/-- … and after the composite has been triggered through `a`, neither operand holds anything -/
example : ∃ s, sys.Reach s ∧ (s.sigs 4).go = true ∧ (s.sigs 2).jobs = [] ∧ (s.sigs 3).jobs = [] ∧ (s.sigs 3).go = false :=
  ⟨demoO4.getD init, demoO_reach.2, by decide +kernel, by decide +kernel, by decide +kernel, by decide +kernel⟩

end MoThreads.Composite
