import MoThreads.Model.Till
namespace MoThreads.Till
end MoThreads.Till
