/-
  C14 — Till: shutdown can not strand a waiter.  Theorems about M6, the model of the REPAIRED
  Till.__init__ (commit "fix: a Till created while the timer daemon shuts down is triggered…").
  The pinned tree violated it: a creation that passed the `enabled` test and appended after the
  daemon's final swap was never fired (replay: corpus/m6/c14-stranded.json).
-/
import MoThreads.Props.C13
namespace MoThreads.Till
open MoThreads

/-- When the daemon has finished its shutdown and no creation is in progress, EVERY Till object ever
created is true — for every placement of the shutdown relative to each step of each creation. -/
theorem C14_drain {s : State} (h : sys.Reach s) (hd : s.dpc = .done) (hidle : ∀ t, s.cpc t = .idle)
    (id : Nat) (hc : s.created id = true) : s.fired id = true := by
  have i := reach_inv h
  cases hf : s.fired id with
  | true => rfl
  | false =>
    cases hr : s.regd id with
    | true =>
      rcases i.Loc id hr hf with h1 | h1 | h1
      · have := i.F1' (by simp [hd, DPC.postSwap]); rw [this] at h1; cases h1
      · have := i.F2 (by simp [hd, DPC.drained]); rw [this] at h1; cases h1
      · simp [hd, DPC.transit] at h1
    | false =>
      have := i.F3 id hc hr hf
      rw [hidle] at this; simp [CPC.making] at this

/-- Creators are never blocked for good: the locker's holder can always move. -/
theorem C14_creators_finish {s : State} (h : sys.Reach s) (hq : sys.Quiescent s) (hd : s.dpc = .done)
    (t : Nat) : s.cpc t = .idle := by
  have i := reach_inv h
  by_cases ht : t = 0
  · rw [ht]; exact i.cz
  · have hq' : step s t = none := hq t
    unfold step at hq'; simp only [ht, if_false] at hq'
    unfold stepC at hq'
    cases hp : s.cpc t with
    | idle => rfl
    | c2 d id =>
      rw [hp] at hq'; simp only at hq'
      cases hl : s.locker with
      | none => simp [hl] at hq'
      | some u =>
        have hu0 : u ≠ 0 := by
          intro h0; rw [h0] at hl
          have := i.lk0.mpr hl; simp [hd, DPC.holds] at this
        have hh := (i.lkt u hu0).mpr hl
        have hqu : step s u = none := hq u
        unfold step at hqu; simp only [hu0, if_false] at hqu
        unfold stepC at hqu
        cases hpu : s.cpc u <;> rw [hpu] at hh <;> simp [CPC.holds] at hh <;> rw [hpu] at hqu <;> simp at hqu
        split at hqu <;> cases hqu
    | c3b d id g0 => rw [hp] at hq'; simp only at hq'; split at hq' <;> cases hq'
    | _ => rw [hp] at hq'; simp at hq'

/-- L1: in every quiescent state after the daemon has ended, every Till ever created is true, so no
thread can be parked on one (by C01, a waiter on a true signal is released). -/
theorem C14_no_stranded_till {s : State} (h : sys.Reach s) (hq : sys.Quiescent s) (hd : s.dpc = .done)
    (id : Nat) (hc : s.created id = true) : s.fired id = true :=
  C14_drain h hd (C14_creators_finish h hq hd) id hc

/-- A Till requested after the daemon disabled timers is the always-true signal: no object is created. -/
theorem C14_after_disable_returns_done {s s' s'' : State} {t : Nat} {secs : Int} {l : Label} (hdis : s.disabled = true)
    (hc : callTill s t secs = some s') (hst : step s' t = some (s'', l)) :
    s''.cpc t = .idle ∧ l = .cEnabled false ∧ s''.nextId = s.nextId := by
  unfold callTill at hc
  split at hc
  · cases hc
  · rename_i ht
    split at hc
    · cases hc
      unfold step at hst; simp only [ht, if_false] at hst
      unfold stepC at hst; simp [State.setC, hdis] at hst
      obtain ⟨rfl, rfl⟩ := hst
      simp [State.setC]
    · cases hc

/-- A creation caught in the middle by the shutdown fires its own Till (`late` branch). -/
theorem C14_late_creation_fires_itself {s s' : State} {t id : Nat} {l : Label} (ht : t ≠ 0) (hp : s.cpc t = .c5 id)
    (hst : step s t = some (s', l)) : s'.fired id = true := by
  unfold step at hst; simp only [ht, if_false] at hst
  unfold stepC at hst; rw [hp] at hst; cases hst
  unfold fireId; split <;> simp_all [State.setC]

end MoThreads.Till
