/-
  C19 — Python proxy: each call returns its own remote result, or raises.
  Theorems about M10 (Model/PyProxy.lean, the model of the REPAIRED `_execute` / `_watch_stdout`), for any
  number of calling threads, every interleaving of callers, reader and worker, every result value
  (`Option Nat` codes of JSON values: `none` is null, and nothing distinguishes falsy values), every
  remote error and any number of log lines before an answer.
  The worker is the FIFO one-answer-per-request loop of python_worker.py (assumption recorded in the trusted base).
-/
import MoThreads.Proofs.PyInv
import MoThreads.Proofs.PyRank
namespace MoThreads.PyProxy
open MoThreads

/-- Own answer: whenever a call has returned, its outcome is the one dictated by the worker's answer to
THIS thread's request: the value `v` for `{"out": v}` (any `v`, null and falsy values included), an
exception for `{"err": …}`; never another caller's answer, never a stale slot. -/
theorem C19_returns_own_answer {s : State} (h : sys.Reach s) (t : Nat) (r : Ret) (hr : s.cpc t = .idle r) (hne : r ≠ .none) :
    (∀ v, s.want t = .out v → r = .value v) ∧ (s.want t = .err → r = .raised) ∧ s.want t ≠ .log := by
  have hL := (reach_inv h).L t
  unfold Local at hL
  rw [hr] at hL
  rcases hL with hL | hL
  · exact absurd hL hne
  · unfold Good at hL
    cases hw : s.want t <;> rw [hw] at hL <;> simp_all

/-- A value is returned only for an `out` answer carrying exactly that value. -/
theorem C19_value_is_remote_result {s : State} (h : sys.Reach s) (t : Nat) (v : Option Nat) (hr : s.cpc t = .idle (.value v)) :
    s.want t = .out v := by
  obtain ⟨h1, h2, h3⟩ := C19_returns_own_answer h t _ hr (by simp)
  cases hw : s.want t with
  | out w => have := h1 w hw; cases this; rfl
  | err => have := h2 hw; cases this
  | log => exact absurd hw h3

/-- The caller raises exactly for an `err` answer. -/
theorem C19_raises_only_for_remote_error {s : State} (h : sys.Reach s) (t : Nat) (hr : s.cpc t = .idle .raised) :
    s.want t = .err := by
  obtain ⟨h1, h2, h3⟩ := C19_returns_own_answer h t _ hr (by simp)
  cases hw : s.want t with
  | out w => have := h1 w hw; cases this
  | err => rfl
  | log => exact absurd hw h3

/-- One request in flight: two threads are never both between acquiring and releasing the proxy lock,
so the shared slot (done/response/error) belongs to one caller at a time. -/
theorem C19_one_request_in_flight {s : State} (h : sys.Reach s) (t u : Nat)
    (ht : (s.cpc t).inCrit = true) (hu : (s.cpc u).inCrit = true) : t = u := by
  have i := reach_inv h
  have h1 := i.ME t ht
  have h2 := i.ME u hu
  rw [h1] at h2; cases h2; rfl

/-- Every stdout line is classified: the reader never gets stuck on a line it has popped or can pop. -/
theorem C19_every_reply_is_classified (s : State) (x : Reply) (rest : List Reply) (ho : s.outQ = x :: rest) : stepR s ≠ none := by
  unfold stepR
  cases hr : s.rpc <;> simp only
  · rw [ho]; cases x <;> simp
  · simp
  · simp
  · cases s.done <;> simp

/-- No call blocks forever while the worker is alive (L1): in a state where nobody — caller, reader,
worker — can move, every caller has returned.  So a call can only fail to return by some thread
being starved, never by a lost wake-up, a falsy answer or a wedged lock. -/
theorem C19_no_call_blocks {s : State} (h : sys.Reach s) (hq : sys.Quiescent s) (t : Nat) : ∃ r, s.cpc t = .idle r := by
  have i := reach_inv h
  -- nobody holds the lock
  have hfree : s.lock = none := by
    cases hl : s.lock with
    | none => rfl
    | some u =>
      exfalso
      have hcr := i.LK u hl
      have hu2 : 2 ≤ u := by
        cases Nat.lt_or_ge u 2 with
        | inl hlt => have := i.T u hlt; rw [this] at hcr; cases hcr
        | inr hge => exact hge
      have hqu := hq u
      have hq0 := hq 0
      have hq1 := hq 1
      simp only [sys, step] at hqu hq0 hq1
      have hne0 : ¬ u = 0 := by omega
      have hne1 : ¬ u = 1 := by omega
      simp only [hne0, hne1, if_false, if_true] at hqu hq0 hq1
      simp at hq1
      have hL := i.L u
      unfold Local at hL
      unfold stepC at hqu
      cases hp : s.cpc u <;> rw [hp] at hqu hL hcr <;> simp only [CPC.inCrit] at hcr hqu hL
      all_goals (first | (cases hcr; done) | (cases hqu; done) | skip)
      rename_i k
      obtain ⟨hd, hk, hw, hph⟩ := hL
      rcases hph with ⟨wl, h1, h2, h3, h4, h5, h6, h7⟩ | ⟨wl, h1, h2, h3, h4, h5, h6, h7⟩ | ⟨h1, h2, h3, h4, h5, h6, h7⟩ | ⟨h1, h2, h3, h4, h5, h6, h7⟩ | ⟨h1, h2, h3, h4, h5, h6⟩ | ⟨⟨h1, h2, h3, h4⟩, h5, h6⟩
      · simp [stepW, h1, h2] at hq1
      · simp [stepW, h2] at hq1
      · rcases h3 with h3 | h3 <;> exact C19_every_reply_is_classified s _ _ h3 hq0
      · rcases h4 with ⟨v, _, hr⟩ | ⟨_, hr⟩ <;> simp [stepR, hr] at hq0
      · simp [stepR, h4, hd] at hq0
      · simp [h5] at hqu
  cases hp : s.cpc t with
  | idle r => exact ⟨r, rfl⟩
  | c0 q =>
    exfalso
    have ht2 : 2 ≤ t := by
      cases Nat.lt_or_ge t 2 with
      | inl hlt => have := i.T t hlt; rw [this] at hp; cases hp
      | inr hge => exact hge
    have hqt := hq t
    simp only [sys, step] at hqt
    have hne0 : ¬ t = 0 := by omega
    have hne1 : ¬ t = 1 := by omega
    simp [hne0, hne1, stepC, hp, hfree] at hqt
  | _ =>
    exfalso
    have := i.ME t (by rw [hp]; rfl)
    rw [hfree] at this; cases this

/-! ### the hypotheses are satisfiable: a concrete two-caller run -/

/-- run a schedule (list of thread ids) -/
def runSched (s : State) : List Nat → Option State
  | [] => some s
  | t :: ts => match step s t with
    | some (s', _) => runSched s' ts
    | none => none

theorem reach_runSched {s s' : State} (ts : List Nat) (h : sys.Reach s) (hr : runSched s ts = some s') : sys.Reach s' := by
  induction ts generalizing s with
  | nil => cases hr; exact h
  | cons t ts ih =>
    simp only [runSched] at hr
    cases hst : step s t with
    | none => rw [hst] at hr; cases hr
    | some p =>
      rw [hst] at hr
      exact ih (Sys.Reach.step (t := t) (l := p.2) h (by show step s t = some (p.1, p.2); rw [hst])) hr

theorem some_getD_of_isSome {α : Type} (o : Option α) (d : α) (h : o.isSome = true) : o = some (o.getD d) := by
  cases o with
  | none => cases h
  | some x => rfl

/-- thread 2 asks for a null result (with a log line before it), thread 3's call fails remotely;
3 gets the lock first and 2 queues behind it -/
def demoSched : List Nat := [3, 3, 3, 3, 3, 1, 1, 0, 0, 0, 3, 3, 3, 3, 3, 3, 3, 2, 2, 2, 2, 2, 1, 1, 0, 0, 0, 0, 2, 2, 2, 2, 2, 2, 2]
def demo1 : Option State := call init 2 (.out none) true
def demo2 : Option State := call (demo1.getD init) 3 .err false
def demo3 : Option State := runSched (demo2.getD init) demoSched

example : ∃ s, sys.Reach s ∧ s.cpc 2 = .idle (.value none) ∧ s.cpc 3 = .idle .raised ∧ s.want 2 = .out none ∧ s.want 3 = .err := by
  have h1 := some_getD_of_isSome demo1 init (by decide +kernel)
  have h2 := some_getD_of_isSome demo2 init (by decide +kernel)
  have h3 := some_getD_of_isSome demo3 init (by decide +kernel)
  refine ⟨demo3.getD init, ?_, by decide +kernel, by decide +kernel, by decide +kernel, by decide +kernel⟩
  have r0 : sys.Reach init := Sys.Reach.init rfl
  have r1 : sys.Reach (demo1.getD init) := Sys.Reach.env r0 ⟨2, .out none, true, h1⟩
  have r2 : sys.Reach (demo2.getD init) := Sys.Reach.env r1 ⟨3, .err, false, h2⟩
  exact reach_runSched demoSched r2 h3

/-- the premise of `C19_no_call_blocks` is met by the initial state (and by every state in which all calls have returned) -/
example : sys.Reach init ∧ sys.Quiescent init := by
  refine ⟨Sys.Reach.init rfl, fun t => ?_⟩
  show step init t = none
  unfold step
  split
  · rfl
  · split
    · rfl
    · simp [stepC, init]

/-- L2: with no new calls, the callers, the stdout reader and the worker together take at most `rank N s` steps,
under any scheduler (every request and reply line consumed pays for the steps it causes) … -/
theorem C19_runs_terminate {N : Nat} {s s' : State} {tr : List (Nat × Label)} (hb : Below N s) (r : sys.Run s tr s') :
    tr.length ≤ rank N s := by
  have := run_length_le_rank hb r; omega

/-- … and when such a run comes to rest every call has returned (to its own caller: `C19_returns_own_answer`). -/
theorem C19_every_call_returns {N : Nat} {s s' : State} {tr : List (Nat × Label)} (h : sys.Reach s) (hb : Below N s)
    (r : sys.Run s tr s') : tr.length ≤ rank N s ∧ (sys.Quiescent s' → ∀ t, ∃ r, s'.cpc t = .idle r) :=
  ⟨C19_runs_terminate hb r, fun hq t => C19_no_call_blocks (h.run sys r) hq t⟩

end MoThreads.PyProxy
