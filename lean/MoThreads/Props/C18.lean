/-
  C18 — Command: per-command isolation, literal arguments, true exit status.
  Theorems about M9 (Model/Command.lean): pure functions, every argument list / every output / every
  history of shell reuse.  bash itself, pipes and process scheduling are not modelled: the Lean
  functions are compared with the real `shlex.quote`, the real bash word splitting and real Command
  runs by the harness (harness/m9_command.py).
-/
import MoThreads.Model.Command
namespace MoThreads.Command

/-! ### every parameter reaches the program byte for byte -/

theorem safe_not_special {c : Char} (h : safe c = true) : c ≠ ' ' ∧ c ≠ '\'' ∧ c ≠ '"' := by
  refine ⟨?_, ?_, ?_⟩ <;> (intro hc; subst hc; revert h; decide)

theorem parse_safe_run (w : List Char) (hw : ∀ c, c ∈ w → safe c = true) (cur : Option (List Char)) (acc : List (List Char))
    (rest : List Char) :
    shParseAux .out cur acc (w ++ rest) = shParseAux .out (if w = [] then cur else some (cur.getD [] ++ w)) acc rest := by
  induction w generalizing cur with
  | nil => simp
  | cons c r ih =>
    have hc := hw c (by simp)
    obtain ⟨h1, h2, h3⟩ := safe_not_special hc
    simp only [List.cons_append, shParseAux, h1, h2, h3, hc, if_false, if_true]
    rw [ih (fun x hx => hw x (by simp [hx]))]
    by_cases hr : r = []
    · simp [hr, app]
    · simp [hr, app, List.append_assoc]

theorem parse_sq_body (s : List Char) (pre : List Char) (acc : List (List Char)) (rest : List Char) :
    shParseAux .sq (some pre) acc (escBody s ++ '\'' :: rest) = shParseAux .out (some (pre ++ s)) acc rest := by
  induction s generalizing pre with
  | nil => simp [escBody, shParseAux]
  | cons c r ih =>
    by_cases hc : c = '\''
    · subst hc
      have e : escBody ('\'' :: r) = '\'' :: '"' :: '\'' :: '"' :: '\'' :: escBody r := by simp [escBody]
      rw [e]
      simp only [List.cons_append, shParseAux, if_true, app, Option.getD_some]
      have d1 : ('"' = ' ') = False := by decide
      have d2 : ('"' = '\'') = False := by decide
      have d3 : ('\'' = '"') = False := by decide
      have d4 : ('\'' = ' ') = False := by decide
      simp only [d1, d2, d3, d4, if_false, if_true]
      rw [ih]; simp [List.append_assoc]
    · have e : escBody (c :: r) = c :: escBody r := by simp [escBody, hc]
      rw [e]
      simp only [List.cons_append, shParseAux, hc, if_false, app, Option.getD_some]
      rw [ih]; simp [List.append_assoc]

/-- one quoted parameter is read back as exactly that parameter (and the word is left open, to be
closed by the next space or the end of the line) -/
theorem parse_quoted_word (a : List Char) (acc : List (List Char)) (rest : List Char) :
    shParseAux .out none acc (quote a ++ rest) = shParseAux .out (some a) acc rest := by
  unfold quote
  by_cases he : a = []
  · subst he
    have d4 : ('\'' = ' ') = False := by decide
    simp [shParseAux, d4]
  · simp only [he, if_false]
    by_cases hs : a.all safe = true
    · simp only [hs, if_true]
      rw [parse_safe_run a (by intro c hc; exact (List.all_eq_true.mp hs) c hc)]
      simp [he]
    · simp only [hs]
      have d4 : ('\'' = ' ') = False := by decide
      simp only [Bool.false_eq_true, if_false, List.cons_append, List.append_assoc, List.singleton_append, shParseAux, d4,
        if_true, Option.getD_none]
      rw [parse_sq_body]; simp

/-- Literal arguments: the shell's word splitting of the command line built by `cmd_escape` yields
exactly the parameter list — for EVERY list of strings (spaces, quotes, shell metacharacters, empty
strings, non-ASCII …).  (Line-based transport additionally needs the strings to be free of newlines.) -/
theorem C18_quote_roundtrip (params : List (List Char)) : shParse (commandLine params) = some params := by
  unfold shParse commandLine
  suffices h : ∀ acc, shParseAux .out none acc (joinSp (params.map quote)) = some (acc ++ params) by simpa using h []
  induction params with
  | nil => intro acc; simp [joinSp, shParseAux, pushWord]
  | cons a r ih =>
    intro acc
    cases r with
    | nil =>
      simp only [List.map, joinSp]
      have := parse_quoted_word a acc []
      simp only [List.append_nil] at this
      rw [this]; simp [shParseAux, pushWord]
    | cons b r' =>
      simp only [List.map, joinSp]
      rw [parse_quoted_word]
      simp only [shParseAux, if_true, pushWord]
      have := ih (acc ++ [a])
      simp only [List.map] at this
      rw [this]; simp [List.append_assoc]

/-- quoting never produces a newline or NUL by itself: the line sent to the shell is one line -/
theorem C18_quote_adds_no_newline (a : List Char) (h : '\n' ∉ a) : '\n' ∉ quote a := by
  unfold quote
  split
  · decide
  · split
    · exact h
    · intro hm
      simp only [List.mem_cons, List.mem_append, List.mem_singleton] at hm
      have hesc : ∀ s : List Char, '\n' ∈ escBody s → '\n' ∈ s := by
        intro s
        induction s with
        | nil => simp [escBody]
        | cons c r ih =>
          by_cases hc : c = '\''
          · subst hc; simp only [escBody, if_true, List.mem_cons]
            intro h1
            rcases h1 with h1 | h1 | h1 | h1 | h1 | h1
            · exact absurd h1 (by decide)
            · exact absurd h1 (by decide)
            · exact absurd h1 (by decide)
            · exact absurd h1 (by decide)
            · exact absurd h1 (by decide)
            · exact Or.inr (ih h1)
          · simp only [escBody, hc, if_false, List.mem_cons]
            intro h1; rcases h1 with h1 | h1
            · exact Or.inl h1
            · exact Or.inr (ih h1)
      rcases hm with hm | hm | hm
      · exact absurd hm (by decide)
      · exact h (hesc a hm)
      · exact absurd hm (by decide)

/-! ### each Command yields exactly its own lines and its own status -/

/-- Framing: whatever the command printed (any number of lines, none of them starting with the
marker) and whatever follows on the recycled shell, the worker relays exactly those lines, reads
exactly that status, and leaves the rest of the stream untouched for the next Command. -/
theorem C18_framing (out : List (List Char)) (rc : Nat) (rest : List Tok) :
    workerParse (frame out rc ++ rest) = some (out, rc, rest) := by
  induction out with
  | nil => simp [frame, workerParse]
  | cons l r ih =>
    simp only [frame, List.map, List.cons_append, workerParse] at ih ⊢
    rw [ih]; rfl

/-- Isolation under reuse: any history of commands on one shell is read back command by command. -/
theorem C18_session_isolation (cmds : List (List (List Char) × Nat)) (rest : List Tok) :
    parseSession cmds.length (session cmds ++ rest) = some cmds := by
  induction cmds with
  | nil => simp [parseSession]
  | cons c r ih =>
    obtain ⟨o, rc⟩ := c
    simp only [List.length_cons, session, parseSession, List.append_assoc]
    rw [C18_framing]; simp only; rw [ih]; rfl

/-- KNOWN FINDING (negation witness): in-band framing cannot protect a program whose own output has a
line starting with the marker — the lines after it are lost and the status is misread. -/
theorem C18_violated_marker_in_output :
    workerParse ([.line ['a'], .marker ['x'], .line ['b'], .marker [], .status 0]) = none ∧
    workerParse ([.line ['a'], .marker ['x'], .status 7, .line ['b'], .marker [], .status 0]) = some ([['a']], 7, [.line ['b'], .marker [], .status 0]) := by
  decide

/-! ### a shell is handed to one Command at a time -/

def Pool.Ok (p : Pool) : Prop :=
  ((p.avail ++ p.inuse).map (·.2)).Nodup ∧ ∀ x, x ∈ p.avail ++ p.inuse → x.2 < p.nextPid

theorem findKey_mem {k : Nat} {l : List (Nat × Nat)} {x : Nat × Nat} (h : findKey k l = some x) : x ∈ l ∧ x.1 = k := by
  induction l with
  | nil => simp [findKey] at h
  | cons y r ih =>
    simp only [findKey] at h
    split at h
    · cases h; exact ⟨by simp, by assumption⟩
    · have := ih h; exact ⟨by simp [this.1], this.2⟩

theorem nodup_map_perm_move {l1 l2 : List (Nat × Nat)} {x : Nat × Nat} (hx : x ∈ l1)
    (h : ((l1 ++ l2).map (·.2)).Nodup) : (((l1.erase x) ++ (l2 ++ [x])).map (·.2)).Nodup := by
  have hp : (l1.erase x ++ (l2 ++ [x])).Perm (l1 ++ l2) := by
    have h1 : (x :: l1.erase x).Perm l1 := (List.perm_cons_erase hx).symm
    calc (l1.erase x ++ (l2 ++ [x])).Perm (l1.erase x ++ ([x] ++ l2)) := List.Perm.append_left _ List.perm_append_comm
      _ = (l1.erase x ++ [x]) ++ l2 := by simp [List.append_assoc]
      _ |>.Perm ((x :: l1.erase x) ++ l2) := List.Perm.append_right _ (List.perm_append_comm)
      _ |>.Perm (l1 ++ l2) := List.Perm.append_right _ h1
  exact (List.Perm.nodup_iff (List.Perm.map _ hp)).mpr h

theorem C18_pool_get_ok (p : Pool) (k : Nat) (h : p.Ok) : (p.get k).1.Ok ∧ (p.get k).2 ∉ p.inuse.map (·.2) := by
  unfold Pool.get
  cases hf : findKey k p.avail with
  | none =>
    simp only
    obtain ⟨h1, h2⟩ := h
    refine ⟨⟨?_, ?_⟩, ?_⟩
    · have : ((p.avail ++ (p.inuse ++ [(k, p.nextPid)])).map (·.2)) = (p.avail ++ p.inuse).map (·.2) ++ [p.nextPid] := by simp
      rw [this, List.nodup_append]
      refine ⟨h1, by simp, ?_⟩
      intro a ha b hb
      simp at hb; subst hb
      simp only [List.mem_map] at ha
      obtain ⟨x, hx, rfl⟩ := ha
      have := h2 x hx; omega
    · intro x hx
      simp only [List.mem_append, List.mem_singleton] at hx
      rcases hx with hx | hx | hx
      · have := h2 x (by simp [hx]); dsimp only; omega
      · have := h2 x (by simp [hx]); dsimp only; omega
      · subst hx; simp
    · intro hm
      simp only [List.mem_map] at hm
      obtain ⟨x, hx, hxe⟩ := hm
      have := h2 x (by simp [hx]); omega
  | some x =>
    simp only
    obtain ⟨hxm, _⟩ := findKey_mem hf
    obtain ⟨h1, h2⟩ := h
    refine ⟨⟨nodup_map_perm_move hxm h1, ?_⟩, ?_⟩
    · intro y hy
      simp only [List.mem_append, List.mem_singleton] at hy
      rcases hy with hy | hy | hy
      · exact h2 y (by simp [List.mem_of_mem_erase hy])
      · exact h2 y (by simp [hy])
      · subst hy; exact h2 y (by simp [hxm])
    · intro hm
      simp only [List.mem_map] at hm
      obtain ⟨y, hy, hye⟩ := hm
      rw [List.map_append, List.nodup_append] at h1
      exact h1.2.2 x.2 (List.mem_map.mpr ⟨x, hxm, rfl⟩) y.2 (List.mem_map.mpr ⟨y, hy, rfl⟩) hye.symm

theorem C18_pool_ret_ok (p p' : Pool) (pid : Nat) (h : p.Ok) (hr : p.ret pid = some p') : p'.Ok := by
  unfold Pool.ret at hr
  cases hf : p.inuse.find? (fun x => x.2 = pid) with
  | none => rw [hf] at hr; cases hr
  | some x =>
    rw [hf] at hr; cases hr
    have hxm : x ∈ p.inuse := List.mem_of_find?_eq_some hf
    obtain ⟨h1, h2⟩ := h
    refine ⟨?_, ?_⟩
    · have hperm : (p.avail ++ p.inuse).Perm (p.inuse ++ p.avail) := List.perm_append_comm
      have h1' : ((p.inuse ++ p.avail).map (·.2)).Nodup := (List.Perm.nodup_iff (List.Perm.map _ hperm)).mp h1
      have := nodup_map_perm_move hxm h1'
      have hp2 : ((p.avail ++ [x]) ++ p.inuse.erase x).Perm (p.inuse.erase x ++ (p.avail ++ [x])) := List.perm_append_comm
      exact (List.Perm.nodup_iff (List.Perm.map _ hp2)).mpr this
    · intro y hy
      simp only [List.mem_append, List.mem_singleton] at hy
      rcases hy with (hy | hy) | hy
      · exact h2 y (by simp [hy])
      · subst hy; exact h2 y (by simp [hxm])
      · exact h2 y (by simp [List.mem_of_mem_erase hy])

/-- For every history of get/return operations on the manager, a shell is in at most one of
avail/inuse and listed at most once. -/
theorem C18_pool (ops : List PoolOp) : (Pool.init.run ops).Ok := by
  suffices h : ∀ p : Pool, p.Ok → (p.run ops).Ok from h _ ⟨by simp [Pool.init], by simp [Pool.init]⟩
  induction ops with
  | nil => intro p hp; exact hp
  | cons op r ih =>
    intro p hp
    cases op with
    | get k => simp only [Pool.run]; exact ih _ (C18_pool_get_ok p k hp).1
    | ret pid =>
      simp only [Pool.run]
      cases hr : p.ret pid with
      | none => exact ih _ hp
      | some p' => exact ih _ (C18_pool_ret_ok p p' pid hp hr)

/-- Non-vacuity: nasty parameters. -/
example : shParse (commandLine ["a b".toList, "it's".toList, "".toList, "$(rm -rf /)".toList, "x".toList]) =
    some ["a b".toList, "it's".toList, "".toList, "$(rm -rf /)".toList, "x".toList] := by decide

end MoThreads.Command
