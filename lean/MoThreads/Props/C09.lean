/-
  C09 — Queue: close drains then stops; blocked consumers are released.  Theorems about M4.
-/
import MoThreads.Props.C08
import MoThreads.Proofs.QueueRank
namespace MoThreads.Queue
open MoThreads

/-- `closed` is permanent. -/
theorem C09_closed_is_permanent {s s' : State} {t : Nat} {l : Label} (hs : step s t = some (s', l))
    (hc : s.closed = true) : s'.closed = true := by
  unfold step at hs
  cases hp : s.pc t <;> rw [hp] at hs <;> simp only [acquire] at hs <;> (try split at hs) <;> (try split at hs) <;>
    (try cases hs) <;> (try simp [State.setPc, hc]) <;>
    (try (rename_i a _; cases a <;> (try rename_i l; cases l) <;> cases hs <;> simp [State.setPc, hc]))

/-- After close(), a pop still delivers queued values (head first) … -/
theorem C09_drains {s s' : State} {t : Nat} {tl : Option Nat} {l : Label} (hp : s.pc t = .pLen tl)
    (hne : s.dq ≠ []) (hs : step s t = some (s', l)) : s'.pc t = .pPop := by
  unfold step at hs; rw [hp] at hs; cases hs
  have : s.dq.length ≠ 0 := by intro h0; exact hne (List.length_eq_zero_iff.mp h0)
  simp [State.setPc, this]

/-- … and once it is empty every pop() gets the stop marker instead of blocking. -/
theorem C09_then_stops {s s' : State} {t : Nat} {tl : Option Nat} {l : Label} (hp : s.pc t = .pC tl)
    (hc : s.closed = true) (hs : step s t = some (s', l)) : s'.pc t = .sRel .stop := by
  unfold step at hs; rw [hp] at hs; cases hs; simp [State.setPc, hc]

/-- A consumer that was already parked (or had decided to park before close() ran) is enabled as
soon as the queue is closed and the mutex is free, and its wait() then ends with the stop marker. -/
theorem C09_parked_consumer_enabled {s : State} (t : Nat) (tl : Option Nat) (hp : s.pc t = .pParked tl)
    (hc : s.closed = true) (hm : s.mutex = none) : (step s t).isSome = true := by
  unfold step; rw [hp]; simp [hc, hm]

theorem C09_timed_out_wait_stops {s s' : State} {t : Nat} {tl : Option Nat} {l : Label} (hp : s.pc t = .pT tl)
    (hc : s.closed = true) (hs : step s t = some (s', l)) : s'.pc t = .sRel .stop := by
  unfold step at hs; rw [hp] at hs; cases hs; simp [State.setPc, hc]

/-- a thread holding the mutex is never blocked -/
theorem C09_holder_enabled {s : State} (h : sys.Reach s) (t : Nat) (hm : s.mutex = some t) :
    (step s t).isSome = true := by
  have i := reach_inv h
  have hh := (i.mutex t).mpr hm
  unfold step
  cases hp : s.pc t with
  | sAct a b =>
    cases a with
    | add v => simp
    | push v => simp
    | extend vs => cases vs <;> simp <;> (split <;> simp)
  | pPop => have := i.popNe t (by simp [hp, PC.popping]); cases hd : s.dq <;> simp_all
  | oPop => have := i.popNe t (by simp [hp, PC.popping]); cases hd : s.dq <;> simp_all
  | _ => simp_all [PC.holds, acquire]

/-- A stop marker inside an extend() batch (value 0 in the model) closes the queue at its place in the batch — it is not
enqueued as a value — and the rest of the batch follows. -/
theorem C09_marker_in_batch_closes {s s' : State} {t : Nat} {vs : List Nat} {b : Bool} {l : Label}
    (hp : s.pc t = .sAct (.extend (0 :: vs)) b) (hs : step s t = some (s', l)) :
    s'.closed = true ∧ s'.dq = s.dq ∧ l = .close ∧ s'.pc t = .sAct (.extend vs) false := by
  unfold step at hs; rw [hp] at hs; simp only [if_true] at hs; cases hs; simp [State.setPc]

/-- L1: in a quiescent reachable state of a closed queue no consumer is parked. -/
theorem C09_blocked_consumers_released {s : State} (h : sys.Reach s) (hq : sys.Quiescent s)
    (hc : s.closed = true) (t : Nat) (tl : Option Nat) : s.pc t ≠ .pParked tl := by
  intro hp
  have hm : s.mutex = none := by
    cases hmm : s.mutex with
    | none => rfl
    | some u =>
      have := C09_holder_enabled h u hmm
      have hq' : step s u = none := hq u
      rw [hq'] at this; cases this
  have := C09_parked_consumer_enabled t tl hp hc hm
  have hq' : step s t = none := hq t
  rw [hq'] at this; cases this

/-- Non-forced add()/push()/extend() on a closed queue raise and leave the contents unchanged. -/
theorem C09_reject_after_close {s s' : State} {t : Nat} {a : Act} {l : Label} (hp : s.pc t = .sPost a)
    (hc : s.closed = true) (ha : s.allow = false) (hs : step s t = some (s', l)) :
    s'.pc t = .sRel .closedErr ∧ s'.dq = s.dq := by
  unfold step at hs; rw [hp] at hs; cases hs; simp [State.setPc, hc, ha]

/-- … and the space test of a closed queue goes straight to that check (it does not block). -/
theorem C09_closed_skips_wait {s s' : State} {t : Nat} {a : Act} {tl : Option Nat} {l : Label} (hp : s.pc t = .sC a tl)
    (hc : s.closed = true) (hs : step s t = some (s', l)) : s'.pc t = .sPost a := by
  unfold step at hs; rw [hp] at hs; cases hs; simp [State.setPc, hc]

/-- Non-vacuity: consumer parks on the empty queue, close() comes from outside, consumer wakes and returns STOP. -/
def demo9 : Option State := do
  let run (s : State) (ts : List Nat) : Option State := ts.foldlM (fun s t => (step s t).map (·.1)) s
  let s ← call (init 4 false true []) 0 (.pop none)
  let s ← run s [0, 0, 0, 0, 0]
  let s := envClose s
  run s [0, 0, 0, 0]

example : (demo9.map fun s => (s.pc 0, s.mutex)) = some (.idle .stop, none) := by decide

/-- L2: without new calls and without environment events (signals from the Lock, timers, close), the threads inside
Queue methods take at most `rank N s` steps, under any scheduler: every operation is a bounded number of own steps plus
its turns around the capacity / empty loop, and every turn consumes what woke the thread — its `signalled` flag (reset
when wait() returns), the stall timer of the wait (a fresh one every turn), or it ends the call (the caller's till makes
the next capacity test raise; closed / till make the pop return).  In particular a blocked thread never spins. -/
theorem C07_operations_terminate {N : Nat} {s s' : State} {tr : List (Nat × Label)} (h : sys.Reach s) (hb : Below N s)
    (r : sys.Run s tr s') : tr.length ≤ rank N s := by
  have := run_length_le_rank hb (reach_wokeOK h) r; omega

theorem run_closed {s s' : State} {tr : List (Nat × Label)} (r : sys.Run s tr s') (hc : s.closed = true) : s'.closed = true := by
  induction r with
  | nil => exact hc
  | cons hs _ ih => exact ih (C09_closed_is_permanent hs hc)

/-- … and once the queue is closed such a run ends with no consumer parked: every pending pop() has returned. -/
theorem C09_pending_pops_return {N : Nat} {s s' : State} {tr : List (Nat × Label)} (h : sys.Reach s) (hb : Below N s)
    (hc : s.closed = true) (r : sys.Run s tr s') :
    tr.length ≤ rank N s ∧ (sys.Quiescent s' → ∀ t tl, s'.pc t ≠ .pParked tl) :=
  ⟨C07_operations_terminate h hb r, fun hq t tl => C09_blocked_consumers_released (h.run sys r) hq (run_closed r hc) t tl⟩

end MoThreads.Queue
