import MoThreads.Proofs.SignalCoreTac
namespace MoThreads.SignalCore
set_option maxHeartbeats 2000000

theorem step_r0 {s s' : State} {t : Nat} {l : Label} {k : Nat} (h : Inv s) (hp : s.pc t = .r0 k)
    (hs : step s t = some (s', l)) : Inv s' := by
  step_case

theorem step_r1 {s s' : State} {t : Nat} {l : Label} {k : Nat} (h : Inv s) (hp : s.pc t = .r1 k)
    (hs : step s t = some (s', l)) : Inv s' := by
  step_case

theorem step_r2 {s s' : State} {t : Nat} {l : Label} {k : Nat} (h : Inv s) (hp : s.pc t = .r2 k)
    (hs : step s t = some (s', l)) : Inv s' := by
  step_case

theorem step_r3 {s s' : State} {t : Nat} {l : Label} {k : Nat} (h : Inv s) (hp : s.pc t = .r3 k)
    (hs : step s t = some (s', l)) : Inv s' := by
  step_case

theorem step_r4 {s s' : State} {t : Nat} {l : Label} {k : Nat} (h : Inv s) (hp : s.pc t = .r4 k)
    (hs : step s t = some (s', l)) : Inv s' := by
  step_case

theorem step_r5 {s s' : State} {t : Nat} {l : Label} {k : Nat} (h : Inv s) (hp : s.pc t = .r5 k)
    (hs : step s t = some (s', l)) : Inv s' := by
  step_case

theorem step_r6 {s s' : State} {t : Nat} {l : Label} (h : Inv s) (hp : s.pc t = .r6)
    (hs : step s t = some (s', l)) : Inv s' := by
  step_case

theorem step_b0 {s s' : State} {t : Nat} {l : Label} (h : Inv s) (hp : s.pc t = .b0)
    (hs : step s t = some (s', l)) : Inv s' := by
  step_case

end MoThreads.SignalCore
