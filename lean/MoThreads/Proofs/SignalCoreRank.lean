/-
  M1 (SignalCore): a ranking function.  Every system step strictly decreases it, so every run without
  new API calls has bounded length, under any scheduler (L2: termination; with the L1 theorems of
  Props/C01, C02: every such run ends in a state where all calls have returned).
  The rank of a thread is an upper bound of the number of steps its current call can still take; for the
  go() prefix it depends on the current length of the shared lists, so a thread that appends to one of
  them pays for every thread (`N` = a bound on the ids of the threads that are not idle).
-/
import MoThreads.Model.SignalCore
namespace MoThreads.SignalCore
open MoThreads

def State.W (s : State) : Nat := (lst s.waiting).length
def State.J (s : State) : Nat := (lst s.jobs).length

/-- upper bound of the remaining steps of a call at `pc`, for `W` stoppers and `J` jobs in the shared lists -/
def rk (N W J : Nat) : PC → Nat
  | .idle _ => 0
  | .w0 => N + 8 | .w1 => N + 7 | .w2 => N + 6 | .w2r => 1 | .w3 => N + 5 | .w4 _ => N + 4
  | .w5n _ => N + 3 | .w5a _ => N + 3 | .w6 _ => 2 | .w7 _ => 1
  | .g0 => 9 + W + 2 * J | .g1 => 8 + W + 2 * J | .g2 => 7 + W + 2 * J | .g2r => 1
  | .g3 => 6 + W + 2 * J | .g4 => 5 + W + 2 * J | .g5 => 4 + W + 2 * J
  | .g6 js => 3 + W + 2 * js.length | .g7 js => 2 + W + 2 * js.length
  | .g8 js ws => 1 + ws.length + 2 * js.length | .g9 js ws => ws.length + 2 * js.length
  | .g10 js => 2 * js.length | .g11 _ js => 2 * js.length + 1
  | .t1 _ => 2 * N + 5 | .t2 _ => 2 * N + 4 | .t3 _ => 2 * N + 3 | .t4n _ => 2 * N + 2 | .t4a _ => 2 * N + 2
  | .t5 _ => 1 | .t6 _ => 3 | .t7 _ => 2 | .t8 _ => 1
  | .r0 _ => 7 | .r1 _ => 6 | .r2 _ => 5 | .r3 _ => 4 | .r4 _ => 3 | .r5 _ => 2 | .r6 => 1
  | .b0 => 1

def rank (N : Nat) (s : State) : Nat := sumTo N (fun t => rk N s.W s.J (s.pc t))

theorem rk_mono (N : Nat) {W W' J J' a b : Nat} (hW : W' ≤ W + a) (hJ : J' ≤ J + b) (q : PC) :
    rk N W' J' q ≤ rk N W J q + (a + 2 * b) := by
  cases q <;> simp only [rk] <;> omega

theorem sumTo_le_add {n c : Nat} {f g : Nat → Nat} (h : ∀ u, u < n → g u ≤ f u + c) : sumTo n g ≤ sumTo n f + n * c := by
  induction n with
  | zero => simp [sumTo]
  | succ n ih =>
    have := ih (fun u hu => h u (by omega))
    have := h n (by omega)
    simp only [sumTo, Nat.succ_mul]; omega

theorem sumTo_point {n t c : Nat} {f g : Nat → Nat} (ht : t < n) (h : ∀ u, u < n → u ≠ t → g u ≤ f u + c) :
    sumTo n g + f t + c ≤ sumTo n f + g t + n * c := by
  induction n with
  | zero => omega
  | succ n ih =>
    simp only [sumTo, Nat.succ_mul]
    by_cases htn : t = n
    · subst htn
      have := sumTo_le_add (n := t) (c := c) (f := f) (g := g) (fun u hu => h u (by omega) (by omega))
      omega
    · have := ih (by omega) (fun u hu hne => h u (by omega) hne)
      have := h n (by omega) (by omega)
      omega

/-- a step of thread `t < N` that moves it to `p'` and lengthens the shared lists by at most `a` / `b` -/
theorem rank_lt_of (N : Nat) (s s' : State) (t : Nat) (p' : PC) (a b : Nat)
    (hpc : ∀ u, s'.pc u = if u = t then p' else s.pc u) (hW : s'.W ≤ s.W + a) (hJ : s'.J ≤ s.J + b) (ht : t < N)
    (hdec : rk N s'.W s'.J p' + N * (a + 2 * b) < rk N s.W s.J (s.pc t)) : rank N s' < rank N s := by
  unfold rank
  have h1 := sumTo_point (n := N) (t := t) (c := a + 2 * b) (f := fun u => rk N s.W s.J (s.pc u))
    (g := fun u => rk N s'.W s'.J (s'.pc u)) ht (by
      intro u _ hne
      show rk N s'.W s'.J (s'.pc u) ≤ rk N s.W s.J (s.pc u) + (a + 2 * b)
      rw [hpc u, if_neg hne]
      exact rk_mono N hW hJ _)
  have h2 : rk N s'.W s'.J (s'.pc t) = rk N s'.W s'.J p' := by rw [hpc t, if_pos rfl]
  omega

theorem erase_length_le (l : List Nat) (k : Nat) : (l.erase k).length ≤ l.length := by
  have := List.length_erase_le (a := k) (l := l)
  exact this

theorem lst_some (l : List Nat) : lst (some l) = l := rfl
theorem lst_none : lst none = [] := rfl

set_option hygiene false in
macro "rk_close" a:term "," b:term : tactic => `(tactic| (
  refine rank_lt_of N _ _ t _ $a $b (fun u => rfl) ?_ ?_ ht ?_
  all_goals (try simp only [State.setPc, State.setPcG, State.W, State.J, lst_some, lst_none, hp, afterJob, afterStoppers,
    apply_ite (rk N _ _), List.length_cons, List.length_append, List.length_nil])
  all_goals (try simp only [rk, List.length_cons, List.length_append, List.length_nil])
  all_goals (try split) <;> (try split) <;> (try omega)))

set_option maxHeartbeats 2000000 in
/-- every step strictly decreases the rank -/
theorem rank_step {N : Nat} {s s' : State} {t : Nat} {l : Label} (ht : t < N) (hs : step s t = some (s', l)) :
    rank N s' < rank N s := by
  unfold step at hs
  cases hp : s.pc t with
  | idle r => rw [hp] at hs; cases hs
  | w1 => rw [hp] at hs; simp only at hs; split at hs <;> (try (cases hs; done)); cases hs; rk_close 0, 0
  | g1 => rw [hp] at hs; simp only at hs; split at hs <;> (try (cases hs; done)); cases hs; rk_close 0, 0
  | t1 k => rw [hp] at hs; simp only at hs; split at hs <;> (try (cases hs; done)); cases hs; rk_close 0, 0
  | r1 k => rw [hp] at hs; simp only at hs; split at hs <;> (try (cases hs; done)); cases hs; rk_close 0, 0
  | w7 x => rw [hp] at hs; simp only at hs; split at hs <;> (try (cases hs; done)); cases hs; rk_close 0, 0
  | w5n x => rw [hp] at hs; cases hs; rk_close 1, 0
  | w5a x => rw [hp] at hs; cases hs; rk_close 1, 0
  | t4n k => rw [hp] at hs; cases hs; rk_close 0, 1
  | t4a k => rw [hp] at hs; cases hs; rk_close 0, 1
  | r5 k =>
    rw [hp] at hs; cases hs
    have := erase_length_le (lst s.jobs) k
    rk_close 0, 0
  | g9 js ws =>
    rw [hp] at hs
    cases ws with
    | nil => cases hs
    | cons x ws' => cases hs; rk_close 0, 0
  | g10 js =>
    rw [hp] at hs
    cases js with
    | nil => cases hs
    | cons k js' => cases hs; rk_close 0, 0
  | _ => rw [hp] at hs; cases hs; rk_close 0, 0

/-- threads with ids ≥ N are idle -/
def Below (N : Nat) (s : State) : Prop := ∀ t, N ≤ t → ∃ r, s.pc t = .idle r

theorem step_pc_other {s s' : State} {t : Nat} {l : Label} (hs : step s t = some (s', l)) (u : Nat) (hu : u ≠ t) : s'.pc u = s.pc u := by
  unfold step at hs
  cases hp : s.pc t <;> rw [hp] at hs <;> simp only at hs <;> (try split at hs) <;> (try (cases hs; done)) <;>
    (cases hs; simp [State.setPc, State.setPcG, hu])

theorem step_not_idle {s s' : State} {t : Nat} {l : Label} (hs : step s t = some (s', l)) : ¬ ∃ r, s.pc t = .idle r := by
  rintro ⟨r, hr⟩; unfold step at hs; rw [hr] at hs; cases hs

theorem below_step {N : Nat} {s s' : State} {t : Nat} {l : Label} (hb : Below N s) (hs : step s t = some (s', l)) : Below N s' := by
  intro u hu
  by_cases hut : u = t
  · subst hut; exact absurd (hb u hu) (step_not_idle hs)
  · rw [step_pc_other hs u hut]; exact hb u hu

theorem step_lt_of_below {N : Nat} {s s' : State} {t : Nat} {l : Label} (hb : Below N s) (hs : step s t = some (s', l)) : t < N := by
  rcases Nat.lt_or_ge t N with h | h
  · exact h
  · exact absurd (hb t h) (step_not_idle hs)

/-- every run without new API calls takes at most `rank N s` steps -/
theorem run_length_le_rank {N : Nat} {s s' : State} {tr : List (Nat × Label)} (hb : Below N s) (r : sys.Run s tr s') :
    tr.length + rank N s' ≤ rank N s :=
  Sys.Run.length_le_rank_inv sys (rank N) (Below N)
    (fun _ _ _ _ hP hs => below_step hP hs)
    (fun _ _ _ _ hP hs => rank_step (step_lt_of_below hP hs) hs) r hb

end MoThreads.SignalCore
