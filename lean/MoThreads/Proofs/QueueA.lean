import MoThreads.Proofs.QueueTac
namespace MoThreads.Queue
set_option maxHeartbeats 2000000

theorem step_sAcq {s s' : State} {t : Nat} {l : Label} {a : Act} {tl : Option Nat} {f : Bool} (h : Inv s) (hp : s.pc t = .sAcq a tl f)
    (hs : step s t = some (s', l)) : Inv s' := by
  step_case

theorem step_sC {s s' : State} {t : Nat} {l : Label} {a : Act} {tl : Option Nat} (h : Inv s) (hp : s.pc t = .sC a tl)
    (hs : step s t = some (s', l)) : Inv s' := by
  step_case

theorem step_sLen {s s' : State} {t : Nat} {l : Label} {a : Act} {tl : Option Nat} (h : Inv s) (hp : s.pc t = .sLen a tl)
    (hs : step s t = some (s', l)) : Inv s' := by
  step_case

theorem step_sTill {s s' : State} {t : Nat} {l : Label} {a : Act} {x : Nat} (h : Inv s) (hp : s.pc t = .sTill a x)
    (hs : step s t = some (s', l)) : Inv s' := by
  step_case

theorem step_sPark {s s' : State} {t : Nat} {l : Label} {a : Act} {tl : Option Nat} (h : Inv s) (hp : s.pc t = .sPark a tl)
    (hs : step s t = some (s', l)) : Inv s' := by
  step_case

theorem step_sRel2 {s s' : State} {t : Nat} {l : Label} {a : Act} {tl : Option Nat} (h : Inv s) (hp : s.pc t = .sRel2 a tl)
    (hs : step s t = some (s', l)) : Inv s' := by
  step_case

theorem step_sParked {s s' : State} {t : Nat} {l : Label} {a : Act} {tl : Option Nat} (h : Inv s) (hp : s.pc t = .sParked a tl)
    (hs : step s t = some (s', l)) : Inv s' := by
  step_at hp hs
  cases hsl : s.silent <;> simp only [hsl, if_true, if_false, Bool.false_eq_true] at hs <;>
    (split at hs <;> (try (cases hs; done)); cases hs; inv_open; inv_rest)

theorem step_sWoke {s s' : State} {t : Nat} {l : Label} {a : Act} {tl : Option Nat} (h : Inv s) (hp : s.pc t = .sWoke a tl)
    (hs : step s t = some (s', l)) : Inv s' := by
  step_at hp hs
  cases hs
  cases hsl : s.silent
  · cases tl <;> (inv_open; inv_rest)
  · inv_open; inv_rest

theorem step_sAlertT {s s' : State} {t : Nat} {l : Label} {a : Act} {x : Nat} (h : Inv s) (hp : s.pc t = .sAlertT a x)
    (hs : step s t = some (s', l)) : Inv s' := by
  step_case

theorem step_sAlertLen {s s' : State} {t : Nat} {l : Label} {a : Act} {tl : Option Nat} (h : Inv s) (hp : s.pc t = .sAlertLen a tl)
    (hs : step s t = some (s', l)) : Inv s' := by
  step_case

theorem step_sPost {s s' : State} {t : Nat} {l : Label} {a : Act} (h : Inv s) (hp : s.pc t = .sPost a)
    (hs : step s t = some (s', l)) : Inv s' := by
  step_case

theorem step_sAlertNum {s s' : State} {t : Nat} {l : Label} {a : Act} {tl : Option Nat} (h : Inv s) (hp : s.pc t = .sAlertNum a tl)
    (hs : step s t = some (s', l)) : Inv s' := by
  step_case

end MoThreads.Queue
