import MoThreads.Proofs.TreeInv
namespace MoThreads.ThreadTree
set_option maxHeartbeats 1000000

theorem okJ_pend_mono {s : State} {r : List JAct} : ∀ {pend pend' : List Nat}, (∀ y, y ∈ pend → y ∈ pend') → okJ s pend r → okJ s pend' r := by
  induction r with
  | nil => intros; trivial
  | cons a r ih =>
    intro pend pend' hsub h
    cases a with
    | wait u => simp only [okJ] at h ⊢; exact ih (by intro y hy; simp at hy ⊢; rcases hy with rfl | hy; exact Or.inl rfl; exact Or.inr (hsub y hy)) h
    | unreg u =>
      simp only [okJ] at h ⊢
      exact ⟨by rcases h.1 with h1 | h1; exact Or.inl h1; exact Or.inr (hsub u h1), ih hsub h.2⟩
    | start u => simp only [okJ] at h ⊢; exact ih hsub h
    | mark u => simp only [okJ] at h ⊢; exact ih hsub h
    | finish u cs => simp only [okJ] at h ⊢; exact ih hsub h

theorem okJ_drop_stopped {s : State} {r : List JAct} {u : Nat} (hu : s.stopped u = true) :
    ∀ {pend : List Nat}, okJ s (u :: pend) r → okJ s pend r := by
  induction r with
  | nil => intros; trivial
  | cons a r ih =>
    intro pend h
    cases a with
    | wait x =>
      simp only [okJ] at h ⊢
      have : okJ s (u :: x :: pend) r := okJ_pend_mono (by intro y hy; simp at hy ⊢; rcases hy with rfl | rfl | hy <;> simp_all) h
      exact ih this
    | unreg x =>
      simp only [okJ] at h ⊢
      refine ⟨?_, ih h.2⟩
      rcases h.1 with h1 | h1
      · exact Or.inl h1
      · simp at h1; rcases h1 with rfl | h1
        · exact Or.inl hu
        · exact Or.inr h1
    | start x => simp only [okJ] at h ⊢; exact ih h
    | mark x => simp only [okJ] at h ⊢; exact ih h
    | finish x cs => simp only [okJ] at h ⊢; exact ih h

theorem okJ_filter {s : State} {r : List JAct} {u : Nat} :
    ∀ {pend pend' : List Nat}, (∀ y, y ∈ pend → y = u ∨ y ∈ pend') → okJ s pend r → okJ s pend' (r.filter (· ≠ .unreg u)) := by
  induction r with
  | nil => intros; trivial
  | cons a r ih =>
    intro pend pend' hsub h
    cases a with
    | wait x =>
      simp only [okJ] at h
      have : (JAct.wait x :: r).filter (· ≠ .unreg u) = .wait x :: r.filter (· ≠ .unreg u) := by simp [List.filter]
      rw [this]; simp only [okJ]
      exact ih (by intro y hy; simp at hy ⊢; rcases hy with rfl | hy; exact Or.inr (Or.inl rfl); rcases hsub y hy with h1 | h1; exact Or.inl h1; exact Or.inr (Or.inr h1)) h
    | unreg x =>
      simp only [okJ] at h
      by_cases hx : x = u
      · subst hx
        have : (JAct.unreg x :: r).filter (· ≠ .unreg x) = r.filter (· ≠ .unreg x) := by simp [List.filter]
        rw [this]; exact ih hsub h.2
      · have : (JAct.unreg x :: r).filter (· ≠ .unreg u) = .unreg x :: r.filter (· ≠ .unreg u) := by
          simp [List.filter, hx]
        rw [this]; simp only [okJ]
        refine ⟨?_, ih hsub h.2⟩
        rcases h.1 with h1 | h1
        · exact Or.inl h1
        · rcases hsub x h1 with h2 | h2
          · exact absurd h2 hx
          · exact Or.inr h2
    | start x =>
      simp only [okJ] at h
      have : (JAct.start x :: r).filter (· ≠ .unreg u) = .start x :: r.filter (· ≠ .unreg u) := by simp [List.filter]
      rw [this]; simp only [okJ]; exact ih hsub h
    | mark x =>
      simp only [okJ] at h
      have : (JAct.mark x :: r).filter (· ≠ .unreg u) = .mark x :: r.filter (· ≠ .unreg u) := by simp [List.filter]
      rw [this]; simp only [okJ]; exact ih hsub h
    | finish x cs =>
      simp only [okJ] at h
      have : (JAct.finish x cs :: r).filter (· ≠ .unreg u) = .finish x cs :: r.filter (· ≠ .unreg u) := by simp [List.filter]
      rw [this]; simp only [okJ]; exact ih hsub h

theorem okJ_starts {s : State} {pend : List Nat} {r : List JAct} (cs : List Nat) (h : okJ s pend r) :
    okJ s pend (cs.map .start ++ r) := by
  induction cs with
  | nil => simpa using h
  | cons c cs ih => simpa [okJ] using ih

/-- `okJ` only depends on the `stopped` flags, and those only grow -/
theorem okJ_state_mono {s s' : State} {r : List JAct} (hm : ∀ x, s.stopped x = true → s'.stopped x = true) :
    ∀ {pend : List Nat}, okJ s pend r → okJ s' pend r := by
  induction r with
  | nil => intros; trivial
  | cons a r ih =>
    intro pend h
    cases a with
    | wait x => simp only [okJ] at h ⊢; exact ih h
    | unreg x =>
      simp only [okJ] at h ⊢
      exact ⟨by rcases h.1 with h1 | h1; exact Or.inl (hm x h1); exact Or.inr h1, ih h.2⟩
    | start x => simp only [okJ] at h ⊢; exact ih h
    | mark x => simp only [okJ] at h ⊢; exact ih h
    | finish x cs => simp only [okJ] at h ⊢; exact ih h

end MoThreads.ThreadTree
