import MoThreads.Proofs.TillC_c3b
namespace MoThreads.Till
set_option maxHeartbeats 4000000

theorem stepC_c4 {s s' : State} {t : Nat} {l : Label} {id : Nat} {late : Bool} (h : Inv s) (ht : t ≠ 0) (hp : s.cpc t = .c4 id late)
    (hs : stepC s t = some (s', l)) : Inv s' := by
  unfold stepC at hs; rw [hp] at hs; simp only at hs; cases hs
  copen
  case F3 =>
    intro id' h1 h2 h3
    have h4 := F3 id' h1 h2 h3
    by_cases hmt : s.maker id' = t
    · simp only [hmt, if_true]; rw [hmt, hp] at h4
      cases late <;> simp_all [CPC.making]
    · simp only [hmt, if_false]; exact h4
  case Mk =>
    intro u id' hu
    by_cases hut : u = t
    · subst hut; simp only [if_true] at hu
      have h4 := Mk u id'
      rw [hp] at h4
      cases late <;> simp_all [CPC.making]
    · simp only [hut, if_false] at hu; exact Mk u id' hu
  crest

end MoThreads.Till
