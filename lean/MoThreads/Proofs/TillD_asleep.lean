import MoThreads.Proofs.TillTac
namespace MoThreads.Till
set_option maxHeartbeats 4000000

theorem stepD_asleep {s s' : State} {l : Label} {w : Int} (h : Inv s) (hp : s.dpc = .asleep w)
    (hs : stepD s = some (s', l)) : Inv s' := by
  unfold stepD at hs; rw [hp] at hs; simp only at hs
  first
  | (cases hs; dcase)
  | (split at hs <;> first | (cases hs; done) | (cases hs; dcase))

end MoThreads.Till
