import MoThreads.Proofs.TreeJoin
namespace MoThreads.ThreadTree
set_option maxHeartbeats 4000000

theorem inv_init : Inv init := by
  constructor <;> simp [init, Call.jwork, Call.isSpawn]
  all_goals (intro t; by_cases h0 : t = 0 <;> simp [h0, Phase.isStopped, Phase.post, Phase.finCs, Phase.finDone])

set_option hygiene false in
macro "topen" : tactic => `(tactic| (
  obtain ⟨stP, outP, ever, finK, finD, jtop, jun, fin3C, spawnR, fresh, spawnC, spawnU⟩ := h
  constructor
  all_goals dsimp only))

set_option hygiene false in
macro "clrT" : tactic => `(tactic| (
  try clear stP
  try clear outP
  try clear ever
  try clear finK
  try clear finD
  try clear jtop
  try clear jun
  try clear fin3C
  try clear spawnR
  try clear fresh
  try clear spawnC
  try clear spawnU))

macro "tdefs" : tactic => `(tactic| grind [upd, Phase.isStopped, Phase.post, Phase.finCs, Phase.finDone, Call.jwork, Call.isSpawn, tillOn])

set_option hygiene false in
macro "f_stP" : tactic => `(tactic| (intro u; have h1 := stP u; have h2 := stP t; clrT; tdefs))
set_option hygiene false in
macro "f_outP" : tactic => `(tactic| (intro u hu; have h1 := outP u; have h2 := outP t; clrT; tdefs))
set_option hygiene false in
macro "f_ever" : tactic => `(tactic| (intro p c hc; have h1 := ever p c; have h2 := stP c; have h3 := stP t; clrT; tdefs))
set_option hygiene false in
macro "f_finK" : tactic => `(tactic| (intro p cs hp c hc; have h1 := finK p cs; have h2 := stP c; have h3 := stP t; have h4 := ever p c; clrT; tdefs))
set_option hygiene false in
macro "f_finD" : tactic => `(tactic| (intro p hp c hc; have h1 := finD p; have h2 := stP c; have h3 := stP t; clrT; tdefs))
set_option hygiene false in
macro "f_jtop" : tactic => `(tactic| (intro u top work tl raised hw x hx; have h1 := jtop u top work tl raised; have h2 := stP x; have h3 := stP t; simp only [tillOn] at *; clrT; tdefs))
set_option hygiene false in
macro "f_fin3C" : tactic => `(tactic| (intro p cs hp; have h1 := fin3C p cs; have h2 := fin3C t cs; clrT; tdefs))
set_option hygiene false in
macro "f_spawnR" : tactic => `(tactic| (intro u hu; have h1 := spawnR u; have h2 := spawnR t; clrT; tdefs))
set_option hygiene false in
macro "f_fresh" : tactic => `(tactic| (intro c hc; have h1 := fresh c; clrT; tdefs))
set_option hygiene false in
macro "f_spawnC" : tactic => `(tactic| (intro u c hu; have h1 := spawnC u c; have h2 := spawnC t c; have h3 := fresh c; clrT; tdefs))
set_option hygiene false in
macro "f_spawnU" : tactic => `(tactic| (intro u v c hu hv; have h1 := spawnU u v c; have h2 := spawnC u c; have h3 := spawnC v c; have h4 := spawnU u t c; have h5 := spawnU t v c; clrT; tdefs))

theorem okJ_map_start (s : State) (cs : List Nat) : okJ s [] (cs.map .start) := by
  have := okJ_starts (s := s) (pend := []) (r := []) cs trivial
  simpa using this

theorem jun_same_call {s s' : State} (hm : ∀ x, s.stopped x = true → s'.stopped x = true)
    (hj : ∀ t top work tl raised, (s.call t).jwork = some (top, work, tl, raised) → okJ s [] work) :
    ∀ t top work tl raised, (s.call t).jwork = some (top, work, tl, raised) → okJ s' [] work := by
  intro u top work tl raised hw
  exact okJ_state_mono hm (hj u top work tl raised hw)

theorem jun_of_update {s s' : State} (t : Nat) (c' : Call)
    (hm : ∀ x, s.stopped x = true → s'.stopped x = true)
    (hj : ∀ t top work tl raised, (s.call t).jwork = some (top, work, tl, raised) → okJ s [] work)
    (hnew : ∀ top work tl raised, c'.jwork = some (top, work, tl, raised) → okJ s [] work) :
    ∀ u top work tl raised, ((upd s.call t c') u).jwork = some (top, work, tl, raised) → okJ s' [] work := by
  intro u top work tl raised hw
  by_cases hut : u = t
  · subst hut; rw [upd_same] at hw; exact okJ_state_mono hm (hnew top work tl raised hw)
  · rw [upd_other _ _ _ _ hut] at hw; exact okJ_state_mono hm (hj u top work tl raised hw)

set_option hygiene false in
macro "f_jun" : tactic => `(tactic| first
  | exact jun_same_call (s := s) (by intro x hx; first | exact hx | (simp only [upd]; split <;> simp_all)) jun
  | exact jun_of_update (s := s) t _ (by intro x hx; first | exact hx | (simp only [upd]; split <;> simp_all)) jun
      (by intro top work tl raised hw
          first
            | (simp [Call.jwork] at hw; done)
            | (simp only [Call.jwork, Option.some.injEq, Prod.mk.injEq] at hw
               obtain ⟨rfl, rfl, rfl, rfl⟩ := hw; exact okJ_map_start _ _)))

set_option hygiene false in
macro "trest" : tactic => `(tactic| (
  try (case stP => f_stP)
  try (case outP => f_outP)
  try (case ever => f_ever)
  try (case finK => f_finK)
  try (case finD => f_finD)
  try (case jtop => f_jtop)
  try (case jun => f_jun)
  try (case fin3C => f_fin3C)
  try (case spawnR => f_spawnR)
  try (case fresh => f_fresh)
  try (case spawnC => f_spawnC)
  try (case spawnU => f_spawnU)))

/-- `okJ` does not change when `stopped` only grows -/
theorem jun_of {s s' : State} (hm : ∀ x, s.stopped x = true → s'.stopped x = true) {pend : List Nat} {r : List JAct}
    (h : okJ s pend r) : okJ s' pend r := okJ_state_mono hm h

theorem step_created {s s' : State} {t : Nat} {l : Label} (h : Inv s) (hph : s.phase t = .created)
    (hs : step s t = some (s', l)) : Inv s' := by
  unfold step at hs; rw [hph] at hs; cases hs
  topen
  trest

theorem step_run_spawn {s s' : State} {t : Nat} {l : Label} {c : Nat} (h : Inv s) (hph : s.phase t = .running) (hc : s.call t = .spawn c)
    (hs : step s t = some (s', l)) : Inv s' := by
  unfold step at hs; rw [hph] at hs; simp only [hc] at hs
  have hsc := h.spawnC t c hc
  have hct : c ≠ t := by intro he; rw [he, hph] at hsc; cases hsc.1
  split at hs
  · cases hs
    topen
    case stP =>
      intro u; have h1 := stP u
      by_cases huc : u = c
      · subst huc; rw [upd_same]; rw [hsc.1] at h1; simpa [Phase.isStopped] using h1
      · rw [upd_other _ _ _ _ huc]; exact h1
    case spawnR =>
      intro u hu
      by_cases hut : u = t
      · subst hut; rw [upd_same] at hu; simp [Call.isSpawn] at hu
      · rw [upd_other _ _ _ _ hut] at hu
        have h1 := spawnR u hu
        have huc : u ≠ c := by intro he; rw [he, hsc.1] at h1; cases h1
        rw [upd_other _ _ _ _ huc]; exact h1
    case fresh =>
      intro x hx
      have : x ≠ c := by have := hsc.2; omega
      rw [upd_other _ _ _ _ this]; exact fresh x hx
    case spawnC =>
      intro u x hu
      by_cases hut : u = t
      · subst hut; rw [upd_same] at hu; cases hu
      · rw [upd_other _ _ _ _ hut] at hu
        have h1 := spawnC u x hu
        have hxc : x ≠ c := by intro he; subst he; exact hut (spawnU u t x hu hc)
        rw [upd_other _ _ _ _ hxc]; exact h1
    trest
  · cases hs; topen; trest

theorem step_run_releasing {s s' : State} {t : Nat} {l : Label} {u : Nat} (h : Inv s) (hph : s.phase t = .running) (hc : s.call t = .releasing u)
    (hs : step s t = some (s', l)) : Inv s' := by
  unfold step at hs; rw [hph] at hs; simp only [hc] at hs
  cases hs
  topen
  trest

theorem step_run_stop_nil {s s' : State} {t : Nat} {l : Label}  (h : Inv s) (hph : s.phase t = .running) (hc : s.call t = .stopping [])
    (hs : step s t = some (s', l)) : Inv s' := by
  unfold step at hs; rw [hph] at hs; simp only [hc] at hs
  cases hs
  topen
  trest

theorem step_run_join_nil {s s' : State} {t : Nat} {l : Label} {top : List Nat} {tl : Option Nat} {raised : List Nat} {all : Bool} (h : Inv s) (hph : s.phase t = .running) (hc : s.call t = .joining top [] tl raised all)
    (hs : step s t = some (s', l)) : Inv s' := by
  unfold step at hs; rw [hph] at hs; simp only [hc] at hs
  cases hs
  topen
  trest

theorem step_run_m0 {s s' : State} {t : Nat} {l : Label}  (h : Inv s) (hph : s.phase t = .running) (hc : s.call t = .m0)
    (hs : step s t = some (s', l)) : Inv s' := by
  unfold step at hs; rw [hph] at hs; simp only [hc] at hs
  cases hs
  topen
  trest

theorem step_run_m1 {s s' : State} {t : Nat} {l : Label}  (h : Inv s) (hph : s.phase t = .running) (hc : s.call t = .m1)
    (hs : step s t = some (s', l)) : Inv s' := by
  unfold step at hs; rw [hph] at hs; simp only [hc] at hs
  cases hs
  topen
  trest

theorem step_run_mS_nil {s s' : State} {t : Nat} {l : Label} {cs : List Nat} (h : Inv s) (hph : s.phase t = .running) (hc : s.call t = .mS cs [])
    (hs : step s t = some (s', l)) : Inv s' := by
  unfold step at hs; rw [hph] at hs; simp only [hc] at hs
  cases hs
  topen
  trest

theorem step_run_mJ_nil {s s' : State} {t : Nat} {l : Label} {cs : List Nat} {raised : List Nat} (h : Inv s) (hph : s.phase t = .running) (hc : s.call t = .mJ cs [] raised)
    (hs : step s t = some (s', l)) : Inv s' := by
  unfold step at hs; rw [hph] at hs; simp only [hc] at hs
  cases hs
  topen
  trest

theorem step_run_m2 {s s' : State} {t : Nat} {l : Label} {cs : List Nat} {raised : List Nat} (h : Inv s) (hph : s.phase t = .running) (hc : s.call t = .m2 cs raised)
    (hs : step s t = some (s', l)) : Inv s' := by
  unfold step at hs; rw [hph] at hs; simp only [hc] at hs
  cases hs
  topen
  trest

theorem step_run_mRS_nil {s s' : State} {t : Nat} {l : Label} {cs raised res : List Nat} (h : Inv s) (hph : s.phase t = .running) (hc : s.call t = .mRS cs raised res [])
    (hs : step s t = some (s', l)) : Inv s' := by
  unfold step at hs; rw [hph] at hs; simp only [hc] at hs
  cases hs
  topen
  trest

theorem step_run_mRJ_nil {s s' : State} {t : Nat} {l : Label} {cs raised res raised2 : List Nat} (h : Inv s) (hph : s.phase t = .running) (hc : s.call t = .mRJ cs raised res [] raised2)
    (hs : step s t = some (s', l)) : Inv s' := by
  unfold step at hs; rw [hph] at hs; simp only [hc] at hs
  cases hs
  topen
  trest

theorem step_peek {s s' : State} {t : Nat} {l : Label} {o : Outcome} (h : Inv s) (hph : s.phase t = .peek o)
    (hs : step s t = some (s', l)) : Inv s' := by
  unfold step at hs; rw [hph] at hs; simp only at hs
  cases hs
  topen
  trest

theorem step_fin1 {s s' : State} {t : Nat} {l : Label}  (h : Inv s) (hph : s.phase t = .fin1)
    (hs : step s t = some (s', l)) : Inv s' := by
  unfold step at hs; rw [hph] at hs; simp only at hs
  cases hs
  topen
  trest

theorem step_fin2_nil {s s' : State} {t : Nat} {l : Label} {cs : List Nat} (h : Inv s) (hph : s.phase t = .fin2 cs) (hc : s.call t = .stopping [])
    (hs : step s t = some (s', l)) : Inv s' := by
  unfold step at hs; rw [hph] at hs; simp only [hc] at hs
  cases hs
  topen
  case fin3C =>
    intro p cs' hp
    by_cases hpt : p = t
    · subst hpt; rw [upd_same] at hp ⊢; cases hp; exact ⟨_, _, rfl⟩
    · rw [upd_other _ _ _ _ hpt] at hp ⊢; exact fin3C p cs' hp
  trest

theorem step_fin3_nil {s s' : State} {t : Nat} {l : Label} {cs : List Nat} {top : List Nat} {tl : Option Nat} {raised : List Nat} {all : Bool} (h : Inv s) (hph : s.phase t = .fin3 cs) (hc : s.call t = .joining top [] tl raised all)
    (hs : step s t = some (s', l)) : Inv s' := by
  unfold step at hs; rw [hph] at hs; simp only [hc] at hs
  cases hs
  have hall : ∀ c, c ∈ s.everChild t → s.stopped c = true := by
    intro c hcm
    obtain ⟨work, raised', hcc⟩ := h.fin3C t cs hph
    rw [hc] at hcc; cases hcc
    rcases h.finK t cs (by simp [hph, Phase.finCs]) c hcm with h1 | h1
    · have := h.jtop t cs [] none raised (by simp [hc, Call.jwork]) c h1
      simpa [tillOn] using this
    · exact h1
  topen
  case finD =>
    intro p hp c hcm
    by_cases hpt : p = t
    · subst hpt; exact hall c hcm
    · rw [upd_other _ _ _ _ hpt] at hp; exact finD p hp c hcm
  trest

theorem step_fin4 {s s' : State} {t : Nat} {l : Label} {cs : List Nat} (h : Inv s) (hph : s.phase t = .fin4 cs)
    (hs : step s t = some (s', l)) : Inv s' := by
  unfold step at hs; rw [hph] at hs; simp only at hs
  cases hs
  have hall := h.finD t (by simp [hph, Phase.finDone])
  topen
  case ever =>
    intro p c hcm
    by_cases hpt : p = t
    · subst hpt; exact Or.inr (hall c hcm)
    · rw [upd_other _ _ _ _ hpt]; exact ever p c hcm
  trest

theorem step_fin5 {s s' : State} {t : Nat} {l : Label} {cs : List Nat} (h : Inv s) (hph : s.phase t = .fin5 cs)
    (hs : step s t = some (s', l)) : Inv s' := by
  unfold step at hs; rw [hph] at hs; simp only at hs
  cases hs
  topen
  trest

theorem step_fin6 {s s' : State} {t : Nat} {l : Label} {cs : List Nat} (h : Inv s) (hph : s.phase t = .fin6 cs)
    (hs : step s t = some (s', l)) : Inv s' := by
  unfold step at hs; rw [hph] at hs; simp only at hs
  cases hs
  topen
  trest

theorem step_linger {s s' : State} {t : Nat} {l : Label}  (h : Inv s) (hph : s.phase t = .linger)
    (hs : step s t = some (s', l)) : Inv s' := by
  unfold step at hs; rw [hph] at hs; simp only at hs
  split at hs
  · cases hs; topen; trest
  · split at hs
    · split at hs
      · cases hs; topen; trest
      · -- sixty seconds without a joiner: the thread (stopped long ago) takes itself out of its parent's list
        cases hs
        have hst : s.stopped t = true := (h.stP t).mpr (by rw [hph]; rfl)
        have hsub : ∀ p x, x ∈ s.children p → x ∈ upd s.children (s.parent t) ((s.children (s.parent t)).erase t) p ∨ x = t := by
          intro p x hx
          by_cases hxt : x = t
          · exact Or.inr hxt
          · left; simp only [upd]; split
            · rename_i hp; subst hp; exact (List.mem_erase_of_ne hxt).mpr hx
            · exact hx
        topen
        case ever =>
          intro p c hc
          rcases ever p c hc with h1 | h1
          · rcases hsub p c h1 with h2 | h2
            · exact Or.inl h2
            · subst h2; exact Or.inr hst
          · exact Or.inr h1
        trest
    · cases hs

end MoThreads.ThreadTree
