import MoThreads.Proofs.SignalCoreWait
import MoThreads.Proofs.SignalCoreGo1
import MoThreads.Proofs.SignalCoreGo1b
import MoThreads.Proofs.SignalCoreGo2
import MoThreads.Proofs.SignalCoreGo3
import MoThreads.Proofs.SignalCoreThen
import MoThreads.Proofs.SignalCoreThen2
import MoThreads.Proofs.SignalCoreRemove
namespace MoThreads.SignalCore
set_option maxHeartbeats 2000000

/-- every system step preserves the invariant -/
theorem inv_step {s s' : State} {t : Nat} {l : Label} (h : Inv s) (hs : step s t = some (s', l)) : Inv s' := by
  cases hp : s.pc t with
  | idle r => unfold step at hs; rw [hp] at hs; cases hs
  | w0 => exact step_w0 h hp hs
  | w1 => exact step_w1 h hp hs
  | w2 => exact step_w2 h hp hs
  | w2r => exact step_w2r h hp hs
  | w3 => exact step_w3 h hp hs
  | w4 x => exact step_w4 h hp hs
  | w5n x => exact step_w5n h hp hs
  | w5a x => exact step_w5a h hp hs
  | w6 x => exact step_w6 h hp hs
  | w7 x => exact step_w7 h hp hs
  | g0 => exact step_g0 h hp hs
  | g1 => exact step_g1 h hp hs
  | g2 => exact step_g2 h hp hs
  | g2r => exact step_g2r h hp hs
  | g3 => exact step_g3 h hp hs
  | g4 => exact step_g4 h hp hs
  | g5 => exact step_g5 h hp hs
  | g6 js => exact step_g6 h hp hs
  | g7 js => exact step_g7 h hp hs
  | g8 js ws => exact step_g8 h hp hs
  | g9 js ws => exact step_g9 h hp hs
  | g10 js => exact step_g10 h hp hs
  | g11 k js => exact step_g11 h hp hs
  | t1 k => exact step_t1 h hp hs
  | t2 k => exact step_t2 h hp hs
  | t3 k => exact step_t3 h hp hs
  | t4n k => exact step_t4n h hp hs
  | t4a k => exact step_t4a h hp hs
  | t5 k => exact step_t5 h hp hs
  | t6 k => exact step_t6 h hp hs
  | t7 k => exact step_t7 h hp hs
  | t8 k => exact step_t8 h hp hs
  | r0 k => exact step_r0 h hp hs
  | r1 k => exact step_r1 h hp hs
  | r2 k => exact step_r2 h hp hs
  | r3 k => exact step_r3 h hp hs
  | r4 k => exact step_r4 h hp hs
  | r5 k => exact step_r5 h hp hs
  | r6 => exact step_r6 h hp hs
  | b0 => exact step_b0 h hp hs

/-- starting an API call on an idle thread preserves the invariant -/
theorem inv_call {s s' : State} {t : Nat} {op : Op} (h : Inv s) (hc : call s t op = some s') : Inv s' := by
  unfold call at hc
  split at hc
  next r hp =>
    cases op with
    | wait => cases hc; inv_case
    | go => 
      simp only at hc
      split at hc <;> (cases hc; inv_case)
    | bool => cases hc; inv_case
    | then_ => 
      cases hc
      have hk : s.loc s.nextK = .unborn := h.locFresh _ (Nat.le_refl _)
      have hQ := h.locQ s.nextK
      have hD := h.locD s.nextK
      have hR := h.ranLoc s.nextK
      have hEr := h.errLoc s.nextK
      have hG := h.ranGo s.nextK
      have hRm := h.remLoc s.nextK
      have hRs := fun u => h.errRaises s.nextK u
      have hB := h.locBorn s.nextK
      have hT : ∀ u, (s.pc u).thenK = some s.nextK ↔ s.loc s.nextK = .inThen u := fun u => h.locThen u _
      have hE : ∀ u, (s.pc u).errK = some s.nextK ↔ s.loc s.nextK = .erring u := fun u => h.locErr u _
      simp only [hk] at hQ hD hR hEr hG hRm hT hE hRs hB
      inv_open
      inv_rest
    | remove k => cases hc; inv_case
  next => cases hc

/-- the invariant holds in every reachable state of M1 -/
theorem reach_inv {s : State} (h : sys.Reach s) : Inv s := by
  refine Sys.Reach.invariant sys (P := Inv) ?_ ?_ ?_ h
  · rintro s ⟨nv, rs, rfl⟩; exact inv_init nv rs
  · rintro s s' hi ⟨t, op, hc⟩; exact inv_call hi hc
  · intro s s' t l hi hs; exact inv_step hi hs

end MoThreads.SignalCore
