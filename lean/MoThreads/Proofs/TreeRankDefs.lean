/-
  M5 (ThreadTree): weights for a ranking function.  A thread id is worth `2^(N - id)`; children have larger ids than
  their parent and the lists hold distinct ids, so the children of a thread weigh less, together, than the thread itself:
  this is what pays for expanding `visit u` / `start u` into the work for u's children.
-/
import MoThreads.Proofs.TreeReg
namespace MoThreads.ThreadTree
open MoThreads

/-! sums over lists of thread ids -/
def lsum (f : Nat → Nat) : List Nat → Nat
  | [] => 0
  | a :: l => f a + lsum f l

theorem lsum_append (f : Nat → Nat) (a b : List Nat) : lsum f (a ++ b) = lsum f a + lsum f b := by
  induction a with
  | nil => simp [lsum]
  | cons x a ih => simp only [List.cons_append, lsum, ih]; omega

theorem lsum_reverse (f : Nat → Nat) (l : List Nat) : lsum f l.reverse = lsum f l := by
  induction l with
  | nil => rfl
  | cons x l ih => simp only [List.reverse_cons, lsum_append, lsum, ih]; omega

theorem lsum_erase (f : Nat → Nat) {a : Nat} {l : List Nat} (h : a ∈ l) : lsum f l = f a + lsum f (l.erase a) := by
  induction l with
  | nil => cases h
  | cons x l ih =>
    by_cases hx : x = a
    · subst hx; simp [lsum]
    · have hm : a ∈ l := by
        rcases List.mem_cons.mp h with h1 | h1
        · exact absurd h1.symm hx
        · exact h1
      rw [List.erase_cons_tail (by simpa using hx)]
      simp only [lsum, ih hm]; omega

def pw (N u : Nat) : Nat := 2 ^ (N - u)

theorem pw_pos (N u : Nat) : 0 < pw N u := Nat.pow_pos (by omega)

/-- distinct ids in `[N-d, N)` weigh less than `2·2^d` together -/
theorem lsum_pw_aux (N : Nat) : ∀ d, d ≤ N → ∀ l : List Nat, l.Nodup → (∀ c, c ∈ l → N - d ≤ c ∧ c < N) → lsum (pw N) l + 2 ≤ 2 * 2 ^ d := by
  intro d
  induction d with
  | zero =>
    intro _ l _ hr
    cases l with
    | nil => simp [lsum]
    | cons x l => have := hr x (by simp); omega
  | succ d ih =>
    intro hd l hn hr
    have h2 : 2 ^ (d + 1) = 2 * 2 ^ d := by rw [Nat.pow_succ]; omega
    by_cases hm : (N - (d + 1)) ∈ l
    · rw [lsum_erase (pw N) hm]
      have hpw : pw N (N - (d + 1)) = 2 ^ (d + 1) := by unfold pw; congr 1; omega
      have := ih (by omega) (l.erase (N - (d + 1))) (hn.erase _) (by
        intro c hc
        have hc' := (List.Nodup.mem_erase_iff hn).mp hc
        have := hr c hc'.2
        have := hc'.1
        omega)
      omega
    · have := ih (by omega) l hn (by
        intro c hc
        have := hr c hc
        have : c ≠ N - (d + 1) := fun he => hm (he ▸ hc)
        omega)
      omega

/-- the (distinct) children of `u` weigh less than `u` -/
theorem lsum_pw_children {N u : Nat} {l : List Nat} (hn : l.Nodup) (hr : ∀ c, c ∈ l → u < c ∧ c < N) : lsum (pw N) l + 1 ≤ pw N u := by
  rcases Nat.lt_or_ge u N with hu | hu
  · have := lsum_pw_aux N (N - u - 1) (by omega) l hn (by intro c hc; have := hr c hc; omega)
    have h2 : pw N u = 2 * 2 ^ (N - u - 1) := by
      unfold pw
      have : N - u = (N - u - 1) + 1 := by omega
      rw [this, Nat.pow_succ]; simp; omega
    omega
  · cases l with
    | nil => have := pw_pos N u; simp [lsum]; omega
    | cons x l => have := hr x (by simp); omega

/-- any distinct ids below `N` -/
theorem lsum_pw_all {N : Nat} {l : List Nat} (hn : l.Nodup) (hr : ∀ c, c ∈ l → c < N) : lsum (pw N) l + 2 ≤ 2 * 2 ^ N :=
  lsum_pw_aux N N (Nat.le_refl _) l hn (by intro c hc; have := hr c hc; omega)

theorem lsum_mul (k : Nat) (f : Nat → Nat) (l : List Nat) : lsum (fun c => k * f c) l = k * lsum f l := by
  induction l with
  | nil => simp [lsum]
  | cons x l ih => simp only [lsum, ih, Nat.mul_add]

/-! weights of work lists -/
def wSA (N : Nat) : SAct → Nat
  | .visit u => 2 * pw N u
  | .fire _ => 1

def wS (N : Nat) : List SAct → Nat
  | [] => 0
  | a :: r => wSA N a + wS N r

def wJA (N : Nat) : JAct → Nat
  | .start u => 5 * pw N u
  | _ => 1

def wJ (N : Nat) : List JAct → Nat
  | [] => 0
  | a :: r => wJA N a + wJ N r

theorem wS_append (N : Nat) (a b : List SAct) : wS N (a ++ b) = wS N a + wS N b := by
  induction a with
  | nil => simp [wS]
  | cons x a ih => simp only [List.cons_append, wS, ih]; omega

theorem wJ_append (N : Nat) (a b : List JAct) : wJ N (a ++ b) = wJ N a + wJ N b := by
  induction a with
  | nil => simp [wJ]
  | cons x a ih => simp only [List.cons_append, wJ, ih]; omega

theorem wS_visits (N : Nat) (l : List Nat) : wS N (l.map .visit) = 2 * lsum (pw N) l := by
  induction l with
  | nil => simp [wS, lsum]
  | cons x l ih => simp only [List.map_cons, wS, wSA, lsum, ih]; omega

theorem wJ_starts (N : Nat) (l : List Nat) : wJ N (l.map .start) = 5 * lsum (pw N) l := by
  induction l with
  | nil => simp [wJ, lsum]
  | cons x l ih => simp only [List.map_cons, wJ, wJA, lsum, ih]; omega

theorem wJ_filter_le (N : Nat) (p : JAct → Bool) (l : List JAct) : wJ N (l.filter p) ≤ wJ N l := by
  induction l with
  | nil => simp [wJ]
  | cons x l ih =>
    simp only [List.filter_cons]
    split
    · simp only [wJ]; omega
    · simp only [wJ]; omega

/-- `P N`: a bound of the weight of any set of distinct threads -/
def PB (N : Nat) : Nat := 2 * 2 ^ N

def wCall (N : Nat) (ec : List Nat) : Call → Nat
  | .idle _ => 0
  | .spawn c => if c ∈ ec then 2 else 3
  | .releasing _ => 1
  | .stopping w => wS N w + 1
  | .joining _ w _ _ _ => wJ N w + 1
  | .m0 => 14 * PB N + 7
  | .m1 => 14 * PB N + 6
  | .mS cs w => wS N w + 1 + 5 * lsum (pw N) cs + 1 + (7 * PB N + 3)
  | .mJ _ w _ => wJ N w + 1 + (7 * PB N + 3)
  | .m2 _ _ => 7 * PB N + 3
  | .mRS _ _ res w => wS N w + 1 + 5 * lsum (pw N) res + 1
  | .mRJ _ _ _ w _ => wJ N w + 1

def wStopping (N : Nat) : Call → Nat
  | .stopping w => wS N w + 1
  | _ => 0

def wJoining (N : Nat) : Call → Nat
  | .joining _ w _ _ _ => wJ N w + 1
  | _ => 0

/-- upper bound of the steps thread `t` can still take without a new API call -/
def wTh (N t : Nat) (ph : Phase) (c : Call) (ec : List Nat) : Nat :=
  match ph with
  | .absent => wCall N ec c
  | .created => 1 + wCall N ec c
  | .running => wCall N ec c
  | .peek _ => 7 * pw N t + 2
  | .fin1 => 7 * pw N t + 1
  | .fin2 cs => wStopping N c + 5 * lsum (pw N) cs + 6
  | .fin3 _ => wJoining N c + 4
  | .fin4 _ => 4
  | .fin5 _ => 3
  | .fin6 _ => 2
  | .linger => 1
  | .dead => 0

def rank (N : Nat) (s : State) : Nat := sumTo N (fun t => wTh N t (s.phase t) (s.call t) (s.everChild t))

theorem sumTo_one {n t : Nat} {f g : Nat → Nat} (ht : t < n) (h : ∀ u, u ≠ t → g u = f u) (hd : g t < f t) : sumTo n g < sumTo n f := by
  have := sumTo_update (n := n) (f := f) (g := g) ht (fun i hi => (h i hi).symm)
  omega

theorem sumTo_two {n t c : Nat} {f g : Nat → Nat} (ht : t < n) (hc : c < n) (htc : t ≠ c)
    (h : ∀ u, u ≠ t → u ≠ c → g u = f u) (hd : g t + g c < f t + f c) : sumTo n g < sumTo n f := by
  let m : Nat → Nat := fun u => if u = t then g t else f u
  have h1 := sumTo_update (n := n) (f := f) (g := m) ht (fun i hi => by simp [m, hi])
  have h2 := sumTo_update (n := n) (f := m) (g := g) hc (fun i hi => by
    by_cases hit : i = t
    · subst hit; simp [m]
    · simp only [m, hit, if_false]; exact (h i hit hi).symm)
  have e1 : m t = g t := by simp [m]
  have e2 : m c = f c := by simp [m, Ne.symm htc]
  omega

end MoThreads.ThreadTree
