/-
  M5 (ThreadTree): the registry ALL and the ancestry of threads — what is needed for
  "MainThread.stop() leaves no registered thread behind".
-/
import MoThreads.Proofs.TreeStop
namespace MoThreads.ThreadTree
open MoThreads
set_option maxHeartbeats 4000000

def Phase.unregistered : Phase → Bool
  | .fin6 _ | .linger | .dead | .absent | .created => true
  | _ => false

def Call.mainCs : Call → Option (List Nat)
  | .mS cs _ | .mJ cs _ _ | .m2 cs _ | .mRS cs _ _ _ | .mRJ cs _ _ _ _ => some cs
  | _ => none

/-- MainThread.stop() is past its join phase -/
def Call.pastJoin : Call → Bool
  | .m2 .. | .mRS .. | .mRJ .. => true
  | _ => false

structure InvR (s : State) : Prop where
  R0 : (s.call 0).pastJoin = true → ∀ c, c ∈ s.everChild 0 → s.stopped c = true
  R1 : ∀ t, t ≠ 0 → (s.phase t).unregistered = true → s.inAll t = false
  R2 : ∀ c, c ≠ 0 → s.phase c ≠ .absent → s.orphan c = false → c ∈ s.everChild (s.parent c) ∧ s.parent c < c
  R3 : ∀ t c, s.call t = .spawn c → s.orphan c = false → s.parent c = t ∧ t < c
  R4 : ∀ cs, (s.call 0).mainCs = some cs → ∀ c, c ∈ s.children 0 → c ∈ cs
  R5 : s.phase 0 = .running
  R6 : ∀ p c, c ∈ s.children p → c ∈ s.everChild p
  R7 : ∀ p c, c ∈ s.everChild p → s.phase p ≠ .absent
  R8 : ∀ t, s.inAll t = true → t ∈ s.allOrder
  R9 : s.orphan 0 = false

theorem invR_init : InvR init := by
  refine ⟨?_, ?_, ?_, ?_, ?_, ?_, ?_, ?_, ?_, ?_⟩
  · intro h; simp [init, Call.pastJoin] at h
  · intro t ht _; simp [init, ht]
  · intro c hc hp; simp [init, hc] at hp
  · intro t c h; simp [init] at h
  · intro cs h; simp [init, Call.mainCs] at h
  · simp [init]
  · intro t c h; simp [init] at h
  · intro p c h; simp [init] at h
  · intro t h; simp [init] at h; simp [init, h]
  · simp [init]

theorem lt_nextId {s : State} (h : Inv s) {t : Nat} (hp : s.phase t ≠ .absent) : t < s.nextId := by
  rcases Nat.lt_or_ge t s.nextId with h1 | h1
  · exact h1
  · exact absurd (h.fresh t h1) hp

set_option hygiene false in
macro "rr" : tactic => `(tactic| (
  obtain ⟨R0, R1, R2, R3, R4, R5, R6, R7, R8, R9⟩ := hr
  refine ⟨?_, ?_, ?_, ?_, ?_, ?_, ?_, ?_, ?_, ?_⟩
  · intro hpj c hcc; have := R0; grind [upd, Call.pastJoin]
  · intro u hu0 hun; have := R1 u hu0; have := R1 t; grind [upd, Phase.unregistered]
  · intro c hc0 hpc; have := R2 c hc0; grind [upd]
  · intro u c hcu; have := R3 u c; have := R3 t c; grind [upd]
  · intro cs hm c hc; have := R4 cs; grind [upd, Call.mainCs]
  · grind [upd]
  · intro p c hcc; have := R6 p c; grind [upd]
  · intro p c hcc; have := R7 p c; grind [upd]
  · intro u hu; have := R8 u; grind [upd]
  · exact R9))

theorem invR_stepStop {s s' : State} {t : Nat} {w : List SAct} {k : List SAct → Call} {l : Label} (hr : InvR s)
    (hk : ∀ w1 w2, (k w1).mainCs = (k w2).mainCs ∧ (k w1).pastJoin = (k w2).pastJoin) (hk2 : ∀ w1 c, k w1 ≠ .spawn c) (hc : ∃ w0, s.call t = k w0)
    (hs : stepStop s t w k = some (s', l)) : InvR s' := by
  obtain ⟨w0, hc⟩ := hc
  unfold stepStop at hs
  cases w with
  | nil => cases hs
  | cons a r =>
    cases a with
    | visit u => cases hs; have := hk w0; have := hk2; rr
    | fire u => cases hs; have := hk w0; have := hk2; rr

theorem invR_stepJoin {s s' : State} {t : Nat} {top : List Nat} {w : List JAct} {tl : Option Nat} {raised : List Nat}
    {all : Bool} {k : List JAct → List Nat → Call} {l : Label} (hr : InvR s)
    (hk : ∀ w1 r1 w2 r2, (k w1 r1).mainCs = (k w2 r2).mainCs ∧ (k w1 r1).pastJoin = (k w2 r2).pastJoin) (hk2 : ∀ w1 r1 c, k w1 r1 ≠ .spawn c) (hc : ∃ w0 r0, s.call t = k w0 r0)
    (hs : stepJoin s t top w tl raised all k = some (s', l)) : InvR s' := by
  obtain ⟨w0, r0, hc⟩ := hc
  unfold stepJoin at hs
  cases w with
  | nil => cases hs
  | cons a r =>
    cases a with
    | wait u =>
      simp only at hs
      split at hs
      · cases hs; have := hk w0 r0; have := hk2; rr
      · split at hs
        · cases hs; have := hk w0 r0; have := hk2; rr
        · cases hs
    | unreg u =>
      cases hs
      have hsub : ∀ p x, x ∈ (upd s.children (s.parent u) ((s.children (s.parent u)).erase u)) p → x ∈ s.children p := by
        intro p x hx; simp only [upd] at hx; split at hx
        · rename_i hp; subst hp; exact List.mem_of_mem_erase hx
        · exact hx
      have := hk w0 r0; have := hk2
      obtain ⟨R0, R1, R2, R3, R4, R5, R6, R7, R8, R9⟩ := hr
      refine ⟨?_, ?_, ?_, ?_, ?_, ?_, ?_, R7, R8, R9⟩
      · intro hpj c hcc; have := R0; grind [upd, Call.pastJoin]
      · intro v hv0 hun; have := R1 v hv0; grind [upd, Phase.unregistered]
      · intro c hc0 hpc; have := R2 c hc0; grind [upd]
      · intro v c hcu; have := R3 v c; have := R3 t c; grind [upd]
      · intro cs hm c hcc; have := R4 cs; have := hsub 0 c hcc; grind [upd, Call.mainCs]
      · grind [upd]
      · intro p c hcc; exact R6 p c (hsub p c hcc)
    | _ => cases hs; have := hk w0 r0; have := hk2; rr

theorem invR_step {s s' : State} {t : Nat} {l : Label} (h : Inv s) (hr : InvR s) (hs : step s t = some (s', l)) : InvR s' := by
  have hS : ∀ {w : List SAct}, s.call t = .stopping w → stepStop s t w .stopping = some (s', l) → InvR s' := fun hc hss =>
    invR_stepStop hr (by intro _ _; exact ⟨rfl, rfl⟩) (by intro _ _ hh; cases hh) ⟨_, hc⟩ hss
  have hJ : ∀ {top w tl raised all}, s.call t = .joining top w tl raised all →
      stepJoin s t top w tl raised all (fun w r => .joining top w tl r all) = some (s', l) → InvR s' := fun hc hss =>
    invR_stepJoin hr (by intro _ _ _ _; exact ⟨rfl, rfl⟩) (by intro _ _ _ hh; cases hh) ⟨_, _, hc⟩ hss
  cases hph : s.phase t with
  | absent => unfold step at hs; rw [hph] at hs; cases hs
  | dead => unfold step at hs; rw [hph] at hs; cases hs
  | created =>
    unfold step at hs; rw [hph] at hs; cases hs
    obtain ⟨R0, R1, R2, R3, R4, R5, R6, R7, R8, R9⟩ := hr
    refine ⟨?_, ?_, ?_, R3, R4, ?_, R6, ?_, ?_, R9⟩
    · intro hpj c hcc; have := R0; grind [upd, Call.pastJoin]
    · intro u hu0 hun; have := R1 u hu0; grind [upd, Phase.unregistered]
    · intro c hc0 hpc; have := R2 c hc0; grind [upd]
    · grind [upd]
    · intro p c hcc; have := R7 p c; grind [upd]
    · intro u hu
      simp only [upd] at hu
      by_cases hut : u = t
      · subst hut
        split
        · rename_i hin; exact R8 u hin
        · exact List.mem_append_right _ (by simp)
      · simp only [hut, if_false] at hu
        have := R8 u hu
        split
        · exact this
        · exact List.mem_append_left _ this
  | peek o => unfold step at hs; rw [hph] at hs; cases hs; rr
  | fin1 => unfold step at hs; rw [hph] at hs; cases hs; rr
  | fin4 cs => unfold step at hs; rw [hph] at hs; cases hs; rr
  | fin5 cs =>
    unfold step at hs; rw [hph] at hs; cases hs
    obtain ⟨R0, R1, R2, R3, R4, R5, R6, R7, R8, R9⟩ := hr
    refine ⟨?_, ?_, ?_, R3, R4, ?_, R6, ?_, ?_, R9⟩
    · intro hpj c hcc; have := R0; grind [upd, Call.pastJoin]
    · intro u hu0 hun; have := R1 u hu0; grind [upd, Phase.unregistered]
    · intro c hc0 hpc; have := R2 c hc0; grind [upd]
    · grind [upd]
    · intro p c hcc; have := R7 p c; grind [upd]
    · intro u hu
      simp only [upd] at hu
      by_cases hut : u = t
      · simp [hut] at hu
      · simp only [hut, if_false] at hu
        exact (List.mem_erase_of_ne hut).mpr (R8 u hu)
  | fin6 cs => unfold step at hs; rw [hph] at hs; cases hs; rr
  | linger =>
    unfold step at hs; rw [hph] at hs; simp only at hs
    split at hs
    · cases hs; rr
    · split at hs
      · split at hs
        · cases hs; rr
        · cases hs
          have hsub : ∀ p x, x ∈ (upd s.children (s.parent t) ((s.children (s.parent t)).erase t)) p → x ∈ s.children p := by
            intro p x hx; simp only [upd] at hx; split at hx
            · rename_i hp; subst hp; exact List.mem_of_mem_erase hx
            · exact hx
          obtain ⟨R0, R1, R2, R3, R4, R5, R6, R7, R8, R9⟩ := hr
          refine ⟨?_, ?_, ?_, ?_, ?_, ?_, ?_, ?_, R8, R9⟩
          · intro hpj c hcc; have := R0; grind [upd, Call.pastJoin]
          · intro v hv0 hun; have := R1 v hv0; have := R1 t; grind [upd, Phase.unregistered]
          · intro c hc0 hpc; have := R2 c hc0; grind [upd]
          · intro v c hcu; have := R3 v c; grind [upd]
          · intro cs hm c hcc; have := R4 cs; have := hsub 0 c hcc; grind [upd, Call.mainCs]
          · grind [upd]
          · intro p c hcc; exact R6 p c (hsub p c hcc)
          · intro p c hcc; have := R7 p c hcc; grind [upd]
      · cases hs
  | running =>
    cases hc : s.call t with
    | idle r => unfold step at hs; rw [hph] at hs; simp only [hc] at hs; cases hs
    | spawn c =>
      unfold step at hs; rw [hph] at hs; simp only [hc] at hs
      have hsc := h.spawnC t c hc
      split at hs
      · rename_i hin
        cases hs
        obtain ⟨R0, R1, R2, R3, R4, R5, R6, R7, R8, R9⟩ := hr
        have h3 := R3 t c hc
        have hc0 : c ≠ 0 := by intro he; rw [he, R5] at hsc; cases hsc.1
        refine ⟨?_, ?_, ?_, ?_, ?_, ?_, R6, ?_, R8, R9⟩
        · intro hpj c hcc; have := R0; grind [upd, Call.pastJoin]
        · intro u hu0 hun; have := R1 u hu0; have := R1 c; grind [upd, Phase.unregistered]
        · intro x hx0 hpx hox
          by_cases hxc : x = c
          · subst hxc
            have h3' := h3 hox
            rcases hin with hin | hin
            · rw [h3'.1]; exact ⟨R6 t x hin, h3'.2⟩
            · rw [hox] at hin; cases hin
          · have : s.phase x ≠ .absent := by simpa [upd, hxc] using hpx
            exact R2 x hx0 this hox
        · intro u x hcu; have := R3 u x; grind [upd]
        · intro cs hm x hx; have := R4 cs; grind [upd, Call.mainCs]
        · grind [upd]
        · intro p x hcc; have := R7 p x hcc; grind [upd]
      · rename_i hnin
        cases hs
        obtain ⟨R0, R1, R2, R3, R4, R5, R6, R7, R8, R9⟩ := hr
        refine ⟨?_, R1, ?_, R3, ?_, R5, ?_, ?_, R8, R9⟩
        · intro hpj c hcc; have := R0; grind [upd, Call.pastJoin]
        · intro x hx0 hpx hox
          obtain ⟨h1, h2⟩ := R2 x hx0 hpx hox
          refine ⟨?_, h2⟩
          simp only [upd]; split
          · rename_i hp; rw [hp] at h1; exact List.mem_append_left _ h1
          · exact h1
        · intro cs hm x hx
          have : (s.call 0).mainCs = some cs := hm
          by_cases ht0 : t = 0
          · subst ht0; rw [hc] at this; cases this
          · simp only [upd, if_neg (Ne.symm ht0)] at hx; exact R4 cs hm x hx
        · intro p x hcc
          simp only [upd] at hcc ⊢
          split
          · rename_i hut; subst hut
            simp only [if_true] at hcc
            rcases List.mem_append.mp hcc with h1 | h1
            · exact List.mem_append_left _ (R6 p x h1)
            · exact List.mem_append_right _ h1
          · rename_i hut; simp only [if_neg hut] at hcc; exact R6 p x hcc
        · intro p x hcc
          simp only [upd] at hcc
          split at hcc
          · rename_i hut; subst hut; rw [hph]; intro hh; cases hh
          · exact R7 p x hcc
    | releasing u => unfold step at hs; rw [hph] at hs; simp only [hc] at hs; cases hs; rr
    | stopping work =>
      cases work with
      | nil => unfold step at hs; rw [hph] at hs; simp only [hc] at hs; cases hs; rr
      | cons a rest => unfold step at hs; rw [hph] at hs; simp only [hc] at hs; exact hS hc hs
    | joining top work tl raised all =>
      cases work with
      | nil => unfold step at hs; rw [hph] at hs; simp only [hc] at hs; cases hs; rr
      | cons a rest => unfold step at hs; rw [hph] at hs; simp only [hc] at hs; exact hJ hc hs
    | m0 => unfold step at hs; rw [hph] at hs; simp only [hc] at hs; cases hs; rr
    | m1 =>
      unfold step at hs; rw [hph] at hs; simp only [hc] at hs; cases hs
      obtain ⟨R0, R1, R2, R3, R4, R5, R6, R7, R8, R9⟩ := hr
      refine ⟨?_, R1, R2, ?_, ?_, R5, R6, R7, R8, R9⟩
      · intro hpj c hcc; have := R0; grind [upd, Call.pastJoin]
      · intro u x hcu; have := R3 u x; grind [upd]
      · intro cs hm x hx; have := R4 cs; grind [upd, Call.mainCs]
    | mS cs work =>
      cases work with
      | nil => unfold step at hs; rw [hph] at hs; simp only [hc] at hs; cases hs; rr
      | cons a rest =>
        unfold step at hs; rw [hph] at hs; simp only [hc] at hs
        exact invR_stepStop hr (by intro _ _; exact ⟨rfl, rfl⟩) (by intro _ _ hh; cases hh) ⟨_, hc⟩ hs
    | mJ cs work raised =>
      cases work with
      | nil =>
        unfold step at hs; rw [hph] at hs; simp only [hc] at hs; cases hs
        have top : t = 0 → ∀ c, c ∈ s.everChild 0 → s.stopped c = true := by
          intro ht0 c hcm; subst ht0
          rcases h.ever 0 c hcm with h2 | h2
          · have hcs : c ∈ cs := hr.R4 cs (by rw [hc]; rfl) c h2
            have := h.jtop 0 cs [] none raised (by simp [hc, Call.jwork]) c hcs
            simpa [tillOn] using this
          · exact h2
        obtain ⟨R0, R1, R2, R3, R4, R5, R6, R7, R8, R9⟩ := hr
        refine ⟨?_, R1, R2, ?_, ?_, R5, R6, R7, R8, R9⟩
        · intro hpj c hcc
          by_cases ht0 : t = 0
          · exact top ht0 c hcc
          · have : (s.call 0).pastJoin = true := by simpa [upd, Ne.symm ht0] using hpj
            exact R0 this c hcc
        · intro u x hcu; have := R3 u x; grind [upd]
        · intro cs' hm x hx; have := R4 cs'; grind [upd, Call.mainCs]
      | cons a rest =>
        unfold step at hs; rw [hph] at hs; simp only [hc] at hs
        exact invR_stepJoin hr (by intro _ _ _ _; exact ⟨rfl, rfl⟩) (by intro _ _ _ hh; cases hh) ⟨_, _, hc⟩ hs
    | m2 cs raised =>
      unfold step at hs; rw [hph] at hs; simp only [hc] at hs; cases hs
      obtain ⟨R0, R1, R2, R3, R4, R5, R6, R7, R8, R9⟩ := hr
      refine ⟨?_, ?_, R2, ?_, ?_, R5, R6, R7, ?_, R9⟩
      · intro hpj c hcc; have := R0; grind [upd, Call.pastJoin]
      · intro u hu0 hun; have := R1 u hu0 hun; simp only [upd]; split <;> simp_all
      · intro u x hcu; have := R3 u x; grind [upd]
      · intro cs' hm x hx; have := R4 cs'; grind [upd, Call.mainCs]
      · intro u hu
        simp only [upd] at hu
        by_cases hut : u = t
        · simp [hut] at hu
        · simp only [hut, if_false] at hu
          exact (List.mem_erase_of_ne hut).mpr (R8 u hu)
    | mRS cs raised res work =>
      cases work with
      | nil => unfold step at hs; rw [hph] at hs; simp only [hc] at hs; cases hs; rr
      | cons a rest =>
        unfold step at hs; rw [hph] at hs; simp only [hc] at hs
        exact invR_stepStop hr (by intro _ _; exact ⟨rfl, rfl⟩) (by intro _ _ hh; cases hh) ⟨_, hc⟩ hs
    | mRJ cs raised res work raised2 =>
      cases work with
      | nil => unfold step at hs; rw [hph] at hs; simp only [hc] at hs; cases hs; rr
      | cons a rest =>
        unfold step at hs; rw [hph] at hs; simp only [hc] at hs
        exact invR_stepJoin hr (by intro _ _ _ _; exact ⟨rfl, rfl⟩) (by intro _ _ _ hh; cases hh) ⟨_, _, hc⟩ hs
  | fin2 cs =>
    cases hc : s.call t with
    | stopping work =>
      cases work with
      | nil => unfold step at hs; rw [hph] at hs; simp only [hc] at hs; cases hs; rr
      | cons a rest => unfold step at hs; rw [hph] at hs; simp only [hc] at hs; exact hS hc hs
    | _ => unfold step at hs; rw [hph] at hs; simp only [hc] at hs; cases hs
  | fin3 cs =>
    cases hc : s.call t with
    | joining top work tl raised all =>
      cases work with
      | nil => unfold step at hs; rw [hph] at hs; simp only [hc] at hs; cases hs; rr
      | cons a rest => unfold step at hs; rw [hph] at hs; simp only [hc] at hs; exact hJ hc hs
    | _ => unfold step at hs; rw [hph] at hs; simp only [hc] at hs; cases hs

theorem invR_call {s s' : State} {t : Nat} {op : Op} (h : Inv s) (hr : InvR s) (hc : call s t op = some s') : InvR s' := by
  unfold call at hc
  split at hc
  · rename_i r hph hcl
    have hlt : t < s.nextId := lt_nextId h (by rw [hph]; intro hh; cases hh)
    have hfr : ∀ c, s.phase c ≠ .absent → c ≠ s.nextId := fun c hp he => by
      have := lt_nextId h hp; omega
    have hsp : ∀ u c, s.call u = .spawn c → c ≠ s.nextId := fun u c hu he => by
      have := (h.spawnC u c hu).2; omega
    obtain ⟨R0, R1, R2, R3, R4, R5, R6, R7, R8, R9⟩ := hr
    have h0 : (0 : Nat) ≠ s.nextId := hfr 0 (by rw [R5]; intro hh; cases hh)
    cases op with
    | spawn =>
      cases hc
      refine ⟨?_, R1, ?_, ?_, ?_, R5, R6, R7, R8, R9⟩
      · intro hpj c hcc; have := R0; grind [upd, Call.pastJoin]
      · intro c hc0 hpc hoc; have := R2 c hc0 hpc hoc; have := hfr c hpc; grind [upd]
      · intro u c hcu hoc; have := R3 u c; have := hsp u c; grind [upd]
      · intro cs hm c hcc; have := R4 cs; grind [upd, Call.mainCs]
    | spawnOrphan =>
      cases hc
      refine ⟨?_, R1, ?_, ?_, ?_, R5, R6, R7, R8, ?_⟩
      · intro hpj c hcc; have := R0; grind [upd, Call.pastJoin]
      · intro c hc0 hpc hoc
        have hne := hfr c hpc
        have : s.orphan c = false := by simpa [upd, hne] using hoc
        have := R2 c hc0 hpc this
        simpa [upd, hne] using this
      · intro u c hcu hoc
        by_cases hut : u = t
        · subst hut; simp only [upd, if_true] at hcu; cases hcu; simp [upd] at hoc
        · have hcu' : s.call u = .spawn c := by simpa [upd, hut] using hcu
          have hne := hsp u c hcu'
          have : s.orphan c = false := by simpa [upd, hne] using hoc
          have := R3 u c hcu' this
          simpa [upd, hne] using this
      · intro cs hm c hcc; have := R4 cs; grind [upd, Call.mainCs]
      · simp [upd, h0, R9]
    | mainStop =>
      simp only at hc; split at hc
      · cases hc
        refine ⟨?_, R1, R2, ?_, ?_, R5, R6, R7, R8, R9⟩
        · intro hpj c hcc; have := R0; grind [upd, Call.pastJoin]
        · intro u c hcu; have := R3 u c; grind [upd]
        · intro cs hm c hcc; have := R4 cs; grind [upd, Call.mainCs]
      · cases hc
    | finish o =>
      simp only at hc; split at hc
      · cases hc
      · rename_i ht0
        cases hc
        refine ⟨?_, ?_, ?_, R3, R4, ?_, R6, ?_, R8, R9⟩
        · intro hpj c hcc; have := R0; grind [upd, Call.pastJoin]
        · intro u hu0 hun; have := R1 u hu0; cases o <;> grind [upd, Phase.unregistered]
        · intro c hc0 hpc; have := R2 c hc0; cases o <;> grind [upd]
        · cases o <;> grind [upd]
        · intro p c hcc; have := R7 p c hcc; cases o <;> grind [upd]
    | _ =>
      cases hc
      refine ⟨?_, R1, R2, ?_, ?_, R5, R6, R7, R8, R9⟩
      · intro hpj c hcc; have := R0; grind [upd, Call.pastJoin]
      · intro u c hcu; have := R3 u c; grind [upd]
      · intro cs hm c hcc; have := R4 cs; grind [upd, Call.mainCs]
  · cases hc

theorem invR_fireTill {s : State} (x : Nat) (hr : InvR s) : InvR (fireTill s x) := by
  obtain ⟨R0, R1, R2, R3, R4, R5, R6, R7, R8, R9⟩ := hr
  exact ⟨R0, R1, R2, R3, R4, R5, R6, R7, R8, R9⟩

theorem invR_expire {s : State} (t : Nat) (hr : InvR s) : InvR (expire s t) := by
  obtain ⟨R0, R1, R2, R3, R4, R5, R6, R7, R8, R9⟩ := hr
  exact ⟨R0, R1, R2, R3, R4, R5, R6, R7, R8, R9⟩

theorem reach_invR {s : State} (h : sys.Reach s) : Inv s ∧ InvR s := by
  refine Sys.Reach.invariant sys (P := fun s => Inv s ∧ InvR s) ?_ ?_ ?_ h
  · intro s hi; cases hi; exact ⟨inv_init, invR_init⟩
  · intro s s' ⟨hi, hr⟩ he
    rcases he with ⟨t, op, hc⟩ | ⟨x, rfl⟩ | ⟨t, rfl⟩
    · exact ⟨inv_call hi hc, invR_call hi hr hc⟩
    · exact ⟨inv_fireTill x hi, invR_fireTill x hr⟩
    · exact ⟨inv_expire t hi, invR_expire t hr⟩
  · intro s s' t l ⟨hi, hr⟩ hs
    exact ⟨inv_step hi hs, invR_step hi hr hs⟩

theorem desc_snoc {s : State} {a p c : Nat} (h : Desc s a p) (hc : c ∈ s.everChild p) : Desc s a c := by
  induction h with
  | child h1 => exact .step h1 (.child hc)
  | step h1 _ ih => exact .step h1 (ih hc)

/-- every thread that exists descends, through the registration lists, from the main thread or from an orphan
(a thread created with `parent_thread=Null`) -/
theorem desc_of_root {s : State} (h : sys.Reach s) :
    ∀ c, c ≠ 0 → s.phase c ≠ .absent → Desc s 0 c ∨ ∃ o, s.orphan o = true ∧ (c = o ∨ Desc s o c) := by
  have hr := (reach_invR h).2
  intro c
  induction c using Nat.strongRecOn with
  | ind c ih =>
    intro hc0 hpc
    cases hoc : s.orphan c with
    | true => exact Or.inr ⟨c, hoc, Or.inl rfl⟩
    | false =>
      obtain ⟨hmem, hlt⟩ := hr.R2 c hc0 hpc hoc
      by_cases hp0 : s.parent c = 0
      · rw [hp0] at hmem; exact Or.inl (.child hmem)
      · rcases ih _ hlt hp0 (hr.R7 _ _ hmem) with h1 | ⟨o, ho, h1 | h1⟩
        · exact Or.inl (desc_snoc h1 hmem)
        · exact Or.inr ⟨o, ho, Or.inr (by rw [← h1]; exact .child hmem)⟩
        · exact Or.inr ⟨o, ho, Or.inr (desc_snoc h1 hmem)⟩

end MoThreads.ThreadTree
