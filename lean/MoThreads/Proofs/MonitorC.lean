import MoThreads.Proofs.MonitorA
namespace MoThreads.Monitor
set_option maxHeartbeats 2000000

theorem step_a3 {s s' : State} {t : Nat} {l : Label} {w : Nat} {c : Cond} {tl : Option Nat} (h : Inv s) (hp : s.pc t = .a3 w c tl)
    (hs : step s t = some (s', l)) : Inv s' := by
  step_open
  obtain ⟨hp1, hp2, hp3, hp4⟩ := h.preL t w (by simp [hp, PC.preList])
  have hA3 := h.A3 t w c tl hp
  have hot := (h.own t w (by simp [hp, PC.own])).1
  inv_open
  case nodupW => exact List.nodup_cons.mpr ⟨hp2, nodupW⟩
  case firedW => intro w' hw'; have := firedW w' hw'; grind
  case A5 =>
    intro u w' c' tl' hu
    by_cases hut : u = t
    · exact Or.inl hA3
    · simp only [hut, if_false] at hu
      have h2 := (mutex u).mp (by simp [hu, PC.holdsM]); have h3 := (mutex t).mp (by simp [hp, PC.holdsM])
      rw [h3] at h2; exact absurd (Option.some.inj h2).symm hut
  case listed => intro w' hw'; have := listed w'; clr; grind [PC.listedOwn]
  case noLost => intro u w'; have := noLost u w'; clr; grind [PC.sleepOn]
  case fresh => intro w' hw'; have := fresh w'; have := own t w; clr; grind [PC.own]
  case handW => intro w' hw'; have := handW w'; clr; grind [PC.parkedOn]
  case hotI => intro w' hw'; have := hotI w'; clr; grind [PC.parkedOn]
  case K => intro _; left; have := (mutex t).mp (by simp [hp, PC.holdsM]); simp [this]
  case preL =>
    intro u w' hu
    by_cases hut : u = t
    · simp only [hut, if_true, PC.preList] at hu; cases hu
    · simp only [hut, if_false] at hu
      have h1 := preL u w' hu
      have hne : w' ≠ w := by
        intro he; subst he
        have : (s.pc u).own = some w' := by cases hpu : s.pc u <;> simp_all [PC.preList, PC.own]
        have := (own u w' this).1; rw [hot] at this; exact hut this.symm
      clr; grind
  inv_rest

theorem step_a4 {s s' : State} {t : Nat} {l : Label} {w : Nat} {c : Cond} {tl : Option Nat} (h : Inv s) (hp : s.pc t = .a4 w c tl)
    (hs : step s t = some (s', l)) : Inv s' := by
  step_open
  obtain ⟨hp1, hp2, hp3, hp4⟩ := h.preL t w (by simp [hp, PC.preList])
  have hA4 := h.A4 t w c tl hp
  have hot := (h.own t w (by simp [hp, PC.own])).1
  inv_open
  case nodupW => simp
  case firedW => intro w' hw'; grind
  case listed => intro w' hw'; clr; grind [PC.listedOwn]
  case noLost => intro u w'; have := noLost u w'; clr; grind [PC.sleepOn]
  case fresh => intro w' hw'; have := fresh w'; have := own t w; clr; grind [PC.own]
  case handW => intro w' hw'; have := handW w'; clr; grind [PC.parkedOn]
  case hotI => intro w' hw'; have := hotI w'; clr; grind [PC.parkedOn]
  case K => intro _; left; have := (mutex t).mp (by simp [hp, PC.holdsM]); simp [this]
  case A5 =>
    intro u w' c' tl' hu
    by_cases hut : u = t
    · simp only [hut, if_true] at hu; cases hu; exact Or.inr rfl
    · simp only [hut, if_false] at hu
      have h2 := (mutex u).mp (by simp [hu, PC.holdsM]); have h3 := (mutex t).mp (by simp [hp, PC.holdsM])
      rw [h3] at h2; exact absurd (Option.some.inj h2).symm hut
  case preL =>
    intro u w' hu
    by_cases hut : u = t
    · simp only [hut, if_true, PC.preList] at hu; cases hu
    · simp only [hut, if_false] at hu
      have h1 := preL u w' hu
      have hne : w' ≠ w := by
        intro he; subst he
        have : (s.pc u).own = some w' := by cases hpu : s.pc u <;> simp_all [PC.preList, PC.own]
        have := (own u w' this).1; rw [hot] at this; exact hut this.symm
      clr; grind
  inv_rest

end MoThreads.Monitor
