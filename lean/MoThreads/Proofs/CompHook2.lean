import MoThreads.Proofs.CompHook
namespace MoThreads.Composite
set_option maxHeartbeats 2000000

theorem HB.cons_hook {tg : Nat → Nat} {z o i : Nat} {l : List Act} (hm : Act.thenJ (tg o) (.orCleanup o) ∈ l) (h : HB tg l) :
    HB tg (Act.thenJ z (.orHook o i) :: l) := by
  intro l1 l2 z' o' i' he
  cases l1 with
  | nil =>
    simp only [List.nil_append, List.cons.injEq] at he
    obtain ⟨h1, h2⟩ := he
    injection h1 with _ hj; injection hj with ho _
    subst ho; rw [← h2]; exact hm
  | cons b l1' =>
    simp only [List.cons_append, List.cons.injEq] at he
    exact h l1' l2 z' o' i' he.2

/-- guards survive a step that keeps the relevant facts -/
theorem Guard.mono {s s' : State} {z o i : Nat} (g : Guard s z o i)
    (hdeps : (s'.ors o).deps = (s.ors o).deps ∧ (s'.ors o).deps0 = (s.ors o).deps0 ∧ (s'.ors o).target = (s.ors o).target)
    (h1 : InTodos s (.thenJ (s.ors o).target (.orCleanup o)) → InTodos s' (.thenJ (s.ors o).target (.orCleanup o)))
    (h2 : Job.orCleanup o ∈ (s.sigs (s.ors o).target).jobs → (s.sigs (s.ors o).target).alive = true → (s.sigs (s.ors o).target).go = false →
            (Job.orCleanup o ∈ (s'.sigs (s.ors o).target).jobs ∧ (s'.sigs (s.ors o).target).alive = true ∧ (s'.sigs (s.ors o).target).go = false)
            ∨ InTodos s' (.run (.orCleanup o)))
    (h3 : InTodos s (.run (.orCleanup o)) → InTodos s' (.run (.orCleanup o)))
    (h4 : InTodos s (.removeJ z (.orHook o i)) → InTodos s' (.removeJ z (.orHook o i))) : Guard s' z o i := by
  unfold Guard at g ⊢
  rw [hdeps.1, hdeps.2.1, hdeps.2.2]
  rcases g with g | g | g | g
  · exact Or.inl ⟨g.1, h1 g.2⟩
  · rcases h2 g.2.1 g.2.2.1 g.2.2.2 with h | h
    · exact Or.inr (Or.inl ⟨g.1, h⟩)
    · exact Or.inr (Or.inr (Or.inl ⟨g.1, h⟩))
  · exact Or.inr (Or.inr (Or.inl ⟨g.1, h3 g.2⟩))
  · exact Or.inr (Or.inr (Or.inr (h4 g)))

theorem tgt_inj {s : State} (hl : InvL s) {o o' : Nat} (ho : o < s.nOr) (ho' : o' < s.nOr) (he : (s.ors o).target = (s.ors o').target) : o = o' := by
  have h1 := (hl.F1 o ho).2
  have h2 := (hl.F1 o' ho').2
  rw [he, h2] at h1; injection h1 with h3; exact h3.symm

/-- `d.then(j)` when `d` is already true: `j` runs at once -/
theorem invH_thenJ_go {s : State} {t d : Nat} {j : Job} {rest : List Act} (hl : InvL s) (h : InvH s) (ht : t < NT)
    (hs : s.todo t = Act.thenJ d j :: rest) (hgo : (s.sigs d).go = true) : InvH (s.setTodo t (.run j :: rest)) := by
  have st : TodoStep s (s.setTodo t (.run j :: rest)) t (.thenJ d j) rest [.run j] := ⟨ht, hs, rfl⟩
  have hd : InTodos s (.thenJ d j) := st.head
  cases j with
  | orHook o i =>
    -- a hook that never gets registered
    have same : ∀ b, Rel b → b ≠ .thenJ d (.orHook o i) → (InTodos (s.setTodo t (.run (.orHook o i) :: rest)) b ↔ InTodos s b) := fun b hb hne =>
      st.in_same hne (by intro hm; simp only [List.mem_singleton] at hm; subst hm; exact hb)
    have csame : ∀ b, Rel b → b ≠ .thenJ d (.orHook o i) → cnt (s.setTodo t (.run (.orHook o i) :: rest)) b = cnt s b := fun b hb hne =>
      st.cnt_same hne (by intro hm; simp only [List.mem_singleton] at hm; subst hm; exact hb)
    constructor
    case A1 => exact h.A1
    case A2 => exact h.A2
    case D2 => exact h.D2
    case B1 => exact h.B1
    case B2 => intro z o' i' hj; rcases st.sub hj with h1 | h1
               · simp at h1
               · exact h.B2 z o' i' h1
    case T =>
      intro z o' i'
      have h1 := st.cnt_le (b := .thenJ z (.orHook o' i')) (by intro hm; simp at hm)
      have hT := h.T z o' i'
      exact Nat.le_trans (Nat.add_le_add_right h1 _) hT
    case T2 => intro z o'; rw [csame _ (by trivial) (by intro he; cases he)]; exact h.T2 z o'
    case ORD =>
      intro u hu; show HB _ ((s.setTodo t _).todo u)
      simp only [State.setTodo]
      by_cases hut : u = t
      · subst hut; simp only [upd, if_true]
        have := h.ORD u hu; rw [hs] at this
        exact HB.cons (by intro z o' i' he; cases he) this.tail
      · simp only [upd, hut, if_false]; exact h.ORD u hu
    case F =>
      intro o' hj
      have hj0 := (same _ (by trivial) (by intro he; cases he)).mp hj
      obtain ⟨f1, f2, f3, f4⟩ := h.F o' hj0
      exact ⟨f1, f2, fun hh => f3 ((same _ (by trivial) (by intro he; cases he)).mp hh), fun z i' hh => f4 z i' ((same _ (by trivial) (by intro he; cases he)).mp hh)⟩
    case AL => intro d' j' hj; rcases st.sub hj with h1 | h1
               · simp at h1
               · exact h.AL d' j' h1
    case C =>
      intro z o' i' hj
      exact (h.C z o' i' hj).mono ⟨rfl, rfl, rfl⟩ (fun hh => st.keep hh (by intro he; cases he)) (fun a b c => Or.inl ⟨a, b, c⟩)
        (fun hh => st.keep hh (by intro he; cases he)) (fun hh => st.keep hh (by intro he; cases he))
  | orCleanup o =>
    have hc : d = (s.ors o).target := hl.B3t d o hd
    have hcnt1 : cnt s (.thenJ d (.orCleanup o)) = 1 := by
      have := h.T2 d o; have := cnt_pos.mpr hd; omega
    have hcnt0 : ¬ InTodos (s.setTodo t (.run (.orCleanup o) :: rest)) (.thenJ d (.orCleanup o)) := by
      rw [← cnt_zero]
      have := st.cnt_eq (.thenJ d (.orCleanup o))
      simp only [if_true, List.count_cons, List.count_nil] at this
      have hne : (Act.run (Job.orCleanup o) == Act.thenJ d (Job.orCleanup o)) = false := by rfl
      rw [hne] at this; simp at this; omega
    have hF := h.F o (hc ▸ hd)
    have nohook := no_hook_then_at_cl_head h ht hs hc
    have same : ∀ b, b ≠ .thenJ d (.orCleanup o) → b ≠ .run (.orCleanup o) → (InTodos (s.setTodo t (.run (.orCleanup o) :: rest)) b ↔ InTodos s b) := fun b h0 hn =>
      st.in_same h0 (by intro hm; simp only [List.mem_singleton] at hm; exact hn hm)
    have csame : ∀ b, b ≠ .thenJ d (.orCleanup o) → b ≠ .run (.orCleanup o) → cnt (s.setTodo t (.run (.orCleanup o) :: rest)) b = cnt s b := fun b h0 hn =>
      st.cnt_same h0 (by intro hm; simp only [List.mem_singleton] at hm; exact hn hm)
    constructor
    case A1 => exact h.A1
    case A2 => exact h.A2
    case D2 => exact h.D2
    case B1 => exact h.B1
    case B2 => intro z o' i' hj; exact h.B2 z o' i' ((same _ (by intro he; cases he) (by intro he; cases he)).mp hj)
    case T => intro z o' i'; rw [csame _ (by intro he; cases he) (by intro he; cases he)]; exact h.T z o' i'
    case T2 =>
      intro z o'
      by_cases heq : Act.thenJ z (.orCleanup o') = .thenJ d (.orCleanup o)
      · rw [heq]; have := cnt_zero.mpr hcnt0; show cnt _ _ ≤ 1; omega
      · rw [csame _ heq (by intro he; cases he)]; exact h.T2 z o'
    case ORD =>
      intro u hu; show HB _ ((s.setTodo t _).todo u)
      simp only [State.setTodo]
      by_cases hut : u = t
      · subst hut; simp only [upd, if_true]
        have := h.ORD u hu; rw [hs] at this
        exact HB.cons (by intro z o' i' he; cases he) this.tail
      · simp only [upd, hut, if_false]; exact h.ORD u hu
    case F =>
      intro o' hj
      by_cases hoo : o' = o
      · subst hoo; exact absurd (show InTodos _ (.thenJ d (.orCleanup o')) from hc ▸ hj) hcnt0
      · have hne1 : Act.thenJ (s.ors o').target (.orCleanup o') ≠ .thenJ d (.orCleanup o) := by intro he; injection he with _ h2; injection h2 with h3; exact hoo h3
        have hj0 := (same _ hne1 (by intro he; cases he)).mp hj
        obtain ⟨f1, f2, f3, f4⟩ := h.F o' hj0
        refine ⟨f1, f2, fun hh => f3 ((same _ (by intro he; cases he) (by intro he; injection he with h2; injection h2 with h3; exact hoo h3)).mp hh),
          fun z i' hh => f4 z i' ((same _ (by intro he; cases he) (by intro he; cases he)).mp hh)⟩
    case AL => intro d' j' hj; rcases st.sub hj with h1 | h1
               · simp at h1
               · exact h.AL d' j' h1
    case C =>
      intro z o' i' hj
      have g := h.C z o' i' hj
      by_cases hoo : o' = o
      · subst hoo
        -- the cleanup is now about to run
        unfold Guard
        exact Or.inr (Or.inr (Or.inl ⟨hF.1, st.intro (by simp)⟩))
      · exact g.mono ⟨rfl, rfl, rfl⟩ (fun hh => st.keep hh (by intro he; injection he with _ h2; injection h2 with h3; exact hoo h3))
          (fun a b c => Or.inl ⟨a, b, c⟩) (fun hh => st.keep hh (by intro he; cases he)) (fun hh => st.keep hh (by intro he; cases he))
  | andDone n i =>
    exact invH_neutral hl h st s.nSig (Nat.le_refl _) (fun z _ => ⟨rfl, rfl, rfl⟩) (hl.F5 _ (Nat.le_refl _)).2.1 rfl rfl (by intro hr; exact hr)
      (by intro b hb; simp only [List.mem_singleton] at hb; subst hb; intro hr; exact hr) (by intro d' j' hm; simp at hm)
  | andCleanup n =>
    exact invH_neutral hl h st s.nSig (Nat.le_refl _) (fun z _ => ⟨rfl, rfl, rfl⟩) (hl.F5 _ (Nat.le_refl _)).2.1 rfl rfl (by intro hr; exact hr)
      (by intro b hb; simp only [List.mem_singleton] at hb; subst hb; intro hr; exact hr) (by intro d' j' hm; simp at hm)
  | user k =>
    exact invH_neutral hl h st s.nSig (Nat.le_refl _) (fun z _ => ⟨rfl, rfl, rfl⟩) (hl.F5 _ (Nat.le_refl _)).2.1 rfl rfl (by intro hr; exact hr)
      (by intro b hb; simp only [List.mem_singleton] at hb; subst hb; intro hr; exact hr) (by intro d' j' hm; simp at hm)

/-- `d.then(j)` when `d` is not yet true: `j` is appended to `d`'s job list -/
theorem invH_thenJ_reg {s : State} {t d : Nat} {j : Job} {rest : List Act} (hl : InvL s) (h : InvH s) (ht : t < NT)
    (hs : s.todo t = Act.thenJ d j :: rest) (hgo : (s.sigs d).go = false) :
    InvH ((s.setSig d { s.sigs d with jobs := (s.sigs d).jobs ++ [j] }).setTodo t rest) := by
  let s' := (s.setSig d { s.sigs d with jobs := (s.sigs d).jobs ++ [j] }).setTodo t rest
  have st : TodoStep s s' t (.thenJ d j) rest [] := ⟨ht, hs, by simp [s', State.setTodo, State.setSig]⟩
  have hd : InTodos s (.thenJ d j) := st.head
  have hdal : (s.sigs d).alive = true := h.AL d j hd
  have sig_d : s'.sigs d = { s.sigs d with jobs := (s.sigs d).jobs ++ [j] } := by simp [s', State.setTodo, State.setSig, upd_same]
  have sig_o : ∀ z, z ≠ d → s'.sigs z = s.sigs z := fun z hz => by simp [s', State.setTodo, State.setSig, upd_other _ _ hz]
  have go_eq : ∀ z, (s'.sigs z).go = (s.sigs z).go := by
    intro z; by_cases hz : z = d
    · subst hz; rw [sig_d]
    · rw [sig_o z hz]
  have alive_eq : ∀ z, (s'.sigs z).alive = (s.sigs z).alive := by
    intro z; by_cases hz : z = d
    · subst hz; rw [sig_d]
    · rw [sig_o z hz]
  have jobs_mem : ∀ z j', j' ∈ (s'.sigs z).jobs ↔ (j' ∈ (s.sigs z).jobs ∨ (z = d ∧ j' = j)) := by
    intro z j'; by_cases hz : z = d
    · subst hz; rw [sig_d]; simp
    · rw [sig_o z hz]; simp [hz]
  have jobs_count : ∀ z j', (s'.sigs z).jobs.count j' = (s.sigs z).jobs.count j' + (if z = d ∧ j' = j then 1 else 0) := by
    intro z j'; by_cases hz : z = d
    · subst hz; rw [sig_d]; simp only [List.count_append, List.count_cons, List.count_nil, true_and]
      by_cases hj : j' = j
      · subst hj; simp
      · have : ¬ j = j' := fun h => hj h.symm
        simp [hj, this]
    · rw [sig_o z hz]; simp [hz]
  have in_keep : ∀ b, b ≠ .thenJ d j → (InTodos s' b ↔ InTodos s b) := fun b hb => st.in_same hb (by simp)
  have ors_eq : s'.ors = s.ors := rfl
  constructor
  case A1 =>
    intro z hz; rw [go_eq] at hz
    have hzd : z ≠ d := by intro he; subst he; rw [hgo] at hz; cases hz
    rw [sig_o z hzd]; exact h.A1 z hz
  case A2 =>
    intro z hz; rw [alive_eq] at hz
    have hzd : z ≠ d := by intro he; subst he; rw [hdal] at hz; cases hz
    rw [sig_o z hzd]; exact h.A2 z hz
  case D2 => exact h.D2
  case B1 =>
    intro z o i hj
    rcases (jobs_mem z _).mp hj with h1 | ⟨hz, hjj⟩
    · exact h.B1 z o i h1
    · subst hz; rw [← hjj] at hd; exact h.B2 z o i hd
  case B2 => intro z o i hj; exact h.B2 z o i (st.sub hj |>.resolve_left (by simp))
  case T =>
    intro z o i
    rw [jobs_count]
    have hT := h.T z o i
    have hc := st.cnt_eq (.thenJ z (.orHook o i))
    simp only [List.count_nil, Nat.add_zero] at hc
    by_cases heq : z = d ∧ Job.orHook o i = j
    · obtain ⟨hz, hjj⟩ := heq
      subst hz; subst hjj
      rw [if_pos rfl] at hc
      simp only [and_self, if_true]
      show cnt s' _ + _ ≤ 1
      omega
    · have hne : Act.thenJ z (.orHook o i) ≠ .thenJ d j := by
        intro he; injection he with h1 h2; exact heq ⟨h1, h2⟩
      rw [if_neg hne] at hc
      rw [if_neg heq]
      show cnt s' _ + _ ≤ 1
      omega
  case T2 =>
    intro z o
    exact Nat.le_trans (st.cnt_le (by simp)) (h.T2 z o)
  case ORD =>
    intro u hu
    show HB _ (s'.todo u)
    rw [st.hs']
    by_cases hut : u = t
    · subst hut; simp only [upd, if_true, List.nil_append]
      have := h.ORD u hu; rw [hs] at this; exact this.tail
    · simp only [upd, hut, if_false]; exact h.ORD u hu
  case F =>
    intro o hj
    -- the cleanup registration of `o` is still pending, so it is not the action that just ran, unless it ran
    have hj0 : InTodos s (.thenJ (s.ors o).target (.orCleanup o)) := (st.sub hj).resolve_left (by simp)
    obtain ⟨f1, f2, f3, f4⟩ := h.F o hj0
    refine ⟨f1, ?_, fun hh => f3 ((st.sub hh).resolve_left (by simp)), fun z i hh => f4 z i ((st.sub hh).resolve_left (by simp))⟩
    intro hm
    rcases (jobs_mem _ _).mp hm with h1 | ⟨hz, hjj⟩
    · exact f2 h1
    · -- the action that ran was this very registration: then it is no longer pending (it was unique)
      have hz' : (s.ors o).target = d := hz
      have hb : Act.thenJ (s.ors o).target (.orCleanup o) = .thenJ d j := by rw [hz', hjj]
      have hcnt : cnt s (.thenJ (s.ors o).target (.orCleanup o)) ≤ 1 := h.T2 _ o
      have hce := st.cnt_eq (.thenJ (s.ors o).target (.orCleanup o))
      rw [if_pos hb] at hce
      simp only [List.count_nil] at hce
      have hpos : 0 < cnt s' (.thenJ (s.ors o).target (.orCleanup o)) := cnt_pos.mpr hj
      omega
  case AL => intro d' j' hj; rw [alive_eq]; exact h.AL d' j' ((st.sub hj).resolve_left (by simp))
  case C =>
    intro z o i hj
    have keepG : ∀ z' o' i', Guard s z' o' i' → (Act.thenJ (s.ors o').target (.orCleanup o') ≠ .thenJ d j) → Guard s' z' o' i' := by
      intro z' o' i' g hne
      refine g.mono ⟨rfl, rfl, rfl⟩ (fun hh => st.keep hh hne) ?_ (fun hh => st.keep hh (by intro he; cases he)) (fun hh => st.keep hh (by intro he; cases he))
      intro a b c
      exact Or.inl ⟨(jobs_mem _ _).mpr (Or.inl a), by rw [alive_eq]; exact b, by rw [go_eq]; exact c⟩
    rcases (jobs_mem z _).mp hj with h1 | ⟨hz, hjj⟩
    · -- an old hook
      have g := h.C z o i h1
      by_cases hne : Act.thenJ (s.ors o).target (.orCleanup o) = .thenJ d j
      · -- the cleanup of `o` has just been registered on its composite
        injection hne with hd1 hj1
        unfold Guard
        rcases g with g | g | g | g
        · have hF := h.F o g.2
          refine Or.inr (Or.inl ⟨g.1, ?_, ?_, ?_⟩)
          · exact (jobs_mem _ _).mpr (Or.inr ⟨hd1, hj1⟩)
          · show (s'.sigs (s.ors o).target).alive = true
            rw [alive_eq, hd1]; exact hdal
          · show (s'.sigs (s.ors o).target).go = false
            rw [go_eq, hd1]; exact hgo
        · exact Or.inr (Or.inl ⟨g.1, (jobs_mem _ _).mpr (Or.inl g.2.1), by show (s'.sigs _).alive = true; rw [alive_eq]; exact g.2.2.1,
            by show (s'.sigs _).go = false; rw [go_eq]; exact g.2.2.2⟩)
        · exact Or.inr (Or.inr (Or.inl ⟨g.1, st.keep g.2 (by intro he; cases he)⟩))
        · exact Or.inr (Or.inr (Or.inr (st.keep g (by intro he; cases he))))
      · exact keepG z o i g hne
    · -- the hook that has just been registered: its composite's cleanup is still to be registered
      subst hz
      rw [← hjj] at hs hd st
      have hcl : InTodos s (.thenJ (s.ors o).target (.orCleanup o)) := by
        obtain ⟨u, hu, hm⟩ := hd
        exact ⟨u, hu, (h.ORD u hu).mem hm⟩
      have hF := h.F o hcl
      unfold Guard
      exact Or.inl ⟨hF.1, st.keep hcl (by intro he; injection he with _ h2; cases h2)⟩

/-- OrSignal.cleanup runs: the operand list is taken and a `remove_then` is issued for every operand -/
theorem invH_runCleanup {s : State} {t o : Nat} {rest : List Act} (hl : InvL s) (h : InvH s) (ht : t < NT)
    (hs : s.todo t = Act.run (.orCleanup o) :: rest) :
    InvH ({ s with ors := upd s.ors o { s.ors o with deps := [] } }.setTodo t
      (((s.ors o).deps.zipIdx.map fun (p : Nat × Nat) => Act.removeJ p.1 (.orHook o p.2)) ++ rest)) := by
  let new := (s.ors o).deps.zipIdx.map fun (p : Nat × Nat) => Act.removeJ p.1 (.orHook o p.2)
  let s' := { s with ors := upd s.ors o { s.ors o with deps := [] } }.setTodo t (new ++ rest)
  have st : TodoStep s s' t (.run (.orCleanup o)) rest new := ⟨ht, hs, rfl⟩
  have hd : InTodos s (.run (.orCleanup o)) := st.head
  have ors_o : s'.ors o = { s.ors o with deps := [] } := by simp [s', State.setTodo, upd_same]
  have ors_ne : ∀ o', o' ≠ o → s'.ors o' = s.ors o' := fun o' ho => by simp [s', State.setTodo, upd_other _ _ ho]
  have tgt_eq : ∀ o', (s'.ors o').target = (s.ors o').target := by
    intro o'; by_cases ho : o' = o
    · subst ho; rw [ors_o]
    · rw [ors_ne o' ho]
  have d0_eq : ∀ o', (s'.ors o').deps0 = (s.ors o').deps0 := by
    intro o'; by_cases ho : o' = o
    · subst ho; rw [ors_o]
    · rw [ors_ne o' ho]
  have new_form : ∀ b, b ∈ new → ∃ d i, b = .removeJ d (.orHook o i) := by
    intro b hb; obtain ⟨d, i, _, he⟩ := mem_zipIdx_map_removeJ hb; exact ⟨d, i, he⟩
  have in_keep : ∀ b, b ≠ .run (.orCleanup o) → (∀ d i, b ≠ .removeJ d (.orHook o i)) → (InTodos s' b ↔ InTodos s b) := fun b h0 hn =>
    st.in_same h0 (by intro hm; obtain ⟨d, i, he⟩ := new_form b hm; exact hn d i he)
  have c_keep : ∀ b, b ≠ .run (.orCleanup o) → (∀ d i, b ≠ .removeJ d (.orHook o i)) → cnt s' b = cnt s b := fun b h0 hn =>
    st.cnt_same h0 (by intro hm; obtain ⟨d, i, he⟩ := new_form b hm; exact hn d i he)
  have noF : ¬ InTodos s (.thenJ (s.ors o).target (.orCleanup o)) := fun hh => (h.F o hh).2.2.1 hd
  constructor
  case A1 => exact h.A1
  case A2 => exact h.A2
  case D2 => intro o' ho'; rw [d0_eq]; exact h.D2 o' ho'
  case B1 => intro z o' i hj; rw [d0_eq]; exact h.B1 z o' i hj
  case B2 => intro z o' i hj; rw [d0_eq]; exact h.B2 z o' i ((in_keep _ (by intro he; cases he) (by intro d i he; cases he)).mp hj)
  case T => intro z o' i; rw [c_keep _ (by intro he; cases he) (by intro d i he; cases he)]; exact h.T z o' i
  case T2 => intro z o'; rw [c_keep _ (by intro he; cases he) (by intro d i he; cases he)]; exact h.T2 z o'
  case ORD =>
    intro u hu
    have hcongr : ∀ l, HB (fun o => (s.ors o).target) l → HB (fun o => (s'.ors o).target) l :=
      fun l hh => hh.congr (fun z o' i _ => tgt_eq o')
    rw [st.hs']
    by_cases hut : u = t
    · subst hut; simp only [upd, if_true]
      have := h.ORD u hu; rw [hs] at this
      exact hcongr _ (HB.append (fun b hb z o' i he => by obtain ⟨d, i', hf⟩ := new_form b hb; rw [hf] at he; cases he) this.tail)
    · simp only [upd, hut, if_false]; exact hcongr _ (h.ORD u hu)
  case F =>
    intro o' hj
    rw [tgt_eq] at hj ⊢
    have hj0 := (in_keep _ (by intro he; cases he) (by intro d i he; cases he)).mp hj
    have hoo : o' ≠ o := by intro he; subst he; exact noF hj0
    obtain ⟨f1, f2, f3, f4⟩ := h.F o' hj0
    rw [ors_ne o' hoo]
    refine ⟨f1, f2, fun hh => f3 ((in_keep _ (by intro he; injection he with h2; injection h2 with h3; exact hoo h3) (by intro d i he; cases he)).mp hh), ?_⟩
    intro z i hh
    exact f4 z i ((in_keep _ (by intro he; cases he) (by intro d i' he; injection he with _ h2; injection h2 with h3; exact hoo h3)).mp hh)
  case AL => intro d j hj; exact h.AL d j ((in_keep _ (by intro he; cases he) (by intro d' i he; cases he)).mp hj)
  case C =>
    intro z o' i hj
    have g := h.C z o' i hj
    by_cases hoo : o' = o
    · subst hoo
      unfold Guard at g ⊢
      rcases g with g | g | g | g
      · exact absurd g.2 noF
      · rcases hl.Jr o' hd with h1 | h1
        · rw [g.2.2.2] at h1; cases h1
        · rw [g.2.2.1] at h1; cases h1
      · -- deps were intact: a removal for this very hook has been issued
        right; right; right
        have hb1 := h.B1 z o' i hj
        rw [← g.1] at hb1
        have hm : (z, i) ∈ (s.ors o').deps.zipIdx := List.mk_mem_zipIdx_iff_getElem?.mpr hb1
        exact st.intro (List.mem_map.mpr ⟨(z, i), hm, rfl⟩)
      · exact Or.inr (Or.inr (Or.inr (st.keep g (by intro he; cases he))))
    · refine g.mono ⟨by rw [ors_ne o' hoo], by rw [ors_ne o' hoo], by rw [ors_ne o' hoo]⟩ (fun hh => st.keep hh (by intro he; cases he))
        (fun a b c => Or.inl ⟨a, b, c⟩) (fun hh => st.keep hh (by intro he; injection he with h2; injection h2 with h3; exact hoo h3))
        (fun hh => st.keep hh (by intro he; cases he))

/-- `x.go()` on an untriggered signal: flag set, job list detached, every job queued to run -/
theorem invH_goS {s : State} {t x : Nat} {direct : Bool} {rest : List Act} (hl : InvL s) (h : InvH s) (ht : t < NT)
    (hs : s.todo t = Act.goS x direct :: rest) :
    InvH ((s.setSig x { s.sigs x with go := true, jobs := [], direct := direct }).setTodo t ((s.sigs x).jobs.map Act.run ++ rest)) := by
  let new := (s.sigs x).jobs.map Act.run
  let s' := (s.setSig x { s.sigs x with go := true, jobs := [], direct := direct }).setTodo t (new ++ rest)
  have st : TodoStep s s' t (.goS x direct) rest new := ⟨ht, hs, by simp [s', State.setTodo, State.setSig]⟩
  have sig_x : s'.sigs x = { s.sigs x with go := true, jobs := [], direct := direct } := by simp [s', State.setTodo, State.setSig, upd_same]
  have sig_o : ∀ z, z ≠ x → s'.sigs z = s.sigs z := fun z hz => by simp [s', State.setTodo, State.setSig, upd_other _ _ hz]
  have new_form : ∀ b, b ∈ new → ∃ j, j ∈ (s.sigs x).jobs ∧ b = .run j := by
    intro b hb; obtain ⟨j, hj, he⟩ := List.mem_map.mp hb; exact ⟨j, hj, he.symm⟩
  have in_keep : ∀ b, (∀ j, b ≠ .run j) → b ≠ .goS x direct → (InTodos s' b ↔ InTodos s b) := fun b hn h0 =>
    st.in_same h0 (by intro hm; obtain ⟨j, _, he⟩ := new_form b hm; exact hn j he)
  have jobs_sub : ∀ z j, j ∈ (s'.sigs z).jobs → j ∈ (s.sigs z).jobs ∧ z ≠ x := by
    intro z j hj; by_cases hz : z = x
    · subst hz; rw [sig_x] at hj; cases hj
    · rw [sig_o z hz] at hj; exact ⟨hj, hz⟩
  have alive_eq : ∀ z, (s'.sigs z).alive = (s.sigs z).alive := by
    intro z; by_cases hz : z = x
    · subst hz; rw [sig_x]
    · rw [sig_o z hz]
  constructor
  case A1 =>
    intro z hz; by_cases hzx : z = x
    · subst hzx; rw [sig_x]
    · rw [sig_o z hzx] at hz ⊢; exact h.A1 z hz
  case A2 =>
    intro z hz; by_cases hzx : z = x
    · subst hzx; rw [sig_x]
    · rw [sig_o z hzx] at hz ⊢; exact h.A2 z hz
  case D2 => exact h.D2
  case B1 => intro z o i hj; exact h.B1 z o i (jobs_sub z _ hj).1
  case B2 => intro z o i hj; exact h.B2 z o i ((in_keep _ (by intro j he; cases he) (by intro he; cases he)).mp hj)
  case T =>
    intro z o i
    have h1 : cnt s' (.thenJ z (.orHook o i)) = cnt s (.thenJ z (.orHook o i)) :=
      st.cnt_same (by intro he; cases he) (by intro hm; obtain ⟨j, _, he⟩ := new_form _ hm; cases he)
    have h2 : (s'.sigs z).jobs.count (.orHook o i) ≤ (s.sigs z).jobs.count (.orHook o i) := by
      by_cases hz : z = x
      · subst hz; rw [sig_x]; simp
      · rw [sig_o z hz]; exact Nat.le_refl _
    exact Nat.le_trans (by rw [h1]; exact Nat.add_le_add_left h2 _) (h.T z o i)
  case T2 =>
    intro z o
    rw [st.cnt_same (by intro he; cases he) (by intro hm; obtain ⟨j, _, he⟩ := new_form _ hm; cases he)]; exact h.T2 z o
  case ORD =>
    intro u hu
    show HB _ (s'.todo u)
    rw [st.hs']
    by_cases hut : u = t
    · subst hut; simp only [upd, if_true]
      have := h.ORD u hu; rw [hs] at this
      exact HB.append (fun b hb z o i he => by obtain ⟨j, _, hf⟩ := new_form b hb; rw [hf] at he; cases he) this.tail
    · simp only [upd, hut, if_false]; exact h.ORD u hu
  case F =>
    intro o hj
    have hj0 : InTodos s (.thenJ (s.ors o).target (.orCleanup o)) := (in_keep _ (by intro j he; cases he) (by intro he; cases he)).mp hj
    obtain ⟨f1, f2, f3, f4⟩ := h.F o hj0
    refine ⟨f1, fun hm => f2 (jobs_sub _ _ hm).1, ?_, fun z i hh => f4 z i ((in_keep _ (by intro j he; cases he) (by intro he; cases he)).mp hh)⟩
    intro hh
    rcases st.sub hh with h1 | h1
    · obtain ⟨j, hjm, he⟩ := new_form _ h1
      injection he with he'; subst he'
      have := hl.B3 x o hjm
      rw [this] at hjm; exact f2 hjm
    · exact f3 h1
  case AL => intro d j hj; rw [alive_eq]; exact h.AL d j ((in_keep _ (by intro j' he; cases he) (by intro he; cases he)).mp hj)
  case C =>
    intro z o i hj
    obtain ⟨hj0, hzx⟩ := jobs_sub z _ hj
    refine (h.C z o i hj0).mono ⟨rfl, rfl, rfl⟩ (fun hh => st.keep hh (by intro he; cases he)) ?_ (fun hh => st.keep hh (by intro he; cases he))
      (fun hh => st.keep hh (by intro he; cases he))
    intro a b c
    by_cases hcx : (s.ors o).target = x
    · -- the composite itself is triggered: its cleanup job is detached and queued
      right; rw [hcx] at a
      exact st.intro (List.mem_map.mpr ⟨_, a, rfl⟩)
    · left; rw [sig_o _ hcx]; exact ⟨a, b, c⟩

/-- `d.remove_then(hook)` on an untriggered signal -/
theorem invH_removeJ {s : State} {t d o i : Nat} {rest : List Act} (hl : InvL s) (h : InvH s) (ht : t < NT)
    (hs : s.todo t = Act.removeJ d (.orHook o i) :: rest) :
    InvH ((s.setSig d { s.sigs d with jobs := (s.sigs d).jobs.erase (.orHook o i) }).setTodo t rest) := by
  let s' := (s.setSig d { s.sigs d with jobs := (s.sigs d).jobs.erase (.orHook o i) }).setTodo t rest
  have st : TodoStep s s' t (.removeJ d (.orHook o i)) rest [] := ⟨ht, hs, by simp [s', State.setTodo, State.setSig]⟩
  have sig_d : s'.sigs d = { s.sigs d with jobs := (s.sigs d).jobs.erase (.orHook o i) } := by simp [s', State.setTodo, State.setSig, upd_same]
  have sig_o : ∀ z, z ≠ d → s'.sigs z = s.sigs z := fun z hz => by simp [s', State.setTodo, State.setSig, upd_other _ _ hz]
  have go_eq : ∀ z, (s'.sigs z).go = (s.sigs z).go := by
    intro z; by_cases hz : z = d
    · subst hz; rw [sig_d]
    · rw [sig_o z hz]
  have alive_eq : ∀ z, (s'.sigs z).alive = (s.sigs z).alive := by
    intro z; by_cases hz : z = d
    · subst hz; rw [sig_d]
    · rw [sig_o z hz]
  have jobs_sub : ∀ z j, j ∈ (s'.sigs z).jobs → j ∈ (s.sigs z).jobs := by
    intro z j hj; by_cases hz : z = d
    · subst hz; rw [sig_d] at hj; exact List.mem_of_mem_erase hj
    · rw [sig_o z hz] at hj; exact hj
  have jobs_keep : ∀ z j, j ≠ .orHook o i → j ∈ (s.sigs z).jobs → j ∈ (s'.sigs z).jobs := by
    intro z j hne hj; by_cases hz : z = d
    · subst hz; rw [sig_d]; exact (List.mem_erase_of_ne hne).mpr hj
    · rw [sig_o z hz]; exact hj
  have in_keep : ∀ b, b ≠ .removeJ d (.orHook o i) → (InTodos s' b ↔ InTodos s b) := fun b hb => st.in_same hb (by simp)
  constructor
  case A1 =>
    intro z hz; rw [go_eq] at hz
    have := h.A1 z hz
    by_cases hzd : z = d
    · subst hzd; rw [sig_d]; simp [this]
    · rw [sig_o z hzd]; exact this
  case A2 =>
    intro z hz; rw [alive_eq] at hz
    have := h.A2 z hz
    by_cases hzd : z = d
    · subst hzd; rw [sig_d]; simp [this]
    · rw [sig_o z hzd]; exact this
  case D2 => exact h.D2
  case B1 => intro z o' i' hj; exact h.B1 z o' i' (jobs_sub z _ hj)
  case B2 => intro z o' i' hj; exact h.B2 z o' i' ((in_keep _ (by intro he; cases he)).mp hj)
  case T =>
    intro z o' i'
    have h1 : cnt s' (.thenJ z (.orHook o' i')) = cnt s (.thenJ z (.orHook o' i')) := st.cnt_same (by intro he; cases he) (by simp)
    have h2 : (s'.sigs z).jobs.count (.orHook o' i') ≤ (s.sigs z).jobs.count (.orHook o' i') := by
      by_cases hz : z = d
      · subst hz; rw [sig_d]; exact List.erase_sublist.count_le _
      · rw [sig_o z hz]; exact Nat.le_refl _
    exact Nat.le_trans (by rw [h1]; exact Nat.add_le_add_left h2 _) (h.T z o' i')
  case T2 => intro z o'; rw [st.cnt_same (by intro he; cases he) (by simp)]; exact h.T2 z o'
  case ORD =>
    intro u hu
    show HB _ (s'.todo u)
    rw [st.hs']
    by_cases hut : u = t
    · subst hut; simp only [upd, if_true, List.nil_append]
      have := h.ORD u hu; rw [hs] at this; exact this.tail
    · simp only [upd, hut, if_false]; exact h.ORD u hu
  case F =>
    intro o' hj
    have hj0 : InTodos s (.thenJ (s.ors o').target (.orCleanup o')) := (in_keep _ (by intro he; cases he)).mp hj
    obtain ⟨f1, f2, f3, f4⟩ := h.F o' hj0
    exact ⟨f1, fun hm => f2 (jobs_sub _ _ hm), fun hh => f3 ((in_keep _ (by intro he; cases he)).mp hh),
      fun z i' hh => f4 z i' ((st.sub hh).resolve_left (by simp))⟩
  case AL => intro d' j hj; rw [alive_eq]; exact h.AL d' j ((in_keep _ (by intro he; cases he)).mp hj)
  case C =>
    intro z o' i' hj
    have hj0 := jobs_sub z _ hj
    -- the hook that was just removed is gone: it occurred at most once
    have hne : Act.removeJ z (.orHook o' i') ≠ .removeJ d (.orHook o i) := by
      intro he; injection he with h1 h2; injection h2 with h3 h4
      subst h1; subst h3; subst h4
      rw [sig_d] at hj
      have hc : 2 ≤ (s.sigs z).jobs.count (.orHook o' i') := by
        have h5 : 0 < ((s.sigs z).jobs.erase (.orHook o' i')).count (.orHook o' i') := List.count_pos_iff.mpr hj
        rw [List.count_erase_self] at h5; omega
      have := h.T z o' i'; omega
    refine (h.C z o' i' hj0).mono ⟨rfl, rfl, rfl⟩ (fun hh => st.keep hh (by intro he; cases he)) ?_ (fun hh => st.keep hh (by intro he; cases he))
      (fun hh => st.keep hh hne)
    intro a b c
    exact Or.inl ⟨jobs_keep _ _ (by intro he; cases he) a, by rw [alive_eq]; exact b, by rw [go_eq]; exact c⟩

/-- `or_signal(x, y)`: a fresh composite, a fresh OrSignal object, and the three registrations queued -/
theorem invH_orNew {s : State} {t x y : Nat} {w : Bool} {rest : List Act} (hl : InvL s) (h : InvH s) (ht : t < NT)
    (hs : s.todo t = Act.orNew x y w :: rest) :
    InvH ({ s with sigs := upd s.sigs s.nSig (freshSig (.orOut s.nOr)), nSig := s.nSig + 1,
                   ors := upd s.ors s.nOr { deps := [x, y], target := s.nSig, deps0 := [x, y] }, nOr := s.nOr + 1 }.setTodo t
          (Act.thenJ x (.orHook s.nOr 0) :: Act.thenJ y (.orHook s.nOr 1) :: Act.thenJ s.nSig (.orCleanup s.nOr) :: Act.ret s.nSig w :: rest)) := by
  let new := [Act.thenJ x (.orHook s.nOr 0), Act.thenJ y (.orHook s.nOr 1), Act.thenJ s.nSig (.orCleanup s.nOr), Act.ret s.nSig w]
  let s' := { s with sigs := upd s.sigs s.nSig (freshSig (.orOut s.nOr)), nSig := s.nSig + 1,
                     ors := upd s.ors s.nOr { deps := [x, y], target := s.nSig, deps0 := [x, y] }, nOr := s.nOr + 1 }.setTodo t (new ++ rest)
  have st : TodoStep s s' t (.orNew x y w) rest new := ⟨ht, hs, rfl⟩
  have hd := st.head
  have hx : x < s.nSig := hl.M1 _ x hd (by simp [Act.sigs])
  have hy : y < s.nSig := hl.M1 _ y hd (by simp [Act.sigs])
  have hxa : (s.sigs x).alive = true := hl.M1a _ x hd (by simp [Act.operands])
  have hya : (s.sigs y).alive = true := hl.M1a _ y hd (by simp [Act.operands])
  have fresh := hl.F5 s.nSig (Nat.le_refl _)
  have sig_new : s'.sigs s.nSig = freshSig (.orOut s.nOr) := by simp [s', State.setTodo, upd_same]
  have sig_o : ∀ z, z ≠ s.nSig → s'.sigs z = s.sigs z := fun z hz => by simp [s', State.setTodo, upd_other _ _ hz]
  have ors_new : s'.ors s.nOr = { deps := [x, y], target := s.nSig, deps0 := [x, y] } := by simp [s', State.setTodo, upd_same]
  have ors_o : ∀ o, o ≠ s.nOr → s'.ors o = s.ors o := fun o ho => by simp [s', State.setTodo, upd_other _ _ ho]
  have jobs_eq : ∀ z, (s'.sigs z).jobs = (s.sigs z).jobs := by
    intro z; by_cases hz : z = s.nSig
    · subst hz; rw [sig_new, fresh.2.1]; rfl
    · rw [sig_o z hz]
  -- nothing in the old state mentions the new OrSignal
  have no_old_job : ∀ z j, j ∈ (s.sigs z).jobs → j.orObj ≠ some s.nOr := by
    intro z j hj he; have := hl.M3o z j _ hj he; omega
  have no_old_act : ∀ a j, InTodos s a → a.job = some j → j.orObj ≠ some s.nOr := by
    intro a j ha hj he; have := hl.M2o a j _ ha hj he; omega
  have old_in : ∀ b j, b.job = some j → j.orObj ≠ some s.nOr → (InTodos s' b ↔ InTodos s b) := by
    intro b j hj hne
    refine st.in_same (by intro he; rw [he] at hj; cases hj) ?_
    intro hm
    simp only [new, List.mem_cons, List.mem_nil_iff, or_false] at hm
    rcases hm with rfl | rfl | rfl | rfl <;> simp [Act.job] at hj <;> (subst hj; simp [Job.orObj] at hne)
  have old_cnt : ∀ b j, b.job = some j → j.orObj ≠ some s.nOr → cnt s' b = cnt s b := by
    intro b j hj hne
    refine st.cnt_same (by intro he; rw [he] at hj; cases hj) ?_
    intro hm
    simp only [new, List.mem_cons, List.mem_nil_iff, or_false] at hm
    rcases hm with rfl | rfl | rfl | rfl <;> simp [Act.job] at hj <;> (subst hj; simp [Job.orObj] at hne)
  have new_cnt : ∀ b j, b.job = some j → j.orObj = some s.nOr → cnt s' b = new.count b := by
    intro b j hj he
    have h0 : cnt s b = 0 := cnt_zero.mpr (fun hh => no_old_act b j hh hj he)
    have := st.cnt_eq b
    rw [if_neg (by intro hb; rw [hb] at hj; cases hj), h0] at this
    omega
  have alive_old : ∀ z, (s.sigs z).alive = true → (s'.sigs z).alive = true := by
    intro z hz; by_cases hzn : z = s.nSig
    · subst hzn; rw [fresh.1] at hz; cases hz
    · rw [sig_o z hzn]; exact hz
  have hnd : ∀ b, new.count b ≤ 1 := by
    apply List.nodup_iff_count.mp
    simp only [new, List.nodup_cons, List.mem_cons, List.mem_nil_iff, or_false, not_or, List.nodup_nil, and_true, List.not_mem_nil, not_false_eq_true]
    refine ⟨⟨?_, ?_, ?_⟩, ⟨?_, ?_⟩, ?_⟩ <;> (intro he; first | cases he | (injection he with _ h2; cases h2) | (injection he with _ h2; injection h2 with _ h3; cases h3))
  show InvH s'
  constructor
  case A1 =>
    intro z hz; rw [jobs_eq]
    by_cases hzn : z = s.nSig
    · subst hzn; exact fresh.2.1
    · rw [sig_o z hzn] at hz; exact h.A1 z hz
  case A2 =>
    intro z hz; rw [jobs_eq]
    by_cases hzn : z = s.nSig
    · subst hzn; exact fresh.2.1
    · rw [sig_o z hzn] at hz; exact h.A2 z hz
  case D2 =>
    intro o ho
    by_cases hon : o = s.nOr
    · subst hon; rw [ors_new]; exact ⟨x, y, rfl⟩
    · rw [ors_o o hon]; exact h.D2 o (by have : o < s.nOr + 1 := ho; omega)
  case B1 =>
    intro z o i hj; rw [jobs_eq] at hj
    have hon : o ≠ s.nOr := by intro he; subst he; exact no_old_job z _ hj rfl
    rw [ors_o o hon]; exact h.B1 z o i hj
  case B2 =>
    intro z o i hj
    by_cases hon : o = s.nOr
    · subst hon
      rcases st.sub hj with h1 | h1
      · simp only [new, List.mem_cons, List.mem_nil_iff, or_false] at h1
        rw [ors_new]
        rcases h1 with h1 | h1 | h1 | h1
        · injection h1 with h2 h3; injection h3 with _ h4; subst h2; subst h4; rfl
        · injection h1 with h2 h3; injection h3 with _ h4; subst h2; subst h4; rfl
        · cases h1
        · cases h1
      · exact absurd rfl (no_old_act _ _ h1 rfl)
    · rw [ors_o o hon]; exact h.B2 z o i ((old_in _ _ rfl (by simp [Job.orObj]; exact hon)).mp hj)
  case T =>
    intro z o i
    rw [jobs_eq]
    by_cases hon : o = s.nOr
    · subst hon
      rw [new_cnt _ _ rfl rfl]
      have hc0 : (s.sigs z).jobs.count (.orHook s.nOr i) = 0 := List.count_eq_zero.mpr (fun hm => no_old_job z _ hm rfl)
      rw [hc0]; exact hnd _
    · rw [old_cnt _ _ rfl (by simp [Job.orObj]; exact hon)]; exact h.T z o i
  case T2 =>
    intro z o
    by_cases hon : o = s.nOr
    · subst hon
      rw [new_cnt _ _ rfl rfl]; exact hnd _
    · rw [old_cnt _ _ rfl (by simp [Job.orObj]; exact hon)]; exact h.T2 z o
  case ORD =>
    intro u hu
    have hcongr : ∀ l, (∀ z o i, Act.thenJ z (.orHook o i) ∈ l → o ≠ s.nOr) → HB (fun o => (s.ors o).target) l → HB (fun o => (s'.ors o).target) l :=
      fun l hne hh => hh.congr (fun z o i hm => by rw [ors_o o (hne z o i hm)])
    show HB _ (s'.todo u)
    rw [st.hs']
    by_cases hut : u = t
    · subst hut; simp only [upd, if_true]
      have hold := h.ORD u hu; rw [hs] at hold
      have hrest : HB (fun o => (s'.ors o).target) rest := by
        refine hcongr rest ?_ hold.tail
        intro z o i hm he; subst he
        exact no_old_act _ _ ⟨u, hu, by rw [hs]; exact List.mem_cons_of_mem _ hm⟩ rfl rfl
      have hc : (s'.ors s.nOr).target = s.nSig := by rw [ors_new]
      show HB _ (Act.thenJ x (.orHook s.nOr 0) :: Act.thenJ y (.orHook s.nOr 1) :: Act.thenJ s.nSig (.orCleanup s.nOr) :: Act.ret s.nSig w :: rest)
      refine HB.cons_hook (by rw [hc]; simp) (HB.cons_hook (by rw [hc]; simp) (HB.cons (by intro z o i he; cases he) (HB.cons (by intro z o i he; cases he) hrest)))
    · simp only [upd, hut, if_false]
      refine hcongr _ ?_ (h.ORD u hu)
      intro z o i hm he; subst he
      exact no_old_act _ _ ⟨u, hu, hm⟩ rfl rfl
  case F =>
    intro o hj
    by_cases hon : o = s.nOr
    · subst hon
      rw [ors_new]
      refine ⟨rfl, ?_, ?_, ?_⟩
      · show Job.orCleanup s.nOr ∉ (s'.sigs s.nSig).jobs
        rw [sig_new]; simp [freshSig]
      · intro hh
        rcases st.sub hh with h1 | h1
        · simp [new] at h1
        · exact no_old_act _ _ h1 rfl rfl
      · intro z i hh
        rcases st.sub hh with h1 | h1
        · simp [new] at h1
        · exact no_old_act _ _ h1 rfl rfl
    · rw [ors_o o hon] at hj ⊢
      have hj0 := (old_in _ _ rfl (by simp [Job.orObj]; exact hon)).mp hj
      obtain ⟨f1, f2, f3, f4⟩ := h.F o hj0
      refine ⟨f1, by rw [jobs_eq]; exact f2, fun hh => f3 ((old_in _ _ rfl (by simp [Job.orObj]; exact hon)).mp hh),
        fun z i hh => f4 z i ((old_in _ _ rfl (by simp [Job.orObj]; exact hon)).mp hh)⟩
  case AL =>
    intro d j hj
    rcases st.sub hj with h1 | h1
    · simp only [new, List.mem_cons, List.mem_nil_iff, or_false] at h1
      rcases h1 with h1 | h1 | h1 | h1
      · injection h1 with h2; subst h2; exact alive_old _ hxa
      · injection h1 with h2; subst h2; exact alive_old _ hya
      · injection h1 with h2; subst h2; rw [sig_new]; rfl
      · cases h1
    · exact alive_old d (h.AL d j h1)
  case C =>
    intro z o i hj
    rw [jobs_eq] at hj
    have hon : o ≠ s.nOr := by intro he; subst he; exact no_old_job z _ hj rfl
    have ho : o < s.nOr := hl.M3o z _ o hj rfl
    have htn : (s.ors o).target ≠ s.nSig := by have := (hl.F1 o ho).1; omega
    refine (h.C z o i hj).mono ⟨by rw [ors_o o hon], by rw [ors_o o hon], by rw [ors_o o hon]⟩
      (fun hh => st.keep hh (by intro he; cases he)) ?_ (fun hh => st.keep hh (by intro he; cases he)) (fun hh => st.keep hh (by intro he; cases he))
    intro a b c
    left; rw [sig_o _ htn]; exact ⟨a, b, c⟩

/-- reference count zero: `z` is freed; if it is the composite of an OrSignal, its cleanup is queued on thread `t` -/
theorem invH_collect {s s' : State} {t z : Nat} (hl : InvL s) (h : InvH s) (hc : collect s t z = some s') : InvH s' := by
  unfold collect at hc
  by_cases hcond : t < NT ∧ collectable s z = true
  case neg => simp only [hcond, if_false] at hc; cases hc
  simp only [hcond, and_self, if_true] at hc
  obtain ⟨ht, hcol⟩ := hcond
  have C := collectable_spec hcol
  have key : ∀ (pre : List Act), (∀ b, b ∈ pre → ∃ o, b = .run (.orCleanup o) ∧ z = (s.ors o).target) →
      (∀ o, (s.sigs z).built = .orOut o → Act.run (.orCleanup o) ∈ pre) →
      ∀ (s2 : State) (v : Sig), v.alive = false → v.jobs = [] → v.go = (s.sigs z).go →
        s2.sigs = upd s.sigs z v → s2.ors = s.ors → s2.nOr = s.nOr →
        (∀ b, InTodos s2 b → b ∈ pre ∨ InTodos s b) → (∀ b, InTodos s b → InTodos s2 b) → (∀ b, b ∈ pre → InTodos s2 b) →
        (∀ b, cnt s2 b = cnt s b + pre.count b) →
        (∀ u, u < NT → HB (fun o => (s.ors o).target) (s2.todo u)) → InvH s2 := by
    intro pre hpre hhas s2 v hv1 hv2 hv4 e1 e3 e4 hsub hkeep hintro hcnt hord
    have sig_z : s2.sigs z = v := by rw [e1, upd_same]
    have sig_o : ∀ w, w ≠ z → s2.sigs w = s.sigs w := fun w hw => by rw [e1, upd_other _ _ hw]
    have jobs_sub : ∀ w j, j ∈ (s2.sigs w).jobs → j ∈ (s.sigs w).jobs ∧ w ≠ z := by
      intro w j hj; by_cases hw : w = z
      · subst hw; rw [sig_z, hv2] at hj; cases hj
      · rw [sig_o w hw] at hj; exact ⟨hj, hw⟩
    have pre_no : ∀ b, (∀ o, b ≠ .run (.orCleanup o)) → b ∉ pre := by
      intro b hb hm; obtain ⟨o, he, _⟩ := hpre b hm; exact hb o he
    have in_same : ∀ b, (∀ o, b ≠ .run (.orCleanup o)) → (InTodos s2 b ↔ InTodos s b) := fun b hb =>
      ⟨fun hh => (hsub b hh).resolve_left (pre_no b hb), hkeep b⟩
    have c_same : ∀ b, (∀ o, b ≠ .run (.orCleanup o)) → cnt s2 b = cnt s b := fun b hb => by
      rw [hcnt b, List.count_eq_zero.mpr (pre_no b hb)]; rfl
    have ne_of_mentioned : ∀ a w, InTodos s a → w ∈ a.sigs → w ≠ z := by
      intro a w ha hw he; subst he; exact C.noTodo a ha hw
    constructor
    case A1 =>
      intro w hw; by_cases hwz : w = z
      · subst hwz; rw [sig_z, hv2]
      · rw [sig_o w hwz] at hw ⊢; exact h.A1 w hw
    case A2 =>
      intro w hw; by_cases hwz : w = z
      · subst hwz; rw [sig_z, hv2]
      · rw [sig_o w hwz] at hw ⊢; exact h.A2 w hw
    case D2 => intro o ho; rw [e3]; rw [e4] at ho; exact h.D2 o ho
    case B1 => intro w o i hj; rw [e3]; exact h.B1 w o i (jobs_sub w _ hj).1
    case B2 => intro w o i hj; rw [e3]; exact h.B2 w o i ((in_same _ (by intro o' he; cases he)).mp hj)
    case T =>
      intro w o i
      have h2 : (s2.sigs w).jobs.count (.orHook o i) ≤ (s.sigs w).jobs.count (.orHook o i) := by
        by_cases hw : w = z
        · subst hw; rw [sig_z, hv2]; simp
        · rw [sig_o w hw]; exact Nat.le_refl _
      exact Nat.le_trans (by rw [c_same _ (by intro o' he; cases he)]; exact Nat.add_le_add_left h2 _) (h.T w o i)
    case T2 => intro w o; rw [c_same _ (by intro o' he; cases he)]; exact h.T2 w o
    case ORD => intro u hu; rw [e3]; exact hord u hu
    case F =>
      intro o hj; rw [e3] at hj ⊢
      have hj0 := (in_same _ (by intro o' he; cases he)).mp hj
      obtain ⟨f1, f2, f3, f4⟩ := h.F o hj0
      have hcz : (s.ors o).target ≠ z := ne_of_mentioned _ _ hj0 (by simp [Act.sigs])
      refine ⟨f1, fun hm => f2 (jobs_sub _ _ hm).1, ?_, fun w i hh => f4 w i ((in_same _ (by intro o' he; cases he)).mp hh)⟩
      intro hh
      rcases hsub _ hh with h1 | h1
      · obtain ⟨o', he, hz⟩ := hpre _ h1
        injection he with he'; injection he' with he''; subst he''
        exact hcz hz.symm
      · exact f3 h1
    case AL =>
      intro d j hj
      have hj0 := (in_same _ (by intro o' he; cases he)).mp hj
      rw [sig_o d (ne_of_mentioned _ _ hj0 (by simp [Act.sigs]))]; exact h.AL d j hj0
    case C =>
      intro w o i hj
      obtain ⟨hj0, hwz⟩ := jobs_sub w _ hj
      have ho : o < s.nOr := hl.M3o w _ o hj0 rfl
      refine (h.C w o i hj0).mono ⟨by rw [e3], by rw [e3], by rw [e3]⟩ (hkeep _) ?_ (hkeep _) (hkeep _)
      intro a b c
      by_cases hcz : (s.ors o).target = z
      · -- the composite dies: its weak reference queues the cleanup
        right
        have hb : (s.sigs z).built = .orOut o := by rw [← hcz]; exact (hl.F1 o ho).2
        exact hintro _ (hhas o hb)
      · left; rw [sig_o _ hcz]; exact ⟨a, b, c⟩
  have hordS : ∀ u, u < NT → HB (fun o => (s.ors o).target) (s.todo u) := h.ORD
  cases hb : (s.sigs z).built with
  | leaf =>
    rw [hb] at hc; cases hc
    refine key [] (by intro b hb'; cases hb') (by intro o ho; rw [hb] at ho; cases ho) _ { s.sigs z with alive := false, jobs := [], built := Built.leaf }
      rfl rfl rfl rfl rfl rfl (fun b hb' => Or.inr hb') (fun b hb' => hb') (by intro b hb'; cases hb') (fun b => by simp [cnt_congr (s := s) rfl b]; rfl) hordS
  | andOut n =>
    rw [hb] at hc; cases hc
    refine key [] (by intro b hb'; cases hb') (by intro o ho; rw [hb] at ho; cases ho) _ { s.sigs z with alive := false, jobs := [], built := Built.andOut n }
      rfl rfl rfl rfl rfl rfl (fun b hb' => Or.inr hb') (fun b hb' => hb') (by intro b hb'; cases hb') (fun b => by simp [cnt_congr (s := s) rfl b]; rfl) hordS
  | orOut o =>
    rw [hb] at hc; cases hc
    let s1 := s.setSig z { s.sigs z with alive := false, jobs := [], built := Built.orOut o }
    have push : TodoPush s1 (s1.setTodo t (.run (.orCleanup o) :: s1.todo t)) t [.run (.orCleanup o)] := ⟨ht, rfl⟩
    have htz := (hl.F3 z o hb).2
    refine key [.run (.orCleanup o)] ?_ ?_ _ { s.sigs z with alive := false, jobs := [], built := Built.orOut o } rfl rfl rfl rfl rfl rfl ?_ ?_ ?_ ?_ ?_
    · intro b hb'; simp only [List.mem_singleton] at hb'; exact ⟨o, hb', htz⟩
    · intro o' ho'; rw [hb] at ho'; injection ho' with h1; subst h1; simp
    · intro b hb'
      rcases push.sub hb' with h1 | h1
      · exact Or.inl h1
      · exact Or.inr ((inTodos_congr (s := s) (s' := s1) rfl b).mp h1)
    · intro b hb'; exact push.keep ((inTodos_congr (s := s) (s' := s1) rfl b).mpr hb')
    · intro b hb'; exact push.intro hb'
    · intro b; rw [push.cnt_eq b, cnt_congr (s := s) (s' := s1) rfl b]
    · intro u hu
      show HB _ ((s1.setTodo t (.run (.orCleanup o) :: s1.todo t)).todo u)
      simp only [State.setTodo]
      by_cases hut : u = t
      · subst hut; simp only [upd, if_true]
        exact HB.cons (by intro z' o' i he; cases he) (h.ORD u hu)
      · simp only [upd, hut, if_false]; exact h.ORD u hu

theorem invH_exec {s s' : State} {t : Nat} {a : Act} {rest : List Act} (hl : InvL s) (h : InvH s) (ht : t < NT) (hs : s.todo t = a :: rest)
    (he : exec s t a rest = some s') : InvH s' := by
  have hd : InTodos s a := ⟨t, ht, by rw [hs]; exact List.mem_cons_self⟩
  have aok := actOK_of_inv hl hd
  have fj := (hl.F5 s.nSig (Nat.le_refl _)).2.1
  cases a with
  | orTest1 x y w =>
    simp only [exec, Option.some.injEq] at he; subst he
    refine invH_neutral hl h (new := if (s.sigs x).go then [Act.retDone] else [Act.orTest2 x y w]) ⟨ht, hs, rfl⟩ s.nSig (Nat.le_refl _)
      (fun z _ => ⟨rfl, rfl, rfl⟩) fj rfl rfl (by intro hr; exact hr) ?_ ?_
    · intro b hb; split at hb <;> simp only [List.mem_singleton] at hb <;> subst hb <;> (intro hr; exact hr)
    · intro d j hm; split at hm <;> simp at hm
  | orTest2 x y w =>
    simp only [exec, Option.some.injEq] at he; subst he
    refine invH_neutral hl h (new := if (s.sigs y).go then [Act.retDone] else [Act.orNew x y w]) ⟨ht, hs, rfl⟩ s.nSig (Nat.le_refl _)
      (fun z _ => ⟨rfl, rfl, rfl⟩) fj rfl rfl (by intro hr; exact hr) ?_ ?_
    · intro b hb; split at hb <;> simp only [List.mem_singleton] at hb <;> subst hb <;> (intro hr; exact hr)
    · intro d j hm; split at hm <;> simp at hm
  | orNew x y w =>
    simp only [exec, Option.some.injEq] at he; subst he
    exact invH_orNew hl h ht hs
  | andNew x y =>
    simp only [exec, Option.some.injEq] at he; subst he
    have hxa : (s.sigs x).alive = true := hl.M1a _ x hd (by simp [Act.operands])
    have hya : (s.sigs y).alive = true := hl.M1a _ y hd (by simp [Act.operands])
    have hx : x < s.nSig := hl.M1 _ x hd (by simp [Act.sigs])
    have hy : y < s.nSig := hl.M1 _ y hd (by simp [Act.sigs])
    refine invH_neutral hl h (new := [Act.thenJ x (.andDone s.nAnd 0), .thenJ y (.andDone s.nAnd 1), .thenJ s.nSig (.andCleanup s.nAnd), .ret s.nSig false])
      ⟨ht, hs, rfl⟩ s.nSig (Nat.le_refl _) ?_ ?_ rfl rfl (by intro hr; exact hr) ?_ ?_
    · intro z hz; simp [State.setTodo, upd_other _ _ hz]
    · simp [State.setTodo, upd_same, freshSig]
    · intro b hb; simp only [List.mem_cons, List.mem_nil_iff, or_false] at hb
      rcases hb with rfl | rfl | rfl | rfl <;> (intro hr; exact hr)
    · intro d j hm; simp only [List.mem_cons, List.mem_nil_iff, or_false] at hm
      rcases hm with h1 | h1 | h1 | h1
      · injection h1 with h2; subst h2; simp [State.setTodo, upd_other _ _ (show d ≠ s.nSig by omega), hxa]
      · injection h1 with h2; subst h2; simp [State.setTodo, upd_other _ _ (show d ≠ s.nSig by omega), hya]
      · injection h1 with h2; subst h2; simp [State.setTodo, upd_same, freshSig]
      · cases h1
  | thenJ d j =>
    simp only [exec] at he
    split at he
    · rename_i hgo; simp only [Option.some.injEq] at he; subst he; exact invH_thenJ_go hl h ht hs hgo
    · rename_i hgo; simp only [Option.some.injEq] at he; subst he
      exact invH_thenJ_reg hl h ht hs (by simpa using hgo)
  | run j =>
    cases j with
    | orHook o i =>
      simp only [exec, Option.some.injEq] at he; subst he
      refine invH_neutral hl h (new := if (s.sigs (s.ors o).target).alive then [Act.goS (s.ors o).target false] else []) ⟨ht, hs, rfl⟩ s.nSig (Nat.le_refl _)
        (fun z _ => ⟨rfl, rfl, rfl⟩) fj rfl rfl (by intro hr; exact hr) ?_ ?_
      · intro b hb; split at hb
        · simp only [List.mem_singleton] at hb; subst hb; intro hr; exact hr
        · cases hb
      · intro d j hm; split at hm <;> simp at hm
    | orCleanup o =>
      simp only [exec, Option.some.injEq] at he; subst he
      exact invH_runCleanup hl h ht hs
    | andDone n i =>
      simp only [exec, Option.some.injEq] at he; subst he
      refine invH_neutral hl h (new := if (s.ands n).remaining - 1 = 0 then [Act.goS (s.ands n).target false] else []) ⟨ht, hs, rfl⟩ s.nSig (Nat.le_refl _)
        (fun z _ => ⟨rfl, rfl, rfl⟩) fj rfl rfl (by intro hr; exact hr) ?_ ?_
      · intro b hb; split at hb
        · simp only [List.mem_singleton] at hb; subst hb; intro hr; exact hr
        · cases hb
      · intro d j hm; split at hm <;> simp at hm
    | andCleanup n =>
      simp only [exec, Option.some.injEq] at he; subst he
      exact invH_neutral hl h (new := []) ⟨ht, hs, rfl⟩ s.nSig (Nat.le_refl _) (fun z _ => ⟨rfl, rfl, rfl⟩) fj rfl rfl (by intro hr; exact hr)
        (by intro b hb; cases hb) (by intro d j hm; cases hm)
    | user k =>
      simp only [exec, Option.some.injEq] at he; subst he
      exact invH_neutral hl h (new := []) ⟨ht, hs, rfl⟩ s.nSig (Nat.le_refl _) (fun z _ => ⟨rfl, rfl, rfl⟩) fj rfl rfl (by intro hr; exact hr)
        (by intro b hb; cases hb) (by intro d j hm; cases hm)
  | goS x direct =>
    simp only [exec] at he
    split at he
    · simp only [Option.some.injEq] at he; subst he
      exact invH_neutral hl h (new := []) ⟨ht, hs, rfl⟩ s.nSig (Nat.le_refl _) (fun z _ => ⟨rfl, rfl, rfl⟩) fj rfl rfl (by intro hr; exact hr)
        (by intro b hb; cases hb) (by intro d j hm; cases hm)
    · simp only [Option.some.injEq] at he; subst he
      exact invH_goS hl h ht hs
  | removeJ d j =>
    obtain ⟨o, i, hj⟩ := aok.rm d j rfl
    subst hj
    simp only [exec] at he
    split at he
    · rename_i hgo
      simp only [Option.some.injEq] at he; subst he
      -- `d` is already true: its job list is empty, nothing to remove
      have hje : (s.sigs d).jobs = [] := h.A1 d hgo
      have := invH_removeJ hl h ht hs
      have heq : (s.setSig d { s.sigs d with jobs := (s.sigs d).jobs.erase (.orHook o i) }) = s := by
        have : ({ s.sigs d with jobs := (s.sigs d).jobs.erase (.orHook o i) } : Sig) = s.sigs d := by rw [hje]; cases hsd : s.sigs d; simp_all
        simp only [State.setSig, this]
        cases s; simp only [State.mk.injEq, true_and, and_true]; funext k; simp [upd]; intro hk; rw [hk]
      rw [heq] at this; exact this
    · simp only [Option.some.injEq] at he; subst he
      exact invH_removeJ hl h ht hs
  | ret c w =>
    have hclt : c < s.nSig := aok.sig c (by simp [Act.sigs])
    simp only [exec] at he
    split at he
    · simp only [Option.some.injEq] at he; subst he
      refine invH_neutral hl h (new := [Act.waitS c]) ⟨ht, hs, rfl⟩ s.nSig (Nat.le_refl _) (fun z _ => ⟨rfl, rfl, rfl⟩) fj rfl rfl (by intro hr; exact hr) ?_ ?_
      · intro b hb; simp only [List.mem_singleton] at hb; subst hb; intro hr; exact hr
      · intro d j hm; simp at hm
    · simp only [Option.some.injEq] at he; subst he
      refine invH_neutral hl h (new := []) ⟨ht, hs, rfl⟩ s.nSig (Nat.le_refl _) ?_ ?_ rfl rfl (by intro hr; exact hr) (by intro b hb; cases hb) (by intro d j hm; cases hm)
      · intro z _
        by_cases hz : z = c
        · subst hz; simp [State.setTodo, State.setSig, upd_same]
        · simp [State.setTodo, State.setSig, upd_other _ _ hz]
      · simp [State.setTodo, State.setSig, upd_other _ _ (show s.nSig ≠ c by omega), fj]
  | retDone =>
    simp only [exec, Option.some.injEq] at he; subst he
    exact invH_neutral hl h (new := []) ⟨ht, hs, rfl⟩ s.nSig (Nat.le_refl _) (fun z _ => ⟨rfl, rfl, rfl⟩) fj rfl rfl (by intro hr; exact hr)
      (by intro b hb; cases hb) (by intro d j hm; cases hm)
  | waitS c =>
    simp only [exec] at he
    split at he
    · simp only [Option.some.injEq] at he; subst he
      exact invH_neutral hl h (new := []) ⟨ht, hs, rfl⟩ s.nSig (Nat.le_refl _) (fun z _ => ⟨rfl, rfl, rfl⟩) fj rfl rfl (by intro hr; exact hr)
        (by intro b hb; cases hb) (by intro d j hm; cases hm)
    · cases he

/-- one non-relevant action pushed on an idle thread, nothing else changes -/
theorem invH_push1 {s : State} {t : Nat} {a : Act} (hl : InvL s) (h : InvH s) (ht : t < NT) (hempty : s.todo t = [])
    (ha : ¬ Rel a) (hal : ∀ d j, a = .thenJ d j → (s.sigs d).alive = true) : InvH (s.setTodo t [a]) := by
  have push : TodoPush s (s.setTodo t [a]) t [a] := ⟨ht, by simp [State.setTodo, hempty]⟩
  refine invH_neutral_push hl h (fun b hb => push.sub hb) (fun b hb => push.keep hb) (fun b => push.cnt_eq b) ?_ s.nSig (Nat.le_refl _)
    (fun z _ => ⟨rfl, rfl, rfl⟩) (hl.F5 s.nSig (Nat.le_refl _)).2.1 rfl rfl ?_ ?_
  · intro u hu
    show HB _ ((s.setTodo t [a]).todo u)
    simp only [State.setTodo]
    by_cases hut : u = t
    · subst hut; simp only [upd, if_true]
      exact HB.cons (by intro z o i he; subst he; exact ha trivial) (HB.nil _)
    · simp only [upd, hut, if_false]; exact h.ORD u hu
  · intro b hb; simp only [List.mem_singleton] at hb; subst hb; exact ha
  · intro d j hm; simp only [List.mem_singleton] at hm; exact hal d j hm.symm

theorem invH_call {s s' : State} {t : Nat} {op : Op} (hl : InvL s) (h : InvH s) (hc : call s t op = some s') : InvH s' := by
  unfold call at hc
  split at hc
  · rename_i hcond
    obtain ⟨ht, hempty⟩ := hcond
    cases op with
    | mkOr x y =>
      simp only at hc; split at hc
      · cases hc; exact invH_push1 hl h ht hempty (by intro hr; exact hr) (by intro d j he; cases he)
      · cases hc
    | waitOr x y =>
      simp only at hc; split at hc
      · cases hc; exact invH_push1 hl h ht hempty (by intro hr; exact hr) (by intro d j he; cases he)
      · cases hc
    | mkAnd x y =>
      simp only at hc; split at hc
      · cases hc; exact invH_push1 hl h ht hempty (by intro hr; exact hr) (by intro d j he; cases he)
      · cases hc
    | go x =>
      simp only at hc; split at hc
      · cases hc; exact invH_push1 hl h ht hempty (by intro hr; exact hr) (by intro d j he; cases he)
      · cases hc
    | thenUser z k =>
      simp only at hc; split at hc
      · rename_i hu; cases hc
        exact invH_push1 hl h ht hempty (by intro hr; exact hr) (by intro d j he; injection he with h1; subst h1; exact (usable_spec hu).2)
      · cases hc
    | wait x =>
      simp only at hc; split at hc
      · cases hc; exact invH_push1 hl h ht hempty (by intro hr; exact hr) (by intro d j he; cases he)
      · cases hc
  · cases hc

theorem invH_fire {s s' : State} {t z : Nat} (hl : InvL s) (h : InvH s) (hc : fire s t z = some s') : InvH s' := by
  unfold fire at hc
  split at hc
  · rename_i hcond
    obtain ⟨ht, hempty, _, _, _⟩ := hcond
    cases hc
    exact invH_push1 hl h ht hempty (by intro hr; exact hr) (by intro d j he; cases he)
  · cases hc

theorem invH_same_todo {s s' : State} (hl : InvL s) (h : InvH s) (htd : s'.todo = s.todo)
    (f : Nat) (hf : s.nSig ≤ f)
    (hsig : ∀ z, z ≠ f → (s'.sigs z).jobs = (s.sigs z).jobs ∧ (s'.sigs z).go = (s.sigs z).go ∧ (s'.sigs z).alive = (s.sigs z).alive)
    (hfresh : (s'.sigs f).jobs = []) (hors : s'.ors = s.ors) (hnor : s'.nOr = s.nOr) : InvH s' := by
  refine invH_neutral_push (pre := []) hl h (fun b hb => Or.inr ((inTodos_congr htd b).mp hb)) (fun b hb => (inTodos_congr htd b).mpr hb)
    (fun b => by rw [cnt_congr htd b]; rfl) (fun u hu => by rw [htd]; exact h.ORD u hu) f hf hsig hfresh hors hnor
    (by intro b hb; cases hb) (by intro d j hm; cases hm)

theorem invH_release {s s' : State} {z : Nat} (hl : InvL s) (h : InvH s) (hc : release s z = some s') : InvH s' := by
  unfold release at hc
  split at hc
  · cases hc
    refine invH_same_todo hl h rfl s.nSig (Nat.le_refl _) ?_ ?_ rfl rfl
    · intro w _
      by_cases hw : w = z
      · subst hw; simp [State.setSig, upd_same]
      · simp [State.setSig, upd_other _ _ hw]
    · by_cases hw : s.nSig = z
      · subst hw; simp [State.setSig, upd_same, (hl.F5 s.nSig (Nat.le_refl _)).2.1]
      · simp [State.setSig, upd_other _ _ hw, (hl.F5 s.nSig (Nat.le_refl _)).2.1]
  · cases hc

theorem invH_newLeaf {s : State} (hl : InvL s) (h : InvH s) : InvH (newLeaf s) := by
  refine invH_same_todo hl h rfl s.nSig (Nat.le_refl _) ?_ ?_ rfl rfl
  · intro w hw; simp [newLeaf, upd_other _ _ hw]
  · simp [newLeaf, upd_same, freshSig]

theorem invH_step {s s' : State} {t : Nat} {l : Label} (hl : InvL s) (h : InvH s) (hs : step s t = some (s', l)) : InvH s' := by
  unfold step at hs
  split at hs
  · rename_i ht
    cases htd : s.todo t with
    | nil => rw [htd] at hs; cases hs
    | cons a rest =>
      rw [htd] at hs; simp only at hs
      cases he : exec s t a rest with
      | none => rw [he] at hs; cases hs
      | some s2 => rw [he] at hs; cases hs; exact invH_exec hl h ht htd he
  · cases hs

theorem reach_invLH {s : State} (h : sys.Reach s) : InvL s ∧ InvH s := by
  refine Sys.Reach.invariant sys (P := fun s => InvL s ∧ InvH s) ?_ ?_ ?_ h
  · intro s hi; cases hi; exact ⟨invL_init, invH_init⟩
  · intro s s' ⟨hl, hh⟩ he
    rcases he with ⟨t, op, hc⟩ | he | ⟨t, z, hc⟩ | ⟨z, hc⟩ | ⟨t, z, hc⟩
    · exact ⟨invL_call hl hc, invH_call hl hh hc⟩
    · subst he; exact ⟨invL_newLeaf hl, invH_newLeaf hl hh⟩
    · exact ⟨invL_fire hl hc, invH_fire hl hh hc⟩
    · exact ⟨invL_release hl hc, invH_release hl hh hc⟩
    · exact ⟨invL_collect hl hc, invH_collect hl hh hc⟩
  · intro s s' t l ⟨hl, hh⟩ hs; exact ⟨invL_step hl hs, invH_step hl hh hs⟩

end MoThreads.Composite
