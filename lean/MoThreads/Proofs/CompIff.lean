/-
  M2: a composite agrees with its operands at quiescence (C03: OR).
-/
import MoThreads.Proofs.CompHook2
namespace MoThreads.Composite
set_option maxHeartbeats 2000000

/-- how any move (step or environment) relates two states, as far as flags, origins and operand lists go -/
structure Ext (s s' : State) : Prop where
  go    : ∀ z, z < s.nSig → (s.sigs z).go = true → (s'.sigs z).go = true
  built : ∀ z, z < s.nSig → (s'.sigs z).built = (s.sigs z).built
  never : ∀ z, z < s.nSig → (s'.sigs z).never = (s.sigs z).never
  dir   : ∀ z, z < s.nSig → (s.sigs z).go = true → (s'.sigs z).direct = (s.sigs z).direct
  ors   : ∀ o, o < s.nOr → (s'.ors o).deps0 = (s.ors o).deps0 ∧ (s'.ors o).target = (s.ors o).target
  nOr   : s.nOr ≤ s'.nOr
  nSig  : s.nSig ≤ s'.nSig
  dead  : ∀ z, (s.sigs z).alive = false → z < s.nSig → (s'.sigs z).alive = false
  fresh : ∀ z, s.nSig ≤ z → z < s'.nSig → (s'.sigs z).never = false ∧ (s'.sigs z).go = false

theorem ext_exec {s s' : State} {t : Nat} {a : Act} {rest : List Act} (he : exec s t a rest = some s') : Ext s s' := by
  cases a with
  | orTest1 x y w => simp only [exec, Option.some.injEq] at he; subst he; constructor <;> intros <;> (first | (exfalso; simp only [State.setTodo] at *; omega) | simp_all [State.setTodo])
  | orTest2 x y w => simp only [exec, Option.some.injEq] at he; subst he; constructor <;> intros <;> (first | (exfalso; simp only [State.setTodo] at *; omega) | simp_all [State.setTodo])
  | orNew x y w =>
    simp only [exec, Option.some.injEq] at he; subst he
    constructor
    · intro z hz hg; simp [State.setTodo, upd_other _ _ (show z ≠ s.nSig by omega), hg]
    · intro z hz; simp [State.setTodo, upd_other _ _ (show z ≠ s.nSig by omega)]
    · intro z hz; simp [State.setTodo, upd_other _ _ (show z ≠ s.nSig by omega)]
    · intro z hz hg; simp [State.setTodo, upd_other _ _ (show z ≠ s.nSig by omega)]
    · intro o ho; simp [State.setTodo, upd_other _ _ (show o ≠ s.nOr by omega)]
    · simp [State.setTodo]
    · simp [State.setTodo]
    · intro z hz hlt; simp [State.setTodo, upd_other _ _ (show z ≠ s.nSig by omega), hz]
    · intro z hz hlt; have hzz : z = s.nSig := by simp only [State.setTodo] at hlt; omega
      subst hzz; simp [State.setTodo, upd_same, freshSig]
  | andNew x y =>
    simp only [exec, Option.some.injEq] at he; subst he
    constructor
    · intro z hz hg; simp [State.setTodo, upd_other _ _ (show z ≠ s.nSig by omega), hg]
    · intro z hz; simp [State.setTodo, upd_other _ _ (show z ≠ s.nSig by omega)]
    · intro z hz; simp [State.setTodo, upd_other _ _ (show z ≠ s.nSig by omega)]
    · intro z hz hg; simp [State.setTodo, upd_other _ _ (show z ≠ s.nSig by omega)]
    · intro o ho; simp [State.setTodo]
    · simp [State.setTodo]
    · simp [State.setTodo]
    · intro z hz hlt; simp [State.setTodo, upd_other _ _ (show z ≠ s.nSig by omega), hz]
    · intro z hz hlt; have hzz : z = s.nSig := by simp only [State.setTodo] at hlt; omega
      subst hzz; simp [State.setTodo, upd_same, freshSig]
  | thenJ d j =>
    simp only [exec] at he
    split at he <;> (simp only [Option.some.injEq] at he; subst he; constructor <;> intros <;> (first | (exfalso; simp only [State.setTodo, State.setSig] at *; omega) | (simp only [State.setTodo, State.setSig, upd]; done) | (simp only [State.setTodo, State.setSig, upd]; split <;> simp_all) | simp_all [State.setTodo, State.setSig, upd]))
  | run j =>
    cases j <;> (simp only [exec, Option.some.injEq] at he; subst he; constructor <;> intros <;> (first | (exfalso; simp only [State.setTodo] at *; omega) | (simp only [State.setTodo, upd]; done) | (simp only [State.setTodo, upd]; split <;> simp_all) | simp_all [State.setTodo, upd]))
  | goS x direct =>
    simp only [exec] at he
    split at he <;> (simp only [Option.some.injEq] at he; subst he; constructor <;> intros <;> (first | (exfalso; simp only [State.setTodo, State.setSig] at *; omega) | (simp only [State.setTodo, State.setSig, upd]; done) | (simp only [State.setTodo, State.setSig, upd]; split <;> simp_all) | simp_all [State.setTodo, State.setSig, upd]))
  | removeJ d j =>
    simp only [exec] at he
    split at he <;> (simp only [Option.some.injEq] at he; subst he; constructor <;> intros <;> (first | (exfalso; simp only [State.setTodo, State.setSig] at *; omega) | (simp only [State.setTodo, State.setSig, upd]; done) | (simp only [State.setTodo, State.setSig, upd]; split <;> simp_all) | simp_all [State.setTodo, State.setSig, upd]))
  | ret c w =>
    simp only [exec] at he
    split at he <;> (simp only [Option.some.injEq] at he; subst he; constructor <;> intros <;> (first | (exfalso; simp only [State.setTodo, State.setSig] at *; omega) | (simp only [State.setTodo, State.setSig, upd]; done) | (simp only [State.setTodo, State.setSig, upd]; split <;> simp_all) | simp_all [State.setTodo, State.setSig, upd]))
  | retDone => simp only [exec, Option.some.injEq] at he; subst he; constructor <;> intros <;> (first | (exfalso; simp only [State.setTodo] at *; omega) | simp_all [State.setTodo])
  | waitS c =>
    simp only [exec] at he
    split at he
    · simp only [Option.some.injEq] at he; subst he; constructor <;> intros <;> (first | (exfalso; simp only [State.setTodo] at *; omega) | simp_all [State.setTodo])
    · cases he

/-- everything the equivalence invariant needs to know about one step of the code (other than `orNew`) -/
structure StepFacts (s s' : State) (t : Nat) (a : Act) (rest new : List Act) : Prop where
  st : TodoStep s s' t a rest new
  ext : Ext s s'
  nor : s'.nOr = s.nOr
  jsrc : ∀ z j, j ∈ (s'.sigs z).jobs → j ∈ (s.sigs z).jobs ∨ a = .thenJ z j
  jkeep : ∀ z j, j ∈ (s.sigs z).jobs → j ∈ (s'.sigs z).jobs ∨ ((∃ df, a = .goS z df) ∧ Act.run j ∈ new ∧ (s'.sigs z).go = true) ∨ a = .removeJ z j
  gsrc : ∀ z, z < s.nSig → (s'.sigs z).go = true → (s.sigs z).go = true ∨ (∃ df, a = .goS z df ∧ (s'.sigs z).direct = df)
  thenReg : ∀ d j, a = .thenJ d j → ((s.sigs d).go = true ∧ Act.run j ∈ new) ∨ ((s.sigs d).go = false ∧ j ∈ (s'.sigs d).jobs)
  runHook : ∀ o i, a = .run (.orHook o i) →
      ((s.sigs (s.ors o).target).alive = true ∧ Act.goS (s.ors o).target false ∈ new) ∨ (s.sigs (s.ors o).target).alive = false
  goExec : ∀ z df, a = .goS z df → (s.sigs z).never = false → (s'.sigs z).go = true
  goClears : ∀ z df, a = .goS z df → (s.sigs z).go = false → (s'.sigs z).go = true → (s'.sigs z).jobs = []
  newRun : ∀ j, Act.run j ∈ new → (∃ z df, a = .goS z df ∧ j ∈ (s.sigs z).jobs ∧ (s'.sigs z).go = true) ∨ (∃ d, a = .thenJ d j ∧ (s.sigs d).go = true)
  newGo : ∀ z df, Act.goS z df ∈ new → df = false ∧ ((∃ o i, a = .run (.orHook o i) ∧ z = (s.ors o).target) ∨ (∃ n i, a = .run (.andDone n i) ∧ z = (s.ands n).target))
  newRm : ∀ z j, Act.removeJ z j ∈ new → ∃ o i, j = .orHook o i ∧ a = .run (.orCleanup o)
  newThen : ∀ d j, Act.thenJ d j ∈ new → ∀ o i, j ≠ .orHook o i

macro "sf_auto" : tactic => `(tactic| first
  | (intros; simp_all [State.setTodo, State.setSig, upd]; done)
  | (intros; simp only [State.setTodo, State.setSig, upd] at *; split <;> simp_all; done)
  | (intros; simp only [State.setTodo, State.setSig, upd] at *; split at * <;> simp_all; done))

theorem stepFacts_simple {s s' : State} {t : Nat} {a : Act} {rest new : List Act} (ht : t < NT) (hs : s.todo t = a :: rest)
    (he : exec s t a rest = some s') (htd : s'.todo = upd s.todo t (new ++ rest)) (hsig : s'.sigs = s.sigs) (hnor : s'.nOr = s.nOr)
    (hnew : ∀ b, b ∈ new → (∀ j, b ≠ .run j) ∧ (∀ z j, b ≠ .removeJ z j) ∧ (∀ d j, b ≠ .thenJ d j) ∧ (∀ z, b ≠ .goS z true))
    (hgo : ∀ z, Act.goS z false ∈ new → ((∃ o i, a = .run (.orHook o i) ∧ z = (s.ors o).target) ∨ (∃ n i, a = .run (.andDone n i) ∧ z = (s.ands n).target)))
    (ha : (∀ d j, a ≠ .thenJ d j) ∧ (∀ z j, a ≠ .removeJ z j) ∧ (∀ z df, a = .goS z df → (s.sigs z).go = true ∨ (s.sigs z).never = true))
    (hrh : ∀ o i, a = .run (.orHook o i) → ((s.sigs (s.ors o).target).alive = true ∧ Act.goS (s.ors o).target false ∈ new) ∨ (s.sigs (s.ors o).target).alive = false) :
    StepFacts s s' t a rest new := by
  refine ⟨⟨ht, hs, htd⟩, ext_exec he, hnor, fun z j hj => Or.inl (by rw [hsig] at hj; exact hj), fun z j hj => Or.inl (by rw [hsig]; exact hj), fun z _ hz => Or.inl (by rw [hsig] at hz; exact hz), ?_, hrh, ?_, ?_, ?_, ?_, ?_, ?_⟩
  · intro d j hh; exact absurd hh (ha.1 d j)
  · intro z df hh hn
    rcases ha.2.2 z df hh with h1 | h1
    · rw [hsig]; exact h1
    · rw [hn] at h1; cases h1
  · intro z df hh hng hg'
    rw [hsig] at hg'; rw [hng] at hg'; cases hg'
  · intro j hm; exact absurd rfl ((hnew _ hm).1 j)
  · intro z df hm
    cases df with
    | true => exact absurd rfl ((hnew _ hm).2.2.2 z)
    | false => exact ⟨rfl, hgo z hm⟩
  · intro z j hm; exact absurd rfl ((hnew _ hm).2.1 z j)
  · intro d j hm; exact absurd rfl ((hnew _ hm).2.2.1 d j)

theorem stepFacts_exec {s s' : State} {t : Nat} {a : Act} {rest : List Act} (hl : InvL s) (ht : t < NT) (hs : s.todo t = a :: rest)
    (he : exec s t a rest = some s') (hno : ∀ x y w, a ≠ .orNew x y w) : ∃ new, StepFacts s s' t a rest new := by
  have he0 := he
  cases a with
  | orNew x y w => exact absurd rfl (hno x y w)
  | orTest1 x y w =>
    simp only [exec, Option.some.injEq] at he; subst he
    refine ⟨_, stepFacts_simple ht hs he0 rfl rfl rfl ?_ ?_ ⟨(by intro d j h; cases h), (by intro z j h; cases h), (by intro z df h; cases h)⟩ (by intro o i h; cases h)⟩
    · intro b hb; split at hb <;> simp only [List.mem_singleton] at hb <;> subst hb <;> exact ⟨(by intro j h; cases h), (by intro z j h; cases h), (by intro d j h; cases h), (by intro z h; cases h)⟩
    · intro z hm; split at hm <;> simp at hm
  | orTest2 x y w =>
    simp only [exec, Option.some.injEq] at he; subst he
    refine ⟨_, stepFacts_simple ht hs he0 rfl rfl rfl ?_ ?_ ⟨(by intro d j h; cases h), (by intro z j h; cases h), (by intro z df h; cases h)⟩ (by intro o i h; cases h)⟩
    · intro b hb; split at hb <;> simp only [List.mem_singleton] at hb <;> subst hb <;> exact ⟨(by intro j h; cases h), (by intro z j h; cases h), (by intro d j h; cases h), (by intro z h; cases h)⟩
    · intro z hm; split at hm <;> simp at hm
  | retDone =>
    simp only [exec, Option.some.injEq] at he; subst he
    exact ⟨[], stepFacts_simple ht hs he0 rfl rfl rfl (by intro b hb; cases hb) (by intro z hm; cases hm)
      ⟨(by intro d j h; cases h), (by intro z j h; cases h), (by intro z df h; cases h)⟩ (by intro o i h; cases h)⟩
  | waitS c =>
    simp only [exec] at he
    split at he
    · simp only [Option.some.injEq] at he; subst he
      exact ⟨[], stepFacts_simple ht hs he0 rfl rfl rfl (by intro b hb; cases hb) (by intro z hm; cases hm)
        ⟨(by intro d j h; cases h), (by intro z j h; cases h), (by intro z df h; cases h)⟩ (by intro o i h; cases h)⟩
    · cases he
  | ret c w =>
    simp only [exec] at he
    split at he
    · simp only [Option.some.injEq] at he; subst he
      refine ⟨[.waitS c], stepFacts_simple ht hs he0 rfl rfl rfl ?_ (by intro z hm; simp at hm)
        ⟨(by intro d j h; cases h), (by intro z j h; cases h), (by intro z df h; cases h)⟩ (by intro o i h; cases h)⟩
      intro b hb; simp only [List.mem_singleton] at hb; subst hb
      exact ⟨(by intro j h; cases h), (by intro z j h; cases h), (by intro d j h; cases h), (by intro z h; cases h)⟩
    · simp only [Option.some.injEq] at he; subst he
      -- `held` changes: not a todo-only step for `sigs`, but nothing the facts look at
      refine ⟨[], ⟨ht, hs, rfl⟩, ext_exec he0, rfl, ?_, ?_, ?_, (by intro d j h; cases h), (by intro o i h; cases h), (by intro z df h; cases h), (by intro z df h; cases h),
        (by intro j hm; cases hm), (by intro z df hm; cases hm), (by intro z j hm; cases hm), (by intro d j hm; cases hm)⟩
      · intro z j hj; left; simp only [State.setTodo, State.setSig, upd] at hj; split at hj <;> simp_all
      · intro z j hj; left; simp only [State.setTodo, State.setSig, upd]; split <;> simp_all
      · intro z _ hz; left; simp only [State.setTodo, State.setSig, upd] at hz; split at hz <;> simp_all
  | andNew x y =>
    simp only [exec, Option.some.injEq] at he; subst he
    have fresh := hl.F5 s.nSig (Nat.le_refl _)
    refine ⟨[.thenJ x (.andDone s.nAnd 0), .thenJ y (.andDone s.nAnd 1), .thenJ s.nSig (.andCleanup s.nAnd), .ret s.nSig false],
      ⟨ht, hs, rfl⟩, ext_exec he0, rfl, ?_, ?_, ?_, (by intro d j h; cases h), (by intro o i h; cases h), (by intro z df h; cases h), (by intro z df h; cases h), ?_, ?_, ?_, ?_⟩
    · intro z j hj; left; simp only [State.setTodo, upd] at hj; split at hj
      · simp [freshSig] at hj
      · exact hj
    · intro z j hj; left; simp only [State.setTodo, upd]; split
      · rename_i hz; rw [hz, fresh.2.1] at hj; cases hj
      · exact hj
    · intro z hz hg; left; simp only [State.setTodo, upd] at hg; split at hg
      · simp [freshSig] at hg
      · exact hg
    · intro j hm; simp at hm
    · intro z df hm; simp at hm
    · intro z j hm; simp at hm
    · intro d j hm o i hj; subst hj; simp at hm
  | thenJ d j =>
    simp only [exec] at he
    split at he
    · rename_i hgo
      simp only [Option.some.injEq] at he; subst he
      refine ⟨[.run j], ⟨ht, hs, rfl⟩, ext_exec he0, rfl, fun z j' hj => Or.inl hj, fun z j' hj => Or.inl hj, fun z _ hz => Or.inl hz, ?_,
        (by intro o i h; cases h), (by intro z df h; cases h), (by intro z df h; cases h), ?_, (by intro z df hm; simp at hm), (by intro z j' hm; simp at hm), (by intro d' j' hm; simp at hm)⟩
      · intro d' j' h; injection h with h1 h2; subst h1; subst h2; exact Or.inl ⟨hgo, by simp⟩
      · intro j' hm; simp only [List.mem_singleton] at hm; injection hm with h1; subst h1; exact Or.inr ⟨d, rfl, hgo⟩
    · rename_i hgo
      simp only [Option.some.injEq] at he; subst he
      refine ⟨[], ⟨ht, hs, rfl⟩, ext_exec he0, rfl, ?_, ?_, ?_, ?_, (by intro o i h; cases h), (by intro z df h; cases h), (by intro z df h; cases h),
        (by intro j' hm; cases hm), (by intro z df hm; cases hm), (by intro z j' hm; cases hm), (by intro d' j' hm; cases hm)⟩
      · intro z j' hj; simp only [State.setTodo, State.setSig, upd] at hj; split at hj
        · rename_i hz; subst hz; simp only [List.mem_append, List.mem_singleton] at hj
          rcases hj with h1 | h1
          · exact Or.inl h1
          · exact Or.inr (by rw [h1])
        · exact Or.inl hj
      · intro z j' hj; left; simp only [State.setTodo, State.setSig, upd]; split
        · rename_i hz; subst hz; exact List.mem_append_left _ hj
        · exact hj
      · intro z _ hz; left; simp only [State.setTodo, State.setSig, upd] at hz; split at hz
        · rename_i hzd; subst hzd; exact hz
        · exact hz
      · intro d' j' h; injection h with h1 h2; subst h1; subst h2
        right; refine ⟨by simpa using hgo, ?_⟩
        simp [State.setTodo, State.setSig, upd_same]
  | run j =>
    cases j with
    | orHook o i =>
      simp only [exec, Option.some.injEq] at he; subst he
      refine ⟨_, stepFacts_simple ht hs he0 rfl rfl rfl ?_ ?_ ⟨(by intro d j h; cases h), (by intro z j h; cases h), (by intro z df h; cases h)⟩ ?_⟩
      · intro b hb; split at hb
        · simp only [List.mem_singleton] at hb; subst hb
          exact ⟨(by intro j h; cases h), (by intro z j h; cases h), (by intro d j h; cases h), (by intro z h; cases h)⟩
        · cases hb
      · intro z hm; split at hm
        · simp only [List.mem_singleton] at hm; injection hm with h1; exact Or.inl ⟨o, i, rfl, h1⟩
        · cases hm
      · intro o' i' h; injection h with h1; injection h1 with h2 h3; subst h2
        cases hal : (s.sigs (s.ors o).target).alive with
        | true => left; exact ⟨rfl, by simp [hal]⟩
        | false => right; rfl
    | orCleanup o =>
      simp only [exec, Option.some.injEq] at he; subst he
      refine ⟨(s.ors o).deps.zipIdx.map fun (p : Nat × Nat) => Act.removeJ p.1 (.orHook o p.2), ⟨ht, hs, rfl⟩, ext_exec he0, rfl,
        fun z j' hj => Or.inl hj, fun z j' hj => Or.inl hj, fun z _ hz => Or.inl hz, (by intro d j h; cases h), (by intro o' i h; cases h),
        (by intro z df h; cases h), (by intro z df h; cases h), ?_, ?_, ?_, ?_⟩
      · intro j hm; obtain ⟨d, i, _, he⟩ := mem_zipIdx_map_removeJ hm; cases he
      · intro z df hm; obtain ⟨d, i, _, he⟩ := mem_zipIdx_map_removeJ hm; cases he
      · intro z j hm; obtain ⟨d, i, _, he⟩ := mem_zipIdx_map_removeJ hm; injection he with h1 h2; exact ⟨o, i, h2, rfl⟩
      · intro d j hm; obtain ⟨d', i, _, he⟩ := mem_zipIdx_map_removeJ hm; cases he
    | andDone n i =>
      simp only [exec, Option.some.injEq] at he; subst he
      refine ⟨_, stepFacts_simple ht hs he0 rfl rfl rfl ?_ ?_ ⟨(by intro d j h; cases h), (by intro z j h; cases h), (by intro z df h; cases h)⟩ (by intro o i h; cases h)⟩
      · intro b hb; split at hb
        · simp only [List.mem_singleton] at hb; subst hb
          exact ⟨(by intro j h; cases h), (by intro z j h; cases h), (by intro d j h; cases h), (by intro z h; cases h)⟩
        · cases hb
      · intro z hm; split at hm
        · simp only [List.mem_singleton] at hm; injection hm with h1; exact Or.inr ⟨n, i, rfl, h1⟩
        · cases hm
    | andCleanup n =>
      simp only [exec, Option.some.injEq] at he; subst he
      exact ⟨[], stepFacts_simple ht hs he0 rfl rfl rfl (by intro b hb; cases hb) (by intro z hm; cases hm)
        ⟨(by intro d j h; cases h), (by intro z j h; cases h), (by intro z df h; cases h)⟩ (by intro o i h; cases h)⟩
    | user k =>
      simp only [exec, Option.some.injEq] at he; subst he
      exact ⟨[], stepFacts_simple ht hs he0 rfl rfl rfl (by intro b hb; cases hb) (by intro z hm; cases hm)
        ⟨(by intro d j h; cases h), (by intro z j h; cases h), (by intro z df h; cases h)⟩ (by intro o i h; cases h)⟩
  | goS x direct =>
    simp only [exec] at he
    split at he
    · rename_i hgn
      simp only [Option.some.injEq] at he; subst he
      refine ⟨[], stepFacts_simple ht hs he0 rfl rfl rfl (by intro b hb; cases hb) (by intro z hm; cases hm)
        ⟨(by intro d j h; cases h), (by intro z j h; cases h), ?_⟩ (by intro o i h; cases h)⟩
      intro z df h; injection h with h1; subst h1
      simpa [Bool.or_eq_true] using hgn
    · rename_i hgn
      simp only [Bool.or_eq_true, not_or, Bool.not_eq_true] at hgn
      simp only [Option.some.injEq] at he; subst he
      refine ⟨(s.sigs x).jobs.map Act.run, ⟨ht, hs, rfl⟩, ext_exec he0, rfl, ?_, ?_, ?_, (by intro d j h; cases h), (by intro o i h; cases h), ?_, ?_, ?_, ?_, ?_, ?_⟩
      · intro z j hj; left; simp only [State.setTodo, State.setSig, upd] at hj; split at hj
        · cases hj
        · exact hj
      · intro z j hj; simp only [State.setTodo, State.setSig, upd]; split
        · rename_i hz; subst hz; right; left
          exact ⟨⟨direct, rfl⟩, List.mem_map.mpr ⟨j, hj, rfl⟩, rfl⟩
        · left; exact hj
      · intro z _ hz; simp only [State.setTodo, State.setSig, upd] at hz ⊢; split at hz
        · rename_i hzx; subst hzx; right; exact ⟨direct, rfl, by simp⟩
        · left; exact hz
      · intro z df h _; injection h with h1; subst h1; simp [State.setTodo, State.setSig, upd_same]
      · intro z df h _ _; injection h with h1; subst h1; simp [State.setTodo, State.setSig, upd_same]
      · intro j hm; obtain ⟨j', hj', he⟩ := List.mem_map.mp hm; injection he with h1; subst h1
        left; exact ⟨x, direct, rfl, hj', by simp [State.setTodo, State.setSig, upd_same]⟩
      · intro z df hm; obtain ⟨j', _, he⟩ := List.mem_map.mp hm; cases he
      · intro z j hm; obtain ⟨j', _, he⟩ := List.mem_map.mp hm; cases he
      · intro d j hm; obtain ⟨j', _, he⟩ := List.mem_map.mp hm; cases he
  | removeJ d j =>
    simp only [exec] at he
    split at he
    · rename_i hgo
      simp only [Option.some.injEq] at he; subst he
      refine ⟨[], ⟨ht, hs, rfl⟩, ext_exec he0, rfl, fun z j' hj => Or.inl hj, fun z j' hj => Or.inl hj, fun z _ hz => Or.inl hz,
        (by intro d' j' h; cases h), (by intro o i h; cases h), (by intro z df h; cases h), (by intro z df h; cases h), (by intro j' hm; cases hm), (by intro z df hm; cases hm),
        (by intro z j' hm; cases hm), (by intro d' j' hm; cases hm)⟩
    · simp only [Option.some.injEq] at he; subst he
      refine ⟨[], ⟨ht, hs, rfl⟩, ext_exec he0, rfl, ?_, ?_, ?_,
        (by intro d' j' h; cases h), (by intro o i h; cases h), (by intro z df h; cases h), (by intro z df h; cases h), (by intro j' hm; cases hm), (by intro z df hm; cases hm),
        (by intro z j' hm; cases hm), (by intro d' j' hm; cases hm)⟩
      · intro z j' hj; left; simp only [State.setTodo, State.setSig, upd] at hj; split at hj
        · rename_i hz; subst hz; exact List.mem_of_mem_erase hj
        · exact hj
      · intro z j' hj; simp only [State.setTodo, State.setSig, upd]; split
        · rename_i hz; subst hz
          by_cases hjj : j' = j
          · right; right; rw [hjj]
          · left; exact (List.mem_erase_of_ne hjj).mpr hj
        · left; exact hj
      · intro z _ hz; left; simp only [State.setTodo, State.setSig, upd] at hz; split at hz
        · rename_i hzd; subst hzd; exact hz
        · exact hz

/-- what a pending action guarantees about the operands of the OrSignal it belongs to -/
def ActG (s : State) : Act → Prop
  | .run (.orHook o i) => ∃ d, (s.ors o).deps0[i]? = some d ∧ (s.sigs d).go = true
  | .goS z false => ∀ o, (s.sigs z).built = .orOut o → ∃ d, d ∈ (s.ors o).deps0 ∧ (s.sigs d).go = true
  | .removeJ _ (.orHook o _) => (s.sigs (s.ors o).target).go = true ∨ (s.sigs (s.ors o).target).alive = false
  | _ => True

/-- operand `d` (position `i`) of OrSignal `o` is true: its hook is still to be registered, queued to run, has queued the
trigger of the composite, or the composite is already true or dead -/
def HD (s : State) (o i d : Nat) : Prop :=
  InTodos s (.thenJ d (.orHook o i)) ∨ InTodos s (.run (.orHook o i)) ∨ InTodos s (.goS (s.ors o).target false)
  ∨ (s.sigs (s.ors o).target).go = true ∨ (s.sigs (s.ors o).target).alive = false

/-- operand `d` is not true yet: its hook is registered on it or still to be registered, unless the composite is true or dead -/
def ID (s : State) (o i d : Nat) : Prop :=
  Job.orHook o i ∈ (s.sigs d).jobs ∨ InTodos s (.thenJ d (.orHook o i))
  ∨ (s.sigs (s.ors o).target).go = true ∨ (s.sigs (s.ors o).target).alive = false

structure InvG (s : State) : Prop where
  N  : ∀ z, z < s.nSig → (s.sigs z).built ≠ .leaf → (s.sigs z).never = false
  TG : ∀ a, InTodos s a → ActG s a
  G1 : ∀ z o, z < s.nSig → (s.sigs z).built = .orOut o → (s.sigs z).go = true → (s.sigs z).direct = false →
        ∃ d, d ∈ (s.ors o).deps0 ∧ (s.sigs d).go = true
  H  : ∀ o i d, o < s.nOr → (s.ors o).deps0[i]? = some d → (s.sigs d).go = true → HD s o i d
  I  : ∀ o i d, o < s.nOr → (s.ors o).deps0[i]? = some d → (s.sigs d).go = false → ID s o i d

theorem invG_init : InvG init := by
  constructor
  · intro z hz hb; exact absurd (init_built z) hb
  · intro a ha; exact absurd ha (inTodos_init _)
  · intro z o hz hb; rw [init_built] at hb; cases hb
  · intro o i d ho; simp [init] at ho
  · intro o i d ho; simp [init] at ho

theorem mem_of_getElem?_eq_some {l : List Nat} {i d : Nat} (h : l[i]? = some d) : d ∈ l := by
  obtain ⟨hi, he⟩ := List.getElem?_eq_some_iff.mp h
  exact he ▸ List.getElem_mem hi

theorem actG_mono {s s' : State} (hl : InvL s) (ex : Ext s s') {a : Act} (ha : InTodos s a) (h : ActG s a) : ActG s' a := by
  cases a with
  | run j =>
    cases j with
    | orHook o i =>
      obtain ⟨d, hd, hg⟩ := h
      have ho : o < s.nOr := hl.M2o _ _ o ha rfl rfl
      have hdl : d < s.nSig := (hl.F6 o ho).1 d (mem_of_getElem?_eq_some hd)
      exact ⟨d, by rw [(ex.ors o ho).1]; exact hd, ex.go d hdl hg⟩
    | _ => trivial
  | goS z df =>
    cases df with
    | true => trivial
    | false =>
      intro o hb
      have hz : z < s.nSig := hl.M1 _ z ha (by simp [Act.sigs])
      rw [ex.built z hz] at hb
      have ho := (hl.F3 z o hb).1
      obtain ⟨d, hd, hg⟩ := h o hb
      exact ⟨d, by rw [(ex.ors o ho).1]; exact hd, ex.go d ((hl.F6 o ho).1 d hd) hg⟩
  | removeJ z j =>
    cases j with
    | orHook o i =>
      have ho : o < s.nOr := hl.M2o _ _ o ha rfl rfl
      have hc := (hl.F1 o ho).1
      show (s'.sigs (s'.ors o).target).go = true ∨ (s'.sigs (s'.ors o).target).alive = false
      rw [(ex.ors o ho).2]
      rcases h with h1 | h1
      · exact Or.inl (ex.go _ hc h1)
      · exact Or.inr (ex.dead _ h1 hc)
    | _ => trivial
  | _ => trivial

theorem invG_stepFacts {s s' : State} {t : Nat} {a : Act} {rest new : List Act} (hl : InvL s) (hh : InvH s) (hg : InvG s)
    (sf : StepFacts s s' t a rest new) : InvG s' := by
  have st := sf.st
  have ex := sf.ext
  have hd : InTodos s a := st.head
  have nsig_eq_or : ∀ z, z < s'.nSig → z < s.nSig ∨ (s.nSig ≤ z) := fun z _ => by omega
  have tgt_lt : ∀ o, o < s.nOr → (s.ors o).target < s.nSig := fun o ho => (hl.F1 o ho).1
  constructor
  case N =>
    intro z hz hb
    by_cases hzs : z < s.nSig
    · rw [ex.built z hzs] at hb; rw [ex.never z hzs]; exact hg.N z hzs hb
    · exact (ex.fresh z (by omega) hz).1
  case TG =>
    intro b hb
    rcases st.sub hb with h1 | h1
    · -- a new action
      cases b with
      | run j =>
        cases j with
        | orHook o i =>
          rcases sf.newRun _ h1 with ⟨z, df, ha, hj, hgz⟩ | ⟨d, ha, hgd⟩
          · have ho : o < s.nOr := hl.M3o z _ o hj rfl
            exact ⟨z, by rw [(ex.ors o ho).1]; exact hh.B1 z o i hj, hgz⟩
          · have hin : InTodos s (.thenJ d (.orHook o i)) := ha ▸ hd
            have ho : o < s.nOr := hl.M2o _ _ o hin rfl rfl
            have hb2 := hh.B2 d o i hin
            exact ⟨d, by rw [(ex.ors o ho).1]; exact hb2, ex.go d ((hl.F6 o ho).1 d (mem_of_getElem?_eq_some hb2)) hgd⟩
        | _ => trivial
      | goS z df =>
        obtain ⟨hdf, hsrc⟩ := sf.newGo z df h1
        subst hdf
        intro o' hb'
        rcases hsrc with ⟨o, i, ha, hz⟩ | ⟨n, i, ha, hz⟩
        · have hin : InTodos s (.run (.orHook o i)) := ha ▸ hd
          have ho : o < s.nOr := hl.M2o _ _ o hin rfl rfl
          have hzl : z < s.nSig := hz ▸ tgt_lt o ho
          rw [ex.built z hzl, hz, (hl.F1 o ho).2] at hb'
          injection hb' with h2; subst h2
          obtain ⟨d, hdd, hgd⟩ := hg.TG _ hin
          have hdm := mem_of_getElem?_eq_some hdd
          exact ⟨d, by rw [(ex.ors o ho).1]; exact hdm, ex.go d ((hl.F6 o ho).1 d hdm) hgd⟩
        · have hin : InTodos s (.run (.andDone n i)) := ha ▸ hd
          have hn : n < s.nAnd := hl.M2a _ _ n hin rfl rfl
          have hzl : z < s.nSig := hz ▸ (hl.F2 n hn).1
          rw [ex.built z hzl, hz, (hl.F2 n hn).2] at hb'
          cases hb'
      | removeJ z j =>
        obtain ⟨o, i, hj, ha⟩ := sf.newRm z j h1
        subst hj
        have hin : InTodos s (.run (.orCleanup o)) := ha ▸ hd
        have ho : o < s.nOr := hl.M2o _ _ o hin rfl rfl
        show (s'.sigs (s'.ors o).target).go = true ∨ (s'.sigs (s'.ors o).target).alive = false
        rw [(ex.ors o ho).2]
        rcases hl.Jr o hin with h2 | h2
        · exact Or.inl (ex.go _ (tgt_lt o ho) h2)
        · exact Or.inr (ex.dead _ h2 (tgt_lt o ho))
      | _ => trivial
    · exact actG_mono hl ex h1 (hg.TG b h1)
  case G1 =>
    intro z o hz hb hgo hdir
    by_cases hzs : z < s.nSig
    · rw [ex.built z hzs] at hb
      have ho := (hl.F3 z o hb).1
      have lift : (∃ d, d ∈ (s.ors o).deps0 ∧ (s.sigs d).go = true) → ∃ d, d ∈ (s'.ors o).deps0 ∧ (s'.sigs d).go = true := by
        rintro ⟨d, hdm, hgd⟩
        exact ⟨d, by rw [(ex.ors o ho).1]; exact hdm, ex.go d ((hl.F6 o ho).1 d hdm) hgd⟩
      rcases sf.gsrc z hzs hgo with h1 | ⟨df, ha, hdf⟩
      · rw [ex.dir z hzs h1] at hdir; exact lift (hg.G1 z o hzs hb h1 hdir)
      · rw [hdf] at hdir; subst hdir
        have hin : InTodos s (.goS z false) := ha ▸ hd
        exact lift (hg.TG _ hin o hb)
    · have := (ex.fresh z (by omega) hz).2; rw [hgo] at this; cases this
  case H =>
    intro o i d ho hdd hgd
    rw [sf.nor] at ho
    rw [(ex.ors o ho).1] at hdd
    have hdl : d < s.nSig := (hl.F6 o ho).1 d (mem_of_getElem?_eq_some hdd)
    have hc := tgt_lt o ho
    unfold HD; rw [(ex.ors o ho).2]
    -- how a pending action of the old state fares
    have k_then : InTodos s (.thenJ d (.orHook o i)) → (s.sigs d).go = true ∨ (s'.sigs d).go = true →
        InTodos s' (.thenJ d (.orHook o i)) ∨ InTodos s' (.run (.orHook o i)) := by
      intro hin _
      by_cases heq : Act.thenJ d (.orHook o i) = a
      · rcases sf.thenReg d _ heq.symm with ⟨_, hr⟩ | ⟨hng, _⟩
        · exact Or.inr (st.intro hr)
        · -- registered while `d` was false: then `d` is still false now, contradiction with the premise
          exfalso
          rcases sf.gsrc d hdl hgd with h2 | ⟨df, ha, _⟩
          · rw [hng] at h2; cases h2
          · rw [← heq] at ha; cases ha
      · exact Or.inl (st.keep hin heq)
    have k_run : InTodos s (.run (.orHook o i)) →
        InTodos s' (.run (.orHook o i)) ∨ InTodos s' (.goS (s.ors o).target false) ∨ (s'.sigs (s.ors o).target).alive = false := by
      intro hin
      by_cases heq : Act.run (.orHook o i) = a
      · rcases sf.runHook o i heq.symm with ⟨_, hr⟩ | hdead
        · exact Or.inr (Or.inl (st.intro hr))
        · exact Or.inr (Or.inr (ex.dead _ hdead hc))
      · exact Or.inl (st.keep hin heq)
    have k_go : InTodos s (.goS (s.ors o).target false) →
        InTodos s' (.goS (s.ors o).target false) ∨ (s'.sigs (s.ors o).target).go = true := by
      intro hin
      by_cases heq : Act.goS (s.ors o).target false = a
      · right
        exact sf.goExec _ _ heq.symm (hg.N _ hc (by rw [(hl.F1 o ho).2]; intro hb; cases hb))
      · exact Or.inl (st.keep hin heq)
    have from_HD : HD s o i d → InTodos s' (.thenJ d (.orHook o i)) ∨ InTodos s' (.run (.orHook o i)) ∨ InTodos s' (.goS (s.ors o).target false)
        ∨ (s'.sigs (s.ors o).target).go = true ∨ (s'.sigs (s.ors o).target).alive = false := by
      intro h0
      rcases h0 with h1 | h1 | h1 | h1 | h1
      · rcases k_then h1 (Or.inr hgd) with h2 | h2
        · exact Or.inl h2
        · exact Or.inr (Or.inl h2)
      · rcases k_run h1 with h2 | h2 | h2
        · exact Or.inr (Or.inl h2)
        · exact Or.inr (Or.inr (Or.inl h2))
        · exact Or.inr (Or.inr (Or.inr (Or.inr h2)))
      · rcases k_go h1 with h2 | h2
        · exact Or.inr (Or.inr (Or.inl h2))
        · exact Or.inr (Or.inr (Or.inr (Or.inl h2)))
      · exact Or.inr (Or.inr (Or.inr (Or.inl (ex.go _ hc h1))))
      · exact Or.inr (Or.inr (Or.inr (Or.inr (ex.dead _ h1 hc))))
    rcases sf.gsrc d hdl hgd with hold | ⟨df, ha, _⟩
    · exact from_HD (hg.H o i d ho hdd hold)
    · -- `d` has just been triggered by this step
      cases hgs : (s.sigs d).go with
      | true => exact from_HD (hg.H o i d ho hdd hgs)
      | false =>
        rcases hg.I o i d ho hdd hgs with h1 | h1 | h1 | h1
        · rcases sf.jkeep d _ h1 with h2 | ⟨_, hr, _⟩ | h2
          · -- still in the job list of a signal that is now true? impossible: `go` detached it
            exfalso
            have := sf.goClears d df ha hgs hgd
            rw [this] at h2; cases h2
          · exact Or.inr (Or.inl (st.intro hr))
          · rw [ha] at h2; cases h2
        · rcases k_then h1 (Or.inr hgd) with h2 | h2
          · exact Or.inl h2
          · exact Or.inr (Or.inl h2)
        · exact Or.inr (Or.inr (Or.inr (Or.inl (ex.go _ hc h1))))
        · exact Or.inr (Or.inr (Or.inr (Or.inr (ex.dead _ h1 hc))))
  case I =>
    intro o i d ho hdd hgd
    rw [sf.nor] at ho
    rw [(ex.ors o ho).1] at hdd
    have hdl : d < s.nSig := (hl.F6 o ho).1 d (mem_of_getElem?_eq_some hdd)
    have hc := tgt_lt o ho
    have hgs : (s.sigs d).go = false := by
      cases hh' : (s.sigs d).go with
      | false => rfl
      | true => rw [ex.go d hdl hh'] at hgd; cases hgd
    unfold ID; rw [(ex.ors o ho).2]
    rcases hg.I o i d ho hdd hgs with h1 | h1 | h1 | h1
    · rcases sf.jkeep d _ h1 with h2 | ⟨_, _, h2⟩ | h2
      · exact Or.inl h2
      · rw [hgd] at h2; cases h2
      · have hin : InTodos s (.removeJ d (.orHook o i)) := h2 ▸ hd
        rcases hg.TG _ hin with h3 | h3
        · exact Or.inr (Or.inr (Or.inl (ex.go _ hc h3)))
        · exact Or.inr (Or.inr (Or.inr (ex.dead _ h3 hc)))
    · by_cases heq : Act.thenJ d (.orHook o i) = a
      · rcases sf.thenReg d _ heq.symm with ⟨h2, _⟩ | ⟨_, h2⟩
        · rw [hgs] at h2; cases h2
        · exact Or.inl h2
      · exact Or.inr (Or.inl (st.keep h1 heq))
    · exact Or.inr (Or.inr (Or.inl (ex.go _ hc h1)))
    · exact Or.inr (Or.inr (Or.inr (ex.dead _ h1 hc)))

/-- environment moves that leave every existing signal and object alone (apart from `held`) and only push harmless actions -/
theorem invG_env_same {s s' : State} {pre : List Act} (hl : InvL s) (hg : InvG s) (ex : Ext s s')
    (hsub : ∀ b, InTodos s' b → b ∈ pre ∨ InTodos s b) (hkeep : ∀ b, InTodos s b → InTodos s' b)
    (hpre : ∀ b, b ∈ pre → (∀ j, b ≠ .run j) ∧ (∀ z, b ≠ .goS z false) ∧ (∀ z j, b ≠ .removeJ z j))
    (hsig : ∀ z, z < s.nSig → (s'.sigs z).go = (s.sigs z).go ∧ (s'.sigs z).direct = (s.sigs z).direct ∧ (s'.sigs z).jobs = (s.sigs z).jobs
        ∧ (s'.sigs z).alive = (s.sigs z).alive)
    (hnor : s'.nOr = s.nOr) : InvG s' := by
  have tgt_lt : ∀ o, o < s.nOr → (s.ors o).target < s.nSig := fun o ho => (hl.F1 o ho).1
  constructor
  case N =>
    intro z hz hb
    by_cases hzs : z < s.nSig
    · rw [ex.built z hzs] at hb; rw [ex.never z hzs]; exact hg.N z hzs hb
    · exact (ex.fresh z (by omega) hz).1
  case TG =>
    intro b hb
    rcases hsub b hb with h1 | h1
    · have := hpre b h1
      cases b with
      | run j => exact absurd rfl (this.1 j)
      | goS z df => cases df with
        | true => trivial
        | false => exact absurd rfl (this.2.1 z)
      | removeJ z j => exact absurd rfl (this.2.2 z j)
      | _ => trivial
    · exact actG_mono hl ex h1 (hg.TG b h1)
  case G1 =>
    intro z o hz hb hgo hdir
    by_cases hzs : z < s.nSig
    · rw [ex.built z hzs] at hb
      have ho := (hl.F3 z o hb).1
      rw [(hsig z hzs).1] at hgo; rw [(hsig z hzs).2.1] at hdir
      obtain ⟨d, hdm, hgd⟩ := hg.G1 z o hzs hb hgo hdir
      exact ⟨d, by rw [(ex.ors o ho).1]; exact hdm, ex.go d ((hl.F6 o ho).1 d hdm) hgd⟩
    · have := (ex.fresh z (by omega) hz).2; rw [hgo] at this; cases this
  case H =>
    intro o i d ho hdd hgd
    rw [hnor] at ho
    rw [(ex.ors o ho).1] at hdd
    have hdl : d < s.nSig := (hl.F6 o ho).1 d (mem_of_getElem?_eq_some hdd)
    have hc := tgt_lt o ho
    rw [(hsig d hdl).1] at hgd
    unfold HD; rw [(ex.ors o ho).2, (hsig _ hc).1, (hsig _ hc).2.2.2]
    rcases hg.H o i d ho hdd hgd with h1 | h1 | h1 | h1 | h1
    · exact Or.inl (hkeep _ h1)
    · exact Or.inr (Or.inl (hkeep _ h1))
    · exact Or.inr (Or.inr (Or.inl (hkeep _ h1)))
    · exact Or.inr (Or.inr (Or.inr (Or.inl h1)))
    · exact Or.inr (Or.inr (Or.inr (Or.inr h1)))
  case I =>
    intro o i d ho hdd hgd
    rw [hnor] at ho
    rw [(ex.ors o ho).1] at hdd
    have hdl : d < s.nSig := (hl.F6 o ho).1 d (mem_of_getElem?_eq_some hdd)
    have hc := tgt_lt o ho
    rw [(hsig d hdl).1] at hgd
    unfold ID; rw [(ex.ors o ho).2, (hsig _ hc).1, (hsig _ hc).2.2.2, (hsig d hdl).2.2.1]
    rcases hg.I o i d ho hdd hgd with h1 | h1 | h1 | h1
    · exact Or.inl h1
    · exact Or.inr (Or.inl (hkeep _ h1))
    · exact Or.inr (Or.inr (Or.inl h1))
    · exact Or.inr (Or.inr (Or.inr h1))

theorem ext_same_objs {s s' : State} (h2 : s'.nSig = s.nSig) (h3 : s'.ors = s.ors) (h4 : s'.nOr = s.nOr)
    (hsig : ∀ z, (s'.sigs z).go = (s.sigs z).go ∧ (s'.sigs z).direct = (s.sigs z).direct ∧ (s'.sigs z).built = (s.sigs z).built
      ∧ (s'.sigs z).never = (s.sigs z).never ∧ ((s.sigs z).alive = false → (s'.sigs z).alive = false)) : Ext s s' := by
  refine ⟨fun z _ hz => by rw [(hsig z).1]; exact hz, fun z _ => (hsig z).2.2.1, fun z _ => (hsig z).2.2.2.1, fun z _ _ => (hsig z).2.1,
    fun o _ => by rw [h3]; exact ⟨rfl, rfl⟩, by omega, by omega, fun z hz _ => (hsig z).2.2.2.2 hz, fun z h1 h5 => by omega⟩

theorem invG_call {s s' : State} {t : Nat} {op : Op} (hl : InvL s) (hg : InvG s) (hc : call s t op = some s') : InvG s' := by
  unfold call at hc
  split at hc
  · rename_i hcond
    obtain ⟨ht, hempty⟩ := hcond
    have key : ∀ a, (∀ j, a ≠ .run j) → (∀ z, a ≠ .goS z false) → (∀ z j, a ≠ .removeJ z j) → InvG (s.setTodo t [a]) := by
      intro a h1 h2 h3
      have push : TodoPush s (s.setTodo t [a]) t [a] := ⟨ht, by simp [State.setTodo, hempty]⟩
      refine invG_env_same hl hg (ext_same_objs rfl rfl rfl (fun z => ⟨rfl, rfl, rfl, rfl, fun h => h⟩)) (fun b hb => push.sub hb) (fun b hb => push.keep hb) ?_
        (fun z _ => ⟨rfl, rfl, rfl, rfl⟩) rfl
      intro b hb; simp only [List.mem_singleton] at hb; subst hb; exact ⟨h1, h2, h3⟩
    cases op with
    | mkOr x y => simp only at hc; split at hc
                  · cases hc; exact key _ (by intro j h; cases h) (by intro z h; cases h) (by intro z j h; cases h)
                  · cases hc
    | waitOr x y => simp only at hc; split at hc
                    · cases hc; exact key _ (by intro j h; cases h) (by intro z h; cases h) (by intro z j h; cases h)
                    · cases hc
    | mkAnd x y => simp only at hc; split at hc
                   · cases hc; exact key _ (by intro j h; cases h) (by intro z h; cases h) (by intro z j h; cases h)
                   · cases hc
    | go x => simp only at hc; split at hc
              · cases hc; exact key _ (by intro j h; cases h) (by intro z h; cases h) (by intro z j h; cases h)
              · cases hc
    | thenUser z k => simp only at hc; split at hc
                      · cases hc; exact key _ (by intro j h; cases h) (by intro z h; cases h) (by intro z j h; cases h)
                      · cases hc
    | wait x => simp only at hc; split at hc
                · cases hc; exact key _ (by intro j h; cases h) (by intro z h; cases h) (by intro z j h; cases h)
                · cases hc
  · cases hc

theorem invG_fire {s s' : State} {t z : Nat} (hl : InvL s) (hg : InvG s) (hc : fire s t z = some s') : InvG s' := by
  unfold fire at hc
  split at hc
  · rename_i hcond
    obtain ⟨ht, hempty, _, _, _⟩ := hcond
    cases hc
    have push : TodoPush s (s.setTodo t [.goS z true]) t [.goS z true] := ⟨ht, by simp [State.setTodo, hempty]⟩
    refine invG_env_same hl hg (ext_same_objs rfl rfl rfl (fun z => ⟨rfl, rfl, rfl, rfl, fun h => h⟩)) (fun b hb => push.sub hb) (fun b hb => push.keep hb) ?_
      (fun z _ => ⟨rfl, rfl, rfl, rfl⟩) rfl
    intro b hb; simp only [List.mem_singleton] at hb; subst hb
    exact ⟨(by intro j h; cases h), (by intro z h; cases h), (by intro z j h; cases h)⟩
  · cases hc

theorem invG_release {s s' : State} {z : Nat} (hl : InvL s) (hg : InvG s) (hc : release s z = some s') : InvG s' := by
  unfold release at hc
  split at hc
  · cases hc
    have hsame : ∀ w, ((s.setSig z { s.sigs z with held := false }).sigs w).go = (s.sigs w).go
        ∧ ((s.setSig z { s.sigs z with held := false }).sigs w).direct = (s.sigs w).direct
        ∧ ((s.setSig z { s.sigs z with held := false }).sigs w).built = (s.sigs w).built
        ∧ ((s.setSig z { s.sigs z with held := false }).sigs w).never = (s.sigs w).never
        ∧ ((s.setSig z { s.sigs z with held := false }).sigs w).jobs = (s.sigs w).jobs
        ∧ ((s.setSig z { s.sigs z with held := false }).sigs w).alive = (s.sigs w).alive := by
      intro w; by_cases hw : w = z
      · subst hw; simp [State.setSig, upd_same]
      · simp [State.setSig, upd_other _ _ hw]
    refine invG_env_same (pre := []) hl hg (ext_same_objs rfl rfl rfl (fun w => ⟨(hsame w).1, (hsame w).2.1, (hsame w).2.2.1, (hsame w).2.2.2.1,
      fun h => by rw [(hsame w).2.2.2.2.2]; exact h⟩)) (fun b hb => Or.inr hb) (fun b hb => hb) (by intro b hb; cases hb)
      (fun w _ => ⟨(hsame w).1, (hsame w).2.1, (hsame w).2.2.2.2.1, (hsame w).2.2.2.2.2⟩) rfl
  · cases hc

theorem invG_newLeaf {s : State} (hl : InvL s) (hg : InvG s) : InvG (newLeaf s) := by
  have sig_o : ∀ z, z ≠ s.nSig → (newLeaf s).sigs z = s.sigs z := fun z hz => by simp [newLeaf, upd_other _ _ hz]
  have ex : Ext s (newLeaf s) := by
    refine ⟨fun z hz hg' => by rw [sig_o z (by omega)]; exact hg', fun z hz => by rw [sig_o z (by omega)], fun z hz => by rw [sig_o z (by omega)],
      fun z hz _ => by rw [sig_o z (by omega)], fun o _ => ⟨rfl, rfl⟩, Nat.le_refl _, by simp [newLeaf], fun z hz hlt => by rw [sig_o z (by omega)]; exact hz, ?_⟩
    intro z h1 h2
    have : z = s.nSig := by simp only [newLeaf] at h2; omega
    subst this; simp [newLeaf, upd_same, freshSig]
  exact invG_env_same (pre := []) hl hg ex (fun b hb => Or.inr hb) (fun b hb => hb) (by intro b hb; cases hb)
    (fun z hz => by rw [sig_o z (by omega)]; exact ⟨rfl, rfl, rfl, rfl⟩) rfl

theorem invG_orNew {s s' : State} {t x y : Nat} {w : Bool} {rest : List Act} (hl : InvL s) (hg : InvG s) (ht : t < NT)
    (hs : s.todo t = Act.orNew x y w :: rest) (he : exec s t (.orNew x y w) rest = some s') : InvG s' := by
  have ex0 := ext_exec he
  simp only [exec, Option.some.injEq] at he; subst he
  let new := [Act.thenJ x (.orHook s.nOr 0), Act.thenJ y (.orHook s.nOr 1), Act.thenJ s.nSig (.orCleanup s.nOr), Act.ret s.nSig w]
  let s' := { s with sigs := upd s.sigs s.nSig (freshSig (.orOut s.nOr)), nSig := s.nSig + 1,
                     ors := upd s.ors s.nOr { deps := [x, y], target := s.nSig, deps0 := [x, y] }, nOr := s.nOr + 1 }.setTodo t (new ++ rest)
  have ex : Ext s s' := ex0
  have st : TodoStep s s' t (.orNew x y w) rest new := ⟨ht, hs, rfl⟩
  have sig_o : ∀ z, z ≠ s.nSig → s'.sigs z = s.sigs z := fun z hz => by simp [s', State.setTodo, upd_other _ _ hz]
  have ors_new : s'.ors s.nOr = { deps := [x, y], target := s.nSig, deps0 := [x, y] } := by simp [s', State.setTodo, upd_same]
  have ors_o : ∀ o, o ≠ s.nOr → s'.ors o = s.ors o := fun o ho => by simp [s', State.setTodo, upd_other _ _ ho]
  have tgt_lt : ∀ o, o < s.nOr → (s.ors o).target < s.nSig := fun o ho => (hl.F1 o ho).1
  have fresh := hl.F5 s.nSig (Nat.le_refl _)
  show InvG s'
  constructor
  case N =>
    intro z hz hb
    by_cases hzs : z < s.nSig
    · rw [ex.built z hzs] at hb; rw [ex.never z hzs]; exact hg.N z hzs hb
    · exact (ex.fresh z (by omega) hz).1
  case TG =>
    intro b hb
    rcases st.sub hb with h1 | h1
    · simp only [new, List.mem_cons, List.mem_nil_iff, or_false] at h1
      rcases h1 with rfl | rfl | rfl | rfl <;> trivial
    · exact actG_mono hl ex h1 (hg.TG b h1)
  case G1 =>
    intro z o hz hb hgo hdir
    by_cases hzs : z < s.nSig
    · have hzn : z ≠ s.nSig := by omega
      rw [sig_o z hzn] at hb hgo hdir
      have ho := (hl.F3 z o hb).1
      obtain ⟨d, hdm, hgd⟩ := hg.G1 z o hzs hb hgo hdir
      exact ⟨d, by rw [(ex.ors o ho).1]; exact hdm, ex.go d ((hl.F6 o ho).1 d hdm) hgd⟩
    · have := (ex.fresh z (by omega) hz).2; rw [hgo] at this; cases this
  case H =>
    intro o i d ho hdd hgd
    by_cases hon : o = s.nOr
    · subst hon
      rw [ors_new] at hdd
      unfold HD
      cases i with
      | zero => simp at hdd; subst hdd; exact Or.inl (st.intro (by simp [new]))
      | succ i =>
        cases i with
        | zero => simp at hdd; subst hdd; exact Or.inl (st.intro (by simp [new]))
        | succ i => simp at hdd
    · have ho' : o < s.nOr := by have : o < s.nOr + 1 := ho; omega
      rw [ors_o o hon] at hdd
      have hdl : d < s.nSig := (hl.F6 o ho').1 d (mem_of_getElem?_eq_some hdd)
      have hc := tgt_lt o ho'
      rw [sig_o d (by omega)] at hgd
      unfold HD; rw [ors_o o hon, sig_o _ (by omega)]
      rcases hg.H o i d ho' hdd hgd with h1 | h1 | h1 | h1 | h1
      · exact Or.inl (st.keep h1 (by intro he; cases he))
      · exact Or.inr (Or.inl (st.keep h1 (by intro he; cases he)))
      · exact Or.inr (Or.inr (Or.inl (st.keep h1 (by intro he; cases he))))
      · exact Or.inr (Or.inr (Or.inr (Or.inl h1)))
      · exact Or.inr (Or.inr (Or.inr (Or.inr h1)))
  case I =>
    intro o i d ho hdd hgd
    by_cases hon : o = s.nOr
    · subst hon
      rw [ors_new] at hdd
      unfold ID
      cases i with
      | zero => simp at hdd; subst hdd; exact Or.inr (Or.inl (st.intro (by simp [new])))
      | succ i =>
        cases i with
        | zero => simp at hdd; subst hdd; exact Or.inr (Or.inl (st.intro (by simp [new])))
        | succ i => simp at hdd
    · have ho' : o < s.nOr := by have : o < s.nOr + 1 := ho; omega
      rw [ors_o o hon] at hdd
      have hdl : d < s.nSig := (hl.F6 o ho').1 d (mem_of_getElem?_eq_some hdd)
      have hc := tgt_lt o ho'
      rw [sig_o d (by omega)] at hgd
      unfold ID; rw [ors_o o hon, sig_o d (by omega), sig_o (s.ors o).target (by omega)]
      rcases hg.I o i d ho' hdd hgd with h1 | h1 | h1 | h1
      · exact Or.inl h1
      · exact Or.inr (Or.inl (st.keep h1 (by intro he; cases he)))
      · exact Or.inr (Or.inr (Or.inl h1))
      · exact Or.inr (Or.inr (Or.inr h1))

theorem invG_collect {s s' : State} {t z : Nat} (hl : InvL s) (hh : InvH s) (hg : InvG s) (hc : collect s t z = some s') : InvG s' := by
  have hl' := invL_collect hl hc
  unfold collect at hc
  by_cases hcond : t < NT ∧ collectable s z = true
  case neg => simp only [hcond, if_false] at hc; cases hc
  simp only [hcond, and_self, if_true] at hc
  obtain ⟨ht, hcol⟩ := hcond
  have C := collectable_spec hcol
  have key : ∀ (pre : List Act) (s2 : State) (v : Sig), v.alive = false → v.jobs = [] → v.go = (s.sigs z).go → v.built = (s.sigs z).built →
      v.never = (s.sigs z).never → v.direct = (s.sigs z).direct →
      s2.sigs = upd s.sigs z v → s2.nSig = s.nSig → s2.ors = s.ors → s2.nOr = s.nOr →
      (∀ b, b ∈ pre → ∃ o, b = .run (.orCleanup o)) →
      (∀ b, InTodos s2 b → b ∈ pre ∨ InTodos s b) → (∀ b, InTodos s b → InTodos s2 b) → InvG s2 := by
    intro pre s2 v hv1 hv2 hv3 hv4 hv5 hv6 e1 e2 e3 e4 hpre hsub hkeep
    have sig_z : s2.sigs z = v := by rw [e1, upd_same]
    have sig_o : ∀ w, w ≠ z → s2.sigs w = s.sigs w := fun w hw => by rw [e1, upd_other _ _ hw]
    have go_eq : ∀ w, (s2.sigs w).go = (s.sigs w).go := by
      intro w; by_cases hw : w = z
      · subst hw; rw [sig_z, hv3]
      · rw [sig_o w hw]
    have ex : Ext s s2 := by
      refine ⟨fun w _ h => by rw [go_eq]; exact h, ?_, ?_, ?_, fun o _ => by rw [e3]; exact ⟨rfl, rfl⟩, by omega, by omega, ?_, fun w h1 h2 => by omega⟩
      · intro w _; by_cases hw : w = z
        · subst hw; rw [sig_z, hv4]
        · rw [sig_o w hw]
      · intro w _; by_cases hw : w = z
        · subst hw; rw [sig_z, hv5]
        · rw [sig_o w hw]
      · intro w _ _; by_cases hw : w = z
        · subst hw; rw [sig_z, hv6]
        · rw [sig_o w hw]
      · intro w hd _; by_cases hw : w = z
        · subst hw; rw [sig_z]; exact hv1
        · rw [sig_o w hw]; exact hd
    have tgt_lt : ∀ o, o < s.nOr → (s.ors o).target < s.nSig := fun o ho => (hl.F1 o ho).1
    constructor
    case N =>
      intro w hw hb; rw [e2] at hw
      rw [ex.built w hw] at hb; rw [ex.never w hw]; exact hg.N w hw hb
    case TG =>
      intro b hb
      rcases hsub b hb with h1 | h1
      · obtain ⟨o, he⟩ := hpre b h1; subst he; trivial
      · exact actG_mono hl ex h1 (hg.TG b h1)
    case G1 =>
      intro w o hw hb hgo hdir; rw [e2] at hw
      rw [ex.built w hw] at hb
      have ho := (hl.F3 w o hb).1
      rw [go_eq] at hgo
      rw [ex.dir w hw hgo] at hdir
      obtain ⟨d, hdm, hgd⟩ := hg.G1 w o hw hb hgo hdir
      exact ⟨d, by rw [e3]; exact hdm, by rw [go_eq]; exact hgd⟩
    case H =>
      intro o i d ho hdd hgd
      rw [e4] at ho; rw [e3] at hdd; rw [go_eq] at hgd
      have hc := tgt_lt o ho
      unfold HD; rw [e3, go_eq]
      rcases hg.H o i d ho hdd hgd with h1 | h1 | h1 | h1 | h1
      · exact Or.inl (hkeep _ h1)
      · exact Or.inr (Or.inl (hkeep _ h1))
      · exact Or.inr (Or.inr (Or.inl (hkeep _ h1)))
      · exact Or.inr (Or.inr (Or.inr (Or.inl h1)))
      · exact Or.inr (Or.inr (Or.inr (Or.inr (ex.dead _ h1 hc))))
    case I =>
      intro o i d ho hdd hgd
      rw [e4] at ho; rw [e3] at hdd; rw [go_eq] at hgd
      have hct := tgt_lt o ho
      have hdm := mem_of_getElem?_eq_some hdd
      unfold ID; rw [e3, go_eq]
      rcases hg.I o i d ho hdd hgd with h1 | h1 | h1 | h1
      · -- the hook sits on `d`; if `d` is the object being freed, the composite cannot be alive and untriggered
        by_cases hdz : d = z
        · subst hdz
          cases hgo : (s.sigs (s.ors o).target).go with
          | true => exact Or.inr (Or.inr (Or.inl rfl))
          | false =>
            cases hal : (s.sigs (s.ors o).target).alive with
            | false => exact Or.inr (Or.inr (Or.inr (ex.dead _ hal hct)))
            | true =>
              exfalso
              have hdeps : (s.ors o).deps = (s.ors o).deps0 := by
                cases hdd' : decide ((s.ors o).deps = (s.ors o).deps0) with
                | true => exact of_decide_eq_true hdd'
                | false =>
                  rcases hl.Jv o ho (of_decide_eq_false hdd') with h2 | h2
                  · rw [hgo] at h2; cases h2
                  · rw [hal] at h2; cases h2
              exact C.noOr o ho (orRef_of_target_alive hal) (by rw [hdeps]; exact hdm)
        · left; rw [sig_o d hdz]; exact h1
      · exact Or.inr (Or.inl (hkeep _ h1))
      · exact Or.inr (Or.inr (Or.inl h1))
      · exact Or.inr (Or.inr (Or.inr (ex.dead _ h1 hct)))
  cases hb : (s.sigs z).built with
  | leaf =>
    rw [hb] at hc; cases hc
    exact key [] _ { s.sigs z with alive := false, jobs := [], built := Built.leaf } rfl rfl rfl hb.symm rfl rfl rfl rfl rfl rfl (by intro b hb'; cases hb')
      (fun b hb' => Or.inr hb') (fun b hb' => hb')
  | andOut n =>
    rw [hb] at hc; cases hc
    exact key [] _ { s.sigs z with alive := false, jobs := [], built := Built.andOut n } rfl rfl rfl hb.symm rfl rfl rfl rfl rfl rfl (by intro b hb'; cases hb')
      (fun b hb' => Or.inr hb') (fun b hb' => hb')
  | orOut o =>
    rw [hb] at hc; cases hc
    let s1 := s.setSig z { s.sigs z with alive := false, jobs := [], built := Built.orOut o }
    have push : TodoPush s1 (s1.setTodo t (.run (.orCleanup o) :: s1.todo t)) t [.run (.orCleanup o)] := ⟨ht, rfl⟩
    refine key [.run (.orCleanup o)] _ { s.sigs z with alive := false, jobs := [], built := Built.orOut o } rfl rfl rfl hb.symm rfl rfl rfl rfl rfl rfl ?_ ?_ ?_
    · intro b hb'; simp only [List.mem_singleton] at hb'; exact ⟨o, hb'⟩
    · intro b hb'
      rcases push.sub hb' with h1 | h1
      · exact Or.inl h1
      · exact Or.inr ((inTodos_congr (s := s) (s' := s1) rfl b).mp h1)
    · intro b hb'; exact push.keep ((inTodos_congr (s := s) (s' := s1) rfl b).mpr hb')

theorem reach_all {s : State} (h : sys.Reach s) : InvL s ∧ InvH s ∧ InvG s := by
  refine Sys.Reach.invariant sys (P := fun s => InvL s ∧ InvH s ∧ InvG s) ?_ ?_ ?_ h
  · intro s hi; cases hi; exact ⟨invL_init, invH_init, invG_init⟩
  · intro s s' ⟨hl, hh, hg⟩ he
    rcases he with ⟨t, op, hc⟩ | he | ⟨t, z, hc⟩ | ⟨z, hc⟩ | ⟨t, z, hc⟩
    · exact ⟨invL_call hl hc, invH_call hl hh hc, invG_call hl hg hc⟩
    · subst he; exact ⟨invL_newLeaf hl, invH_newLeaf hl hh, invG_newLeaf hl hg⟩
    · exact ⟨invL_fire hl hc, invH_fire hl hh hc, invG_fire hl hg hc⟩
    · exact ⟨invL_release hl hc, invH_release hl hh hc, invG_release hl hg hc⟩
    · exact ⟨invL_collect hl hc, invH_collect hl hh hc, invG_collect hl hh hg hc⟩
  · intro s s' t l ⟨hl, hh, hg⟩ hs
    refine ⟨invL_step hl hs, invH_step hl hh hs, ?_⟩
    change step s t = some (s', l) at hs
    unfold step at hs
    split at hs
    · rename_i ht
      cases htd : s.todo t with
      | nil => rw [htd] at hs; cases hs
      | cons a rest =>
        rw [htd] at hs; simp only at hs
        cases he : exec s t a rest with
        | none => rw [he] at hs; cases hs
        | some s2 =>
          rw [he] at hs; cases hs
          by_cases hnew : ∃ x y w, a = .orNew x y w
          · obtain ⟨x, y, w, rfl⟩ := hnew
            exact invG_orNew hl hg ht htd he
          · obtain ⟨new, sf⟩ := stepFacts_exec hl ht htd he (by intro x y w ha; exact hnew ⟨x, y, w, ha⟩)
            exact invG_stepFacts hl hh hg sf
    · cases hs

end MoThreads.Composite
