import MoThreads.Proofs.TreeLemmas
namespace MoThreads.ThreadTree
set_option maxHeartbeats 2000000

theorem upd_same {α : Type} (f : Nat → α) (t : Nat) (v : α) : upd f t v t = v := by simp [upd]
theorem upd_other {α : Type} (f : Nat → α) (t u : Nat) (v : α) (h : u ≠ t) : upd f t v u = f u := by simp [upd, h]

/-- A step of thread `t` that only replaces its current call (and possibly touches please_stop /
joiner / ALL flags, which the invariant does not mention) preserves the invariant, provided the new
call's join work list (if any) still covers its top-level threads and guards its unregistrations. -/
theorem inv_call_update {s : State} (h : Inv s) (t : Nat) (c' : Call) (ps jn ia : Nat → Bool) (ch : Nat → List Nat)
    (hch : ∀ p c, c ∈ s.everChild p → c ∈ ch p ∨ s.stopped c = true)
    (hsp : c'.isSpawn = false)
    (hj : ∀ top work tl raised, c'.jwork = some (top, work, tl, raised) →
            (∀ u, u ∈ top → (.start u ∈ work ∨ .wait u ∈ work ∨ s.stopped u = true ∨ (tillOn s tl = true ∧ u ∈ raised))) ∧ okJ s [] work)
    (hf : ∀ cs, s.phase t = .fin3 cs → ∃ work raised, c' = .joining cs work none raised true) :
    Inv { s with call := upd s.call t c', pstop := ps, joiner := jn, inAll := ia, children := ch } := by
  obtain ⟨stP, outP, ever, finK, finD, jtop, jun, fin3C, spawnR, fresh, spawnC, spawnU⟩ := h
  refine ⟨stP, outP, hch, finK, finD, ?_, ?_, ?_, ?_, fresh, ?_, ?_⟩
  · intro u top work tl raised hw
    dsimp only at hw ⊢
    by_cases hut : u = t
    · subst hut; rw [upd_same] at hw; exact (hj top work tl raised hw).1
    · rw [upd_other _ _ _ _ hut] at hw; exact jtop u top work tl raised hw
  · intro u top work tl raised hw
    dsimp only at hw
    have : okJ s [] work := by
      by_cases hut : u = t
      · subst hut; rw [upd_same] at hw; exact (hj top work tl raised hw).2
      · rw [upd_other _ _ _ _ hut] at hw; exact jun u top work tl raised hw
    exact okJ_state_mono (s := s) (by intro x hx; exact hx) this
  · intro p cs hp
    dsimp only at hp ⊢
    by_cases hut : p = t
    · subst hut; rw [upd_same]; exact hf cs hp
    · rw [upd_other _ _ _ _ hut]; exact fin3C p cs hp
  · intro u hu
    dsimp only at hu ⊢
    by_cases hut : u = t
    · subst hut; rw [upd_same] at hu; rw [hsp] at hu; cases hu
    · rw [upd_other _ _ _ _ hut] at hu; exact spawnR u hu
  · intro u c hu
    dsimp only at hu ⊢
    by_cases hut : u = t
    · subst hut; rw [upd_same] at hu; rw [hu] at hsp; simp [Call.isSpawn] at hsp
    · rw [upd_other _ _ _ _ hut] at hu; exact spawnC u c hu
  · intro u v c hu hv
    dsimp only at hu hv
    by_cases hut : u = t
    · subst hut; rw [upd_same] at hu; rw [hu] at hsp; simp [Call.isSpawn] at hsp
    · by_cases hvt : v = t
      · subst hvt; rw [upd_same] at hv; rw [hv] at hsp; simp [Call.isSpawn] at hsp
      · rw [upd_other _ _ _ _ hut] at hu; rw [upd_other _ _ _ _ hvt] at hv; exact spawnU u v c hu hv


/-- one step of a flattened stop() preserves the invariant -/
theorem inv_stepStop {s s' : State} {t : Nat} {l : Label} {work : List SAct} {k : List SAct → Call} (h : Inv s)
    (hk : ∀ w, (k w).jwork = none ∧ (k w).isSpawn = false) (hnf : ∀ cs, s.phase t ≠ .fin3 cs)
    (hs : stepStop s t work k = some (s', l)) : Inv s' := by
  unfold stepStop at hs
  cases work with
  | nil => cases hs
  | cons a rest =>
    cases a with
    | visit u =>
      cases hs
      exact inv_call_update h t _ s.pstop s.joiner s.inAll s.children h.ever
        ((hk _).2)
        (by intro top work tl raised hh; rw [(hk _).1] at hh; cases hh)
        (by intro cs hp; exact absurd hp (hnf cs))
    | fire u =>
      cases hs
      exact inv_call_update h t _ _ s.joiner s.inAll s.children h.ever
        ((hk _).2)
        (by intro top work tl raised hh; rw [(hk _).1] at hh; cases hh)
        (by intro cs hp; exact absurd hp (hnf cs))

end MoThreads.ThreadTree
