import MoThreads.Proofs.QueueTac
namespace MoThreads.Queue
set_option maxHeartbeats 2000000

theorem step_oAcq {s s' : State} {t : Nat} {l : Label} (h : Inv s) (hp : s.pc t = .oAcq)
    (hs : step s t = some (s', l)) : Inv s' := by
  step_case

theorem step_oC {s s' : State} {t : Nat} {l : Label} (h : Inv s) (hp : s.pc t = .oC)
    (hs : step s t = some (s', l)) : Inv s' := by
  step_case

theorem step_oLen {s s' : State} {t : Nat} {l : Label} (h : Inv s) (hp : s.pc t = .oLen)
    (hs : step s t = some (s', l)) : Inv s' := by
  step_case

theorem step_oPop {s s' : State} {t : Nat} {l : Label} (h : Inv s) (hp : s.pc t = .oPop)
    (hs : step s t = some (s', l)) : Inv s' := by
  step_at hp hs
  cases hd : s.dq with
  | nil => rw [hd] at hs; cases hs
  | cons v rest => rw [hd] at hs; cases hs; inv_open_mut; mut_fields; inv_rest

theorem step_lAcq {s s' : State} {t : Nat} {l : Label} (h : Inv s) (hp : s.pc t = .lAcq)
    (hs : step s t = some (s', l)) : Inv s' := by
  step_case

theorem step_lLen {s s' : State} {t : Nat} {l : Label} (h : Inv s) (hp : s.pc t = .lLen)
    (hs : step s t = some (s', l)) : Inv s' := by
  step_case

theorem step_lClear {s s' : State} {t : Nat} {l : Label} (h : Inv s) (hp : s.pc t = .lClear)
    (hs : step s t = some (s', l)) : Inv s' := by
  step_open; inv_open_mut; mut_fields; inv_rest

theorem step_nAcq {s s' : State} {t : Nat} {l : Label} (h : Inv s) (hp : s.pc t = .nAcq)
    (hs : step s t = some (s', l)) : Inv s' := by
  step_case

theorem step_nLen {s s' : State} {t : Nat} {l : Label} (h : Inv s) (hp : s.pc t = .nLen)
    (hs : step s t = some (s', l)) : Inv s' := by
  step_case

theorem step_cClose {s s' : State} {t : Nat} {l : Label} (h : Inv s) (hp : s.pc t = .cClose)
    (hs : step s t = some (s', l)) : Inv s' := by
  step_case

theorem step_kAcq {s s' : State} {t : Nat} {l : Label} (h : Inv s) (hp : s.pc t = .kAcq)
    (hs : step s t = some (s', l)) : Inv s' := by
  step_case

theorem step_kClose {s s' : State} {t : Nat} {l : Label} (h : Inv s) (hp : s.pc t = .kClose)
    (hs : step s t = some (s', l)) : Inv s' := by
  step_case

end MoThreads.Queue
