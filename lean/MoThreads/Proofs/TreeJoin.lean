import MoThreads.Proofs.TreeFrame
namespace MoThreads.ThreadTree
set_option maxHeartbeats 4000000

/-- one step of a flattened join() / join_all_threads() preserves the invariant.  `k` rebuilds the
caller's call from the new work list and raised set, keeping `top` and `till`. -/
theorem inv_stepJoin {s s' : State} {t : Nat} {l : Label} {top : List Nat} {work : List JAct} {tl : Option Nat}
    {raised : List Nat} {all : Bool} {k : List JAct → List Nat → Call} (h : Inv s)
    (hcur : (s.call t).jwork = some (top, work, tl, raised))
    (hk : ∀ w r, (k w r).jwork = some (top, w, tl, r) ∧ (k w r).isSpawn = false)
    (hf : ∀ cs, s.phase t = .fin3 cs → ∀ w r, ∃ work' raised', k w r = .joining cs work' none raised' true)
    (hs : stepJoin s t top work tl raised all k = some (s', l)) : Inv s' := by
  have hjt := h.jtop t top work tl raised hcur
  have hju := h.jun t top work tl raised hcur
  unfold stepJoin at hs
  cases work with
  | nil => cases hs
  | cons a rest =>
    cases a with
    | start u =>
      cases hs
      refine inv_call_update h t _ s.pstop s.joiner s.inAll s.children h.ever
        ((hk _ _).2) ?_ (by intro cs hp; exact hf cs hp _ _)
      intro top' work' tl' raised' hh
      rw [(hk _ _).1] at hh; cases hh
      constructor
      · intro x hx
        rcases hjt x hx with h1 | h1 | h1 | h1
        · simp only [List.mem_cons] at h1
          rcases h1 with h1 | h1
          · cases h1; right; left; simp
          · left; simp [h1]
        · simp only [List.mem_cons] at h1
          rcases h1 with h1 | h1
          · cases h1
          · right; left; simp [h1]
        · exact Or.inr (Or.inr (Or.inl h1))
        · exact Or.inr (Or.inr (Or.inr h1))
      · simp only [okJ] at hju
        have h1 : okJ s [u] rest := okJ_pend_mono (by intro y hy; cases hy) hju
        have h2 : okJ s [] ([JAct.mark u, .wait u, .unreg u, .finish u (s.children u)] ++ rest) := by
          simp [okJ, h1]
        have := okJ_starts (s.children u) h2
        simpa [List.append_assoc] using this
    | mark u =>
      cases hs
      refine inv_call_update h t _ s.pstop _ s.inAll s.children h.ever
        ((hk _ _).2) ?_ (by intro cs hp; exact hf cs hp _ _)
      intro top' work' tl' raised' hh
      rw [(hk _ _).1] at hh; cases hh
      constructor
      · intro x hx
        rcases hjt x hx with h1 | h1 | h1 | h1
        · simp only [List.mem_cons] at h1; rcases h1 with h1 | h1; cases h1; exact Or.inl h1
        · simp only [List.mem_cons] at h1; rcases h1 with h1 | h1; cases h1; exact Or.inr (Or.inl h1)
        · exact Or.inr (Or.inr (Or.inl h1))
        · exact Or.inr (Or.inr (Or.inr h1))
      · simpa [okJ] using hju
    | wait u =>
      simp only at hs
      split at hs
      · rename_i hst
        cases hs
        refine inv_call_update h t _ s.pstop s.joiner s.inAll s.children h.ever
          ((hk _ _).2) ?_ (by intro cs hp; exact hf cs hp _ _)
        intro top' work' tl' raised' hh
        rw [(hk _ _).1] at hh; cases hh
        constructor
        · intro x hx
          rcases hjt x hx with h1 | h1 | h1 | h1
          · simp only [List.mem_cons] at h1; rcases h1 with h1 | h1; cases h1; exact Or.inl h1
          · simp only [List.mem_cons] at h1
            rcases h1 with h1 | h1
            · cases h1; exact Or.inr (Or.inr (Or.inl hst))
            · exact Or.inr (Or.inl h1)
          · exact Or.inr (Or.inr (Or.inl h1))
          · exact Or.inr (Or.inr (Or.inr h1))
        · simp only [okJ] at hju; exact okJ_drop_stopped hst hju
      · split at hs
        · rename_i hst htl
          cases hs
          refine inv_call_update h t _ s.pstop s.joiner s.inAll s.children h.ever
            ((hk _ _).2) ?_ (by intro cs hp; exact hf cs hp _ _)
          intro top' work' tl' raised' hh
          rw [(hk _ _).1] at hh; cases hh
          constructor
          · intro x hx
            have hmf : ∀ a : JAct, a ∈ rest → a ≠ .unreg u → a ∈ rest.filter (· ≠ .unreg u) := by
              intro a ha hne; simp [List.mem_filter, ha, hne]
            rcases hjt x hx with h1 | h1 | h1 | h1
            · simp only [List.mem_cons] at h1; rcases h1 with h1 | h1; cases h1
              exact Or.inl (hmf _ h1 (by simp))
            · simp only [List.mem_cons] at h1
              rcases h1 with h1 | h1
              · cases h1; exact Or.inr (Or.inr (Or.inr ⟨htl, by simp⟩))
              · exact Or.inr (Or.inl (hmf _ h1 (by simp)))
            · exact Or.inr (Or.inr (Or.inl h1))
            · exact Or.inr (Or.inr (Or.inr ⟨h1.1, by simp [h1.2]⟩))
          · simp only [okJ] at hju
            exact okJ_filter (by intro y hy; simp at hy; exact Or.inl hy) hju
        · cases hs
    | unreg u =>
      cases hs
      simp only [okJ] at hju
      have hst : s.stopped u = true := by rcases hju.1 with h1 | h1; exact h1; cases h1
      refine inv_call_update h t _ s.pstop s.joiner s.inAll _ ?_
        ((hk _ _).2) ?_ (by intro cs hp; exact hf cs hp _ _)
      · intro p c hc
        rcases h.ever p c hc with h1 | h1
        · by_cases hp : p = s.parent u
          · subst hp
            rw [upd_same]
            by_cases hcu : c = u
            · subst hcu; exact Or.inr hst
            · exact Or.inl ((List.mem_erase_of_ne hcu).mpr h1)
          · rw [upd_other _ _ _ _ hp]; exact Or.inl h1
        · exact Or.inr h1
      · intro top' work' tl' raised' hh
        rw [(hk _ _).1] at hh; cases hh
        constructor
        · intro x hx
          rcases hjt x hx with h1 | h1 | h1 | h1
          · simp only [List.mem_cons] at h1; rcases h1 with h1 | h1; cases h1; exact Or.inl h1
          · simp only [List.mem_cons] at h1; rcases h1 with h1 | h1; cases h1; exact Or.inr (Or.inl h1)
          · exact Or.inr (Or.inr (Or.inl h1))
          · exact Or.inr (Or.inr (Or.inr h1))
        · exact hju.2
    | finish u cs =>
      cases hs
      refine inv_call_update h t _ s.pstop s.joiner s.inAll s.children h.ever
        ((hk _ _).2) ?_ (by intro cs hp; exact hf cs hp _ _)
      intro top' work' tl' raised' hh
      rw [(hk _ _).1] at hh; cases hh
      constructor
      · intro x hx
        rcases hjt x hx with h1 | h1 | h1 | h1
        · simp only [List.mem_cons] at h1; rcases h1 with h1 | h1; cases h1; exact Or.inl h1
        · simp only [List.mem_cons] at h1; rcases h1 with h1 | h1; cases h1; exact Or.inr (Or.inl h1)
        · exact Or.inr (Or.inr (Or.inl h1))
        · refine Or.inr (Or.inr (Or.inr ⟨h1.1, ?_⟩))
          split
          · split
            · exact h1.2
            · simp [h1.2]
          · exact h1.2
      · simpa [okJ] using hju

end MoThreads.ThreadTree
