import MoThreads.Proofs.TreeMain
namespace MoThreads.ThreadTree
set_option maxHeartbeats 4000000

theorem inv_step {s s' : State} {t : Nat} {l : Label} (h : Inv s) (hs : step s t = some (s', l)) : Inv s' := by
  cases hph : s.phase t with
  | absent => unfold step at hs; rw [hph] at hs; cases hs
  | dead => unfold step at hs; rw [hph] at hs; cases hs
  | created => exact step_created h hph hs
  | peek o => exact step_peek h hph hs
  | fin1 => exact step_fin1 h hph hs
  | fin4 cs => exact step_fin4 h hph hs
  | fin5 cs => exact step_fin5 h hph hs
  | fin6 cs => exact step_fin6 h hph hs
  | linger => exact step_linger h hph hs
  | running =>
    cases hc : s.call t with
    | idle r => unfold step at hs; rw [hph] at hs; simp only [hc] at hs; cases hs
    | spawn c => exact step_run_spawn h hph hc hs
    | releasing u => exact step_run_releasing h hph hc hs
    | stopping work =>
      cases work with
      | nil => exact step_run_stop_nil h hph hc hs
      | cons a rest =>
        unfold step at hs; rw [hph] at hs; simp only [hc] at hs
        exact inv_stepStop h (by intro w; simp [Call.jwork, Call.isSpawn]) (by intro cs hh; rw [hph] at hh; cases hh) hs
    | joining top work tl raised all =>
      cases work with
      | nil => exact step_run_join_nil h hph hc hs
      | cons a rest =>
        unfold step at hs; rw [hph] at hs; simp only [hc] at hs
        exact inv_stepJoin h (by simp [hc, Call.jwork]) (by intro w r; simp [Call.jwork, Call.isSpawn])
          (by intro cs hh; rw [hph] at hh; cases hh) hs
    | m0 => exact step_run_m0 h hph hc hs
    | m1 => exact step_run_m1 h hph hc hs
    | mS cs work =>
      cases work with
      | nil => exact step_run_mS_nil h hph hc hs
      | cons a rest =>
        unfold step at hs; rw [hph] at hs; simp only [hc] at hs
        exact inv_stepStop h (by intro w; simp [Call.jwork, Call.isSpawn]) (by intro cs' hh; rw [hph] at hh; cases hh) hs
    | mJ cs work raised =>
      cases work with
      | nil => exact step_run_mJ_nil h hph hc hs
      | cons a rest =>
        unfold step at hs; rw [hph] at hs; simp only [hc] at hs
        exact inv_stepJoin h (by simp [hc, Call.jwork]) (by intro w r; simp [Call.jwork, Call.isSpawn])
          (by intro cs' hh; rw [hph] at hh; cases hh) hs
    | m2 cs raised => exact step_run_m2 h hph hc hs
    | mRS cs raised res work =>
      cases work with
      | nil => exact step_run_mRS_nil h hph hc hs
      | cons a rest =>
        unfold step at hs; rw [hph] at hs; simp only [hc] at hs
        exact inv_stepStop h (by intro w; simp [Call.jwork, Call.isSpawn]) (by intro cs' hh; rw [hph] at hh; cases hh) hs
    | mRJ cs raised res work raised2 =>
      cases work with
      | nil => exact step_run_mRJ_nil h hph hc hs
      | cons a rest =>
        unfold step at hs; rw [hph] at hs; simp only [hc] at hs
        exact inv_stepJoin h (by simp [hc, Call.jwork]) (by intro w r; simp [Call.jwork, Call.isSpawn])
          (by intro cs' hh; rw [hph] at hh; cases hh) hs
  | fin2 cs =>
    cases hc : s.call t with
    | stopping work =>
      cases work with
      | nil => exact step_fin2_nil h hph hc hs
      | cons a rest =>
        unfold step at hs; rw [hph] at hs; simp only [hc] at hs
        exact inv_stepStop h (by intro w; simp [Call.jwork, Call.isSpawn]) (by intro cs' hh; rw [hph] at hh; cases hh) hs
    | _ => unfold step at hs; rw [hph] at hs; simp only [hc] at hs; cases hs
  | fin3 cs =>
    cases hc : s.call t with
    | joining top work tl raised all =>
      cases work with
      | nil => exact step_fin3_nil h hph hc hs
      | cons a rest =>
        unfold step at hs; rw [hph] at hs; simp only [hc] at hs
        obtain ⟨w0, r0, hcc⟩ := h.fin3C t cs hph
        rw [hc] at hcc; cases hcc
        exact inv_stepJoin h (by simp [hc, Call.jwork]) (by intro w r; simp [Call.jwork, Call.isSpawn])
          (by intro cs' hh w r; rw [hph] at hh; cases hh; exact ⟨_, _, rfl⟩) hs
    | _ => unfold step at hs; rw [hph] at hs; simp only [hc] at hs; cases hs

theorem inv_fireTill {s : State} (x : Nat) (h : Inv s) : Inv (fireTill s x) := by
  unfold fireTill
  obtain ⟨stP, outP, ever, finK, finD, jtop, jun, fin3C, spawnR, fresh, spawnC, spawnU⟩ := h
  refine ⟨stP, outP, ever, finK, finD, ?_, ?_, fin3C, spawnR, fresh, spawnC, spawnU⟩
  · intro t top work tl raised hw u hu
    rcases jtop t top work tl raised hw u hu with h1 | h1 | h1 | h1
    · exact Or.inl h1
    · exact Or.inr (Or.inl h1)
    · exact Or.inr (Or.inr (Or.inl h1))
    · right; right; right
      cases tl with
      | none => simp [tillOn] at h1
      | some y => simp only [tillOn, upd] at h1 ⊢; split <;> simp_all
  · intro t top work tl raised hw
    exact okJ_state_mono (s := s) (by intro y hy; exact hy) (jun t top work tl raised hw)

theorem inv_call {s s' : State} {t : Nat} {op : Op} (h : Inv s) (hc : call s t op = some s') : Inv s' := by
  unfold call at hc
  split at hc
  · rename_i r hph hcl
    cases op with
    | spawn =>
      cases hc
      have hfr := h.fresh s.nextId (Nat.le_refl _)
      topen
      case spawnR =>
        intro u hu
        by_cases hut : u = t
        · subst hut; exact hph
        · rw [upd_other _ _ _ _ hut] at hu; exact spawnR u hu
      case fresh => intro c hc'; exact fresh c (by omega)
      case spawnC =>
        intro u c hu
        by_cases hut : u = t
        · subst hut; rw [upd_same] at hu; cases hu; exact ⟨hfr, by omega⟩
        · rw [upd_other _ _ _ _ hut] at hu; have := spawnC u c hu; exact ⟨this.1, by omega⟩
      case spawnU =>
        intro u v c hu hv
        by_cases hut : u = t
        · subst hut; rw [upd_same] at hu; cases hu
          by_cases hvt : v = u
          · exact hvt.symm
          · rw [upd_other _ _ _ _ hvt] at hv; have := (spawnC v _ hv).2; omega
        · rw [upd_other _ _ _ _ hut] at hu
          by_cases hvt : v = t
          · subst hvt; rw [upd_same] at hv; cases hv; have := (spawnC u _ hu).2; omega
          · rw [upd_other _ _ _ _ hvt] at hv; exact spawnU u v c hu hv
      trest
    | spawnOrphan =>
      cases hc
      have hfr := h.fresh s.nextId (Nat.le_refl _)
      topen
      case spawnR =>
        intro u hu
        by_cases hut : u = t
        · subst hut; exact hph
        · rw [upd_other _ _ _ _ hut] at hu; exact spawnR u hu
      case fresh => intro c hc'; exact fresh c (by omega)
      case spawnC =>
        intro u c hu
        by_cases hut : u = t
        · subst hut; rw [upd_same] at hu; cases hu; exact ⟨hfr, by omega⟩
        · rw [upd_other _ _ _ _ hut] at hu; have := spawnC u c hu; exact ⟨this.1, by omega⟩
      case spawnU =>
        intro u v c hu hv
        by_cases hut : u = t
        · subst hut; rw [upd_same] at hu; cases hu
          by_cases hvt : v = u
          · exact hvt.symm
          · rw [upd_other _ _ _ _ hvt] at hv; have := (spawnC v _ hv).2; omega
        · rw [upd_other _ _ _ _ hut] at hu
          by_cases hvt : v = t
          · subst hvt; rw [upd_same] at hv; cases hv; have := (spawnC u _ hu).2; omega
          · rw [upd_other _ _ _ _ hvt] at hv; exact spawnU u v c hu hv
      trest
    | stop u =>
      cases hc
      exact inv_call_update h t _ s.pstop s.joiner s.inAll s.children h.ever (by simp [Call.isSpawn])
        (by intro top work tl raised hh; simp [Call.jwork] at hh) (by intro cs hh; rw [hph] at hh; cases hh)
    | join u tl =>
      cases hc
      refine inv_call_update h t _ s.pstop s.joiner s.inAll s.children h.ever (by simp [Call.isSpawn]) ?_
        (by intro cs hh; rw [hph] at hh; cases hh)
      intro top work tl' raised hh
      simp only [Call.jwork, Option.some.injEq, Prod.mk.injEq] at hh
      obtain ⟨rfl, rfl, rfl, rfl⟩ := hh
      exact ⟨by intro x hx; simp at hx; subst hx; left; simp, by simp [okJ]⟩
    | joinAll us tl =>
      cases hc
      refine inv_call_update h t _ s.pstop s.joiner s.inAll s.children h.ever (by simp [Call.isSpawn]) ?_
        (by intro cs hh; rw [hph] at hh; cases hh)
      intro top work tl' raised hh
      simp only [Call.jwork, Option.some.injEq, Prod.mk.injEq] at hh
      obtain ⟨rfl, rfl, rfl, rfl⟩ := hh
      exact ⟨by intro x hx; left; simp [hx], okJ_map_start _ _⟩
    | release u =>
      cases hc
      exact inv_call_update h t _ s.pstop s.joiner s.inAll s.children h.ever (by simp [Call.isSpawn])
        (by intro top work tl raised hh; simp [Call.jwork] at hh) (by intro cs hh; rw [hph] at hh; cases hh)
    | mainStop =>
      simp only at hc
      split at hc
      · cases hc
        exact inv_call_update h t _ s.pstop s.joiner s.inAll s.children h.ever (by simp [Call.isSpawn])
          (by intro top work tl raised hh; simp [Call.jwork] at hh) (by intro cs hh; rw [hph] at hh; cases hh)
      · cases hc
    | finish o =>
      simp only at hc
      split at hc
      · cases hc
      · cases hc
        have hns : (s.call t).isSpawn = false := by rw [hcl]; rfl
        cases o with
        | ok v => topen; trest
        | fail => topen; trest
  · cases hc

theorem inv_expire {s : State} (t : Nat) (h : Inv s) : Inv (expire s t) := by
  obtain ⟨stP, outP, ever, finK, finD, jtop, jun, fin3C, spawnR, fresh, spawnC, spawnU⟩ := h
  refine ⟨stP, outP, ever, finK, finD, ?_, ?_, fin3C, spawnR, fresh, spawnC, spawnU⟩
  · intro u top work tl raised hw x hx
    have := jtop u top work tl raised hw x hx
    cases tl <;> simpa [tillOn, expire] using this
  · intro u top work tl raised hw
    exact okJ_state_mono (s := s) (s' := expire s t) (fun x hx => hx) (jun u top work tl raised hw)

theorem reach_inv {s : State} (h : sys.Reach s) : Inv s := by
  refine Sys.Reach.invariant sys (P := Inv) ?_ ?_ ?_ h
  · rintro s rfl; exact inv_init
  · rintro s s' hi (⟨t, op, hc⟩ | ⟨x, rfl⟩ | ⟨t, rfl⟩)
    · exact inv_call hi hc
    · exact inv_fireTill x hi
    · exact inv_expire t hi
  · intro s s' t l hi hs; exact inv_step hi hs

end MoThreads.ThreadTree
