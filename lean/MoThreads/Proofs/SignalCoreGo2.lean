import MoThreads.Proofs.SignalCoreTac
namespace MoThreads.SignalCore
set_option maxHeartbeats 2000000

theorem step_g9 {s s' : State} {t : Nat} {l : Label} {js : List Nat} {ws : List Nat} (h : Inv s) (hp : s.pc t = .g9 js ws)
    (hs : step s t = some (s', l)) : Inv s' := by
  cases ws with
  | nil => step_at hp hs; cases hs
  | cons x ws' =>
    step_open
    rcases afterStoppers_cases js ws' with ⟨h1, h2, h3⟩ | ⟨h1, h2, h3⟩ | ⟨h1, h3⟩ <;> rw [h3] <;> inv_open
    all_goals (try (case noLost =>
      intro u y; have := noLost u y; have := win t
      rcases hw : s.winner with _ | g <;> simp only [hw] at * <;>
        grind [PC.isWinner, PC.pendingS, lst]))
    all_goals inv_rest

end MoThreads.SignalCore
