import MoThreads.Proofs.TillC_c1
namespace MoThreads.Till
set_option maxHeartbeats 4000000

theorem stepC_c2 {s s' : State} {t : Nat} {l : Label} {d : Int} {id : Nat} (h : Inv s) (ht : t ≠ 0) (hp : s.cpc t = .c2 d id)
    (hs : stepC s t = some (s', l)) : Inv s' := by
  unfold stepC at hs; rw [hp] at hs; simp only at hs
  first
  | (cases hs; ccase)
  | (split at hs <;> first | (cases hs; done) | (cases hs; ccase))

end MoThreads.Till
