/-
  Inductive invariant of M10 (Model/PyProxy.lean).
-/
import MoThreads.Model.PyProxy
namespace MoThreads.PyProxy
set_option maxHeartbeats 1000000

def CPC.inCrit : CPC → Bool
  | .idle _ | .c0 _ => false
  | _ => true

/-- nothing is in flight between the proxy and the worker -/
def PipeEmpty (s : State) : Prop := s.inQ = [] ∧ s.wpc = .w0 ∧ s.outQ = [] ∧ s.rpc = .r0

/-- the shared slot holds the answer to `t`'s request -/
def Answered (s : State) (t : Nat) : Prop :=
  match s.want t with
  | .out v => s.error = false ∧ s.response = v
  | .err => s.error = true
  | .log => False

/-- the outcome `r` of a call is the one the worker's answer `w` dictates -/
def Good (w : Reply) (r : Ret) : Prop :=
  match w with
  | .out v => r = .value v
  | .err => r = .raised
  | .log => False

def QOk (s : State) (t : Nat) (q : Req) : Prop := q.owner = t ∧ q.ans = s.want t ∧ s.want t ≠ .log

def Fresh (s : State) (k : Nat) : Prop := s.done = .sig k ∧ k < s.nextSig ∧ s.fired k = false ∧ PipeEmpty s

def Clean (s : State) : Prop := s.fired = s.fired ∧ s.error = false ∧ s.response = none

/-- where the request of the waiting caller `t` is -/
def Phase (s : State) (t k : Nat) : Prop :=
  s.done = .sig k ∧ k < s.nextSig ∧ s.want t ≠ .log ∧
  ( (∃ wl, s.inQ = [⟨t, s.want t, wl⟩] ∧ s.wpc = .w0 ∧ s.outQ = [] ∧ s.rpc = .r0 ∧ s.fired k = false ∧ s.error = false ∧ s.response = none)
  ∨ (∃ wl, s.inQ = [] ∧ s.wpc = .w1 ⟨t, s.want t, wl⟩ ∧ s.outQ = [] ∧ s.rpc = .r0 ∧ s.fired k = false ∧ s.error = false ∧ s.response = none)
  ∨ (s.inQ = [] ∧ s.wpc = .w0 ∧ (s.outQ = [s.want t] ∨ s.outQ = [.log, s.want t]) ∧ s.rpc = .r0 ∧ s.fired k = false ∧ s.error = false ∧ s.response = none)
  ∨ (s.inQ = [] ∧ s.wpc = .w0 ∧ s.outQ = [] ∧ ((∃ v, s.want t = .out v ∧ s.rpc = .r1 v) ∨ (s.want t = .err ∧ s.rpc = .e1)) ∧ s.fired k = false ∧ s.error = false ∧ s.response = none)
  ∨ (s.inQ = [] ∧ s.wpc = .w0 ∧ s.outQ = [] ∧ s.rpc = .r2 ∧ s.fired k = false ∧ Answered s t)
  ∨ (PipeEmpty s ∧ s.fired k = true ∧ Answered s t) )

def Local (s : State) (t : Nat) : Prop :=
  match s.cpc t with
  | .idle r => r = .none ∨ Good (s.want t) r
  | .c0 q => QOk s t q
  | .c1 q => QOk s t q ∧ PipeEmpty s
  | .c2 q k => QOk s t q ∧ Fresh s k
  | .c3 q k => QOk s t q ∧ Fresh s k ∧ s.response = none
  | .c4 q k => QOk s t q ∧ Fresh s k ∧ s.response = none ∧ s.error = false
  | .c5 k => Phase s t k
  | .c6 => PipeEmpty s ∧ Answered s t
  | .c6b => PipeEmpty s ∧ s.want t = .err
  | .c7 => PipeEmpty s ∧ ∃ v, s.want t = .out v ∧ s.response = v
  | .c8 r => PipeEmpty s ∧ Good (s.want t) r
  | .c9 r => PipeEmpty s ∧ Good (s.want t) r
  | .c10 r => PipeEmpty s ∧ Good (s.want t) r
  | .c11 r => PipeEmpty s ∧ Good (s.want t) r

structure Inv (s : State) : Prop where
  ME : ∀ u, (s.cpc u).inCrit = true → s.lock = some u
  LK : ∀ u, s.lock = some u → (s.cpc u).inCrit = true
  NL : s.lock = none → PipeEmpty s
  F  : ∀ j, s.nextSig ≤ j → s.fired j = false
  T  : ∀ u, u < 2 → s.cpc u = .idle .none
  L  : ∀ u, Local s u

theorem inv_init : Inv init := by
  constructor <;> simp [init, CPC.inCrit, PipeEmpty, Local]

/-- a thread outside its critical section is untouched by changes to the shared slot and the pipeline -/
theorem local_outside {s s' : State} {u : Nat} (hc : s'.cpc u = s.cpc u) (hw : s'.want u = s.want u)
    (hn : (s.cpc u).inCrit = false) (h : Local s u) : Local s' u := by
  unfold Local at h ⊢
  rw [hc, hw]
  cases hp : s.cpc u <;> rw [hp] at h hn <;> simp [CPC.inCrit] at hn <;> simpa [QOk, hw] using h

theorem inv_call {s s' : State} {t : Nat} {ans : Reply} {wl : Bool} (h : Inv s) (hc : call s t ans wl = some s') : Inv s' := by
  obtain ⟨ME, LK, NL, F, T, L⟩ := h
  unfold call at hc
  split at hc
  · cases hc
  rename_i ht
  split at hc
  · cases hc
  rename_i hne
  split at hc
  · rename_i r hidle
    cases hc
    refine ⟨?_, ?_, ?_, F, ?_, ?_⟩
    · intro u hu
      by_cases hut : u = t
      · subst hut; simp [State.setC, CPC.inCrit] at hu
      · simp only [State.setC, hut, if_false] at hu; exact ME u hu
    · intro u hu
      by_cases hut : u = t
      · subst hut; have := LK u hu; rw [hidle] at this; simp [CPC.inCrit] at this
      · simp only [State.setC, hut, if_false]; exact LK u hu
    · intro hl; exact NL hl
    · intro u hu
      have hut : u ≠ t := by omega
      simp only [State.setC, hut, if_false]; exact T u hu
    · intro u
      by_cases hut : u = t
      · subst hut
        simp only [Local, State.setC, if_true, QOk, true_and]
        exact hne
      · have hl := L u
        by_cases hcr : (s.cpc u).inCrit = true
        · -- u holds the lock; its facts only mention want u and the shared state
          unfold Local at hl ⊢
          simp only [State.setC, hut, if_false]
          cases hp : s.cpc u <;> rw [hp] at hl <;> simp only [] at hl ⊢ <;>
            simpa [QOk, Fresh, PipeEmpty, Phase, Answered, hut] using hl
        · exact local_outside (by simp [State.setC, hut]) (by simp [State.setC, hut]) (by simpa using hcr) hl
  · cases hc

theorem stepR_none_of_empty {s : State} (h : PipeEmpty s) : stepR s = none := by
  obtain ⟨_, _, h3, h4⟩ := h
  simp [stepR, h3, h4]

theorem stepW_none_of_empty {s : State} (h : PipeEmpty s) : stepW s = none := by
  obtain ⟨h1, h2, _, _⟩ := h
  simp [stepW, h1, h2]

/-- whenever the reader or the worker can move, some caller holds the lock and waits for its answer -/
theorem holder_of_busy {s : State} (h : Inv s) (hb : ¬ PipeEmpty s) : ∃ t k, s.lock = some t ∧ s.cpc t = .c5 k ∧ Phase s t k := by
  cases hl : s.lock with
  | none => exact absurd (h.NL hl) hb
  | some t =>
    have hc := h.LK t hl
    have hL := h.L t
    unfold Local at hL
    cases hp : s.cpc t <;> rw [hp] at hL hc <;> simp only [CPC.inCrit] at hc hL
    all_goals (first | (cases hc; done) | skip)
    all_goals (first | exact ⟨t, _, hl, hp, hL⟩ | exact ⟨t, _, rfl, hp, hL⟩ | (exfalso; apply hb; (try unfold Fresh at hL); grind))

theorem phase_stepR {s s' : State} {l : Label} {t k : Nat} (h : Phase s t k) (hs : stepR s = some (s', l)) : Phase s' t k := by
  obtain ⟨hd, hk, hw, hph⟩ := h
  unfold stepR at hs
  rcases hph with ⟨wl, h1, h2, h3, h4, h5, h6, h7⟩ | ⟨wl, h1, h2, h3, h4, h5, h6, h7⟩ | ⟨h1, h2, h3, h4, h5, h6, h7⟩ | ⟨h1, h2, h3, h4, h5, h6, h7⟩ | ⟨h1, h2, h3, h4, h5, h6⟩ | ⟨⟨h1, h2, h3, h4⟩, h5, h6⟩
  · simp [h4, h3] at hs
  · simp [h4, h3] at hs
  · rw [h4] at hs; simp only at hs
    rcases h3 with h3 | h3
    · rw [h3] at hs
      cases hwt : s.want t <;> rw [hwt] at hs <;> simp only at hs
      · cases hs
        refine ⟨hd, hk, hw, Or.inr (Or.inr (Or.inr (Or.inl ⟨h1, h2, rfl, Or.inl ⟨_, hwt, rfl⟩, h5, h6, h7⟩)))⟩
      · cases hs
        refine ⟨hd, hk, hw, Or.inr (Or.inr (Or.inr (Or.inl ⟨h1, h2, rfl, Or.inr ⟨hwt, rfl⟩, h5, h6, h7⟩)))⟩
      · exact absurd hwt hw
    · rw [h3] at hs; simp only at hs
      cases hs
      exact ⟨hd, hk, hw, Or.inr (Or.inr (Or.inl ⟨h1, h2, Or.inl rfl, rfl, h5, h6, h7⟩))⟩
  · rcases h4 with ⟨v, hwt, hr⟩ | ⟨hwt, hr⟩
    · rw [hr] at hs; simp only at hs; cases hs
      refine ⟨hd, hk, hw, Or.inr (Or.inr (Or.inr (Or.inr (Or.inl ⟨h1, h2, h3, rfl, h5, ?_⟩))))⟩
      simp [Answered, hwt, h6]
    · rw [hr] at hs; simp only at hs; cases hs
      refine ⟨hd, hk, hw, Or.inr (Or.inr (Or.inr (Or.inr (Or.inl ⟨h1, h2, h3, rfl, h5, ?_⟩))))⟩
      simp [Answered, hwt]
  · rw [h4, hd] at hs; simp only at hs; cases hs
    refine ⟨rfl, hk, hw, Or.inr (Or.inr (Or.inr (Or.inr (Or.inr ⟨⟨h1, h2, h3, rfl⟩, by simp, ?_⟩))))⟩
    simpa [Answered] using h6
  · simp [h4, h3] at hs

theorem phase_stepW {s s' : State} {l : Label} {t k : Nat} (h : Phase s t k) (hs : stepW s = some (s', l)) : Phase s' t k := by
  obtain ⟨hd, hk, hw, hph⟩ := h
  unfold stepW at hs
  rcases hph with ⟨wl, h1, h2, h3, h4, h5, h6, h7⟩ | ⟨wl, h1, h2, h3, h4, h5, h6, h7⟩ | ⟨h1, h2, h3, h4, h5, h6, h7⟩ | ⟨h1, h2, h3, h4, h5, h6, h7⟩ | ⟨h1, h2, h3, h4, h5, h6⟩ | ⟨⟨h1, h2, h3, h4⟩, h5, h6⟩
  · rw [h2, h1] at hs; simp only at hs; cases hs
    exact ⟨hd, hk, hw, Or.inr (Or.inl ⟨wl, rfl, rfl, h3, h4, h5, h6, h7⟩)⟩
  · rw [h2] at hs; simp only at hs; cases hs
    refine ⟨hd, hk, hw, Or.inr (Or.inr (Or.inl ⟨h1, rfl, ?_, h4, h5, h6, h7⟩))⟩
    cases wl <;> simp [h3]
  all_goals simp [h1, h2] at hs

theorem stepR_frame {s s' : State} {l : Label} (hs : stepR s = some (s', l)) :
    s'.cpc = s.cpc ∧ s'.lock = s.lock ∧ s'.want = s.want ∧ s'.nextSig = s.nextSig ∧ (∀ j, s'.fired j = true → s.fired j = true ∨ s.done = .sig j) := by
  unfold stepR at hs
  cases hr : s.rpc <;> rw [hr] at hs <;> simp only at hs
  · cases ho : s.outQ with
    | nil => rw [ho] at hs; cases hs
    | cons x r => rw [ho] at hs; cases x <;> simp only at hs <;> cases hs <;> simp <;> (intro j hj; exact Or.inl hj)
  · cases hs; simp; intro j hj; exact Or.inl hj
  · cases hs; simp; intro j hj; exact Or.inl hj
  · cases hd : s.done with
    | DONE => rw [hd] at hs; simp only at hs; cases hs; refine ⟨rfl, rfl, rfl, rfl, fun j hj => Or.inl hj⟩
    | sig k =>
      rw [hd] at hs; simp only at hs; cases hs
      refine ⟨rfl, rfl, rfl, rfl, fun j hj => ?_⟩
      by_cases hjk : j = k
      · right; rw [hjk]
      · left; simpa [hjk] using hj

theorem stepW_frame {s s' : State} {l : Label} (hs : stepW s = some (s', l)) :
    s'.cpc = s.cpc ∧ s'.lock = s.lock ∧ s'.want = s.want ∧ s'.nextSig = s.nextSig ∧ s'.fired = s.fired := by
  unfold stepW at hs
  cases hr : s.wpc <;> rw [hr] at hs <;> simp only at hs
  · cases ho : s.inQ with
    | nil => rw [ho] at hs; cases hs
    | cons x r => rw [ho] at hs; cases hs; simp
  · cases hs; simp

/-- common part: a move of the reader or the worker, given what it leaves unchanged -/
theorem inv_pipe_step {s s' : State} (h : Inv s) (hb : ¬ PipeEmpty s)
    (hc : s'.cpc = s.cpc) (hl : s'.lock = s.lock) (hw : s'.want = s.want) (hn : s'.nextSig = s.nextSig)
    (hf : ∀ j, s'.fired j = true → s.fired j = true ∨ s.done = .sig j)
    (hph : ∀ t k, Phase s t k → Phase s' t k) : Inv s' := by
  obtain ⟨t, k, hlk, hpc, hP⟩ := holder_of_busy h hb
  obtain ⟨ME, LK, NL, F, T, L⟩ := h
  refine ⟨?_, ?_, ?_, ?_, ?_, ?_⟩
  · intro u hu; rw [hc] at hu; rw [hl]; exact ME u hu
  · intro u hu; rw [hl] at hu; rw [hc]; exact LK u hu
  · intro hn'; rw [hl, hlk] at hn'; cases hn'
  · intro j hj
    rw [hn] at hj
    cases hfj : s'.fired j with
    | false => rfl
    | true =>
      rcases hf j hfj with h1 | h1
      · rw [F j hj] at h1; cases h1
      · have := hP.1; rw [h1] at this; cases this; have := hP.2.1; omega
  · intro u hu; rw [hc]; exact T u hu
  · intro u
    by_cases hut : u = t
    · subst hut
      have := hph u k hP
      unfold Local; rw [hc, hpc]; exact this
    · have hncr : (s.cpc u).inCrit = false := by
        cases hcr : (s.cpc u).inCrit with
        | false => rfl
        | true => have := ME u hcr; rw [hlk] at this; cases this; exact absurd rfl hut
      exact local_outside (by rw [hc]) (by rw [hw]) hncr (L u)

theorem inv_stepR {s s' : State} {l : Label} (h : Inv s) (hs : stepR s = some (s', l)) : Inv s' := by
  have hb : ¬ PipeEmpty s := fun he => by rw [stepR_none_of_empty he] at hs; cases hs
  obtain ⟨h1, h2, h3, h4, h5⟩ := stepR_frame hs
  exact inv_pipe_step h hb h1 h2 h3 h4 h5 (fun t k hp => phase_stepR hp hs)

theorem inv_stepW {s s' : State} {l : Label} (h : Inv s) (hs : stepW s = some (s', l)) : Inv s' := by
  have hb : ¬ PipeEmpty s := fun he => by rw [stepW_none_of_empty he] at hs; cases hs
  obtain ⟨h1, h2, h3, h4, h5⟩ := stepW_frame hs
  exact inv_pipe_step h hb h1 h2 h3 h4 (fun j hj => Or.inl (by rw [h5] at hj; exact hj)) (fun t k hp => phase_stepW hp hs)

theorem others_out {s : State} (h : Inv s) {t : Nat} (hx : (s.cpc t).inCrit = true ∨ s.lock = none) :
    ∀ u, u ≠ t → (s.cpc u).inCrit = false := by
  intro u hut
  cases hcr : (s.cpc u).inCrit with
  | false => rfl
  | true =>
    have h1 := h.ME u hcr
    rcases hx with hx | hx
    · have h2 := h.ME t hx; rw [h1] at h2; cases h2; exact absurd rfl hut
    · rw [hx] at h1; cases h1

theorem inv_stepC_core {s s' : State} {t : Nat} {p' : CPC} (h : Inv s) (ht : 2 ≤ t)
    (hout : ∀ u, u ≠ t → (s.cpc u).inCrit = false)
    (hc : s'.cpc = fun u => if u = t then p' else s.cpc u) (hw : s'.want = s.want)
    (hlock : s'.lock = if p'.inCrit = true then some t else none)
    (hF : ∀ j, s'.nextSig ≤ j → s'.fired j = false)
    (hNL : p'.inCrit = false → PipeEmpty s')
    (hL : Local s' t) : Inv s' := by
  obtain ⟨ME, LK, NL, F, T, L⟩ := h
  refine ⟨?_, ?_, ?_, hF, ?_, ?_⟩
  · intro u hu
    by_cases hut : u = t
    · subst hut; simp only [hc, if_true] at hu; simp [hlock, hu]
    · simp only [hc, hut, if_false] at hu; rw [hout u hut] at hu; cases hu
  · intro u hu
    rw [hlock] at hu
    split at hu
    · cases hu; simp only [hc, if_true]; assumption
    · cases hu
  · intro hn
    rw [hlock] at hn
    split at hn
    · cases hn
    · apply hNL; rename_i hh; simpa using hh
  · intro u hu
    have hut : u ≠ t := by omega
    simp only [hc, hut, if_false]; exact T u hu
  · intro u
    by_cases hut : u = t
    · subst hut; exact hL
    · exact local_outside (by simp [hc, hut]) (by rw [hw]) (hout u hut) (L u)

theorem pipeEmpty_congr {s s' : State} (h : PipeEmpty s) (h1 : s'.inQ = s.inQ) (h2 : s'.wpc = s.wpc) (h3 : s'.outQ = s.outQ) (h4 : s'.rpc = s.rpc) :
    PipeEmpty s' := by
  unfold PipeEmpty at *; rw [h1, h2, h3, h4]; exact h

theorem inv_stepC {s s' : State} {t : Nat} {l : Label} (h : Inv s) (ht : 2 ≤ t) (hs : stepC s t = some (s', l)) : Inv s' := by
  have hLt := h.L t
  unfold stepC at hs
  unfold Local at hLt
  cases hp : s.cpc t with
  | idle r => rw [hp] at hs; cases hs
  | c0 q =>
    rw [hp] at hs hLt; simp only at hs hLt
    split at hs
    · rename_i hln
      cases hs
      have hpe := h.NL hln
      refine inv_stepC_core (p' := .c1 q) h ht (others_out h (Or.inr hln)) rfl rfl (by simp [State.setC, CPC.inCrit]) h.F (by simp [CPC.inCrit]) ?_
      simp only [Local, State.setC, if_true]
      exact ⟨hLt, hpe⟩
    · cases hs
  | c1 q =>
    rw [hp] at hs hLt; simp only at hs hLt; cases hs
    have hcr : (s.cpc t).inCrit = true := by rw [hp]; rfl
    have hlk := h.ME t hcr
    refine inv_stepC_core (p' := .c2 q s.nextSig) h ht (others_out h (Or.inl hcr)) rfl rfl (by simp [State.setC, CPC.inCrit, hlk]) ?_ (by simp [CPC.inCrit]) ?_
    · intro j hj; simp only [State.setC] at hj ⊢; exact h.F j (by omega)
    · simp only [Local, State.setC, if_true]
      refine ⟨hLt.1, rfl, by simp, h.F _ (Nat.le_refl _), hLt.2⟩
  | c2 q k =>
    rw [hp] at hs hLt; simp only at hs hLt; cases hs
    have hcr : (s.cpc t).inCrit = true := by rw [hp]; rfl
    have hlk := h.ME t hcr
    refine inv_stepC_core (p' := .c3 q k) h ht (others_out h (Or.inl hcr)) rfl rfl (by simp [State.setC, CPC.inCrit, hlk]) h.F (by simp [CPC.inCrit]) ?_
    simp only [Local, State.setC, if_true]
    exact ⟨hLt.1, hLt.2, trivial⟩
  | c3 q k =>
    rw [hp] at hs hLt; simp only at hs hLt; cases hs
    have hcr : (s.cpc t).inCrit = true := by rw [hp]; rfl
    have hlk := h.ME t hcr
    refine inv_stepC_core (p' := .c4 q k) h ht (others_out h (Or.inl hcr)) rfl rfl (by simp [State.setC, CPC.inCrit, hlk]) h.F (by simp [CPC.inCrit]) ?_
    simp only [Local, State.setC, if_true]
    exact ⟨hLt.1, hLt.2.1, hLt.2.2, trivial⟩
  | c4 q k =>
    rw [hp] at hs hLt; simp only at hs hLt; cases hs
    have hcr : (s.cpc t).inCrit = true := by rw [hp]; rfl
    have hlk := h.ME t hcr
    refine inv_stepC_core (p' := .c5 k) h ht (others_out h (Or.inl hcr)) rfl rfl (by simp [State.setC, CPC.inCrit, hlk]) h.F (by simp [CPC.inCrit]) ?_
    simp only [Local, State.setC, if_true]
    obtain ⟨⟨hq1, hq2, hq3⟩, ⟨hd, hk, hf, he1, he2, he3, he4⟩, hr, he⟩ := hLt
    refine ⟨hd, hk, hq3, Or.inl ⟨q.withLog, ?_, he2, he3, he4, hf, he, hr⟩⟩
    show s.inQ ++ [q] = [⟨t, s.want t, q.withLog⟩]
    rw [he1, ← hq2, ← hq1]; rfl
  | c5 k =>
    rw [hp] at hs hLt; simp only at hs hLt
    split at hs
    · rename_i hfk
      cases hs
      have hcr : (s.cpc t).inCrit = true := by rw [hp]; rfl
      have hlk := h.ME t hcr
      refine inv_stepC_core (p' := .c6) h ht (others_out h (Or.inl hcr)) rfl rfl (by simp [State.setC, CPC.inCrit, hlk]) h.F (by simp [CPC.inCrit]) ?_
      simp only [Local, State.setC, if_true]
      obtain ⟨_, _, _, hph⟩ := hLt
      rcases hph with ⟨_, _, _, _, _, h5, _⟩ | ⟨_, _, _, _, _, h5, _⟩ | ⟨_, _, _, _, h5, _⟩ | ⟨_, _, _, _, h5, _⟩ | ⟨_, _, _, _, h5, _⟩ | ⟨h1, _, h3⟩
      all_goals (first | (rw [hfk] at h5; cases h5; done) | exact ⟨h1, h3⟩)
    · cases hs
  | c6 =>
    rw [hp] at hs hLt; simp only at hs hLt; cases hs
    have hcr : (s.cpc t).inCrit = true := by rw [hp]; rfl
    have hlk := h.ME t hcr
    cases he : s.error with
    | true =>
      refine inv_stepC_core (p' := .c6b) h ht (others_out h (Or.inl hcr)) (by simp [State.setC, he]) rfl (by simp [State.setC, CPC.inCrit, hlk]) h.F (by simp [CPC.inCrit]) ?_
      simp only [Local, State.setC, if_true, he]
      refine ⟨hLt.1, ?_⟩
      have ha := hLt.2
      unfold Answered at ha
      cases hwt : s.want t <;> rw [hwt] at ha <;> simp_all
    | false =>
      refine inv_stepC_core (p' := .c7) h ht (others_out h (Or.inl hcr)) (by simp [State.setC, he]) rfl (by simp [State.setC, CPC.inCrit, hlk]) h.F (by simp [CPC.inCrit]) ?_
      simp only [Local, State.setC, if_true, he]
      refine ⟨hLt.1, ?_⟩
      have ha := hLt.2
      unfold Answered at ha
      cases hwt : s.want t <;> rw [hwt] at ha <;> simp_all
  | c6b =>
    rw [hp] at hs hLt; simp only at hs hLt; cases hs
    have hcr : (s.cpc t).inCrit = true := by rw [hp]; rfl
    have hlk := h.ME t hcr
    refine inv_stepC_core (p' := .c8 .raised) h ht (others_out h (Or.inl hcr)) rfl rfl (by simp [State.setC, CPC.inCrit, hlk]) h.F (by simp [CPC.inCrit]) ?_
    simp only [Local, State.setC, if_true]
    exact ⟨hLt.1, by rw [hLt.2]; rfl⟩
  | c7 =>
    rw [hp] at hs hLt; simp only at hs hLt; cases hs
    have hcr : (s.cpc t).inCrit = true := by rw [hp]; rfl
    have hlk := h.ME t hcr
    refine inv_stepC_core (p' := .c8 (.value s.response)) h ht (others_out h (Or.inl hcr)) rfl rfl (by simp [State.setC, CPC.inCrit, hlk]) h.F (by simp [CPC.inCrit]) ?_
    simp only [Local, State.setC, if_true]
    obtain ⟨h1, v, h2, h3⟩ := hLt
    exact ⟨h1, by rw [h2, h3]; rfl⟩
  | c8 r =>
    rw [hp] at hs hLt; simp only at hs hLt; cases hs
    have hcr : (s.cpc t).inCrit = true := by rw [hp]; rfl
    have hlk := h.ME t hcr
    refine inv_stepC_core (p' := .c9 r) h ht (others_out h (Or.inl hcr)) rfl rfl (by simp [State.setC, CPC.inCrit, hlk]) h.F (by simp [CPC.inCrit]) ?_
    simp only [Local, State.setC, if_true]
    exact ⟨hLt.1, hLt.2⟩
  | c9 r =>
    rw [hp] at hs hLt; simp only at hs hLt; cases hs
    have hcr : (s.cpc t).inCrit = true := by rw [hp]; rfl
    have hlk := h.ME t hcr
    refine inv_stepC_core (p' := .c10 r) h ht (others_out h (Or.inl hcr)) rfl rfl (by simp [State.setC, CPC.inCrit, hlk]) h.F (by simp [CPC.inCrit]) ?_
    simp only [Local, State.setC, if_true]
    exact ⟨hLt.1, hLt.2⟩
  | c10 r =>
    rw [hp] at hs hLt; simp only at hs hLt; cases hs
    have hcr : (s.cpc t).inCrit = true := by rw [hp]; rfl
    have hlk := h.ME t hcr
    refine inv_stepC_core (p' := .c11 r) h ht (others_out h (Or.inl hcr)) rfl rfl (by simp [State.setC, CPC.inCrit, hlk]) h.F (by simp [CPC.inCrit]) ?_
    simp only [Local, State.setC, if_true]
    exact ⟨hLt.1, hLt.2⟩
  | c11 r =>
    rw [hp] at hs hLt; simp only at hs hLt; cases hs
    have hcr : (s.cpc t).inCrit = true := by rw [hp]; rfl
    refine inv_stepC_core (p' := .idle r) h ht (others_out h (Or.inl hcr)) rfl rfl (by simp [State.setC, CPC.inCrit]) h.F (fun _ => hLt.1) ?_
    simp only [Local, State.setC, if_true]
    exact Or.inr hLt.2

theorem inv_step {s s' : State} {t : Nat} {l : Label} (h : Inv s) (hs : step s t = some (s', l)) : Inv s' := by
  unfold step at hs
  split at hs
  · exact inv_stepR h hs
  · split at hs
    · exact inv_stepW h hs
    · exact inv_stepC h (by omega) hs

theorem reach_inv {s : State} (h : sys.Reach s) : Inv s := by
  refine Sys.Reach.invariant sys (P := Inv) ?_ ?_ ?_ h
  · intro s hi; cases hi; exact inv_init
  · intro s s' hi ⟨t, ans, wl, hc⟩; exact inv_call hi hc
  · intro s s' t l hi hs; exact inv_step hi hs
