import MoThreads.Proofs.TillTac
namespace MoThreads.Till
set_option maxHeartbeats 4000000

theorem stepD_d5 {s s' : State} {l : Label} {n : Int} (h : Inv s) (hp : s.dpc = .d5 n)
    (hs : stepD s = some (s', l)) : Inv s' := by
  unfold stepD at hs; rw [hp] at hs; simp only at hs
  first
  | (cases hs; dcase)
  | (split at hs <;> first | (cases hs; done) | (cases hs; dcase))

end MoThreads.Till
