/-
  Inductive invariant of M1 (SignalCore): definitions.  Preservation is proved case by case in
  SignalCoreSteps.lean; the property theorems are in Props.lean.
-/
import MoThreads.Model.SignalCore
namespace MoThreads.SignalCore

/-- pcs at which the thread holds `self.lock` -/
def PC.holds : PC → Bool
  | .w2 | .w2r | .w3 | .w4 _ | .w5n _ | .w5a _ | .w6 _ => true
  | .g2 | .g2r | .g3 | .g4 => true
  | .t2 _ | .t3 _ | .t4n _ | .t4a _ | .t5 _ | .t6 _ => true
  | .r2 _ | .r3 _ | .r4 _ | .r5 _ | .r6 => true
  | _ => false

/-- pcs that can only be reached after having seen (or made) the flag true -/
def PC.sawGo : PC → Bool
  | .idle .waitTrue | .idle (.boolV true) => true
  | .w2r | .g2r | .t6 _ | .t7 _ | .t8 _ => true
  | .g4 | .g5 | .g6 _ | .g7 _ | .g8 _ _ | .g9 _ _ | .g10 _ | .g11 _ _ => true
  | _ => false

/-- pcs inside the lock after a locked test saw the flag false -/
def PC.preSet : PC → Bool
  | .w3 | .w4 _ | .w5n _ | .w5a _ | .w6 _ => true
  | .g3 => true
  | .t3 _ | .t4n _ | .t4a _ | .t5 _ => true
  | .r3 _ | .r4 _ | .r5 _ => true
  | _ => false

/-- winner has not yet detached `waiting_threads` -/
def PC.preDetachW : PC → Bool
  | .g4 | .g5 | .g6 _ | .g7 _ | .g8 _ _ => true
  | _ => false

/-- winner has not yet detached `job_queue` -/
def PC.preDetachJ : PC → Bool
  | .g4 | .g5 | .g6 _ => true
  | _ => false

/-- stoppers the winner has detached and not yet released -/
def PC.pendingS : PC → List Nat
  | .g8 _ ws | .g9 _ ws => ws
  | _ => []

/-- callbacks the winner has detached and not yet run -/
def PC.pendingJ : PC → List Nat
  | .g7 js | .g8 js _ | .g9 js _ | .g10 js | .g11 _ js => js
  | _ => []

/-- the stopper a waiting thread owns -/
def PC.stopper : PC → Option Nat
  | .w4 x | .w5n x | .w5a x | .w6 x | .w7 x => some x
  | _ => none

/-- then(k) in progress, k neither queued nor run yet -/
def PC.thenK : PC → Option Nat
  | .t1 k | .t2 k | .t3 k | .t4n k | .t4a k | .t6 k | .t7 k => some k
  | _ => none

/-- k's callback raised, handler pending -/
def PC.errK : PC → Option Nat
  | .g11 k _ | .t8 k => some k
  | _ => none

/-- the pc of the publishing thread (or idle when there is none) -/
def State.winPC (s : State) : PC :=
  match s.winner with
  | some g => s.pc g
  | none => .idle .none

theorem lst_eq_nil_of_falsy {w : Option (List Nat)} (h : truthy w = false) : lst w = [] := by
  cases w with
  | none => rfl
  | some l => cases l <;> simp_all [truthy, lst]

theorem truthy_iff {w : Option (List Nat)} : truthy w = true ↔ lst w ≠ [] := by
  cases w with
  | none => simp [truthy, lst]
  | some l => cases l <;> simp [truthy, lst]

theorem PC.preSet_holds (p : PC) (h : p.preSet = true) : p.holds = true := by
  cases p <;> simp_all [PC.preSet, PC.holds]

theorem PC.isWinner_sawGo (p : PC) (h : p.isWinner = true) : p.sawGo = true := by
  cases p <;> simp_all [PC.isWinner, PC.sawGo]

theorem afterJob_cases (js : List Nat) :
    (js = [] ∧ afterJob js = .idle .goSelf) ∨ (js ≠ [] ∧ afterJob js = .g10 js) := by
  unfold afterJob; split <;> simp_all

theorem afterStoppers_cases (js ws : List Nat) :
    (ws = [] ∧ js = [] ∧ afterStoppers js ws = .idle .goSelf) ∨
    (ws = [] ∧ js ≠ [] ∧ afterStoppers js ws = .g10 js) ∨
    (ws ≠ [] ∧ afterStoppers js ws = .g9 js ws) := by
  unfold afterStoppers afterJob; split <;> (try split) <;> simp_all

structure Inv (s : State) : Prop where
  mutex   : ∀ t, (s.pc t).holds = true ↔ s.lock = some t
  sawGo   : ∀ t, (s.pc t).sawGo = true → s.go = true
  preSet  : ∀ t, (s.pc t).preSet = true → s.go = false
  win     : ∀ t, (s.pc t).isWinner = true ↔ s.winner = some t
  unl     : ∀ x, s.unlocked x = true → s.go = true
  freshW  : ∀ x, x ∈ lst s.waiting → x < s.nextSid
  freshP  : ∀ t x, (s.pc t).stopper = some x → x < s.nextSid
  snapW   : ∀ t js ws, s.pc t = .g8 js ws → ws = lst s.waiting
  snapJ   : ∀ t js, s.pc t = .g6 js → js = lst s.jobs
  liveW   : truthy s.waiting = true → s.go = false ∨ s.winPC.preDetachW = true
  liveJ   : truthy s.jobs = true → s.go = false ∨ s.winPC.preDetachJ = true
  noLost  : ∀ t x, (s.pc t = .w6 x ∨ s.pc t = .w7 x) →
              s.unlocked x = true ∨ x ∈ lst s.waiting ∨ x ∈ s.winPC.pendingS
  emptyW  : ∀ t x, s.pc t = .w5n x → truthy s.waiting = false
  emptyJ  : ∀ t k, s.pc t = .t4n k → truthy s.jobs = false
  inJ     : ∀ t k, s.pc t = .r5 k → k ∈ lst s.jobs
  -- C02: where every registration is
  locThen : ∀ t k, (s.pc t).thenK = some k ↔ s.loc k = .inThen t
  locErr  : ∀ t k, (s.pc t).errK = some k ↔ s.loc k = .erring t
  locQ    : ∀ k, k ∈ lst s.jobs ↔ s.loc k = .queued
  nodupQ  : (lst s.jobs).Nodup
  locD    : ∀ k, s.loc k = .detached ↔ k ∈ s.winPC.pendingJ
  nodupD  : s.winPC.pendingJ.Nodup
  locFresh : ∀ k, s.nextK ≤ k → s.loc k = .unborn
  ranLoc  : ∀ k, s.ran k = if (s.loc k).hasRun then 1 else 0
  errLoc  : ∀ k, s.errs k = if s.loc k = .done ∧ s.raises k = true then 1 else 0
  ranGo   : ∀ k, ((s.loc k).hasRun = true ∨ s.loc k = .detached) → s.go = true
  remLoc  : ∀ k, s.removed k = true ↔ s.loc k = .removed
  errRaises : ∀ k t, s.loc k = .erring t → s.raises k = true
  g9ne    : ∀ t js ws, s.pc t = .g9 js ws → ws ≠ []
  g10ne   : ∀ t js, s.pc t = .g10 js → js ≠ []
  locBorn : ∀ k, k < s.nextK → s.loc k ≠ .unborn

end MoThreads.SignalCore
