import MoThreads.Proofs.TillTac
namespace MoThreads.Till
set_option maxHeartbeats 4000000

theorem stepD_d7 {s s' : State} {l : Label} {n : Int} {new : List Timer} (h : Inv s) (hp : s.dpc = .d7 n new) (hs : stepD s = some (s', l)) : Inv s' := by
  unfold stepD at hs; rw [hp] at hs; simp only at hs; cases hs
  have hsorted := sorted_sortT (s.sorted ++ new)
  have hdue : ∀ x, x ∈ dueOf n (sortT (s.sorted ++ new)) → (x ∈ s.sorted ∨ x ∈ new) ∧ x.1 ≤ n := fun x hx => by
    have := mem_dueOf hx; exact ⟨by simpa [mem_sortT] using this.1, this.2⟩
  have hrest : ∀ x, x ∈ restOf n (sortT (s.sorted ++ new)) → (x ∈ s.sorted ∨ x ∈ new) ∧ n < x.1 := fun x hx => by
    have := mem_restOf hsorted hx; exact ⟨by simpa [mem_sortT] using this.1, this.2⟩
  have hsplit : ∀ x, (x ∈ s.sorted ∨ x ∈ new) → x ∈ dueOf n (sortT (s.sorted ++ new)) ∨ x ∈ restOf n (sortT (s.sorted ++ new)) :=
    fun x hx => mem_split (by simpa [mem_sortT] using hx)
  generalize dueOf n (sortT (s.sorted ++ new)) = due at *
  generalize restOf n (sortT (s.sorted ++ new)) = rest at *
  clear hsorted
  have hn := h.N n (by simp [hp, DPC.clockLocal])
  have hnw := h.Nw (by simp [hp, DPC.scanning])
  inv_open
  all_goals dsimp only
  all_goals try assumption
  all_goals (simp only [hp] at *; pcsimpD)
  all_goals (by_cases hre : rest = [] <;> simp only [hre, if_true, if_false] at * <;> (try pcsimpD))
  all_goals first
    | assumption
    | omega
    | (intro hf; exact False.elim hf)
    | (intro _ hf; exact False.elim hf)
    | (intro _ _ hf; exact False.elim hf)
    | grind

end MoThreads.Till
