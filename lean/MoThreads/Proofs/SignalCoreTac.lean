import MoThreads.Proofs.SignalCoreInv
namespace MoThreads.SignalCore

set_option maxHeartbeats 1000000

theorem inv_init (nv : Bool) (rs : Nat → Bool) : Inv (init nv rs) := by
  constructor <;> simp [init, PC.holds, PC.sawGo, PC.preSet, PC.isWinner, PC.stopper, PC.thenK, PC.errK,
    State.winPC, PC.pendingJ, PC.pendingS, truthy, lst, Loc.hasRun]

set_option hygiene false in
/-- open the invariant: names every field, splits the goal into one goal per field -/
macro "inv_open" : tactic => `(tactic| (
  obtain ⟨mutex, sawGo, preSet, win, unl, freshW, freshP, snapW, snapJ, liveW, liveJ, noLost, emptyW, emptyJ, inJ, locThen, locErr, locQ, nodupQ, locD, nodupD, locFresh, ranLoc, errLoc, ranGo, remLoc, errRaises, g9ne, g10ne, locBorn⟩ := h
  constructor
  all_goals simp only [State.setPc, State.setPcG, State.winPC] at *))

set_option hygiene false in
macro "f_mutex" : tactic => `(tactic| (
    intro u; have := mutex u; have := mutex t; grind [PC.holds, afterJob, afterStoppers]))

set_option hygiene false in
macro "f_sawGo" : tactic => `(tactic| (
    intro u; have := sawGo u; have := sawGo t; grind [PC.sawGo, afterJob, afterStoppers]))

set_option hygiene false in
macro "f_preSet" : tactic => `(tactic| (
    intro u; have := preSet u; have := preSet t; grind [PC.preSet, afterJob, afterStoppers]))

set_option hygiene false in
macro "f_win" : tactic => `(tactic| (
    intro u; have := win u; have := win t; grind [PC.isWinner, afterJob, afterStoppers]))

set_option hygiene false in
macro "f_unl" : tactic => `(tactic| (
    intro x; have := unl x; have := sawGo t; have := preSet t; grind [PC.sawGo, PC.preSet]))

set_option hygiene false in
macro "f_freshW" : tactic => `(tactic| (
    intro x; have := freshW x; have := freshP t x; grind [lst, PC.stopper]))

set_option hygiene false in
macro "f_freshP" : tactic => `(tactic| (
    intro u x; have := freshP u x; have := freshP t x; grind [PC.stopper, afterJob, afterStoppers]))

set_option hygiene false in
macro "f_snapW" : tactic => `(tactic| (
    intro u js ws; have := snapW u js ws; have := preSet t; have := preSet u; have := sawGo u; have := sawGo t
    grind [lst, afterJob, afterStoppers, PC.preSet, PC.sawGo]))

set_option hygiene false in
macro "f_snapJ" : tactic => `(tactic| (
    intro u js; have := snapJ u js; have := preSet t; have := preSet u; have := sawGo u; have := sawGo t
    grind [lst, afterJob, afterStoppers, PC.preSet, PC.sawGo]))

set_option hygiene false in
macro "f_liveW" : tactic => `(tactic| (
    have := win t; have := preSet t; have := sawGo t
    cases hw : s.winner <;> simp only [hw] at * <;>
      grind [PC.isWinner, PC.preDetachW, truthy, lst, afterJob, afterStoppers, PC.preSet, PC.sawGo]))

set_option hygiene false in
macro "f_liveJ" : tactic => `(tactic| (
    have := win t; have := preSet t; have := sawGo t
    cases hw : s.winner <;> simp only [hw] at * <;>
      grind [PC.isWinner, PC.preDetachJ, truthy, lst, afterJob, afterStoppers, PC.preSet, PC.sawGo]))

set_option hygiene false in
macro "f_noLost" : tactic => `(tactic| (
    intro u x; have := noLost u x; have := noLost t x; have := win t; have := win u
    cases hw : s.winner <;> simp only [hw] at * <;>
      grind [PC.isWinner, PC.pendingS, lst, afterJob, afterStoppers]))

set_option hygiene false in
macro "f_emptyW" : tactic => `(tactic| (
    intro u x; have := emptyW u x; have := mutex u; have := mutex t; have := preSet u; have := sawGo t
    grind [truthy, lst, PC.holds, PC.preSet, PC.sawGo, afterJob, afterStoppers]))

set_option hygiene false in
macro "f_emptyJ" : tactic => `(tactic| (
    intro u k; have := emptyJ u k; have := mutex u; have := mutex t; have := preSet u; have := sawGo t
    grind [truthy, lst, PC.holds, PC.preSet, PC.sawGo, afterJob, afterStoppers]))

set_option hygiene false in
macro "f_inJ" : tactic => `(tactic| (
    intro u k; have := inJ u k; have := mutex u; have := mutex t; have := preSet u; have := sawGo t
    grind [truthy, lst, PC.holds, PC.preSet, PC.sawGo, afterJob, afterStoppers]))

set_option hygiene false in
macro "f_locThen" : tactic => `(tactic| (
    intro u k; have := locThen u k; have := locThen t k; grind [PC.thenK, afterJob, afterStoppers]))

set_option hygiene false in
macro "f_locErr" : tactic => `(tactic| (
    intro u k; have := locErr u k; have := locErr t k; grind [PC.errK, afterJob, afterStoppers]))

set_option hygiene false in
macro "f_locQ" : tactic => `(tactic| (
    intro k; have := locQ k; grind [lst]))

set_option hygiene false in
macro "f_nodupQ" : tactic => `(tactic| (
    grind [lst]))

set_option hygiene false in
macro "f_locD" : tactic => `(tactic| (
    intro k; have := locD k; have := win t
    cases hw : s.winner <;> simp only [hw] at * <;>
      grind [PC.isWinner, PC.pendingJ, afterJob, afterStoppers]))

set_option hygiene false in
macro "f_nodupD" : tactic => `(tactic| (
    have := win t
    cases hw : s.winner <;> simp only [hw] at * <;>
      grind [PC.isWinner, PC.pendingJ, afterJob, afterStoppers]))

set_option hygiene false in
macro "f_locFresh" : tactic => `(tactic| (
    intro k; have := locFresh k; grind))

set_option hygiene false in
macro "f_ranLoc" : tactic => `(tactic| (
    intro k; have := ranLoc k; grind [Loc.hasRun]))

set_option hygiene false in
macro "f_errLoc" : tactic => `(tactic| (
    intro k; have := errLoc k; grind))

set_option hygiene false in
macro "f_ranGo" : tactic => `(tactic| (
    intro k; have := ranGo k; grind [Loc.hasRun]))

set_option hygiene false in
macro "f_remLoc" : tactic => `(tactic| (
    intro k; have := remLoc k; grind))

set_option hygiene false in
macro "f_errRaises" : tactic => `(tactic| (
    intro k u; have := errRaises k u; grind))

set_option hygiene false in
macro "f_g9ne" : tactic => `(tactic| (
    intro u js ws; have := g9ne u js ws; grind [afterJob, afterStoppers]))

set_option hygiene false in
macro "f_g10ne" : tactic => `(tactic| (
    intro u js; have := g10ne u js; grind [afterJob, afterStoppers]))

set_option hygiene false in
macro "f_locBorn" : tactic => `(tactic| (
    intro k; have := locBorn k; grind))

set_option hygiene false in
/-- all fields by their default tactic -/
macro "inv_case" : tactic => `(tactic| (
  inv_open
  · f_mutex
  · f_sawGo
  · f_preSet
  · f_win
  · f_unl
  · f_freshW
  · f_freshP
  · f_snapW
  · f_snapJ
  · f_liveW
  · f_liveJ
  · f_noLost
  · f_emptyW
  · f_emptyJ
  · f_inJ
  · f_locThen
  · f_locErr
  · f_locQ
  · f_nodupQ
  · f_locD
  · f_nodupD
  · f_locFresh
  · f_ranLoc
  · f_errLoc
  · f_ranGo
  · f_remLoc
  · f_errRaises
  · f_g9ne
  · f_g10ne
  · f_locBorn))

/-- reduce `step s t = some (s', l)` at a known pc -/
macro "step_at" hp:ident hs:ident : tactic => `(tactic| (
  unfold step at $hs:ident
  rw [$hp:ident] at $hs:ident
  simp only [] at $hs:ident))

set_option hygiene false in
/-- unguarded step case from `h : Inv s`, `hp : s.pc t = …`, `hs : step s t = some (s', l)` -/
macro "step_open" : tactic => `(tactic| (
  step_at hp hs
  first
  | cases hs
  | (split at hs <;> cases hs)))

set_option hygiene false in
macro "step_case" : tactic => `(tactic| (step_open; inv_case))

set_option hygiene false in
/-- facts about registration `k` whose location is known (`hk : s.loc k = …`), before `inv_open` -/
macro "loc_facts" : tactic => `(tactic| (
  have hQ := h.locQ k
  have hD := h.locD k
  have hF : k < s.nextK := by
    apply Nat.lt_of_not_le; intro hc; have := h.locFresh k hc; simp [hk] at this
  have hR := h.ranLoc k
  have hEr := h.errLoc k
  have hG := h.ranGo k
  have hRm := h.remLoc k
  have hRs := fun u => h.errRaises k u
  have hB := h.locBorn k
  have hT : ∀ u, (s.pc u).thenK = some k ↔ s.loc k = .inThen u := fun u => h.locThen u k
  have hE : ∀ u, (s.pc u).errK = some k ↔ s.loc k = .erring u := fun u => h.locErr u k
  simp only [hk] at hQ hD hR hEr hG hRm hT hE hRs hB))

set_option hygiene false in
/-- discharge every remaining field goal (found by its tag) with its default tactic -/
macro "inv_rest" : tactic => `(tactic| (
  try (case mutex => f_mutex)
  try (case sawGo => f_sawGo)
  try (case preSet => f_preSet)
  try (case win => f_win)
  try (case unl => f_unl)
  try (case freshW => f_freshW)
  try (case freshP => f_freshP)
  try (case snapW => f_snapW)
  try (case snapJ => f_snapJ)
  try (case liveW => f_liveW)
  try (case liveJ => f_liveJ)
  try (case noLost => f_noLost)
  try (case emptyW => f_emptyW)
  try (case emptyJ => f_emptyJ)
  try (case inJ => f_inJ)
  try (case locThen => f_locThen)
  try (case locErr => f_locErr)
  try (case locQ => f_locQ)
  try (case nodupQ => f_nodupQ)
  try (case locD => f_locD)
  try (case nodupD => f_nodupD)
  try (case locFresh => f_locFresh)
  try (case ranLoc => f_ranLoc)
  try (case errLoc => f_errLoc)
  try (case ranGo => f_ranGo)
  try (case remLoc => f_remLoc)
  try (case errRaises => f_errRaises)
  try (case g9ne => f_g9ne)
  try (case g10ne => f_g10ne)
  try (case locBorn => f_locBorn)))

end MoThreads.SignalCore
