/-
  M6 (Till): a ranking function — the daemon does not spin.  Without environment moves (no new Till, no stop request,
  no passing of time) every step of the daemon or of a creator strictly decreases
    position in the loop + 13·[next_ping is not in the future] + 20·[asleep although the wake-up time has come]
    + timers not yet fired + Σ creators' remaining steps (a creator that may still lower next_ping carries 14 more),
  the loop being cut at its two upward edges (waking; starting a scan without having slept).
  Also: HeadOK (the unlocked update of next_ping is reached only with a timer left), the settled form of quiescent
  states, and StopPath (after a stop request the daemon only moves towards `done`).
-/
import MoThreads.Proofs.TillMain
namespace MoThreads.Till
open MoThreads
set_option maxHeartbeats 1000000

/-- position of the daemon in its loop; the loop is cut at the two edges that go "up": waking (asleep → d0) and
starting a scan without having slept (d4 → d5) -/
def dpos : DPC → Nat
  | .start => 14 | .d0 => 13 | .d1 => 12 | .d2 _ => 11 | .d3 _ => 10 | .d3r .. => 9 | .d4 .. => 8 | .asleep _ => 7
  | .d5 _ => 20 | .d6 _ => 19 | .d6r .. => 18 | .d7 .. => 17 | .d8r _ => 16 | .d8w .. => 15 | .d9 _ => 14
  | .f0 => 6 | .f1 => 5 | .f2 => 4 | .f2r _ => 3 | .f3 _ => 2 | .done => 0

/-- the daemon's next pass through `d4` will find nothing to sleep for (`next_ping` is not in the future) -/
def lowB (p : DPC) (np now : Int) : Bool :=
  match p with
  | .start | .d0 | .d1 | .d2 _ | .d3 _ | .d6r .. | .d7 .. | .d8r _ | .d9 _ => decide (np ≤ now)
  | .d3r _ later | .d4 _ later => decide (later ≤ 0)
  | .d8w _ v => decide (v ≤ now)
  | _ => false

def lowN (p : DPC) (np now : Int) : Nat := if lowB p np now then 13 else 0

/-- the daemon sleeps although its wake-up time has come -/
def wk (p : DPC) (now : Int) : Nat :=
  match p with
  | .asleep w => if w ≤ now then 20 else 0
  | _ => 0

def crank : CPC → Nat
  | .idle => 0 | .c0 .. => 21 | .c0a .. => 21 | .c1 _ => 20 | .c2 .. => 19 | .c3 .. => 18 | .c3b .. => 17 | .c4 .. => 2 | .c5 _ => 1

def drank (s : State) : Nat :=
  dpos s.dpc + lowN s.dpc s.nextPing s.now + wk s.dpc s.now + (s.newTimers.length + s.sorted.length + s.dpc.transit.length)

def rank (N : Nat) (s : State) : Nat := drank s + sumTo N (fun t => crank (s.cpc t))

theorem length_insertT (x : Timer) (l : List Timer) : (insertT x l).length = l.length + 1 := by
  induction l with
  | nil => simp [insertT]
  | cons y ys ih => simp only [insertT]; split <;> simp [ih]

theorem length_sortT (l : List Timer) : (sortT l).length = l.length := by
  induction l with
  | nil => simp [sortT]
  | cons y ys ih => simp [sortT, length_insertT, ih]

theorem length_split (n : Int) (l : List Timer) : (dueOf n l).length + (restOf n l).length = l.length := by
  induction l with
  | nil => simp [dueOf, restOf]
  | cons y ys ih => simp only [dueOf, restOf]; split <;> simp <;> omega

theorem fireId_np (s : State) (id : Nat) (b : Bool) : (fireId s id b).nextPing = s.nextPing ∧ (fireId s id b).now = s.now ∧
    (fireId s id b).newTimers = s.newTimers ∧ (fireId s id b).sorted = s.sorted ∧ (fireId s id b).cpc = s.cpc ∧ (fireId s id b).dpc = s.dpc := by
  unfold fireId; split <;> simp

theorem lowN_le (p : DPC) (np now : Int) : lowN p np now ≤ 13 := by unfold lowN; split <;> omega

theorem lowN_congr {p p' : DPC} {np np' now now' : Int} (h : lowB p np now = lowB p' np' now') : lowN p np now = lowN p' np' now' := by
  unfold lowN; rw [h]
theorem lowN_false {p : DPC} {np now : Int} (h : lowB p np now = false) : lowN p np now = 0 := by unfold lowN; rw [h]; rfl
theorem lowN_true {p : DPC} {np now : Int} (h : lowB p np now = true) : lowN p np now = 13 := by unfold lowN; rw [h]; rfl

set_option hygiene false in
macro "dn" e:term : tactic => `(tactic| (
  refine ⟨?_, rfl⟩
  have e := $e
  simp only [drank, hp, dpos, wk, DPC.transit, List.length_nil, List.length_append, List.length_cons, Bool.false_eq_true, if_false, if_true] at e ⊢
  omega))

theorem drank_stepD {s s' : State} {l : Label} (h : Inv s) (hs : stepD s = some (s', l)) : drank s' < drank s ∧ s'.cpc = s.cpc := by
  have hI := h.Ipos
  unfold stepD at hs
  cases hp : s.dpc with
  | start => rw [hp] at hs; cases hs; dn (lowN_congr (p := .d0) (p' := .start) (np := s.nextPing) (now := s.now) (np' := s.nextPing) (now' := s.now) rfl)
  | d0 =>
    rw [hp] at hs; cases hs
    cases hst : s.stopReq
    · dn (lowN_congr (p := .d1) (p' := .d0) (np := s.nextPing) (now := s.now) (np' := s.nextPing) (now' := s.now) rfl)
    · refine ⟨?_, rfl⟩
      have e := lowN_false (p := .f0) (np := s.nextPing) (now := s.now) rfl
      simp only [drank, hp, dpos, wk, DPC.transit, if_true, e]; omega
  | d1 => rw [hp] at hs; cases hs; dn (lowN_congr (p := .d2 s.now) (p' := .d1) (np := s.nextPing) (now := s.now) (np' := s.nextPing) (now' := s.now) rfl)
  | d2 n =>
    rw [hp] at hs; simp only at hs; split at hs
    · cases hs; dn (lowN_congr (p := .d3 n) (p' := .d2 n) (np := s.nextPing) (now := s.now) (np' := s.nextPing) (now' := s.now) rfl)
    · cases hs
  | d3 n =>
    rw [hp] at hs; cases hs
    have hn : n = s.now := h.N n (by rw [hp]; rfl)
    dn (lowN_congr (p := .d3r n (s.nextPing - n)) (p' := .d3 n) (np := s.nextPing) (now := s.now) (np' := s.nextPing) (now' := s.now) (by
      simp only [lowB]; rw [hn]; congr 1; apply propext; constructor <;> (intro; omega)))
  | d3r n later => rw [hp] at hs; cases hs; dn (lowN_congr (p := .d4 n later) (p' := .d3r n later) (np := s.nextPing) (now := s.now) (np' := s.nextPing) (now' := s.now) rfl)
  | d4 n later =>
    rw [hp] at hs; simp only at hs; split at hs
    · rename_i hl
      cases hs; refine ⟨?_, rfl⟩
      have hw : ¬ (s.now + minI later s.I ≤ s.now) := by unfold minI; split <;> omega
      have e := lowN_false (p := .asleep (s.now + minI later s.I)) (np := s.nextPing) (now := s.now) rfl
      simp only [drank, hp, dpos, wk, DPC.transit, hw, if_false, e]; omega
    · rename_i hl
      cases hs; refine ⟨?_, rfl⟩
      have e := lowN_false (p := .d5 n) (np := s.nextPing) (now := s.now) rfl
      have e2 := lowN_true (p := .d4 n later) (np := s.nextPing) (now := s.now) (by simp only [lowB]; exact decide_eq_true (by omega))
      simp only [drank, hp, dpos, wk, DPC.transit, e, e2]; omega
  | asleep w =>
    rw [hp] at hs; simp only at hs; split at hs
    · rename_i hw
      cases hs; refine ⟨?_, rfl⟩
      have := lowN_le .d0 s.nextPing s.now
      have e := lowN_false (p := .asleep w) (np := s.nextPing) (now := s.now) rfl
      simp only [drank, hp, dpos, wk, DPC.transit, hw, if_true, e]
      omega
    · cases hs
  | d5 n =>
    rw [hp] at hs; simp only at hs; split at hs
    · cases hs; dn (lowN_congr (p := .d6 n) (p' := .d5 n) (np := s.nextPing) (now := s.now) (np' := s.nextPing) (now' := s.now) rfl)
    · cases hs
  | d6 n =>
    rw [hp] at hs; cases hs; refine ⟨?_, rfl⟩
    have hn : n = s.now := h.N n (by rw [hp]; rfl)
    have e := lowN_false (p := .d6r n s.newTimers) (np := n + s.I) (now := s.now) (by simp only [lowB]; exact decide_eq_false (by omega))
    have e2 := lowN_false (p := .d6 n) (np := s.nextPing) (now := s.now) rfl
    simp only [drank, hp, dpos, wk, DPC.transit, List.length_nil, e, e2]; omega
  | d6r n new => rw [hp] at hs; cases hs; dn (lowN_congr (p := .d7 n new) (p' := .d6r n new) (np := s.nextPing) (now := s.now) (np' := s.nextPing) (now' := s.now) rfl)
  | d7 n new =>
    rw [hp] at hs; cases hs; refine ⟨?_, rfl⟩
    have h1 := length_split n (sortT (s.sorted ++ new))
    rw [length_sortT, List.length_append] at h1
    simp only [drank, hp]
    split
    · have e := lowN_congr (p := .d9 (dueOf n (sortT (s.sorted ++ new)))) (p' := .d7 n new) (np := s.nextPing) (now := s.now) (np' := s.nextPing) (now' := s.now) rfl
      simp only [dpos, wk, DPC.transit, e]; omega
    · have e := lowN_congr (p := .d8r (dueOf n (sortT (s.sorted ++ new)))) (p' := .d7 n new) (np := s.nextPing) (now := s.now) (np' := s.nextPing) (now' := s.now) rfl
      simp only [dpos, wk, DPC.transit, e]; omega
  | d8r work => rw [hp] at hs; cases hs; dn (lowN_congr (p := .d8w work s.nextPing) (p' := .d8r work) (np := s.nextPing) (now := s.now) (np' := s.nextPing) (now' := s.now) rfl)
  | d8w work v =>
    rw [hp] at hs; simp only at hs
    cases hso : s.sorted with
    | nil => rw [hso] at hs; cases hs
    | cons x xs =>
      rw [hso] at hs; cases hs; refine ⟨?_, rfl⟩
      have hnw : s.now = s.lastScan := h.Nw (by rw [hp]; rfl)
      have hx : s.lastScan < x.1 := by
        have := h.C x (by rw [hso]; simp)
        rw [hp] at this; simpa [DPC.midScan] using this
      have e := lowN_congr (p := .d9 work) (p' := .d8w work v) (np := minI v x.1) (np' := s.nextPing) (now := s.now) (now' := s.now) (by
        simp only [lowB]; congr 1; apply propext; unfold minI; split <;> constructor <;> (intro; omega))
      simp only [drank, hp, dpos, wk, DPC.transit, hso, e]; omega
  | d9 work =>
    rw [hp] at hs
    cases work with
    | nil => cases hs; dn (lowN_congr (p := .d0) (p' := .d9 []) (np := s.nextPing) (now := s.now) (np' := s.nextPing) (now' := s.now) rfl)
    | cons x rest =>
      cases hs
      obtain ⟨e1, e2, e3, e4, e5, e6⟩ := fireId_np s x.2 true
      refine ⟨?_, e5⟩
      have e := lowN_congr (p := .d9 rest) (p' := .d9 (x :: rest)) (np := s.nextPing) (now := s.now) (np' := s.nextPing) (now' := s.now) rfl
      simp only [drank, hp, dpos, wk, DPC.transit, e1, e2, e3, e4, List.length_cons, e]; omega
  | f0 => rw [hp] at hs; cases hs; dn (lowN_congr (p := .f1) (p' := .f0) (np := s.nextPing) (now := s.now) (np' := s.nextPing) (now' := s.now) rfl)
  | f1 =>
    rw [hp] at hs; simp only at hs; split at hs
    · cases hs; dn (lowN_congr (p := .f2) (p' := .f1) (np := s.nextPing) (now := s.now) (np' := s.nextPing) (now' := s.now) rfl)
    · cases hs
  | f2 => rw [hp] at hs; cases hs; dn (lowN_congr (p := .f2r s.newTimers) (p' := .f2) (np := s.nextPing) (now := s.now) (np' := s.nextPing) (now' := s.now) rfl)
  | f2r nw => rw [hp] at hs; cases hs; dn (lowN_congr (p := .f3 (nw ++ s.sorted)) (p' := .f2r nw) (np := s.nextPing) (now := s.now) (np' := s.nextPing) (now' := s.now) rfl)
  | f3 work =>
    rw [hp] at hs
    cases work with
    | nil => cases hs; dn (lowN_congr (p := .done) (p' := .f3 []) (np := s.nextPing) (now := s.now) (np' := s.nextPing) (now' := s.now) rfl)
    | cons x rest =>
      cases hs
      obtain ⟨e1, e2, e3, e4, e5, e6⟩ := fireId_np s x.2 false
      refine ⟨?_, e5⟩
      have e := lowN_congr (p := .f3 rest) (p' := .f3 (x :: rest)) (np := s.nextPing) (now := s.now) (np' := s.nextPing) (now' := s.now) rfl
      simp only [drank, hp, dpos, wk, DPC.transit, e1, e2, e3, e4, List.length_cons, e]; omega
  | done => rw [hp] at hs; cases hs

theorem rank_lt_creator {N : Nat} {s s' : State} {t : Nat} {p' : CPC} (ht : t < N)
    (hc : s'.cpc = fun u => if u = t then p' else s.cpc u) (hd : drank s' + crank p' < drank s + crank (s.cpc t)) :
    rank N s' < rank N s := by
  unfold rank
  have := sumTo_update (n := N) (f := fun u => crank (s.cpc u)) (g := fun u => crank (s'.cpc u)) (t := t) ht (by
    intro i hi; simp only [hc, hi, if_false])
  have e : crank (s'.cpc t) = crank p' := by rw [hc]; simp
  simp only [e] at this
  omega

theorem drank_congr {s s' : State} (h1 : s'.dpc = s.dpc) (h2 : s'.nextPing = s.nextPing) (h3 : s'.now = s.now)
    (h4 : s'.newTimers = s.newTimers) (h5 : s'.sorted = s.sorted) : drank s' = drank s := by
  unfold drank; rw [h1, h2, h3, h4, h5]

theorem rank_stepC {N : Nat} {s s' : State} {t : Nat} {l : Label} (ht : t < N) (hs : stepC s t = some (s', l)) :
    rank N s' < rank N s := by
  unfold stepC at hs
  cases hp : s.cpc t with
  | idle => rw [hp] at hs; cases hs
  | c0 secs g0 =>
    rw [hp] at hs; cases hs
    refine rank_lt_creator ht rfl ?_
    rw [hp]; simp only [drank, State.setC]
    split <;> (try split) <;> simp only [crank] <;> omega
  | c0a secs g0 =>
    rw [hp] at hs; cases hs
    refine rank_lt_creator ht rfl ?_
    rw [hp]; simp only [drank, State.setC]
    split <;> simp only [crank] <;> omega
  | c1 secs =>
    rw [hp] at hs; cases hs
    refine rank_lt_creator ht rfl ?_
    rw [hp]; simp only [drank, State.setC, crank]; omega
  | c2 d id =>
    rw [hp] at hs; simp only at hs; split at hs
    · cases hs
      refine rank_lt_creator ht rfl ?_
      rw [hp]; simp only [drank, State.setC, crank]; omega
    · cases hs
  | c3 d id =>
    rw [hp] at hs; cases hs
    refine rank_lt_creator ht rfl ?_
    rw [hp]; simp only [drank, State.setC, crank]; omega
  | c3b d id g0 =>
    rw [hp] at hs; simp only at hs; split at hs
    · cases hs
      refine rank_lt_creator ht rfl ?_
      rw [hp]
      have h1 := lowN_le s.dpc (minI s.nextPing d) s.now
      simp only [drank, State.setC, crank, List.length_append, List.length_cons, List.length_nil]
      omega
    · cases hs
      refine rank_lt_creator ht rfl ?_
      rw [hp]; simp only [drank, State.setC, crank]; omega
  | c4 id late =>
    rw [hp] at hs; cases hs
    refine rank_lt_creator ht rfl ?_
    rw [hp]; simp only [drank, State.setC]
    split <;> simp only [crank] <;> omega
  | c5 id =>
    rw [hp] at hs; cases hs
    obtain ⟨e1, e2, e3, e4, e5, e6⟩ := fireId_np s id false
    refine rank_lt_creator (p' := .idle) ht (by simp only [State.setC, e5]) ?_
    rw [hp]; simp only [drank, State.setC, crank, e1, e2, e3, e4, e6]; omega

/-- creators with ids ≥ N are idle -/
def Below (N : Nat) (s : State) : Prop := ∀ t, N ≤ t → s.cpc t = .idle

/-- what a creator's step leaves alone -/
theorem stepC_frame {s s' : State} {t : Nat} {l : Label} (hs : stepC s t = some (s', l)) :
    s'.dpc = s.dpc ∧ s'.sorted = s.sorted ∧ s'.now = s.now ∧ s'.stopReq = s.stopReq ∧ ∀ u, u ≠ t → s'.cpc u = s.cpc u := by
  unfold stepC at hs
  cases hp : s.cpc t with
  | idle => rw [hp] at hs; cases hs
  | c0 secs g0 => rw [hp] at hs; cases hs; exact ⟨rfl, rfl, rfl, rfl, fun u hu => if_neg hu⟩
  | c0a secs g0 => rw [hp] at hs; cases hs; exact ⟨rfl, rfl, rfl, rfl, fun u hu => if_neg hu⟩
  | c1 secs => rw [hp] at hs; cases hs; exact ⟨rfl, rfl, rfl, rfl, fun u hu => if_neg hu⟩
  | c2 d id =>
    rw [hp] at hs; simp only at hs; split at hs
    · cases hs; exact ⟨rfl, rfl, rfl, rfl, fun u hu => if_neg hu⟩
    · cases hs
  | c3 d id => rw [hp] at hs; cases hs; exact ⟨rfl, rfl, rfl, rfl, fun u hu => if_neg hu⟩
  | c3b d id g0 =>
    rw [hp] at hs; simp only at hs; split at hs
    · cases hs; exact ⟨rfl, rfl, rfl, rfl, fun u hu => if_neg hu⟩
    · cases hs; exact ⟨rfl, rfl, rfl, rfl, fun u hu => if_neg hu⟩
  | c4 id late => rw [hp] at hs; cases hs; exact ⟨rfl, rfl, rfl, rfl, fun u hu => if_neg hu⟩
  | c5 id =>
    rw [hp] at hs; cases hs
    obtain ⟨e1, e2, e3, e4, e5, e6⟩ := fireId_np s id false
    refine ⟨e6, e4, e2, ?_, fun u hu => ?_⟩
    · unfold fireId; split <;> rfl
    · show (if u = t then CPC.idle else (fireId s id false).cpc u) = s.cpc u
      rw [if_neg hu, e5]

theorem stepC_cpc_other {s s' : State} {t : Nat} {l : Label} (hs : stepC s t = some (s', l)) (u : Nat) (hu : u ≠ t) : s'.cpc u = s.cpc u :=
  (stepC_frame hs).2.2.2.2 u hu

theorem stepC_not_idle {s s' : State} {t : Nat} {l : Label} (hs : stepC s t = some (s', l)) : s.cpc t ≠ .idle := by
  intro hi; unfold stepC at hs; rw [hi] at hs; cases hs

theorem below_step {N : Nat} {s s' : State} {t : Nat} {l : Label} (h : Inv s) (hb : Below N s) (hs : step s t = some (s', l)) : Below N s' := by
  unfold step at hs
  split at hs
  · intro u hu; rw [(drank_stepD h hs).2]; exact hb u hu
  · intro u hu
    by_cases hut : u = t
    · subst hut; exact absurd (hb u hu) (stepC_not_idle hs)
    · rw [stepC_cpc_other hs u hut]; exact hb u hu

theorem rank_step {N : Nat} {s s' : State} {t : Nat} {l : Label} (h : Inv s) (hb : Below N s) (hs : step s t = some (s', l)) :
    rank N s' < rank N s := by
  unfold step at hs
  split at hs
  · obtain ⟨h1, h2⟩ := drank_stepD h hs
    unfold rank; rw [h2]; omega
  · have ht : t < N := by
      rcases Nat.lt_or_ge t N with h1 | h1
      · exact h1
      · exact absurd (hb t h1) (stepC_not_idle hs)
    exact rank_stepC ht hs

/-- every run without environment moves (no new Till, no stop request, no passing of time) takes at most `rank N s` steps -/
theorem run_length_le_rank {N : Nat} {s s' : State} {tr : List (Nat × Label)} (h : Inv s) (hb : Below N s) (r : sys.Run s tr s') :
    tr.length + rank N s' ≤ rank N s :=
  Sys.Run.length_le_rank_inv sys (rank N) (fun s => Inv s ∧ Below N s)
    (fun _ _ _ _ hP hs => ⟨inv_step hP.1 hs, below_step hP.1 hP.2 hs⟩)
    (fun _ _ _ _ hP hs => rank_step hP.1 hP.2 hs) r ⟨h, hb⟩

/-- the unlocked update of `next_ping` is only reached with a timer left in `sorted_timers` -/
def HeadOK (s : State) : Prop := (∀ w, s.dpc = .d8r w → s.sorted ≠ []) ∧ (∀ w v, s.dpc = .d8w w v → s.sorted ≠ [])

theorem headOK_of_pc {s : State} (h1 : ∀ w, s.dpc ≠ .d8r w) (h2 : ∀ w v, s.dpc ≠ .d8w w v) : HeadOK s :=
  And.intro (fun w hw => absurd hw (h1 w)) (fun w v hw => absurd hw (h2 w v))

theorem headOK_step {s s' : State} {t : Nat} {l : Label} (hk : HeadOK s) (hs : step s t = some (s', l)) : HeadOK s' := by
  unfold step at hs
  split at hs
  · unfold stepD at hs
    cases hp : s.dpc with
    | d7 n new =>
      rw [hp] at hs; cases hs
      refine And.intro ?_ ?_
      · intro w hw; simp only at hw; split at hw
        · cases hw
        · rename_i hne; exact hne
      · intro w v hw; simp only at hw; split at hw <;> cases hw
    | d8r work =>
      rw [hp] at hs; cases hs
      exact And.intro (fun w hw => by cases hw) (fun w v _ => hk.1 work hp)
    | d8w work v =>
      rw [hp] at hs; simp only at hs
      cases hso : s.sorted with
      | nil => rw [hso] at hs; cases hs
      | cons x xs => rw [hso] at hs; cases hs; exact headOK_of_pc (fun w hw => by cases hw) (fun w v hw => by cases hw)
    | d9 work =>
      rw [hp] at hs
      cases work with
      | nil => cases hs; exact headOK_of_pc (fun w hw => by cases hw) (fun w v hw => by cases hw)
      | cons x rest => cases hs; exact headOK_of_pc (fun w hw => by cases hw) (fun w v hw => by cases hw)
    | f3 work =>
      rw [hp] at hs
      cases work with
      | nil => cases hs; exact headOK_of_pc (fun w hw => by cases hw) (fun w v hw => by cases hw)
      | cons x rest => cases hs; exact headOK_of_pc (fun w hw => by cases hw) (fun w v hw => by cases hw)
    | d0 =>
      rw [hp] at hs; cases hs
      refine And.intro ?_ ?_
      · intro w hw; simp only at hw; split at hw <;> cases hw
      · intro w v hw; simp only at hw; split at hw <;> cases hw
    | _ =>
      rw [hp] at hs; simp only at hs
      first
        | (cases hs; done)
        | (cases hs; exact headOK_of_pc (fun w hw => by cases hw) (fun w v hw => by cases hw))
        | (split at hs <;> first | (cases hs; done) | (cases hs; exact headOK_of_pc (fun w hw => by cases hw) (fun w v hw => by cases hw)))
  · obtain ⟨e1, e2, _⟩ := stepC_frame hs
    exact And.intro (fun w hw => by rw [e2]; exact hk.1 w (by rw [← e1]; exact hw)) (fun w v hw => by rw [e2]; exact hk.2 w v (by rw [← e1]; exact hw))

theorem reach_headOK {s : State} (h : sys.Reach s) : HeadOK s := by
  induction h with
  | init hi => obtain ⟨I, _, rfl⟩ := hi; exact headOK_of_pc (fun w hw => by cases hw) (fun w v hw => by cases hw)
  | env hr he ih =>
    rcases he with ⟨t, secs, hc⟩ | ⟨t, secs, hc⟩ | rfl | ⟨d, _, rfl⟩
    · unfold callTill at hc; split at hc
      · cases hc
      · split at hc
        · cases hc; exact ih
        · cases hc
    · unfold callTillAbs at hc; split at hc
      · cases hc
      · split at hc
        · cases hc; exact ih
        · cases hc
    · exact ih
    · exact ih
  | step hr hs ih => exact headOK_step ih hs

/-- whoever holds the Till locker can move -/
theorem holder_moves {s : State} (h : Inv s) (u : Nat) (hl : s.locker = some u) : (step s u).isSome = true := by
  by_cases hu0 : u = 0
  · subst hu0
    have hh := h.lk0.mpr hl
    unfold step; simp only [if_true]; unfold stepD
    cases hp : s.dpc <;> rw [hp] at hh <;> simp [DPC.holds] at hh <;> simp
  · have hh := (h.lkt u hu0).mpr hl
    unfold step; simp only [hu0, if_false]; unfold stepC
    cases hp : s.cpc u <;> rw [hp] at hh <;> simp [CPC.holds] at hh <;> simp
    split <;> simp

/-- Where nobody can move, every creation has completed and the daemon sleeps (its wake-up time still ahead) or has ended. -/
theorem quiescent_settled {s : State} (h : Inv s) (hk : HeadOK s) (hq : sys.Quiescent s) :
    (∀ t, s.cpc t = .idle) ∧ (s.dpc = .done ∨ ∃ w, s.dpc = .asleep w ∧ s.now < w) := by
  have hfree : s.locker = none := by
    cases hl : s.locker with
    | none => rfl
    | some u =>
      have := holder_moves h u hl
      have hq' : step s u = none := hq u
      rw [hq'] at this; cases this
  constructor
  · intro t
    by_cases ht : t = 0
    · rw [ht]; exact h.cz
    · have hq' : step s t = none := hq t
      unfold step at hq'; simp only [ht, if_false] at hq'
      unfold stepC at hq'
      cases hp : s.cpc t with
      | idle => rfl
      | c2 d id => rw [hp] at hq'; simp [hfree] at hq'
      | c3b d id g0 => rw [hp] at hq'; simp only at hq'; split at hq' <;> cases hq'
      | _ => rw [hp] at hq'; simp at hq'
  · have hq' : step s 0 = none := hq 0
    unfold step at hq'; simp only [if_true] at hq'
    unfold stepD at hq'
    cases hp : s.dpc with
    | done => exact Or.inl rfl
    | asleep w =>
      rw [hp] at hq'; simp only at hq'
      by_cases hw : w ≤ s.now
      · simp [hw] at hq'
      · exact Or.inr ⟨w, rfl, by omega⟩
    | d2 n => rw [hp] at hq'; simp [hfree] at hq'
    | d5 n => rw [hp] at hq'; simp [hfree] at hq'
    | f1 => rw [hp] at hq'; simp [hfree] at hq'
    | d4 n later => rw [hp] at hq'; simp only at hq'; split at hq' <;> cases hq'
    | d8w work v =>
      exfalso
      rw [hp] at hq'; simp only at hq'
      cases hso : s.sorted with
      | cons x xs => rw [hso] at hq'; cases hq'
      | nil => exact hk.2 work v hp hso
    | d9 work => rw [hp] at hq'; cases work <;> cases hq'
    | f3 work => rw [hp] at hq'; cases work <;> cases hq'
    | _ => rw [hp] at hq'; simp at hq'

def stopPc : DPC → Int → Prop
  | .asleep w, now => w ≤ now
  | .d0, _ | .f0, _ | .f1, _ | .f2, _ | .f2r _, _ | .f3 _, _ | .done, _ => True
  | _, _ => False

/-- a stop has been requested and the daemon is on its way out: awake at the loop test or beyond, or asleep with its
wake-up time reached -/
def StopPath (s : State) : Prop := s.stopReq = true ∧ stopPc s.dpc s.now

theorem fireId_stopReq (s : State) (id : Nat) (b : Bool) : (fireId s id b).stopReq = s.stopReq := by
  unfold fireId; split <;> rfl

theorem stopPath_step {s s' : State} {t : Nat} {l : Label} (hp : StopPath s) (hs : step s t = some (s', l)) : StopPath s' := by
  obtain ⟨hr, hpc⟩ := hp
  unfold step at hs
  split at hs
  · unfold stepD at hs
    cases hd : s.dpc with
    | asleep w =>
      rw [hd] at hs; simp only at hs; split at hs
      · cases hs; exact ⟨hr, trivial⟩
      · cases hs
    | d0 => rw [hd] at hs; cases hs; refine ⟨hr, ?_⟩; simp only [hr, if_true]; trivial
    | f0 => rw [hd] at hs; cases hs; exact ⟨hr, trivial⟩
    | f1 =>
      rw [hd] at hs; simp only at hs; split at hs
      · cases hs; exact ⟨hr, trivial⟩
      · cases hs
    | f2 => rw [hd] at hs; cases hs; exact ⟨hr, trivial⟩
    | f2r nw => rw [hd] at hs; cases hs; exact ⟨hr, trivial⟩
    | f3 work =>
      rw [hd] at hs
      cases work with
      | nil => cases hs; exact ⟨hr, trivial⟩
      | cons x rest => cases hs; exact ⟨by rw [show _ = (fireId s x.2 false).stopReq from rfl, fireId_stopReq]; exact hr, trivial⟩
    | done => rw [hd] at hs; cases hs
    | _ => rw [hd] at hpc; exact absurd hpc (by simp [stopPc])
  · obtain ⟨e1, _, e3, e4, _⟩ := stepC_frame hs
    exact ⟨by rw [e4]; exact hr, by rw [e1, e3]; exact hpc⟩

theorem stopPath_run {s s' : State} {tr : List (Nat × Label)} (hp : StopPath s) (r : sys.Run s tr s') : StopPath s' := by
  induction r with
  | nil => exact hp
  | cons hs _ ih => exact ih (stopPath_step hp hs)

end MoThreads.Till
