import MoThreads.Model.TQWorker
namespace MoThreads.TQWorker
set_option maxHeartbeats 2000000

/-- a value popped from the own queue but not yet appended to the buffer -/
def WPC.pend : WPC → List Nat
  | .afterPopE (.val v) => [v]
  | .dispatch (some (.val v)) => [v]
  | _ => []

/-- the worker holds the stop marker it has just popped -/
def WPC.holdsMarker : WPC → Bool
  | .afterPopE .marker | .dispatch (some .marker) | .flushM | .requeue => true
  | _ => false

/-- the worker is past the stop handling (leaving) -/
def WPC.leaving : WPC → Bool
  | .setStop | .final | .finalFlush | .sendMarker | .done | .crashed => true
  | _ => false

def WPC.flushed : WPC → Bool
  | .setStop | .sendMarker | .done => true
  | _ => false

theorem vals_append (a b : List Item) : vals (a ++ b) = vals a ++ vals b := by
  induction a with
  | nil => rfl
  | cons x r ih => cases x <;> simp [vals, ih]

theorem flat_append (a : List (List Nat)) (b : List Nat) : flat (a ++ [b]) = flat a ++ b := by
  induction a with
  | nil => simp [flat]
  | cons x r ih => simp only [flat, List.cons_append, List.foldr_cons] at ih ⊢; rw [ih]; simp [List.append_assoc]

structure Inv (s : State) : Prop where
  D   : flat s.sink ++ s.buffer ++ s.pc.pend ++ vals s.q = s.added
  Mk  : s.markers = if s.pc = .done then 1 else 0
  S   : s.stopReq = true → (Item.marker ∈ s.q ∨ s.pc.holdsMarker = true ∨ s.pc.leaving = true)
  B0  : s.pc.flushed = true → s.buffer = []
  X1  : s.extStop = false → s.pstop = true → (s.pc = .final ∨ s.pc = .sendMarker ∨ s.pc = .done)
  X2  : s.extStop = false → (s.pc = .final → s.buffer = []) ∧ s.pc ≠ .finalFlush ∧ s.pc ≠ .crashed

theorem inv_init (b : Nat) (f : List Bool) : Inv (init b f) := by
  constructor <;> simp [init, flat, vals, WPC.pend, WPC.holdsMarker, WPC.leaving, WPC.flushed]

theorem inv_add {s : State} (x : Item) (h : Inv s) : Inv (add s x) := by
  obtain ⟨D, Mk, S, B0, X1, X2⟩ := h
  cases x with
  | val v =>
    refine ⟨?_, Mk, ?_, B0, X1, X2⟩
    · simp only [add, vals_append, vals]; rw [← D]; simp [List.append_assoc]
    · intro hs; rcases S hs with h1 | h1 | h1
      · left; simp [add, h1]
      · exact Or.inr (Or.inl h1)
      · exact Or.inr (Or.inr h1)
  | marker =>
    refine ⟨?_, Mk, ?_, B0, X1, X2⟩
    · simp only [add, vals_append, vals]; simpa using D
    · intro _; left; simp [add]

theorem inv_fireTimer {s : State} (k : Nat) (h : Inv s) : Inv (fireTimer s k) := by
  obtain ⟨D, Mk, S, B0, X1, X2⟩ := h
  exact ⟨D, Mk, S, B0, X1, X2⟩

theorem inv_externalStop {s : State} (h : Inv s) : Inv (externalStop s) := by
  obtain ⟨D, Mk, S, B0, X1, X2⟩ := h
  refine ⟨D, Mk, S, B0, ?_, ?_⟩ <;> intro hh <;> simp [externalStop] at hh

theorem inv_optTimer {s s' : State} (h : Inv s) (ho : optTimer s = some s') : Inv s' := by
  unfold optTimer at ho
  split at ho
  · cases ho
    obtain ⟨D, Mk, S, B0, X1, X2⟩ := h
    exact ⟨D, Mk, S, B0, X1, X2⟩
  · cases ho

theorem inv_step {s s' : State} {l : Label} (h : Inv s) (hs : step s = some (s', l)) : Inv s' := by
  obtain ⟨D, Mk, S, B0, X1, X2⟩ := h
  unfold step at hs
  cases hp : s.pc with
  | init0 => rw [hp] at hs; cases hs; constructor <;> simp_all [WPC.pend, WPC.holdsMarker, WPC.leaving, WPC.flushed]
  | loop =>
    rw [hp] at hs; cases hs
    by_cases hps : s.pstop = true
    · simp only [hps, if_true]
      constructor <;> simp_all [WPC.pend, WPC.holdsMarker, WPC.leaving, WPC.flushed]
    · by_cases hb : s.buffer = []
      · simp only [hps, hb, if_true, Bool.false_eq_true, if_false]
        constructor <;> simp_all [WPC.pend, WPC.holdsMarker, WPC.leaving, WPC.flushed]
      · simp only [hps, hb, Bool.false_eq_true, if_false]
        constructor <;> simp_all [WPC.pend, WPC.holdsMarker, WPC.leaving, WPC.flushed]
  | popE =>
    rw [hp] at hs; simp only at hs
    cases hq : s.q with
    | nil => rw [hq] at hs; cases hs
    | cons x r =>
      rw [hq] at hs; cases hs
      constructor <;> simp_all [WPC.pend, WPC.holdsMarker, WPC.leaving, WPC.flushed]
      · cases x <;> simp_all [WPC.pend, vals]
      · intro hsr; rcases S hsr with h1 | h1
        · cases x <;> simp_all
        · simp_all
  | afterPopE x =>
    rw [hp] at hs; cases hs
    constructor <;> simp_all [WPC.pend, WPC.holdsMarker, WPC.leaving, WPC.flushed]
    · cases x <;> simp_all [WPC.pend]
    · intro hsr; cases x <;> simp_all
  | popT =>
    rw [hp] at hs; simp only at hs
    cases hq : s.q with
    | nil =>
      rw [hq] at hs; simp only at hs
      split at hs
      · cases hs; constructor <;> simp_all [WPC.pend, WPC.holdsMarker, WPC.leaving, WPC.flushed]
      · cases hs
    | cons x r =>
      rw [hq] at hs; cases hs
      constructor <;> simp_all [WPC.pend, WPC.holdsMarker, WPC.leaving, WPC.flushed]
      · cases x <;> simp_all [WPC.pend, vals]
      · intro hsr; rcases S hsr with h1 | h1
        · cases x <;> simp_all
        · simp_all
  | dispatch x =>
    rw [hp] at hs
    cases x with
    | none => cases hs; constructor <;> simp_all [WPC.pend, WPC.holdsMarker, WPC.leaving, WPC.flushed]
    | some it =>
      cases it with
      | marker => cases hs; constructor <;> simp_all [WPC.pend, WPC.holdsMarker, WPC.leaving, WPC.flushed]
      | val v => cases hs; constructor <;> simp_all [WPC.pend, WPC.holdsMarker, WPC.leaving, WPC.flushed]
  | flushM =>
    rw [hp] at hs; simp only at hs
    split at hs
    · cases hs; constructor <;> simp_all [WPC.pend, WPC.holdsMarker, WPC.leaving, WPC.flushed, flat_append]
    · cases hs; constructor <;> simp_all [WPC.pend, WPC.holdsMarker, WPC.leaving, WPC.flushed]
  | requeue =>
    rw [hp] at hs; cases hs
    constructor <;> simp_all [WPC.pend, WPC.holdsMarker, WPC.leaving, WPC.flushed, vals]
  | setStop =>
    rw [hp] at hs; cases hs
    constructor <;> simp_all [WPC.pend, WPC.holdsMarker, WPC.leaving, WPC.flushed]
  | second =>
    rw [hp] at hs; cases hs
    by_cases hc : s.batch ≤ s.buffer.length ∨ s.fired s.cur = true
    · by_cases hb : s.buffer = []
      · simp only [hc, hb, if_true]
        constructor <;> simp_all [WPC.pend, WPC.holdsMarker, WPC.leaving, WPC.flushed]
      · simp only [hc, hb, if_true, if_false]
        constructor <;> simp_all [WPC.pend, WPC.holdsMarker, WPC.leaving, WPC.flushed]
    · simp only [hc, if_false]
      constructor <;> simp_all [WPC.pend, WPC.holdsMarker, WPC.leaving, WPC.flushed]
  | flush2 =>
    rw [hp] at hs; simp only at hs
    split at hs
    · cases hs; constructor <;> simp_all [WPC.pend, WPC.holdsMarker, WPC.leaving, WPC.flushed, flat_append]
    · cases hs; constructor <;> simp_all [WPC.pend, WPC.holdsMarker, WPC.leaving, WPC.flushed]
  | newT => rw [hp] at hs; cases hs; constructor <;> simp_all [WPC.pend, WPC.holdsMarker, WPC.leaving, WPC.flushed]
  | final =>
    rw [hp] at hs; cases hs
    by_cases hb : s.buffer = []
    · simp only [hb, if_true]
      constructor <;> simp_all [WPC.pend, WPC.holdsMarker, WPC.leaving, WPC.flushed]
    · simp only [hb, if_false]
      constructor <;> simp_all [WPC.pend, WPC.holdsMarker, WPC.leaving, WPC.flushed]
  | finalFlush =>
    rw [hp] at hs; simp only at hs
    split at hs
    · cases hs; constructor <;> simp_all [WPC.pend, WPC.holdsMarker, WPC.leaving, WPC.flushed, flat_append]
    · cases hs; constructor <;> simp_all [WPC.pend, WPC.holdsMarker, WPC.leaving, WPC.flushed]
  | sendMarker => rw [hp] at hs; cases hs; constructor <;> simp_all [WPC.pend, WPC.holdsMarker, WPC.leaving, WPC.flushed]
  | done => rw [hp] at hs; cases hs
  | crashed => rw [hp] at hs; cases hs

theorem reach_inv {s : State} (h : sys.Reach s) : Inv s := by
  refine Sys.Reach.invariant sys (P := Inv) ?_ ?_ ?_ h
  · rintro s ⟨b, f, rfl⟩; exact inv_init b f
  · rintro s s' hi (⟨x, rfl⟩ | ⟨k, rfl⟩ | rfl | ho)
    · exact inv_add x hi
    · exact inv_fireTimer k hi
    · exact inv_externalStop hi
    · exact inv_optTimer hi ho
  · intro s s' t l hi hs
    simp only [sys] at hs
    split at hs
    · exact inv_step hi hs
    · cases hs

end MoThreads.TQWorker
