import MoThreads.Proofs.TillC_c3
namespace MoThreads.Till
set_option maxHeartbeats 4000000

theorem stepC_c3b {s s' : State} {t : Nat} {l : Label} {d : Int} {id : Nat} {g0 : Bool} (h : Inv s) (ht : t ≠ 0) (hp : s.cpc t = .c3b d id g0)
    (hs : stepC s t = some (s', l)) : Inv s' := by
  unfold stepC at hs; rw [hp] at hs; simp only at hs
  have hmkt := h.Mk t id (by simp [hp, CPC.making])
  have huniq : ∀ u, u ≠ t → (s.cpc u).making ≠ some id := fun u hu hm => hu ((h.Mk u id hm).1.symm.trans hmkt.1)
  have hum : ∀ u id', (s.cpc u).unregistered = some id' → (s.cpc u).making = some id' := fun u id' hu => by
    cases hc : s.cpc u <;> simp_all [CPC.unregistered, CPC.making]
  split at hs
  · rename_i hg
    cases hs
    have hg0 : g0 = true := by cases g0 <;> simp_all
    subst hg0
    have hnps := h.F1 t d id hp
    have hdd := h.Dd t d id (by simp [hp, CPC.pend])
    have hunt := h.Un t id (by simp [hp, CPC.unregistered])
    copen
    case P => simp only [minI]; split <;> omega
    case Un =>
      intro u id' hu
      by_cases hut : u = t
      · subst hut; simp [CPC.unregistered] at hu
      · simp only [hut, if_false] at hu
        have h1 := Un u id' hu
        have : id' ≠ id := fun he => huniq u hut (he ▸ hum u id' hu)
        simp [this, h1]
    case Mk =>
      intro u id' hu
      by_cases hut : u = t
      · subst hut; simp [CPC.making] at hu
      · simp only [hut, if_false] at hu; exact Mk u id' hu
    crest
  · cases hs
    copen
    case Un =>
      intro u id' hu
      by_cases hut : u = t
      · subst hut; simp [CPC.unregistered] at hu
      · simp only [hut, if_false] at hu; exact Un u id' hu
    crest
end MoThreads.Till
