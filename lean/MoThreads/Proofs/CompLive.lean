/-
  M2: operands of a live, untriggered composite stay alive (the part of C03/C04 that the pinned tree violated for AND).
-/
import MoThreads.Proofs.CompBase
namespace MoThreads.Composite
set_option maxHeartbeats 1000000

/-- operands of an expression under construction -/
def Act.operands : Act → List Nat
  | .orTest1 x y _ | .orTest2 x y _ | .orNew x y _ | .andNew x y => [x, y]
  | _ => []

structure InvL (s : State) : Prop where
  F1  : ∀ o, o < s.nOr → (s.ors o).target < s.nSig ∧ (s.sigs (s.ors o).target).built = .orOut o
  F2  : ∀ n, n < s.nAnd → (s.ands n).target < s.nSig ∧ (s.sigs (s.ands n).target).built = .andOut n
  F3  : ∀ z o, (s.sigs z).built = .orOut o → o < s.nOr ∧ z = (s.ors o).target
  F4  : ∀ z n, (s.sigs z).built = .andOut n → n < s.nAnd ∧ z = (s.ands n).target
  F5  : ∀ z, s.nSig ≤ z → (s.sigs z).alive = false ∧ (s.sigs z).jobs = [] ∧ (s.sigs z).built = .leaf
  F6  : ∀ o, o < s.nOr → (∀ d, d ∈ (s.ors o).deps0 → d < s.nSig) ∧ ((s.ors o).deps = (s.ors o).deps0 ∨ (s.ors o).deps = [])
  F7  : ∀ n, n < s.nAnd → (∀ d, d ∈ (s.ands n).deps0 → d < s.nSig) ∧ ((s.ands n).deps = (s.ands n).deps0 ∨ (s.ands n).deps = [])
  M1  : ∀ a z, InTodos s a → z ∈ a.sigs → z < s.nSig
  M1a : ∀ a z, InTodos s a → z ∈ a.operands → (s.sigs z).alive = true
  M2o : ∀ a j o, InTodos s a → a.job = some j → j.orObj = some o → o < s.nOr
  M2a : ∀ a j n, InTodos s a → a.job = some j → j.andObj = some n → n < s.nAnd
  M3o : ∀ z j o, j ∈ (s.sigs z).jobs → j.orObj = some o → o < s.nOr
  M3a : ∀ z j n, j ∈ (s.sigs z).jobs → j.andObj = some n → n < s.nAnd
  B3  : ∀ z o, Job.orCleanup o ∈ (s.sigs z).jobs → z = (s.ors o).target
  B3t : ∀ z o, InTodos s (.thenJ z (.orCleanup o)) → z = (s.ors o).target
  B3a : ∀ z n, Job.andCleanup n ∈ (s.sigs z).jobs → z = (s.ands n).target
  B3at : ∀ z n, InTodos s (.thenJ z (.andCleanup n)) → z = (s.ands n).target
  B4  : ∀ z j, InTodos s (.removeJ z j) → ∃ o i, j = .orHook o i
  Jr  : ∀ o, InTodos s (.run (.orCleanup o)) → (s.sigs (s.ors o).target).go = true ∨ (s.sigs (s.ors o).target).alive = false
  Jv  : ∀ o, o < s.nOr → (s.ors o).deps ≠ (s.ors o).deps0 → (s.sigs (s.ors o).target).go = true ∨ (s.sigs (s.ors o).target).alive = false
  Jra : ∀ n, InTodos s (.run (.andCleanup n)) → (s.sigs (s.ands n).target).go = true
  Jva : ∀ n, n < s.nAnd → (s.ands n).deps ≠ (s.ands n).deps0 → (s.sigs (s.ands n).target).go = true
  Ka  : ∀ n, n < s.nAnd → (s.sigs (s.ands n).target).alive = true → (s.sigs (s.ands n).target).go = false →
          Job.andCleanup n ∈ (s.sigs (s.ands n).target).jobs ∨ InTodos s (.thenJ (s.ands n).target (.andCleanup n))
  Lo  : ∀ o, o < s.nOr → (s.sigs (s.ors o).target).alive = true → (s.sigs (s.ors o).target).go = false →
          ∀ d, d ∈ (s.ors o).deps0 → d < s.nSig ∧ (s.sigs d).alive = true
  La  : ∀ n, n < s.nAnd → (s.sigs (s.ands n).target).alive = true → (s.sigs (s.ands n).target).go = false →
          ∀ d, d ∈ (s.ands n).deps0 → d < s.nSig ∧ (s.sigs d).alive = true

theorem inTodos_init (a : Act) : ¬ InTodos init a := by
  rintro ⟨t, _, h⟩; simp [init] at h

theorem init_jobs (z : Nat) : (init.sigs z).jobs = [] := by
  simp only [init]; split <;> (try split) <;> rfl
theorem init_built (z : Nat) : (init.sigs z).built = .leaf := by
  simp only [init]; split <;> (try split) <;> rfl
theorem init_alive (z : Nat) (h : 2 ≤ z) : (init.sigs z).alive = false := by
  have h0 : ¬ z = 0 := by omega
  have h1 : ¬ z = 1 := by omega
  simp [init, h0, h1, deadSig]

theorem invL_init : InvL init := by
  constructor
  case F1 => intro o h; simp [init] at h
  case F2 => intro n h; simp [init] at h
  case F3 => intro z o h; rw [init_built] at h; cases h
  case F4 => intro z n h; rw [init_built] at h; cases h
  case F5 => intro z hz; exact ⟨init_alive z hz, init_jobs z, init_built z⟩
  case F6 => intro o h; simp [init] at h
  case F7 => intro n h; simp [init] at h
  case M1 => intro a z h; exact absurd h (inTodos_init _)
  case M1a => intro a z h; exact absurd h (inTodos_init _)
  case M2o => intro a j o h; exact absurd h (inTodos_init _)
  case M2a => intro a j n h; exact absurd h (inTodos_init _)
  case M3o => intro z j o h; rw [init_jobs] at h; cases h
  case M3a => intro z j n h; rw [init_jobs] at h; cases h
  case B3 => intro z o h; rw [init_jobs] at h; cases h
  case B3t => intro z o h; exact absurd h (inTodos_init _)
  case B3a => intro z n h; rw [init_jobs] at h; cases h
  case B3at => intro z n h; exact absurd h (inTodos_init _)
  case B4 => intro z j h; exact absurd h (inTodos_init _)
  case Jr => intro o h; exact absurd h (inTodos_init _)
  case Jv => intro o h; simp [init] at h
  case Jra => intro n h; exact absurd h (inTodos_init _)
  case Jva => intro n h; simp [init] at h
  case Ka => intro n h; simp [init] at h
  case Lo => intro o h; simp [init] at h
  case La => intro n h; simp [init] at h

/-- what the invariant asks of a newly pending action -/
structure ActOK (s : State) (b : Act) : Prop where
  sig : ∀ z, z ∈ b.sigs → z < s.nSig
  opd : ∀ z, z ∈ b.operands → (s.sigs z).alive = true
  jo  : ∀ j o, b.job = some j → j.orObj = some o → o < s.nOr
  ja  : ∀ j n, b.job = some j → j.andObj = some n → n < s.nAnd
  tc  : ∀ z o, b = .thenJ z (.orCleanup o) → z = (s.ors o).target
  tca : ∀ z n, b = .thenJ z (.andCleanup n) → z = (s.ands n).target
  rm  : ∀ z j, b = .removeJ z j → ∃ o i, j = .orHook o i
  rc  : ∀ o, b = .run (.orCleanup o) → (s.sigs (s.ors o).target).go = true ∨ (s.sigs (s.ors o).target).alive = false
  rca : ∀ n, b = .run (.andCleanup n) → (s.sigs (s.ands n).target).go = true

theorem actOK_of_inv {s : State} (h : InvL s) {b : Act} (hb : InTodos s b) : ActOK s b :=
  ⟨fun z hz => h.M1 b z hb hz, fun z hz => h.M1a b z hb hz, fun j o hj ho => h.M2o b j o hb hj ho, fun j n hj hn => h.M2a b j n hb hj hn,
   fun z o he => h.B3t z o (he ▸ hb), fun z n he => h.B3at z n (he ▸ hb), fun z j he => h.B4 z j (he ▸ hb),
   fun o he => h.Jr o (he ▸ hb), fun n he => h.Jra n (he ▸ hb)⟩

/-- a step that only changes the pending actions of one thread -/
theorem invL_todo_only {s s' : State} {t : Nat} {a0 : Act} {rest new : List Act} (h : InvL s) (st : TodoStep s s' t a0 rest new)
    (e1 : s'.sigs = s.sigs) (e2 : s'.nSig = s.nSig) (e3 : s'.ors = s.ors) (e4 : s'.nOr = s.nOr) (e5 : s'.ands = s.ands) (e6 : s'.nAnd = s.nAnd)
    (hnew : ∀ b, b ∈ new → ActOK s b)
    (hka : ∀ n, a0 = .thenJ (s.ands n).target (.andCleanup n) → (s.sigs (s.ands n).target).go = true ∨ Job.andCleanup n ∈ (s.sigs (s.ands n).target).jobs) :
    InvL s' := by
  have ok : ∀ b, InTodos s' b → ActOK s b := fun b hb => by
    rcases st.sub hb with h1 | h1
    · exact hnew b h1
    · exact actOK_of_inv h h1
  constructor
  case F1 => intro o ho; rw [e3, e1, e2]; rw [e4] at ho; exact h.F1 o ho
  case F2 => intro n hn; rw [e5, e1, e2]; rw [e6] at hn; exact h.F2 n hn
  case F3 => intro z o hz; rw [e1] at hz; rw [e3, e4]; exact h.F3 z o hz
  case F4 => intro z n hz; rw [e1] at hz; rw [e5, e6]; exact h.F4 z n hz
  case F5 => intro z hz; rw [e1]; rw [e2] at hz; exact h.F5 z hz
  case F6 => intro o ho; rw [e3, e2]; rw [e4] at ho; exact h.F6 o ho
  case F7 => intro n hn; rw [e5, e2]; rw [e6] at hn; exact h.F7 n hn
  case M1 => intro a z ha hz; rw [e2]; exact (ok a ha).sig z hz
  case M1a => intro a z ha hz; rw [e1]; exact (ok a ha).opd z hz
  case M2o => intro a j o ha hj ho; rw [e4]; exact (ok a ha).jo j o hj ho
  case M2a => intro a j n ha hj hn; rw [e6]; exact (ok a ha).ja j n hj hn
  case M3o => intro z j o hj ho; rw [e1] at hj; rw [e4]; exact h.M3o z j o hj ho
  case M3a => intro z j n hj hn; rw [e1] at hj; rw [e6]; exact h.M3a z j n hj hn
  case B3 => intro z o hj; rw [e1] at hj; rw [e3]; exact h.B3 z o hj
  case B3t => intro z o ha; rw [e3]; exact (ok _ ha).tc z o rfl
  case B3a => intro z n hj; rw [e1] at hj; rw [e5]; exact h.B3a z n hj
  case B3at => intro z n ha; rw [e5]; exact (ok _ ha).tca z n rfl
  case B4 => intro z j ha; exact (ok _ ha).rm z j rfl
  case Jr => intro o ha; rw [e1, e3]; exact (ok _ ha).rc o rfl
  case Jv => intro o ho hd; rw [e3] at hd; rw [e1, e3]; rw [e4] at ho; exact h.Jv o ho hd
  case Jra => intro n ha; rw [e1, e5]; exact (ok _ ha).rca n rfl
  case Jva => intro n hn hd; rw [e5] at hd; rw [e1, e5]; rw [e6] at hn; exact h.Jva n hn hd
  case Ka =>
    intro n hn hal hgo
    rw [e1, e5] at hal hgo ⊢
    rw [e6] at hn
    rcases h.Ka n hn hal hgo with h1 | h1
    · exact Or.inl h1
    · by_cases heq : Act.thenJ (s.ands n).target (.andCleanup n) = a0
      · rcases hka n heq.symm with h2 | h2
        · rw [hgo] at h2; cases h2
        · exact Or.inl h2
      · exact Or.inr (st.keep h1 heq)
  case Lo => intro o ho hal hgo d hd; rw [e1, e3] at *; rw [e2]; rw [e4] at ho; exact h.Lo o ho hal hgo d hd
  case La => intro n hn hal hgo d hd; rw [e1, e5] at *; rw [e2]; rw [e6] at hn; exact h.La n hn hal hgo d hd

theorem upd_same {α : Type} (f : Nat → α) (k : Nat) (v : α) : upd f k v k = v := by simp [upd]
theorem upd_other {α : Type} (f : Nat → α) {k j : Nat} (v : α) (h : j ≠ k) : upd f k v j = f j := by simp [upd, h]

/-- a step that rewrites one signal (same liveness and origin, flag only rises, jobs only move) and one thread's pending actions -/
theorem invL_update {s s' : State} {t z : Nat} {v : Sig} {a0 : Act} {rest new : List Act} (h : InvL s) (st : TodoStep s s' t a0 rest new)
    (hz : z < s.nSig) (e1 : s'.sigs = upd s.sigs z v) (e2 : s'.nSig = s.nSig) (e3 : s'.ors = s.ors) (e4 : s'.nOr = s.nOr) (e5 : s'.ands = s.ands) (e6 : s'.nAnd = s.nAnd)
    (hal : v.alive = (s.sigs z).alive) (hbu : v.built = (s.sigs z).built)
    (hgo : (s.sigs z).go = true → v.go = true)
    (hjobs : ∀ j, j ∈ v.jobs → j ∈ (s.sigs z).jobs ∨ a0 = .thenJ z j)
    (hkeep : ∀ n, Job.andCleanup n ∈ (s.sigs z).jobs → Job.andCleanup n ∈ v.jobs ∨ v.go = true)
    (hnew : ∀ b, b ∈ new → ActOK s' b)
    (hka : ∀ n, a0 = .thenJ (s.ands n).target (.andCleanup n) → (s'.sigs (s.ands n).target).go = true ∨ Job.andCleanup n ∈ (s'.sigs (s.ands n).target).jobs) :
    InvL s' := by
  have alive_eq : ∀ w, (s'.sigs w).alive = (s.sigs w).alive := by
    intro w; rw [e1]; by_cases hw : w = z
    · subst hw; rw [upd_same]; exact hal
    · rw [upd_other _ _ hw]
  have built_eq : ∀ w, (s'.sigs w).built = (s.sigs w).built := by
    intro w; rw [e1]; by_cases hw : w = z
    · subst hw; rw [upd_same]; exact hbu
    · rw [upd_other _ _ hw]
  have go_mono : ∀ w, (s.sigs w).go = true → (s'.sigs w).go = true := by
    intro w hw; rw [e1]; by_cases hwz : w = z
    · subst hwz; rw [upd_same]; exact hgo hw
    · rw [upd_other _ _ hwz]; exact hw
  have go_back : ∀ w, (s'.sigs w).go = false → (s.sigs w).go = false := by
    intro w hw; cases hg : (s.sigs w).go with
    | false => rfl
    | true => rw [go_mono w hg] at hw; cases hw
  have jobs_src : ∀ w j, j ∈ (s'.sigs w).jobs → j ∈ (s.sigs w).jobs ∨ (w = z ∧ a0 = .thenJ z j) := by
    intro w j hj; rw [e1] at hj; by_cases hwz : w = z
    · subst hwz; rw [upd_same] at hj
      rcases hjobs j hj with h1 | h1
      · exact Or.inl h1
      · exact Or.inr ⟨rfl, h1⟩
    · rw [upd_other _ _ hwz] at hj; exact Or.inl hj
  have old_ok : ∀ b, InTodos s b → ActOK s' b := fun b hb => by
    have o := actOK_of_inv h hb
    refine ⟨fun z hz => by rw [e2]; exact o.sig z hz, fun z hz => by rw [alive_eq]; exact o.opd z hz,
      fun j o' hj ho => by rw [e4]; exact o.jo j o' hj ho, fun j n hj hn => by rw [e6]; exact o.ja j n hj hn,
      fun z o' he => by rw [e3]; exact o.tc z o' he, fun z n he => by rw [e5]; exact o.tca z n he, o.rm, ?_, ?_⟩
    · intro o' he; rw [e3, alive_eq]
      rcases o.rc o' he with h1 | h1
      · exact Or.inl (go_mono _ h1)
      · exact Or.inr h1
    · intro n he; rw [e5]; exact go_mono _ (o.rca n he)
  have ok : ∀ b, InTodos s' b → ActOK s' b := fun b hb => by
    rcases st.sub hb with h1 | h1
    · exact hnew b h1
    · exact old_ok b h1
  have hd := st.head
  constructor
  case F1 => intro o ho; rw [e3, built_eq, e2]; rw [e4] at ho; exact h.F1 o ho
  case F2 => intro n hn; rw [e5, built_eq, e2]; rw [e6] at hn; exact h.F2 n hn
  case F3 => intro w o hw; rw [built_eq] at hw; rw [e3, e4]; exact h.F3 w o hw
  case F4 => intro w n hw; rw [built_eq] at hw; rw [e5, e6]; exact h.F4 w n hw
  case F5 =>
    intro w hw; rw [e2] at hw
    have := h.F5 w hw
    have hwz : w ≠ z := by omega
    exact ⟨by rw [alive_eq]; exact this.1, by rw [e1, upd_other _ _ hwz]; exact this.2.1, by rw [built_eq]; exact this.2.2⟩
  case F6 => intro o ho; rw [e3, e2]; rw [e4] at ho; exact h.F6 o ho
  case F7 => intro n hn; rw [e5, e2]; rw [e6] at hn; exact h.F7 n hn
  case M1 => intro a w ha hw; exact (ok a ha).sig w hw
  case M1a => intro a w ha hw; exact (ok a ha).opd w hw
  case M2o => intro a j o ha hj ho; exact (ok a ha).jo j o hj ho
  case M2a => intro a j n ha hj hn; exact (ok a ha).ja j n hj hn
  case M3o =>
    intro w j o hj ho; rw [e4]
    rcases jobs_src w j hj with h1 | ⟨_, h1⟩
    · exact h.M3o w j o h1 ho
    · exact h.M2o a0 j o hd (by rw [h1]; rfl) ho
  case M3a =>
    intro w j n hj hn; rw [e6]
    rcases jobs_src w j hj with h1 | ⟨_, h1⟩
    · exact h.M3a w j n h1 hn
    · exact h.M2a a0 j n hd (by rw [h1]; rfl) hn
  case B3 =>
    intro w o hj; rw [e3]
    rcases jobs_src w _ hj with h1 | ⟨hwz, h1⟩
    · exact h.B3 w o h1
    · rw [hwz]; exact h.B3t z o (h1 ▸ hd)
  case B3t => intro w o ha; exact (ok _ ha).tc w o rfl
  case B3a =>
    intro w n hj; rw [e5]
    rcases jobs_src w _ hj with h1 | ⟨hwz, h1⟩
    · exact h.B3a w n h1
    · rw [hwz]; exact h.B3at z n (h1 ▸ hd)
  case B3at => intro w n ha; exact (ok _ ha).tca w n rfl
  case B4 => intro w j ha; exact (ok _ ha).rm w j rfl
  case Jr => intro o ha; exact (ok _ ha).rc o rfl
  case Jv =>
    intro o ho hdp; rw [e3] at hdp ⊢; rw [e4] at ho; rw [alive_eq]
    rcases h.Jv o ho hdp with h1 | h1
    · exact Or.inl (go_mono _ h1)
    · exact Or.inr h1
  case Jra => intro n ha; exact (ok _ ha).rca n rfl
  case Jva => intro n hn hdp; rw [e5] at hdp ⊢; rw [e6] at hn; exact go_mono _ (h.Jva n hn hdp)
  case Ka =>
    intro n hn hal' hgo'
    rw [e5] at hal' hgo' ⊢
    rw [e6] at hn
    rw [alive_eq] at hal'
    rcases h.Ka n hn hal' (go_back _ hgo') with h1 | h1
    · -- the cleanup job was registered: it is still there
      by_cases hcz : (s.ands n).target = z
      · rw [hcz] at h1 hgo' ⊢
        rcases hkeep n h1 with h2 | h2
        · left; rw [e1, upd_same]; exact h2
        · rw [e1, upd_same] at hgo'; rw [hgo'] at h2; cases h2
      · left; rw [e1, upd_other _ _ hcz]; exact h1
    · by_cases heq : Act.thenJ (s.ands n).target (.andCleanup n) = a0
      · rcases hka n heq.symm with h2 | h2
        · rw [hgo'] at h2; cases h2
        · exact Or.inl h2
      · exact Or.inr (st.keep h1 heq)
  case Lo =>
    intro o ho hal' hgo' d hd'
    rw [e3] at hal' hgo' hd'; rw [e4] at ho; rw [alive_eq] at hal'
    have := h.Lo o ho hal' (go_back _ hgo') d hd'
    exact ⟨by rw [e2]; exact this.1, by rw [alive_eq]; exact this.2⟩
  case La =>
    intro n hn hal' hgo' d hd'
    rw [e5] at hal' hgo' hd'; rw [e6] at hn; rw [alive_eq] at hal'
    have := h.La n hn hal' (go_back _ hgo') d hd'
    exact ⟨by rw [e2]; exact this.1, by rw [alive_eq]; exact this.2⟩

/-- a step that rewrites composite objects (operand list emptied by the cleanup that is running, countdown) and one thread's actions -/
theorem invL_objs {s s' : State} {t : Nat} {a0 : Act} {rest new : List Act} (h : InvL s) (st : TodoStep s s' t a0 rest new)
    (e1 : s'.sigs = s.sigs) (e2 : s'.nSig = s.nSig) (e4 : s'.nOr = s.nOr) (e6 : s'.nAnd = s.nAnd)
    (ho : ∀ o, (s'.ors o).target = (s.ors o).target ∧ (s'.ors o).deps0 = (s.ors o).deps0 ∧
            ((s'.ors o).deps = (s.ors o).deps ∨ ((s'.ors o).deps = [] ∧ a0 = .run (.orCleanup o))))
    (ha : ∀ n, (s'.ands n).target = (s.ands n).target ∧ (s'.ands n).deps0 = (s.ands n).deps0 ∧
            ((s'.ands n).deps = (s.ands n).deps ∨ ((s'.ands n).deps = [] ∧ a0 = .run (.andCleanup n))))
    (hnew : ∀ b, b ∈ new → ActOK s' b)
    (hne : ∀ z j, a0 ≠ .thenJ z j) : InvL s' := by
  have hd := st.head
  have old_ok : ∀ b, InTodos s b → ActOK s' b := fun b hb => by
    have o := actOK_of_inv h hb
    refine ⟨fun z hz => by rw [e2]; exact o.sig z hz, fun z hz => by rw [e1]; exact o.opd z hz,
      fun j o' hj ho' => by rw [e4]; exact o.jo j o' hj ho', fun j n hj hn => by rw [e6]; exact o.ja j n hj hn,
      fun z o' he => by rw [(ho o').1]; exact o.tc z o' he, fun z n he => by rw [(ha n).1]; exact o.tca z n he, o.rm,
      fun o' he => by rw [e1, (ho o').1]; exact o.rc o' he, fun n he => by rw [e1, (ha n).1]; exact o.rca n he⟩
  have ok : ∀ b, InTodos s' b → ActOK s' b := fun b hb => by
    rcases st.sub hb with h1 | h1
    · exact hnew b h1
    · exact old_ok b h1
  constructor
  case F1 => intro o hlt; rw [(ho o).1, e1, e2]; rw [e4] at hlt; exact h.F1 o hlt
  case F2 => intro n hlt; rw [(ha n).1, e1, e2]; rw [e6] at hlt; exact h.F2 n hlt
  case F3 => intro w o hw; rw [e1] at hw; rw [(ho o).1, e4]; exact h.F3 w o hw
  case F4 => intro w n hw; rw [e1] at hw; rw [(ha n).1, e6]; exact h.F4 w n hw
  case F5 => intro w hw; rw [e1]; rw [e2] at hw; exact h.F5 w hw
  case F6 =>
    intro o hlt; rw [e4] at hlt; rw [(ho o).2.1, e2]
    refine ⟨(h.F6 o hlt).1, ?_⟩
    rcases (ho o).2.2 with h1 | ⟨h1, _⟩
    · rw [h1]; exact (h.F6 o hlt).2
    · exact Or.inr h1
  case F7 =>
    intro n hlt; rw [e6] at hlt; rw [(ha n).2.1, e2]
    refine ⟨(h.F7 n hlt).1, ?_⟩
    rcases (ha n).2.2 with h1 | ⟨h1, _⟩
    · rw [h1]; exact (h.F7 n hlt).2
    · exact Or.inr h1
  case M1 => intro a w haa hw; exact (ok a haa).sig w hw
  case M1a => intro a w haa hw; exact (ok a haa).opd w hw
  case M2o => intro a j o haa hj hoo; exact (ok a haa).jo j o hj hoo
  case M2a => intro a j n haa hj hn; exact (ok a haa).ja j n hj hn
  case M3o => intro w j o hj hoo; rw [e1] at hj; rw [e4]; exact h.M3o w j o hj hoo
  case M3a => intro w j n hj hn; rw [e1] at hj; rw [e6]; exact h.M3a w j n hj hn
  case B3 => intro w o hj; rw [e1] at hj; rw [(ho o).1]; exact h.B3 w o hj
  case B3t => intro w o haa; exact (ok _ haa).tc w o rfl
  case B3a => intro w n hj; rw [e1] at hj; rw [(ha n).1]; exact h.B3a w n hj
  case B3at => intro w n haa; exact (ok _ haa).tca w n rfl
  case B4 => intro w j haa; exact (ok _ haa).rm w j rfl
  case Jr => intro o haa; exact (ok _ haa).rc o rfl
  case Jv =>
    intro o hlt hdp; rw [e4] at hlt; rw [(ho o).2.1] at hdp; rw [e1, (ho o).1]
    rcases (ho o).2.2 with h1 | ⟨_, h1⟩
    · rw [h1] at hdp; exact h.Jv o hlt hdp
    · exact h.Jr o (h1 ▸ hd)
  case Jra => intro n haa; exact (ok _ haa).rca n rfl
  case Jva =>
    intro n hlt hdp; rw [e6] at hlt; rw [(ha n).2.1] at hdp; rw [e1, (ha n).1]
    rcases (ha n).2.2 with h1 | ⟨_, h1⟩
    · rw [h1] at hdp; exact h.Jva n hlt hdp
    · exact h.Jra n (h1 ▸ hd)
  case Ka =>
    intro n hlt hal hgo; rw [e6] at hlt; rw [e1, (ha n).1] at hal hgo ⊢
    rcases h.Ka n hlt hal hgo with h1 | h1
    · exact Or.inl h1
    · exact Or.inr (st.keep h1 (fun heq => hne _ _ heq.symm))
  case Lo =>
    intro o hlt hal hgo d hdd; rw [e4] at hlt; rw [e1, (ho o).1] at hal hgo; rw [(ho o).2.1] at hdd
    rw [e1, e2]; exact h.Lo o hlt hal hgo d hdd
  case La =>
    intro n hlt hal hgo d hdd; rw [e6] at hlt; rw [e1, (ha n).1] at hal hgo; rw [(ha n).2.1] at hdd
    rw [e1, e2]; exact h.La n hlt hal hgo d hdd

theorem ActOK.mk_thenJ {s : State} {d : Nat} {j : Job} (hd : d < s.nSig) (hjo : ∀ o, j.orObj = some o → o < s.nOr)
    (hja : ∀ n, j.andObj = some n → n < s.nAnd) (htc : ∀ o, j = .orCleanup o → d = (s.ors o).target)
    (htca : ∀ n, j = .andCleanup n → d = (s.ands n).target) : ActOK s (.thenJ d j) := by
  refine ⟨?_, ?_, ?_, ?_, ?_, ?_, ?_, ?_, ?_⟩
  · intro z hz; simp only [Act.sigs, List.mem_singleton] at hz; rw [hz]; exact hd
  · intro z hz; simp [Act.operands] at hz
  · intro j' o hj ho; simp only [Act.job, Option.some.injEq] at hj; rw [← hj] at ho; exact hjo o ho
  · intro j' n hj hn; simp only [Act.job, Option.some.injEq] at hj; rw [← hj] at hn; exact hja n hn
  · intro z o he; injection he with h1 h2; rw [← h1]; exact htc o h2
  · intro z n he; injection he with h1 h2; rw [← h1]; exact htca n h2
  · intro z j' he; cases he
  · intro o he; cases he
  · intro n he; cases he

theorem ActOK.mk_plain {s : State} {b : Act} (hs : ∀ z, z ∈ b.sigs → z < s.nSig) (ho : ∀ z, z ∈ b.operands → (s.sigs z).alive = true)
    (hj : b.job = none) : ActOK s b := by
  refine ⟨hs, ho, ?_, ?_, ?_, ?_, ?_, ?_, ?_⟩
  · intro j o h1; rw [hj] at h1; cases h1
  · intro j n h1; rw [hj] at h1; cases h1
  · intro z o he; rw [he] at hj; cases hj
  · intro z n he; rw [he] at hj; cases hj
  · intro z j he; rw [he] at hj; cases hj
  · intro o he; rw [he] at hj; cases hj
  · intro n he; rw [he] at hj; cases hj

theorem ActOK.mk_run {s : State} {j : Job} (hjo : ∀ o, j.orObj = some o → o < s.nOr) (hja : ∀ n, j.andObj = some n → n < s.nAnd)
    (hrc : ∀ o, j = .orCleanup o → (s.sigs (s.ors o).target).go = true ∨ (s.sigs (s.ors o).target).alive = false)
    (hrca : ∀ n, j = .andCleanup n → (s.sigs (s.ands n).target).go = true) : ActOK s (.run j) := by
  refine ⟨?_, ?_, ?_, ?_, ?_, ?_, ?_, ?_, ?_⟩
  · intro z hz; simp [Act.sigs] at hz
  · intro z hz; simp [Act.operands] at hz
  · intro j' o hj ho; simp only [Act.job, Option.some.injEq] at hj; rw [← hj] at ho; exact hjo o ho
  · intro j' n hj hn; simp only [Act.job, Option.some.injEq] at hj; rw [← hj] at hn; exact hja n hn
  · intro z o he; cases he
  · intro z n he; cases he
  · intro z j' he; cases he
  · intro o he; injection he with h1; exact hrc o h1
  · intro n he; injection he with h1; exact hrca n h1

theorem ActOK.mk_removeJ {s : State} {d o i : Nat} (hd : d < s.nSig) (ho : o < s.nOr) : ActOK s (.removeJ d (.orHook o i)) := by
  refine ⟨?_, ?_, ?_, ?_, ?_, ?_, ?_, ?_, ?_⟩
  · intro z hz; simp only [Act.sigs, List.mem_singleton] at hz; rw [hz]; exact hd
  · intro z hz; simp [Act.operands] at hz
  · intro j' o' hj ho'; simp only [Act.job, Option.some.injEq] at hj; rw [← hj] at ho'; simp only [Job.orObj, Option.some.injEq] at ho'; omega
  · intro j' n hj hn; simp only [Act.job, Option.some.injEq] at hj; rw [← hj] at hn; simp [Job.andObj] at hn
  · intro z o' he; cases he
  · intro z n he; cases he
  · intro z j' he; injection he with h1 h2; exact ⟨o, i, h2.symm⟩
  · intro o' he; cases he
  · intro n he; cases he

theorem invL_andNew {s s' : State} {t x y : Nat} {rest : List Act} (h : InvL s)
    (st : TodoStep s s' t (Act.andNew x y) rest [.thenJ x (.andDone s.nAnd 0), .thenJ y (.andDone s.nAnd 1), .thenJ s.nSig (.andCleanup s.nAnd), .ret s.nSig false])
    (e1 : s'.sigs = upd s.sigs s.nSig (freshSig (.andOut s.nAnd))) (e2 : s'.nSig = s.nSig + 1)
    (e3 : s'.ands = upd s.ands s.nAnd { target := s.nSig, remaining := 2, deps := [x, y], deps0 := [x, y] }) (e4 : s'.nAnd = s.nAnd + 1)
    (e5 : s'.ors = s.ors) (e6 : s'.nOr = s.nOr) : InvL s' := by
  have hd := st.head
  have hx : x < s.nSig := h.M1 _ x hd (by simp [Act.sigs])
  have hy : y < s.nSig := h.M1 _ y hd (by simp [Act.sigs])
  have hxa : (s.sigs x).alive = true := h.M1a _ x hd (by simp [Act.operands])
  have hya : (s.sigs y).alive = true := h.M1a _ y hd (by simp [Act.operands])
  have sig_old : ∀ w, w < s.nSig → s'.sigs w = s.sigs w := fun w hw => by rw [e1, upd_other _ _ (by omega)]
  have sig_new : s'.sigs s.nSig = freshSig (.andOut s.nAnd) := by rw [e1, upd_same]
  have obj_old : ∀ k, k < s.nAnd → s'.ands k = s.ands k := fun k hk => by rw [e3, upd_other _ _ (by omega)]
  have obj_new : s'.ands s.nAnd = { target := s.nSig, remaining := 2, deps := [x, y], deps0 := [x, y] } := by rw [e3, upd_same]
  have fresh := h.F5 s.nSig (Nat.le_refl _)
  have sig_any : ∀ w, w ≠ s.nSig → s'.sigs w = s.sigs w := fun w hw => by rw [e1, upd_other _ _ hw]
  have jobs_eq : ∀ w, (s'.sigs w).jobs = (s.sigs w).jobs := by
    intro w; by_cases hw : w = s.nSig
    · subst hw; rw [sig_new, fresh.2.1]; rfl
    · rw [sig_any w hw]
  have alive_old : ∀ w, (s.sigs w).alive = true → (s'.sigs w).alive = true := by
    intro w hw; by_cases hws : w = s.nSig
    · subst hws; rw [fresh.1] at hw; cases hw
    · rw [sig_any w hws]; exact hw
  have old_ok : ∀ b, InTodos s b → ActOK s' b := fun b hb => by
    have o := actOK_of_inv h hb
    refine ⟨fun z hz => by rw [e2]; have := o.sig z hz; omega, fun z hz => alive_old z (o.opd z hz), ?_, ?_, ?_, ?_, o.rm, ?_, ?_⟩
    · intro j k hj hk; have := o.jo j k hj hk; rw [e6]; exact this
    · intro j k hj hk; have := o.ja j k hj hk; rw [e4]; omega
    · intro z k he; have hk := h.M2o b _ k hb (by rw [he]; rfl) rfl
      rw [e5]; exact o.tc z k he
    · intro z k he; have hk := h.M2a b _ k hb (by rw [he]; rfl) rfl
      rw [obj_old k hk]; exact o.tca z k he
    · intro k he; have hk := h.M2o b _ k hb (by rw [he]; rfl) rfl
      rw [e5]
      have ht := (h.F1 k hk).1
      rw [sig_old _ ht]; exact o.rc k he
    · intro k he; have hk := h.M2a b _ k hb (by rw [he]; rfl) rfl
      rw [obj_old k hk]
      have ht := (h.F2 k hk).1
      rw [sig_old _ ht]; exact o.rca k he
  have hcl : (s'.ands s.nAnd).target = s.nSig := by rw [obj_new]
  have new_ok : ∀ b, b ∈ [Act.thenJ x (.andDone s.nAnd 0), .thenJ y (.andDone s.nAnd 1), .thenJ s.nSig (.andCleanup s.nAnd), .ret s.nSig false] → ActOK s' b := by
    intro b hb
    simp only [List.mem_cons, List.mem_nil_iff, or_false] at hb
    rcases hb with rfl | rfl | rfl | rfl
    · exact ActOK.mk_thenJ (by rw [e2]; omega) (by intro o ho; simp [Job.orObj] at ho) (by intro n hn; simp only [Job.andObj, Option.some.injEq] at hn; rw [e4]; omega)
        (by intro o he; cases he) (by intro n he; cases he)
    · exact ActOK.mk_thenJ (by rw [e2]; omega) (by intro o ho; simp [Job.orObj] at ho) (by intro n hn; simp only [Job.andObj, Option.some.injEq] at hn; rw [e4]; omega)
        (by intro o he; cases he) (by intro n he; cases he)
    · exact ActOK.mk_thenJ (by rw [e2]; omega) (by intro o ho; simp [Job.orObj] at ho) (by intro n hn; simp only [Job.andObj, Option.some.injEq] at hn; rw [e4]; omega)
        (by intro o he; cases he) (by intro n he; injection he with h1; rw [← h1, hcl])
    · exact ActOK.mk_plain (by intro z hz; simp only [Act.sigs, List.mem_singleton] at hz; rw [hz, e2]; omega) (by intro z hz; simp [Act.operands] at hz) rfl
  have ok : ∀ b, InTodos s' b → ActOK s' b := fun b hb => by
    rcases st.sub hb with h1 | h1
    · exact new_ok b h1
    · exact old_ok b h1
  have built_new : (s'.sigs s.nSig).built = .andOut s.nAnd := by rw [sig_new]; rfl
  have tgt_old : ∀ n, n < s.nAnd → (s'.ands n).target = (s.ands n).target := fun n hn => by rw [obj_old n hn]
  constructor
  case F1 =>
    intro o ho; rw [e6] at ho; rw [e5]
    have := h.F1 o ho
    exact ⟨by rw [e2]; omega, by rw [sig_old _ this.1]; exact this.2⟩
  case F2 =>
    intro n hn; rw [e4] at hn
    by_cases hnn : n = s.nAnd
    · subst hnn; rw [obj_new]; exact ⟨by rw [e2]; simp, by simpa using built_new⟩
    · have hlt : n < s.nAnd := by omega
      have := h.F2 n hlt
      rw [obj_old n hlt]; exact ⟨by rw [e2]; omega, by rw [sig_old _ this.1]; exact this.2⟩
  case F3 =>
    intro z o hz
    have hzn : z ≠ s.nSig := by intro he; subst he; rw [built_new] at hz; cases hz
    rw [sig_any z hzn] at hz; rw [e5, e6]; exact h.F3 z o hz
  case F4 =>
    intro z n hz
    by_cases hzn : z = s.nSig
    · subst hzn; rw [built_new] at hz; injection hz with h1; subst h1
      exact ⟨by rw [e4]; omega, by rw [obj_new]⟩
    · rw [sig_any z hzn] at hz
      have := h.F4 z n hz
      exact ⟨by rw [e4]; omega, by rw [obj_old n this.1]; exact this.2⟩
  case F5 =>
    intro z hz; rw [e2] at hz
    have hzn : z ≠ s.nSig := by omega
    rw [sig_any z hzn]; exact h.F5 z (by omega)
  case F6 =>
    intro o ho; rw [e6] at ho; rw [e5, e2]
    exact ⟨fun d hd' => by have := (h.F6 o ho).1 d hd'; omega, (h.F6 o ho).2⟩
  case F7 =>
    intro n hn; rw [e4] at hn
    by_cases hnn : n = s.nAnd
    · subst hnn; rw [obj_new, e2]
      refine ⟨?_, Or.inl rfl⟩
      intro d hd'; simp only [List.mem_cons, List.mem_nil_iff, or_false] at hd'
      rcases hd' with rfl | rfl <;> omega
    · have hlt : n < s.nAnd := by omega
      rw [obj_old n hlt, e2]
      exact ⟨fun d hd' => by have := (h.F7 n hlt).1 d hd'; omega, (h.F7 n hlt).2⟩
  case M1 => intro a w ha hw; exact (ok a ha).sig w hw
  case M1a => intro a w ha hw; exact (ok a ha).opd w hw
  case M2o => intro a j o ha hj ho; exact (ok a ha).jo j o hj ho
  case M2a => intro a j n ha hj hn; exact (ok a ha).ja j n hj hn
  case M3o => intro w j o hj ho; rw [jobs_eq] at hj; rw [e6]; exact h.M3o w j o hj ho
  case M3a => intro w j n hj hn; rw [jobs_eq] at hj; rw [e4]; have := h.M3a w j n hj hn; omega
  case B3 => intro w o hj; rw [jobs_eq] at hj; rw [e5]; exact h.B3 w o hj
  case B3t => intro w o ha; exact (ok _ ha).tc w o rfl
  case B3a =>
    intro w n hj; rw [jobs_eq] at hj
    have hn := h.M3a w _ n hj rfl
    rw [obj_old n hn]; exact h.B3a w n hj
  case B3at => intro w n ha; exact (ok _ ha).tca w n rfl
  case B4 => intro w j ha; exact (ok _ ha).rm w j rfl
  case Jr => intro o ha; exact (ok _ ha).rc o rfl
  case Jv =>
    intro o ho hdp; rw [e6] at ho; rw [e5] at hdp ⊢
    rw [sig_old _ (h.F1 o ho).1]; exact h.Jv o ho hdp
  case Jra => intro n ha; exact (ok _ ha).rca n rfl
  case Jva =>
    intro n hn hdp; rw [e4] at hn
    by_cases hnn : n = s.nAnd
    · subst hnn; rw [obj_new] at hdp; exact absurd rfl hdp
    · have hlt : n < s.nAnd := by omega
      rw [obj_old n hlt] at hdp ⊢
      rw [sig_old _ (h.F2 n hlt).1]; exact h.Jva n hlt hdp
  case Ka =>
    intro n hn hal hgo; rw [e4] at hn
    by_cases hnn : n = s.nAnd
    · subst hnn; right; rw [obj_new]; exact st.intro (by simp)
    · have hlt : n < s.nAnd := by omega
      rw [obj_old n hlt] at hal hgo ⊢
      have ht := (h.F2 n hlt).1
      rw [sig_old _ ht] at hal hgo
      rcases h.Ka n hlt hal hgo with h1 | h1
      · left; rw [jobs_eq]; exact h1
      · right; exact st.keep h1 (by intro he; cases he)
  case Lo =>
    intro o ho hal hgo d hd'; rw [e6] at ho; rw [e5] at hal hgo hd'
    rw [sig_old _ (h.F1 o ho).1] at hal hgo
    have := h.Lo o ho hal hgo d hd'
    exact ⟨by rw [e2]; omega, alive_old d this.2⟩
  case La =>
    intro n hn hal hgo d hd'; rw [e4] at hn
    by_cases hnn : n = s.nAnd
    · subst hnn; rw [obj_new] at hd'
      simp only [List.mem_cons, List.mem_nil_iff, or_false] at hd'
      rcases hd' with rfl | rfl
      · exact ⟨by rw [e2]; omega, alive_old _ hxa⟩
      · exact ⟨by rw [e2]; omega, alive_old _ hya⟩
    · have hlt : n < s.nAnd := by omega
      rw [obj_old n hlt] at hal hgo hd'
      rw [sig_old _ (h.F2 n hlt).1] at hal hgo
      have := h.La n hlt hal hgo d hd'
      exact ⟨by rw [e2]; omega, alive_old d this.2⟩

theorem invL_orNew {s s' : State} {t x y : Nat} {w : Bool} {rest : List Act} (h : InvL s)
    (st : TodoStep s s' t (Act.orNew x y w) rest [.thenJ x (.orHook s.nOr 0), .thenJ y (.orHook s.nOr 1), .thenJ s.nSig (.orCleanup s.nOr), .ret s.nSig w])
    (e1 : s'.sigs = upd s.sigs s.nSig (freshSig (.orOut s.nOr))) (e2 : s'.nSig = s.nSig + 1)
    (e3 : s'.ors = upd s.ors s.nOr { deps := [x, y], target := s.nSig, deps0 := [x, y] }) (e4 : s'.nOr = s.nOr + 1)
    (e5 : s'.ands = s.ands) (e6 : s'.nAnd = s.nAnd) : InvL s' := by
  have hd := st.head
  have hx : x < s.nSig := h.M1 _ x hd (by simp [Act.sigs])
  have hy : y < s.nSig := h.M1 _ y hd (by simp [Act.sigs])
  have hxa : (s.sigs x).alive = true := h.M1a _ x hd (by simp [Act.operands])
  have hya : (s.sigs y).alive = true := h.M1a _ y hd (by simp [Act.operands])
  have sig_old : ∀ w, w < s.nSig → s'.sigs w = s.sigs w := fun w hw => by rw [e1, upd_other _ _ (by omega)]
  have sig_new : s'.sigs s.nSig = freshSig (.orOut s.nOr) := by rw [e1, upd_same]
  have obj_old : ∀ k, k < s.nOr → s'.ors k = s.ors k := fun k hk => by rw [e3, upd_other _ _ (by omega)]
  have obj_new : s'.ors s.nOr = { deps := [x, y], target := s.nSig, deps0 := [x, y] } := by rw [e3, upd_same]
  have fresh := h.F5 s.nSig (Nat.le_refl _)
  have sig_any : ∀ w, w ≠ s.nSig → s'.sigs w = s.sigs w := fun w hw => by rw [e1, upd_other _ _ hw]
  have jobs_eq : ∀ w, (s'.sigs w).jobs = (s.sigs w).jobs := by
    intro w; by_cases hw : w = s.nSig
    · subst hw; rw [sig_new, fresh.2.1]; rfl
    · rw [sig_any w hw]
  have alive_old : ∀ w, (s.sigs w).alive = true → (s'.sigs w).alive = true := by
    intro w hw; by_cases hws : w = s.nSig
    · subst hws; rw [fresh.1] at hw; cases hw
    · rw [sig_any w hws]; exact hw
  have old_ok : ∀ b, InTodos s b → ActOK s' b := fun b hb => by
    have o := actOK_of_inv h hb
    refine ⟨fun z hz => by rw [e2]; have := o.sig z hz; omega, fun z hz => alive_old z (o.opd z hz), ?_, ?_, ?_, ?_, o.rm, ?_, ?_⟩
    · intro j k hj hk; have := o.jo j k hj hk; rw [e4]; omega
    · intro j k hj hk; have := o.ja j k hj hk; rw [e6]; exact this
    · intro z k he; have hk := h.M2o b _ k hb (by rw [he]; rfl) rfl
      rw [obj_old k hk]; exact o.tc z k he
    · intro z k he; rw [e5]; exact o.tca z k he
    · intro k he; have hk := h.M2o b _ k hb (by rw [he]; rfl) rfl
      rw [obj_old k hk]
      have ht := (h.F1 k hk).1
      rw [sig_old _ ht]; exact o.rc k he
    · intro k he; have hk := h.M2a b _ k hb (by rw [he]; rfl) rfl
      rw [e5]
      have ht := (h.F2 k hk).1
      rw [sig_old _ ht]; exact o.rca k he
  have hcl : (s'.ors s.nOr).target = s.nSig := by rw [obj_new]
  have new_ok : ∀ b, b ∈ [Act.thenJ x (.orHook s.nOr 0), .thenJ y (.orHook s.nOr 1), .thenJ s.nSig (.orCleanup s.nOr), .ret s.nSig w] → ActOK s' b := by
    intro b hb
    simp only [List.mem_cons, List.mem_nil_iff, or_false] at hb
    rcases hb with rfl | rfl | rfl | rfl
    · exact ActOK.mk_thenJ (by rw [e2]; omega) (by intro o ho; simp only [Job.orObj, Option.some.injEq] at ho; rw [e4]; omega) (by intro n hn; simp [Job.andObj] at hn)
        (by intro o he; cases he) (by intro n he; cases he)
    · exact ActOK.mk_thenJ (by rw [e2]; omega) (by intro o ho; simp only [Job.orObj, Option.some.injEq] at ho; rw [e4]; omega) (by intro n hn; simp [Job.andObj] at hn)
        (by intro o he; cases he) (by intro n he; cases he)
    · exact ActOK.mk_thenJ (by rw [e2]; omega) (by intro o ho; simp only [Job.orObj, Option.some.injEq] at ho; rw [e4]; omega) (by intro n hn; simp [Job.andObj] at hn)
        (by intro o he; injection he with h1; rw [← h1, hcl]) (by intro n he; cases he)
    · exact ActOK.mk_plain (by intro z hz; simp only [Act.sigs, List.mem_singleton] at hz; rw [hz, e2]; omega) (by intro z hz; simp [Act.operands] at hz) rfl
  have ok : ∀ b, InTodos s' b → ActOK s' b := fun b hb => by
    rcases st.sub hb with h1 | h1
    · exact new_ok b h1
    · exact old_ok b h1
  have built_new : (s'.sigs s.nSig).built = .orOut s.nOr := by rw [sig_new]; rfl
  have tgt_old : ∀ n, n < s.nOr → (s'.ors n).target = (s.ors n).target := fun n hn => by rw [obj_old n hn]
  constructor
  case F2 =>
    intro o ho; rw [e6] at ho; rw [e5]
    have := h.F2 o ho
    exact ⟨by rw [e2]; omega, by rw [sig_old _ this.1]; exact this.2⟩
  case F1 =>
    intro n hn; rw [e4] at hn
    by_cases hnn : n = s.nOr
    · subst hnn; rw [obj_new]; exact ⟨by rw [e2]; simp, by simpa using built_new⟩
    · have hlt : n < s.nOr := by omega
      have := h.F1 n hlt
      rw [obj_old n hlt]; exact ⟨by rw [e2]; omega, by rw [sig_old _ this.1]; exact this.2⟩
  case F4 =>
    intro z o hz
    have hzn : z ≠ s.nSig := by intro he; subst he; rw [built_new] at hz; cases hz
    rw [sig_any z hzn] at hz; rw [e5, e6]; exact h.F4 z o hz
  case F3 =>
    intro z n hz
    by_cases hzn : z = s.nSig
    · subst hzn; rw [built_new] at hz; injection hz with h1; subst h1
      exact ⟨by rw [e4]; omega, by rw [obj_new]⟩
    · rw [sig_any z hzn] at hz
      have := h.F3 z n hz
      exact ⟨by rw [e4]; omega, by rw [obj_old n this.1]; exact this.2⟩
  case F5 =>
    intro z hz; rw [e2] at hz
    have hzn : z ≠ s.nSig := by omega
    rw [sig_any z hzn]; exact h.F5 z (by omega)
  case F7 =>
    intro o ho; rw [e6] at ho; rw [e5, e2]
    exact ⟨fun d hd' => by have := (h.F7 o ho).1 d hd'; omega, (h.F7 o ho).2⟩
  case F6 =>
    intro n hn; rw [e4] at hn
    by_cases hnn : n = s.nOr
    · subst hnn; rw [obj_new, e2]
      refine ⟨?_, Or.inl rfl⟩
      intro d hd'; simp only [List.mem_cons, List.mem_nil_iff, or_false] at hd'
      rcases hd' with rfl | rfl <;> omega
    · have hlt : n < s.nOr := by omega
      rw [obj_old n hlt, e2]
      exact ⟨fun d hd' => by have := (h.F6 n hlt).1 d hd'; omega, (h.F6 n hlt).2⟩
  case M1 => intro a w ha hw; exact (ok a ha).sig w hw
  case M1a => intro a w ha hw; exact (ok a ha).opd w hw
  case M2a => intro a j o ha hj ho; exact (ok a ha).ja j o hj ho
  case M2o => intro a j n ha hj hn; exact (ok a ha).jo j n hj hn
  case M3a => intro w j o hj ho; rw [jobs_eq] at hj; rw [e6]; exact h.M3a w j o hj ho
  case M3o => intro w j n hj hn; rw [jobs_eq] at hj; rw [e4]; have := h.M3o w j n hj hn; omega
  case B3a => intro w o hj; rw [jobs_eq] at hj; rw [e5]; exact h.B3a w o hj
  case B3at => intro w o ha; exact (ok _ ha).tca w o rfl
  case B3 =>
    intro w n hj; rw [jobs_eq] at hj
    have hn := h.M3o w _ n hj rfl
    rw [obj_old n hn]; exact h.B3 w n hj
  case B3t => intro w n ha; exact (ok _ ha).tc w n rfl
  case B4 => intro w j ha; exact (ok _ ha).rm w j rfl
  case Jra => intro o ha; exact (ok _ ha).rca o rfl
  case Jva =>
    intro o ho hdp; rw [e6] at ho; rw [e5] at hdp ⊢
    rw [sig_old _ (h.F2 o ho).1]; exact h.Jva o ho hdp
  case Jr => intro n ha; exact (ok _ ha).rc n rfl
  case Jv =>
    intro n hn hdp; rw [e4] at hn
    by_cases hnn : n = s.nOr
    · subst hnn; rw [obj_new] at hdp; exact absurd rfl hdp
    · have hlt : n < s.nOr := by omega
      rw [obj_old n hlt] at hdp ⊢
      rw [sig_old _ (h.F1 n hlt).1]; exact h.Jv n hlt hdp
  case Ka =>
    intro n hn hal hgo; rw [e6] at hn; rw [e5] at hal hgo ⊢
    have ht := (h.F2 n hn).1
    rw [sig_old _ ht] at hal hgo
    rcases h.Ka n hn hal hgo with h1 | h1
    · left; rw [jobs_eq]; exact h1
    · right; exact st.keep h1 (by intro he; cases he)
  case La =>
    intro o ho hal hgo d hd'; rw [e6] at ho; rw [e5] at hal hgo hd'
    rw [sig_old _ (h.F2 o ho).1] at hal hgo
    have := h.La o ho hal hgo d hd'
    exact ⟨by rw [e2]; omega, alive_old d this.2⟩
  case Lo =>
    intro n hn hal hgo d hd'; rw [e4] at hn
    by_cases hnn : n = s.nOr
    · subst hnn; rw [obj_new] at hd'
      simp only [List.mem_cons, List.mem_nil_iff, or_false] at hd'
      rcases hd' with rfl | rfl
      · exact ⟨by rw [e2]; omega, alive_old _ hxa⟩
      · exact ⟨by rw [e2]; omega, alive_old _ hya⟩
    · have hlt : n < s.nOr := by omega
      rw [obj_old n hlt] at hal hgo hd'
      rw [sig_old _ (h.F1 n hlt).1] at hal hgo
      have := h.Lo n hlt hal hgo d hd'
      exact ⟨by rw [e2]; omega, alive_old d this.2⟩

theorem mem_zipIdx_map_removeJ {ds : List Nat} {o : Nat} {b : Act} {k : Nat}
    (hb : b ∈ (ds.zipIdx k).map (fun (p : Nat × Nat) => Act.removeJ p.1 (.orHook o p.2))) : ∃ d i, d ∈ ds ∧ b = .removeJ d (.orHook o i) := by
  obtain ⟨⟨d, i⟩, hm, he⟩ := List.mem_map.mp hb
  have h3 := List.mem_zipIdx hm
  exact ⟨d, i, List.mem_iff_getElem.mpr ⟨i - k, by omega, h3.2.2.symm⟩, he.symm⟩

theorem invL_exec {s s' : State} {t : Nat} {a : Act} {rest : List Act} (h : InvL s) (ht : t < NT) (hs : s.todo t = a :: rest)
    (he : exec s t a rest = some s') : InvL s' := by
  have hd : InTodos s a := ⟨t, ht, by rw [hs]; exact List.mem_cons_self⟩
  have aok := actOK_of_inv h hd
  cases a with
  | orTest1 x y w =>
    simp only [exec, Option.some.injEq] at he; subst he
    refine invL_todo_only h (new := if (s.sigs x).go then [Act.retDone] else [Act.orTest2 x y w]) ⟨ht, hs, rfl⟩ rfl rfl rfl rfl rfl rfl ?_ (by intro n he; cases he)
    intro b hb
    split at hb <;> simp only [List.mem_singleton] at hb <;> subst hb
    · exact ActOK.mk_plain (by intro z hz; simp [Act.sigs] at hz) (by intro z hz; simp [Act.operands] at hz) rfl
    · exact ActOK.mk_plain (fun z hz => aok.sig z (by simpa [Act.sigs] using hz)) (fun z hz => aok.opd z (by simpa [Act.operands] using hz)) rfl
  | orTest2 x y w =>
    simp only [exec, Option.some.injEq] at he; subst he
    refine invL_todo_only h (new := if (s.sigs y).go then [Act.retDone] else [Act.orNew x y w]) ⟨ht, hs, rfl⟩ rfl rfl rfl rfl rfl rfl ?_ (by intro n he; cases he)
    intro b hb
    split at hb <;> simp only [List.mem_singleton] at hb <;> subst hb
    · exact ActOK.mk_plain (by intro z hz; simp [Act.sigs] at hz) (by intro z hz; simp [Act.operands] at hz) rfl
    · exact ActOK.mk_plain (fun z hz => aok.sig z (by simpa [Act.sigs] using hz)) (fun z hz => aok.opd z (by simpa [Act.operands] using hz)) rfl
  | orNew x y w =>
    simp only [exec, Option.some.injEq] at he; subst he
    exact invL_orNew h ⟨ht, hs, rfl⟩ rfl rfl rfl rfl rfl rfl
  | andNew x y =>
    simp only [exec, Option.some.injEq] at he; subst he
    exact invL_andNew h ⟨ht, hs, rfl⟩ rfl rfl rfl rfl rfl rfl
  | thenJ d j =>
    have hdlt : d < s.nSig := aok.sig d (by simp [Act.sigs])
    simp only [exec] at he
    split at he
    · rename_i hgo
      simp only [Option.some.injEq] at he; subst he
      refine invL_todo_only h (new := [Act.run j]) ⟨ht, hs, rfl⟩ rfl rfl rfl rfl rfl rfl ?_ ?_
      · intro b hb; simp only [List.mem_singleton] at hb; subst hb
        refine ActOK.mk_run (fun o ho => aok.jo j o rfl ho) (fun n hn => aok.ja j n rfl hn) ?_ ?_
        · intro o hj; subst hj; rw [← aok.tc d o rfl]; exact Or.inl hgo
        · intro n hj; subst hj; rw [← aok.tca d n rfl]; exact hgo
      · intro n heq; injection heq with h1 h2; left; rw [← h1]; exact hgo
    · rename_i hgo
      simp only [Option.some.injEq] at he; subst he
      refine invL_update h (z := d) (v := { s.sigs d with jobs := (s.sigs d).jobs ++ [j] }) (new := []) ⟨ht, hs, rfl⟩ hdlt rfl rfl rfl rfl rfl rfl rfl rfl (fun hg => hg) ?_ ?_ (by intro b hb; cases hb) ?_
      · intro j' hj'; simp only [List.mem_append, List.mem_singleton] at hj'
        rcases hj' with h1 | h1
        · exact Or.inl h1
        · right; rw [h1]
      · intro n hn; left; exact List.mem_append_left _ hn
      · intro n heq; injection heq with h1 h2; right
        simp only [State.setTodo, State.setSig]; rw [← h1, upd_same]; subst h2; simp
  | run j =>
    cases j with
    | orHook o i =>
      simp only [exec, Option.some.injEq] at he; subst he
      have ho := aok.jo _ o rfl rfl
      refine invL_todo_only h (new := if (s.sigs (s.ors o).target).alive then [Act.goS (s.ors o).target false] else []) ⟨ht, hs, rfl⟩ rfl rfl rfl rfl rfl rfl ?_ (by intro n he; cases he)
      intro b hb
      split at hb
      · simp only [List.mem_singleton] at hb; subst hb
        exact ActOK.mk_plain (by intro z hz; simp only [Act.sigs, List.mem_singleton] at hz; rw [hz]; exact (h.F1 o ho).1) (by intro z hz; simp [Act.operands] at hz) rfl
      · cases hb
    | orCleanup o =>
      simp only [exec, Option.some.injEq] at he; subst he
      have ho := aok.jo _ o rfl rfl
      refine invL_objs h (new := (s.ors o).deps.zipIdx.map fun (p : Nat × Nat) => Act.removeJ p.1 (.orHook o p.2)) ⟨ht, hs, rfl⟩ rfl rfl rfl rfl ?_ ?_ ?_ (by intro z j he; cases he)
      · intro o'
        by_cases hoo : o' = o
        · subst hoo; simp [State.setTodo, upd_same]
        · simp [State.setTodo, upd_other _ _ hoo]
      · intro n; exact ⟨rfl, rfl, Or.inl rfl⟩
      · intro b hb
        obtain ⟨d, i, hdm, rfl⟩ := mem_zipIdx_map_removeJ hb
        have hdl : d < s.nSig := by
          rcases (h.F6 o ho).2 with h1 | h1
          · rw [h1] at hdm; exact (h.F6 o ho).1 d hdm
          · rw [h1] at hdm; cases hdm
        exact ActOK.mk_removeJ hdl ho
    | andDone n i =>
      simp only [exec, Option.some.injEq] at he; subst he
      have hn := aok.ja _ n rfl rfl
      refine invL_objs h (new := if (s.ands n).remaining - 1 = 0 then [Act.goS (s.ands n).target false] else []) ⟨ht, hs, rfl⟩ rfl rfl rfl rfl ?_ ?_ ?_ (by intro z j he; cases he)
      · intro o; exact ⟨rfl, rfl, Or.inl rfl⟩
      · intro n'
        by_cases hnn : n' = n
        · subst hnn; simp [State.setTodo, upd_same]
        · simp [State.setTodo, upd_other _ _ hnn]
      · intro b hb
        split at hb
        · simp only [List.mem_singleton] at hb; subst hb
          exact ActOK.mk_plain (by intro z hz; simp only [Act.sigs, List.mem_singleton] at hz; rw [hz]; exact (h.F2 n hn).1) (by intro z hz; simp [Act.operands] at hz) rfl
        · cases hb
    | andCleanup n =>
      simp only [exec, Option.some.injEq] at he; subst he
      refine invL_objs h (new := []) ⟨ht, hs, rfl⟩ rfl rfl rfl rfl ?_ ?_ (by intro b hb; cases hb) (by intro z j he; cases he)
      · intro o; exact ⟨rfl, rfl, Or.inl rfl⟩
      · intro n'
        by_cases hnn : n' = n
        · subst hnn; simp [State.setTodo, upd_same]
        · simp [State.setTodo, upd_other _ _ hnn]
    | user k =>
      simp only [exec, Option.some.injEq] at he; subst he
      exact invL_todo_only h (new := []) ⟨ht, hs, rfl⟩ rfl rfl rfl rfl rfl rfl (by intro b hb; cases hb) (by intro n he; cases he)
  | goS x direct =>
    have hxlt : x < s.nSig := aok.sig x (by simp [Act.sigs])
    simp only [exec] at he
    split at he
    · simp only [Option.some.injEq] at he; subst he
      exact invL_todo_only h (new := []) ⟨ht, hs, rfl⟩ rfl rfl rfl rfl rfl rfl (by intro b hb; cases hb) (by intro n he; cases he)
    · rename_i hng
      simp only [Option.some.injEq] at he; subst he
      refine invL_update h (z := x) (v := { s.sigs x with go := true, jobs := [], direct := direct }) (new := (s.sigs x).jobs.map Act.run) ⟨ht, hs, rfl⟩ hxlt rfl rfl rfl rfl rfl rfl rfl rfl (fun _ => rfl)
        (by intro j hj; cases hj) (by intro n _; right; rfl) ?_ (by intro n he; cases he)
      intro b hb
      obtain ⟨j, hj, rfl⟩ := List.mem_map.mp hb
      refine ActOK.mk_run (fun o ho => h.M3o x j o hj ho) (fun n hn => h.M3a x j n hj hn) ?_ ?_
      · intro o hjo; subst hjo
        have := h.B3 x o hj
        left; simp only [State.setTodo, State.setSig]; rw [← this, upd_same]
      · intro n hjn; subst hjn
        have := h.B3a x n hj
        simp only [State.setTodo, State.setSig]; rw [← this, upd_same]
  | removeJ d j =>
    have hdlt : d < s.nSig := aok.sig d (by simp [Act.sigs])
    obtain ⟨o, i, hj⟩ := aok.rm d j rfl
    simp only [exec] at he
    split at he
    · simp only [Option.some.injEq] at he; subst he
      exact invL_todo_only h (new := []) ⟨ht, hs, rfl⟩ rfl rfl rfl rfl rfl rfl (by intro b hb; cases hb) (by intro n he; cases he)
    · simp only [Option.some.injEq] at he; subst he
      refine invL_update h (z := d) (v := { s.sigs d with jobs := (s.sigs d).jobs.erase j }) (new := []) ⟨ht, hs, rfl⟩ hdlt rfl rfl rfl rfl rfl rfl rfl rfl (fun hg => hg) ?_ ?_ (by intro b hb; cases hb) (by intro n he; cases he)
      · intro j' hj'; exact Or.inl (List.mem_of_mem_erase hj')
      · intro n hn; left
        exact (List.mem_erase_of_ne (by rw [hj]; intro he; cases he)).mpr hn
  | ret c w =>
    have hclt : c < s.nSig := aok.sig c (by simp [Act.sigs])
    simp only [exec] at he
    split at he
    · simp only [Option.some.injEq] at he; subst he
      refine invL_todo_only h (new := [Act.waitS c]) ⟨ht, hs, rfl⟩ rfl rfl rfl rfl rfl rfl ?_ (by intro n he; cases he)
      intro b hb; simp only [List.mem_singleton] at hb; subst hb
      exact ActOK.mk_plain (by intro z hz; simp only [Act.sigs, List.mem_singleton] at hz; rw [hz]; exact hclt) (by intro z hz; simp [Act.operands] at hz) rfl
    · simp only [Option.some.injEq] at he; subst he
      exact invL_update h (z := c) (v := { s.sigs c with held := true }) (new := []) ⟨ht, hs, rfl⟩ hclt rfl rfl rfl rfl rfl rfl rfl rfl (fun hg => hg)
        (fun j hj => Or.inl hj) (fun n hn => Or.inl hn) (by intro b hb; cases hb) (by intro n he; cases he)
  | retDone =>
    simp only [exec, Option.some.injEq] at he; subst he
    exact invL_todo_only h (new := []) ⟨ht, hs, rfl⟩ rfl rfl rfl rfl rfl rfl (by intro b hb; cases hb) (by intro n he; cases he)
  | waitS c =>
    simp only [exec] at he
    split at he
    · simp only [Option.some.injEq] at he; subst he
      exact invL_todo_only h (new := []) ⟨ht, hs, rfl⟩ rfl rfl rfl rfl rfl rfl (by intro b hb; cases hb) (by intro n he; cases he)
    · cases he

/-- pending actions pushed on one thread; signal `z` possibly rewritten without touching flag, liveness, origin or jobs
(or, for `collect`, dying: see `invL_collect`) -/
theorem invL_push {s s' : State} {pre : List Act} (h : InvL s)
    (hsub : ∀ b, InTodos s' b → b ∈ pre ∨ InTodos s b) (hkeep : ∀ b, InTodos s b → InTodos s' b)
    (e1 : ∀ w, (s'.sigs w).alive = (s.sigs w).alive ∧ (s'.sigs w).go = (s.sigs w).go ∧ (s'.sigs w).built = (s.sigs w).built ∧ (s'.sigs w).jobs = (s.sigs w).jobs)
    (e2 : s'.nSig = s.nSig) (e3 : s'.ors = s.ors) (e4 : s'.nOr = s.nOr) (e5 : s'.ands = s.ands) (e6 : s'.nAnd = s.nAnd)
    (hnew : ∀ b, b ∈ pre → ActOK s b) : InvL s' := by
  have ok : ∀ b, InTodos s' b → ActOK s b := fun b hb => by
    rcases hsub b hb with h1 | h1
    · exact hnew b h1
    · exact actOK_of_inv h h1
  constructor
  case F1 => intro o ho; rw [e3, (e1 _).2.2.1, e2]; rw [e4] at ho; exact h.F1 o ho
  case F2 => intro n hn; rw [e5, (e1 _).2.2.1, e2]; rw [e6] at hn; exact h.F2 n hn
  case F3 => intro z o hz; rw [(e1 _).2.2.1] at hz; rw [e3, e4]; exact h.F3 z o hz
  case F4 => intro z n hz; rw [(e1 _).2.2.1] at hz; rw [e5, e6]; exact h.F4 z n hz
  case F5 => intro z hz; rw [(e1 _).1, (e1 _).2.2.2, (e1 _).2.2.1]; rw [e2] at hz; exact h.F5 z hz
  case F6 => intro o ho; rw [e3, e2]; rw [e4] at ho; exact h.F6 o ho
  case F7 => intro n hn; rw [e5, e2]; rw [e6] at hn; exact h.F7 n hn
  case M1 => intro a z ha hz; rw [e2]; exact (ok a ha).sig z hz
  case M1a => intro a z ha hz; rw [(e1 _).1]; exact (ok a ha).opd z hz
  case M2o => intro a j o ha hj ho; rw [e4]; exact (ok a ha).jo j o hj ho
  case M2a => intro a j n ha hj hn; rw [e6]; exact (ok a ha).ja j n hj hn
  case M3o => intro z j o hj ho; rw [(e1 _).2.2.2] at hj; rw [e4]; exact h.M3o z j o hj ho
  case M3a => intro z j n hj hn; rw [(e1 _).2.2.2] at hj; rw [e6]; exact h.M3a z j n hj hn
  case B3 => intro z o hj; rw [(e1 _).2.2.2] at hj; rw [e3]; exact h.B3 z o hj
  case B3t => intro z o ha; rw [e3]; exact (ok _ ha).tc z o rfl
  case B3a => intro z n hj; rw [(e1 _).2.2.2] at hj; rw [e5]; exact h.B3a z n hj
  case B3at => intro z n ha; rw [e5]; exact (ok _ ha).tca z n rfl
  case B4 => intro z j ha; exact (ok _ ha).rm z j rfl
  case Jr => intro o ha; rw [(e1 _).1, (e1 _).2.1, e3]; exact (ok _ ha).rc o rfl
  case Jv => intro o ho hd; rw [e3] at hd; rw [(e1 _).1, (e1 _).2.1, e3]; rw [e4] at ho; exact h.Jv o ho hd
  case Jra => intro n ha; rw [(e1 _).2.1, e5]; exact (ok _ ha).rca n rfl
  case Jva => intro n hn hd; rw [e5] at hd; rw [(e1 _).2.1, e5]; rw [e6] at hn; exact h.Jva n hn hd
  case Ka =>
    intro n hn hal hgo
    rw [(e1 _).1, e5] at hal; rw [(e1 _).2.1, e5] at hgo; rw [(e1 _).2.2.2, e5]
    rw [e6] at hn
    rcases h.Ka n hn hal hgo with h1 | h1
    · exact Or.inl h1
    · exact Or.inr (hkeep _ h1)
  case Lo =>
    intro o ho hal hgo d hd; rw [(e1 _).1, e3] at hal; rw [(e1 _).2.1, e3] at hgo; rw [e3] at hd; rw [e2, (e1 _).1]; rw [e4] at ho
    exact h.Lo o ho hal hgo d hd
  case La =>
    intro n hn hal hgo d hd; rw [(e1 _).1, e5] at hal; rw [(e1 _).2.1, e5] at hgo; rw [e5] at hd; rw [e2, (e1 _).1]; rw [e6] at hn
    exact h.La n hn hal hgo d hd

theorem usable_spec {s : State} {z : Nat} (h : usable s z = true) : z < s.nSig ∧ (s.sigs z).alive = true := by
  unfold usable at h
  simp only [Bool.and_eq_true, decide_eq_true_eq] at h
  exact ⟨h.1.1, h.1.2⟩

theorem invL_call {s s' : State} {t : Nat} {op : Op} (h : InvL s) (hc : call s t op = some s') : InvL s' := by
  unfold call at hc
  split at hc
  · rename_i hcond
    obtain ⟨ht, hempty⟩ := hcond
    have push : ∀ a, TodoPush s (s.setTodo t [a]) t [a] := fun a => ⟨ht, by simp [State.setTodo, hempty]⟩
    have same : ∀ a w, ((s.setTodo t [a]).sigs w).alive = (s.sigs w).alive ∧ ((s.setTodo t [a]).sigs w).go = (s.sigs w).go ∧
        ((s.setTodo t [a]).sigs w).built = (s.sigs w).built ∧ ((s.setTodo t [a]).sigs w).jobs = (s.sigs w).jobs := fun a w => ⟨rfl, rfl, rfl, rfl⟩
    cases op with
    | mkOr x y =>
      simp only at hc; split at hc
      · rename_i hu; simp only [Bool.and_eq_true] at hu; cases hc
        refine invL_push h (fun b hb => (push _).sub hb) (fun b hb => (push _).keep hb) (same _) rfl rfl rfl rfl rfl ?_
        intro b hb; simp only [List.mem_singleton] at hb; subst hb
        refine ActOK.mk_plain ?_ ?_ rfl
        · intro z hz; simp only [Act.sigs, List.mem_cons, List.mem_nil_iff, or_false] at hz
          rcases hz with rfl | rfl
          · exact (usable_spec hu.1).1
          · exact (usable_spec hu.2).1
        · intro z hz; simp only [Act.operands, List.mem_cons, List.mem_nil_iff, or_false] at hz
          rcases hz with rfl | rfl
          · exact (usable_spec hu.1).2
          · exact (usable_spec hu.2).2
      · cases hc
    | waitOr x y =>
      simp only at hc; split at hc
      · rename_i hu; simp only [Bool.and_eq_true] at hu; cases hc
        refine invL_push h (fun b hb => (push _).sub hb) (fun b hb => (push _).keep hb) (same _) rfl rfl rfl rfl rfl ?_
        intro b hb; simp only [List.mem_singleton] at hb; subst hb
        refine ActOK.mk_plain ?_ ?_ rfl
        · intro z hz; simp only [Act.sigs, List.mem_cons, List.mem_nil_iff, or_false] at hz
          rcases hz with rfl | rfl
          · exact (usable_spec hu.1).1
          · exact (usable_spec hu.2).1
        · intro z hz; simp only [Act.operands, List.mem_cons, List.mem_nil_iff, or_false] at hz
          rcases hz with rfl | rfl
          · exact (usable_spec hu.1).2
          · exact (usable_spec hu.2).2
      · cases hc
    | mkAnd x y =>
      simp only at hc; split at hc
      · rename_i hu; simp only [Bool.and_eq_true] at hu; cases hc
        refine invL_push h (fun b hb => (push _).sub hb) (fun b hb => (push _).keep hb) (same _) rfl rfl rfl rfl rfl ?_
        intro b hb; simp only [List.mem_singleton] at hb; subst hb
        refine ActOK.mk_plain ?_ ?_ rfl
        · intro z hz; simp only [Act.sigs, List.mem_cons, List.mem_nil_iff, or_false] at hz
          rcases hz with rfl | rfl
          · exact (usable_spec hu.1).1
          · exact (usable_spec hu.2).1
        · intro z hz; simp only [Act.operands, List.mem_cons, List.mem_nil_iff, or_false] at hz
          rcases hz with rfl | rfl
          · exact (usable_spec hu.1).2
          · exact (usable_spec hu.2).2
      · cases hc
    | go x =>
      simp only at hc; split at hc
      · rename_i hu; cases hc
        refine invL_push h (fun b hb => (push _).sub hb) (fun b hb => (push _).keep hb) (same _) rfl rfl rfl rfl rfl ?_
        intro b hb; simp only [List.mem_singleton] at hb; subst hb
        exact ActOK.mk_plain (by intro z hz; simp only [Act.sigs, List.mem_singleton] at hz; rw [hz]; exact (usable_spec hu).1)
          (by intro z hz; simp [Act.operands] at hz) rfl
      · cases hc
    | thenUser z k =>
      simp only at hc; split at hc
      · rename_i hu; cases hc
        refine invL_push h (fun b hb => (push _).sub hb) (fun b hb => (push _).keep hb) (same _) rfl rfl rfl rfl rfl ?_
        intro b hb; simp only [List.mem_singleton] at hb; subst hb
        exact ActOK.mk_thenJ (usable_spec hu).1 (by intro o ho; simp [Job.orObj] at ho) (by intro n hn; simp [Job.andObj] at hn)
          (by intro o he; cases he) (by intro n he; cases he)
      · cases hc
    | wait x =>
      simp only at hc; split at hc
      · rename_i hu; cases hc
        refine invL_push h (fun b hb => (push _).sub hb) (fun b hb => (push _).keep hb) (same _) rfl rfl rfl rfl rfl ?_
        intro b hb; simp only [List.mem_singleton] at hb; subst hb
        exact ActOK.mk_plain (by intro z hz; simp only [Act.sigs, List.mem_singleton] at hz; rw [hz]; exact (usable_spec hu).1)
          (by intro z hz; simp [Act.operands] at hz) rfl
      · cases hc
  · cases hc

theorem invL_fire {s s' : State} {t z : Nat} (h : InvL s) (hc : fire s t z = some s') : InvL s' := by
  unfold fire at hc
  split at hc
  · rename_i hcond
    obtain ⟨ht, hempty, hz, _, _⟩ := hcond
    cases hc
    have push : TodoPush s (s.setTodo t [.goS z true]) t [.goS z true] := ⟨ht, by simp [State.setTodo, hempty]⟩
    refine invL_push h (fun b hb => push.sub hb) (fun b hb => push.keep hb) (fun w => ⟨rfl, rfl, rfl, rfl⟩) rfl rfl rfl rfl rfl ?_
    intro b hb; simp only [List.mem_singleton] at hb; subst hb
    exact ActOK.mk_plain (by intro w hw; simp only [Act.sigs, List.mem_singleton] at hw; rw [hw]; exact hz) (by intro w hw; simp [Act.operands] at hw) rfl
  · cases hc

theorem invL_release {s s' : State} {z : Nat} (h : InvL s) (hc : release s z = some s') : InvL s' := by
  unfold release at hc
  split at hc
  · cases hc
    refine invL_push (pre := []) h (fun b hb => Or.inr hb) (fun b hb => hb) ?_ rfl rfl rfl rfl rfl (by intro b hb; cases hb)
    intro w
    by_cases hw : w = z
    · subst hw; simp [State.setSig, upd_same]
    · simp [State.setSig, upd_other _ _ hw]
  · cases hc

theorem invL_newLeaf {s : State} (h : InvL s) : InvL (newLeaf s) := by
  have fresh := h.F5 s.nSig (Nat.le_refl _)
  have sig_any : ∀ w, w ≠ s.nSig → (newLeaf s).sigs w = s.sigs w := fun w hw => by simp [newLeaf, upd_other _ _ hw]
  have sig_new : (newLeaf s).sigs s.nSig = { freshSig .leaf with held := true } := by simp [newLeaf, upd_same]
  have jobs_eq : ∀ w, ((newLeaf s).sigs w).jobs = (s.sigs w).jobs := by
    intro w; by_cases hw : w = s.nSig
    · subst hw; rw [sig_new, fresh.2.1]; rfl
    · rw [sig_any w hw]
  have built_eq : ∀ w, ((newLeaf s).sigs w).built = (s.sigs w).built := by
    intro w; by_cases hw : w = s.nSig
    · subst hw; rw [sig_new, fresh.2.2]; rfl
    · rw [sig_any w hw]
  have alive_old : ∀ w, (s.sigs w).alive = true → ((newLeaf s).sigs w).alive = true := by
    intro w hw; by_cases hws : w = s.nSig
    · subst hws; rw [fresh.1] at hw; cases hw
    · rw [sig_any w hws]; exact hw
  have sig_old : ∀ w, w < s.nSig → (newLeaf s).sigs w = s.sigs w := fun w hw => sig_any w (by omega)
  have td : ∀ b, InTodos (newLeaf s) b ↔ InTodos s b := fun b => inTodos_congr rfl b
  constructor
  case F1 => intro o ho; have := h.F1 o ho; exact ⟨by show (s.ors o).target < s.nSig + 1; omega, by rw [built_eq]; exact this.2⟩
  case F2 => intro n hn; have := h.F2 n hn; exact ⟨by show (s.ands n).target < s.nSig + 1; omega, by rw [built_eq]; exact this.2⟩
  case F3 => intro z o hz; rw [built_eq] at hz; exact h.F3 z o hz
  case F4 => intro z n hz; rw [built_eq] at hz; exact h.F4 z n hz
  case F5 =>
    intro z hz
    have hz' : s.nSig + 1 ≤ z := hz
    rw [sig_any z (by omega)]; exact h.F5 z (by omega)
  case F6 => intro o ho; exact ⟨fun d hd => by have := (h.F6 o ho).1 d hd; show d < s.nSig + 1; omega, (h.F6 o ho).2⟩
  case F7 => intro n hn; exact ⟨fun d hd => by have := (h.F7 n hn).1 d hd; show d < s.nSig + 1; omega, (h.F7 n hn).2⟩
  case M1 => intro a z ha hz; have := h.M1 a z ((td a).mp ha) hz; show z < s.nSig + 1; omega
  case M1a => intro a z ha hz; exact alive_old z (h.M1a a z ((td a).mp ha) hz)
  case M2o => intro a j o ha hj ho; exact h.M2o a j o ((td a).mp ha) hj ho
  case M2a => intro a j n ha hj hn; exact h.M2a a j n ((td a).mp ha) hj hn
  case M3o => intro z j o hj ho; rw [jobs_eq] at hj; exact h.M3o z j o hj ho
  case M3a => intro z j n hj hn; rw [jobs_eq] at hj; exact h.M3a z j n hj hn
  case B3 => intro z o hj; rw [jobs_eq] at hj; exact h.B3 z o hj
  case B3t => intro z o ha; exact h.B3t z o ((td _).mp ha)
  case B3a => intro z n hj; rw [jobs_eq] at hj; exact h.B3a z n hj
  case B3at => intro z n ha; exact h.B3at z n ((td _).mp ha)
  case B4 => intro z j ha; exact h.B4 z j ((td _).mp ha)
  case Jr =>
    intro o ha
    have hb := (td _).mp ha
    have ho := h.M2o _ _ o hb rfl rfl
    show (((newLeaf s).sigs (s.ors o).target).go = true ∨ ((newLeaf s).sigs (s.ors o).target).alive = false)
    rw [sig_old _ (h.F1 o ho).1]; exact h.Jr o hb
  case Jv =>
    intro o ho hd
    show (((newLeaf s).sigs (s.ors o).target).go = true ∨ ((newLeaf s).sigs (s.ors o).target).alive = false)
    rw [sig_old _ (h.F1 o ho).1]; exact h.Jv o ho hd
  case Jra =>
    intro n ha
    have hb := (td _).mp ha
    have hn := h.M2a _ _ n hb rfl rfl
    show ((newLeaf s).sigs (s.ands n).target).go = true
    rw [sig_old _ (h.F2 n hn).1]; exact h.Jra n hb
  case Jva =>
    intro n hn hd
    show ((newLeaf s).sigs (s.ands n).target).go = true
    rw [sig_old _ (h.F2 n hn).1]; exact h.Jva n hn hd
  case Ka =>
    intro n hn hal hgo
    have ht := (h.F2 n hn).1
    change ((newLeaf s).sigs (s.ands n).target).alive = true at hal
    change ((newLeaf s).sigs (s.ands n).target).go = false at hgo
    rw [sig_old _ ht] at hal hgo
    show Job.andCleanup n ∈ ((newLeaf s).sigs (s.ands n).target).jobs ∨ InTodos (newLeaf s) (.thenJ (s.ands n).target (.andCleanup n))
    rw [jobs_eq]
    rcases h.Ka n hn hal hgo with h1 | h1
    · exact Or.inl h1
    · exact Or.inr ((td _).mpr h1)
  case Lo =>
    intro o ho hal hgo d hd
    have ht := (h.F1 o ho).1
    change ((newLeaf s).sigs (s.ors o).target).alive = true at hal
    change ((newLeaf s).sigs (s.ors o).target).go = false at hgo
    rw [sig_old _ ht] at hal hgo
    have := h.Lo o ho hal hgo d hd
    exact ⟨by show d < s.nSig + 1; omega, alive_old d this.2⟩
  case La =>
    intro n hn hal hgo d hd
    have ht := (h.F2 n hn).1
    change ((newLeaf s).sigs (s.ands n).target).alive = true at hal
    change ((newLeaf s).sigs (s.ands n).target).go = false at hgo
    rw [sig_old _ ht] at hal hgo
    have := h.La n hn hal hgo d hd
    exact ⟨by show d < s.nSig + 1; omega, alive_old d this.2⟩

structure Collectable (s : State) (z : Nat) : Prop where
  lo : 2 ≤ z
  lt : z < s.nSig
  alive : (s.sigs z).alive = true
  unheld : (s.sigs z).held = false
  noTodo : ∀ a, InTodos s a → z ∉ a.sigs
  noOr : ∀ o, o < s.nOr → orRef s o = true → z ∉ (s.ors o).deps
  noAnd : ∀ n, n < s.nAnd → andRef s n = true → z ∉ (s.ands n).deps ∧ (s.ands n).target ≠ z

theorem collectable_spec {s : State} {z : Nat} (h : collectable s z = true) : Collectable s z := by
  unfold collectable at h
  simp only [Bool.and_eq_true, decide_eq_true_eq, Bool.not_eq_true', Bool.not_eq_eq_eq_not, Bool.not_true] at h
  obtain ⟨⟨⟨⟨⟨⟨h1, h2⟩, h3⟩, h4⟩, h5⟩, h6⟩, h7⟩ := h
  refine ⟨h1, h2, h3, h4, ?_, ?_, ?_⟩
  · intro a ha hz
    have : sigInTodos s z = true := sigInTodos_true.mpr ⟨a, ha, hz⟩
    rw [h5] at this; cases this
  · intro o ho hr hz
    have : anyBelow s.nOr (fun o => orRef s o && (s.ors o).deps.contains z) = true :=
      anyBelow_true.mpr ⟨o, ho, by simp [hr, hz]⟩
    rw [h6] at this; cases this
  · intro n hn hr
    have hne : ¬ (anyBelow s.nAnd (fun n => andRef s n && ((s.ands n).deps.contains z || (s.ands n).target == z)) = true) := by
      rw [h7]; simp
    constructor
    · intro hz; exact hne (anyBelow_true.mpr ⟨n, hn, by simp [hr, hz]⟩)
    · intro hz; exact hne (anyBelow_true.mpr ⟨n, hn, by simp [hr, hz]⟩)

theorem invL_collect {s s' : State} {t z : Nat} (h : InvL s) (hc : collect s t z = some s') : InvL s' := by
  unfold collect at hc
  by_cases hcond : t < NT ∧ collectable s z = true
  case neg => simp only [hcond, if_false] at hc; cases hc
  simp only [hcond, and_self, if_true] at hc
  obtain ⟨ht, hcol⟩ := hcond
  have C := collectable_spec hcol
  -- the state after the object's fields are dropped, before the callback is queued
  have key : ∀ (pre : List Act), (∀ b, b ∈ pre → ∃ o, b = .run (.orCleanup o) ∧ (s.sigs z).built = .orOut o) →
      ∀ (s2 : State) (v : Sig), v.alive = false → v.jobs = [] → v.built = (s.sigs z).built → v.go = (s.sigs z).go →
        s2.sigs = upd s.sigs z v → s2.nSig = s.nSig → s2.ors = s.ors → s2.nOr = s.nOr →
        s2.ands = s.ands → s2.nAnd = s.nAnd → (∀ b, InTodos s2 b → b ∈ pre ∨ InTodos s b) → (∀ b, InTodos s b → InTodos s2 b) → InvL s2 := by
    intro pre hpre s2 v hv1 hv2 hv3 hv4 e1 e2 e3 e4 e5 e6 hsub hkeep
    have sig_any : ∀ w, w ≠ z → s2.sigs w = s.sigs w := fun w hw => by rw [e1, upd_other _ _ hw]
    have sig_z : s2.sigs z = v := by rw [e1, upd_same]
    have built_eq : ∀ w, (s2.sigs w).built = (s.sigs w).built := by
      intro w; by_cases hw : w = z
      · subst hw; rw [sig_z, hv3]
      · rw [sig_any w hw]
    have go_eq : ∀ w, (s2.sigs w).go = (s.sigs w).go := by
      intro w; by_cases hw : w = z
      · subst hw; rw [sig_z, hv4]
      · rw [sig_any w hw]
    have jobs_sub : ∀ w j, j ∈ (s2.sigs w).jobs → j ∈ (s.sigs w).jobs := by
      intro w j hj; by_cases hw : w = z
      · subst hw; rw [sig_z, hv2] at hj; cases hj
      · rw [sig_any w hw] at hj; exact hj
    have alive_sub : ∀ w, (s2.sigs w).alive = true → (s.sigs w).alive = true := by
      intro w hw; by_cases hwz : w = z
      · subst hwz; rw [sig_z, hv1] at hw; cases hw
      · rw [sig_any w hwz] at hw; exact hw
    have alive_keep : ∀ w, w ≠ z → (s.sigs w).alive = true → (s2.sigs w).alive = true := fun w hw ha => by rw [sig_any w hw]; exact ha
    have dead_mono : ∀ w, (s.sigs w).alive = false → (s2.sigs w).alive = false := by
      intro w hw; cases hh : (s2.sigs w).alive with
      | false => rfl
      | true => rw [alive_sub w hh] at hw; cases hw
    have new_ok : ∀ b, b ∈ pre → ActOK s2 b := by
      intro b hb
      obtain ⟨o, rfl, hbo⟩ := hpre b hb
      have hF := h.F3 z o hbo
      refine ActOK.mk_run (by intro o' ho'; simp only [Job.orObj, Option.some.injEq] at ho'; rw [e4, ← ho']; exact hF.1)
        (by intro n hn; simp [Job.andObj] at hn) ?_ (by intro n he; cases he)
      intro o' he; injection he with h1; subst h1
      right; rw [e3, ← hF.2, sig_z]; exact hv1
    have old_ok : ∀ b, InTodos s b → ActOK s2 b := fun b hb => by
      have o := actOK_of_inv h hb
      refine ⟨fun w hw => by rw [e2]; exact o.sig w hw, ?_, fun j o' hj ho' => by rw [e4]; exact o.jo j o' hj ho',
        fun j n hj hn => by rw [e6]; exact o.ja j n hj hn, fun w o' he => by rw [e3]; exact o.tc w o' he,
        fun w n he => by rw [e5]; exact o.tca w n he, o.rm, ?_, ?_⟩
      · intro w hw
        have hwz : w ≠ z := by
          intro heq; subst heq
          cases b <;> simp only [Act.operands, List.mem_cons, List.mem_nil_iff, or_false] at hw
          all_goals (first | (cases hw; done) | (exact C.noTodo _ hb (by simp only [Act.sigs, List.mem_cons, List.mem_nil_iff, or_false]; exact hw)))
        exact alive_keep w hwz (o.opd w hw)
      · intro o' he; rw [e3, go_eq]
        rcases o.rc o' he with h1 | h1
        · exact Or.inl h1
        · exact Or.inr (dead_mono _ h1)
      · intro n he; rw [e5, go_eq]; exact o.rca n he
    have ok : ∀ b, InTodos s2 b → ActOK s2 b := fun b hb => by
      rcases hsub b hb with h1 | h1
      · exact new_ok b h1
      · exact old_ok b h1
    constructor
    case F1 => intro o ho; rw [e3, built_eq, e2]; rw [e4] at ho; exact h.F1 o ho
    case F2 => intro n hn; rw [e5, built_eq, e2]; rw [e6] at hn; exact h.F2 n hn
    case F3 => intro w o hw; rw [built_eq] at hw; rw [e3, e4]; exact h.F3 w o hw
    case F4 => intro w n hw; rw [built_eq] at hw; rw [e5, e6]; exact h.F4 w n hw
    case F5 =>
      intro w hw; rw [e2] at hw
      have hwz : w ≠ z := by have := C.lt; omega
      rw [sig_any w hwz]; exact h.F5 w hw
    case F6 => intro o ho; rw [e3, e2]; rw [e4] at ho; exact h.F6 o ho
    case F7 => intro n hn; rw [e5, e2]; rw [e6] at hn; exact h.F7 n hn
    case M1 => intro a w ha hw; exact (ok a ha).sig w hw
    case M1a => intro a w ha hw; exact (ok a ha).opd w hw
    case M2o => intro a j o ha hj ho; exact (ok a ha).jo j o hj ho
    case M2a => intro a j n ha hj hn; exact (ok a ha).ja j n hj hn
    case M3o => intro w j o hj ho; rw [e4]; exact h.M3o w j o (jobs_sub w j hj) ho
    case M3a => intro w j n hj hn; rw [e6]; exact h.M3a w j n (jobs_sub w j hj) hn
    case B3 => intro w o hj; rw [e3]; exact h.B3 w o (jobs_sub w _ hj)
    case B3t => intro w o ha; exact (ok _ ha).tc w o rfl
    case B3a => intro w n hj; rw [e5]; exact h.B3a w n (jobs_sub w _ hj)
    case B3at => intro w n ha; exact (ok _ ha).tca w n rfl
    case B4 => intro w j ha; exact (ok _ ha).rm w j rfl
    case Jr => intro o ha; exact (ok _ ha).rc o rfl
    case Jv =>
      intro o ho hdp; rw [e3] at hdp ⊢; rw [e4] at ho; rw [go_eq]
      rcases h.Jv o ho hdp with h1 | h1
      · exact Or.inl h1
      · exact Or.inr (dead_mono _ h1)
    case Jra => intro n ha; exact (ok _ ha).rca n rfl
    case Jva => intro n hn hdp; rw [e5] at hdp ⊢; rw [e6] at hn; rw [go_eq]; exact h.Jva n hn hdp
    case Ka =>
      intro n hn hal hgo; rw [e6] at hn; rw [e5] at hal hgo ⊢
      have hcz : (s.ands n).target ≠ z := by
        intro heq; rw [heq, sig_z, hv1] at hal; cases hal
      rw [go_eq] at hgo
      rcases h.Ka n hn (alive_sub _ hal) hgo with h1 | h1
      · left; rw [sig_any _ hcz]; exact h1
      · right; exact hkeep _ h1
    case Lo =>
      intro o ho hal hgo d hd; rw [e4] at ho; rw [e3] at hal hgo hd
      rw [go_eq] at hgo
      have hal0 := alive_sub _ hal
      have := h.Lo o ho hal0 hgo d hd
      refine ⟨by rw [e2]; exact this.1, ?_⟩
      have hdz : d ≠ z := by
        intro heq; subst heq
        have hdeps : (s.ors o).deps = (s.ors o).deps0 := by
          cases hdd : decide ((s.ors o).deps = (s.ors o).deps0) with
          | true => exact of_decide_eq_true hdd
          | false =>
            have hne := of_decide_eq_false hdd
            rcases h.Jv o ho hne with h1 | h1
            · rw [hgo] at h1; cases h1
            · rw [hal0] at h1; cases h1
        exact C.noOr o ho (orRef_of_target_alive hal0) (by rw [hdeps]; exact hd)
      exact alive_keep d hdz this.2
    case La =>
      intro n hn hal hgo d hd; rw [e6] at hn; rw [e5] at hal hgo hd
      rw [go_eq] at hgo
      have hal0 := alive_sub _ hal
      have := h.La n hn hal0 hgo d hd
      refine ⟨by rw [e2]; exact this.1, ?_⟩
      have hdz : d ≠ z := by
        intro heq; subst heq
        have hdeps : (s.ands n).deps = (s.ands n).deps0 := by
          cases hdd : decide ((s.ands n).deps = (s.ands n).deps0) with
          | true => exact of_decide_eq_true hdd
          | false =>
            have hne := of_decide_eq_false hdd
            have h1 := h.Jva n hn hne
            rw [hgo] at h1; cases h1
        have href : andRef s n = true := by
          rcases h.Ka n hn hal0 hgo with h1 | h1
          · exact andRef_of_job (h.F2 n hn).1 hal0 h1 rfl
          · exact andRef_of_todo h1 rfl rfl
        exact (C.noAnd n hn href).1 (by rw [hdeps]; exact hd)
      exact alive_keep d hdz this.2
  cases hb : (s.sigs z).built with
  | leaf =>
    rw [hb] at hc; cases hc
    exact key [] (by intro b hb'; cases hb') _ { s.sigs z with alive := false, jobs := [], built := Built.leaf } rfl rfl hb.symm rfl rfl rfl rfl rfl rfl rfl (fun b hb' => Or.inr hb') (fun b hb' => hb')
  | andOut n =>
    rw [hb] at hc; cases hc
    exact key [] (by intro b hb'; cases hb') _ { s.sigs z with alive := false, jobs := [], built := Built.andOut n } rfl rfl hb.symm rfl rfl rfl rfl rfl rfl rfl (fun b hb' => Or.inr hb') (fun b hb' => hb')
  | orOut o =>
    rw [hb] at hc; cases hc
    have push : TodoPush (s.setSig z { s.sigs z with alive := false, jobs := [] })
        ((s.setSig z { s.sigs z with alive := false, jobs := [] }).setTodo t (.run (.orCleanup o) :: (s.setSig z { s.sigs z with alive := false, jobs := [] }).todo t))
        t [.run (.orCleanup o)] := ⟨ht, rfl⟩
    refine key [.run (.orCleanup o)] ?_ _ { s.sigs z with alive := false, jobs := [], built := Built.orOut o } rfl rfl hb.symm rfl rfl rfl rfl rfl rfl rfl ?_ ?_
    · intro b hb'; simp only [List.mem_singleton] at hb'; exact ⟨o, hb', hb⟩
    · intro b hb'
      rcases push.sub hb' with h1 | h1
      · exact Or.inl h1
      · exact Or.inr ((inTodos_congr (s := s) (s' := s.setSig z { s.sigs z with alive := false, jobs := [] }) rfl b).mp h1)
    · intro b hb'
      exact push.keep ((inTodos_congr (s := s) (s' := s.setSig z { s.sigs z with alive := false, jobs := [] }) rfl b).mpr hb')

theorem invL_step {s s' : State} {t : Nat} {l : Label} (h : InvL s) (hs : step s t = some (s', l)) : InvL s' := by
  unfold step at hs
  split at hs
  · rename_i ht
    cases htd : s.todo t with
    | nil => rw [htd] at hs; cases hs
    | cons a rest =>
      rw [htd] at hs; simp only at hs
      cases he : exec s t a rest with
      | none => rw [he] at hs; cases hs
      | some s2 => rw [he] at hs; cases hs; exact invL_exec h ht htd he
  · cases hs

theorem reach_invL {s : State} (h : sys.Reach s) : InvL s := by
  refine Sys.Reach.invariant sys (P := InvL) ?_ ?_ ?_ h
  · intro s hi; cases hi; exact invL_init
  · intro s s' hi he
    rcases he with ⟨t, op, hc⟩ | he | ⟨t, z, hc⟩ | ⟨z, hc⟩ | ⟨t, z, hc⟩
    · exact invL_call hi hc
    · subst he; exact invL_newLeaf hi
    · exact invL_fire hi hc
    · exact invL_release hi hc
    · exact invL_collect hi hc
  · intro s s' t l hi hs; exact invL_step hi hs

end MoThreads.Composite
