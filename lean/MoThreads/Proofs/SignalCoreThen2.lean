import MoThreads.Proofs.SignalCoreTac
namespace MoThreads.SignalCore
set_option maxHeartbeats 2000000

theorem step_t4n {s s' : State} {t : Nat} {l : Label} {k : Nat} (h : Inv s) (hp : s.pc t = .t4n k)
    (hs : step s t = some (s', l)) : Inv s' := by
  step_open
  have hgo := h.sawGo t
  have hej := fun hh => lst_eq_nil_of_falsy (h.emptyJ t k hh)
  simp only [hp, PC.sawGo] at hgo hej
  have hk : s.loc k = .inThen t := (h.locThen t k).mp (by simp [hp, PC.thenK])
  loc_facts
  inv_open
  inv_rest

theorem step_t4a {s s' : State} {t : Nat} {l : Label} {k : Nat} (h : Inv s) (hp : s.pc t = .t4a k)
    (hs : step s t = some (s', l)) : Inv s' := by
  step_open
  have hgo := h.sawGo t
  have hej := fun hh => lst_eq_nil_of_falsy (h.emptyJ t k hh)
  simp only [hp, PC.sawGo] at hgo hej
  have hk : s.loc k = .inThen t := (h.locThen t k).mp (by simp [hp, PC.thenK])
  loc_facts
  inv_open
  inv_rest

theorem step_t7 {s s' : State} {t : Nat} {l : Label} {k : Nat} (h : Inv s) (hp : s.pc t = .t7 k)
    (hs : step s t = some (s', l)) : Inv s' := by
  step_open
  have hgo := h.sawGo t
  have hej := fun hh => lst_eq_nil_of_falsy (h.emptyJ t k hh)
  simp only [hp, PC.sawGo] at hgo hej
  have hk : s.loc k = .inThen t := (h.locThen t k).mp (by simp [hp, PC.thenK])
  loc_facts
  inv_open
  inv_rest

theorem step_t8 {s s' : State} {t : Nat} {l : Label} {k : Nat} (h : Inv s) (hp : s.pc t = .t8 k)
    (hs : step s t = some (s', l)) : Inv s' := by
  step_open
  have hk : s.loc k = .erring t := (h.locErr t k).mp (by simp [hp, PC.errK])
  loc_facts
  inv_open
  inv_rest

end MoThreads.SignalCore
