import MoThreads.Proofs.TillTac
namespace MoThreads.Till
set_option maxHeartbeats 4000000

theorem stepD_d4 {s s' : State} {l : Label} {n later : Int} (h : Inv s) (hp : s.dpc = .d4 n later) (hs : stepD s = some (s', l)) : Inv s' := by
  unfold stepD at hs; rw [hp] at hs; simp only at hs
  split at hs
  · cases hs
    inv_open
    all_goals dsimp only
    all_goals try assumption
    all_goals (simp only [hp] at *; pcsimpD)
    case W =>
      have hl := L n later ⟨rfl, rfl⟩
      have hn := N n rfl
      intro w hw
      have hw' := DPC.asleep.inj hw
      split at hw' <;> omega
    all_goals fin
  · cases hs; dcase

end MoThreads.Till
