import MoThreads.Proofs.SignalCoreTac
namespace MoThreads.SignalCore
set_option maxHeartbeats 2000000

theorem step_g10 {s s' : State} {t : Nat} {l : Label} {js : List Nat} (h : Inv s) (hp : s.pc t = .g10 js)
    (hs : step s t = some (s', l)) : Inv s' := by
  cases js with
  | nil => step_at hp hs; cases hs
  | cons k js' =>
    step_open
    have hwin := (h.win t).mp (by simp [hp, PC.isWinner])
    have hk : s.loc k = .detached := (h.locD k).mpr (by simp [State.winPC, hwin, hp, PC.pendingJ])
    have hnd : (k :: js').Nodup := by have := h.nodupD; simpa [State.winPC, hwin, hp, PC.pendingJ] using this
    loc_facts
    by_cases hr : s.raises k = true
    · simp only [hr, if_true]
      inv_open
      all_goals inv_rest
    · simp only [hr]
      rcases afterJob_cases js' with ⟨h1, h3⟩ | ⟨h1, h3⟩ <;> rw [h3] <;> inv_open
      all_goals inv_rest

theorem step_g11 {s s' : State} {t : Nat} {l : Label} {k : Nat} {js : List Nat} (h : Inv s) (hp : s.pc t = .g11 k js)
    (hs : step s t = some (s', l)) : Inv s' := by
  step_open
  have hwin := (h.win t).mp (by simp [hp, PC.isWinner])
  have hk : s.loc k = .erring t := (h.locErr t k).mp (by simp [hp, PC.errK])
  loc_facts
  rcases afterJob_cases js with ⟨h1, h3⟩ | ⟨h1, h3⟩ <;> rw [h3] <;> inv_open
  all_goals inv_rest

end MoThreads.SignalCore
