import MoThreads.Proofs.TillTac
namespace MoThreads.Till
set_option maxHeartbeats 4000000

theorem stepC_c0 {s s' : State} {t : Nat} {l : Label} {secs : Int} {g0 : Bool} (h : Inv s) (ht : t ≠ 0) (hp : s.cpc t = .c0 secs g0)
    (hs : stepC s t = some (s', l)) : Inv s' := by
  unfold stepC at hs; rw [hp] at hs; simp only at hs
  first
  | (cases hs; ccase)
  | (split at hs <;> first | (cases hs; done) | (cases hs; ccase))

theorem stepC_c0a {s s' : State} {t : Nat} {l : Label} {secs : Int} {g0 : Bool} (h : Inv s) (ht : t ≠ 0) (hp : s.cpc t = .c0a secs g0)
    (hs : stepC s t = some (s', l)) : Inv s' := by
  unfold stepC at hs; rw [hp] at hs; simp only at hs
  first
  | (cases hs; ccase)
  | (split at hs <;> first | (cases hs; done) | (cases hs; ccase))

end MoThreads.Till
