/-
  Basic facts about M2 (Model/Composite.lean): pending actions across threads, how one step changes them.
-/
import MoThreads.Model.Composite
namespace MoThreads.Composite
open MoThreads

/-- some thread has action `a` pending -/
def InTodos (s : State) (a : Act) : Prop := ∃ t, t < NT ∧ a ∈ s.todo t

/-- thread `t` replaced the head `a0` of its pending list by `new` -/
structure TodoStep (s s' : State) (t : Nat) (a0 : Act) (rest new : List Act) : Prop where
  ht : t < NT
  hs : s.todo t = a0 :: rest
  hs' : s'.todo = upd s.todo t (new ++ rest)

theorem TodoStep.sub {s s' t a0 rest new} (h : TodoStep s s' t a0 rest new) {b : Act} (hb : InTodos s' b) : b ∈ new ∨ InTodos s b := by
  obtain ⟨u, hu, hm⟩ := hb
  rw [h.hs'] at hm
  by_cases hut : u = t
  · subst hut
    simp only [upd, if_true] at hm
    rcases List.mem_append.mp hm with h1 | h1
    · exact Or.inl h1
    · exact Or.inr ⟨u, hu, by rw [h.hs]; exact List.mem_cons_of_mem _ h1⟩
  · simp only [upd, hut, if_false] at hm
    exact Or.inr ⟨u, hu, hm⟩

theorem TodoStep.keep {s s' t a0 rest new} (h : TodoStep s s' t a0 rest new) {b : Act} (hb : InTodos s b) (hne : b ≠ a0) : InTodos s' b := by
  obtain ⟨u, hu, hm⟩ := hb
  refine ⟨u, hu, ?_⟩
  rw [h.hs']
  by_cases hut : u = t
  · subst hut
    simp only [upd, if_true]
    rw [h.hs] at hm
    rcases List.mem_cons.mp hm with h1 | h1
    · exact absurd h1 hne
    · exact List.mem_append_right _ h1
  · simp only [upd, hut, if_false]; exact hm

theorem TodoStep.intro {s s' t a0 rest new} (h : TodoStep s s' t a0 rest new) {b : Act} (hb : b ∈ new) : InTodos s' b := by
  refine ⟨t, h.ht, ?_⟩
  rw [h.hs']; simp only [upd, if_true]; exact List.mem_append_left _ hb

theorem TodoStep.head {s s' t a0 rest new} (h : TodoStep s s' t a0 rest new) : InTodos s a0 :=
  ⟨t, h.ht, by rw [h.hs]; exact List.mem_cons_self⟩

/-- thread `t` got `pre` pushed in front of its pending list (a call on an idle thread, a weakref callback) -/
structure TodoPush (s s' : State) (t : Nat) (pre : List Act) : Prop where
  ht : t < NT
  hs' : s'.todo = upd s.todo t (pre ++ s.todo t)

theorem TodoPush.sub {s s' t pre} (h : TodoPush s s' t pre) {b : Act} (hb : InTodos s' b) : b ∈ pre ∨ InTodos s b := by
  obtain ⟨u, hu, hm⟩ := hb
  rw [h.hs'] at hm
  by_cases hut : u = t
  · subst hut
    simp only [upd, if_true] at hm
    rcases List.mem_append.mp hm with h1 | h1
    · exact Or.inl h1
    · exact Or.inr ⟨u, hu, h1⟩
  · simp only [upd, hut, if_false] at hm
    exact Or.inr ⟨u, hu, hm⟩

theorem TodoPush.keep {s s' t pre} (h : TodoPush s s' t pre) {b : Act} (hb : InTodos s b) : InTodos s' b := by
  obtain ⟨u, hu, hm⟩ := hb
  refine ⟨u, hu, ?_⟩
  rw [h.hs']
  by_cases hut : u = t
  · subst hut; simp only [upd, if_true]; exact List.mem_append_right _ hm
  · simp only [upd, hut, if_false]; exact hm

theorem TodoPush.intro {s s' t pre} (h : TodoPush s s' t pre) {b : Act} (hb : b ∈ pre) : InTodos s' b :=
  ⟨t, h.ht, by rw [h.hs']; simp only [upd, if_true]; exact List.mem_append_left _ hb⟩

/-- todos unchanged -/
theorem inTodos_congr {s s' : State} (h : s'.todo = s.todo) (a : Act) : InTodos s' a ↔ InTodos s a := by
  unfold InTodos; rw [h]

/-! ### Bool searches -/

theorem anyBelow_true {n : Nat} {p : Nat → Bool} : anyBelow n p = true ↔ ∃ i, i < n ∧ p i = true := by
  unfold anyBelow
  simp [List.any_eq_true, List.mem_range]

theorem anyThread_true {p : Nat → Bool} : anyThread p = true ↔ ∃ t, t < NT ∧ p t = true := by
  unfold anyThread
  simp [List.any_eq_true, List.mem_range]

theorem sigInTodos_true {s : State} {z : Nat} : sigInTodos s z = true ↔ ∃ a, InTodos s a ∧ z ∈ a.sigs := by
  unfold sigInTodos InTodos
  rw [anyThread_true]
  constructor
  · rintro ⟨t, ht, h⟩
    obtain ⟨a, ha, hz⟩ := List.any_eq_true.mp h
    exact ⟨a, ⟨t, ht, ha⟩, by simpa using hz⟩
  · rintro ⟨a, ⟨t, ht, ha⟩, hz⟩
    exact ⟨t, ht, List.any_eq_true.mpr ⟨a, ha, by simpa using hz⟩⟩

theorem orInTodos_true {s : State} {o : Nat} : orInTodos s o = true ↔ ∃ a j, InTodos s a ∧ a.job = some j ∧ j.orObj = some o := by
  unfold orInTodos InTodos
  rw [anyThread_true]
  constructor
  · rintro ⟨t, ht, h⟩
    obtain ⟨a, ha, hz⟩ := List.any_eq_true.mp h
    cases hj : a.job with
    | none => rw [hj] at hz; simp at hz
    | some j => rw [hj] at hz; exact ⟨a, j, ⟨t, ht, ha⟩, hj, by simpa using hz⟩
  · rintro ⟨a, j, ⟨t, ht, ha⟩, hj, ho⟩
    exact ⟨t, ht, List.any_eq_true.mpr ⟨a, ha, by rw [hj]; simpa using ho⟩⟩

theorem andInTodos_true {s : State} {n : Nat} : andInTodos s n = true ↔ ∃ a j, InTodos s a ∧ a.job = some j ∧ j.andObj = some n := by
  unfold andInTodos InTodos
  rw [anyThread_true]
  constructor
  · rintro ⟨t, ht, h⟩
    obtain ⟨a, ha, hz⟩ := List.any_eq_true.mp h
    cases hj : a.job with
    | none => rw [hj] at hz; simp at hz
    | some j => rw [hj] at hz; exact ⟨a, j, ⟨t, ht, ha⟩, hj, by simpa using hz⟩
  · rintro ⟨a, j, ⟨t, ht, ha⟩, hj, ho⟩
    exact ⟨t, ht, List.any_eq_true.mpr ⟨a, ha, by rw [hj]; simpa using ho⟩⟩

/-- a live composite keeps its OrSignal object alive -/
theorem orRef_of_target_alive {s : State} {o : Nat} (h : (s.sigs (s.ors o).target).alive = true) : orRef s o = true := by
  unfold orRef; simp [h]

theorem andRef_of_job {s : State} {n z : Nat} {j : Job} (hz : z < s.nSig) (ha : (s.sigs z).alive = true) (hj : j ∈ (s.sigs z).jobs)
    (hn : j.andObj = some n) : andRef s n = true := by
  unfold andRef
  apply Bool.or_eq_true_iff.mpr; right
  rw [anyBelow_true]
  exact ⟨z, hz, by simp only [ha, Bool.true_and]; exact List.any_eq_true.mpr ⟨j, hj, by simpa using hn⟩⟩

theorem andRef_of_todo {s : State} {n : Nat} {a : Act} {j : Job} (ha : InTodos s a) (hj : a.job = some j) (hn : j.andObj = some n) :
    andRef s n = true := by
  unfold andRef
  apply Bool.or_eq_true_iff.mpr; left
  exact andInTodos_true.mpr ⟨a, j, ha, hj, hn⟩

end MoThreads.Composite
