/-
  Basic facts about M2 (Model/Composite.lean): pending actions across threads, how one step changes them.
-/
import MoThreads.Model.Composite
namespace MoThreads.Composite
open MoThreads

/-- some thread has action `a` pending -/
def InTodos (s : State) (a : Act) : Prop := ∃ t, t < NT ∧ a ∈ s.todo t

/-- thread `t` replaced the head `a0` of its pending list by `new` -/
structure TodoStep (s s' : State) (t : Nat) (a0 : Act) (rest new : List Act) : Prop where
  ht : t < NT
  hs : s.todo t = a0 :: rest
  hs' : s'.todo = upd s.todo t (new ++ rest)

theorem TodoStep.sub {s s' t a0 rest new} (h : TodoStep s s' t a0 rest new) {b : Act} (hb : InTodos s' b) : b ∈ new ∨ InTodos s b := by
  obtain ⟨u, hu, hm⟩ := hb
  rw [h.hs'] at hm
  by_cases hut : u = t
  · subst hut
    simp only [upd, if_true] at hm
    rcases List.mem_append.mp hm with h1 | h1
    · exact Or.inl h1
    · exact Or.inr ⟨u, hu, by rw [h.hs]; exact List.mem_cons_of_mem _ h1⟩
  · simp only [upd, hut, if_false] at hm
    exact Or.inr ⟨u, hu, hm⟩

theorem TodoStep.keep {s s' t a0 rest new} (h : TodoStep s s' t a0 rest new) {b : Act} (hb : InTodos s b) (hne : b ≠ a0) : InTodos s' b := by
  obtain ⟨u, hu, hm⟩ := hb
  refine ⟨u, hu, ?_⟩
  rw [h.hs']
  by_cases hut : u = t
  · subst hut
    simp only [upd, if_true]
    rw [h.hs] at hm
    rcases List.mem_cons.mp hm with h1 | h1
    · exact absurd h1 hne
    · exact List.mem_append_right _ h1
  · simp only [upd, hut, if_false]; exact hm

theorem TodoStep.intro {s s' t a0 rest new} (h : TodoStep s s' t a0 rest new) {b : Act} (hb : b ∈ new) : InTodos s' b := by
  refine ⟨t, h.ht, ?_⟩
  rw [h.hs']; simp only [upd, if_true]; exact List.mem_append_left _ hb

theorem TodoStep.head {s s' t a0 rest new} (h : TodoStep s s' t a0 rest new) : InTodos s a0 :=
  ⟨t, h.ht, by rw [h.hs]; exact List.mem_cons_self⟩

/-- thread `t` got `pre` pushed in front of its pending list (a call on an idle thread, a weakref callback) -/
structure TodoPush (s s' : State) (t : Nat) (pre : List Act) : Prop where
  ht : t < NT
  hs' : s'.todo = upd s.todo t (pre ++ s.todo t)

theorem TodoPush.sub {s s' t pre} (h : TodoPush s s' t pre) {b : Act} (hb : InTodos s' b) : b ∈ pre ∨ InTodos s b := by
  obtain ⟨u, hu, hm⟩ := hb
  rw [h.hs'] at hm
  by_cases hut : u = t
  · subst hut
    simp only [upd, if_true] at hm
    rcases List.mem_append.mp hm with h1 | h1
    · exact Or.inl h1
    · exact Or.inr ⟨u, hu, h1⟩
  · simp only [upd, hut, if_false] at hm
    exact Or.inr ⟨u, hu, hm⟩

theorem TodoPush.keep {s s' t pre} (h : TodoPush s s' t pre) {b : Act} (hb : InTodos s b) : InTodos s' b := by
  obtain ⟨u, hu, hm⟩ := hb
  refine ⟨u, hu, ?_⟩
  rw [h.hs']
  by_cases hut : u = t
  · subst hut; simp only [upd, if_true]; exact List.mem_append_right _ hm
  · simp only [upd, hut, if_false]; exact hm

theorem TodoPush.intro {s s' t pre} (h : TodoPush s s' t pre) {b : Act} (hb : b ∈ pre) : InTodos s' b :=
  ⟨t, h.ht, by rw [h.hs']; simp only [upd, if_true]; exact List.mem_append_left _ hb⟩

/-- todos unchanged -/
theorem inTodos_congr {s s' : State} (h : s'.todo = s.todo) (a : Act) : InTodos s' a ↔ InTodos s a := by
  unfold InTodos; rw [h]

/-! ### Bool searches -/

theorem anyBelow_true {n : Nat} {p : Nat → Bool} : anyBelow n p = true ↔ ∃ i, i < n ∧ p i = true := by
  unfold anyBelow
  simp [List.any_eq_true, List.mem_range]

theorem anyThread_true {p : Nat → Bool} : anyThread p = true ↔ ∃ t, t < NT ∧ p t = true := by
  unfold anyThread
  simp [List.any_eq_true, List.mem_range]

theorem sigInTodos_true {s : State} {z : Nat} : sigInTodos s z = true ↔ ∃ a, InTodos s a ∧ z ∈ a.sigs := by
  unfold sigInTodos InTodos
  rw [anyThread_true]
  constructor
  · rintro ⟨t, ht, h⟩
    obtain ⟨a, ha, hz⟩ := List.any_eq_true.mp h
    exact ⟨a, ⟨t, ht, ha⟩, by simpa using hz⟩
  · rintro ⟨a, ⟨t, ht, ha⟩, hz⟩
    exact ⟨t, ht, List.any_eq_true.mpr ⟨a, ha, by simpa using hz⟩⟩

theorem orInTodos_true {s : State} {o : Nat} : orInTodos s o = true ↔ ∃ a j, InTodos s a ∧ a.job = some j ∧ j.orObj = some o := by
  unfold orInTodos InTodos
  rw [anyThread_true]
  constructor
  · rintro ⟨t, ht, h⟩
    obtain ⟨a, ha, hz⟩ := List.any_eq_true.mp h
    cases hj : a.job with
    | none => rw [hj] at hz; simp at hz
    | some j => rw [hj] at hz; exact ⟨a, j, ⟨t, ht, ha⟩, hj, by simpa using hz⟩
  · rintro ⟨a, j, ⟨t, ht, ha⟩, hj, ho⟩
    exact ⟨t, ht, List.any_eq_true.mpr ⟨a, ha, by rw [hj]; simpa using ho⟩⟩

theorem andInTodos_true {s : State} {n : Nat} : andInTodos s n = true ↔ ∃ a j, InTodos s a ∧ a.job = some j ∧ j.andObj = some n := by
  unfold andInTodos InTodos
  rw [anyThread_true]
  constructor
  · rintro ⟨t, ht, h⟩
    obtain ⟨a, ha, hz⟩ := List.any_eq_true.mp h
    cases hj : a.job with
    | none => rw [hj] at hz; simp at hz
    | some j => rw [hj] at hz; exact ⟨a, j, ⟨t, ht, ha⟩, hj, by simpa using hz⟩
  · rintro ⟨a, j, ⟨t, ht, ha⟩, hj, ho⟩
    exact ⟨t, ht, List.any_eq_true.mpr ⟨a, ha, by rw [hj]; simpa using ho⟩⟩

/-- a live composite keeps its OrSignal object alive -/
theorem orRef_of_target_alive {s : State} {o : Nat} (h : (s.sigs (s.ors o).target).alive = true) : orRef s o = true := by
  unfold orRef; simp [h]

theorem andRef_of_job {s : State} {n z : Nat} {j : Job} (hz : z < s.nSig) (ha : (s.sigs z).alive = true) (hj : j ∈ (s.sigs z).jobs)
    (hn : j.andObj = some n) : andRef s n = true := by
  unfold andRef
  apply Bool.or_eq_true_iff.mpr; right
  rw [anyBelow_true]
  exact ⟨z, hz, by simp only [ha, Bool.true_and]; exact List.any_eq_true.mpr ⟨j, hj, by simpa using hn⟩⟩

theorem andRef_of_todo {s : State} {n : Nat} {a : Act} {j : Job} (ha : InTodos s a) (hj : a.job = some j) (hn : j.andObj = some n) :
    andRef s n = true := by
  unfold andRef
  apply Bool.or_eq_true_iff.mpr; left
  exact andInTodos_true.mpr ⟨a, j, ha, hj, hn⟩

end MoThreads.Composite

namespace MoThreads.Composite
open MoThreads

/-! ### counting pending actions -/

/-- how many times action `a` is pending, over all threads -/
def cnt (s : State) (a : Act) : Nat := sumTo NT (fun t => (s.todo t).count a)

theorem sumTo_pos {n : Nat} {f : Nat → Nat} : 0 < sumTo n f ↔ ∃ i, i < n ∧ 0 < f i := by
  induction n with
  | zero => simp [sumTo]
  | succ n ih =>
    simp only [sumTo]
    constructor
    · intro h
      by_cases hn : 0 < f n
      · exact ⟨n, by omega, hn⟩
      · have : 0 < sumTo n f := by omega
        obtain ⟨i, hi, hf⟩ := ih.mp this
        exact ⟨i, by omega, hf⟩
    · rintro ⟨i, hi, hf⟩
      by_cases hin : i = n
      · subst hin; omega
      · have : 0 < sumTo n f := ih.mpr ⟨i, by omega, hf⟩
        omega

theorem cnt_pos {s : State} {a : Act} : 0 < cnt s a ↔ InTodos s a := by
  unfold cnt InTodos
  rw [sumTo_pos]
  constructor
  · rintro ⟨t, ht, h⟩; exact ⟨t, ht, List.count_pos_iff.mp h⟩
  · rintro ⟨t, ht, h⟩; exact ⟨t, ht, List.count_pos_iff.mpr h⟩

theorem cnt_zero {s : State} {a : Act} : cnt s a = 0 ↔ ¬ InTodos s a := by
  rw [← cnt_pos]; omega

theorem TodoStep.cnt_eq {s s' t a0 rest new} (h : TodoStep s s' t a0 rest new) (b : Act) :
    cnt s' b + (if b = a0 then 1 else 0) = cnt s b + new.count b := by
  have key := sumTo_update (n := NT) (f := fun u => (s.todo u).count b) (g := fun u => (s'.todo u).count b) (t := t) h.ht
    (by intro i hi; show (s.todo i).count b = (s'.todo i).count b; rw [h.hs']; simp [upd, hi])
  have hF : (s.todo t).count b = rest.count b + (if b = a0 then 1 else 0) := by
    rw [h.hs, List.count_cons]
    by_cases hb : b = a0
    · subst hb; simp
    · have : ¬ a0 = b := fun h => hb h.symm
      simp [hb, this]
  have hG : (s'.todo t).count b = new.count b + rest.count b := by
    rw [h.hs']; simp [upd, List.count_append]
  have e1 : cnt s' b = sumTo NT (fun u => (s'.todo u).count b) := rfl
  have e2 : cnt s b = sumTo NT (fun u => (s.todo u).count b) := rfl
  omega

theorem TodoPush.cnt_eq {s s' t pre} (h : TodoPush s s' t pre) (b : Act) : cnt s' b = cnt s b + pre.count b := by
  have key := sumTo_update (n := NT) (f := fun u => (s.todo u).count b) (g := fun u => (s'.todo u).count b) (t := t) h.ht
    (by intro i hi; show (s.todo i).count b = (s'.todo i).count b; rw [h.hs']; simp [upd, hi])
  have hG : (s'.todo t).count b = pre.count b + (s.todo t).count b := by
    rw [h.hs']; simp [upd, List.count_append]
  have e1 : cnt s' b = sumTo NT (fun u => (s'.todo u).count b) := rfl
  have e2 : cnt s b = sumTo NT (fun u => (s.todo u).count b) := rfl
  omega

theorem cnt_congr {s s' : State} (h : s'.todo = s.todo) (a : Act) : cnt s' a = cnt s a := by
  unfold cnt; rw [h]

theorem count_map_run (l : List Job) (j : Job) : (l.map Act.run).count (Act.run j) = l.count j := by
  induction l with
  | nil => rfl
  | cons x r ih =>
    simp only [List.map_cons, List.count_cons, ih]
    by_cases hx : x = j
    · subst hx; simp
    · have : ¬ Act.run x = Act.run j := by intro he; injection he with h1; exact hx h1
      simp [hx, this]

end MoThreads.Composite

namespace MoThreads.Composite
open MoThreads

theorem sumTo_ge_one {n : Nat} {f : Nat → Nat} {t : Nat} (ht : t < n) : f t ≤ sumTo n f := by
  induction n with
  | zero => omega
  | succ n ih =>
    simp only [sumTo]
    by_cases htn : t = n
    · subst htn; omega
    · have := ih (by omega); omega

theorem sumTo_ge_two {n : Nat} {f : Nat → Nat} {t u : Nat} (ht : t < n) (hu : u < n) (hne : t ≠ u) : f t + f u ≤ sumTo n f := by
  have key := sumTo_update (n := n) (f := f) (g := fun i => if i = t then 0 else f i) (t := t) ht (by intro i hi; simp [hi])
  have h1 := sumTo_ge_one (n := n) (f := fun i => if i = t then 0 else f i) (t := u) hu
  simp only [if_neg (Ne.symm hne), if_true] at h1 key
  omega

theorem cnt_ge_count {s : State} {a : Act} {t : Nat} (ht : t < NT) : (s.todo t).count a ≤ cnt s a :=
  sumTo_ge_one (f := fun u => (s.todo u).count a) ht

theorem cnt_ge_two {s : State} {a : Act} {t u : Nat} (ht : t < NT) (hu : u < NT) (hne : t ≠ u) :
    (s.todo t).count a + (s.todo u).count a ≤ cnt s a :=
  sumTo_ge_two (f := fun v => (s.todo v).count a) ht hu hne

/-- no operation, callback or cleanup is in progress -/
def Quiet (s : State) : Prop := ∀ t, t < NT → s.todo t = []

theorem not_inTodos_of_quiet {s : State} (hq : Quiet s) (a : Act) : ¬ InTodos s a := by
  rintro ⟨t, ht, hm⟩; rw [hq t ht] at hm; cases hm

/-! ### concrete executions (for the non-vacuity examples of Props/C03, C04, C15) -/

def runSched (s : State) : List Nat → Option State
  | [] => some s
  | t :: ts => match step s t with
    | some (s', _) => runSched s' ts
    | none => none

theorem reach_runSched {s s' : State} (ts : List Nat) (h : sys.Reach s) (hr : runSched s ts = some s') : sys.Reach s' := by
  induction ts generalizing s with
  | nil => cases hr; exact h
  | cons t ts ih =>
    simp only [runSched] at hr
    cases hst : step s t with
    | none => rw [hst] at hr; cases hr
    | some p =>
      rw [hst] at hr
      exact ih (Sys.Reach.step (t := t) (l := p.2) h (by show step s t = some (p.1, p.2); rw [hst])) hr

theorem some_getD_of_isSome {α : Type} (o : Option α) (d : α) (h : o.isSome = true) : o = some (o.getD d) := by
  cases o with
  | none => cases h
  | some x => rfl


/-! ### the hypotheses are satisfiable: `c = a | b` is built, then `a.go()` -/

def demoO0 : State := newLeaf (newLeaf init)                                   -- a = 2, b = 3
def demoO1 : Option State := call demoO0 0 (.mkOr 2 3)
def demoO2 : Option State := runSched (demoO1.getD init) [0, 0, 0, 0, 0, 0, 0]    -- tests, OrSignal, three registrations, ret: c = 4
def demoO3 : Option State := call (demoO2.getD init) 1 (.go 2)
def demoO4 : Option State := runSched (demoO3.getD init) [1, 1, 1, 1, 1, 1]       -- flag, hook, c.go(), cleanup, two removals

theorem demoO_reach : sys.Reach (demoO2.getD init) ∧ sys.Reach (demoO4.getD init) := by
  have h1 := some_getD_of_isSome demoO1 init (by decide +kernel)
  have h2 := some_getD_of_isSome demoO2 init (by decide +kernel)
  have h3 := some_getD_of_isSome demoO3 init (by decide +kernel)
  have h4 := some_getD_of_isSome demoO4 init (by decide +kernel)
  have r0 : sys.Reach demoO0 :=
    Sys.Reach.env (Sys.Reach.env (Sys.Reach.init rfl) (Or.inr (Or.inl rfl))) (Or.inr (Or.inl rfl))
  have r1 : sys.Reach (demoO1.getD init) := Sys.Reach.env r0 (Or.inl ⟨0, _, h1⟩)
  have r2 : sys.Reach (demoO2.getD init) := reach_runSched _ r1 h2
  have r3 : sys.Reach (demoO3.getD init) := Sys.Reach.env r2 (Or.inl ⟨1, _, h3⟩)
  exact ⟨r2, reach_runSched _ r3 h4⟩

end MoThreads.Composite
