/-
  M5 (ThreadTree): children lists and the registry hold distinct ids (InvK), and the ranking function:
  every system step strictly decreases `rank N`, so every run without new API calls has bounded length
  under any scheduler (L2 for C10, C11, C12).
-/
import MoThreads.Proofs.TreeRankDefs
namespace MoThreads.ThreadTree
open MoThreads
set_option maxHeartbeats 1000000

/-- children lists and the registry hold distinct ids; children are younger than their parent -/
structure InvK (s : State) : Prop where
  K1 : ∀ p c, c ∈ s.children p → p < c ∧ c < s.nextId
  K2 : ∀ p, (s.children p).Nodup
  K3 : s.allOrder.Nodup
  K4 : ∀ t, t ∈ s.allOrder → s.inAll t = true

theorem nodup_snoc {l : List Nat} {t : Nat} (h : l.Nodup) (ht : t ∉ l) : (l ++ [t]).Nodup := by
  rw [List.nodup_append]; refine ⟨h, by simp, ?_⟩; intro a ha b hb; simp at hb; subst hb; intro he; subst he; exact ht ha

theorem invK_init : InvK init := by
  refine ⟨?_, ?_, ?_, ?_⟩
  · intro p c h; simp [init] at h
  · intro p; simp [init]
  · simp [init]
  · intro t h; simp [init] at h; simp [init, h]

theorem invK_stepStop {s s' : State} {t : Nat} {w : List SAct} {k : List SAct → Call} {l : Label} (hk : InvK s)
    (hs : stepStop s t w k = some (s', l)) : InvK s' := by
  unfold stepStop at hs
  cases w with
  | nil => cases hs
  | cons a r =>
    cases a with
    | visit u => cases hs; exact ⟨hk.K1, hk.K2, hk.K3, hk.K4⟩
    | fire u => cases hs; exact ⟨hk.K1, hk.K2, hk.K3, hk.K4⟩

theorem invK_stepJoin {s s' : State} {t : Nat} {top : List Nat} {w : List JAct} {tl : Option Nat} {raised : List Nat}
    {all : Bool} {k : List JAct → List Nat → Call} {l : Label} (hk : InvK s)
    (hs : stepJoin s t top w tl raised all k = some (s', l)) : InvK s' := by
  unfold stepJoin at hs
  cases w with
  | nil => cases hs
  | cons a r =>
    cases a with
    | wait u =>
      simp only at hs
      split at hs
      · cases hs; exact ⟨hk.K1, hk.K2, hk.K3, hk.K4⟩
      · split at hs
        · cases hs; exact ⟨hk.K1, hk.K2, hk.K3, hk.K4⟩
        · cases hs
    | unreg u =>
      cases hs
      refine ⟨?_, ?_, hk.K3, hk.K4⟩
      · intro p c hc
        simp only [upd] at hc
        split at hc
        · rename_i hp; subst hp; exact hk.K1 _ c (List.mem_of_mem_erase hc)
        · exact hk.K1 p c hc
      · intro p
        simp only [upd]
        split
        · exact (hk.K2 _).erase _
        · exact hk.K2 p
    | start u => cases hs; exact ⟨hk.K1, hk.K2, hk.K3, hk.K4⟩
    | mark u => cases hs; exact ⟨hk.K1, hk.K2, hk.K3, hk.K4⟩
    | finish u cs => cases hs; exact ⟨hk.K1, hk.K2, hk.K3, hk.K4⟩

set_option hygiene false in
macro "kk" : tactic => `(tactic| (exact ⟨hk.K1, hk.K2, hk.K3, hk.K4⟩))

theorem invK_step {s s' : State} {t : Nat} {l : Label} (h : Inv s) (hr : InvR s) (hk : InvK s) (hs : step s t = some (s', l)) : InvK s' := by
  cases hph : s.phase t with
  | absent => unfold step at hs; rw [hph] at hs; cases hs
  | dead => unfold step at hs; rw [hph] at hs; cases hs
  | created =>
    unfold step at hs; rw [hph] at hs; cases hs
    refine ⟨hk.K1, hk.K2, ?_, ?_⟩
    · show (if s.inAll t = true then s.allOrder else s.allOrder ++ [t]).Nodup
      split
      · exact hk.K3
      · rename_i hin
        exact nodup_snoc hk.K3 (fun ha => hin (hk.K4 t ha))
    · intro u hu
      simp only [upd]
      split
      · rfl
      · rename_i hut
        have : u ∈ s.allOrder := by
          split at hu
          · exact hu
          · rcases List.mem_append.mp hu with h1 | h1
            · exact h1
            · simp at h1; exact absurd h1 hut
        exact hk.K4 u this
  | peek o => unfold step at hs; rw [hph] at hs; cases hs; kk
  | fin1 => unfold step at hs; rw [hph] at hs; cases hs; kk
  | fin4 cs =>
    unfold step at hs; rw [hph] at hs; cases hs
    refine ⟨?_, ?_, hk.K3, hk.K4⟩
    · intro p c hc; simp only [upd] at hc; split at hc
      · cases hc
      · exact hk.K1 p c hc
    · intro p; simp only [upd]; split
      · simp
      · exact hk.K2 p
  | fin5 cs =>
    unfold step at hs; rw [hph] at hs; cases hs
    refine ⟨hk.K1, hk.K2, hk.K3.erase _, ?_⟩
    intro u hu
    have hu' := (List.Nodup.mem_erase_iff hk.K3).mp hu
    simp only [upd, hu'.1, if_false]
    exact hk.K4 u hu'.2
  | fin6 cs => unfold step at hs; rw [hph] at hs; cases hs; kk
  | linger =>
    unfold step at hs; rw [hph] at hs; simp only at hs
    split at hs
    · cases hs; kk
    · split at hs
      · split at hs
        · cases hs; kk
        · cases hs
          refine ⟨?_, ?_, hk.K3, hk.K4⟩
          · intro p c hc
            simp only [upd] at hc
            split at hc
            · rename_i hp; subst hp; exact hk.K1 _ c (List.mem_of_mem_erase hc)
            · exact hk.K1 p c hc
          · intro p
            simp only [upd]
            split
            · exact (hk.K2 _).erase _
            · exact hk.K2 p
      · cases hs
  | fin2 cs =>
    unfold step at hs; rw [hph] at hs; simp only at hs
    split at hs
    · cases hs; kk
    · exact invK_stepStop hk hs
    · cases hs
  | fin3 cs =>
    unfold step at hs; rw [hph] at hs; simp only at hs
    split at hs
    · cases hs; kk
    · exact invK_stepJoin hk hs
    · cases hs
  | running =>
    cases hc : s.call t with
    | idle r => unfold step at hs; rw [hph] at hs; simp only [hc] at hs; cases hs
    | spawn c =>
      unfold step at hs; rw [hph] at hs; simp only [hc] at hs
      have hsc := h.spawnC t c hc
      split at hs
      · cases hs; kk
      · rename_i hnin
        cases hs
        have hno : s.orphan c = false := by
          cases ho : s.orphan c
          · rfl
          · exact absurd (Or.inr ho) hnin
        have h3 := hr.R3 t c hc hno
        refine ⟨?_, ?_, hk.K3, hk.K4⟩
        · intro p x hx
          simp only [upd] at hx
          split at hx
          · rename_i hp; subst hp
            rcases List.mem_append.mp hx with h1 | h1
            · exact hk.K1 _ x h1
            · simp at h1; subst h1; exact ⟨h3.2, hsc.2⟩
          · exact hk.K1 p x hx
        · intro p
          simp only [upd]
          split
          · rename_i hp; subst hp
            exact nodup_snoc (hk.K2 _) (fun ha => hnin (Or.inl ha))
          · exact hk.K2 p
    | releasing u => unfold step at hs; rw [hph] at hs; simp only [hc] at hs; cases hs; kk
    | stopping w =>
      unfold step at hs; rw [hph] at hs; simp only [hc] at hs
      split at hs
      · cases hs; kk
      · exact invK_stepStop hk hs
    | joining top w tl raised all =>
      unfold step at hs; rw [hph] at hs; simp only [hc] at hs
      split at hs
      · cases hs; kk
      · exact invK_stepJoin hk hs
    | m0 => unfold step at hs; rw [hph] at hs; simp only [hc] at hs; cases hs; kk
    | m1 => unfold step at hs; rw [hph] at hs; simp only [hc] at hs; cases hs; kk
    | mS cs w =>
      unfold step at hs; rw [hph] at hs; simp only [hc] at hs
      split at hs
      · cases hs; kk
      · exact invK_stepStop hk hs
    | mJ cs w raised =>
      unfold step at hs; rw [hph] at hs; simp only [hc] at hs
      split at hs
      · cases hs; kk
      · exact invK_stepJoin hk hs
    | m2 cs raised =>
      unfold step at hs; rw [hph] at hs; simp only [hc] at hs; cases hs
      refine ⟨hk.K1, hk.K2, hk.K3.erase _, ?_⟩
      intro u hu
      have hu' := (List.Nodup.mem_erase_iff hk.K3).mp hu
      simp only [upd, hu'.1, if_false]
      exact hk.K4 u hu'.2
    | mRS cs raised res w =>
      unfold step at hs; rw [hph] at hs; simp only [hc] at hs
      split at hs
      · cases hs; kk
      · exact invK_stepStop hk hs
    | mRJ cs raised res w raised2 =>
      unfold step at hs; rw [hph] at hs; simp only [hc] at hs
      split at hs
      · cases hs; kk
      · exact invK_stepJoin hk hs

theorem invK_call {s s' : State} {t : Nat} {op : Op} (hk : InvK s) (hc : call s t op = some s') : InvK s' := by
  unfold call at hc
  split at hc
  · cases op with
    | spawn => cases hc; exact ⟨fun p c h => by have := hk.K1 p c h; exact ⟨this.1, by show c < s.nextId + 1; omega⟩, hk.K2, hk.K3, hk.K4⟩
    | spawnOrphan => cases hc; exact ⟨fun p c h => by have := hk.K1 p c h; exact ⟨this.1, by show c < s.nextId + 1; omega⟩, hk.K2, hk.K3, hk.K4⟩
    | stop u => cases hc; kk
    | join u tl => cases hc; kk
    | joinAll us tl => cases hc; kk
    | release u => cases hc; kk
    | mainStop => simp only at hc; split at hc <;> (first | (cases hc; done) | (cases hc; kk))
    | finish o => simp only at hc; split at hc <;> (first | (cases hc; done) | (cases hc; kk))
  · cases hc

theorem reach_invK {s : State} (h : sys.Reach s) : InvK s := by
  induction h with
  | init hi => cases hi; exact invK_init
  | env hr he ih =>
    rcases he with ⟨t, op, hc⟩ | ⟨x, rfl⟩ | ⟨x, rfl⟩
    · exact invK_call ih hc
    · exact ⟨ih.K1, ih.K2, ih.K3, ih.K4⟩
    · exact ⟨ih.K1, ih.K2, ih.K3, ih.K4⟩
  | step hr hs ih =>
    have := reach_invR hr
    exact invK_step this.1 this.2 ih hs

/-- everything registered in ALL is an existing thread -/
theorem allOrder_lt {s : State} (h : Inv s) (hr : InvR s) (hk : InvK s) {t : Nat} (ht : t ∈ s.allOrder) : t < s.nextId := by
  have hin := hk.K4 t ht
  apply lt_nextId h
  by_cases h0 : t = 0
  · subst h0; rw [hr.R5]; intro hh; cases hh
  · intro hab
    have := hr.R1 t h0 (by rw [hab]; rfl)
    rw [this] at hin; cases hin

theorem rank_lt_one {N : Nat} {s s' : State} {t : Nat} {c' : Call} (ht : t < N) (hp : s'.phase = s.phase) (he : s'.everChild = s.everChild)
    (hc : s'.call = upd s.call t c') (hd : wTh N t (s.phase t) c' (s.everChild t) < wTh N t (s.phase t) (s.call t) (s.everChild t)) : rank N s' < rank N s := by
  unfold rank
  refine sumTo_one ht (fun u hu => ?_) ?_
  · simp only [hp, he, hc, upd, hu, if_false]
  · simp only [hp, he, hc, upd, if_true]; exact hd

/-- a step of a flattened stop() shortens the work list (by weight) -/
theorem stepStop_dec {N : Nat} {s s' : State} {t : Nat} {w : List SAct} {k : List SAct → Call} {l : Label} (hk : InvK s) (hN : s.nextId ≤ N)
    (hs : stepStop s t w k = some (s', l)) : s'.phase = s.phase ∧ s'.everChild = s.everChild ∧ ∃ w', s'.call = upd s.call t (k w') ∧ wS N w' < wS N w := by
  unfold stepStop at hs
  cases w with
  | nil => cases hs
  | cons a r =>
    cases a with
    | visit u =>
      cases hs
      refine ⟨rfl, rfl, _, rfl, ?_⟩
      have := lsum_pw_children (N := N) (u := u) (hk.K2 u) (fun c hc => by have := hk.K1 u c hc; omega)
      simp only [wS_append, wS_visits, wS, wSA]
      omega
    | fire u =>
      cases hs
      refine ⟨rfl, rfl, _, rfl, ?_⟩
      simp only [wS, wSA]; omega

theorem stepJoin_dec {N : Nat} {s s' : State} {t : Nat} {top : List Nat} {w : List JAct} {tl : Option Nat} {raised : List Nat}
    {all : Bool} {k : List JAct → List Nat → Call} {l : Label} (hk : InvK s) (hN : s.nextId ≤ N)
    (hs : stepJoin s t top w tl raised all k = some (s', l)) :
    s'.phase = s.phase ∧ s'.everChild = s.everChild ∧ ∃ w' r', s'.call = upd s.call t (k w' r') ∧ wJ N w' < wJ N w := by
  unfold stepJoin at hs
  cases w with
  | nil => cases hs
  | cons a r =>
    cases a with
    | start u =>
      cases hs
      refine ⟨rfl, rfl, _, _, rfl, ?_⟩
      have := lsum_pw_children (N := N) (u := u) (hk.K2 u) (fun c hc => by have := hk.K1 u c hc; omega)
      simp only [wJ_append, wJ_starts, wJ, wJA]
      omega
    | mark u => cases hs; exact ⟨rfl, rfl, _, _, rfl, by simp only [wJ, wJA]; omega⟩
    | wait u =>
      simp only at hs
      split at hs
      · cases hs; exact ⟨rfl, rfl, _, _, rfl, by simp only [wJ, wJA]; omega⟩
      · split at hs
        · cases hs
          refine ⟨rfl, rfl, _, _, rfl, ?_⟩
          have := wJ_filter_le N (fun x => decide (x ≠ JAct.unreg u)) r
          simp only [wJ, wJA]; omega
        · cases hs
    | unreg u => cases hs; exact ⟨rfl, rfl, _, _, rfl, by simp only [wJ, wJA]; omega⟩
    | finish u cs => cases hs; exact ⟨rfl, rfl, _, _, rfl, by simp only [wJ, wJA]; omega⟩

/-- a step that only changes the stepping thread's phase and call -/
theorem rank_lt_pc {N : Nat} {s s' : State} {t : Nat} {p' : Phase} {c' : Call} (ht : t < N) (hp : s'.phase = upd s.phase t p')
    (he : s'.everChild = s.everChild) (hc : ∀ u, u ≠ t → s'.call u = s.call u) (hct : s'.call t = c')
    (hd : wTh N t p' c' (s.everChild t) < wTh N t (s.phase t) (s.call t) (s.everChild t)) : rank N s' < rank N s := by
  unfold rank
  refine sumTo_one ht (fun u hu => ?_) ?_
  · simp only [hp, he, hc u hu, upd, hu, if_false]
  · simp only [hp, he, hct, upd, if_true]; exact hd

set_option hygiene false in
macro "one" : tactic => `(tactic| (
  refine rank_lt_one (c' := _) ht rfl rfl rfl ?_
  simp only [hph, hc, wTh, wCall, wStopping, wJoining, wS, wJ]))

theorem rank_step {N : Nat} {s s' : State} {t : Nat} {l : Label} (h : Inv s) (hr : InvR s) (hk : InvK s) (hN : s.nextId ≤ N)
    (hs : step s t = some (s', l)) : rank N s' < rank N s := by
  have ht : t < N := by
    have : s.phase t ≠ .absent := by intro hab; unfold step at hs; rw [hab] at hs; cases hs
    have := lt_nextId h this; omega
  have hS : ∀ {w : List SAct} (k : List SAct → Call), s.call t = k w → stepStop s t w k = some (s', l) →
      (∀ w1 w2, wS N w1 < wS N w2 → wTh N t (s.phase t) (k w1) (s.everChild t) < wTh N t (s.phase t) (k w2) (s.everChild t)) → rank N s' < rank N s := by
    intro w k hc hss hm
    obtain ⟨hp, he, w', hc', hd⟩ := stepStop_dec (N := N) hk hN hss
    exact rank_lt_one ht hp he hc' (by rw [hc]; exact hm _ _ hd)
  have hJ : ∀ {top w tl raised all} (k : List JAct → List Nat → Call) (r0 : List Nat), s.call t = k w r0 →
      stepJoin s t top w tl raised all k = some (s', l) →
      (∀ w1 r1 w2 r2, wJ N w1 < wJ N w2 → wTh N t (s.phase t) (k w1 r1) (s.everChild t) < wTh N t (s.phase t) (k w2 r2) (s.everChild t)) → rank N s' < rank N s := by
    intro top w tl raised all k r0 hc hss hm
    obtain ⟨hp, he, w', r', hc', hd⟩ := stepJoin_dec (N := N) hk hN hss
    exact rank_lt_one ht hp he hc' (by rw [hc]; exact hm _ _ _ _ hd)
  cases hph : s.phase t with
  | absent => unfold step at hs; rw [hph] at hs; cases hs
  | dead => unfold step at hs; rw [hph] at hs; cases hs
  | created =>
    unfold step at hs; rw [hph] at hs; cases hs
    refine rank_lt_pc (p' := .running) (c' := s.call t) ht rfl rfl (fun u hu => rfl) rfl ?_
    simp only [hph, wTh]; omega
  | peek o =>
    unfold step at hs; rw [hph] at hs; cases hs
    refine rank_lt_pc (p' := .fin1) (c' := s.call t) ht rfl rfl (fun u hu => rfl) rfl ?_
    simp only [hph, wTh]; omega
  | fin1 =>
    unfold step at hs; rw [hph] at hs; cases hs
    refine rank_lt_pc (p' := _) (c' := _) ht rfl rfl (fun u hu => if_neg hu) (if_pos rfl) ?_
    have := lsum_pw_children (N := N) (u := t) (hk.K2 t) (fun c hc => by have := hk.K1 t c hc; omega)
    simp only [hph, wTh, wStopping, wS_visits]; omega
  | fin4 cs =>
    unfold step at hs; rw [hph] at hs; cases hs
    refine rank_lt_pc (p' := _) (c' := s.call t) ht rfl rfl (fun u hu => rfl) rfl ?_
    simp only [hph, wTh]; omega
  | fin5 cs =>
    unfold step at hs; rw [hph] at hs; cases hs
    refine rank_lt_pc (p' := _) (c' := s.call t) ht rfl rfl (fun u hu => rfl) rfl ?_
    simp only [hph, wTh]; omega
  | fin6 cs =>
    unfold step at hs; rw [hph] at hs; cases hs
    refine rank_lt_pc (p' := _) (c' := s.call t) ht rfl rfl (fun u hu => rfl) rfl ?_
    simp only [hph, wTh]; omega
  | linger =>
    unfold step at hs; rw [hph] at hs; simp only at hs
    split at hs
    · cases hs
      refine rank_lt_pc (p' := _) (c' := s.call t) ht rfl rfl (fun u hu => rfl) rfl ?_
      simp only [hph, wTh]; omega
    · split at hs
      · split at hs
        · cases hs
          refine rank_lt_pc (p' := _) (c' := s.call t) ht rfl rfl (fun u hu => rfl) rfl ?_
          simp only [hph, wTh]; omega
        · cases hs
          refine rank_lt_pc (p' := _) (c' := s.call t) ht rfl rfl (fun u hu => rfl) rfl ?_
          simp only [hph, wTh]; omega
      · cases hs
  | fin2 cs =>
    unfold step at hs; rw [hph] at hs; simp only at hs
    split at hs
    · rename_i hc
      cases hs
      refine rank_lt_pc (p' := _) (c' := _) ht rfl rfl (fun u hu => if_neg hu) (if_pos rfl) ?_
      simp only [hph, hc, wTh, wStopping, wJoining, wS, wJ_starts]; omega
    · rename_i w hne hc
      exact hS .stopping hc hs (by intro w1 w2 hw; simp only [hph, wTh, wStopping]; omega)
    · cases hs
  | fin3 cs =>
    unfold step at hs; rw [hph] at hs; simp only at hs
    split at hs
    · rename_i hc
      cases hs
      refine rank_lt_pc (p' := _) (c' := _) ht rfl rfl (fun u hu => if_neg hu) (if_pos rfl) ?_
      simp only [hph, hc, wTh, wJoining, wJ]; omega
    · rename_i top w tl raised all hne hc
      exact hJ (fun w r => .joining top w tl r all) raised hc hs (by intro w1 r1 w2 r2 hw; simp only [hph, wTh, wJoining]; omega)
    · cases hs
  | running =>
    cases hc : s.call t with
    | idle r => unfold step at hs; rw [hph] at hs; simp only [hc] at hs; cases hs
    | spawn c =>
      unfold step at hs; rw [hph] at hs; simp only [hc] at hs
      have hsc := h.spawnC t c hc
      split at hs
      · cases hs
        have hct : t ≠ c := by intro he; subst he; rw [hph] at hsc; cases hsc.1
        have hcN : c < N := by omega
        unfold rank
        refine sumTo_two ht hcN hct (fun u hu1 hu2 => by simp [upd, hu1, hu2]) ?_
        simp only [upd, if_true, hct, Ne.symm hct, if_false, hph, hsc.1, hc, wTh]
        generalize wCall N (s.everChild c) (s.call c) = X
        simp only [wCall]
        split <;> omega
      · rename_i hnin
        cases hs
        have hne : c ∉ s.everChild t := by
          intro hin
          rcases h.ever t c hin with h1 | h1
          · exact hnin (Or.inl h1)
          · have := (h.stP c).mp h1
            rw [hsc.1] at this; cases this
        unfold rank
        refine sumTo_one ht (fun u hu => by simp only [upd, hu, if_false]) ?_
        simp only [upd, if_true, hph, hc, wTh, wCall, hne, if_false, List.mem_append, List.mem_singleton, or_true]
        omega
    | releasing u => unfold step at hs; rw [hph] at hs; simp only [hc] at hs; cases hs; one; omega
    | stopping w =>
      unfold step at hs; rw [hph] at hs; simp only [hc] at hs
      split at hs
      · cases hs; one; omega
      · exact hS .stopping hc hs (by intro w1 w2 hw; simp only [hph, wTh, wCall]; omega)
    | joining top w tl raised all =>
      unfold step at hs; rw [hph] at hs; simp only [hc] at hs
      split at hs
      · cases hs; one; omega
      · exact hJ (fun w r => .joining top w tl r all) raised hc hs (by intro w1 r1 w2 r2 hw; simp only [hph, wTh, wCall]; omega)
    | m0 => unfold step at hs; rw [hph] at hs; simp only [hc] at hs; cases hs; one; omega
    | m1 =>
      unfold step at hs; rw [hph] at hs; simp only [hc] at hs; cases hs
      one
      have := lsum_pw_all (N := N) (hk.K2 t) (fun c hc => by have := hk.K1 t c hc; omega)
      simp only [wS_visits, lsum_reverse, PB]; omega
    | mS cs w =>
      unfold step at hs; rw [hph] at hs; simp only [hc] at hs
      split at hs
      · cases hs; one; simp only [wJ_starts]; omega
      · exact hS (.mS cs) hc hs (by intro w1 w2 hw; simp only [hph, wTh, wCall]; omega)
    | mJ cs w raised =>
      unfold step at hs; rw [hph] at hs; simp only [hc] at hs
      split at hs
      · cases hs; one; omega
      · exact hJ (fun w r => .mJ cs w r) raised hc hs (by intro w1 r1 w2 r2 hw; simp only [hph, wTh, wCall]; omega)
    | m2 cs raised =>
      unfold step at hs; rw [hph] at hs; simp only [hc] at hs; cases hs
      one
      have := lsum_pw_all (N := N) (hk.K3.erase t) (fun c hc => by
        have := allOrder_lt h hr hk (List.mem_of_mem_erase hc); omega)
      simp only [wS_visits, PB]; omega
    | mRS cs raised res w =>
      unfold step at hs; rw [hph] at hs; simp only [hc] at hs
      split at hs
      · cases hs; one; simp only [wJ_starts]; omega
      · exact hS (.mRS cs raised res) hc hs (by intro w1 w2 hw; simp only [hph, wTh, wCall]; omega)
    | mRJ cs raised res w raised2 =>
      unfold step at hs; rw [hph] at hs; simp only [hc] at hs
      split at hs
      · cases hs; one; omega
      · exact hJ (fun w r => .mRJ cs raised res w r) raised2 hc hs (by intro w1 r1 w2 r2 hw; simp only [hph, wTh, wCall]; omega)

theorem stepStop_nextId {s s' : State} {t : Nat} {w : List SAct} {k : List SAct → Call} {l : Label}
    (hs : stepStop s t w k = some (s', l)) : s'.nextId = s.nextId := by
  unfold stepStop at hs
  cases w with
  | nil => cases hs
  | cons a r => cases a <;> (cases hs; rfl)

theorem stepJoin_nextId {s s' : State} {t : Nat} {top : List Nat} {w : List JAct} {tl : Option Nat} {raised : List Nat}
    {all : Bool} {k : List JAct → List Nat → Call} {l : Label}
    (hs : stepJoin s t top w tl raised all k = some (s', l)) : s'.nextId = s.nextId := by
  unfold stepJoin at hs
  cases w with
  | nil => cases hs
  | cons a r =>
    cases a with
    | wait u =>
      simp only at hs
      split at hs
      · cases hs; rfl
      · split at hs
        · cases hs; rfl
        · cases hs
    | _ => cases hs; rfl

/-- no step creates a thread id: ids are allocated when the API call starts -/
theorem step_nextId {s s' : State} {t : Nat} {l : Label} (hs : step s t = some (s', l)) : s'.nextId = s.nextId := by
  unfold step at hs
  cases hph : s.phase t with
  | absent => rw [hph] at hs; cases hs
  | dead => rw [hph] at hs; cases hs
  | created => rw [hph] at hs; cases hs; rfl
  | peek o => rw [hph] at hs; cases hs; rfl
  | fin1 => rw [hph] at hs; cases hs; rfl
  | fin4 cs => rw [hph] at hs; cases hs; rfl
  | fin5 cs => rw [hph] at hs; cases hs; rfl
  | fin6 cs => rw [hph] at hs; cases hs; rfl
  | linger =>
    rw [hph] at hs; simp only at hs
    split at hs
    · cases hs; rfl
    · split at hs
      · split at hs <;> (cases hs; rfl)
      · cases hs
  | fin2 cs =>
    rw [hph] at hs; simp only at hs
    split at hs
    · cases hs; rfl
    · exact stepStop_nextId hs
    · cases hs
  | fin3 cs =>
    rw [hph] at hs; simp only at hs
    split at hs
    · cases hs; rfl
    · exact stepJoin_nextId hs
    · cases hs
  | running =>
    rw [hph] at hs
    cases hc : s.call t with
    | idle r => simp only [hc] at hs; cases hs
    | spawn c => simp only [hc] at hs; split at hs <;> (cases hs; rfl)
    | releasing u => simp only [hc] at hs; cases hs; rfl
    | stopping w => simp only [hc] at hs; split at hs <;> (first | (cases hs; rfl) | exact stepStop_nextId hs)
    | joining top w tl raised all => simp only [hc] at hs; split at hs <;> (first | (cases hs; rfl) | exact stepJoin_nextId hs)
    | m0 => simp only [hc] at hs; cases hs; rfl
    | m1 => simp only [hc] at hs; cases hs; rfl
    | mS cs w => simp only [hc] at hs; split at hs <;> (first | (cases hs; rfl) | exact stepStop_nextId hs)
    | mJ cs w raised => simp only [hc] at hs; split at hs <;> (first | (cases hs; rfl) | exact stepJoin_nextId hs)
    | m2 cs raised => simp only [hc] at hs; cases hs; rfl
    | mRS cs raised res w => simp only [hc] at hs; split at hs <;> (first | (cases hs; rfl) | exact stepStop_nextId hs)
    | mRJ cs raised res w raised2 => simp only [hc] at hs; split at hs <;> (first | (cases hs; rfl) | exact stepJoin_nextId hs)

/-- what the ranking argument needs of a state -/
def RankOK (N : Nat) (s : State) : Prop := Inv s ∧ InvR s ∧ InvK s ∧ s.nextId ≤ N

theorem rankOK_of_reach {s : State} (h : sys.Reach s) : RankOK s.nextId s :=
  ⟨(reach_invR h).1, (reach_invR h).2, reach_invK h, Nat.le_refl _⟩

theorem inv_of_step {s s' : State} {t : Nat} {l : Label} (h : Inv s) (hs : step s t = some (s', l)) : Inv s' := inv_step h hs

/-- every run without new API calls takes at most `rank N s` steps -/
theorem run_length_le_rank {N : Nat} {s s' : State} {tr : List (Nat × Label)} (hP : RankOK N s) (r : sys.Run s tr s') :
    tr.length + rank N s' ≤ rank N s :=
  Sys.Run.length_le_rank_inv sys (rank N) (RankOK N)
    (fun s s' t l hP hs => ⟨inv_step hP.1 hs, invR_step hP.1 hP.2.1 hs, invK_step hP.1 hP.2.1 hP.2.2.1 hs, by
      have := step_nextId hs; have := hP.2.2.2; omega⟩)
    (fun s s' t l hP hs => rank_step hP.1 hP.2.1 hP.2.2.1 hP.2.2.2 hs) r hP

/-- thread `t` is inside a stop() call, or has returned from it -/
def InStop (s : State) (t : Nat) : Prop := s.phase t = .running ∧ ((∃ w, s.call t = .stopping w) ∨ s.call t = .idle .done)

theorem inStop_step {s s' : State} {t u : Nat} {l : Label} (h : Inv s) (hq : InStop s t) (hs : step s u = some (s', l)) : InStop s' t := by
  have f := frame_step h hs
  by_cases hut : t = u
  · subst hut
    obtain ⟨hph, hc⟩ := hq
    rcases hc with ⟨w, hc⟩ | hc
    · unfold step at hs; rw [hph] at hs; simp only [hc] at hs
      split at hs
      · cases hs; exact ⟨hph, Or.inr (by simp [upd])⟩
      · unfold stepStop at hs
        cases w with
        | nil => cases hs
        | cons a r =>
          cases a with
          | visit x => cases hs; exact ⟨hph, Or.inl ⟨_, if_pos rfl⟩⟩
          | fire x => cases hs; exact ⟨hph, Or.inl ⟨_, if_pos rfl⟩⟩
    · unfold step at hs; rw [hph] at hs; simp only [hc] at hs; cases hs
  · obtain ⟨hph, hc⟩ := hq
    have hp' : s'.phase t = .running := by rw [f.phs t hut (by rw [hph]; intro hh; cases hh)]; exact hph
    have hc' : s'.call t = s.call t := f.cal t hut
    exact ⟨hp', by rw [hc']; exact hc⟩

theorem inStop_run {s s' : State} {t : Nat} {tr : List (Nat × Label)} (h : Inv s) (hq : InStop s t) (r : sys.Run s tr s') : InStop s' t := by
  induction r with
  | nil => exact hq
  | cons hs _ ih => exact ih (inv_step h hs) (inStop_step h hq hs)

end MoThreads.ThreadTree
