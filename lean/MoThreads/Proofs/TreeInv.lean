/-
  M5 (ThreadTree): invariant definitions.
-/
import MoThreads.Model.ThreadTree
namespace MoThreads.ThreadTree

/-- the join work list a call is processing: (top, work, till, raised) -/
def Call.jwork : Call → Option (List Nat × List JAct × Option Nat × List Nat)
  | .joining top work tl raised _ => some (top, work, tl, raised)
  | .mJ cs work raised => some (cs, work, none, raised)
  | .mRJ _ _ res work raised2 => some (res, work, none, raised2)
  | _ => none

def Call.isSpawn : Call → Bool
  | .spawn _ => true
  | _ => false

/-- the target has ended -/
def Phase.post : Phase → Bool
  | .peek _ | .fin1 | .fin2 _ | .fin3 _ | .fin4 _ | .fin5 _ | .fin6 _ | .linger | .dead => true
  | _ => false

/-- shutdown block past the snapshot, children not yet all joined -/
def Phase.finCs : Phase → Option (List Nat)
  | .fin2 cs | .fin3 cs => some cs
  | _ => none

/-- shutdown block has joined every child -/
def Phase.finDone : Phase → Bool
  | .fin4 _ | .fin5 _ | .fin6 _ | .linger | .dead => true
  | _ => false

def Phase.isStopped : Phase → Bool
  | .linger | .dead => true
  | _ => false

/-- every `unreg u` in a join work list is guarded: u has stopped, or a `wait u` comes before it -/
def okJ (s : State) (pend : List Nat) : List JAct → Prop
  | [] => True
  | .wait u :: r => okJ s (u :: pend) r
  | .unreg u :: r => (s.stopped u = true ∨ u ∈ pend) ∧ okJ s pend r
  | _ :: r => okJ s pend r

structure Inv (s : State) : Prop where
  stP   : ∀ t, s.stopped t = true ↔ (s.phase t).isStopped = true
  outP  : ∀ t, (s.phase t).post = true → s.outcome t ≠ none
  ever  : ∀ p c, c ∈ s.everChild p → c ∈ s.children p ∨ s.stopped c = true
  finK  : ∀ p cs, (s.phase p).finCs = some cs → ∀ c, c ∈ s.everChild p → c ∈ cs ∨ s.stopped c = true
  finD  : ∀ p, (s.phase p).finDone = true → ∀ c, c ∈ s.everChild p → s.stopped c = true
  jtop  : ∀ t top work tl raised, (s.call t).jwork = some (top, work, tl, raised) →
            ∀ u, u ∈ top → (.start u ∈ work ∨ .wait u ∈ work ∨ s.stopped u = true ∨ (tillOn s tl = true ∧ u ∈ raised))
  jun   : ∀ t top work tl raised, (s.call t).jwork = some (top, work, tl, raised) → okJ s [] work
  fin3C : ∀ p cs, s.phase p = .fin3 cs → ∃ work raised, s.call p = .joining cs work none raised true
  spawnR : ∀ t, (s.call t).isSpawn = true → s.phase t = .running
  fresh  : ∀ c, s.nextId ≤ c → s.phase c = .absent
  spawnC : ∀ t c, s.call t = .spawn c → s.phase c = .absent ∧ c < s.nextId
  spawnU : ∀ t u c, s.call t = .spawn c → s.call u = .spawn c → t = u

end MoThreads.ThreadTree
