import MoThreads.Proofs.MonitorInv
namespace MoThreads.Monitor

set_option maxHeartbeats 1000000

theorem inv_init : Inv init := by
  constructor <;> simp [init, PC.holdsM, PC.own, PC.listedOwn, PC.hand, PC.sleepOn, PC.waitCond, PC.preList, AllCondsFalse]

set_option hygiene false in
macro "inv_open" : tactic => `(tactic| (
  obtain ⟨mutex, own, listed, nodupW, handPc, handM, handW, hotI, nodupH, firedW, noLost, K, X, A5, cFalse, A6, fresh, x1ne, a1ne, preL, A3, A4⟩ := h
  constructor
  all_goals simp only [State.setPc, tillOn, AllCondsFalse] at *))

set_option hygiene false in
macro "clr" : tactic => `(tactic| (
  try clear mutex
  try clear own
  try clear listed
  try clear nodupW
  try clear handPc
  try clear handM
  try clear handW
  try clear hotI
  try clear nodupH
  try clear firedW
  try clear noLost
  try clear K
  try clear X
  try clear A5
  try clear cFalse
  try clear A6
  try clear fresh
  try clear x1ne
  try clear a1ne
  try clear preL
  try clear A3
  try clear A4))

set_option hygiene false in
macro "f_mutex" : tactic => `(tactic| (
    intro u; have h1 := mutex u; have h2 := mutex t; clr; grind [PC.holdsM]))

set_option hygiene false in
macro "f_own" : tactic => `(tactic| (
    intro u w'; have h1 := own u w'; have h2 := own t w'; clr; grind [PC.own]))

set_option hygiene false in
macro "f_listed" : tactic => `(tactic| (
    intro w' hw'; have := listed w'; have := own t; grind [PC.listedOwn, PC.own]))

set_option hygiene false in
macro "f_nodupW" : tactic => `(tactic| (
    grind))

set_option hygiene false in
macro "f_handPc" : tactic => `(tactic| (
    intro u w'; have h1 := handPc u w'; have h2 := handPc t w'; clr; grind [PC.hand]))

set_option hygiene false in
macro "f_handM" : tactic => `(tactic| (
    intro w' hw'; have := handM w'; have := mutex t; grind [PC.hand, PC.holdsM]))

set_option hygiene false in
macro "f_handW" : tactic => `(tactic| (
    intro w' hw'; have := handW w'; have := own t; grind [PC.parkedOn, PC.own]))

set_option hygiene false in
macro "f_hotI" : tactic => `(tactic| (
    intro w' hw'; have := hotI w'; have := own t; grind [PC.parkedOn, PC.own]))

set_option hygiene false in
macro "f_nodupH" : tactic => `(tactic| (
    grind))

set_option hygiene false in
macro "f_firedW" : tactic => `(tactic| (
    intro w' hw'; have := firedW w'; grind))

set_option hygiene false in
macro "f_noLost" : tactic => `(tactic| (
    intro u w'; have h1 := noLost u w'; have h2 := noLost t w'; clr; grind [PC.sleepOn]))

set_option hygiene false in
macro "f_K" : tactic => `(tactic| (
    intro hne; have := K; have := mutex t; grind [PC.holdsM]))

set_option hygiene false in
macro "f_X" : tactic => `(tactic| (
    intro u hu; have h1 := X u; have h2 := mutex u; have h3 := mutex t; clr; grind [PC.holdsM]))

set_option hygiene false in
macro "f_A5" : tactic => `(tactic| (
    intro u w' c' tl' hu; have h1 := A5 u w' c' tl'; have h2 := mutex u; have h3 := mutex t; clr; grind [PC.holdsM]))

set_option hygiene false in
macro "f_cFalse" : tactic => `(tactic| (
    intro u c' hu; have h1 := cFalse u c'; have h2 := cFalse t c'; have h3 := mutex u; have h4 := mutex t; clr; grind [PC.waitCond, PC.holdsM]))

set_option hygiene false in
macro "f_A6" : tactic => `(tactic| (
    intro u w' c' tl' hu; have h1 := A6 u w' c' tl'; clr; grind))

set_option hygiene false in
macro "f_fresh" : tactic => `(tactic| (
    intro w' hw'; have := fresh w'; have := own t; grind [PC.own]))

set_option hygiene false in
macro "f_x1ne" : tactic => `(tactic| (
    intro u hu; have h1 := x1ne u; have h2 := mutex u; have h3 := mutex t; clr; grind [PC.holdsM]))

set_option hygiene false in
macro "f_a1ne" : tactic => `(tactic| (
    intro u w' c' tl' hu; have h1 := a1ne u w' c' tl'; have h2 := mutex u; have h3 := mutex t; clr; grind [PC.holdsM]))

set_option hygiene false in
macro "f_preL" : tactic => `(tactic| (
    intro u w' hu; have h1 := preL u w'; have h2 := preL t w'; have h3 := own t w'; have h4 := own u w'; clr; grind [PC.preList, PC.own]))

set_option hygiene false in
macro "f_A3" : tactic => `(tactic| (
    intro u w' c' tl' hu; have h1 := A3 u w' c' tl'; have h2 := mutex u; have h3 := mutex t; clr; grind [PC.holdsM]))

set_option hygiene false in
macro "f_A4" : tactic => `(tactic| (
    intro u w' c' tl' hu; have h1 := A4 u w' c' tl'; have h2 := mutex u; have h3 := mutex t; clr; grind [PC.holdsM]))

set_option hygiene false in
macro "inv_rest" : tactic => `(tactic| (
  try (case mutex => f_mutex)
  try (case own => f_own)
  try (case listed => f_listed)
  try (case nodupW => f_nodupW)
  try (case handPc => f_handPc)
  try (case handM => f_handM)
  try (case handW => f_handW)
  try (case hotI => f_hotI)
  try (case nodupH => f_nodupH)
  try (case firedW => f_firedW)
  try (case noLost => f_noLost)
  try (case K => f_K)
  try (case X => f_X)
  try (case A5 => f_A5)
  try (case cFalse => f_cFalse)
  try (case A6 => f_A6)
  try (case fresh => f_fresh)
  try (case x1ne => f_x1ne)
  try (case a1ne => f_a1ne)
  try (case preL => f_preL)
  try (case A3 => f_A3)
  try (case A4 => f_A4)))

macro "step_at" hp:ident hs:ident : tactic => `(tactic| (
  unfold step at $hs:ident
  rw [$hp:ident] at $hs:ident
  simp only [] at $hs:ident))

set_option hygiene false in
macro "step_open" : tactic => `(tactic| (
  step_at hp hs
  first
  | cases hs
  | (split at hs <;> cases hs)))

set_option hygiene false in
macro "step_case" : tactic => `(tactic| (step_open; inv_open; inv_rest))

end MoThreads.Monitor
