import MoThreads.Proofs.TillC_c2
namespace MoThreads.Till
set_option maxHeartbeats 4000000

theorem stepC_c3 {s s' : State} {t : Nat} {l : Label} {d : Int} {id : Nat} (h : Inv s) (ht : t ≠ 0) (hp : s.cpc t = .c3 d id)
    (hs : stepC s t = some (s', l)) : Inv s' := by
  unfold stepC at hs; rw [hp] at hs; simp only at hs; cases hs
  have hps : s.disabled = false → s.dpc.postSwap = false := fun hd => by
    cases hh : s.dpc.postSwap with
    | false => rfl
    | true => have := h.g2.mpr (DPC.postSwap_final _ hh); simp [hd] at this
  copen
  case F1 =>
    intro u d' id' hu
    by_cases hut : u = t
    · subst hut; simp only [if_true, CPC.c3b.injEq] at hu
      exact hps (by simpa using hu.2.2)
    · simp only [hut, if_false] at hu; exact F1 u d' id' hu
  crest

end MoThreads.Till
