/-
  M7 (TQWorker): a ranking function for runs without environment moves (no new values, no timer firing).
  Every turn of the worker loop consumes a queued item, an entry of the failure pattern, or the fired
  state of the current flush timer (a renewed timer is unfired: `Fresh`).
-/
import MoThreads.Model.TQWorker
namespace MoThreads.TQWorker
open MoThreads

/-- timers that have not been created yet have not fired (the environment fires only created timers) -/
def Fresh (s : State) : Prop := ∀ k, s.nextT ≤ k → s.fired k = false

/-- position in the loop; the value depends on whether the current flush timer has fired -/
def g (f : Bool) : WPC → Nat
  | .done => 0 | .crashed => 0
  | .sendMarker => 2 | .finalFlush => 3 | .final => 4 | .setStop => 5
  | .init0 => 40
  | .loop => if f then 36 else 30
  | .popE => if f then 35 else 29
  | .popT => if f then 35 else 29
  | .afterPopE _ => if f then 54 else 48
  | .dispatch (some _) => if f then 53 else 47
  | .dispatch none => if f then 34 else 41
  | .flushM => if f then 52 else 46
  | .requeue => if f then 54 else 61
  | .second => if f then 33 else 40
  | .flush2 => if f then 32 else 39
  | .newT => if f then 31 else 38

def rank (s : State) : Nat := 20 * s.q.length + 30 * s.fails.length + g (s.fired s.cur) s.pc

set_option hygiene false in
macro "rk" : tactic => `(tactic| (
  simp only [rank, hp, apply_ite (g _), hfresh, List.length_cons, List.length_nil, List.tail_cons, List.tail_nil]
  simp only [g]
  cases hfc : s.fired s.cur <;> (try simp only [if_true, if_false, Bool.false_eq_true, eq_self, reduceIte]) <;> (repeat' split) <;> (try simp only [g, reduceIte]) <;> (first | omega | (simp_all; done) | (simp_all; omega))))

theorem rank_step {s s' : State} {l : Label} (hf : Fresh s) (hs : step s = some (s', l)) : rank s' < rank s := by
  have hfresh : s.fired s.nextT = false := hf _ (Nat.le_refl _)
  unfold step at hs
  cases hp : s.pc with
  | done => rw [hp] at hs; cases hs
  | crashed => rw [hp] at hs; cases hs
  | popE =>
    rw [hp] at hs; simp only at hs
    cases hq : s.q with
    | nil => rw [hq] at hs; cases hs
    | cons x r => rw [hq] at hs; cases hs; have hql : s.q.length = r.length + 1 := by rw [hq]; rfl
                  rk
  | popT =>
    rw [hp] at hs; simp only at hs
    cases hq : s.q with
    | cons x r => rw [hq] at hs; cases hs; have hql : s.q.length = r.length + 1 := by rw [hq]; rfl
                  rk
    | nil =>
      rw [hq] at hs; simp only at hs
      cases hfc : s.fired s.cur with
      | false => rw [hfc] at hs; simp at hs
      | true =>
        rw [hfc] at hs; simp only [if_true] at hs; cases hs
        have hql : s.q.length = 0 := by rw [hq]; rfl
        simp only [rank, hp, g, hfc, if_true, List.length_nil]; omega
  | dispatch x =>
    rw [hp] at hs
    cases x with
    | none => cases hs; rk
    | some it => cases it <;> (cases hs; rk)
  | flushM =>
    rw [hp] at hs; simp only at hs
    cases hfl : s.fails with
    | nil => simp only [nextOk, hfl, if_true] at hs; cases hs; have hfll : s.fails.length = 0 := by rw [hfl]; rfl
             rk
    | cons b r =>
      have hfll : s.fails.length = r.length + 1 := by rw [hfl]; rfl
      cases b <;> (simp [nextOk, hfl] at hs; obtain ⟨rfl, _⟩ := hs; rk)
  | flush2 =>
    rw [hp] at hs; simp only at hs
    cases hfl : s.fails with
    | nil => simp only [nextOk, hfl, if_true] at hs; cases hs; have hfll : s.fails.length = 0 := by rw [hfl]; rfl
             rk
    | cons b r =>
      have hfll : s.fails.length = r.length + 1 := by rw [hfl]; rfl
      cases b <;> (simp [nextOk, hfl] at hs; obtain ⟨rfl, _⟩ := hs; rk)
  | finalFlush =>
    rw [hp] at hs; simp only at hs
    cases hfl : s.fails with
    | nil => simp only [nextOk, hfl, if_true] at hs; cases hs; have hfll : s.fails.length = 0 := by rw [hfl]; rfl
             rk
    | cons b r =>
      have hfll : s.fails.length = r.length + 1 := by rw [hfl]; rfl
      cases b <;> (simp [nextOk, hfl] at hs; obtain ⟨rfl, _⟩ := hs; rk)
  | _ => rw [hp] at hs; cases hs; rk

theorem fresh_step {s s' : State} {l : Label} (hf : Fresh s) (hs : step s = some (s', l)) : Fresh s' := by
  have key : s'.fired = s.fired ∧ s.nextT ≤ s'.nextT := by
    unfold step at hs
    cases hp : s.pc <;> rw [hp] at hs <;> simp only at hs <;>
      (first
        | (cases hs; exact ⟨rfl, by simp⟩)
        | (split at hs <;> (first | (cases hs; exact ⟨rfl, by simp⟩) | cases hs | (split at hs <;> (first | (cases hs; exact ⟨rfl, by simp⟩) | cases hs))))
        | (cases hs))
  intro k hk
  rw [key.1]; exact hf k (Nat.le_trans key.2 hk)

/-- every run of the worker without environment moves takes at most `rank s` steps -/
theorem run_length_le_rank {s s' : State} {tr : List (Nat × Label)} (hf : Fresh s) (r : sys.Run s tr s') :
    tr.length + rank s' ≤ rank s :=
  Sys.Run.length_le_rank_inv sys rank Fresh
    (fun s s' t l hP hs => by
      change (if t = 0 then step s else none) = some (s', l) at hs
      split at hs
      · exact fresh_step hP hs
      · cases hs)
    (fun s s' t l hP hs => by
      change (if t = 0 then step s else none) = some (s', l) at hs
      split at hs
      · exact rank_step hP hs
      · cases hs) r hf

end MoThreads.TQWorker
