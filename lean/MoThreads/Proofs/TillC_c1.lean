import MoThreads.Proofs.TillC_c0
namespace MoThreads.Till
set_option maxHeartbeats 4000000

theorem stepC_c1 {s s' : State} {t : Nat} {l : Label} {secs : Int} (h : Inv s) (ht : t ≠ 0) (hp : s.cpc t = .c1 secs)
    (hs : stepC s t = some (s', l)) : Inv s' := by
  unfold stepC at hs; rw [hp] at hs; simp only at hs; cases hs
  have hlt : ∀ u id, (s.cpc u).making = some id → id < s.nextId := fun u id hu => by
    have := (h.Mk u id hu).2
    apply Nat.lt_of_not_le; intro hc; have := (h.Fr id hc).1; simp_all
  have hpm : ∀ u d id, (s.cpc u).pend = some (d, id) → (s.cpc u).making = some id := fun u d id hu => by
    cases hc : s.cpc u <;> simp_all [CPC.pend, CPC.making]
  copen
  case Dd =>
    intro u d id hu
    by_cases hut : u = t
    · subst hut; simp only [if_true, CPC.pend, Option.some.injEq, Prod.mk.injEq] at hu
      obtain ⟨rfl, rfl⟩ := hu; simp
    · simp only [hut, if_false] at hu
      have h1 := Dd u d id hu
      have h2 := hlt u id (hpm u d id hu)
      have : id ≠ s.nextId := by omega
      simp [this, h1]
  crest

end MoThreads.Till
