import MoThreads.Proofs.MonitorA
namespace MoThreads.Monitor
set_option maxHeartbeats 2000000

theorem step_x2 {s s' : State} {t : Nat} {l : Label} {w : Nat} (h : Inv s) (hp : s.pc t = .x2 w)
    (hs : step s t = some (s', l)) : Inv s' := by
  step_open
  have hh := h.handPc t w (by simp [hp, PC.hand])
  obtain ⟨hw1, hw2, hw3, hw4⟩ := h.handW w hh
  have hfr := h.fresh w
  simp only [hw2]
  inv_open
  case handPc => intro u w'; have := handPc u w'; have := PC.hand_holdsM (s.pc u) w'; have := mutex u; have := mutex t; grind [PC.hand, PC.holdsM]
  case hotI => intro w' hw'; have := hotI w'; grind [PC.parkedOn]
  case firedW => intro w' hw'; have := firedW w'; grind
  case noLost => intro u w'; have := noLost u w'; grind [PC.sleepOn]
  case X => grind
  case fresh => intro w' hw'; have := fresh w'; grind
  inv_rest

theorem step_x3 {s s' : State} {t : Nat} {l : Label} (h : Inv s) (hp : s.pc t = .x3)
    (hs : step s t = some (s', l)) : Inv s' := by
  step_case

theorem step_a0 {s s' : State} {t : Nat} {l : Label} {w : Nat} {c : Cond} {tl : Option Nat} (h : Inv s) (hp : s.pc t = .a0 w c tl)
    (hs : step s t = some (s', l)) : Inv s' := by
  step_case

end MoThreads.Monitor
