import MoThreads.Proofs.QueueTac
namespace MoThreads.Queue
set_option maxHeartbeats 2000000

theorem step_sAct {s s' : State} {t : Nat} {l : Label} {a : Act} {b : Bool} (h : Inv s) (hp : s.pc t = .sAct a b)
    (hs : step s t = some (s', l)) : Inv s' := by
  step_at hp hs
  cases a with
  | add v => cases hs; inv_open_mut; mut_fields; inv_rest
  | push v => cases hs; inv_open_mut; mut_fields; inv_rest
  | extend vs =>
    cases vs with
    | nil => cases hs; inv_open; inv_rest
    | cons v vs =>
      by_cases hv : v = 0
      · simp only [hv, if_true] at hs; cases hs; inv_open; inv_rest
      · simp only [hv, if_false] at hs; cases hs; inv_open_mut; mut_fields; inv_rest

theorem step_sRel {s s' : State} {t : Nat} {l : Label} {r : Res} (h : Inv s) (hp : s.pc t = .sRel r)
    (hs : step s t = some (s', l)) : Inv s' := by
  step_case

theorem step_pAcq {s s' : State} {t : Nat} {l : Label} {tl : Option Nat} (h : Inv s) (hp : s.pc t = .pAcq tl)
    (hs : step s t = some (s', l)) : Inv s' := by
  step_case

theorem step_pLen {s s' : State} {t : Nat} {l : Label} {tl : Option Nat} (h : Inv s) (hp : s.pc t = .pLen tl)
    (hs : step s t = some (s', l)) : Inv s' := by
  step_case

theorem step_pPop {s s' : State} {t : Nat} {l : Label} (h : Inv s) (hp : s.pc t = .pPop)
    (hs : step s t = some (s', l)) : Inv s' := by
  step_at hp hs
  cases hd : s.dq with
  | nil => rw [hd] at hs; cases hs
  | cons v rest => rw [hd] at hs; cases hs; inv_open_mut; mut_fields; inv_rest

theorem step_pC {s s' : State} {t : Nat} {l : Label} {tl : Option Nat} (h : Inv s) (hp : s.pc t = .pC tl)
    (hs : step s t = some (s', l)) : Inv s' := by
  step_case

theorem step_pPark {s s' : State} {t : Nat} {l : Label} {tl : Option Nat} (h : Inv s) (hp : s.pc t = .pPark tl)
    (hs : step s t = some (s', l)) : Inv s' := by
  step_case

theorem step_pRel2 {s s' : State} {t : Nat} {l : Label} {tl : Option Nat} (h : Inv s) (hp : s.pc t = .pRel2 tl)
    (hs : step s t = some (s', l)) : Inv s' := by
  step_case

theorem step_pParked {s s' : State} {t : Nat} {l : Label} {tl : Option Nat} (h : Inv s) (hp : s.pc t = .pParked tl)
    (hs : step s t = some (s', l)) : Inv s' := by
  step_case

theorem step_pWoke {s s' : State} {t : Nat} {l : Label} {tl : Option Nat} (h : Inv s) (hp : s.pc t = .pWoke tl)
    (hs : step s t = some (s', l)) : Inv s' := by
  step_case

theorem step_pT {s s' : State} {t : Nat} {l : Label} {tl : Option Nat} (h : Inv s) (hp : s.pc t = .pT tl)
    (hs : step s t = some (s', l)) : Inv s' := by
  step_case

end MoThreads.Queue
