import MoThreads.Proofs.ProcInv
namespace MoThreads.ProcessIO
set_option maxHeartbeats 2000000

/-- default discharge of one invariant field after a transition -/
macro "fld" : tactic => `(tactic| first
  | assumption
  | (intros; simp_all [upd, RPC.hand, RPC.finished, RPC.closedQ, MPC.left, MPC.pastPost, MPC.pastJoins, UPC.afterStopped, Ending, KILLED]; done)
  | (simp only [upd, RPC.hand, RPC.finished, RPC.closedQ, MPC.left, MPC.pastPost, MPC.pastJoins, UPC.afterStopped, Ending, KILLED] at *; grind)
  | (intros; simp_all [upd, RPC.hand, RPC.finished, RPC.closedQ, MPC.left, MPC.pastPost, MPC.pastJoins, UPC.afterStopped, Ending, KILLED]; grind))

theorem inv_stepChild {s s' : State} {l : Label} (h : Inv s) (hs : stepChild s = some (s', l)) : Inv s' := by
  obtain ⟨I1, I2, I3, I3n, I4, I5, I5c, I6, I7a, I7b, I8, E1, E2, E3, E4, N, St, U1, U2, U3, U4, U5⟩ := h
  unfold stepChild at hs
  cases he : s.exited with
  | some st => rw [he] at hs; cases hs
  | none =>
    rw [he] at hs; simp only at hs
    have hk := I3n he
    have hrc : s.rc = none := by
      cases hr : s.rc with
      | none => rfl
      | some st => have := I6 st hr; rw [he] at this; cases this
    have hfin : ∀ k, (s.rpc k).finished = true → s.abandoned k = false → False := by
      intro k hf ha; have := I4 k hf ha; rw [he] at this; simp at this
    have hu5 : s.upc = .raisedTimeout → False := by
      intro hu; have := U5 hu; rw [he] at this; simp at this
    cases hsc : s.script with
    | nil =>
      rw [hsc] at hs; cases hs
      constructor
      case I2 => intro k; have := I2 k; rw [hsc] at this; exact this
      case I4 => intro k hf ha; exact (hfin k hf ha).elim
      case U5 => intro hu; exact (hu5 hu).elim
      all_goals fld
    | cons p rest =>
      obtain ⟨k, x⟩ := p
      rw [hsc] at hs; cases hs
      constructor
      case I1 =>
        intro j ha
        by_cases hjk : j = k
        · subst hjk; simp only [upd, if_true]; rw [← I1 j ha]; simp [List.append_assoc]
        · simp only [upd, hjk, if_false]; exact I1 j ha
      case I2 =>
        intro j
        by_cases hjk : j = k
        · subst hjk; simp only [upd, if_true]; rw [← I2 j, hsc, linesOf_cons_same]; simp [List.append_assoc]
        · simp only [upd, hjk, if_false]; rw [← I2 j, hsc, linesOf_cons_other x rest (fun h => hjk h.symm)]
      case I4 => intro j hf ha; exact (hfin j hf ha).elim
      case U5 => intro hu; exact (hu5 hu).elim
      all_goals fld

theorem inv_stepReader {s s' : State} {l : Label} (k : Nat) (h : Inv s) (hs : stepReader s k = some (s', l)) : Inv s' := by
  obtain ⟨I1, I2, I3, I3n, I4, I5, I5c, I6, I7a, I7b, I8, E1, E2, E3, E4, N, St, U1, U2, U3, U4, U5⟩ := h
  unfold stepReader at hs
  cases hp : s.rpc k with
  | read =>
    rw [hp] at hs; simp only at hs
    cases hb : s.buf k with
    | cons x rest =>
      rw [hb] at hs; cases hs
      constructor
      all_goals fld
    | nil =>
      rw [hb] at hs; simp only at hs
      split at hs
      · cases hs
        constructor
        all_goals fld
      · cases hs
  | add x =>
    rw [hp] at hs; simp only at hs
    split at hs
    · cases hs
      constructor
      all_goals fld
    · cases hs
      constructor
      all_goals fld
  | fin1 =>
    rw [hp] at hs; cases hs
    constructor
    all_goals fld
  | fin2 =>
    rw [hp] at hs; cases hs
    constructor
    all_goals fld
  | exiting =>
    rw [hp] at hs; cases hs
    constructor
    all_goals fld
  | done => rw [hp] at hs; cases hs

theorem inv_stepMonitor {s s' : State} {l : Label} (h : Inv s) (hs : stepMonitor s = some (s', l)) : Inv s' := by
  obtain ⟨I1, I2, I3, I3n, I4, I5, I5c, I6, I7a, I7b, I8, E1, E2, E3, E4, N, St, U1, U2, U3, U4, U5⟩ := h
  unfold stepMonitor at hs
  cases hp : s.mpc with
  | test =>
    rw [hp] at hs; cases hs
    cases hps : s.pstop <;> (constructor; all_goals fld)
  | idle => rw [hp] at hs; cases hs; constructor; all_goals fld
  | wait =>
    rw [hp] at hs; simp only at hs
    cases he : s.exited with
    | none => rw [he] at hs; cases hs
    | some st => rw [he] at hs; cases hs; constructor; all_goals fld
  | chk =>
    rw [hp] at hs; cases hs
    cases hr : s.rc <;> (constructor; all_goals fld)
  | post =>
    rw [hp] at hs; cases hs
    cases hr : s.rc <;> (constructor; all_goals fld)
  | postWait =>
    rw [hp] at hs; simp only at hs
    cases he : s.exited with
    | none => rw [he] at hs; cases hs
    | some st => rw [he] at hs; cases hs; constructor; all_goals fld
  | join0 =>
    rw [hp] at hs; simp only at hs
    split at hs
    · cases hs; constructor; all_goals fld
    · cases hs
  | join1 =>
    rw [hp] at hs; simp only at hs
    split at hs
    · rename_i h1
      cases hs; constructor
      case I7b =>
        intro _ k hk
        have : k = 0 ∨ k = 1 := by omega
        rcases this with rfl | rfl
        · exact I7a hp
        · exact Or.inl h1
      all_goals fld
    · cases hs
  | setStopped => rw [hp] at hs; cases hs; constructor; all_goals fld
  | done => rw [hp] at hs; cases hs

theorem inv_stepUser {s s' : State} {l : Label} (h : Inv s) (hs : stepUser s = some (s', l)) : Inv s' := by
  obtain ⟨I1, I2, I3, I3n, I4, I5, I5c, I6, I7a, I7b, I8, E1, E2, E3, E4, N, St, U1, U2, U3, U4, U5⟩ := h
  unfold stepUser at hs
  cases hp : s.upc with
  | jwait =>
    rw [hp] at hs; simp only at hs
    split at hs
    · cases hs; constructor; all_goals fld
    · cases hs
  | jchk =>
    rw [hp] at hs; simp only at hs
    have hst := U1 (by rw [hp]; rfl)
    have hmd := I8.mp hst
    cases hr : s.rc with
    | some st => rw [hr] at hs; cases hs; constructor; all_goals fld
    | none =>
      rw [hr] at hs; simp only at hs
      have hus := N (by rw [hmd]; rfl) hr
      unfold doKill at hs
      cases he : s.exited with
      | some st => rw [he] at hs; cases hs; constructor; all_goals fld
      | none =>
        rw [he] at hs; cases hs
        have hk := I3n he
        have hfin : ∀ k, (s.rpc k).finished = true → s.abandoned k = false → False := by
          intro k hf ha; have := I4 k hf ha; rw [he] at this; simp at this
        constructor
        case I4 => intro k hf ha; exact (hfin k hf ha).elim
        all_goals fld
  | jchk2 =>
    rw [hp] at hs; cases hs
    have := U2 hp
    cases hr : s.rc with
    | none => rw [hr] at this; cases this
    | some st =>
      by_cases h0 : st = 0
      · subst h0; constructor; all_goals fld
      · constructor; all_goals fld
  | idle => rw [hp] at hs; cases hs
  | returned => rw [hp] at hs; cases hs
  | raisedTimeout => rw [hp] at hs; cases hs
  | raisedFail => rw [hp] at hs; cases hs

theorem inv_waitTimeout {s s' : State} (h : Inv s) (hs : waitTimeout s = some s') : Inv s' := by
  obtain ⟨I1, I2, I3, I3n, I4, I5, I5c, I6, I7a, I7b, I8, E1, E2, E3, E4, N, St, U1, U2, U3, U4, U5⟩ := h
  unfold waitTimeout at hs
  cases he : s.exited with
  | some st => rw [he] at hs; cases hs
  | none =>
    rw [he] at hs; simp only at hs
    cases hp : s.mpc <;> rw [hp] at hs <;> simp only at hs <;> cases hs
    · constructor; all_goals fld
    · have hE := E1 (by rw [hp]; rfl)
      have hus : s.userStop = true := by
        rcases hE with h1 | h1
        · exact h1
        · rw [he] at h1; cases h1
      constructor; all_goals fld

theorem inv_idleKill {s s' : State} (h : Inv s) (hs : idleKill s = some s') : Inv s' := by
  obtain ⟨I1, I2, I3, I3n, I4, I5, I5c, I6, I7a, I7b, I8, E1, E2, E3, E4, N, St, U1, U2, U3, U4, U5⟩ := h
  unfold idleKill at hs
  cases hp : s.mpc <;> rw [hp] at hs <;> simp only at hs <;> cases hs
  unfold doKill
  cases he : s.exited with
  | some st => simp only; constructor; all_goals fld
  | none =>
    simp only
    have hk := I3n he
    have hfin : ∀ k, (s.rpc k).finished = true → s.abandoned k = false → False := by
      intro k hf ha; have := I4 k hf ha; rw [he] at this; simp at this
    have hu5 : s.upc = .raisedTimeout → False := by
      intro hu; have := U5 hu; rw [he] at this; simp at this
    constructor
    case I4 => intro k hf ha; exact (hfin k hf ha).elim
    case U5 => intro hu; exact (hu5 hu).elim
    all_goals fld

theorem inv_abandon {s s' : State} (k : Nat) (h : Inv s) (hs : abandon s k = some s') : Inv s' := by
  obtain ⟨I1, I2, I3, I3n, I4, I5, I5c, I6, I7a, I7b, I8, E1, E2, E3, E4, N, St, U1, U2, U3, U4, U5⟩ := h
  unfold abandon at hs
  split at hs
  · rename_i hp
    split at hs
    · cases hs
    · cases hs
      have hE := E1 (by rw [hp]; rfl)
      constructor; all_goals fld
  · rename_i hp
    split at hs
    · cases hs
    · cases hs
      have hE := E1 (by rw [hp]; rfl)
      have h0 := I7a hp
      constructor
      case I7b =>
        intro _ j hj
        have : j = 0 ∨ j = 1 := by omega
        rcases this with rfl | rfl
        · rcases h0 with h0 | h0
          · left; simpa [upd] using h0
          · right; simp [upd, h0]
        · right; simp [upd]
      all_goals fld
  · cases hs

theorem inv_userStop {s : State} (h : Inv s) : Inv (userStop s) := by
  obtain ⟨I1, I2, I3, I3n, I4, I5, I5c, I6, I7a, I7b, I8, E1, E2, E3, E4, N, St, U1, U2, U3, U4, U5⟩ := h
  unfold userStop
  constructor; all_goals fld

theorem inv_callJoin {s s' : State} (h : Inv s) (hs : callJoin s = some s') : Inv s' := by
  obtain ⟨I1, I2, I3, I3n, I4, I5, I5c, I6, I7a, I7b, I8, E1, E2, E3, E4, N, St, U1, U2, U3, U4, U5⟩ := h
  unfold callJoin at hs
  cases hp : s.upc <;> rw [hp] at hs <;> simp only at hs <;> cases hs
  constructor; all_goals fld

theorem inv_writerStop {s s' : State} (h : Inv s) (hs : writerStop s = some s') : Inv s' := by
  obtain ⟨I1, I2, I3, I3n, I4, I5, I5c, I6, I7a, I7b, I8, E1, E2, E3, E4, N, St, U1, U2, U3, U4, U5⟩ := h
  unfold writerStop at hs
  cases hp : s.mpc <;> rw [hp] at hs <;> simp only at hs <;> cases hs
  all_goals (have hE := E1 (by rw [hp]; rfl); constructor; all_goals fld)

theorem inv_step {s s' : State} {t : Nat} {l : Label} (h : Inv s) (hs : step s t = some (s', l)) : Inv s' := by
  unfold step at hs
  split at hs
  · exact inv_stepChild h hs
  split at hs
  · exact inv_stepReader 0 h hs
  split at hs
  · exact inv_stepReader 1 h hs
  split at hs
  · exact inv_stepMonitor h hs
  split at hs
  · exact inv_stepUser h hs
  · cases hs

theorem reach_inv {s : State} (h : sys.Reach s) : Inv s := by
  refine Sys.Reach.invariant sys (P := Inv) ?_ ?_ ?_ h
  · intro s ⟨sc, st, hst, hi⟩; subst hi; exact inv_init sc st hst
  · intro s s' hi he
    rcases he with he | he | ⟨k, he⟩ | he | he | he
    · exact inv_waitTimeout hi he
    · exact inv_idleKill hi he
    · exact inv_abandon k hi he
    · subst he; exact inv_userStop hi
    · exact inv_callJoin hi he
    · exact inv_writerStop hi he
  · intro s s' t l hi hs; exact inv_step hi hs

end MoThreads.ProcessIO
