/-
  M4 (Queue): a ranking function for runs without environment moves (no new calls, no signals from the Lock, no
  timers, no close).  Every operation is a bounded number of own steps plus its turns around the capacity / empty
  loop, and every turn consumes what woke the thread: its `signalled` flag (reset when wait() returns), the stall
  timer of the wait (reset when the producer parks again), or it ends the call (the caller's till: the next
  capacity test raises; closed / till for a consumer: the pop returns).
-/
import MoThreads.Model.Queue
namespace MoThreads.Queue
open MoThreads

def actLen : Act → Nat
  | .extend vs => vs.length
  | _ => 0

def b2n (b : Bool) : Nat := if b then 1 else 0

def tOn (fired : Nat → Bool) : Option Nat → Bool
  | none => false
  | some x => fired x

/-- potential of a thread: position in its code, plus what its wake-up flags are still worth -/
def phiOf (fired : Nat → Bool) (sg st : Bool) : PC → Nat
  | .idle _ => 0
  | .sRel _ => 1
  | .sAct a _ => actLen a + 2
  | .sPost a => actLen a + 3
  | .sAcq a _ _ => actLen a + 40 + 30 * b2n sg
  | .sC a tl => actLen a + 3 + (if tOn fired tl then 3 else 24 + 30 * b2n sg)
  | .sLen a tl => actLen a + 3 + (if tOn fired tl then 2 else 23 + 30 * b2n sg)
  | .sTill a x => actLen a + 3 + (if fired x then 1 else 22 + 30 * b2n sg)
  | .sAlertNum a tl => actLen a + 3 + (if tOn fired tl then 4 else 25 + 30 * b2n sg)
  | .sAlertLen a tl => actLen a + 3 + (if tOn fired tl then 5 else 26 + 30 * b2n sg)
  | .sAlertT a x => actLen a + 3 + (if fired x then 6 else 27 + 30 * b2n sg)
  | .sWoke a tl => actLen a + 3 + (if tOn fired tl then 7 else 8 + 30 * b2n sg + 30 * b2n st)
  | .sParked a tl => actLen a + 3 + (if tOn fired tl then 8 else 9 + 30 * b2n sg + 30 * b2n st)
  | .sRel2 a tl => actLen a + 3 + (if tOn fired tl then 9 else 10 + 30 * b2n sg + 30 * b2n st)
  | .sPark a tl => actLen a + 3 + (if tOn fired tl then 10 else 21 + 30 * b2n sg)
  | .pPop => 2 | .pT _ => 2
  | .pAcq _ => 20 + 20 * b2n sg
  | .pLen _ => 19 + 20 * b2n sg
  | .pC _ => 18 + 20 * b2n sg
  | .pPark _ => 17 + 20 * b2n sg
  | .pRel2 _ => 16 + 20 * b2n sg
  | .pParked _ => 15 + 20 * b2n sg
  | .pWoke _ => 14 + 20 * b2n sg
  | .oPop => 2 | .oLen => 3 | .oC => 4 | .oAcq => 5
  | .lClear => 2 | .lLen => 3 | .lAcq => 4
  | .nLen => 2 | .nAcq => 3
  | .cClose => 1
  | .kClose => 2 | .kAcq => 3

def phi (s : State) (t : Nat) : Nat := phiOf s.tillFired (s.signalled t) (s.stalled t && !s.silent) (s.pc t)

theorem tOn_eq (s : State) (tl : Option Nat) : tOn s.tillFired tl = tillOn s tl := by cases tl <;> rfl

def rank (N : Nat) (s : State) : Nat := sumTo N (phi s)

/-- a producer whose wait() has just returned was woken by something -/
def WokeOK (s : State) : Prop :=
  ∀ t a tl, s.pc t = .sWoke a tl → s.signalled t = true ∨ (if s.silent then tillOn s tl else s.stalled t) = true

def Below (N : Nat) (s : State) : Prop := ∀ t, N ≤ t → ∃ r, s.pc t = .idle r

theorem step_frame {s s' : State} {t : Nat} {l : Label} (hs : step s t = some (s', l)) :
    s'.silent = s.silent ∧ s'.tillFired = s.tillFired ∧
      (∀ u, u ≠ t → s'.pc u = s.pc u ∧ s'.signalled u = s.signalled u ∧ s'.stalled u = s.stalled u) := by
  unfold step at hs
  cases hp : s.pc t <;> rw [hp] at hs <;> simp only [acquire] at hs <;>
    (first
      | (cases hs; done)
      | (cases hs; refine ⟨rfl, rfl, fun u hu => ?_⟩; simp [State.setPc, hu])
      | (split at hs <;> (first | (cases hs; done) | (cases hs; refine ⟨rfl, rfl, fun u hu => ?_⟩; simp [State.setPc, hu])
                                | (split at hs <;> (first | (cases hs; done) | (cases hs; refine ⟨rfl, rfl, fun u hu => ?_⟩; simp [State.setPc, hu]))))))

theorem phi_other {s s' : State} {t : Nat} {l : Label} (hs : step s t = some (s', l)) (u : Nat) (hu : u ≠ t) : phi s' u = phi s u := by
  obtain ⟨h1, h2, h3⟩ := step_frame hs
  obtain ⟨h4, h5, h6⟩ := h3 u hu
  simp only [phi, h1, h2, h4, h5, h6]

set_option hygiene false in
/-- all Boolean inputs of the potential are literals by now: evaluate and compare -/
macro "qfin" : tactic => `(tactic| (
  simp only [phi, hp, State.setPc, if_true, apply_ite (phiOf _ _ _)]
  simp (config := { decide := true }) [phiOf, tOn, tillOn, b2n, *]
  try omega))

set_option hygiene false in
macro "qd0" : tactic => `(tactic| (
  cases hsg : s.signalled t <;> cases hst : s.stalled t <;> cases hsl : s.silent <;> qfin))

set_option hygiene false in
macro "qdx" x:ident : tactic => `(tactic| (
  cases hsg : s.signalled t <;> cases hst : s.stalled t <;> cases hsl : s.silent <;> cases hf : s.tillFired $x <;> qfin))

set_option maxHeartbeats 4000000 in
theorem phi_step {s s' : State} {t : Nat} {l : Label} (hw : WokeOK s) (hs : step s t = some (s', l)) : phi s' t < phi s t := by
  unfold step at hs
  cases hp : s.pc t with
  | idle r => rw [hp] at hs; cases hs
  | sWoke a tl =>
    rw [hp] at hs; cases hs
    have hwk := hw t a tl hp
    cases tl with
    | none => cases hsg : s.signalled t <;> cases hst : s.stalled t <;> cases hsl : s.silent <;>
                simp [hsl, hsg, hst, tillOn] at hwk <;> qfin
    | some x => cases hsg : s.signalled t <;> cases hst : s.stalled t <;> cases hsl : s.silent <;> cases hf : s.tillFired x <;>
                  simp [hsl, hsg, hst, hf, tillOn] at hwk <;> qfin
  | sAcq a tl f =>
    rw [hp] at hs; simp only [acquire] at hs; split at hs
    · cases hs; cases f <;> (cases tl with | none => qd0 | some x => qdx x)
    · cases hs
  | sC a tl => rw [hp] at hs; cases hs; cases hcl : s.closed <;> (cases tl with | none => qd0 | some x => qdx x)
  | sLen a tl =>
    rw [hp] at hs; cases hs
    by_cases hm : s.max ≤ s.dq.length <;> (cases tl with | none => qd0 | some x => qdx x)
  | sTill a x => rw [hp] at hs; cases hs; qdx x
  | sAlertT a x => rw [hp] at hs; cases hs; qdx x
  | sAlertLen a tl =>
    rw [hp] at hs; cases hs
    by_cases hm : s.max ≤ s.dq.length <;> (cases tl with | none => qd0 | some x => qdx x)
  | sAlertNum a tl => rw [hp] at hs; cases hs; (cases tl with | none => qd0 | some x => qdx x)
  | sPark a tl => rw [hp] at hs; cases hs; (cases tl with | none => qd0 | some x => qdx x)
  | sRel2 a tl => rw [hp] at hs; cases hs; (cases tl with | none => qd0 | some x => qdx x)
  | sParked a tl =>
    rw [hp] at hs; simp only at hs
    cases hsl0 : s.silent <;> simp only [hsl0, if_true, if_false, Bool.false_eq_true] at hs <;>
      (split at hs <;> (first | (cases hs; done) | (cases hs; (cases tl with | none => qd0 | some x => qdx x))))
  | sPost a => rw [hp] at hs; cases hs; cases hcl : s.closed <;> cases hal : s.allow <;> qd0
  | pAcq tl => rw [hp] at hs; simp only [acquire] at hs; split at hs <;> (first | (cases hs; done) | (cases hs; qd0))
  | oAcq => rw [hp] at hs; simp only [acquire] at hs; split at hs <;> (first | (cases hs; done) | (cases hs; qd0))
  | lAcq => rw [hp] at hs; simp only [acquire] at hs; split at hs <;> (first | (cases hs; done) | (cases hs; qd0))
  | nAcq => rw [hp] at hs; simp only [acquire] at hs; split at hs <;> (first | (cases hs; done) | (cases hs; qd0))
  | kAcq => rw [hp] at hs; simp only [acquire] at hs; split at hs <;> (first | (cases hs; done) | (cases hs; qd0))
  | pParked tl => rw [hp] at hs; simp only at hs; split at hs <;> (first | (cases hs; done) | (cases hs; qd0))
  | pLen tl => rw [hp] at hs; cases hs; by_cases hm : s.dq.length = 0 <;> qd0
  | pC tl => rw [hp] at hs; cases hs; cases hcl : s.closed <;> qd0
  | pT tl => rw [hp] at hs; cases hs; cases hcl : s.closed <;> qd0
  | oC => rw [hp] at hs; cases hs; cases hcl : s.closed <;> qd0
  | oLen => rw [hp] at hs; cases hs; by_cases hm : s.dq.length = 0 <;> qd0
  | pPop =>
    rw [hp] at hs; simp only at hs
    cases hq : s.dq with
    | nil => rw [hq] at hs; cases hs
    | cons v r => rw [hq] at hs; cases hs; qd0
  | oPop =>
    rw [hp] at hs; simp only at hs
    cases hq : s.dq with
    | nil => rw [hq] at hs; cases hs
    | cons v r => rw [hq] at hs; cases hs; qd0
  | sAct a c =>
    rw [hp] at hs
    cases a with
    | add v => cases hs; qd0
    | push v => cases hs; qd0
    | extend vs =>
      cases vs with
      | nil => cases hs; simp only [phi, hp, State.setPc, if_true, phiOf, actLen, List.length_cons]; omega
      | cons v vs' =>
        by_cases hv : v = 0
        · simp only [hv, if_true] at hs; cases hs; simp only [phi, hp, State.setPc, if_true, phiOf, actLen, List.length_cons]; omega
        · simp only [hv, if_false] at hs; cases hs; simp only [phi, hp, State.setPc, if_true, phiOf, actLen, List.length_cons]; omega
  | _ => rw [hp] at hs; cases hs; qd0

set_option maxHeartbeats 4000000 in
theorem wokeOK_step {s s' : State} {t : Nat} {l : Label} (hw : WokeOK s) (hs : step s t = some (s', l)) : WokeOK s' := by
  obtain ⟨f1, f2, f3⟩ := step_frame hs
  intro u a tl hpu
  by_cases hut : u = t
  · subst hut
    unfold step at hs
    cases hp : s.pc u with
    | sParked a0 tl0 =>
      rw [hp] at hs; simp only at hs
      cases hsl0 : s.silent <;> simp only [hsl0, if_true, if_false, Bool.false_eq_true] at hs <;>
        (split at hs
         · rename_i hen
           cases hs
           simp only [State.setPc, if_true] at hpu
           cases hpu
           simp only [Bool.and_eq_true, Bool.or_eq_true, decide_eq_true_eq] at hen
           simpa [tillOn, hsl0, State.setPc] using hen.1
         · cases hs)
    | idle r => rw [hp] at hs; cases hs
    | sAcq a0 tl0 f0 => rw [hp] at hs; simp only [acquire] at hs; split at hs <;> (first | (cases hs; done) | (cases hs; simp only [State.setPc, if_true] at hpu; split at hpu <;> cases hpu))
    | pAcq tl0 => rw [hp] at hs; simp only [acquire] at hs; split at hs <;> (first | (cases hs; done) | (cases hs; simp [State.setPc] at hpu))
    | oAcq => rw [hp] at hs; simp only [acquire] at hs; split at hs <;> (first | (cases hs; done) | (cases hs; simp [State.setPc] at hpu))
    | lAcq => rw [hp] at hs; simp only [acquire] at hs; split at hs <;> (first | (cases hs; done) | (cases hs; simp [State.setPc] at hpu))
    | nAcq => rw [hp] at hs; simp only [acquire] at hs; split at hs <;> (first | (cases hs; done) | (cases hs; simp [State.setPc] at hpu))
    | kAcq => rw [hp] at hs; simp only [acquire] at hs; split at hs <;> (first | (cases hs; done) | (cases hs; simp [State.setPc] at hpu))
    | pParked tl0 => rw [hp] at hs; simp only at hs; split at hs <;> (first | (cases hs; done) | (cases hs; simp [State.setPc] at hpu))
    | pPop =>
      rw [hp] at hs; simp only at hs
      cases hq : s.dq with
      | nil => rw [hq] at hs; cases hs
      | cons v r => rw [hq] at hs; cases hs; simp [State.setPc] at hpu
    | oPop =>
      rw [hp] at hs; simp only at hs
      cases hq : s.dq with
      | nil => rw [hq] at hs; cases hs
      | cons v r => rw [hq] at hs; cases hs; simp [State.setPc] at hpu
    | sAct a0 c0 =>
      rw [hp] at hs
      cases a0 with
      | add v => cases hs; simp [State.setPc] at hpu
      | push v => cases hs; simp [State.setPc] at hpu
      | extend vs =>
        cases vs with
        | nil => cases hs; simp [State.setPc] at hpu
        | cons v vs' =>
          by_cases hv : v = 0
          · simp only [hv, if_true] at hs; cases hs; simp [State.setPc] at hpu
          · simp only [hv, if_false] at hs; cases hs; simp [State.setPc] at hpu
    | _ =>
      rw [hp] at hs; cases hs
      simp only [State.setPc, if_true] at hpu
      first
        | (cases hpu; done)
        | (split at hpu <;> (first | (cases hpu; done) | (split at hpu <;> cases hpu)))
  · obtain ⟨g1, g2, g3⟩ := f3 u hut
    rw [g1] at hpu
    have := hw u a tl hpu
    rw [g2, f1, g3]
    simpa [tillOn, f2] using this

theorem below_step {N : Nat} {s s' : State} {t : Nat} {l : Label} (hb : Below N s) (hs : step s t = some (s', l)) : Below N s' := by
  intro u hu
  by_cases hut : u = t
  · subst hut
    obtain ⟨r, hr⟩ := hb u hu
    unfold step at hs; rw [hr] at hs; cases hs
  · rw [((step_frame hs).2.2 u hut).1]; exact hb u hu

theorem rank_step {N : Nat} {s s' : State} {t : Nat} {l : Label} (hb : Below N s) (hw : WokeOK s) (hs : step s t = some (s', l)) :
    rank N s' < rank N s := by
  have ht : t < N := by
    rcases Nat.lt_or_ge t N with h | h
    · exact h
    · obtain ⟨r, hr⟩ := hb t h
      unfold step at hs; rw [hr] at hs; cases hs
  have h1 := sumTo_update (n := N) (t := t) (f := phi s) (g := phi s') ht (fun i hi => (phi_other hs i hi).symm)
  have h2 := phi_step hw hs
  unfold rank
  omega

/-- every run of the queue's threads without environment moves takes at most `rank N s` steps -/
theorem run_length_le_rank {N : Nat} {s s' : State} {tr : List (Nat × Label)} (hb : Below N s) (hw : WokeOK s)
    (r : sys.Run s tr s') : tr.length + rank N s' ≤ rank N s :=
  Sys.Run.length_le_rank_inv sys (rank N) (fun s => Below N s ∧ WokeOK s)
    (fun _ _ _ _ hP hs => ⟨below_step hP.1 hs, wokeOK_step hP.2 hs⟩)
    (fun _ _ _ _ hP hs => rank_step hP.1 hP.2 hs) r ⟨hb, hw⟩

theorem tillOn_fire {s : State} {x : Nat} {tl : Option Nat} (h : tillOn s tl = true) : tillOn (fireTill s x) tl = true := by
  cases tl with
  | none => simp [tillOn] at h
  | some y => simp only [tillOn, fireTill] at h ⊢; split <;> simp_all

theorem reach_wokeOK {s : State} (h : sys.Reach s) : WokeOK s := by
  refine Sys.Reach.invariant sys (P := WokeOK) ?_ ?_ ?_ h
  · rintro s ⟨m, a, sl, d, rfl⟩ t a tl hp; simp [init] at hp
  · rintro s s' hw (⟨t, op, hc⟩ | ⟨x, rfl⟩ | ⟨t, rfl⟩ | ⟨t, rfl⟩ | rfl)
    · unfold call at hc
      split at hc
      · rename_i r hidle
        intro u a tl hpu
        have key : ∀ p : PC, (∀ a tl, p ≠ .sWoke a tl) → s' = s.setPc t p → (s.signalled u = true ∨ (if s.silent then tillOn s tl else s.stalled u) = true) := by
          intro p hne he
          subst he
          simp only [State.setPc] at hpu
          split at hpu
          · exact absurd hpu (hne a tl)
          · exact hw u a tl hpu
        cases op <;> (cases hc; first
          | exact key _ (by intro _ _ hh; cases hh) rfl)
      · cases hc
    · intro u a tl hpu
      show s.signalled u = true ∨ (if s.silent then tillOn (fireTill s x) tl else s.stalled u) = true
      rcases hw u a tl hpu with h1 | h1
      · exact Or.inl h1
      · right
        by_cases hsl : s.silent = true
        · rw [if_pos hsl] at h1 ⊢; exact tillOn_fire h1
        · rw [if_neg hsl] at h1 ⊢; exact h1
    · intro u a tl hpu
      show (if u = t then true else s.signalled u) = true ∨ (if s.silent then tillOn s tl else s.stalled u) = true
      rcases hw u a tl hpu with h1 | h1
      · left; split <;> simp_all
      · exact Or.inr h1
    · intro u a tl hpu
      show s.signalled u = true ∨ (if s.silent then tillOn s tl else (if u = t then true else s.stalled u)) = true
      rcases hw u a tl hpu with h1 | h1
      · exact Or.inl h1
      · right
        by_cases hsl : s.silent = true
        · rw [if_pos hsl] at h1 ⊢; exact h1
        · rw [if_neg hsl] at h1 ⊢; split <;> simp_all
    · intro u a tl hpu; exact hw u a tl hpu
  · intro s s' t l hw hs; exact wokeOK_step hw hs

end MoThreads.Queue
