import MoThreads.Proofs.QueueInv
namespace MoThreads.Queue
set_option maxHeartbeats 1000000

theorem inv_init (m : Nat) (a sl : Bool) (d : List Nat) : Inv (init m a sl d) := by
  constructor <;> simp [init, PC.holds, PC.passed, PC.popping, PC.wokeTill, PC.timedOutTill]

set_option hygiene false in
macro "inv_open" : tactic => `(tactic| (
  obtain ⟨mutex, room, popNe, woke, tout, fifo, cnt⟩ := h
  constructor
  all_goals simp only [State.setPc, tillOn] at *))

set_option hygiene false in
macro "clr" : tactic => `(tactic| (
  try clear mutex
  try clear room
  try clear popNe
  try clear woke
  try clear tout
  try clear fifo
  try clear cnt))

set_option hygiene false in
macro "f_mutex" : tactic => `(tactic| (
    intro u; have h1 := mutex u; have h2 := mutex t; clr; grind [PC.holds]))

set_option hygiene false in
macro "f_room" : tactic => `(tactic| (
    intro u hu; have h1 := room u; have h2 := room t; have h3 := mutex u; have h4 := mutex t; clr; grind [PC.passed, PC.holds]))

set_option hygiene false in
macro "f_popNe" : tactic => `(tactic| (
    intro u hu; have h1 := popNe u; have h2 := popNe t; have h3 := mutex u; have h4 := mutex t; clr; grind [PC.popping, PC.holds]))

set_option hygiene false in
macro "f_woke" : tactic => `(tactic| (
    intro u tl' hu; have h1 := woke u tl'; have h2 := woke t tl'; clr; grind [PC.wokeTill, tillOn]))

set_option hygiene false in
macro "f_tout" : tactic => `(tactic| (
    intro u tl' hu; have h1 := tout u tl'; have h2 := tout t tl'; have h3 := woke t tl'; clr; grind [PC.timedOutTill, PC.wokeTill, tillOn]))

set_option hygiene false in
macro "f_fifo" : tactic => `(tactic| (
    intro hp'; have h1 := fifo; clr; grind))

set_option hygiene false in
macro "f_cnt" : tactic => `(tactic| (
    intro v'; have h1 := cnt v'; clr; grind))

set_option hygiene false in
/-- after a mutation by the mutex holder `t`: nobody else is in a popping / passed pc -/
macro "others_out" : tactic => `(tactic| (
  have hmt := (mutex t).mp (by simp [hp, PC.holds])
  have hpo : ∀ u, u ≠ t → (s.pc u).popping = false := fun u hu => by
    cases hh : (s.pc u).popping with
    | false => rfl
    | true => have := (mutex u).mp (PC.popping_holds _ hh); rw [hmt] at this; exact absurd (Option.some.inj this).symm hu
  have hpa : ∀ u, u ≠ t → (s.pc u).passed = false := fun u hu => by
    cases hh : (s.pc u).passed with
    | false => rfl
    | true => have := (mutex u).mp (PC.passed_holds _ hh); rw [hmt] at this; exact absurd (Option.some.inj this).symm hu))

set_option hygiene false in
macro "inv_open_mut" : tactic => `(tactic| (
  obtain ⟨mutex, room, popNe, woke, tout, fifo, cnt⟩ := h
  others_out
  constructor
  all_goals simp only [State.setPc, tillOn] at *))

set_option hygiene false in
macro "mut_fields" : tactic => `(tactic| (
  try (case popNe =>
    intro u hu
    by_cases hut : u = t
    · simp [hut, PC.popping] at hu
    · simp only [hut, if_false] at hu; have := hpo u hut; simp [this] at hu)
  try (case room =>
    intro u hu
    by_cases hut : u = t
    · simp [hut, PC.passed] at hu
    · simp only [hut, if_false] at hu; have := hpa u hut; simp [this] at hu)))

set_option hygiene false in
macro "inv_rest" : tactic => `(tactic| (
  try (case mutex => f_mutex)
  try (case room => f_room)
  try (case popNe => f_popNe)
  try (case woke => f_woke)
  try (case tout => f_tout)
  try (case fifo => f_fifo)
  try (case cnt => f_cnt)))

macro "step_at" hp:ident hs:ident : tactic => `(tactic| (
  unfold step at $hs:ident
  rw [$hp:ident] at $hs:ident
  simp only [acquire] at $hs:ident))

set_option hygiene false in
macro "step_open" : tactic => `(tactic| (
  step_at hp hs
  first
  | cases hs
  | (split at hs <;> cases hs)))

set_option hygiene false in
macro "step_case" : tactic => `(tactic| (step_open; inv_open; inv_rest))

end MoThreads.Queue
