/-
  M5 (ThreadTree): what a thread that cannot move is waiting for (L2 for C10).
  InvD: the join work of a shutdown block only names registered descendants of its thread; a registered thread that does
  not exist yet has a parent that is in the middle of spawning it; registered children are younger than their parent.
  `quiescent_stopped`: where nobody can move, a thread whose target has ended is `stopped` unless the target of one of its
  registered descendants is still running.
-/
import MoThreads.Proofs.TreeRank
namespace MoThreads.ThreadTree
open MoThreads
set_option maxHeartbeats 2000000

def JAct.tgt : JAct → Nat
  | .start u | .mark u | .wait u | .unreg u | .finish u _ => u

/-- what the shutdown block of `t` is working on belongs to `t`'s subtree -/
def Shape (s : State) (t : Nat) : Prop :=
  match s.phase t with
  | .fin2 cs => (∃ w, s.call t = .stopping w) ∧ ∀ c, c ∈ cs → c ∈ s.everChild t
  | .fin3 _ => ∀ top work tl raised all, s.call t = .joining top work tl raised all → ∀ a, a ∈ work → Desc s t a.tgt
  | _ => True

structure InvD (s : State) : Prop where
  D3 : ∀ p c, c ∈ s.everChild p → s.phase c = .absent → s.call p = .spawn c
  D4 : ∀ p c, c ∈ s.everChild p → p < c ∧ c < s.nextId
  DS : ∀ t, Shape s t

theorem desc_congr {s s' : State} (he : s'.everChild = s.everChild) {p d : Nat} (h : Desc s p d) : Desc s' p d :=
  desc_mono (fun p c hc => by rw [he]; exact hc) h

/-- Shape of a thread whose phase and call are untouched, while registrations only grow -/
theorem shape_other {s s' : State} {u : Nat} (hp : s'.phase u = s.phase u) (hc : s'.call u = s.call u)
    (he : ∀ p c, c ∈ s.everChild p → c ∈ s'.everChild p) (h : Shape s u) : Shape s' u := by
  unfold Shape at h ⊢
  rw [hp, hc]
  split
  · rename_i cs hph; rw [hph] at h; exact ⟨h.1, fun c hc => he _ _ (h.2 c hc)⟩
  · rename_i cs hph; rw [hph] at h
    intro top work tl raised all hcl a ha
    exact desc_mono he (h top work tl raised all hcl a ha)
  · trivial

theorem shape_triv {s : State} {t : Nat} (h2 : ∀ cs, s.phase t ≠ .fin2 cs) (h3 : ∀ cs, s.phase t ≠ .fin3 cs) : Shape s t := by
  unfold Shape
  split
  · rename_i cs hph; exact absurd hph (h2 cs)
  · rename_i cs hph; exact absurd hph (h3 cs)
  · trivial

theorem invD_init : InvD init := by
  refine ⟨?_, ?_, ?_⟩
  · intro p c h; simp [init] at h
  · intro p c h; simp [init] at h
  · intro t; apply shape_triv <;> (intro cs; simp only [init]; split <;> (intro hh; cases hh))

/-- a move of `t` that leaves the registrations alone and touches only `t`'s phase and call -/
theorem invD_update {s s' : State} (hd : InvD s) (t : Nat)
    (he : s'.everChild = s.everChild) (hn : s.nextId ≤ s'.nextId)
    (hpo : ∀ u, u ≠ t → s'.phase u = s.phase u) (hco : ∀ u, u ≠ t → s'.call u = s.call u)
    (hpt : s'.phase t ≠ .absent)
    (hct : s'.call t = s.call t ∨ ∀ c, s.call t ≠ .spawn c)
    (hsh : Shape s' t) : InvD s' := by
  refine ⟨?_, ?_, ?_⟩
  · intro p c hcc hpc
    rw [he] at hcc
    by_cases hct' : c = t
    · subst hct'; exact absurd hpc hpt
    · rw [hpo c hct'] at hpc
      have h3 := hd.D3 p c hcc hpc
      by_cases hpt' : p = t
      · subst hpt'
        rcases hct with h1 | h1
        · rw [h1]; exact h3
        · exact absurd h3 (h1 c)
      · rw [hco p hpt']; exact h3
  · intro p c hcc; rw [he] at hcc; have := hd.D4 p c hcc; exact ⟨this.1, by omega⟩
  · intro u
    by_cases hut : u = t
    · subst hut; exact hsh
    · exact shape_other (hpo u hut) (hco u hut) (fun p c hc => by rw [he]; exact hc) (hd.DS u)

theorem invD_stepStop {s s' : State} {t : Nat} {w : List SAct} {k : List SAct → Call} {l : Label} (hd : InvD s)
    (hc : ∃ w0, s.call t = k w0) (hk : ∀ w1 c, k w1 ≠ .spawn c) (hpa : s.phase t ≠ .absent)
    (hph : (∀ cs, s.phase t ≠ .fin2 cs) ∨ k = .stopping) (h3 : ∀ cs, s.phase t ≠ .fin3 cs)
    (hs : stepStop s t w k = some (s', l)) : InvD s' := by
  obtain ⟨w0, hc⟩ := hc
  have key : ∀ w' (ps : Nat → Bool), InvD { s with call := upd s.call t (k w'), pstop := ps } := by
    intro w' ps
    refine invD_update hd t rfl (Nat.le_refl _) (fun _ _ => rfl) (fun u hu => if_neg hu) hpa (Or.inr (by rw [hc]; exact hk w0)) ?_
    unfold Shape
    show match s.phase t with | .fin2 cs => _ | .fin3 _ => _ | _ => True
    have hsh := hd.DS t
    unfold Shape at hsh
    split
    · rename_i cs hp2
      rw [hp2] at hsh
      rcases hph with h1 | h1
      · exact absurd hp2 (h1 cs)
      · subst h1; exact ⟨⟨w', if_pos rfl⟩, hsh.2⟩
    · rename_i cs hp3; exact absurd hp3 (h3 cs)
    · trivial
  unfold stepStop at hs
  cases w with
  | nil => cases hs
  | cons a r =>
    cases a with
    | visit u => cases hs; exact key _ _
    | fire u => cases hs; exact key _ _

theorem invD_stepJoin {s s' : State} {t : Nat} {top : List Nat} {w : List JAct} {tl : Option Nat} {raised : List Nat}
    {all : Bool} {k : List JAct → List Nat → Call} {l : Label} (hr : InvR s) (hd : InvD s)
    (hc : s.call t = k w raised) (hk : ∀ w1 r1 c, k w1 r1 ≠ .spawn c) (hpa : s.phase t ≠ .absent)
    (h2 : ∀ cs, s.phase t ≠ .fin2 cs) (hph : (∀ cs, s.phase t ≠ .fin3 cs) ∨ k = (fun w r => .joining top w tl r all))
    (hs : stepJoin s t top w tl raised all k = some (s', l)) : InvD s' := by
  have key : ∀ w' r' (jn : Nat → Bool) (ch : Nat → List Nat), (∀ a, a ∈ w' → (∀ b, b ∈ w → Desc s t b.tgt) → Desc s t a.tgt) →
      InvD { s with call := upd s.call t (k w' r'), joiner := jn, children := ch } := by
    intro w' r' jn ch hsub
    refine invD_update hd t rfl (Nat.le_refl _) (fun _ _ => rfl) (fun u hu => if_neg hu) hpa (Or.inr (by rw [hc]; exact hk w raised)) ?_
    unfold Shape
    show match s.phase t with | .fin2 cs => _ | .fin3 _ => _ | _ => True
    have hsh := hd.DS t
    unfold Shape at hsh
    split
    · rename_i cs hp2; exact absurd hp2 (h2 cs)
    · rename_i cs hp3
      rw [hp3] at hsh
      rcases hph with h1 | h1
      · exact absurd hp3 (h1 cs)
      · subst h1
        intro top' work' tl' raised' all' hcl a ha
        have hcl' : Call.joining top w' tl r' all = Call.joining top' work' tl' raised' all' := by
          have : (upd s.call t (Call.joining top w' tl r' all)) t = Call.joining top' work' tl' raised' all' := hcl
          simpa [upd] using this
        cases hcl'
        have := hsub a ha (fun b hb => hsh top w tl raised all hc b hb)
        refine desc_mono (s := s) ?_ this
        intro p c hc; exact hc
    · trivial
  unfold stepJoin at hs
  cases w with
  | nil => cases hs
  | cons a r =>
    cases a with
    | start u =>
      cases hs
      refine key _ _ _ _ ?_
      intro a ha hall
      have hu : Desc s t u := hall (.start u) (by simp)
      simp only [List.mem_append, List.mem_map, List.mem_cons, List.not_mem_nil, or_false] at ha
      rcases ha with (⟨c, hc1, rfl⟩ | h1) | h1
      · exact desc_snoc hu (hr.R6 u c hc1)
      · rcases h1 with rfl | rfl | rfl | rfl <;> exact hu
      · exact hall a (by simp [h1])
    | mark u => cases hs; exact key _ _ _ _ (fun a ha hall => hall a (by simp [ha]))
    | wait u =>
      simp only at hs
      split at hs
      · cases hs; exact key _ _ _ _ (fun a ha hall => hall a (by simp [ha]))
      · split at hs
        · cases hs
          exact key _ _ _ _ (fun a ha hall => hall a (by simp [(List.mem_filter.mp ha).1]))
        · cases hs
    | unreg u => cases hs; exact key _ _ _ _ (fun a ha hall => hall a (by simp [ha]))
    | finish u cs => cases hs; exact key _ _ _ _ (fun a ha hall => hall a (by simp [ha]))

theorem not_spawn_of_phase {s : State} (h : Inv s) {t : Nat} (hp : s.phase t ≠ .running) : ∀ c, s.call t ≠ .spawn c := by
  intro c hc
  exact hp (h.spawnR t (by rw [hc]; rfl))

set_option hygiene false in
/-- the stepping thread only moves to a phase that is neither fin2 nor fin3, its call is unchanged -/
macro "dsame" : tactic => `(tactic| (
  refine invD_update hd t rfl (Nat.le_refl _) (by first | exact (fun u hu => if_neg hu) | exact (fun _ _ => rfl)) (fun _ _ => rfl) ?_ (Or.inl rfl) ?_
  · show upd s.phase t _ t ≠ _; rw [upd_same]; intro hh; cases hh
  · apply shape_triv <;> (intro cs; show upd s.phase t _ t ≠ _; rw [upd_same]; intro hh; cases hh)))

set_option hygiene false in
/-- a running thread's call moves on (not from a spawn) -/
macro "drun" : tactic => `(tactic| (
  refine invD_update hd t rfl (Nat.le_refl _) (fun _ _ => rfl) (fun u hu => if_neg hu) (by show s.phase t ≠ _; rw [hph]; intro hh; cases hh)
    (Or.inr (by rw [hc]; intro c hh; cases hh)) ?_
  apply shape_triv <;> (intro cs; show s.phase t ≠ _; rw [hph]; intro hh; cases hh)))

theorem invD_step {s s' : State} {t : Nat} {l : Label} (h : Inv s) (hr : InvR s) (hd : InvD s) (hs : step s t = some (s', l)) : InvD s' := by
  cases hph : s.phase t with
  | absent => unfold step at hs; rw [hph] at hs; cases hs
  | dead => unfold step at hs; rw [hph] at hs; cases hs
  | created => unfold step at hs; rw [hph] at hs; cases hs; dsame
  | peek o => unfold step at hs; rw [hph] at hs; cases hs; dsame
  | fin4 cs => unfold step at hs; rw [hph] at hs; cases hs; dsame
  | fin5 cs => unfold step at hs; rw [hph] at hs; cases hs; dsame
  | fin6 cs => unfold step at hs; rw [hph] at hs; cases hs; dsame
  | linger =>
    unfold step at hs; rw [hph] at hs; simp only at hs
    split at hs
    · cases hs; dsame
    · split at hs
      · split at hs <;> (cases hs; dsame)
      · cases hs
  | fin1 =>
    unfold step at hs; rw [hph] at hs; cases hs
    refine invD_update hd t rfl (Nat.le_refl _) (fun u hu => if_neg hu) (fun u hu => if_neg hu) ?_
      (Or.inr (not_spawn_of_phase h (by rw [hph]; intro hh; cases hh))) ?_
    · show upd s.phase t _ t ≠ _; rw [upd_same]; intro hh; cases hh
    · unfold Shape
      show match upd s.phase t (Phase.fin2 (s.children t)) t with | .fin2 cs => _ | .fin3 _ => _ | _ => True
      rw [upd_same]
      exact ⟨⟨_, if_pos rfl⟩, fun c hc => hr.R6 t c hc⟩
  | fin2 cs =>
    have hsh := hd.DS t
    unfold Shape at hsh; rw [hph] at hsh
    unfold step at hs; rw [hph] at hs; simp only at hs
    split at hs
    · rename_i hc
      cases hs
      refine invD_update hd t rfl (Nat.le_refl _) (fun u hu => if_neg hu) (fun u hu => if_neg hu) ?_ (Or.inr (by rw [hc]; intro c hh; cases hh)) ?_
      · show upd s.phase t _ t ≠ _; rw [upd_same]; intro hh; cases hh
      · unfold Shape
        show match upd s.phase t (Phase.fin3 cs) t with | .fin2 cs => _ | .fin3 _ => _ | _ => True
        rw [upd_same]
        intro top work tl raised all hcl a ha
        have hcl' : Call.joining cs (cs.map .start) none [] true = Call.joining top work tl raised all := by
          have : upd s.call t (Call.joining cs (cs.map .start) none [] true) t = Call.joining top work tl raised all := hcl
          rwa [upd_same] at this
        cases hcl'
        obtain ⟨c, hc1, rfl⟩ := List.mem_map.mp ha
        refine desc_mono (s := s) ?_ (Desc.child (hsh.2 c hc1))
        intro p x hx; exact hx
    · rename_i w hne hc
      exact invD_stepStop hd ⟨_, hc⟩ (by intro _ _ hh; cases hh) (by rw [hph]; intro hh; cases hh) (Or.inr rfl)
        (by intro cs'; rw [hph]; intro hh; cases hh) hs
    · cases hs
  | fin3 cs =>
    unfold step at hs; rw [hph] at hs; simp only at hs
    split at hs
    · rename_i hc
      cases hs
      refine invD_update hd t rfl (Nat.le_refl _) (fun u hu => if_neg hu) (fun u hu => if_neg hu) ?_ (Or.inr (by rw [hc]; intro c hh; cases hh)) ?_
      · show upd s.phase t _ t ≠ _; rw [upd_same]; intro hh; cases hh
      · apply shape_triv <;> (intro cs; show upd s.phase t _ t ≠ _; rw [upd_same]; intro hh; cases hh)
    · rename_i top w tl raised all hne hc
      exact invD_stepJoin hr hd hc (by intro _ _ _ hh; cases hh) (by rw [hph]; intro hh; cases hh)
        (by intro cs'; rw [hph]; intro hh; cases hh) (Or.inr rfl) hs
    · cases hs
  | running =>
    have hpa : s.phase t ≠ .absent := by rw [hph]; intro hh; cases hh
    have hn2 : ∀ cs, s.phase t ≠ .fin2 cs := by intro cs; rw [hph]; intro hh; cases hh
    have hn3 : ∀ cs, s.phase t ≠ .fin3 cs := by intro cs; rw [hph]; intro hh; cases hh
    cases hc : s.call t with
    | idle r => unfold step at hs; rw [hph] at hs; simp only [hc] at hs; cases hs
    | spawn c =>
      unfold step at hs; rw [hph] at hs; simp only [hc] at hs
      have hsc := h.spawnC t c hc
      have hct : t ≠ c := by intro he; subst he; rw [hph] at hsc; cases hsc.1
      split at hs
      · cases hs
        refine ⟨?_, hd.D4, ?_⟩
        · intro p x hx hpx
          have hxc : x ≠ c := by intro he; subst he; simp [upd] at hpx
          have hpx' : s.phase x = .absent := by simpa [upd, hxc] using hpx
          have h3 := hd.D3 p x hx hpx'
          by_cases hpt : p = t
          · subst hpt; rw [hc] at h3; cases h3; exact absurd rfl hxc
          · show upd s.call t _ p = _; rw [upd_other _ _ _ _ hpt]; exact h3
        · intro u
          by_cases hut : u = t
          · subst hut
            apply shape_triv <;> (intro cs; show upd s.phase c _ u ≠ _; rw [upd_other _ _ _ _ hct, hph]; intro hh; cases hh)
          · by_cases huc : u = c
            · subst huc
              apply shape_triv <;> (intro cs; show upd s.phase u _ u ≠ _; rw [upd_same]; intro hh; cases hh)
            · exact shape_other (s := s) (by show upd s.phase c _ u = _; rw [upd_other _ _ _ _ huc])
                (by show upd s.call t _ u = _; rw [upd_other _ _ _ _ hut]) (fun _ _ hx => hx) (hd.DS u)
      · rename_i hnin
        cases hs
        have hno : s.orphan c = false := by
          cases ho : s.orphan c
          · rfl
          · exact absurd (Or.inr ho) hnin
        have h3 := hr.R3 t c hc hno
        have hmono : ∀ p x, x ∈ s.everChild p → x ∈ upd s.everChild t (s.everChild t ++ [c]) p := by
          intro p x hx; simp only [upd]; split
          · rename_i hp; subst hp; exact List.mem_append_left _ hx
          · exact hx
        have hnew : ∀ p x, x ∈ upd s.everChild t (s.everChild t ++ [c]) p → x ∈ s.everChild p ∨ (p = t ∧ x = c) := by
          intro p x hx; simp only [upd] at hx; split at hx
          · rename_i hp; subst hp
            rcases List.mem_append.mp hx with h1 | h1
            · exact Or.inl h1
            · simp at h1; exact Or.inr ⟨rfl, h1⟩
          · exact Or.inl hx
        refine ⟨?_, ?_, ?_⟩
        · intro p x hx hpx
          rcases hnew p x hx with h1 | ⟨rfl, rfl⟩
          · exact hd.D3 p x h1 hpx
          · exact hc
        · intro p x hx
          rcases hnew p x hx with h1 | ⟨rfl, rfl⟩
          · exact hd.D4 p x h1
          · exact ⟨h3.2, hsc.2⟩
        · intro u; exact shape_other (s := s) rfl rfl hmono (hd.DS u)
    | releasing u => unfold step at hs; rw [hph] at hs; simp only [hc] at hs; cases hs; drun
    | stopping w =>
      unfold step at hs; rw [hph] at hs; simp only [hc] at hs
      split at hs
      · cases hs; drun
      · exact invD_stepStop hd ⟨_, hc⟩ (by intro _ _ hh; cases hh) hpa (Or.inl hn2) hn3 hs
    | joining top w tl raised all =>
      unfold step at hs; rw [hph] at hs; simp only [hc] at hs
      split at hs
      · cases hs; drun
      · exact invD_stepJoin hr hd hc (by intro _ _ _ hh; cases hh) hpa hn2 (Or.inl hn3) hs
    | m0 => unfold step at hs; rw [hph] at hs; simp only [hc] at hs; cases hs; drun
    | m1 => unfold step at hs; rw [hph] at hs; simp only [hc] at hs; cases hs; drun
    | mS cs w =>
      unfold step at hs; rw [hph] at hs; simp only [hc] at hs
      split at hs
      · cases hs; drun
      · exact invD_stepStop hd ⟨_, hc⟩ (by intro _ _ hh; cases hh) hpa (Or.inl hn2) hn3 hs
    | mJ cs w raised =>
      unfold step at hs; rw [hph] at hs; simp only [hc] at hs
      split at hs
      · cases hs; drun
      · exact invD_stepJoin (k := fun w r => .mJ cs w r) hr hd hc (by intro _ _ _ hh; cases hh) hpa hn2 (Or.inl hn3) hs
    | m2 cs raised => unfold step at hs; rw [hph] at hs; simp only [hc] at hs; cases hs; drun
    | mRS cs raised res w =>
      unfold step at hs; rw [hph] at hs; simp only [hc] at hs
      split at hs
      · cases hs; drun
      · exact invD_stepStop hd ⟨_, hc⟩ (by intro _ _ hh; cases hh) hpa (Or.inl hn2) hn3 hs
    | mRJ cs raised res w raised2 =>
      unfold step at hs; rw [hph] at hs; simp only [hc] at hs
      split at hs
      · cases hs; drun
      · exact invD_stepJoin (k := fun w r => .mRJ cs raised res w r) hr hd hc (by intro _ _ _ hh; cases hh) hpa hn2 (Or.inl hn3) hs

theorem invD_call {s s' : State} {t : Nat} {op : Op} (hd : InvD s) (hc : call s t op = some s') : InvD s' := by
  unfold call at hc
  split at hc
  · rename_i r hph hcl
    have hns : ∀ c, s.call t ≠ .spawn c := by intro c hh; rw [hcl] at hh; cases hh
    have hpa : s.phase t ≠ .absent := by rw [hph]; intro hh; cases hh
    have triv : ∀ s'' : State, s''.phase t = s.phase t → Shape s'' t := by
      intro s'' hp; apply shape_triv <;> (intro cs; rw [hp, hph]; intro hh; cases hh)
    cases op with
    | spawn => cases hc; exact invD_update hd t rfl (Nat.le_succ _) (fun _ _ => rfl) (fun u hu => if_neg hu) hpa (Or.inr hns) (triv _ rfl)
    | spawnOrphan => cases hc; exact invD_update hd t rfl (Nat.le_succ _) (fun _ _ => rfl) (fun u hu => if_neg hu) hpa (Or.inr hns) (triv _ rfl)
    | stop u => cases hc; exact invD_update hd t rfl (Nat.le_refl _) (fun _ _ => rfl) (fun u hu => if_neg hu) hpa (Or.inr hns) (triv _ rfl)
    | join u tl => cases hc; exact invD_update hd t rfl (Nat.le_refl _) (fun _ _ => rfl) (fun u hu => if_neg hu) hpa (Or.inr hns) (triv _ rfl)
    | joinAll us tl => cases hc; exact invD_update hd t rfl (Nat.le_refl _) (fun _ _ => rfl) (fun u hu => if_neg hu) hpa (Or.inr hns) (triv _ rfl)
    | release u => cases hc; exact invD_update hd t rfl (Nat.le_refl _) (fun _ _ => rfl) (fun u hu => if_neg hu) hpa (Or.inr hns) (triv _ rfl)
    | mainStop =>
      simp only at hc; split at hc
      · cases hc; exact invD_update hd t rfl (Nat.le_refl _) (fun _ _ => rfl) (fun u hu => if_neg hu) hpa (Or.inr hns) (triv _ rfl)
      · cases hc
    | finish o =>
      simp only at hc; split at hc
      · cases hc
      · cases hc
        refine invD_update hd t rfl (Nat.le_refl _) (fun u hu => if_neg hu) (fun _ _ => rfl) ?_ (Or.inl rfl) ?_
        · show upd s.phase t _ t ≠ _; rw [upd_same]; cases o <;> (intro hh; cases hh)
        · apply shape_triv <;> (intro cs; show upd s.phase t _ t ≠ _; rw [upd_same]; cases o <;> (intro hh; cases hh))
  · cases hc

theorem invD_fireTill {s : State} (x : Nat) (hd : InvD s) : InvD (fireTill s x) :=
  ⟨hd.D3, hd.D4, fun u => shape_other (s := s) rfl rfl (fun _ _ hx => hx) (hd.DS u)⟩

theorem invD_expire {s : State} (t : Nat) (hd : InvD s) : InvD (expire s t) :=
  ⟨hd.D3, hd.D4, fun u => shape_other (s := s) rfl rfl (fun _ _ hx => hx) (hd.DS u)⟩

theorem reach_invD {s : State} (h : sys.Reach s) : InvD s := by
  induction h with
  | init hi => cases hi; exact invD_init
  | env hr he ih =>
    rcases he with ⟨t, op, hc⟩ | ⟨x, rfl⟩ | ⟨x, rfl⟩
    · exact invD_call ih hc
    · exact invD_fireTill x ih
    · exact invD_expire x ih
  | step hr hs ih =>
    have := reach_invR hr
    exact invD_step this.1 this.2 ih hs

theorem desc_trans {s : State} {a b c : Nat} (h1 : Desc s a b) (h2 : Desc s b c) : Desc s a c := by
  induction h1 with
  | child hm => exact Desc.step hm h2
  | step hm _ ih => exact Desc.step hm (ih h2)

theorem desc_lt {s : State} (hd : InvD s) {a b : Nat} (h : Desc s a b) : a < b ∧ b < s.nextId := by
  induction h with
  | child hm => exact hd.D4 _ _ hm
  | step hm _ ih => have := hd.D4 _ _ hm; exact ⟨by omega, ih.2⟩

/-- the last registration step of a descent -/
theorem desc_last {s : State} {a b : Nat} (h : Desc s a b) : ∃ p, (p = a ∨ Desc s a p) ∧ b ∈ s.everChild p := by
  induction h with
  | child hm => exact ⟨_, Or.inl rfl, hm⟩
  | step hm _ ih =>
    obtain ⟨p, hp, hb⟩ := ih
    refine ⟨p, Or.inr ?_, hb⟩
    rcases hp with rfl | hp
    · exact Desc.child hm
    · exact Desc.step hm hp

/-- In a state where nobody can move, a thread whose target has ended and whose descendants' targets have all ended
has triggered `stopped`. -/
theorem quiescent_stopped {s : State} (h : sys.Reach s) (hq : sys.Quiescent s) :
    ∀ n t, s.nextId - t ≤ n → (s.phase t).post = true → (∀ u, Desc s t u → s.phase u ≠ .running) → s.stopped t = true := by
  have hi := (reach_invR h).1
  have hd := reach_invD h
  intro n
  induction n with
  | zero =>
    intro t hn hpost _
    have : t < s.nextId := lt_nextId hi (by intro hab; rw [hab] at hpost; cases hpost)
    omega
  | succ n ih =>
    intro t hn hpost hdesc
    have hstep : step s t = none := hq t
    have hsh := hd.DS t
    unfold Shape at hsh
    cases hph : s.phase t with
    | absent => rw [hph] at hpost; cases hpost
    | created => rw [hph] at hpost; cases hpost
    | running => rw [hph] at hpost; cases hpost
    | linger => exact (hi.stP t).mpr (by rw [hph]; rfl)
    | dead => exact (hi.stP t).mpr (by rw [hph]; rfl)
    | peek o => unfold step at hstep; rw [hph] at hstep; cases hstep
    | fin1 => unfold step at hstep; rw [hph] at hstep; cases hstep
    | fin4 cs => unfold step at hstep; rw [hph] at hstep; cases hstep
    | fin5 cs => unfold step at hstep; rw [hph] at hstep; cases hstep
    | fin6 cs => unfold step at hstep; rw [hph] at hstep; cases hstep
    | fin2 cs =>
      rw [hph] at hsh
      obtain ⟨⟨w, hc⟩, _⟩ := hsh
      unfold step at hstep; rw [hph] at hstep; simp only [hc] at hstep
      cases w with
      | nil => cases hstep
      | cons a r => unfold stepStop at hstep; cases a <;> cases hstep
    | fin3 cs =>
      rw [hph] at hsh
      obtain ⟨work, raised, hc⟩ := hi.fin3C t cs hph
      have hw := hsh cs work none raised true hc
      unfold step at hstep; rw [hph] at hstep; simp only [hc] at hstep
      cases work with
      | nil => cases hstep
      | cons a r =>
        unfold stepJoin at hstep
        cases a with
        | start u => cases hstep
        | mark u => cases hstep
        | unreg u => cases hstep
        | finish u cs' => cases hstep
        | wait v =>
          exfalso
          simp only at hstep
          have hv : Desc s t v := hw (.wait v) (by simp)
          have hlt := desc_lt hd hv
          cases hsv : s.stopped v with
          | true => rw [hsv] at hstep; simp at hstep
          | false =>
            -- v has not stopped: it is not absent, not created (it could move), not running: its target has ended
            have hvpost : (s.phase v).post = true := by
              cases hpv : s.phase v with
              | absent =>
                obtain ⟨p, hp, hb⟩ := desc_last hv
                have hcp := hd.D3 p v hb hpv
                have hrun := hi.spawnR p (by rw [hcp]; rfl)
                rcases hp with rfl | hp
                · rw [hph] at hrun; cases hrun
                · exact absurd hrun (hdesc p hp)
              | created => have : step s v = none := hq v; unfold step at this; rw [hpv] at this; cases this
              | running => exact absurd hpv (hdesc v hv)
              | _ => rfl
            have := ih v (by omega) hvpost (fun u hu => hdesc u (desc_trans hv hu))
            rw [this] at hsv; cases hsv

end MoThreads.ThreadTree
