import MoThreads.Proofs.MonitorA2
import MoThreads.Proofs.MonitorB
import MoThreads.Proofs.MonitorC
import MoThreads.Proofs.MonitorD
import MoThreads.Proofs.MonitorE
namespace MoThreads.Monitor
set_option maxHeartbeats 2000000

theorem inv_step {s s' : State} {t : Nat} {l : Label} (h : Inv s) (hs : step s t = some (s', l)) : Inv s' := by
  cases hp : s.pc t with
  | idle r => unfold step at hs; rw [hp] at hs; cases hs
  | inside r => unfold step at hs; rw [hp] at hs; cases hs
  | e0 => exact step_e0 h hp hs
  | x0 => exact step_x0 h hp hs
  | x1 => exact step_x1 h hp hs
  | x2 w => exact step_x2 h hp hs
  | x3 => exact step_x3 h hp hs
  | a0 w c tl => exact step_a0 h hp hs
  | a1 w c tl => exact step_a1 h hp hs
  | a2 w c tl o => exact step_a2 h hp hs
  | a3 w c tl => exact step_a3 h hp hs
  | a4 w c tl => exact step_a4 h hp hs
  | a5 w c tl => exact step_a5 h hp hs
  | parked w c tl => exact step_parked h hp hs
  | a6 w c tl => exact step_a6 h hp hs

theorem inv_fireTill {s : State} (x : Nat) (h : Inv s) : Inv (fireTill s x) := by
  unfold fireTill
  obtain ⟨mutex, own, listed, nodupW, handPc, handM, handW, hotI, nodupH, firedW, noLost, K, X, A5, cFalse, A6, fresh, x1ne, a1ne, preL, A3, A4⟩ := h
  constructor <;> try assumption
  · intro t w c tl hp
    rcases A6 t w c tl hp with h1 | h1
    · exact Or.inl h1
    · right; cases tl <;> simp_all [tillOn]

theorem inv_call {s s' : State} {t : Nat} {op : Op} (h : Inv s) (hc : call s t op = some s') : Inv s' := by
  unfold call at hc
  split at hc
  · -- enter
    rename_i r hp; cases hc; inv_open; inv_rest
  · -- exit
    rename_i r hp; cases hc; inv_open; inv_rest
  · -- set
    rename_i r i v hp; cases hc
    have hmt := (h.mutex t).mp (by simp [hp, PC.holdsM])
    inv_open
    case K => intro _; left; simp [hmt]
    case cFalse =>
      intro u c' hu
      by_cases hut : u = t
      · simp [hut, PC.waitCond] at hu
      · simp only [hut, if_false] at hu
        have := (mutex u).mp (PC.waitCond_holdsM _ _ hu)
        rw [hmt] at this; exact absurd (Option.some.inj this).symm hut
    inv_rest
  · -- wait
    rename_i r c tl hp
    split at hc
    · cases hc
    · rename_i hcf
      cases hc
      have hmt := (h.mutex t).mp (by simp [hp, PC.holdsM])
      have hfr := h.fresh s.nextW (Nat.le_refl _)
      have hown := h.own
      have hlt : ∀ u w', (s.pc u).own = some w' → w' ≠ s.nextW := fun u w' hu he => by
        have := (hown u w' hu).2; omega
      inv_open
      case own =>
        intro u w' hu
        by_cases hut : u = t
        · simp only [hut, if_true, PC.own] at hu; cases hu; simp [hut]
        · simp only [hut, if_false] at hu
          have := own u w' hu; have := hlt u w' hu; clr; grind
      case listed =>
        intro w' hw'
        have hne : w' ≠ s.nextW := fun he => hfr.1 (he ▸ hw')
        have h1 := listed w' hw'
        simp only [hne, if_false]
        by_cases hot : s.owner w' = t
        · rw [hot, hp] at h1; simp [PC.listedOwn] at h1
        · simp only [hot, if_false]; exact h1
      case handW =>
        intro w' hw'
        have hne : w' ≠ s.nextW := fun he => hfr.2.2.1 (he ▸ hw')
        have h1 := handW w' hw'
        simp only [hne, if_false]
        by_cases hot : s.owner w' = t
        · rw [hot, hp] at h1; simp [PC.parkedOn] at h1
        · simp only [hot, if_false]; exact h1
      case hotI =>
        intro w' hw'
        have hne : w' ≠ s.nextW := fun he => hfr.2.1 (he ▸ hw')
        have h1 := hotI w' hw'
        simp only [hne, if_false]
        by_cases hot : s.owner w' = t
        · rw [hot, hp] at h1; simp [PC.parkedOn] at h1
        · simp only [hot, if_false]; exact h1
      case fresh => intro w' hw'; have := fresh w' (by omega); exact this
      case K => intro _; left; simp [hmt]
      case cFalse =>
        intro u c' hu
        by_cases hut : u = t
        · simp only [hut, if_true, PC.waitCond] at hu; cases hu; simpa using hcf
        · simp only [hut, if_false] at hu; exact cFalse u c' hu
      case preL =>
        intro u w' hu
        by_cases hut : u = t
        · simp only [hut, if_true, PC.preList] at hu; cases hu
          exact ⟨hfr.2.2.2, hfr.1, hfr.2.1, hfr.2.2.1⟩
        · simp only [hut, if_false] at hu; exact preL u w' hu
      inv_rest
  · cases hc

theorem reach_inv {s : State} (h : sys.Reach s) : Inv s := by
  refine Sys.Reach.invariant sys (P := Inv) ?_ ?_ ?_ h
  · rintro s rfl; exact inv_init
  · rintro s s' hi (⟨t, op, hc⟩ | ⟨x, rfl⟩)
    · exact inv_call hi hc
    · exact inv_fireTill x hi
  · intro s s' t l hi hs; exact inv_step hi hs

end MoThreads.Monitor
