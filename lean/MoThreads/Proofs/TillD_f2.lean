import MoThreads.Proofs.TillTac
namespace MoThreads.Till
set_option maxHeartbeats 4000000

theorem stepD_f2 {s s' : State} {l : Label} (h : Inv s) (hp : s.dpc = .f2) (hs : stepD s = some (s', l)) : Inv s' := by
  unfold stepD at hs; rw [hp] at hs; simp only at hs
  cases hs
  inv_open
  all_goals dsimp only
  all_goals try assumption
  all_goals (simp only [hp] at *; pcsimpD)
  case F1 =>
    intro t d id hc
    have ht : t ≠ 0 := by intro h0; rw [h0, cz] at hc; cases hc
    have h1 := (lkt t ht).mp (by simp [hc, CPC.holds])
    have h2 := lk0.mp trivial
    rw [h2] at h1; exact absurd (Option.some.inj h1).symm ht
  all_goals fin2

end MoThreads.Till
