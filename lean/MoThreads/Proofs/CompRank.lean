/-
  M2 (Composite): a ranking function.  A cascade of go() over composites terminates: every pending action has a weight that
  covers everything its execution can push (building an OR: 15, an AND: 11; `then`: 1 + the callback; running an OrSignal's
  cleanup: 1 + its operand list; everything else 1 or 2), and the callbacks waiting on an untriggered signal are carried by
  the signal until go() moves them, with the same weights, onto the pending list of the thread that triggers it.
-/
import MoThreads.Proofs.CompLive
namespace MoThreads.Composite
open MoThreads
set_option maxHeartbeats 2000000

/-- steps the execution of a callback can still cause (given the operand lists of the OrSignal objects) -/
def wtJ (ors : Nat → OrObj) : Job → Nat
  | .orHook _ _ => 2
  | .orCleanup o => 1 + (ors o).deps.length
  | .andDone _ _ => 2
  | .andCleanup _ => 1
  | .user _ => 1

def wtA (ors : Nat → OrObj) : Act → Nat
  | .orTest1 .. => 15 | .orTest2 .. => 14 | .orNew .. => 13 | .andNew .. => 11
  | .thenJ _ j => 1 + wtJ ors j
  | .run j => wtJ ors j
  | .goS _ _ => 1 | .removeJ _ _ => 1 | .ret _ _ => 2 | .retDone => 1 | .waitS _ => 1

def sumJ (ors : Nat → OrObj) : List Job → Nat
  | [] => 0
  | j :: l => wtJ ors j + sumJ ors l

def sumA (ors : Nat → OrObj) : List Act → Nat
  | [] => 0
  | a :: l => wtA ors a + sumA ors l

/-- what the callbacks waiting on an untriggered signal will cost when it is triggered -/
def sigPot (ors : Nat → OrObj) (v : Sig) : Nat := if v.go then 0 else sumJ ors v.jobs

def rank (s : State) : Nat :=
  sumTo NT (fun t => sumA s.ors (s.todo t)) + sumTo s.nSig (fun z => sigPot s.ors (s.sigs z))

theorem sumJ_append (ors : Nat → OrObj) (a b : List Job) : sumJ ors (a ++ b) = sumJ ors a + sumJ ors b := by
  induction a with
  | nil => simp [sumJ]
  | cons x a ih => simp only [List.cons_append, sumJ, ih]; omega

theorem sumA_append (ors : Nat → OrObj) (a b : List Act) : sumA ors (a ++ b) = sumA ors a + sumA ors b := by
  induction a with
  | nil => simp [sumA]
  | cons x a ih => simp only [List.cons_append, sumA, ih]; omega

theorem sumA_run (ors : Nat → OrObj) (l : List Job) : sumA ors (l.map Act.run) = sumJ ors l := by
  induction l with
  | nil => rfl
  | cons x l ih => simp only [List.map_cons, sumA, sumJ, wtA, ih]

theorem sumJ_erase_le (ors : Nat → OrObj) (l : List Job) (j : Job) : sumJ ors (l.erase j) ≤ sumJ ors l := by
  induction l with
  | nil => simp [sumJ]
  | cons x l ih =>
    by_cases hx : x = j
    · subst hx; simp [sumJ]
    · rw [List.erase_cons_tail (by simpa using hx)]; simp only [sumJ]; omega

theorem sumA_removeJ {α : Type} (ors : Nat → OrObj) (l : List α) (f : α → Nat) (g : α → Job) :
    sumA ors (l.map fun x => Act.removeJ (f x) (g x)) = l.length := by
  induction l with
  | nil => rfl
  | cons x l ih => simp only [List.map_cons, sumA, wtA, ih, List.length_cons]; omega

/-- weights only depend on the operand lists of the OrSignal objects a job refers to -/
theorem wtJ_congr {ors ors' : Nat → OrObj} {j : Job} (h : ∀ o, j.orObj = some o → (ors' o).deps.length = (ors o).deps.length) :
    wtJ ors' j = wtJ ors j := by
  cases j <;> simp only [wtJ]
  rename_i o; rw [h o rfl]

theorem wtJ_mono {ors ors' : Nat → OrObj} (h : ∀ o, (ors' o).deps.length ≤ (ors o).deps.length) (j : Job) : wtJ ors' j ≤ wtJ ors j := by
  cases j <;> simp only [wtJ] <;> (try omega)
  rename_i o; have := h o; omega

theorem wtA_mono {ors ors' : Nat → OrObj} (h : ∀ o, (ors' o).deps.length ≤ (ors o).deps.length) (a : Act) : wtA ors' a ≤ wtA ors a := by
  cases a <;> simp only [wtA] <;> (try omega)
  · rename_i d j; have := wtJ_mono h j; omega
  · rename_i j; exact wtJ_mono h j

theorem sumJ_mono {ors ors' : Nat → OrObj} (h : ∀ o, (ors' o).deps.length ≤ (ors o).deps.length) (l : List Job) : sumJ ors' l ≤ sumJ ors l := by
  induction l with
  | nil => simp [sumJ]
  | cons x l ih => have := wtJ_mono h x; simp only [sumJ]; omega

theorem sumA_mono {ors ors' : Nat → OrObj} (h : ∀ o, (ors' o).deps.length ≤ (ors o).deps.length) (l : List Act) : sumA ors' l ≤ sumA ors l := by
  induction l with
  | nil => simp [sumA]
  | cons x l ih => have := wtA_mono h x; simp only [sumA]; omega

theorem sigPot_mono {ors ors' : Nat → OrObj} (h : ∀ o, (ors' o).deps.length ≤ (ors o).deps.length) (v : Sig) : sigPot ors' v ≤ sigPot ors v := by
  unfold sigPot; split
  · omega
  · exact sumJ_mono h _

theorem sumTo_le {n : Nat} {f g : Nat → Nat} (h : ∀ i, i < n → g i ≤ f i) : sumTo n g ≤ sumTo n f := by
  induction n with
  | zero => simp [sumTo]
  | succ n ih => have := ih (fun i hi => h i (by omega)); have := h n (by omega); simp only [sumTo]; omega

def Tsum (ors : Nat → OrObj) (todo : Nat → List Act) : Nat := sumTo NT (fun t => sumA ors (todo t))
def Ssum (ors : Nat → OrObj) (n : Nat) (sigs : Nat → Sig) : Nat := sumTo n (fun z => sigPot ors (sigs z))

theorem rank_eq (s : State) : rank s = Tsum s.ors s.todo + Ssum s.ors s.nSig s.sigs := rfl

theorem Tsum_upd (ors : Nat → OrObj) (todo : Nat → List Act) {t : Nat} (ht : t < NT) (l : List Act) :
    Tsum ors (upd todo t l) + sumA ors (todo t) = Tsum ors todo + sumA ors l := by
  unfold Tsum
  have := sumTo_update (n := NT) (f := fun u => sumA ors (todo u)) (g := fun u => sumA ors (upd todo t l u)) ht (by
    intro i hi; simp only [upd, hi, if_false])
  simp only [upd, if_true] at this ⊢
  omega

theorem Ssum_upd (ors : Nat → OrObj) (n : Nat) (sigs : Nat → Sig) {d : Nat} (hd : d < n) (v : Sig) :
    Ssum ors n (upd sigs d v) + sigPot ors (sigs d) = Ssum ors n sigs + sigPot ors v := by
  unfold Ssum
  have := sumTo_update (n := n) (f := fun u => sigPot ors (sigs u)) (g := fun u => sigPot ors (upd sigs d v u)) hd (by
    intro i hi; simp only [upd, hi, if_false])
  simp only [upd, if_true] at this ⊢
  omega

/-- a step that replaces the head of `t`'s pending list and touches nothing the weights depend on -/
theorem rank_lt_todo {s s' : State} {t : Nat} {a : Act} {rest new : List Act} (ht : t < NT) (hs : s.todo t = a :: rest)
    (hto : s'.todo = upd s.todo t (new ++ rest)) (hor : s'.ors = s.ors) (hn : s'.nSig = s.nSig) (hsg : s'.sigs = s.sigs)
    (hd : sumA s.ors new < wtA s.ors a) : rank s' < rank s := by
  rw [rank_eq, rank_eq, hto, hor, hn, hsg]
  have := Tsum_upd s.ors s.todo ht (new ++ rest)
  rw [hs, sumA_append] at this
  simp only [sumA] at this
  omega

/-- … and rewrites one signal -/
theorem rank_lt_sig {s s' : State} {t d : Nat} {v : Sig} {a : Act} {rest new : List Act} (ht : t < NT) (hs : s.todo t = a :: rest)
    (hto : s'.todo = upd s.todo t (new ++ rest)) (hor : s'.ors = s.ors) (hn : s'.nSig = s.nSig) (hdn : d < s.nSig)
    (hsg : s'.sigs = upd s.sigs d v)
    (hd : sumA s.ors new + sigPot s.ors v < wtA s.ors a + sigPot s.ors (s.sigs d)) : rank s' < rank s := by
  rw [rank_eq, rank_eq, hto, hor, hn, hsg]
  have h1 := Tsum_upd s.ors s.todo ht (new ++ rest)
  rw [hs, sumA_append] at h1
  simp only [sumA] at h1
  have h2 := Ssum_upd s.ors s.nSig s.sigs hdn v
  omega

theorem wtJ_upd_other {ors : Nat → OrObj} {o : Nat} {X : OrObj} {j : Job} (h : ∀ o', j.orObj = some o' → o' ≠ o) :
    wtJ (upd ors o X) j = wtJ ors j :=
  wtJ_congr (fun o' ho' => by simp only [upd, h o' ho', if_false])

theorem sumJ_upd_other {ors : Nat → OrObj} {o : Nat} {X : OrObj} {l : List Job} (h : ∀ j, j ∈ l → ∀ o', j.orObj = some o' → o' ≠ o) :
    sumJ (upd ors o X) l = sumJ ors l := by
  induction l with
  | nil => rfl
  | cons x l ih =>
    simp only [sumJ]
    rw [wtJ_upd_other (h x (by simp)), ih (fun j hj => h j (by simp [hj]))]

theorem wtA_upd_other {ors : Nat → OrObj} {o : Nat} {X : OrObj} {a : Act} (h : ∀ j, a.job = some j → ∀ o', j.orObj = some o' → o' ≠ o) :
    wtA (upd ors o X) a = wtA ors a := by
  cases a <;> simp only [wtA]
  · rename_i d j; rw [wtJ_upd_other (h j rfl)]
  · rename_i j; rw [wtJ_upd_other (h j rfl)]

theorem sumA_upd_other {ors : Nat → OrObj} {o : Nat} {X : OrObj} {l : List Act}
    (h : ∀ a, a ∈ l → ∀ j, a.job = some j → ∀ o', j.orObj = some o' → o' ≠ o) : sumA (upd ors o X) l = sumA ors l := by
  induction l with
  | nil => rfl
  | cons x l ih =>
    simp only [sumA]
    rw [wtA_upd_other (h x (by simp)), ih (fun a ha => h a (by simp [ha]))]

theorem Ssum_new (ors : Nat → OrObj) (n : Nat) (sigs : Nat → Sig) (v : Sig) :
    Ssum ors (n + 1) (upd sigs n v) = Ssum ors n sigs + sigPot ors v := by
  unfold Ssum
  simp only [sumTo, upd, if_true]
  congr 1
  exact sumTo_congr (fun i hi => by simp only [show ¬ i = n by omega, if_false])

theorem Tsum_congr {ors ors' : Nat → OrObj} {todo : Nat → List Act} (h : ∀ u, u < NT → sumA ors' (todo u) = sumA ors (todo u)) :
    Tsum ors' todo = Tsum ors todo := sumTo_congr h

theorem sumA_rm (ors : Nat → OrObj) (o : Nat) (l : List (Nat × Nat)) :
    sumA ors (l.map fun (d, i) => Act.removeJ d (.orHook o i)) = l.length := by
  induction l with
  | nil => rfl
  | cons x l ih => obtain ⟨d, i⟩ := x; simp only [List.map_cons, sumA, wtA, ih, List.length_cons]; omega

theorem rank_exec {s s' : State} {t : Nat} {a : Act} {rest : List Act} (h : InvL s) (ht : t < NT) (hs : s.todo t = a :: rest)
    (he : exec s t a rest = some s') : rank s' < rank s := by
  have hin : InTodos s a := ⟨t, ht, by rw [hs]; simp⟩
  have hlt : ∀ z, z ∈ a.sigs → z < s.nSig := fun z hz => h.M1 a z hin hz
  unfold exec at he
  cases a with
  | orTest1 x y w =>
    cases he
    refine rank_lt_todo (new := if (s.sigs x).go then [Act.retDone] else [Act.orTest2 x y w]) ht hs rfl rfl rfl rfl ?_
    split <;> simp [sumA, wtA]
  | orTest2 x y w =>
    cases he
    refine rank_lt_todo (new := if (s.sigs y).go then [Act.retDone] else [Act.orNew x y w]) ht hs rfl rfl rfl rfl ?_
    split <;> simp [sumA, wtA]
  | orNew x y w =>
    cases he
    have hfresh : ∀ a', InTodos s a' → ∀ j, a'.job = some j → ∀ o', j.orObj = some o' → o' ≠ s.nOr := by
      intro a' ha' j hj o' ho'; have := h.M2o a' j o' ha' hj ho'; omega
    have hfreshS : ∀ z j, j ∈ (s.sigs z).jobs → ∀ o', j.orObj = some o' → o' ≠ s.nOr := by
      intro z j hj o' ho'; have := h.M3o z j o' hj ho'; omega
    rw [rank_eq, rank_eq]
    let X : OrObj := { deps := [x, y], target := s.nSig, deps0 := [x, y] }
    let new : List Act := [Act.thenJ x (.orHook s.nOr 0), Act.thenJ y (.orHook s.nOr 1), Act.thenJ s.nSig (.orCleanup s.nOr), Act.ret s.nSig w]
    show Tsum (upd s.ors s.nOr X) (upd s.todo t (new ++ rest)) + Ssum (upd s.ors s.nOr X) (s.nSig + 1) (upd s.sigs s.nSig (freshSig (.orOut s.nOr))) < _
    have h1 := Tsum_upd (upd s.ors s.nOr X) s.todo ht (new ++ rest)
    have h2 : Tsum (upd s.ors s.nOr X) s.todo = Tsum s.ors s.todo :=
      Tsum_congr (fun u hu => sumA_upd_other (fun a' ha' => hfresh a' ⟨u, hu, ha'⟩))
    have h3 : sumA (upd s.ors s.nOr X) (s.todo t) = sumA s.ors (s.todo t) :=
      sumA_upd_other (fun a' ha' => hfresh a' ⟨t, ht, ha'⟩)
    have h4 : sumA (upd s.ors s.nOr X) rest = sumA s.ors rest :=
      sumA_upd_other (fun a' ha' => hfresh a' ⟨t, ht, by rw [hs]; simp [ha']⟩)
    have h5 : sumA (upd s.ors s.nOr X) new = 12 := by
      simp only [new, sumA, wtA, wtJ, upd, if_true, X, List.length_cons, List.length_nil]
    rw [sumA_append, h2, h3, h4, h5, hs] at h1
    simp only [sumA, wtA] at h1
    rw [Ssum_new]
    have h6 : Ssum (upd s.ors s.nOr X) s.nSig s.sigs = Ssum s.ors s.nSig s.sigs := by
      unfold Ssum
      refine sumTo_congr (fun z _ => ?_)
      unfold sigPot; split
      · rfl
      · exact sumJ_upd_other (fun j hj => hfreshS z j hj)
    rw [h6]
    simp only [sigPot, freshSig, sumJ, Bool.false_eq_true, if_false]
    omega
  | andNew x y =>
    cases he
    rw [rank_eq, rank_eq]
    show Tsum s.ors (upd s.todo t ([Act.thenJ x (.andDone s.nAnd 0), Act.thenJ y (.andDone s.nAnd 1), Act.thenJ s.nSig (.andCleanup s.nAnd), Act.ret s.nSig false] ++ rest))
        + Ssum s.ors (s.nSig + 1) (upd s.sigs s.nSig (freshSig (.andOut s.nAnd))) < _
    have h1 := Tsum_upd s.ors s.todo ht ([Act.thenJ x (.andDone s.nAnd 0), Act.thenJ y (.andDone s.nAnd 1), Act.thenJ s.nSig (.andCleanup s.nAnd), Act.ret s.nSig false] ++ rest)
    rw [hs, sumA_append] at h1
    simp only [sumA, wtA, wtJ] at h1
    rw [Ssum_new]
    simp only [sigPot, freshSig, sumJ, Bool.false_eq_true, if_false]
    omega
  | thenJ d j =>
    simp only at he
    split at he
    · cases he
      refine rank_lt_todo (new := [Act.run j]) ht hs rfl rfl rfl rfl ?_
      simp [sumA, wtA]
    · rename_i hgo
      cases he
      refine rank_lt_sig (new := []) (d := d) ht hs rfl rfl rfl (hlt d (by simp [Act.sigs])) rfl ?_
      simp only [sumA, wtA, sigPot, hgo, Bool.false_eq_true, if_false, sumJ_append, sumJ]
      omega
  | run j =>
    cases j with
    | orHook o i =>
      cases he
      refine rank_lt_todo (new := if (s.sigs (s.ors o).target).alive then [Act.goS (s.ors o).target false] else []) ht hs rfl rfl rfl rfl ?_
      split <;> simp [sumA, wtA, wtJ]
    | orCleanup o =>
      cases he
      let X : OrObj := { s.ors o with deps := [] }
      have hle : ∀ o', ((upd s.ors o X) o').deps.length ≤ (s.ors o').deps.length := by
        intro o'; simp only [upd]; split
        · simp [X]
        · exact Nat.le_refl _
      let new : List Act := (s.ors o).deps.zipIdx.map fun (d, i) => Act.removeJ d (.orHook o i)
      rw [rank_eq, rank_eq]
      show Tsum (upd s.ors o X) (upd s.todo t (new ++ rest)) + Ssum (upd s.ors o X) s.nSig s.sigs < _
      have h1 : Tsum (upd s.ors o X) (upd s.todo t (new ++ rest)) ≤ Tsum s.ors (upd s.todo t (new ++ rest)) :=
        sumTo_le (fun u _ => sumA_mono hle _)
      have h2 : Ssum (upd s.ors o X) s.nSig s.sigs ≤ Ssum s.ors s.nSig s.sigs :=
        sumTo_le (fun z _ => sigPot_mono hle _)
      have h3 := Tsum_upd s.ors s.todo ht (new ++ rest)
      rw [hs, sumA_append] at h3
      have h4 : sumA s.ors new = (s.ors o).deps.length := by
        simp only [new]; rw [sumA_rm]; simp
      simp only [sumA, wtA, wtJ, h4] at h3
      omega
    | andDone n i =>
      cases he
      refine rank_lt_todo (new := if (s.ands n).remaining - 1 = 0 then [Act.goS (s.ands n).target false] else []) ht hs rfl rfl rfl rfl ?_
      split <;> simp [sumA, wtA, wtJ]
    | andCleanup n =>
      cases he
      refine rank_lt_todo (new := []) ht hs rfl rfl rfl rfl ?_
      simp [sumA, wtA, wtJ]
    | user k =>
      cases he
      refine rank_lt_todo (new := []) ht hs rfl rfl rfl rfl ?_
      simp [sumA, wtA, wtJ]
  | goS x direct =>
    simp only at he
    split at he
    · cases he
      refine rank_lt_todo (new := []) ht hs rfl rfl rfl rfl ?_
      simp [sumA, wtA]
    · rename_i hgo
      cases he
      have hg : (s.sigs x).go = false := by
        cases hh : (s.sigs x).go
        · rfl
        · rw [hh] at hgo; simp at hgo
      refine rank_lt_sig (new := (s.sigs x).jobs.map Act.run) (d := x) ht hs rfl rfl rfl (hlt x (by simp [Act.sigs])) rfl ?_
      simp only [sumA_run, wtA, sigPot, hg, Bool.false_eq_true, if_false, if_true]
      omega
  | removeJ d j =>
    simp only at he
    split at he
    · cases he
      refine rank_lt_todo (new := []) ht hs rfl rfl rfl rfl ?_
      simp [sumA, wtA]
    · rename_i hgo
      cases he
      refine rank_lt_sig (new := []) (d := d) ht hs rfl rfl rfl (hlt d (by simp [Act.sigs])) rfl ?_
      have := sumJ_erase_le s.ors (s.sigs d).jobs j
      simp only [sumA, wtA, sigPot, hgo, Bool.false_eq_true, if_false]
      omega
  | ret c w =>
    simp only at he
    split at he
    · cases he
      refine rank_lt_todo (new := [Act.waitS c]) ht hs rfl rfl rfl rfl ?_
      simp [sumA, wtA]
    · cases he
      refine rank_lt_sig (new := []) (d := c) ht hs rfl rfl rfl (hlt c (by simp [Act.sigs])) rfl ?_
      simp only [sumA, wtA, sigPot]
      omega
  | retDone =>
    cases he
    refine rank_lt_todo (new := []) ht hs rfl rfl rfl rfl ?_
    simp [sumA, wtA]
  | waitS c =>
    simp only at he
    split at he
    · cases he
      refine rank_lt_todo (new := []) ht hs rfl rfl rfl rfl ?_
      simp [sumA, wtA]
    · cases he

theorem rank_step {s s' : State} {t : Nat} {l : Label} (h : InvL s) (hs : step s t = some (s', l)) : rank s' < rank s := by
  unfold step at hs
  split at hs
  · rename_i ht
    cases htd : s.todo t with
    | nil => rw [htd] at hs; cases hs
    | cons a rest =>
      rw [htd] at hs
      simp only at hs
      cases he : exec s t a rest with
      | none => rw [he] at hs; cases hs
      | some s1 =>
        rw [he] at hs
        simp only [Option.map_some, Option.some.injEq, Prod.mk.injEq] at hs
        obtain ⟨rfl, _⟩ := hs
        exact rank_exec h ht htd he
  · cases hs

/-- every run without new operations, timers firing or collections takes at most `rank s` steps -/
theorem run_length_le_rank {s s' : State} {tr : List (Nat × Label)} (h : InvL s) (r : sys.Run s tr s') :
    tr.length + rank s' ≤ rank s :=
  Sys.Run.length_le_rank_inv sys rank InvL (fun _ _ _ _ hP hs => invL_step hP hs) (fun _ _ _ _ hP hs => rank_step hP hs) r h

/-- where nobody can move, a thread is done or parked in `wait()` on a signal that is still false -/
theorem quiescent_todo {s : State} (hq : sys.Quiescent s) (t : Nat) (ht : t < NT) :
    s.todo t = [] ∨ ∃ c rest, s.todo t = .waitS c :: rest ∧ (s.sigs c).go = false := by
  have hs : step s t = none := hq t
  unfold step at hs
  simp only [ht, if_true] at hs
  cases htd : s.todo t with
  | nil => exact Or.inl rfl
  | cons a rest =>
    right
    rw [htd] at hs
    simp only [Option.map_eq_none_iff] at hs
    unfold exec at hs
    cases a with
    | waitS c =>
      simp only at hs
      cases hg : (s.sigs c).go with
      | false => exact ⟨c, rest, rfl, hg⟩
      | true => rw [hg] at hs; simp at hs
    | thenJ d j => simp only at hs; split at hs <;> cases hs
    | goS x d => simp only at hs; split at hs <;> cases hs
    | removeJ d j => simp only at hs; split at hs <;> cases hs
    | ret c w => simp only at hs; split at hs <;> cases hs
    | run j => cases j <;> cases hs
    | _ => cases hs

end MoThreads.Composite
