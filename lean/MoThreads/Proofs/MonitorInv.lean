/-
  Inductive invariant of M3 (Monitor): definitions and small lemmas.
-/
import MoThreads.Model.Monitor
namespace MoThreads.Monitor

/-- pcs at which the thread holds `Lock.lock` -/
def PC.holdsM : PC → Bool
  | .inside _ | .x0 | .x1 | .x2 _ | .x3 => true
  | .a0 _ _ _ | .a1 _ _ _ | .a2 _ _ _ _ | .a3 _ _ _ | .a4 _ _ _ | .a5 _ _ _ | .a6 _ _ _ => true
  | _ => false

/-- the thread's own waiter while inside wait() -/
def PC.own : PC → Option Nat
  | .a0 w _ _ | .a1 w _ _ | .a2 w _ _ _ | .a3 w _ _ | .a4 w _ _ | .a5 w _ _ | .parked w _ _ | .a6 w _ _ => some w
  | _ => none

/-- own waiter has been put on the list and not yet removed by the owner -/
def PC.listedOwn : PC → Option Nat
  | .a5 w _ _ | .parked w _ _ | .a6 w _ _ => some w
  | _ => none

/-- released the lock inside wait() (or about to) and not yet re-acquired -/
def PC.sleepOn : PC → Option Nat
  | .a5 w _ _ | .parked w _ _ => some w
  | _ => none

/-- own waiter allocated but not yet put on the list -/
def PC.preList : PC → Option Nat
  | .a0 w _ _ | .a1 w _ _ | .a2 w _ _ _ | .a3 w _ _ | .a4 w _ _ => some w
  | _ => none

def PC.parkedOn : PC → Option Nat
  | .parked w _ _ => some w
  | _ => none

/-- the waiter this thread has popped and is about to fire -/
def PC.hand : PC → Option Nat
  | .x2 w => some w
  | .a2 _ _ _ o => some o
  | _ => none

/-- declared condition while between the call of wait() and the release inside it -/
def PC.waitCond : PC → Option Cond
  | .a0 _ c _ | .a1 _ c _ | .a2 _ c _ _ | .a3 _ c _ | .a4 _ c _ | .a5 _ c _ => some c
  | _ => none

theorem pop_split {l : List Nat} {w : Nat} (h : l.getLast? = some w) : l = l.dropLast ++ [w] := by
  have hne : l ≠ [] := by intro hn; simp [hn] at h
  have h2 := List.dropLast_concat_getLast hne
  have h3 : l.getLast hne = w := by
    have := List.getLast?_eq_some_getLast hne
    rw [this] at h; exact Option.some.inj h
  rw [h3] at h2; exact h2.symm

theorem PC.hand_holdsM (p : PC) (w : Nat) (h : p.hand = some w) : p.holdsM = true := by
  cases p <;> simp_all [PC.hand, PC.holdsM]

theorem PC.waitCond_holdsM (p : PC) (c : Cond) (h : p.waitCond = some c) : p.holdsM = true := by
  cases p <;> simp_all [PC.waitCond, PC.holdsM]

/-- every parked thread whose waiter is still listed has a false condition -/
def AllCondsFalse (s : State) : Prop :=
  ∀ t w c tl, s.pc t = .parked w c tl → w ∈ s.waiting → c.holds s.σ = false

structure Inv (s : State) : Prop where
  mutex  : ∀ t, (s.pc t).holdsM = true ↔ s.mutex = some t
  own    : ∀ t w, (s.pc t).own = some w → s.owner w = t ∧ w < s.nextW
  listed : ∀ w, w ∈ s.waiting → (s.pc (s.owner w)).listedOwn = some w
  nodupW : s.waiting.Nodup
  handPc : ∀ t w, (s.pc t).hand = some w → s.hand = some w
  handM  : ∀ w, s.hand = some w → ∃ t, s.mutex = some t ∧ (s.pc t).hand = some w
  handW  : ∀ w, s.hand = some w → w ∉ s.waiting ∧ s.fired w = false ∧ (s.pc (s.owner w)).parkedOn = some w ∧ w ∉ s.hot
  hotI   : ∀ w, w ∈ s.hot → s.fired w = true ∧ (s.pc (s.owner w)).parkedOn = some w
  nodupH : s.hot.Nodup
  firedW : ∀ w, s.fired w = true → w ∉ s.waiting
  noLost : ∀ t w, (s.pc t).sleepOn = some w → w ∈ s.waiting ∨ w ∈ s.hot ∨ s.hand = some w
  K      : s.waiting ≠ [] → s.mutex ≠ none ∨ s.hot ≠ [] ∨ AllCondsFalse s
  X      : ∀ t, s.pc t = .x3 → s.waiting = [] ∨ s.hot ≠ []
  A5     : ∀ t w c tl, s.pc t = .a5 w c tl → s.hot ≠ [] ∨ s.waiting = [w]
  cFalse : ∀ t c, (s.pc t).waitCond = some c → c.holds s.σ = false
  A6     : ∀ t w c tl, s.pc t = .a6 w c tl → s.fired w = true ∨ tillOn s tl = true
  fresh  : ∀ w, s.nextW ≤ w → w ∉ s.waiting ∧ w ∉ s.hot ∧ s.hand ≠ some w ∧ s.fired w = false
  x1ne   : ∀ t, s.pc t = .x1 → s.waiting ≠ []
  a1ne   : ∀ t w c tl, s.pc t = .a1 w c tl → s.waiting ≠ []
  preL   : ∀ t w, (s.pc t).preList = some w → s.fired w = false ∧ w ∉ s.waiting ∧ w ∉ s.hot ∧ s.hand ≠ some w
  A3     : ∀ t w c tl, s.pc t = .a3 w c tl → s.hot ≠ []
  A4     : ∀ t w c tl, s.pc t = .a4 w c tl → s.waiting = []

end MoThreads.Monitor
