import MoThreads.Proofs.QueueA
import MoThreads.Proofs.QueueB
import MoThreads.Proofs.QueueC
namespace MoThreads.Queue
set_option maxHeartbeats 2000000

theorem inv_step {s s' : State} {t : Nat} {l : Label} (h : Inv s) (hs : step s t = some (s', l)) : Inv s' := by
  cases hp : s.pc t with
  | idle r => unfold step at hs; rw [hp] at hs; cases hs
  | sAcq a tl f => exact step_sAcq h hp hs
  | sC a tl => exact step_sC h hp hs
  | sLen a tl => exact step_sLen h hp hs
  | sTill a x => exact step_sTill h hp hs
  | sPark a tl => exact step_sPark h hp hs
  | sRel2 a tl => exact step_sRel2 h hp hs
  | sParked a tl => exact step_sParked h hp hs
  | sWoke a tl => exact step_sWoke h hp hs
  | sAlertT a x => exact step_sAlertT h hp hs
  | sAlertLen a tl => exact step_sAlertLen h hp hs
  | sAlertNum a tl => exact step_sAlertNum h hp hs
  | sPost a => exact step_sPost h hp hs
  | sAct a b => exact step_sAct h hp hs
  | sRel r => exact step_sRel h hp hs
  | pAcq tl => exact step_pAcq h hp hs
  | pLen tl => exact step_pLen h hp hs
  | pPop => exact step_pPop h hp hs
  | pC tl => exact step_pC h hp hs
  | pPark tl => exact step_pPark h hp hs
  | pRel2 tl => exact step_pRel2 h hp hs
  | pParked tl => exact step_pParked h hp hs
  | pWoke tl => exact step_pWoke h hp hs
  | pT tl => exact step_pT h hp hs
  | oAcq => exact step_oAcq h hp hs
  | oC => exact step_oC h hp hs
  | oLen => exact step_oLen h hp hs
  | oPop => exact step_oPop h hp hs
  | lAcq => exact step_lAcq h hp hs
  | lLen => exact step_lLen h hp hs
  | lClear => exact step_lClear h hp hs
  | nAcq => exact step_nAcq h hp hs
  | nLen => exact step_nLen h hp hs
  | cClose => exact step_cClose h hp hs
  | kAcq => exact step_kAcq h hp hs
  | kClose => exact step_kClose h hp hs

theorem inv_call {s s' : State} {t : Nat} {op : Op} (h : Inv s) (hc : call s t op = some s') : Inv s' := by
  unfold call at hc
  split at hc
  · rename_i r hp
    cases op <;> (cases hc; inv_open; inv_rest)
  · cases hc

theorem inv_fireTill {s : State} (x : Nat) (h : Inv s) : Inv (fireTill s x) := by
  unfold fireTill
  obtain ⟨mutex, room, popNe, woke, tout, fifo, cnt⟩ := h
  constructor <;> try assumption
  · intro t tl hu
    rcases woke t tl hu with h1 | h1 | h1
    · exact Or.inl h1
    · exact Or.inr (Or.inl h1)
    · right; right; cases tl <;> simp_all [tillOn]
  · intro t tl hu
    rcases tout t tl hu with h1 | h1
    · exact Or.inl h1
    · right; cases tl <;> simp_all [tillOn]

theorem inv_signal {s : State} (u : Nat) (h : Inv s) : Inv (signal s u) := by
  unfold signal
  obtain ⟨mutex, room, popNe, woke, tout, fifo, cnt⟩ := h
  constructor <;> try assumption
  · intro t tl hu
    rcases woke t tl hu with h1 | h1 | h1
    · left; simp only; split <;> simp_all
    · exact Or.inr (Or.inl h1)
    · exact Or.inr (Or.inr h1)

theorem inv_stall {s : State} (u : Nat) (h : Inv s) : Inv (stall s u) := by
  unfold stall
  obtain ⟨mutex, room, popNe, woke, tout, fifo, cnt⟩ := h
  constructor <;> assumption

theorem inv_envClose {s : State} (h : Inv s) : Inv (envClose s) := by
  unfold envClose
  obtain ⟨mutex, room, popNe, woke, tout, fifo, cnt⟩ := h
  constructor <;> try assumption
  · intro t _; exact Or.inl rfl
  · intro t tl _; exact Or.inr (Or.inl rfl)
  · intro t tl _; exact Or.inl rfl

theorem reach_inv {s : State} (h : sys.Reach s) : Inv s := by
  refine Sys.Reach.invariant sys (P := Inv) ?_ ?_ ?_ h
  · rintro s ⟨m, a, sl, d, rfl⟩; exact inv_init m a sl d
  · rintro s s' hi (⟨t, op, hc⟩ | ⟨x, rfl⟩ | ⟨t, rfl⟩ | ⟨t, rfl⟩ | rfl)
    · exact inv_call hi hc
    · exact inv_fireTill x hi
    · exact inv_signal t hi
    · exact inv_stall t hi
    · exact inv_envClose hi
  · intro s s' t l hi hs; exact inv_step hi hs

end MoThreads.Queue
