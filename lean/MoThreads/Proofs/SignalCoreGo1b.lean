import MoThreads.Proofs.SignalCoreTac
namespace MoThreads.SignalCore
set_option maxHeartbeats 2000000

theorem step_g6 {s s' : State} {t : Nat} {l : Label} {js : List Nat} (h : Inv s) (hp : s.pc t = .g6 js)
    (hs : step s t = some (s', l)) : Inv s' := by
  step_open; inv_open
  case snapJ =>
    intro u js'; have := snapJ u js'; have := win u; have := win t; grind [PC.isWinner]
  case ranGo =>
    intro k; have := ranGo k; have := sawGo t; grind [Loc.hasRun, PC.sawGo]
  inv_rest

theorem step_g7 {s s' : State} {t : Nat} {l : Label} {js : List Nat} (h : Inv s) (hp : s.pc t = .g7 js)
    (hs : step s t = some (s', l)) : Inv s' := by
  step_case

theorem step_g8 {s s' : State} {t : Nat} {l : Label} {js : List Nat} {ws : List Nat} (h : Inv s) (hp : s.pc t = .g8 js ws)
    (hs : step s t = some (s', l)) : Inv s' := by
  step_open
  rcases afterStoppers_cases js ws with ⟨h1, h2, h3⟩ | ⟨h1, h2, h3⟩ | ⟨h1, h3⟩ <;> rw [h3] <;> inv_open
  all_goals (try (case snapW =>
    intro u js' ws'; have := snapW u js' ws'; have := win u; have := win t; grind [PC.isWinner]))
  all_goals (try (case noLost =>
    intro u y; have := noLost u y; have := win t; have := snapW t js ws hp
    rcases hw : s.winner with _ | g <;> simp only [hw] at * <;>
      grind [PC.isWinner, PC.pendingS, lst]))
  all_goals inv_rest

end MoThreads.SignalCore
