/-
  M3 (Monitor): every Lock operation is a bounded number of its own steps, so every run without new API
  calls (and without new timeouts) is finite: rank = Σ remaining steps of the calls in progress.
-/
import MoThreads.Model.Monitor
namespace MoThreads.Monitor
open MoThreads

def rk : PC → Nat
  | .idle _ => 0 | .inside _ => 0
  | .e0 => 1
  | .x0 => 4 | .x1 => 3 | .x2 _ => 2 | .x3 => 1
  | .a0 .. => 7 | .a1 .. => 6 | .a2 .. => 5 | .a3 .. => 4 | .a4 .. => 4 | .a5 .. => 3 | .parked .. => 2 | .a6 .. => 1

def rank (N : Nat) (s : State) : Nat := sumTo N (fun t => rk (s.pc t))

def Below (N : Nat) (s : State) : Prop := ∀ t, N ≤ t → rk (s.pc t) = 0

theorem rank_lt_of (N : Nat) (s s' : State) (t : Nat) (p' : PC) (hpc : ∀ u, s'.pc u = if u = t then p' else s.pc u)
    (ht : t < N) (hdec : rk p' < rk (s.pc t)) : rank N s' < rank N s := by
  unfold rank
  have h := sumTo_update (n := N) (t := t) (f := fun u => rk (s.pc u)) (g := fun u => rk (s'.pc u)) ht
    (by intro i hi; show rk (s.pc i) = rk (s'.pc i); rw [hpc i, if_neg hi])
  have h2 : rk (s'.pc t) = rk p' := by rw [hpc t, if_pos rfl]
  omega

set_option hygiene false in
macro "rk_close" : tactic => `(tactic| (
  refine rank_lt_of N _ _ t _ (fun u => rfl) ht ?_
  (try simp only [hp, apply_ite rk])
  (try simp only [rk])
  (try split) <;> (try simp only [rk]) <;> omega))

theorem rank_step {N : Nat} {s s' : State} {t : Nat} {l : Label} (ht : t < N) (hs : step s t = some (s', l)) :
    rank N s' < rank N s := by
  unfold step at hs
  cases hp : s.pc t with
  | idle r => rw [hp] at hs; cases hs
  | inside r => rw [hp] at hs; cases hs
  | e0 => rw [hp] at hs; simp only at hs; split at hs <;> (try (cases hs; done)); cases hs; rk_close
  | x1 =>
    rw [hp] at hs; simp only at hs
    cases hg : s.waiting.getLast? with
    | none => rw [hg] at hs; cases hs
    | some w => rw [hg] at hs; cases hs; rk_close
  | a1 w c tl =>
    rw [hp] at hs; simp only at hs
    cases hg : s.waiting.getLast? with
    | none => rw [hg] at hs; cases hs
    | some o => rw [hg] at hs; cases hs; rk_close
  | parked w c tl => rw [hp] at hs; simp only at hs; split at hs <;> (try (cases hs; done)); cases hs; rk_close
  | _ => rw [hp] at hs; cases hs; rk_close

theorem step_pc_other {s s' : State} {t : Nat} {l : Label} (hs : step s t = some (s', l)) (u : Nat) (hu : u ≠ t) : s'.pc u = s.pc u := by
  unfold step at hs
  cases hp : s.pc t <;> rw [hp] at hs <;> simp only at hs <;> (try split at hs) <;> (try (cases hs; done)) <;>
    (cases hs; simp [State.setPc, hu])

theorem step_rk_pos {s s' : State} {t : Nat} {l : Label} (hs : step s t = some (s', l)) : rk (s.pc t) ≠ 0 := by
  unfold step at hs
  cases hp : s.pc t <;> rw [hp] at hs <;> simp [rk] at hs ⊢

theorem run_length_le_rank {N : Nat} {s s' : State} {tr : List (Nat × Label)} (hb : Below N s) (r : sys.Run s tr s') :
    tr.length + rank N s' ≤ rank N s :=
  Sys.Run.length_le_rank_inv sys (rank N) (Below N)
    (fun s s' t l hP hs u hu => by
      by_cases hut : u = t
      · subst hut; exact absurd (hP u hu) (step_rk_pos hs)
      · rw [step_pc_other hs u hut]; exact hP u hu)
    (fun s s' t l hP hs => by
      have ht : t < N := by
        rcases Nat.lt_or_ge t N with h | h
        · exact h
        · exact absurd (hP t h) (step_rk_pos hs)
      exact rank_step ht hs) r hb

end MoThreads.Monitor
