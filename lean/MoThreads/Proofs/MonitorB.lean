import MoThreads.Proofs.MonitorA
namespace MoThreads.Monitor
set_option maxHeartbeats 2000000

theorem step_a1 {s s' : State} {t : Nat} {l : Label} {w : Nat} {c : Cond} {tl : Option Nat} (h : Inv s) (hp : s.pc t = .a1 w c tl)
    (hs : step s t = some (s', l)) : Inv s' := by
  step_at hp hs
  cases hg : s.waiting.getLast? with
  | none => rw [hg] at hs; cases hs
  | some o =>
    rw [hg] at hs; cases hs
    have hsp := pop_split hg
    generalize hd : s.waiting.dropLast = d at hsp ⊢
    have hmt := (h.mutex t).mp (by simp [hp, PC.holdsM])
    have hmem : ∀ x, x ∈ s.waiting ↔ (x ∈ d ∨ x = o) := by intro x; rw [hsp]; simp
    have hnd := h.nodupW
    rw [hsp] at hnd
    have hod : o ∉ d := by
      intro hh; have := List.nodup_append.mp hnd; exact this.2.2 o hh o (by simp) rfl
    have hdn : d.Nodup := (List.nodup_append.mp hnd).1
    have hli := h.listed o ((hmem o).mpr (Or.inr rfl))
    have hnf : s.fired o = false := by
      cases hf : s.fired o with
      | false => rfl
      | true => exact absurd ((hmem o).mpr (Or.inr rfl)) (h.firedW o hf)
    have hnh : o ∉ s.hot := fun hh => by have := (h.hotI o hh).1; simp [hnf] at this
    have hpk : (s.pc (s.owner o)).parkedOn = some o := by
      rcases listedOwn_cases _ _ hli with h1 | h1
      · exact h1
      · have := (h.mutex (s.owner o)).mp h1
        rw [hmt] at this; have := Option.some.inj this
        rw [← this, hp] at hli; simp [PC.listedOwn] at hli
    have hot : s.owner o ≠ t := by intro he; rw [he, hp] at hpk; simp [PC.parkedOn] at hpk
    have hfr := h.fresh o
    have hownt := h.own t
    have hhn : s.hand = none := by
      cases hh : s.hand with
      | none => rfl
      | some w' =>
        obtain ⟨u, hu1, hu2⟩ := h.handM w' hh
        have : u = t := by rw [hmt] at hu1; exact (Option.some.inj hu1).symm
        subst this; simp [hp, PC.hand] at hu2
    clear hg hd hnd hsp
    inv_open
    case listed => intro w' hw'; have := listed w'; have := hmem w'; grind [PC.listedOwn, PC.own]
    case own =>
      intro u w' hu
      by_cases hut : u = t
      · simp only [hut, if_true, PC.own] at hu
        have := hownt w (by simp [hp, PC.own]); grind
      · simp only [hut, if_false] at hu; exact own u w' hu
    case mutex =>
      intro u
      by_cases hut : u = t
      · simp [hut, PC.holdsM, hmt]
      · simp only [hut, if_false]; exact mutex u
    case nodupW => exact hdn
    case handPc =>
      intro u w' hu
      by_cases hut : u = t
      · simp only [hut, if_true, PC.hand] at hu; exact hu
      · simp only [hut, if_false] at hu; have := handPc u w' hu; simp [hhn] at this
    case handW =>
      intro w' hw'
      have hwo : w' = o := by grind
      rw [hwo]; simp only [hot, if_false]; exact ⟨hod, hnf, hpk, hnh⟩
    case firedW => intro w' hw'; have := firedW w'; have := hmem w'; grind
    case noLost => intro u w'; have := noLost u w'; have := hmem w'; grind [PC.sleepOn]
    case A5 =>
      intro u w' c' tl' hu
      by_cases hut : u = t
      · simp [hut] at hu
      · simp only [hut, if_false] at hu
        have := (mutex u).mp (by simp [hu, PC.holdsM]); grind
    case fresh => intro w' hw'; have := fresh w'; have := hmem w'; grind
    case a1ne =>
      intro u w' c' tl' hu
      by_cases hut : u = t
      · simp [hut] at hu
      · simp only [hut, if_false] at hu
        have := (mutex u).mp (by simp [hu, PC.holdsM]); grind
    case K => intro hne; have := mutex t; grind [PC.holdsM]
    case X => intro u hu; have := mutex u; grind [PC.holdsM]
    case x1ne => intro u hu; have := mutex u; grind [PC.holdsM]
    inv_rest

theorem step_a2 {s s' : State} {t : Nat} {l : Label} {w : Nat} {c : Cond} {tl : Option Nat} {o : Nat} (h : Inv s) (hp : s.pc t = .a2 w c tl o)
    (hs : step s t = some (s', l)) : Inv s' := by
  step_open
  have hh := h.handPc t o (by simp [hp, PC.hand])
  obtain ⟨hw1, hw2, hw3, hw4⟩ := h.handW o hh
  have hfr := h.fresh o
  simp only [hw2]
  inv_open
  case handPc => intro u w'; have := handPc u w'; have := PC.hand_holdsM (s.pc u) w'; have := mutex u; have := mutex t; grind [PC.hand, PC.holdsM]
  case hotI => intro w' hw'; have := hotI w'; grind [PC.parkedOn]
  case firedW => intro w' hw'; have := firedW w'; grind
  case noLost => intro u w'; have := noLost u w'; grind [PC.sleepOn]
  case X => grind
  case fresh => intro w' hw'; have := fresh w'; grind
  inv_rest

end MoThreads.Monitor
