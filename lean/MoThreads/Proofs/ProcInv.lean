/-
  Inductive invariant of M8 (Model/ProcessIO.lean).
-/
import MoThreads.Model.ProcessIO
namespace MoThreads.ProcessIO
set_option maxHeartbeats 1000000

/-- the line a reader has taken from its pipe and not yet put into its queue -/
def RPC.hand : RPC → List Nat
  | .add x => [x]
  | _ => []

/-- the reader has left its loop -/
def RPC.finished : RPC → Bool
  | .fin1 | .fin2 | .exiting | .done => true
  | _ => false

def RPC.closedQ : RPC → Bool
  | .exiting | .done => true
  | _ => false

/-- the monitor has left its loop -/
def MPC.left : MPC → Bool
  | .test | .idle | .wait | .chk => false
  | _ => true

def MPC.pastPost : MPC → Bool
  | .join0 | .join1 | .setStopped | .done => true
  | _ => false

def MPC.pastJoins : MPC → Bool
  | .setStopped | .done => true
  | _ => false

def UPC.afterStopped : UPC → Bool
  | .idle | .jwait => false
  | _ => true

/-- somebody asked the process to stop, or the child has ended -/
def Ending (s : State) : Prop := s.userStop = true ∨ s.exited.isSome = true

structure Inv (s : State) : Prop where
  I1  : ∀ k, s.abandoned k = false → s.q k ++ (s.rpc k).hand ++ s.buf k = s.written k
  I2  : ∀ k, s.written k ++ linesOf k s.script = linesOf k s.script0
  I3  : ∀ st, s.exited = some st → (s.killed = true ∧ st = KILLED) ∨ (s.killed = false ∧ st = s.status ∧ s.script = [])
  I3n : s.exited = none → s.killed = false
  I4  : ∀ k, (s.rpc k).finished = true → s.abandoned k = false → s.exited.isSome = true ∧ s.buf k = []
  I5  : ∀ k, s.closed k = true → s.abandoned k = true ∨ (s.rpc k).closedQ = true
  I5c : ∀ k, (s.rpc k).closedQ = true → s.closed k = true
  I6  : ∀ st, s.rc = some st → s.exited = some st
  I7a : s.mpc = .join1 → s.rpc 0 = .done ∨ s.abandoned 0 = true
  I7b : s.mpc.pastJoins = true → ∀ k, k < 2 → s.rpc k = .done ∨ s.abandoned k = true
  I8  : s.stopped = true ↔ s.mpc = .done
  E1  : s.mpc.left = true → Ending s
  E2  : ∀ k, (s.rpc k).finished = true → Ending s
  E3  : s.pstop = true → Ending s
  E4  : ∀ k, s.abandoned k = true → Ending s
  N   : s.mpc.pastPost = true → s.rc = none → s.userStop = true
  St  : s.status < 256
  U1  : s.upc.afterStopped = true → s.stopped = true
  U2  : s.upc = .jchk2 → s.rc.isSome = true
  U3  : s.upc = .returned → s.rc = some 0
  U4  : s.upc = .raisedFail → ∃ st, s.rc = some st ∧ st ≠ 0
  U5  : s.upc = .raisedTimeout → s.userStop = true ∧ s.exited.isSome = true

theorem inv_init (sc : List (Nat × Nat)) (st : Nat) (h : st < 256) : Inv (init sc st) := by
  constructor <;> simp [init, RPC.hand, RPC.finished, RPC.closedQ, MPC.left, MPC.pastPost, MPC.pastJoins, UPC.afterStopped, h]

theorem ending_mono {s s' : State} (h : Ending s) (hu : s.userStop = true → s'.userStop = true)
    (he : s.exited.isSome = true → s'.exited.isSome = true) : Ending s' := by
  rcases h with h | h
  · exact Or.inl (hu h)
  · exact Or.inr (he h)

theorem linesOf_cons_same (k x : Nat) (r : List (Nat × Nat)) : linesOf k ((k, x) :: r) = x :: linesOf k r := by simp [linesOf]
theorem linesOf_cons_other {j k : Nat} (x : Nat) (r : List (Nat × Nat)) (h : ¬ k = j) : linesOf j ((k, x) :: r) = linesOf j r := by simp [linesOf, h]

end MoThreads.ProcessIO
