import MoThreads.Proofs.SignalCoreTac
namespace MoThreads.SignalCore
set_option maxHeartbeats 2000000

theorem step_t1 {s s' : State} {t : Nat} {l : Label} {k : Nat} (h : Inv s) (hp : s.pc t = .t1 k)
    (hs : step s t = some (s', l)) : Inv s' := by
  step_case

theorem step_t2 {s s' : State} {t : Nat} {l : Label} {k : Nat} (h : Inv s) (hp : s.pc t = .t2 k)
    (hs : step s t = some (s', l)) : Inv s' := by
  step_case

theorem step_t3 {s s' : State} {t : Nat} {l : Label} {k : Nat} (h : Inv s) (hp : s.pc t = .t3 k)
    (hs : step s t = some (s', l)) : Inv s' := by
  step_case

theorem step_t5 {s s' : State} {t : Nat} {l : Label} {k : Nat} (h : Inv s) (hp : s.pc t = .t5 k)
    (hs : step s t = some (s', l)) : Inv s' := by
  step_case

theorem step_t6 {s s' : State} {t : Nat} {l : Label} {k : Nat} (h : Inv s) (hp : s.pc t = .t6 k)
    (hs : step s t = some (s', l)) : Inv s' := by
  step_case

end MoThreads.SignalCore
