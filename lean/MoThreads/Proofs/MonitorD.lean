import MoThreads.Proofs.MonitorA
namespace MoThreads.Monitor
set_option maxHeartbeats 2000000

theorem step_a5 {s s' : State} {t : Nat} {l : Label} {w : Nat} {c : Cond} {tl : Option Nat} (h : Inv s) (hp : s.pc t = .a5 w c tl)
    (hs : step s t = some (s', l)) : Inv s' := by
  step_open
  have hA5 := h.A5 t w c tl hp
  have hcf := h.cFalse t c (by simp [hp, PC.waitCond])
  have hot := (h.own t w (by simp [hp, PC.own])).1
  have hownall := h.own
  have hmt := (h.mutex t).mp (by simp [hp, PC.holdsM])
  have hhn : s.hand = none := by
    cases hh : s.hand with
    | none => rfl
    | some w' =>
      obtain ⟨u, hu1, hu2⟩ := h.handM w' hh
      have : u = t := by rw [hmt] at hu1; exact (Option.some.inj hu1).symm
      subst this; simp [hp, PC.hand] at hu2
  inv_open
  case K =>
    intro hne
    rcases hA5 with h1 | h1
    · exact Or.inr (Or.inl h1)
    · right; right
      intro u w' c' tl' hu hw'
      rw [h1] at hw'; simp at hw'; subst hw'
      by_cases hut : u = t
      · simp only [hut, if_true] at hu; cases hu; exact hcf
      · simp only [hut, if_false] at hu
        have := (hownall u w' (by simp [hu, PC.own])).1
        rw [hot] at this; exact absurd this.symm hut
  case handM => intro w' hw'; simp [hhn] at hw'
  inv_rest

theorem step_parked {s s' : State} {t : Nat} {l : Label} {w : Nat} {c : Cond} {tl : Option Nat} (h : Inv s) (hp : s.pc t = .parked w c tl)
    (hs : step s t = some (s', l)) : Inv s' := by
  step_at hp hs
  split at hs
  case isFalse => cases hs
  case isTrue hcond =>
    cases hs
    have hot := (h.own t w (by simp [hp, PC.own])).1
    have hownall := h.own
    have hme : ∀ x, x ≠ w → (x ∈ s.hot.erase w ↔ x ∈ s.hot) := fun x hx => List.mem_erase_of_ne hx
    have hnd := h.nodupH
    have hwe : w ∉ s.hot.erase w := fun hh => by
      have := (List.Nodup.mem_erase_iff hnd).mp hh; exact this.1 rfl
    have hsub : ∀ x, x ∈ s.hot.erase w → x ∈ s.hot := fun x hx => List.mem_of_mem_erase hx
    simp only [Bool.and_eq_true, Bool.or_eq_true, decide_eq_true_eq] at hcond
    obtain ⟨hc1, hc2⟩ := hcond
    inv_open
    case nodupH => exact List.Nodup.erase _ hnd
    case hotI =>
      intro w' hw'
      have h1 := hotI w' (hsub w' hw')
      have hne : w' ≠ w := fun he => hwe (he ▸ hw')
      have : s.owner w' ≠ t := by
        intro he
        have := h1.2; rw [he, hp] at this; simp [PC.parkedOn] at this; exact hne this.symm
      simp only [this, if_false]; exact h1
    case noLost =>
      intro u w' hu
      by_cases hut : u = t
      · simp only [hut, if_true, PC.sleepOn] at hu; cases hu
      · simp only [hut, if_false] at hu
        have h1 := noLost u w' hu
        have hne : w' ≠ w := by
          intro he; subst he
          have : (s.pc u).own = some w' := by cases hpu : s.pc u <;> simp_all [PC.sleepOn, PC.own]
          have := (hownall u w' this).1; rw [hot] at this; exact hut this.symm
        rcases h1 with h1 | h1 | h1
        · exact Or.inl h1
        · exact Or.inr (Or.inl ((hme w' hne).mpr h1))
        · exact Or.inr (Or.inr h1)
    case handW => intro w' hw'; obtain ⟨u, hu, _⟩ := handM w' hw'; simp [hc2] at hu
    case fresh => intro w' hw'; have := fresh w' hw'; have := hsub w'; clr; grind
    case preL => intro u w' hu; have := preL u w'; have := hsub w'; clr; grind [PC.preList]
    case K => intro _; left; simp
    case handM => intro w' hw'; obtain ⟨u, hu, _⟩ := handM w' hw'; simp [hc2] at hu
    case A6 =>
      intro u w' c' tl' hu
      by_cases hut : u = t
      · simp only [hut, if_true] at hu; cases hu
        rcases hc1 with h1 | h1
        · exact Or.inl h1
        · exact Or.inr h1
      · simp only [hut, if_false] at hu; exact A6 u w' c' tl' hu
    case X => intro u hu; have := mutex u; clr; grind [PC.holdsM]
    case A5 => intro u w' c' tl' hu; have := mutex u; clr; grind [PC.holdsM]
    case A3 => intro u w' c' tl' hu; have := mutex u; clr; grind [PC.holdsM]
    inv_rest

end MoThreads.Monitor
