import MoThreads.Proofs.TillInv
namespace MoThreads.Till
set_option maxHeartbeats 1000000

theorem inv_init (I : Int) (h : 0 < I) : Inv (init I) := by
  constructor <;> simp [init, DPC.holds, CPC.holds, DPC.final, DPC.clockLocal, DPC.laterLocal, DPC.scanning, DPC.transit,
    DPC.midScan, DPC.dueWork, DPC.postSwap, DPC.drained, CPC.making, CPC.unregistered, CPC.pend] <;> omega

/-- simp set that evaluates the pc classifications -/
macro "pcsimp" : tactic => `(tactic| simp only [DPC.holds, CPC.holds, DPC.final, DPC.clockLocal, DPC.laterLocal, DPC.scanning,
    DPC.transit, DPC.midScan, DPC.dueWork, DPC.postSwap, DPC.drained, CPC.making, CPC.unregistered, CPC.pend, State.setC, minI,
    reduceCtorEq, Bool.false_eq_true, if_true, if_false, List.not_mem_nil, false_or, or_false, Option.some.injEq,
    Prod.mk.injEq, List.mem_append, List.mem_cons] at *)

macro "pcsimpD" : tactic => `(tactic| simp only [DPC.holds, DPC.final, DPC.clockLocal, DPC.laterLocal, DPC.scanning,
    DPC.transit, DPC.midScan, DPC.dueWork, DPC.postSwap, DPC.drained, minI,
    reduceCtorEq, Bool.false_eq_true, if_true, if_false, List.not_mem_nil, false_or, or_false, Option.some.injEq,
    Prod.mk.injEq, List.mem_append, List.mem_cons] at *)

set_option hygiene false in
macro "inv_open" : tactic => `(tactic| (
  obtain ⟨Ipos, cz, lk0, lkt, g1, g2, M, A, S, W, N, P, V, L, Nw, E, B, C, Tr, Due, Loc, Ea, F1, F1', F2, F3, Fr, Rc, Mk, Un, Dd, Rg⟩ := h
  constructor))

set_option hygiene false in
/-- generic closing tactic for one field goal -/
macro "fin" : tactic => `(tactic| first
    | assumption
    | omega
    | (split <;> first | assumption | omega | grind)
    | grind)

set_option hygiene false in
macro "fin2" : tactic => `(tactic| first
    | assumption
    | omega
    | (intro hf; exact False.elim hf)
    | (intro _ hf; exact False.elim hf)
    | (intro _ _ hf; exact False.elim hf)
    | grind)

set_option hygiene false in
/-- a daemon step at a known pc: `h : Inv s`, `hp : s.dpc = …`, `hs : stepD s = some (s', l)` -/
macro "dcase" : tactic => `(tactic| (
  inv_open
  all_goals dsimp only
  all_goals try assumption
  all_goals (simp only [hp] at *; pcsimpD)
  all_goals fin))

macro "pcsimpC" : tactic => `(tactic| simp only [State.setC, minI] at *)

set_option hygiene false in
macro "clrC" : tactic => `(tactic| (
  try clear W
  try clear V
  try clear L
  try clear N
  try clear Tr
  try clear Due
  try clear C
  try clear B))

set_option hygiene false in
/-- generic closer for thread-indexed fields of a creator step -/
macro "finC" : tactic => `(tactic| first
    | assumption
    | omega
    | grind [CPC.holds, CPC.making, CPC.unregistered, CPC.pend, DPC.postSwap, DPC.final])

set_option hygiene false in
/-- thread-indexed field with one extra argument: split on `u = t` -/
macro "thr2" X:ident : tactic => `(tactic| (
  intro u a hu
  by_cases hut : u = t
  · subst hut
    simp only [if_true] at hu
    have hx := $X:ident u
    have hmk := Mk u
    have hun := Un u
    have hdd := Dd u
    rw [hp] at hx hmk hun hdd
    simp only [CPC.holds, CPC.making, CPC.unregistered, CPC.pend, reduceCtorEq, Option.some.injEq, Prod.mk.injEq] at hu hx hmk hun hdd
    first
      | omega
      | grind
  · simp only [hut, if_false] at hu
    have hx := $X:ident u a hu
    have hmk := Mk u
    have hmt := Mk t
    rw [hp] at hmt
    simp only [CPC.making, CPC.unregistered, reduceCtorEq, Option.some.injEq] at hmt
    first
      | exact hx
      | grind [CPC.making, CPC.unregistered, CPC.pend]))

set_option hygiene false in
macro "thr3" X:ident : tactic => `(tactic| (
  intro u a b hu
  by_cases hut : u = t
  · subst hut
    simp only [if_true] at hu
    have hx := $X:ident u
    have hdd := Dd u
    rw [hp] at hx hdd
    simp only [CPC.holds, CPC.making, CPC.unregistered, CPC.pend, reduceCtorEq, Option.some.injEq, Prod.mk.injEq] at hu hx hdd
    first
      | omega
      | grind
  · simp only [hut, if_false] at hu
    have hx := $X:ident u a b hu
    first
      | exact hx
      | grind [CPC.making, CPC.unregistered, CPC.pend, DPC.postSwap]))

set_option hygiene false in
/-- a creator step at a known pc: `h : Inv s`, `ht : t ≠ 0`, `hp : s.cpc t = …` -/
macro "ccase" : tactic => `(tactic| (
  inv_open
  all_goals (try simp only [State.setC, fireId])
  all_goals (try dsimp only)
  all_goals try assumption
  all_goals try (case Un => thr2 Un)
  all_goals try (case Mk => thr2 Mk)
  all_goals try (case Dd => thr3 Dd)
  all_goals try (case F1 => thr3 F1)
  all_goals try (case Rg => thr2 Rg)
  all_goals (first | finC | skip)))

set_option hygiene false in
macro "copen" : tactic => `(tactic| (
  inv_open
  all_goals (try simp only [State.setC, fireId])
  all_goals (try dsimp only)
  all_goals try assumption))

set_option hygiene false in
macro "crest" : tactic => `(tactic| (
  all_goals try (case Un => thr2 Un)
  all_goals try (case Mk => thr2 Mk)
  all_goals try (case Dd => thr3 Dd)
  all_goals try (case F1 => thr3 F1)
  all_goals try (case Rg => thr2 Rg)
  all_goals finC))


end MoThreads.Till
