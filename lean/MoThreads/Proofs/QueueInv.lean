/-
  Inductive invariant of M4 (Queue).
-/
import MoThreads.Model.Queue
namespace MoThreads.Queue

/-- pcs at which the thread holds the queue's mutex -/
def PC.holds : PC → Bool
  | .sC .. | .sLen .. | .sTill .. | .sPark .. | .sRel2 .. | .sWoke .. | .sAlertT .. | .sAlertLen .. | .sAlertNum .. | .sPost .. | .sAct .. | .sRel .. => true
  | .pLen .. | .pPop | .pC .. | .pPark .. | .pRel2 .. | .pWoke .. | .pT .. => true
  | .oC | .oLen | .oPop | .lLen | .lClear | .nLen | .kClose => true
  | _ => false

/-- a non-forced add/push/extend has passed the space test -/
def PC.passed : PC → Bool
  | .sPost _ | .sAct _ true => true
  | _ => false

def PC.popping : PC → Bool
  | .pPop | .oPop => true
  | _ => false

/-- the till of a pop that has just returned from a timed-out / woken wait -/
def PC.wokeTill : PC → Option (Option Nat)
  | .pWoke tl => some tl
  | _ => none

def PC.timedOutTill : PC → Option (Option Nat)
  | .pT tl => some tl
  | _ => none

theorem PC.popping_holds (p : PC) (h : p.popping = true) : p.holds = true := by
  cases p <;> simp_all [PC.popping, PC.holds]

theorem PC.passed_holds (p : PC) (h : p.passed = true) : p.holds = true := by
  cases p <;> simp_all [PC.passed, PC.holds]

structure Inv (s : State) : Prop where
  mutex : ∀ t, (s.pc t).holds = true ↔ s.mutex = some t
  room  : ∀ t, (s.pc t).passed = true → s.closed = true ∨ s.dq.length < s.max
  popNe : ∀ t, (s.pc t).popping = true → s.dq ≠ []
  woke  : ∀ t tl, (s.pc t).wokeTill = some tl → s.signalled t = true ∨ s.closed = true ∨ tillOn s tl = true
  tout  : ∀ t tl, (s.pc t).timedOutTill = some tl → s.closed = true ∨ tillOn s tl = true
  fifo  : s.pushed = [] → s.dq0 ++ s.added = s.removed ++ s.dq
  cnt   : ∀ v, s.dq0.count v + s.added.count v + s.pushed.count v = s.removed.count v + s.dq.count v

end MoThreads.Queue
