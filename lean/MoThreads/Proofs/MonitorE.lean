import MoThreads.Proofs.MonitorA
namespace MoThreads.Monitor
set_option maxHeartbeats 2000000

theorem step_a6 {s s' : State} {t : Nat} {l : Label} {w : Nat} {c : Cond} {tl : Option Nat} (h : Inv s) (hp : s.pc t = .a6 w c tl)
    (hs : step s t = some (s', l)) : Inv s' := by
  step_open
  have hot := (h.own t w (by simp [hp, PC.own])).1
  have hownall := h.own
  have hnd := h.nodupW
  have hme : ∀ x, x ≠ w → (x ∈ s.waiting.erase w ↔ x ∈ s.waiting) := fun x hx => List.mem_erase_of_ne hx
  have hsub : ∀ x, x ∈ s.waiting.erase w → x ∈ s.waiting := fun x hx => List.mem_of_mem_erase hx
  have hwe : w ∉ s.waiting.erase w := fun hh => by
    have := (List.Nodup.mem_erase_iff hnd).mp hh; exact this.1 rfl
  have hmt := (h.mutex t).mp (by simp [hp, PC.holdsM])
  inv_open
  case nodupW => exact List.Nodup.erase _ hnd
  case listed =>
    intro w' hw'
    have h1 := listed w' (hsub w' hw')
    have hne : w' ≠ w := fun he => hwe (he ▸ hw')
    have : s.owner w' ≠ t := by
      intro he
      rw [he, hp] at h1; simp [PC.listedOwn] at h1; exact hne h1.symm
    simp only [this, if_false]; exact h1
  case noLost =>
    intro u w' hu
    by_cases hut : u = t
    · simp only [hut, if_true, PC.sleepOn] at hu; cases hu
    · simp only [hut, if_false] at hu
      have h1 := noLost u w' hu
      have hne : w' ≠ w := by
        intro he; subst he
        have : (s.pc u).own = some w' := by cases hpu : s.pc u <;> simp_all [PC.sleepOn, PC.own]
        have := (hownall u w' this).1; rw [hot] at this; exact hut this.symm
      rcases h1 with h1 | h1 | h1
      · exact Or.inl ((hme w' hne).mpr h1)
      · exact Or.inr (Or.inl h1)
      · exact Or.inr (Or.inr h1)
  case handW => intro w' hw'; have := handW w' hw'; have := hsub w'; clr; grind [PC.parkedOn]
  case firedW => intro w' hw'; have := firedW w' hw'; have := hsub w'; clr; grind
  case fresh => intro w' hw'; have := fresh w' hw'; have := hsub w'; clr; grind
  case preL => intro u w' hu; have := preL u w'; have := hsub w'; clr; grind [PC.preList]
  case K => intro _; left; simp [hmt]
  case X => intro u hu; have := mutex u; clr; grind [PC.holdsM]
  case A5 => intro u w' c' tl' hu; have := mutex u; clr; grind [PC.holdsM]
  case A4 => intro u w' c' tl' hu; have := mutex u; clr; grind [PC.holdsM]
  case x1ne => intro u hu; have := mutex u; clr; grind [PC.holdsM]
  case a1ne => intro u w' c' tl' hu; have := mutex u; clr; grind [PC.holdsM]
  inv_rest

end MoThreads.Monitor
