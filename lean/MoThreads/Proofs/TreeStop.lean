/-
  M5 (ThreadTree): frame facts for single moves and the closure of `stop()` over the registered
  descendants (used by Props/C11).
-/
import MoThreads.Props.C10
namespace MoThreads.ThreadTree
open MoThreads
set_option maxHeartbeats 4000000

/-- what one move of thread `t` (a step, or the start of an API call) leaves alone -/
structure Frame (s s' : State) (t : Nat) : Prop where
  pst : ∀ u, s.pstop u = true → s'.pstop u = true
  stp : ∀ u, s.stopped u = true → s'.stopped u = true
  evr : ∀ p c, c ∈ s.everChild p → c ∈ s'.everChild p
  cal : ∀ u, u ≠ t → s'.call u = s.call u
  phs : ∀ u, u ≠ t → s.phase u ≠ .absent → s'.phase u = s.phase u

theorem frame_stepStop {s s' : State} {t : Nat} {w : List SAct} {k : List SAct → Call} {l : Label}
    (hs : stepStop s t w k = some (s', l)) : Frame s s' t ∧ s'.phase = s.phase := by
  unfold stepStop at hs
  cases w with
  | nil => cases hs
  | cons a r =>
    cases a with
    | visit u => cases hs; exact ⟨⟨fun _ h => h, fun _ h => h, fun _ _ h => h, fun u hu => by simp [upd, hu], fun _ _ _ => rfl⟩, rfl⟩
    | fire u =>
      cases hs
      exact ⟨⟨fun v h => by simp only [upd]; split <;> simp_all, fun _ h => h, fun _ _ h => h, fun u hu => by simp [upd, hu], fun _ _ _ => rfl⟩, rfl⟩

theorem frame_stepJoin {s s' : State} {t : Nat} {top : List Nat} {w : List JAct} {tl : Option Nat} {raised : List Nat}
    {all : Bool} {k : List JAct → List Nat → Call} {l : Label}
    (hs : stepJoin s t top w tl raised all k = some (s', l)) : Frame s s' t := by
  unfold stepJoin at hs
  cases w with
  | nil => cases hs
  | cons a r =>
    cases a with
    | wait u =>
      simp only at hs
      split at hs
      · cases hs; exact ⟨fun _ h => h, fun _ h => h, fun _ _ h => h, fun u hu => by simp [upd, hu], fun _ _ _ => rfl⟩
      · split at hs
        · cases hs; exact ⟨fun _ h => h, fun _ h => h, fun _ _ h => h, fun u hu => by simp [upd, hu], fun _ _ _ => rfl⟩
        · cases hs
    | _ => cases hs; exact ⟨fun _ h => h, fun _ h => h, fun _ _ h => h, fun u hu => by simp [upd, hu], fun _ _ _ => rfl⟩

set_option hygiene false in
macro "frm" : tactic => `(tactic| first
  | (cases hs; done)
  | (exact (frame_stepStop hs).1)
  | (exact frame_stepJoin hs)
  | (cases hs
     refine ⟨?_, ?_, ?_, ?_, ?_⟩
     · intro u hu; first | exact hu | (simp only [upd]; split <;> simp_all)
     · intro u hu; first | exact hu | (simp only [upd]; split <;> simp_all)
     · intro p c hc; first | exact hc | (simp only [upd]; split <;> simp_all)
     · intro u hu; simp [upd, hu]
     · intro u hu hab; first | rfl | simp [upd, hu]))

/-- a step of thread `t` leaves the flags monotone and other threads' calls and phases alone -/
theorem frame_step {s s' : State} {t : Nat} {l : Label} (h : Inv s) (hs : step s t = some (s', l)) : Frame s s' t := by
  cases hph : s.phase t with
  | absent => unfold step at hs; rw [hph] at hs; cases hs
  | dead => unfold step at hs; rw [hph] at hs; cases hs
  | created => unfold step at hs; rw [hph] at hs; frm
  | peek o => unfold step at hs; rw [hph] at hs; frm
  | fin1 => unfold step at hs; rw [hph] at hs; frm
  | fin4 cs => unfold step at hs; rw [hph] at hs; frm
  | fin5 cs => unfold step at hs; rw [hph] at hs; frm
  | fin6 cs => unfold step at hs; rw [hph] at hs; frm
  | linger =>
    unfold step at hs; rw [hph] at hs; simp only at hs
    split at hs
    · frm
    · split at hs
      · split at hs <;> frm
      · frm
  | running =>
    cases hc : s.call t with
    | idle r => unfold step at hs; rw [hph] at hs; simp only [hc] at hs; cases hs
    | spawn c =>
      unfold step at hs; rw [hph] at hs; simp only [hc] at hs
      have hab := (h.spawnC t c hc).1
      split at hs
      · cases hs
        refine ⟨fun _ h => h, fun _ h => h, fun _ _ h => h, fun u hu => by simp [upd, hu], ?_⟩
        intro u hu hna; simp only [upd]; split
        · rename_i huc; rw [huc] at hna; exact absurd hab hna
        · rfl
      · frm
    | releasing u => unfold step at hs; rw [hph] at hs; simp only [hc] at hs; frm
    | stopping work =>
      cases work with
      | nil => unfold step at hs; rw [hph] at hs; simp only [hc] at hs; frm
      | cons a rest => unfold step at hs; rw [hph] at hs; simp only [hc] at hs; frm
    | joining top work tl raised all =>
      cases work with
      | nil => unfold step at hs; rw [hph] at hs; simp only [hc] at hs; frm
      | cons a rest => unfold step at hs; rw [hph] at hs; simp only [hc] at hs; frm
    | m0 => unfold step at hs; rw [hph] at hs; simp only [hc] at hs; frm
    | m1 => unfold step at hs; rw [hph] at hs; simp only [hc] at hs; frm
    | mS cs work =>
      cases work with
      | nil => unfold step at hs; rw [hph] at hs; simp only [hc] at hs; frm
      | cons a rest => unfold step at hs; rw [hph] at hs; simp only [hc] at hs; frm
    | mJ cs work raised =>
      cases work with
      | nil => unfold step at hs; rw [hph] at hs; simp only [hc] at hs; frm
      | cons a rest => unfold step at hs; rw [hph] at hs; simp only [hc] at hs; frm
    | m2 cs raised => unfold step at hs; rw [hph] at hs; simp only [hc] at hs; frm
    | mRS cs raised res work =>
      cases work with
      | nil => unfold step at hs; rw [hph] at hs; simp only [hc] at hs; frm
      | cons a rest => unfold step at hs; rw [hph] at hs; simp only [hc] at hs; frm
    | mRJ cs raised res work raised2 =>
      cases work with
      | nil => unfold step at hs; rw [hph] at hs; simp only [hc] at hs; frm
      | cons a rest => unfold step at hs; rw [hph] at hs; simp only [hc] at hs; frm
  | fin2 cs =>
    cases hc : s.call t with
    | stopping work =>
      cases work with
      | nil => unfold step at hs; rw [hph] at hs; simp only [hc] at hs; frm
      | cons a rest => unfold step at hs; rw [hph] at hs; simp only [hc] at hs; frm
    | _ => unfold step at hs; rw [hph] at hs; simp only [hc] at hs; cases hs
  | fin3 cs =>
    cases hc : s.call t with
    | joining top work tl raised all =>
      cases work with
      | nil => unfold step at hs; rw [hph] at hs; simp only [hc] at hs; frm
      | cons a rest => unfold step at hs; rw [hph] at hs; simp only [hc] at hs; frm
    | _ => unfold step at hs; rw [hph] at hs; simp only [hc] at hs; cases hs

/-- starting an API call: only possible on an idle running thread, touches nothing else -/
theorem frame_call {s s' : State} {t : Nat} {op : Op} (hc : call s t op = some s') :
    Frame s s' t ∧ (∃ r, s.call t = .idle r) := by
  unfold call at hc
  split at hc
  · rename_i r hph hcl
    refine ⟨?_, r, hcl⟩
    cases op with
    | mainStop =>
      simp only at hc; split at hc
      · cases hc; exact ⟨fun _ h => h, fun _ h => h, fun _ _ h => h, fun u hu => by simp [upd, hu], fun _ _ _ => rfl⟩
      · cases hc
    | finish o =>
      simp only at hc; split at hc
      · cases hc
      · cases hc; exact ⟨fun _ h => h, fun _ h => h, fun _ _ h => h, fun _ _ => rfl, fun u hu _ => by simp [upd, hu]⟩
    | _ => cases hc; exact ⟨fun _ h => h, fun _ h => h, fun _ _ h => h, fun u hu => by simp [upd, hu], fun _ _ _ => rfl⟩
  · cases hc

theorem desc_mono {s s' : State} (hm : ∀ p c, c ∈ s.everChild p → c ∈ s'.everChild p) {p d : Nat} (h : Desc s p d) : Desc s' p d := by
  induction h with
  | child hc => exact .child (hm _ _ hc)
  | step hc _ ih => exact .step (hm _ _ hc) ih

/-! ### the closure of stop() -/

/-- `d` is taken care of: already asked to stop, already stopped, or still ahead in the work list
(directly, or as a registered descendant of a thread the walk has yet to visit) -/
def Cov (s : State) (work : List SAct) (d : Nat) : Prop :=
  s.pstop d = true ∨ s.stopped d = true ∨ .fire d ∈ work ∨ .visit d ∈ work ∨ ∃ u, .visit u ∈ work ∧ Desc s u d

theorem cov_frame {s s' : State} {t : Nat} (f : Frame s s' t) {work : List SAct} {d : Nat} (h : Cov s work d) : Cov s' work d := by
  rcases h with h | h | h | h | ⟨u, hu, hd⟩
  · exact Or.inl (f.pst _ h)
  · exact Or.inr (Or.inl (f.stp _ h))
  · exact Or.inr (Or.inr (Or.inl h))
  · exact Or.inr (Or.inr (Or.inr (Or.inl h)))
  · exact Or.inr (Or.inr (Or.inr (Or.inr ⟨u, hu, desc_mono f.evr hd⟩)))

/-- one step of the walk keeps every target covered -/
theorem cov_stepStop {s s' : State} (hr : sys.Reach s) {t : Nat} {a : SAct} {rest : List SAct} {k : List SAct → Call} {l : Label}
    (hs : stepStop s t (a :: rest) k = some (s', l)) {d : Nat} (h : Cov s (a :: rest) d) :
    ∃ work', s'.call t = k work' ∧ Cov s' work' d := by
  have i := reach_inv hr
  unfold stepStop at hs
  cases a with
  | visit u =>
    cases hs
    refine ⟨(s.children u).map SAct.visit ++ [SAct.fire u] ++ rest, by simp [upd], ?_⟩
    have hdesc : ∀ {c}, c ∈ s.everChild u → (SAct.visit c ∈ (s.children u).map SAct.visit ++ [SAct.fire u] ++ rest) ∨ s.stopped c = true := by
      intro c hc
      rcases i.ever u c hc with h1 | h1
      · exact Or.inl (by simp [h1])
      · exact Or.inr h1
    have hD : ∀ {v}, Desc s v d → v = u → Cov { s with call := upd s.call t (k ((s.children u).map SAct.visit ++ [SAct.fire u] ++ rest)) }
        ((s.children u).map SAct.visit ++ [SAct.fire u] ++ rest) d := by
      intro v hd hv
      subst hv
      cases hd with
      | child hc =>
        rcases hdesc hc with h1 | h1
        · exact Or.inr (Or.inr (Or.inr (Or.inl h1)))
        · exact Or.inr (Or.inl h1)
      | step hc hd' =>
        rcases hdesc hc with h1 | h1
        · exact Or.inr (Or.inr (Or.inr (Or.inr ⟨_, h1, (by refine desc_mono (s := s) ?_ hd'; intro _ _ hh; exact hh)⟩)))
        · exact Or.inr (Or.inl (C10_descendants_first hr _ _ h1 hd'))
    rcases h with h | h | h | h | ⟨v, hv, hd⟩
    · exact Or.inl h
    · exact Or.inr (Or.inl h)
    · simp only [List.mem_cons] at h
      rcases h with h | h
      · cases h
      · exact Or.inr (Or.inr (Or.inl (by simp [h])))
    · simp only [List.mem_cons] at h
      rcases h with h | h
      · cases h; exact Or.inr (Or.inr (Or.inl (by simp)))
      · exact Or.inr (Or.inr (Or.inr (Or.inl (by simp [h]))))
    · simp only [List.mem_cons] at hv
      rcases hv with hv | hv
      · cases hv; exact hD hd rfl
      · exact Or.inr (Or.inr (Or.inr (Or.inr ⟨v, by simp [hv], (by refine desc_mono (s := s) ?_ hd; intro _ _ hh; exact hh)⟩)))
  | fire u =>
    cases hs
    refine ⟨rest, by simp [upd], ?_⟩
    rcases h with h | h | h | h | ⟨v, hv, hd⟩
    · exact Or.inl (by simp only [upd]; split <;> simp_all)
    · exact Or.inr (Or.inl h)
    · simp only [List.mem_cons] at h
      rcases h with h | h
      · cases h; exact Or.inl (by simp [upd])
      · exact Or.inr (Or.inr (Or.inl h))
    · simp only [List.mem_cons] at h
      rcases h with h | h
      · cases h
      · exact Or.inr (Or.inr (Or.inr (Or.inl h)))
    · simp only [List.mem_cons] at hv
      rcases hv with hv | hv
      · cases hv
      · exact Or.inr (Or.inr (Or.inr (Or.inr ⟨v, hv, (by refine desc_mono (s := s) ?_ hd; intro _ _ hh; exact hh)⟩)))

/-- an execution segment: any interleaving of environment moves and steps of any threads -/
inductive Seg : State → State → Prop
  | refl {s} : Seg s s
  | env {s s' s''} : Seg s s' → sys.env s' s'' → Seg s s''
  | step {s s' s'' t l} : Seg s s' → step s' t = some (s'', l) → Seg s s''

theorem Seg.reach {s s' : State} (h : sys.Reach s) (g : Seg s s') : sys.Reach s' := by
  induction g with
  | refl => exact h
  | env _ he ih => exact Sys.Reach.env ih he
  | step _ hs ih => exact Sys.Reach.step ih hs

/-- the threads `stop(p)` must reach: `p` and everything registered below it when the call starts -/
def Tgt (s0 : State) (p d : Nat) : Prop := d = p ∨ Desc s0 p d

def DoneAll (s0 s : State) (p : Nat) : Prop := ∀ d, Tgt s0 p d → s.pstop d = true ∨ s.stopped d = true

def Walking (s0 s : State) (t p : Nat) : Prop :=
  s.phase t = .running ∧ ∃ work, s.call t = .stopping work ∧ ∀ d, Tgt s0 p d → Cov s work d

theorem walk_env {s0 s s' : State} {t p : Nat} (h : DoneAll s0 s p ∨ Walking s0 s t p) (he : sys.env s s') :
    DoneAll s0 s' p ∨ Walking s0 s' t p := by
  rcases he with ⟨t', op, hc⟩ | ⟨x, hx⟩ | ⟨x, hx⟩
  · obtain ⟨f, r, hidle⟩ := frame_call hc
    rcases h with h | ⟨hph, work, hcl, hcov⟩
    · exact Or.inl (fun d hd => (h d hd).imp (f.pst d) (f.stp d))
    · have hne : t ≠ t' := by intro heq; subst heq; rw [hcl] at hidle; cases hidle
      exact Or.inr ⟨by rw [f.phs t hne (by rw [hph]; simp), hph], work, by rw [f.cal t hne, hcl],
        fun d hd => cov_frame f (hcov d hd)⟩
  · subst hx
    rcases h with h | ⟨hph, work, hcl, hcov⟩
    · exact Or.inl h
    · exact Or.inr ⟨hph, work, hcl, fun d hd => by
        rcases hcov d hd with h1 | h1 | h1 | h1 | ⟨u, hu, hdd⟩
        · exact Or.inl h1
        · exact Or.inr (Or.inl h1)
        · exact Or.inr (Or.inr (Or.inl h1))
        · exact Or.inr (Or.inr (Or.inr (Or.inl h1)))
        · exact Or.inr (Or.inr (Or.inr (Or.inr ⟨u, hu, desc_mono (s := s) (s' := fireTill s x) (fun _ _ hh => hh) hdd⟩)))⟩
  · subst hx
    rcases h with h | ⟨hph, work, hcl, hcov⟩
    · exact Or.inl h
    · exact Or.inr ⟨hph, work, hcl, fun d hd => by
        rcases hcov d hd with h1 | h1 | h1 | h1 | ⟨u, hu, hdd⟩
        · exact Or.inl h1
        · exact Or.inr (Or.inl h1)
        · exact Or.inr (Or.inr (Or.inl h1))
        · exact Or.inr (Or.inr (Or.inr (Or.inl h1)))
        · exact Or.inr (Or.inr (Or.inr (Or.inr ⟨u, hu, desc_mono (s := s) (s' := expire s x) (fun _ _ hh => hh) hdd⟩)))⟩

theorem walk_step {s0 s s' : State} {t p t' : Nat} {l : Label} (hr : sys.Reach s)
    (h : DoneAll s0 s p ∨ Walking s0 s t p) (hs : step s t' = some (s', l)) :
    DoneAll s0 s' p ∨ Walking s0 s' t p := by
  have f := frame_step (reach_inv hr) hs
  rcases h with h | ⟨hph, work, hcl, hcov⟩
  · exact Or.inl (fun d hd => (h d hd).imp (f.pst d) (f.stp d))
  · by_cases hne : t = t'
    · subst hne
      unfold step at hs; rw [hph] at hs; simp only [hcl] at hs
      cases work with
      | nil =>
        cases hs
        refine Or.inl (fun d hd => ?_)
        rcases hcov d hd with h1 | h1 | h1 | h1 | ⟨u, hu, _⟩
        · exact Or.inl h1
        · exact Or.inr h1
        · cases h1
        · cases h1
        · cases hu
      | cons a rest =>
        have hph' : s'.phase t = .running := by rw [(frame_stepStop hs).2, hph]
        -- the same step for every target: the new work list does not depend on d
        have hw : ∀ d, Tgt s0 p d → ∃ work', s'.call t = .stopping work' ∧ Cov s' work' d := fun d hd => cov_stepStop hr hs (hcov d hd)
        cases hcall : s'.call t with
        | stopping w' =>
          refine Or.inr ⟨hph', w', hcall, fun d hd => ?_⟩
          obtain ⟨w'', hc'', hcv⟩ := hw d hd
          rw [hcall] at hc''; cases hc''; exact hcv
        | _ =>
          exfalso
          obtain ⟨w'', hc'', _⟩ := hw p (Or.inl rfl)
          rw [hcall] at hc''; cases hc''
    · exact Or.inr ⟨by rw [f.phs t hne (by rw [hph]; simp), hph], work, by rw [f.cal t hne, hcl],
        fun d hd => cov_frame f (hcov d hd)⟩

theorem walk_seg {s0 s1 : State} {t p : Nat} (h0 : sys.Reach s0) (hph : s0.phase t = .running)
    (hc : s0.call t = .stopping [.visit p]) (g : Seg s0 s1) : DoneAll s0 s1 p ∨ Walking s0 s1 t p := by
  induction g with
  | refl =>
    refine Or.inr ⟨hph, _, hc, fun d hd => ?_⟩
    rcases hd with hd | hd
    · subst hd; exact Or.inr (Or.inr (Or.inr (Or.inl (by simp))))
    · exact Or.inr (Or.inr (Or.inr (Or.inr ⟨p, by simp, hd⟩)))
  | env g he ih => exact walk_env ih he
  | step g hs ih => exact walk_step (g.reach h0) ih hs

end MoThreads.ThreadTree
