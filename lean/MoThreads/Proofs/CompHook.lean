/-
  M2: OR hooks do not leak (C15): every hook registered on an operand is covered by a cleanup that is
  registered on the live, untriggered composite, still to be registered, running, or already removing it.
-/
import MoThreads.Proofs.CompLive
namespace MoThreads.Composite
set_option maxHeartbeats 1000000

/-- actions the hook invariant talks about -/
def Rel : Act → Prop
  | .thenJ _ (.orHook _ _) | .thenJ _ (.orCleanup _) | .run (.orCleanup _) | .removeJ _ _ => True
  | _ => False

/-- why the hook `orHook o i` sitting in the job list of `z` will not stay there for ever -/
def Guard (s : State) (z o i : Nat) : Prop :=
  ((s.ors o).deps = (s.ors o).deps0 ∧ InTodos s (.thenJ (s.ors o).target (.orCleanup o)))
  ∨ ((s.ors o).deps = (s.ors o).deps0 ∧ Job.orCleanup o ∈ (s.sigs (s.ors o).target).jobs ∧
      (s.sigs (s.ors o).target).alive = true ∧ (s.sigs (s.ors o).target).go = false)
  ∨ ((s.ors o).deps = (s.ors o).deps0 ∧ InTodos s (.run (.orCleanup o)))
  ∨ InTodos s (.removeJ z (.orHook o i))

/-- in a pending list every `then(hook)` of an OrSignal is followed, later in the same list, by the `then(cleanup)` on its composite -/
def HB (tg : Nat → Nat) (l : List Act) : Prop :=
  ∀ l1 l2 z o i, l = l1 ++ Act.thenJ z (.orHook o i) :: l2 → Act.thenJ (tg o) (.orCleanup o) ∈ l2

theorem HB.tail {tg : Nat → Nat} {a : Act} {l : List Act} (h : HB tg (a :: l)) : HB tg l := by
  intro l1 l2 z o i he
  exact h (a :: l1) l2 z o i (by rw [he]; rfl)

theorem HB.nil (tg : Nat → Nat) : HB tg [] := by
  intro l1 l2 z o i he
  have := congrArg List.length he
  simp at this

theorem HB.cons {tg : Nat → Nat} {a : Act} {l : List Act} (ha : ∀ z o i, a ≠ .thenJ z (.orHook o i)) (h : HB tg l) : HB tg (a :: l) := by
  intro l1 l2 z o i he
  cases l1 with
  | nil => simp only [List.nil_append, List.cons.injEq] at he; exact absurd he.1 (ha z o i)
  | cons b l1' =>
    simp only [List.cons_append, List.cons.injEq] at he
    exact h l1' l2 z o i he.2

theorem HB.append {tg : Nat → Nat} {pre l : List Act} (hp : ∀ b, b ∈ pre → ∀ z o i, b ≠ .thenJ z (.orHook o i)) (h : HB tg l) : HB tg (pre ++ l) := by
  induction pre with
  | nil => exact h
  | cons a r ih =>
    exact HB.cons (hp a List.mem_cons_self) (ih (fun b hb => hp b (List.mem_cons_of_mem _ hb)))

theorem HB.congr {tg tg' : Nat → Nat} {l : List Act} (h : HB tg l) (he : ∀ z o i, Act.thenJ z (.orHook o i) ∈ l → tg' o = tg o) : HB tg' l := by
  intro l1 l2 z o i hl
  have hm : Act.thenJ z (.orHook o i) ∈ l := by rw [hl]; simp
  rw [he z o i hm]; exact h l1 l2 z o i hl

theorem HB.mem {tg : Nat → Nat} {l : List Act} (h : HB tg l) {z o i : Nat} (hm : Act.thenJ z (.orHook o i) ∈ l) :
    Act.thenJ (tg o) (.orCleanup o) ∈ l := by
  obtain ⟨l1, l2, he⟩ := List.append_of_mem hm
  have := h l1 l2 z o i he
  rw [he]; exact List.mem_append_right _ (List.mem_cons_of_mem _ this)

structure InvH (s : State) : Prop where
  A1 : ∀ z, (s.sigs z).go = true → (s.sigs z).jobs = []
  A2 : ∀ z, (s.sigs z).alive = false → (s.sigs z).jobs = []
  D2 : ∀ o, o < s.nOr → ∃ x y, (s.ors o).deps0 = [x, y]
  B1 : ∀ z o i, Job.orHook o i ∈ (s.sigs z).jobs → (s.ors o).deps0[i]? = some z
  B2 : ∀ z o i, InTodos s (.thenJ z (.orHook o i)) → (s.ors o).deps0[i]? = some z
  T  : ∀ z o i, cnt s (.thenJ z (.orHook o i)) + (s.sigs z).jobs.count (.orHook o i) ≤ 1
  T2 : ∀ z o, cnt s (.thenJ z (.orCleanup o)) ≤ 1
  ORD : ∀ t, t < NT → HB (fun o => (s.ors o).target) (s.todo t)
  F  : ∀ o, InTodos s (.thenJ (s.ors o).target (.orCleanup o)) →
        (s.ors o).deps = (s.ors o).deps0 ∧ Job.orCleanup o ∉ (s.sigs (s.ors o).target).jobs ∧ ¬ InTodos s (.run (.orCleanup o))
        ∧ (∀ z i, ¬ InTodos s (.removeJ z (.orHook o i)))
  AL : ∀ d j, InTodos s (.thenJ d j) → (s.sigs d).alive = true
  C  : ∀ z o i, Job.orHook o i ∈ (s.sigs z).jobs → Guard s z o i

theorem invH_init : InvH init := by
  constructor
  case A1 => intro z _; exact init_jobs z
  case A2 => intro z _; exact init_jobs z
  case D2 => intro o h; simp [init] at h
  case B1 => intro z o i h; rw [init_jobs] at h; cases h
  case B2 => intro z o i h; exact absurd h (inTodos_init _)
  case T => intro z o i; rw [init_jobs]; simp [cnt_zero.mpr (inTodos_init _)]
  case T2 => intro z o; simp [cnt_zero.mpr (inTodos_init _)]
  case ORD => intro t _; show HB _ []; exact HB.nil _
  case F => intro o h; exact absurd h (inTodos_init _)
  case AL => intro d j h; exact absurd h (inTodos_init _)
  case C => intro z o i h; rw [init_jobs] at h; cases h

theorem TodoStep.cnt_same {s s' t a0 rest new} (st : TodoStep s s' t a0 rest new) {b : Act} (h0 : b ≠ a0) (hn : b ∉ new) : cnt s' b = cnt s b := by
  have := st.cnt_eq b
  rw [if_neg h0, List.count_eq_zero.mpr hn] at this
  omega

theorem TodoStep.cnt_le {s s' t a0 rest new} (st : TodoStep s s' t a0 rest new) {b : Act} (hn : b ∉ new) : cnt s' b ≤ cnt s b := by
  have := st.cnt_eq b
  rw [List.count_eq_zero.mpr hn] at this
  omega

theorem TodoStep.in_same {s s' t a0 rest new} (st : TodoStep s s' t a0 rest new) {b : Act} (h0 : b ≠ a0) (hn : b ∉ new) : InTodos s' b ↔ InTodos s b := by
  constructor
  · intro hb; rcases st.sub hb with h1 | h1
    · exact absurd h1 hn
    · exact h1
  · intro hb; exact st.keep hb h0

theorem rel_ne {a b : Act} (ha : Rel a) (hb : ¬ Rel b) : a ≠ b := by
  intro he; subst he; exact hb ha

/-- a step that neither touches job lists, flags, liveness (except for creating the fresh signal `f`), OrSignal objects,
nor any action the invariant talks about -/
theorem invH_neutral {s s' : State} {t : Nat} {a0 : Act} {rest new : List Act} (hl : InvL s) (h : InvH s) (st : TodoStep s s' t a0 rest new)
    (f : Nat) (hf : s.nSig ≤ f)
    (hsig : ∀ z, z ≠ f → (s'.sigs z).jobs = (s.sigs z).jobs ∧ (s'.sigs z).go = (s.sigs z).go ∧ (s'.sigs z).alive = (s.sigs z).alive)
    (hfresh : (s'.sigs f).jobs = [])
    (hors : s'.ors = s.ors) (hnor : s'.nOr = s.nOr) (ha0 : ¬ Rel a0) (hnew : ∀ b, b ∈ new → ¬ Rel b)
    (hal : ∀ d j, Act.thenJ d j ∈ new → (s'.sigs d).alive = true) : InvH s' := by
  have same : ∀ b, Rel b → (InTodos s' b ↔ InTodos s b) := fun b hb =>
    st.in_same (rel_ne hb ha0) (fun hm => hnew b hm hb)
  have csame : ∀ b, Rel b → cnt s' b = cnt s b := fun b hb =>
    st.cnt_same (rel_ne hb ha0) (fun hm => hnew b hm hb)
  have jobs_eq : ∀ z, (s'.sigs z).jobs = (s.sigs z).jobs := by
    intro z; by_cases hz : z = f
    · subst hz; rw [hfresh, (hl.F5 z hf).2.1]
    · exact (hsig z hz).1
  have tgt_ne : ∀ o, o < s.nOr → (s.ors o).target ≠ f := fun o ho => by have := (hl.F1 o ho).1; omega
  constructor
  case A1 =>
    intro z hz; rw [jobs_eq]
    by_cases hzf : z = f
    · subst hzf; exact (hl.F5 z hf).2.1
    · rw [(hsig z hzf).2.1] at hz; exact h.A1 z hz
  case A2 =>
    intro z hz; rw [jobs_eq]
    by_cases hzf : z = f
    · subst hzf; exact (hl.F5 z hf).2.1
    · rw [(hsig z hzf).2.2] at hz; exact h.A2 z hz
  case D2 => intro o ho; rw [hors]; rw [hnor] at ho; exact h.D2 o ho
  case B1 => intro z o i hj; rw [jobs_eq] at hj; rw [hors]; exact h.B1 z o i hj
  case B2 => intro z o i hj; rw [hors]; exact h.B2 z o i ((same _ (by trivial)).mp hj)
  case T => intro z o i; rw [csame _ (by trivial), jobs_eq]; exact h.T z o i
  case T2 => intro z o; rw [csame _ (by trivial)]; exact h.T2 z o
  case ORD =>
    intro u hu; rw [hors, st.hs']
    by_cases hut : u = t
    · subst hut; simp only [upd, if_true]
      have := h.ORD u hu; rw [st.hs] at this
      exact HB.append (fun b hb z o i he => hnew b hb (by rw [he]; trivial)) this.tail
    · simp only [upd, hut, if_false]; exact h.ORD u hu
  case F =>
    intro o hj; rw [hors] at hj ⊢
    have hj0 := (same _ (by trivial)).mp hj
    have ho : o < s.nOr := hl.M2o _ _ o hj0 rfl rfl
    obtain ⟨f1, f2, f3, f4⟩ := h.F o hj0
    exact ⟨f1, by rw [jobs_eq]; exact f2, fun hh => f3 ((same _ (by trivial)).mp hh), fun z i hh => f4 z i ((same _ (by trivial)).mp hh)⟩
  case AL =>
    intro d j hj
    rcases st.sub hj with h1 | h1
    · exact hal d j h1
    · have hd : d < s.nSig := hl.M1 _ d h1 (by simp [Act.sigs])
      rw [(hsig d (by omega)).2.2]; exact h.AL d j h1
  case C =>
    intro z o i hj; rw [jobs_eq] at hj
    have ho : o < s.nOr := hl.M3o z _ o hj rfl
    unfold Guard; rw [hors, jobs_eq, (hsig _ (tgt_ne o ho)).2.1, (hsig _ (tgt_ne o ho)).2.2]
    rcases h.C z o i hj with g | g | g | g
    · exact Or.inl ⟨g.1, (same _ (by trivial)).mpr g.2⟩
    · exact Or.inr (Or.inl g)
    · exact Or.inr (Or.inr (Or.inl ⟨g.1, (same _ (by trivial)).mpr g.2⟩))
    · exact Or.inr (Or.inr (Or.inr ((same _ (by trivial)).mpr g)))

/-- the same for actions pushed on a thread by the environment -/
theorem invH_neutral_push {s s' : State} {pre : List Act} (hl : InvL s) (h : InvH s)
    (hsub : ∀ b, InTodos s' b → b ∈ pre ∨ InTodos s b) (hkeep : ∀ b, InTodos s b → InTodos s' b)
    (hcnt : ∀ b, cnt s' b = cnt s b + pre.count b)
    (hord : ∀ u, u < NT → HB (fun o => (s.ors o).target) (s'.todo u))
    (f : Nat) (hf : s.nSig ≤ f)
    (hsig : ∀ z, z ≠ f → (s'.sigs z).jobs = (s.sigs z).jobs ∧ (s'.sigs z).go = (s.sigs z).go ∧ (s'.sigs z).alive = (s.sigs z).alive)
    (hfresh : (s'.sigs f).jobs = [])
    (hors : s'.ors = s.ors) (hnor : s'.nOr = s.nOr) (hnew : ∀ b, b ∈ pre → ¬ Rel b)
    (hal : ∀ d j, Act.thenJ d j ∈ pre → (s'.sigs d).alive = true) : InvH s' := by
  have same : ∀ b, Rel b → (InTodos s' b ↔ InTodos s b) := fun b hb =>
    ⟨fun hh => by rcases hsub b hh with h1 | h1; exact absurd hb (hnew b h1); exact h1, hkeep b⟩
  have csame : ∀ b, Rel b → cnt s' b = cnt s b := fun b hb => by
    rw [hcnt b, List.count_eq_zero.mpr (fun hm => hnew b hm hb)]; rfl
  have jobs_eq : ∀ z, (s'.sigs z).jobs = (s.sigs z).jobs := by
    intro z; by_cases hz : z = f
    · subst hz; rw [hfresh, (hl.F5 z hf).2.1]
    · exact (hsig z hz).1
  have tgt_ne : ∀ o, o < s.nOr → (s.ors o).target ≠ f := fun o ho => by have := (hl.F1 o ho).1; omega
  constructor
  case A1 =>
    intro z hz; rw [jobs_eq]
    by_cases hzf : z = f
    · subst hzf; exact (hl.F5 z hf).2.1
    · rw [(hsig z hzf).2.1] at hz; exact h.A1 z hz
  case A2 =>
    intro z hz; rw [jobs_eq]
    by_cases hzf : z = f
    · subst hzf; exact (hl.F5 z hf).2.1
    · rw [(hsig z hzf).2.2] at hz; exact h.A2 z hz
  case D2 => intro o ho; rw [hors]; rw [hnor] at ho; exact h.D2 o ho
  case B1 => intro z o i hj; rw [jobs_eq] at hj; rw [hors]; exact h.B1 z o i hj
  case B2 => intro z o i hj; rw [hors]; exact h.B2 z o i ((same _ (by trivial)).mp hj)
  case T => intro z o i; rw [csame _ (by trivial), jobs_eq]; exact h.T z o i
  case T2 => intro z o; rw [csame _ (by trivial)]; exact h.T2 z o
  case ORD =>
    intro u hu; rw [hors]
    exact hord u hu
  case F =>
    intro o hj; rw [hors] at hj ⊢
    have hj0 := (same _ (by trivial)).mp hj
    have ho : o < s.nOr := hl.M2o _ _ o hj0 rfl rfl
    obtain ⟨f1, f2, f3, f4⟩ := h.F o hj0
    exact ⟨f1, by rw [jobs_eq]; exact f2, fun hh => f3 ((same _ (by trivial)).mp hh), fun z i hh => f4 z i ((same _ (by trivial)).mp hh)⟩
  case AL =>
    intro d j hj
    rcases hsub _ hj with h1 | h1
    · exact hal d j h1
    · have hd : d < s.nSig := hl.M1 _ d h1 (by simp [Act.sigs])
      rw [(hsig d (by omega)).2.2]; exact h.AL d j h1
  case C =>
    intro z o i hj; rw [jobs_eq] at hj
    have ho : o < s.nOr := hl.M3o z _ o hj rfl
    unfold Guard; rw [hors, jobs_eq, (hsig _ (tgt_ne o ho)).2.1, (hsig _ (tgt_ne o ho)).2.2]
    rcases h.C z o i hj with g | g | g | g
    · exact Or.inl ⟨g.1, (same _ (by trivial)).mpr g.2⟩
    · exact Or.inr (Or.inl g)
    · exact Or.inr (Or.inr (Or.inl ⟨g.1, (same _ (by trivial)).mpr g.2⟩))
    · exact Or.inr (Or.inr (Or.inr ((same _ (by trivial)).mpr g)))

/-- when `then(cleanup)` of an OrSignal is next to run, none of its `then(hook)` is still pending anywhere -/
theorem no_hook_then_at_cl_head {s : State} (h : InvH s) {t c o : Nat} {rest : List Act} (ht : t < NT)
    (hs : s.todo t = Act.thenJ c (.orCleanup o) :: rest) (hc : c = (s.ors o).target) (z i : Nat) :
    ¬ InTodos s (.thenJ z (.orHook o i)) := by
  rintro ⟨u, hu, hm⟩
  have hcl : Act.thenJ (s.ors o).target (.orCleanup o) ∈ s.todo u := (h.ORD u hu).mem hm
  rw [← hc] at hcl
  have hT2 := h.T2 c o
  by_cases hut : u = t
  · subst hut
    rw [hs] at hm hcl
    -- the hook is in `rest`, and the cleanup follows it: a second copy
    have hmr : Act.thenJ z (.orHook o i) ∈ rest := by
      rcases List.mem_cons.mp hm with h1 | h1
      · cases h1
      · exact h1
    have hord := h.ORD u hu
    rw [hs] at hord
    obtain ⟨l1, l2, he⟩ := List.append_of_mem hmr
    have h2 : Act.thenJ (s.ors o).target (.orCleanup o) ∈ l2 := hord (Act.thenJ c (.orCleanup o) :: l1) l2 z o i (by rw [he]; rfl)
    rw [← hc] at h2
    have hcount : 2 ≤ (s.todo u).count (Act.thenJ c (.orCleanup o)) := by
      rw [hs, he, List.count_cons_self, List.count_append, List.count_cons]
      have : 0 < List.count (Act.thenJ c (.orCleanup o)) l2 := List.count_pos_iff.mpr h2
      omega
    have := cnt_ge_count (s := s) (a := Act.thenJ c (.orCleanup o)) hu
    omega
  · have h1 : 0 < (s.todo u).count (Act.thenJ c (.orCleanup o)) := List.count_pos_iff.mpr hcl
    have h2 : 0 < (s.todo t).count (Act.thenJ c (.orCleanup o)) := by rw [hs]; simp
    have := cnt_ge_two (s := s) (a := Act.thenJ c (.orCleanup o)) hu ht hut
    omega

end MoThreads.Composite
