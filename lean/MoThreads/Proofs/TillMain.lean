import MoThreads.Proofs.TillC_c0
import MoThreads.Proofs.TillC_c1
import MoThreads.Proofs.TillC_c2
import MoThreads.Proofs.TillC_c3
import MoThreads.Proofs.TillC_c3b
import MoThreads.Proofs.TillC_c4
import MoThreads.Proofs.TillC_c5
import MoThreads.Proofs.TillD_asleep
import MoThreads.Proofs.TillD_d0
import MoThreads.Proofs.TillD_d1
import MoThreads.Proofs.TillD_d2
import MoThreads.Proofs.TillD_d3
import MoThreads.Proofs.TillD_d3r
import MoThreads.Proofs.TillD_d4
import MoThreads.Proofs.TillD_d5
import MoThreads.Proofs.TillD_d6
import MoThreads.Proofs.TillD_d6r
import MoThreads.Proofs.TillD_d7
import MoThreads.Proofs.TillD_d8r
import MoThreads.Proofs.TillD_d8w
import MoThreads.Proofs.TillD_d9
import MoThreads.Proofs.TillD_f0
import MoThreads.Proofs.TillD_f1
import MoThreads.Proofs.TillD_f2
import MoThreads.Proofs.TillD_f2r
import MoThreads.Proofs.TillD_f3
import MoThreads.Proofs.TillD_start
namespace MoThreads.Till
set_option maxHeartbeats 2000000

theorem inv_stepD {s s' : State} {l : Label} (h : Inv s) (hs : stepD s = some (s', l)) : Inv s' := by
  cases hp : s.dpc with
  | start  => exact stepD_start h hp hs
  | d0  => exact stepD_d0 h hp hs
  | d1  => exact stepD_d1 h hp hs
  | d2 n => exact stepD_d2 h hp hs
  | d3 n => exact stepD_d3 h hp hs
  | d3r n later => exact stepD_d3r h hp hs
  | d4 n later => exact stepD_d4 h hp hs
  | asleep w => exact stepD_asleep h hp hs
  | d5 n => exact stepD_d5 h hp hs
  | d6 n => exact stepD_d6 h hp hs
  | d6r n new => exact stepD_d6r h hp hs
  | d7 n new => exact stepD_d7 h hp hs
  | d8r work => exact stepD_d8r h hp hs
  | d8w work v => exact stepD_d8w h hp hs
  | d9 work => exact stepD_d9 h hp hs
  | f0  => exact stepD_f0 h hp hs
  | f1  => exact stepD_f1 h hp hs
  | f2  => exact stepD_f2 h hp hs
  | f2r nw => exact stepD_f2r h hp hs
  | f3 work => exact stepD_f3 h hp hs
  | done => unfold stepD at hs; rw [hp] at hs; cases hs

theorem inv_stepC {s s' : State} {t : Nat} {l : Label} (h : Inv s) (ht : t ≠ 0) (hs : stepC s t = some (s', l)) : Inv s' := by
  cases hp : s.cpc t with
  | idle => unfold stepC at hs; rw [hp] at hs; cases hs
  | c0 secs g0 => exact stepC_c0 h ht hp hs
  | c0a secs g0 => exact stepC_c0a h ht hp hs
  | c1 secs => exact stepC_c1 h ht hp hs
  | c2 d id => exact stepC_c2 h ht hp hs
  | c3 d id => exact stepC_c3 h ht hp hs
  | c3b d id g0 => exact stepC_c3b h ht hp hs
  | c4 id late => exact stepC_c4 h ht hp hs
  | c5 id => exact stepC_c5 h ht hp hs

theorem inv_step {s s' : State} {t : Nat} {l : Label} (h : Inv s) (hs : step s t = some (s', l)) : Inv s' := by
  unfold step at hs
  split at hs
  · exact inv_stepD h hs
  · rename_i ht; exact inv_stepC h ht hs

theorem inv_call {s s' : State} {t : Nat} {secs : Int} (h : Inv s) (hc : callTill s t secs = some s') : Inv s' := by
  unfold callTill at hc
  split at hc
  · cases hc
  · rename_i ht
    split at hc
    · rename_i hp; cases hc
      copen
      case Mk =>
        intro u id' hu
        by_cases hut : u = t
        · subst hut; simp [CPC.making] at hu
        · simp only [hut, if_false] at hu; exact Mk u id' hu
      case Un =>
        intro u id' hu
        by_cases hut : u = t
        · subst hut; simp [CPC.unregistered] at hu
        · simp only [hut, if_false] at hu; exact Un u id' hu
      case Dd =>
        intro u d' id' hu
        by_cases hut : u = t
        · subst hut; simp [CPC.pend] at hu
        · simp only [hut, if_false] at hu; exact Dd u d' id' hu
      case F1 =>
        intro u d' id' hu
        by_cases hut : u = t
        · subst hut; simp at hu
        · simp only [hut, if_false] at hu; exact F1 u d' id' hu
      case Rg =>
        intro u id' hu
        by_cases hut : u = t
        · subst hut; simp at hu
        · simp only [hut, if_false] at hu; exact Rg u id' hu
      case lkt =>
        intro u hu
        by_cases hut : u = t
        · subst hut; simp only [if_true, CPC.holds]
          have := lkt u hu; rw [hp] at this; simpa [CPC.holds] using this
        · simp only [hut, if_false]; exact lkt u hu
      case F3 =>
        intro id' h1 h2 h3
        have h4 := F3 id' h1 h2 h3
        by_cases hmt : s.maker id' = t
        · rw [hmt, hp] at h4; simp [CPC.making] at h4
        · simp only [hmt, if_false]; exact h4
      case cz => simp [Ne.symm ht, cz]
      all_goals finC
    · cases hc


theorem inv_callAbs {s s' : State} {t : Nat} {secs : Int} (h : Inv s) (hc : callTillAbs s t secs = some s') : Inv s' := by
  unfold callTillAbs at hc
  split at hc
  · cases hc
  · rename_i ht
    split at hc
    · rename_i hp; cases hc
      copen
      case Mk =>
        intro u id' hu
        by_cases hut : u = t
        · subst hut; simp [CPC.making] at hu
        · simp only [hut, if_false] at hu; exact Mk u id' hu
      case Un =>
        intro u id' hu
        by_cases hut : u = t
        · subst hut; simp [CPC.unregistered] at hu
        · simp only [hut, if_false] at hu; exact Un u id' hu
      case Dd =>
        intro u d' id' hu
        by_cases hut : u = t
        · subst hut; simp [CPC.pend] at hu
        · simp only [hut, if_false] at hu; exact Dd u d' id' hu
      case F1 =>
        intro u d' id' hu
        by_cases hut : u = t
        · subst hut; simp at hu
        · simp only [hut, if_false] at hu; exact F1 u d' id' hu
      case Rg =>
        intro u id' hu
        by_cases hut : u = t
        · subst hut; simp at hu
        · simp only [hut, if_false] at hu; exact Rg u id' hu
      case lkt =>
        intro u hu
        by_cases hut : u = t
        · subst hut; simp only [if_true, CPC.holds]
          have := lkt u hu; rw [hp] at this; simpa [CPC.holds] using this
        · simp only [hut, if_false]; exact lkt u hu
      case F3 =>
        intro id' h1 h2 h3
        have h4 := F3 id' h1 h2 h3
        by_cases hmt : s.maker id' = t
        · rw [hmt, hp] at h4; simp [CPC.making] at h4
        · simp only [hmt, if_false]; exact h4
      case cz => simp [Ne.symm ht, cz]
      all_goals finC
    · cases hc

theorem inv_requestStop {s : State} (h : Inv s) : Inv (requestStop s) := by
  unfold requestStop
  obtain ⟨Ipos, cz, lk0, lkt, g1, g2, M, A, S, W, N, P, V, L, Nw, E, B, C, Tr, Due, Loc, Ea, F1, F1', F2, F3, Fr, Rc, Mk, Un, Dd, Rg⟩ := h
  constructor <;> assumption

theorem inv_tick {s : State} {d : Int} (h : Inv s) (hk : tickOk s d) : Inv (tick s d) := by
  obtain ⟨hd, hw, hidle⟩ := hk
  unfold tick
  obtain ⟨Ipos, cz, lk0, lkt, g1, g2, M, A, S, W, N, P, V, L, Nw, E, B, C, Tr, Due, Loc, Ea, F1, F1', F2, F3, Fr, Rc, Mk, Un, Dd, Rg⟩ := h
  constructor <;> (try assumption) <;> dsimp only
  · omega
  · intro hnd
    rcases hw with ⟨w, hw1, hw2⟩ | hw
    · have := W w hw1; omega
    · exact absurd hw hnd
  · intro n hn
    rcases hw with ⟨w, hw1, hw2⟩ | hw <;> simp_all [DPC.clockLocal]
  · intro hsc
    rcases hw with ⟨w, hw1, hw2⟩ | hw <;> simp_all [DPC.scanning]
  · intro hdw
    rcases hw with ⟨w, hw1, hw2⟩ | hw <;> simp_all [DPC.dueWork]

theorem reach_inv {s : State} (h : sys.Reach s) : Inv s := by
  refine Sys.Reach.invariant sys (P := Inv) ?_ ?_ ?_ h
  · rintro s ⟨I, hI, rfl⟩; exact inv_init I hI
  · rintro s s' hi (⟨t, secs, hc⟩ | ⟨t, secs, hc⟩ | rfl | ⟨d, hk, rfl⟩)
    · exact inv_call hi hc
    · exact inv_callAbs hi hc
    · exact inv_requestStop hi
    · exact inv_tick hi hk
  · intro s s' t l hi hs; exact inv_step hi hs

end MoThreads.Till
