import MoThreads.Proofs.TillTac
namespace MoThreads.Till
set_option maxHeartbeats 4000000

theorem stepD_f3 {s s' : State} {l : Label} {work : List Timer} (h : Inv s) (hp : s.dpc = .f3 work) (hs : stepD s = some (s', l)) : Inv s' := by
  unfold stepD at hs; rw [hp] at hs; simp only at hs
  cases work with
  | nil => cases hs; dcase
  | cons x rest =>
    cases hs
    have hE := h.E x (by simp [hp, DPC.transit])
    have hUn : ∀ t, (s.cpc t).unregistered ≠ some x.2 := fun t ht => by have := (h.Un t x.2 ht).1; simp [hE.2] at this
    have hFr : x.2 < s.nextId := by
      apply Nat.lt_of_not_le; intro hc; have := (h.Fr x.2 hc).2.1; simp [hE.2] at this
    unfold fireId
    by_cases hf : s.fired x.2 = true
    · simp only [hf, if_true]
      inv_open
      all_goals dsimp only
      all_goals try assumption
      all_goals (simp only [hp] at *; pcsimpD)
      all_goals fin2
    · simp only [hf, if_false]
      inv_open
      all_goals dsimp only
      all_goals try assumption
      all_goals (simp only [hp] at *; pcsimpD)
      all_goals fin2
end MoThreads.Till
