/-
  M10 (PyProxy): a ranking function for runs without new calls.  Every request line consumed by the worker and
  every reply line consumed by the reader pays for the steps it causes.
-/
import MoThreads.Model.PyProxy
namespace MoThreads.PyProxy
open MoThreads

def rkC : CPC → Nat
  | .idle _ => 0
  | .c0 _ => 24 | .c1 _ => 23 | .c2 _ _ => 22 | .c3 _ _ => 21 | .c4 _ _ => 20 | .c5 _ => 7
  | .c6 => 6 | .c6b => 5 | .c7 => 5 | .c8 _ => 4 | .c9 _ => 3 | .c10 _ => 2 | .c11 _ => 1

def rkR : RPC → Nat
  | .r0 => 0 | .r1 _ => 3 | .e1 => 3 | .r2 => 2

def rkW : WPC → Nat
  | .w0 => 0 | .w1 _ => 9

def rank (N : Nat) (s : State) : Nat :=
  sumTo N (fun t => rkC (s.cpc t)) + 12 * s.inQ.length + 4 * s.outQ.length + rkR s.rpc + rkW s.wpc

def Below (N : Nat) (s : State) : Prop := ∀ t, N ≤ t → rkC (s.cpc t) = 0

theorem sum_lt_of (N : Nat) (f g : Nat → Nat) (t : Nat) (ht : t < N) (ho : ∀ u, u ≠ t → g u = f u) :
    sumTo N g + f t = sumTo N f + g t := by
  have := sumTo_update (n := N) (t := t) (f := f) (g := g) ht (fun i hi => (ho i hi).symm)
  omega

theorem rank_lt_ofC (N : Nat) (s s' : State) (t : Nat) (p' : CPC) (hpc : ∀ u, s'.cpc u = if u = t then p' else s.cpc u) (ht : t < N)
    (hdec : rkC p' + 12 * s'.inQ.length + 4 * s'.outQ.length + rkR s'.rpc + rkW s'.wpc
          < rkC (s.cpc t) + 12 * s.inQ.length + 4 * s.outQ.length + rkR s.rpc + rkW s.wpc) : rank N s' < rank N s := by
  have h := sum_lt_of N (fun u => rkC (s.cpc u)) (fun u => rkC (s'.cpc u)) t ht (by intro u hu; simp [hpc u, hu])
  have h2 : rkC (s'.cpc t) = rkC p' := by rw [hpc t, if_pos rfl]
  unfold rank
  omega

set_option hygiene false in
macro "rkc" : tactic => `(tactic| (
  refine rank_lt_ofC N _ _ t _ (fun u => rfl) ht ?_
  simp only [State.setC, hp, apply_ite rkC, List.length_append, List.length_cons, List.length_nil]
  simp only [rkC]
  (try split) <;> omega))

theorem rank_stepC {N : Nat} {s s' : State} {t : Nat} {l : Label} (ht : t < N) (hs : stepC s t = some (s', l)) :
    rank N s' < rank N s := by
  unfold stepC at hs
  cases hp : s.cpc t with
  | idle r => rw [hp] at hs; cases hs
  | c0 q => rw [hp] at hs; simp only at hs; split at hs <;> (first | (cases hs; done) | (cases hs; rkc))
  | c5 k => rw [hp] at hs; simp only at hs; split at hs <;> (first | (cases hs; done) | (cases hs; rkc))
  | _ => rw [hp] at hs; cases hs; rkc

theorem rank_stepR {N : Nat} {s s' : State} {l : Label} (hs : stepR s = some (s', l)) : rank N s' < rank N s := by
  unfold stepR at hs
  cases hp : s.rpc with
  | r0 =>
    rw [hp] at hs; simp only at hs
    cases hq : s.outQ with
    | nil => rw [hq] at hs; cases hs
    | cons x rest =>
      rw [hq] at hs
      cases x <;> (cases hs; simp only [rank, hp, hq, rkR, List.length_cons]; omega)
  | r1 v => rw [hp] at hs; cases hs; simp only [rank, hp, rkR]; omega
  | e1 => rw [hp] at hs; cases hs; simp only [rank, hp, rkR]; omega
  | r2 =>
    rw [hp] at hs; simp only at hs
    cases hd : s.done <;> (rw [hd] at hs; cases hs; simp only [rank, hp, rkR]; omega)

theorem rank_stepW {N : Nat} {s s' : State} {l : Label} (hs : stepW s = some (s', l)) : rank N s' < rank N s := by
  unfold stepW at hs
  cases hp : s.wpc with
  | w0 =>
    rw [hp] at hs; simp only at hs
    cases hq : s.inQ with
    | nil => rw [hq] at hs; cases hs
    | cons q rest => rw [hq] at hs; cases hs; simp only [rank, hp, hq, rkW, List.length_cons]; omega
  | w1 q =>
    rw [hp] at hs; cases hs
    simp only [rank, hp, rkW, List.length_append]
    split <;> simp <;> omega

theorem stepC_pc_other {s s' : State} {t : Nat} {l : Label} (hs : stepC s t = some (s', l)) (u : Nat) (hu : u ≠ t) : s'.cpc u = s.cpc u := by
  unfold stepC at hs
  cases hp : s.cpc t <;> rw [hp] at hs <;> simp only at hs <;> (try split at hs) <;> (try (cases hs; done)) <;>
    (cases hs; simp [State.setC, hu])

theorem stepC_rk_pos {s s' : State} {t : Nat} {l : Label} (hs : stepC s t = some (s', l)) : rkC (s.cpc t) ≠ 0 := by
  unfold stepC at hs
  cases hp : s.cpc t <;> rw [hp] at hs <;> simp [rkC] at hs ⊢

theorem stepR_cpc {s s' : State} {l : Label} (hs : stepR s = some (s', l)) : s'.cpc = s.cpc := by
  unfold stepR at hs
  cases hp : s.rpc <;> rw [hp] at hs <;> simp only at hs
  · cases hq : s.outQ with
    | nil => rw [hq] at hs; cases hs
    | cons x rest => rw [hq] at hs; cases x <;> (cases hs; rfl)
  · cases hs; rfl
  · cases hs; rfl
  · cases hd : s.done <;> (rw [hd] at hs; cases hs; rfl)

theorem stepW_cpc {s s' : State} {l : Label} (hs : stepW s = some (s', l)) : s'.cpc = s.cpc := by
  unfold stepW at hs
  cases hp : s.wpc <;> rw [hp] at hs <;> simp only at hs
  · cases hq : s.inQ with
    | nil => rw [hq] at hs; cases hs
    | cons x rest => rw [hq] at hs; cases hs; rfl
  · cases hs; rfl

/-- every run without new calls takes at most `rank N s` steps (N bounds the ids of the calling threads in a call) -/
theorem run_length_le_rank {N : Nat} {s s' : State} {tr : List (Nat × Label)} (hb : Below N s) (r : sys.Run s tr s') :
    tr.length + rank N s' ≤ rank N s :=
  Sys.Run.length_le_rank_inv sys (rank N) (Below N)
    (fun s s' t l hP hs u hu => by
      change step s t = some (s', l) at hs
      unfold step at hs
      split at hs
      · rw [stepR_cpc hs]; exact hP u hu
      · split at hs
        · rw [stepW_cpc hs]; exact hP u hu
        · by_cases hut : u = t
          · subst hut; exact absurd (hP u hu) (stepC_rk_pos hs)
          · rw [stepC_pc_other hs u hut]; exact hP u hu)
    (fun s s' t l hP hs => by
      change step s t = some (s', l) at hs
      unfold step at hs
      split at hs
      · exact rank_stepR hs
      · split at hs
        · exact rank_stepW hs
        · have ht : t < N := by
            rcases Nat.lt_or_ge t N with h | h
            · exact h
            · exact absurd (hP t h) (stepC_rk_pos hs)
          exact rank_stepC ht hs) r hb

end MoThreads.PyProxy
