/-
  M2: the AND countdown (C04): a composite `x & y` agrees with its operands at quiescence.
-/
import MoThreads.Proofs.CompIff
namespace MoThreads.Composite
set_option maxHeartbeats 2000000

/-- in how many places the countdown token of operand `i` (which is `d`) of AndSignals `n` currently is:
still to be registered, registered on `d`, or detached and queued to run -/
def liveA (s : State) (n i d : Nat) : Nat :=
  cnt s (.thenJ d (.andDone n i)) + (s.sigs d).jobs.count (.andDone n i) + cnt s (.run (.andDone n i))

/-- what operand `i` still contributes to the countdown -/
def wA (s : State) (n i d : Nat) : Nat :=
  if liveA s n i d = 1 then 1 else if (s.sigs d).go then 0 else 1

structure InvA (s : State) : Prop where
  D2a : ∀ n, n < s.nAnd → ∃ x y, (s.ands n).deps0 = [x, y]
  PA1 : ∀ z n i, Job.andDone n i ∈ (s.sigs z).jobs → (s.ands n).deps0[i]? = some z
  PA2 : ∀ z n i, InTodos s (.thenJ z (.andDone n i)) → (s.ands n).deps0[i]? = some z
  TA  : ∀ n i d, (s.ands n).deps0[i]? = some d → liveA s n i d ≤ 1
  RG  : ∀ n i, InTodos s (.run (.andDone n i)) → ∃ d, (s.ands n).deps0[i]? = some d ∧ (s.sigs d).go = true
  LD  : ∀ n i d, n < s.nAnd → (s.ands n).deps0[i]? = some d → liveA s n i d = 0 → (s.sigs d).go = false → (s.sigs d).alive = false
  GS  : ∀ z df, InTodos s (.goS z df) → (s.sigs z).alive = true
  RAt : ∀ a j n, InTodos s a → a.job = some j → j.andObj = some n → (s.sigs (s.ands n).target).alive = true
  RAj : ∀ z j n, (s.sigs z).alive = true → j ∈ (s.sigs z).jobs → j.andObj = some n → (s.sigs (s.ands n).target).alive = true
  W   : ∀ n x y, n < s.nAnd → (s.ands n).deps0 = [x, y] → (s.ands n).remaining = wA s n 0 x + wA s n 1 y
  Z   : ∀ n, n < s.nAnd → (s.ands n).remaining = 0 → (s.sigs (s.ands n).target).go = true ∨ InTodos s (.goS (s.ands n).target false)
  TGA : ∀ z, InTodos s (.goS z false) → ∀ n, (s.sigs z).built = .andOut n → ∀ d, d ∈ (s.ands n).deps0 → (s.sigs d).go = true
  GA1 : ∀ z n, z < s.nSig → (s.sigs z).built = .andOut n → (s.sigs z).go = true → (s.sigs z).direct = false →
          ∀ d, d ∈ (s.ands n).deps0 → (s.sigs d).go = true

theorem invA_init : InvA init := by
  constructor
  case D2a => intro n h; simp [init] at h
  case PA1 => intro z n i h; rw [init_jobs] at h; cases h
  case PA2 => intro z n i h; exact absurd h (inTodos_init _)
  case TA => intro n i d _; simp [liveA, init_jobs, cnt_zero.mpr (inTodos_init _)]
  case RG => intro n i h; exact absurd h (inTodos_init _)
  case LD => intro n i d h; simp [init] at h
  case GS => intro z df h; exact absurd h (inTodos_init _)
  case RAt => intro a j n h; exact absurd h (inTodos_init _)
  case RAj => intro z j n _ h; rw [init_jobs] at h; cases h
  case W => intro n x y h; simp [init] at h
  case Z => intro n h; simp [init] at h
  case TGA => intro z h; exact absurd h (inTodos_init _)
  case GA1 => intro z n _ hb; rw [init_built] at hb; cases hb

/-- the action carries a job of an AndSignals object -/
def Act.andJob (a : Act) : Option Nat := a.job.bind Job.andObj

theorem cnt_same_of {s s' : State} {t : Nat} {a0 : Act} {rest new : List Act} (st : TodoStep s s' t a0 rest new) (b : Act)
    (h0 : b ≠ a0) (hn : b ∉ new) : cnt s' b = cnt s b := st.cnt_same h0 hn

/-- a step that does not touch job lists, flags, liveness (except for a fresh signal `f`), AndSignals objects or any of their
actions; it may push `go()` calls on live signals (not on AND composites unless directly) -/
theorem invA_neutral {s s' : State} {t : Nat} {a0 : Act} {rest new : List Act} (hl : InvL s) (ha : InvA s)
    (st : TodoStep s s' t a0 rest new) (ex : Ext s s') (f : Nat) (hf : s.nSig ≤ f)
    (hsig : ∀ z, z ≠ f → (s'.sigs z).go = (s.sigs z).go ∧ (s'.sigs z).alive = (s.sigs z).alive ∧ (s'.sigs z).direct = (s.sigs z).direct)
    (hjobs : ∀ z j, j.andObj ≠ none → (s'.sigs z).jobs.count j = (s.sigs z).jobs.count j)
    (hands : ∀ n, (s'.ands n).target = (s.ands n).target ∧ (s'.ands n).deps0 = (s.ands n).deps0 ∧ (s'.ands n).remaining = (s.ands n).remaining)
    (hnand : s'.nAnd = s.nAnd)
    (ha0t : ∀ d n i, a0 ≠ .thenJ d (.andDone n i)) (ha0r : ∀ n i, a0 ≠ .run (.andDone n i)) (ha0g : ∀ z df, a0 ≠ .goS z df)
    (hnewj : ∀ b, b ∈ new → b.andJob = none)
    (hnewg : ∀ z df, Act.goS z df ∈ new → z < s.nSig ∧ (s.sigs z).alive = true ∧ (df = false → ∀ n, (s.sigs z).built ≠ .andOut n)) : InvA s' := by
  have jobs_mem : ∀ z j, j.andObj ≠ none → (j ∈ (s'.sigs z).jobs ↔ j ∈ (s.sigs z).jobs) := by
    intro z j hj
    rw [← List.count_pos_iff, ← List.count_pos_iff, hjobs z j hj]
  have andact : ∀ b, b.andJob ≠ none → (InTodos s' b → InTodos s b) ∧ (b ≠ a0 → cnt s' b = cnt s b) := by
    intro b hb
    have hn : b ∉ new := fun hm => hb (hnewj b hm)
    exact ⟨fun hh => (st.sub hh).resolve_left hn, fun h0 => st.cnt_same h0 hn⟩
  have live_eq : ∀ n i d, liveA s' n i d = liveA s n i d := by
    intro n i d; unfold liveA
    rw [(andact (.thenJ d (.andDone n i)) (by simp [Act.andJob, Act.job, Job.andObj])).2 (fun he => ha0t d n i he.symm),
        (andact (.run (.andDone n i)) (by simp [Act.andJob, Act.job, Job.andObj])).2 (fun he => ha0r n i he.symm), hjobs d _ (by simp [Job.andObj])]
  have lt_ne : ∀ z, z < s.nSig → z ≠ f := fun z hz => by omega
  have w_eq : ∀ n i d, d < s.nSig → wA s' n i d = wA s n i d := by
    intro n i d hd; unfold wA; rw [live_eq, (hsig d (lt_ne d hd)).1]
  have dep_lt : ∀ n i d, n < s.nAnd → (s.ands n).deps0[i]? = some d → d < s.nSig := fun n i d hn hd =>
    (hl.F7 n hn).1 d (mem_of_getElem?_eq_some hd)
  constructor
  case D2a => intro n hn; rw [(hands n).2.1]; rw [hnand] at hn; exact ha.D2a n hn
  case PA1 => intro z n i hj; rw [(hands n).2.1]; exact ha.PA1 z n i ((jobs_mem z _ (by simp [Job.andObj])).mp hj)
  case PA2 =>
    intro z n i hj; rw [(hands n).2.1]
    exact ha.PA2 z n i ((andact _ (by simp [Act.andJob, Act.job, Job.andObj])).1 hj)
  case TA => intro n i d hd; rw [(hands n).2.1] at hd; rw [live_eq]; exact ha.TA n i d hd
  case RG =>
    intro n i hj; rw [(hands n).2.1]
    have hj0 := (andact _ (by simp [Act.andJob, Act.job, Job.andObj])).1 hj
    obtain ⟨d, hd, hg⟩ := ha.RG n i hj0
    have hn : n < s.nAnd := hl.M2a _ _ n hj0 rfl rfl
    exact ⟨d, hd, by rw [(hsig d (lt_ne d (dep_lt n i d hn hd))).1]; exact hg⟩
  case LD =>
    intro n i d hn hd hlive hgo
    rw [hnand] at hn; rw [(hands n).2.1] at hd
    have hdl := dep_lt n i d hn hd
    rw [live_eq] at hlive; rw [(hsig d (lt_ne d hdl)).1] at hgo; rw [(hsig d (lt_ne d hdl)).2.1]
    exact ha.LD n i d hn hd hlive hgo
  case GS =>
    intro z df hj
    rcases st.sub hj with h1 | h1
    · obtain ⟨hz, hal, _⟩ := hnewg z df h1
      rw [(hsig z (lt_ne z hz)).2.1]; exact hal
    · have hz : z < s.nSig := hl.M1 _ z h1 (by simp [Act.sigs])
      rw [(hsig z (lt_ne z hz)).2.1]; exact ha.GS z df h1
  case RAt =>
    intro a j n hj hjob hobj
    have hne : a.andJob ≠ none := by simp [Act.andJob, hjob, hobj]
    have hj0 := (andact a hne).1 hj
    have hn : n < s.nAnd := hl.M2a a j n hj0 hjob hobj
    rw [(hands n).1, (hsig _ (lt_ne _ (hl.F2 n hn).1)).2.1]; exact ha.RAt a j n hj0 hjob hobj
  case RAj =>
    intro z j n hal hj hobj
    have hj := (jobs_mem z j (by rw [hobj]; simp)).mp hj
    have hn : n < s.nAnd := hl.M3a z j n hj hobj
    have hzf : z ≠ f := by
      intro he; subst he; rw [(hl.F5 z hf).2.1] at hj; cases hj
    rw [(hsig z hzf).2.1] at hal
    rw [(hands n).1, (hsig _ (lt_ne _ (hl.F2 n hn).1)).2.1]; exact ha.RAj z j n hal hj hobj
  case W =>
    intro n x y hn hxy
    rw [hnand] at hn; rw [(hands n).2.1] at hxy; rw [(hands n).2.2]
    have hx : x < s.nSig := (hl.F7 n hn).1 x (by rw [hxy]; simp)
    have hy : y < s.nSig := (hl.F7 n hn).1 y (by rw [hxy]; simp)
    rw [w_eq n 0 x hx, w_eq n 1 y hy]; exact ha.W n x y hn hxy
  case Z =>
    intro n hn hr
    rw [hnand] at hn; rw [(hands n).2.2] at hr; rw [(hands n).1]
    rw [(hsig _ (lt_ne _ (hl.F2 n hn).1)).1]
    rcases ha.Z n hn hr with h1 | h1
    · exact Or.inl h1
    · exact Or.inr (st.keep h1 (fun he => ha0g _ _ he.symm))
  case TGA =>
    intro z hj n hb d hd
    rw [(hands n).2.1] at hd
    rcases st.sub hj with h1 | h1
    · obtain ⟨hz, _, hnb⟩ := hnewg z false h1
      rw [ex.built z hz] at hb
      exact absurd hb (hnb rfl n)
    · have hz : z < s.nSig := hl.M1 _ z h1 (by simp [Act.sigs])
      rw [ex.built z hz] at hb
      have hn := (hl.F4 z n hb).1
      have hdl : d < s.nSig := (hl.F7 n hn).1 d hd
      rw [(hsig d (lt_ne d hdl)).1]; exact ha.TGA z h1 n hb d hd
  case GA1 =>
    intro z n hz hb hgo hdir d hd
    rw [(hands n).2.1] at hd
    by_cases hzs : z < s.nSig
    · rw [ex.built z hzs] at hb
      have hn := (hl.F4 z n hb).1
      have hdl : d < s.nSig := (hl.F7 n hn).1 d hd
      rw [(hsig z (lt_ne z hzs)).1] at hgo; rw [(hsig z (lt_ne z hzs)).2.2] at hdir
      rw [(hsig d (lt_ne d hdl)).1]; exact ha.GA1 z n hzs hb hgo hdir d hd
    · have := (ex.fresh z (by omega) hz).2; rw [hgo] at this; cases this

/-- the same for actions pushed by the environment; a step that does not touch job lists, flags, liveness (except for a fresh signal `f`), AndSignals objects or any of their
actions; it may push `go()` calls on live signals (not on AND composites unless directly) -/
theorem invA_neutral_push {s s' : State} {new : List Act} (hl : InvL s) (ha : InvA s)
    (hsub : ∀ b, InTodos s' b → b ∈ new ∨ InTodos s b) (hkeep : ∀ b, InTodos s b → InTodos s' b)
    (hcnt : ∀ b, cnt s' b = cnt s b + new.count b) (ex : Ext s s') (f : Nat) (hf : s.nSig ≤ f)
    (hsig : ∀ z, z ≠ f → (s'.sigs z).go = (s.sigs z).go ∧ (s'.sigs z).alive = (s.sigs z).alive ∧ (s'.sigs z).direct = (s.sigs z).direct)
    (hjobs : ∀ z j, j.andObj ≠ none → (s'.sigs z).jobs.count j = (s.sigs z).jobs.count j)
    (hands : ∀ n, (s'.ands n).target = (s.ands n).target ∧ (s'.ands n).deps0 = (s.ands n).deps0 ∧ (s'.ands n).remaining = (s.ands n).remaining)
    (hnand : s'.nAnd = s.nAnd)
    (hnewj : ∀ b, b ∈ new → b.andJob = none)
    (hnewg : ∀ z df, Act.goS z df ∈ new → z < s.nSig ∧ (s.sigs z).alive = true ∧ (df = false → ∀ n, (s.sigs z).built ≠ .andOut n)) : InvA s' := by
  have jobs_mem : ∀ z j, j.andObj ≠ none → (j ∈ (s'.sigs z).jobs ↔ j ∈ (s.sigs z).jobs) := by
    intro z j hj
    rw [← List.count_pos_iff, ← List.count_pos_iff, hjobs z j hj]
  have andact : ∀ b, b.andJob ≠ none → (InTodos s' b ↔ InTodos s b) ∧ cnt s' b = cnt s b := by
    intro b hb
    have hn : b ∉ new := fun hm => hb (hnewj b hm)
    exact ⟨⟨fun hh => (hsub b hh).resolve_left hn, hkeep b⟩, by rw [hcnt b, List.count_eq_zero.mpr hn]; rfl⟩
  have live_eq : ∀ n i d, liveA s' n i d = liveA s n i d := by
    intro n i d; unfold liveA
    rw [(andact (.thenJ d (.andDone n i)) (by simp [Act.andJob, Act.job, Job.andObj])).2,
        (andact (.run (.andDone n i)) (by simp [Act.andJob, Act.job, Job.andObj])).2, hjobs d _ (by simp [Job.andObj])]
  have lt_ne : ∀ z, z < s.nSig → z ≠ f := fun z hz => by omega
  have w_eq : ∀ n i d, d < s.nSig → wA s' n i d = wA s n i d := by
    intro n i d hd; unfold wA; rw [live_eq, (hsig d (lt_ne d hd)).1]
  have dep_lt : ∀ n i d, n < s.nAnd → (s.ands n).deps0[i]? = some d → d < s.nSig := fun n i d hn hd =>
    (hl.F7 n hn).1 d (mem_of_getElem?_eq_some hd)
  constructor
  case D2a => intro n hn; rw [(hands n).2.1]; rw [hnand] at hn; exact ha.D2a n hn
  case PA1 => intro z n i hj; rw [(hands n).2.1]; exact ha.PA1 z n i ((jobs_mem z _ (by simp [Job.andObj])).mp hj)
  case PA2 =>
    intro z n i hj; rw [(hands n).2.1]
    exact ha.PA2 z n i ((andact _ (by simp [Act.andJob, Act.job, Job.andObj])).1.mp hj)
  case TA => intro n i d hd; rw [(hands n).2.1] at hd; rw [live_eq]; exact ha.TA n i d hd
  case RG =>
    intro n i hj; rw [(hands n).2.1]
    have hj0 := (andact _ (by simp [Act.andJob, Act.job, Job.andObj])).1.mp hj
    obtain ⟨d, hd, hg⟩ := ha.RG n i hj0
    have hn : n < s.nAnd := hl.M2a _ _ n hj0 rfl rfl
    exact ⟨d, hd, by rw [(hsig d (lt_ne d (dep_lt n i d hn hd))).1]; exact hg⟩
  case LD =>
    intro n i d hn hd hlive hgo
    rw [hnand] at hn; rw [(hands n).2.1] at hd
    have hdl := dep_lt n i d hn hd
    rw [live_eq] at hlive; rw [(hsig d (lt_ne d hdl)).1] at hgo; rw [(hsig d (lt_ne d hdl)).2.1]
    exact ha.LD n i d hn hd hlive hgo
  case GS =>
    intro z df hj
    rcases hsub _ hj with h1 | h1
    · obtain ⟨hz, hal, _⟩ := hnewg z df h1
      rw [(hsig z (lt_ne z hz)).2.1]; exact hal
    · have hz : z < s.nSig := hl.M1 _ z h1 (by simp [Act.sigs])
      rw [(hsig z (lt_ne z hz)).2.1]; exact ha.GS z df h1
  case RAt =>
    intro a j n hj hjob hobj
    have hne : a.andJob ≠ none := by simp [Act.andJob, hjob, hobj]
    have hj0 := (andact a hne).1.mp hj
    have hn : n < s.nAnd := hl.M2a a j n hj0 hjob hobj
    rw [(hands n).1, (hsig _ (lt_ne _ (hl.F2 n hn).1)).2.1]; exact ha.RAt a j n hj0 hjob hobj
  case RAj =>
    intro z j n hal hj hobj
    have hj := (jobs_mem z j (by rw [hobj]; simp)).mp hj
    have hn : n < s.nAnd := hl.M3a z j n hj hobj
    have hzf : z ≠ f := by
      intro he; subst he; rw [(hl.F5 z hf).2.1] at hj; cases hj
    rw [(hsig z hzf).2.1] at hal
    rw [(hands n).1, (hsig _ (lt_ne _ (hl.F2 n hn).1)).2.1]; exact ha.RAj z j n hal hj hobj
  case W =>
    intro n x y hn hxy
    rw [hnand] at hn; rw [(hands n).2.1] at hxy; rw [(hands n).2.2]
    have hx : x < s.nSig := (hl.F7 n hn).1 x (by rw [hxy]; simp)
    have hy : y < s.nSig := (hl.F7 n hn).1 y (by rw [hxy]; simp)
    rw [w_eq n 0 x hx, w_eq n 1 y hy]; exact ha.W n x y hn hxy
  case Z =>
    intro n hn hr
    rw [hnand] at hn; rw [(hands n).2.2] at hr; rw [(hands n).1]
    rw [(hsig _ (lt_ne _ (hl.F2 n hn).1)).1]
    rcases ha.Z n hn hr with h1 | h1
    · exact Or.inl h1
    · exact Or.inr (hkeep _ h1)
  case TGA =>
    intro z hj n hb d hd
    rw [(hands n).2.1] at hd
    rcases hsub _ hj with h1 | h1
    · obtain ⟨hz, _, hnb⟩ := hnewg z false h1
      rw [ex.built z hz] at hb
      exact absurd hb (hnb rfl n)
    · have hz : z < s.nSig := hl.M1 _ z h1 (by simp [Act.sigs])
      rw [ex.built z hz] at hb
      have hn := (hl.F4 z n hb).1
      have hdl : d < s.nSig := (hl.F7 n hn).1 d hd
      rw [(hsig d (lt_ne d hdl)).1]; exact ha.TGA z h1 n hb d hd
  case GA1 =>
    intro z n hz hb hgo hdir d hd
    rw [(hands n).2.1] at hd
    by_cases hzs : z < s.nSig
    · rw [ex.built z hzs] at hb
      have hn := (hl.F4 z n hb).1
      have hdl : d < s.nSig := (hl.F7 n hn).1 d hd
      rw [(hsig z (lt_ne z hzs)).1] at hgo; rw [(hsig z (lt_ne z hzs)).2.2] at hdir
      rw [(hsig d (lt_ne d hdl)).1]; exact ha.GA1 z n hzs hb hgo hdir d hd
    · have := (ex.fresh z (by omega) hz).2; rw [hgo] at this; cases this

theorem liveA_congr {s s' : State} {n i d : Nat} (h1 : cnt s' (.thenJ d (.andDone n i)) = cnt s (.thenJ d (.andDone n i)))
    (h2 : (s'.sigs d).jobs.count (.andDone n i) = (s.sigs d).jobs.count (.andDone n i))
    (h3 : cnt s' (.run (.andDone n i)) = cnt s (.run (.andDone n i))) : liveA s' n i d = liveA s n i d := by
  unfold liveA; rw [h1, h2, h3]

theorem wA_congr {s s' : State} {n i d : Nat} (h1 : liveA s' n i d = liveA s n i d) (h2 : (s'.sigs d).go = (s.sigs d).go) :
    wA s' n i d = wA s n i d := by
  unfold wA; rw [h1, h2]

/-- a pending `then(done)` of an AndSignals on an operand that is already true: the countdown step is queued -/
theorem invA_thenDone_go {s : State} {t d n i : Nat} {rest : List Act} (hl : InvL s) (ha : InvA s) (ht : t < NT)
    (hs : s.todo t = Act.thenJ d (.andDone n i) :: rest) (hgo : (s.sigs d).go = true) : InvA (s.setTodo t (.run (.andDone n i) :: rest)) := by
  let s' := s.setTodo t (.run (.andDone n i) :: rest)
  have st : TodoStep s s' t (.thenJ d (.andDone n i)) rest [.run (.andDone n i)] := ⟨ht, hs, rfl⟩
  have hd0 : InTodos s (.thenJ d (.andDone n i)) := st.head
  have hdep := ha.PA2 d n i hd0
  have hn : n < s.nAnd := hl.M2a _ _ n hd0 rfl rfl
  -- the token moves from "to be registered" to "queued"
  have c_then : cnt s' (.thenJ d (.andDone n i)) + 1 = cnt s (.thenJ d (.andDone n i)) := by
    have := st.cnt_eq (.thenJ d (.andDone n i)); simp at this; omega
  have c_run : cnt s' (.run (.andDone n i)) = cnt s (.run (.andDone n i)) + 1 := by
    have := st.cnt_eq (.run (.andDone n i)); simp at this; omega
  have c_other : ∀ b, b ≠ .thenJ d (.andDone n i) → b ≠ .run (.andDone n i) → cnt s' b = cnt s b := fun b h0 h1 =>
    st.cnt_same h0 (by simpa using h1)
  have in_other : ∀ b, b ≠ .thenJ d (.andDone n i) → b ≠ .run (.andDone n i) → (InTodos s' b ↔ InTodos s b) := fun b h0 h1 =>
    st.in_same h0 (by simpa using h1)
  have live_eq : ∀ n' i' d', (s.ands n').deps0[i']? = some d' → liveA s' n' i' d' = liveA s n' i' d' := by
    intro n' i' d' hd'
    by_cases htok : n' = n ∧ i' = i
    · obtain ⟨h1, h2⟩ := htok; subst h1; subst h2
      have : d' = d := by rw [hdep] at hd'; injection hd' with h; exact h.symm
      subst this
      unfold liveA; show cnt s' _ + (s.sigs d').jobs.count _ + cnt s' _ = _; omega
    · have hne1 : Act.thenJ d' (.andDone n' i') ≠ .thenJ d (.andDone n i) := by
        intro he; injection he with _ h2; injection h2 with h3 h4; exact htok ⟨h3, h4⟩
      have hne2 : Act.run (.andDone n' i') ≠ .run (.andDone n i) := by
        intro he; injection he with h2; injection h2 with h3 h4; exact htok ⟨h3, h4⟩
      exact liveA_congr (c_other _ hne1 (by intro he; cases he)) rfl (c_other _ (by intro he; cases he) hne2)
  show InvA s'
  constructor
  case D2a => exact ha.D2a
  case PA1 => exact ha.PA1
  case PA2 => intro z n' i' hj; exact ha.PA2 z n' i' ((st.sub hj).resolve_left (by simp))
  case TA => intro n' i' d' hd'; rw [live_eq n' i' d' hd']; exact ha.TA n' i' d' hd'
  case RG =>
    intro n' i' hj
    rcases st.sub hj with h1 | h1
    · simp only [List.mem_singleton] at h1; injection h1 with h2; injection h2 with h3 h4; subst h3; subst h4
      exact ⟨d, hdep, hgo⟩
    · exact ha.RG n' i' h1
  case LD => intro n' i' d' hn' hd' hl0 hg; rw [live_eq n' i' d' hd'] at hl0; exact ha.LD n' i' d' hn' hd' hl0 hg
  case GS => intro z df hj; exact ha.GS z df ((st.sub hj).resolve_left (by simp))
  case RAt =>
    intro a j n' hj hjob hobj
    rcases st.sub hj with h1 | h1
    · simp only [List.mem_singleton] at h1; subst h1
      simp only [Act.job, Option.some.injEq] at hjob; subst hjob
      simp only [Job.andObj, Option.some.injEq] at hobj; subst hobj
      exact ha.RAt _ _ n hd0 rfl rfl
    · exact ha.RAt a j n' h1 hjob hobj
  case RAj => exact ha.RAj
  case W =>
    intro n' x y hn' hxy
    have hxy' : (s.ands n').deps0 = [x, y] := hxy
    have hx : (s.ands n').deps0[0]? = some x := by rw [hxy']; rfl
    have hy : (s.ands n').deps0[1]? = some y := by rw [hxy']; rfl
    rw [wA_congr (live_eq n' 0 x hx) rfl, wA_congr (live_eq n' 1 y hy) rfl]; exact ha.W n' x y hn' hxy
  case Z =>
    intro n' hn' hr
    rcases ha.Z n' hn' hr with h1 | h1
    · exact Or.inl h1
    · exact Or.inr (st.keep h1 (by intro he; cases he))
  case TGA => intro z hj; exact ha.TGA z ((st.sub hj).resolve_left (by simp))
  case GA1 => exact ha.GA1

/-- `d.then(j)` on an untriggered `d`, for any job `j`: appended to `d`'s list -/
theorem invA_thenJ_reg {s : State} {t d : Nat} {j : Job} {rest : List Act} (hl : InvL s) (hh : InvH s) (ha : InvA s) (ht : t < NT)
    (hs : s.todo t = Act.thenJ d j :: rest) (hgo : (s.sigs d).go = false) :
    InvA ((s.setSig d { s.sigs d with jobs := (s.sigs d).jobs ++ [j] }).setTodo t rest) := by
  let s' := (s.setSig d { s.sigs d with jobs := (s.sigs d).jobs ++ [j] }).setTodo t rest
  have st : TodoStep s s' t (.thenJ d j) rest [] := ⟨ht, hs, by simp [s', State.setTodo, State.setSig]⟩
  have hd0 : InTodos s (.thenJ d j) := st.head
  have hdal : (s.sigs d).alive = true := hh.AL d j hd0
  have hdl : d < s.nSig := hl.M1 _ d hd0 (by simp [Act.sigs])
  have sig_d : s'.sigs d = { s.sigs d with jobs := (s.sigs d).jobs ++ [j] } := by simp [s', State.setTodo, State.setSig, upd_same]
  have sig_o : ∀ z, z ≠ d → s'.sigs z = s.sigs z := fun z hz => by simp [s', State.setTodo, State.setSig, upd_other _ _ hz]
  have go_eq : ∀ z, (s'.sigs z).go = (s.sigs z).go := by
    intro z; by_cases hz : z = d
    · subst hz; rw [sig_d]
    · rw [sig_o z hz]
  have alive_eq : ∀ z, (s'.sigs z).alive = (s.sigs z).alive := by
    intro z; by_cases hz : z = d
    · subst hz; rw [sig_d]
    · rw [sig_o z hz]
  have built_eq : ∀ z, (s'.sigs z).built = (s.sigs z).built := by
    intro z; by_cases hz : z = d
    · subst hz; rw [sig_d]
    · rw [sig_o z hz]
  have dir_eq : ∀ z, (s'.sigs z).direct = (s.sigs z).direct := by
    intro z; by_cases hz : z = d
    · subst hz; rw [sig_d]
    · rw [sig_o z hz]
  have jobs_count : ∀ z j', (s'.sigs z).jobs.count j' = (s.sigs z).jobs.count j' + (if z = d ∧ j' = j then 1 else 0) := by
    intro z j'; by_cases hz : z = d
    · subst hz; rw [sig_d]; simp only [List.count_append, List.count_cons, List.count_nil, true_and]
      by_cases hj : j' = j
      · subst hj; simp
      · have : ¬ j = j' := fun h => hj h.symm
        simp [hj, this]
    · rw [sig_o z hz]; simp [hz]
  have jobs_mem : ∀ z j', j' ∈ (s'.sigs z).jobs ↔ (j' ∈ (s.sigs z).jobs ∨ (z = d ∧ j' = j)) := by
    intro z j'; by_cases hz : z = d
    · subst hz; rw [sig_d]; simp
    · rw [sig_o z hz]; simp [hz]
  have c_eq : ∀ b, cnt s' b + (if b = .thenJ d j then 1 else 0) = cnt s b := by
    intro b; have := st.cnt_eq b; simpa using this
  -- the token, if it is one, moves from "to be registered" to "registered"; nothing else changes
  have live_eq : ∀ n i d', liveA s' n i d' = liveA s n i d' := by
    intro n i d'
    unfold liveA
    have h1 := c_eq (.thenJ d' (.andDone n i))
    have h3 := c_eq (.run (.andDone n i))
    rw [if_neg (by intro he; cases he)] at h3
    have h2 := jobs_count d' (.andDone n i)
    by_cases heq : d' = d ∧ Job.andDone n i = j
    · obtain ⟨hd', hj'⟩ := heq
      subst hd'; subst hj'
      rw [if_pos rfl] at h1; simp only [and_self, if_true] at h2
      show cnt s' _ + (s'.sigs d').jobs.count _ + cnt s' _ = _
      omega
    · have hne : Act.thenJ d' (.andDone n i) ≠ .thenJ d j := by
        intro he; injection he with h4 h5; exact heq ⟨h4, h5⟩
      rw [if_neg hne] at h1; rw [if_neg heq] at h2
      show cnt s' _ + (s'.sigs d').jobs.count _ + cnt s' _ = _
      omega
  have tgt_alive : ∀ n, j.andObj = some n → (s.sigs (s.ands n).target).alive = true := fun n hn => ha.RAt _ j n hd0 rfl hn
  show InvA s'
  constructor
  case D2a => exact ha.D2a
  case PA1 =>
    intro z n i hj
    rcases (jobs_mem z _).mp hj with h1 | ⟨hz, hjj⟩
    · exact ha.PA1 z n i h1
    · subst hz; rw [← hjj] at hd0; exact ha.PA2 z n i hd0
  case PA2 => intro z n i hj; exact ha.PA2 z n i ((st.sub hj).resolve_left (by simp))
  case TA => intro n i d' hd'; rw [live_eq]; exact ha.TA n i d' hd'
  case RG =>
    intro n i hj
    obtain ⟨d', hd', hg⟩ := ha.RG n i ((st.sub hj).resolve_left (by simp))
    exact ⟨d', hd', by rw [go_eq]; exact hg⟩
  case LD => intro n i d' hn hd' hl0 hg; rw [live_eq] at hl0; rw [go_eq] at hg; rw [alive_eq]; exact ha.LD n i d' hn hd' hl0 hg
  case GS => intro z df hj; rw [alive_eq]; exact ha.GS z df ((st.sub hj).resolve_left (by simp))
  case RAt => intro a j' n hj hjob hobj; rw [alive_eq]; exact ha.RAt a j' n ((st.sub hj).resolve_left (by simp)) hjob hobj
  case RAj =>
    intro z j' n hal hj hobj
    rw [alive_eq] at hal ⊢
    rcases (jobs_mem z j').mp hj with h1 | ⟨_, hjj⟩
    · exact ha.RAj z j' n hal h1 hobj
    · subst hjj; exact tgt_alive n hobj
  case W =>
    intro n x y hn hxy
    rw [wA_congr (live_eq n 0 x) (go_eq x), wA_congr (live_eq n 1 y) (go_eq y)]; exact ha.W n x y hn hxy
  case Z =>
    intro n hn hr
    show (s'.sigs (s.ands n).target).go = true ∨ InTodos s' (.goS (s.ands n).target false)
    rw [go_eq]
    rcases ha.Z n hn hr with h1 | h1
    · exact Or.inl h1
    · exact Or.inr (st.keep h1 (by intro he; cases he))
  case TGA =>
    intro z hj n hb d' hd'
    rw [built_eq] at hb; rw [go_eq]
    exact ha.TGA z ((st.sub hj).resolve_left (by simp)) n hb d' hd'
  case GA1 =>
    intro z n hz hb hg hdir d' hd'
    rw [built_eq] at hb; rw [go_eq] at hg ⊢; rw [dir_eq] at hdir
    exact ha.GA1 z n hz hb hg hdir d' hd'

/-- `d.then(j)` on a triggered `d`, for any job `j`: queued to run at once -/
theorem invA_thenJ_go {s : State} {t d : Nat} {j : Job} {rest : List Act} (hl : InvL s) (ha : InvA s) (ht : t < NT)
    (hs : s.todo t = Act.thenJ d j :: rest) (hgo : (s.sigs d).go = true) (ex : Ext s (s.setTodo t (.run j :: rest))) :
    InvA (s.setTodo t (.run j :: rest)) := by
  have st : TodoStep s (s.setTodo t (.run j :: rest)) t (.thenJ d j) rest [.run j] := ⟨ht, hs, rfl⟩
  have hd0 : InTodos s (.thenJ d j) := st.head
  cases j with
  | andDone n i => exact invA_thenDone_go hl ha ht hs hgo
  | andCleanup n =>
    -- only the bookkeeping of references changes
    have in_keep : ∀ b, b ≠ .thenJ d (.andCleanup n) → b ≠ .run (.andCleanup n) → (InTodos (s.setTodo t (.run (.andCleanup n) :: rest)) b ↔ InTodos s b) :=
      fun b h0 h1 => st.in_same h0 (by simpa using h1)
    have c_keep : ∀ b, b ≠ .thenJ d (.andCleanup n) → b ≠ .run (.andCleanup n) → cnt (s.setTodo t (.run (.andCleanup n) :: rest)) b = cnt s b :=
      fun b h0 h1 => st.cnt_same h0 (by simpa using h1)
    have live_eq : ∀ n' i d', liveA (s.setTodo t (.run (.andCleanup n) :: rest)) n' i d' = liveA s n' i d' := fun n' i d' =>
      liveA_congr (c_keep _ (by intro he; cases he) (by intro he; cases he)) rfl (c_keep _ (by intro he; cases he) (by intro he; cases he))
    constructor
    case D2a => exact ha.D2a
    case PA1 => exact ha.PA1
    case PA2 => intro z n' i hj; exact ha.PA2 z n' i ((in_keep _ (by intro he; cases he) (by intro he; cases he)).mp hj)
    case TA => intro n' i d' hd'; rw [live_eq]; exact ha.TA n' i d' hd'
    case RG => intro n' i hj; exact ha.RG n' i ((in_keep _ (by intro he; cases he) (by intro he; cases he)).mp hj)
    case LD => intro n' i d' hn hd' hl0 hg; rw [live_eq] at hl0; exact ha.LD n' i d' hn hd' hl0 hg
    case GS => intro z df hj; exact ha.GS z df ((in_keep _ (by intro he; cases he) (by intro he; cases he)).mp hj)
    case RAt =>
      intro a j' n' hj hjob hobj
      rcases st.sub hj with h1 | h1
      · simp only [List.mem_singleton] at h1; subst h1
        simp only [Act.job, Option.some.injEq] at hjob; subst hjob
        simp only [Job.andObj, Option.some.injEq] at hobj; subst hobj
        exact ha.RAt _ _ n hd0 rfl rfl
      · exact ha.RAt a j' n' h1 hjob hobj
    case RAj => exact ha.RAj
    case W => intro n' x y hn hxy; rw [wA_congr (live_eq n' 0 x) rfl, wA_congr (live_eq n' 1 y) rfl]; exact ha.W n' x y hn hxy
    case Z =>
      intro n' hn hr
      rcases ha.Z n' hn hr with h1 | h1
      · exact Or.inl h1
      · exact Or.inr (st.keep h1 (by intro he; cases he))
    case TGA => intro z hj; exact ha.TGA z ((in_keep _ (by intro he; cases he) (by intro he; cases he)).mp hj)
    case GA1 => exact ha.GA1
  | orHook o i =>
    exact invA_neutral hl ha st ex s.nSig (Nat.le_refl _) (fun z _ => ⟨rfl, rfl, rfl⟩) (fun z j _ => rfl) (fun n => ⟨rfl, rfl, rfl⟩) rfl
      (by intro d' n i he; cases he) (by intro n i he; cases he) (by intro z df he; cases he) (by intro b hb; simp only [List.mem_singleton] at hb; subst hb; rfl) (by intro z df hm; simp at hm)
  | orCleanup o =>
    exact invA_neutral hl ha st ex s.nSig (Nat.le_refl _) (fun z _ => ⟨rfl, rfl, rfl⟩) (fun z j _ => rfl) (fun n => ⟨rfl, rfl, rfl⟩) rfl
      (by intro d' n i he; cases he) (by intro n i he; cases he) (by intro z df he; cases he) (by intro b hb; simp only [List.mem_singleton] at hb; subst hb; rfl) (by intro z df hm; simp at hm)
  | user k =>
    exact invA_neutral hl ha st ex s.nSig (Nat.le_refl _) (fun z _ => ⟨rfl, rfl, rfl⟩) (fun z j _ => rfl) (fun n => ⟨rfl, rfl, rfl⟩) rfl
      (by intro d' n i he; cases he) (by intro n i he; cases he) (by intro z df he; cases he) (by intro b hb; simp only [List.mem_singleton] at hb; subst hb; rfl) (by intro z df hm; simp at hm)

/-- `x.go()` on an untriggered, ordinary signal -/
theorem invA_goS {s : State} {t x : Nat} {direct : Bool} {rest : List Act} (hl : InvL s) (hh : InvH s) (ha : InvA s) (ht : t < NT)
    (hs : s.todo t = Act.goS x direct :: rest) (hgo : (s.sigs x).go = false) :
    InvA ((s.setSig x { s.sigs x with go := true, jobs := [], direct := direct }).setTodo t ((s.sigs x).jobs.map Act.run ++ rest)) := by
  let new := (s.sigs x).jobs.map Act.run
  let s' := (s.setSig x { s.sigs x with go := true, jobs := [], direct := direct }).setTodo t (new ++ rest)
  have st : TodoStep s s' t (.goS x direct) rest new := ⟨ht, hs, by simp [s', State.setTodo, State.setSig]⟩
  have hd0 : InTodos s (.goS x direct) := st.head
  have hxal : (s.sigs x).alive = true := ha.GS x direct hd0
  have hxl : x < s.nSig := hl.M1 _ x hd0 (by simp [Act.sigs])
  have sig_x : s'.sigs x = { s.sigs x with go := true, jobs := [], direct := direct } := by simp [s', State.setTodo, State.setSig, upd_same]
  have sig_o : ∀ z, z ≠ x → s'.sigs z = s.sigs z := fun z hz => by simp [s', State.setTodo, State.setSig, upd_other _ _ hz]
  have go_mono : ∀ z, (s.sigs z).go = true → (s'.sigs z).go = true := by
    intro z hz; by_cases hzx : z = x
    · subst hzx; rw [sig_x]
    · rw [sig_o z hzx]; exact hz
  have go_back : ∀ z, z ≠ x → (s'.sigs z).go = (s.sigs z).go := fun z hz => by rw [sig_o z hz]
  have alive_eq : ∀ z, (s'.sigs z).alive = (s.sigs z).alive := by
    intro z; by_cases hz : z = x
    · subst hz; rw [sig_x]
    · rw [sig_o z hz]
  have built_eq : ∀ z, (s'.sigs z).built = (s.sigs z).built := by
    intro z; by_cases hz : z = x
    · subst hz; rw [sig_x]
    · rw [sig_o z hz]
  have new_form : ∀ b, b ∈ new → ∃ j, j ∈ (s.sigs x).jobs ∧ b = .run j := by
    intro b hb; obtain ⟨j, hj, he⟩ := List.mem_map.mp hb; exact ⟨j, hj, he.symm⟩
  have c_then : ∀ d j, cnt s' (.thenJ d j) = cnt s (.thenJ d j) := fun d j =>
    st.cnt_same (by intro he; cases he) (by intro hm; obtain ⟨j', _, he⟩ := new_form _ hm; cases he)
  have c_run : ∀ j, cnt s' (.run j) = cnt s (.run j) + (s.sigs x).jobs.count j := by
    intro j; have := st.cnt_eq (.run j)
    rw [if_neg (by intro he; cases he), count_map_run] at this; omega
  have in_keep : ∀ b, (∀ j, b ≠ .run j) → b ≠ .goS x direct → (InTodos s' b ↔ InTodos s b) := fun b hn h0 =>
    st.in_same h0 (by intro hm; obtain ⟨j, _, he⟩ := new_form b hm; exact hn j he)
  have live_eq : ∀ n i d, (s.ands n).deps0[i]? = some d → liveA s' n i d = liveA s n i d := by
    intro n i d hd
    unfold liveA
    rw [c_then, c_run]
    by_cases hdx : d = x
    · subst hdx; rw [sig_x]; simp only [List.count_nil]; omega
    · rw [sig_o d hdx]
      have : (s.sigs x).jobs.count (.andDone n i) = 0 := by
        apply List.count_eq_zero.mpr
        intro hm
        have := ha.PA1 x n i hm
        rw [hd] at this; injection this with h; exact hdx h
      omega
  show InvA s'
  constructor
  case D2a => exact ha.D2a
  case PA1 =>
    intro z n i hj
    by_cases hz : z = x
    · subst hz; rw [sig_x] at hj; cases hj
    · rw [sig_o z hz] at hj; exact ha.PA1 z n i hj
  case PA2 => intro z n i hj; exact ha.PA2 z n i ((in_keep _ (by intro j he; cases he) (by intro he; cases he)).mp hj)
  case TA => intro n i d hd; rw [live_eq n i d hd]; exact ha.TA n i d hd
  case RG =>
    intro n i hj
    rcases st.sub hj with h1 | h1
    · obtain ⟨j, hjm, he⟩ := new_form _ h1
      injection he with he'; subst he'
      exact ⟨x, ha.PA1 x n i hjm, by rw [sig_x]⟩
    · obtain ⟨d, hd, hg⟩ := ha.RG n i h1
      exact ⟨d, hd, go_mono d hg⟩
  case LD =>
    intro n i d hn hd hl0 hg
    rw [live_eq n i d hd] at hl0; rw [alive_eq]
    have hdx : d ≠ x := by intro he; subst he; rw [sig_x] at hg; cases hg
    rw [go_back d hdx] at hg
    exact ha.LD n i d hn hd hl0 hg
  case GS =>
    intro z df hj; rw [alive_eq]
    rcases st.sub hj with h1 | h1
    · obtain ⟨j, _, he⟩ := new_form _ h1; cases he
    · exact ha.GS z df h1
  case RAt =>
    intro a j n hj hjob hobj
    show (s'.sigs (s.ands n).target).alive = true
    rw [alive_eq]
    rcases st.sub hj with h1 | h1
    · obtain ⟨j', hjm, he⟩ := new_form _ h1
      subst he; simp only [Act.job, Option.some.injEq] at hjob; subst hjob
      exact ha.RAj x j' n hxal hjm hobj
    · exact ha.RAt a j n h1 hjob hobj
  case RAj =>
    intro z j n hal hj hobj
    show (s'.sigs (s.ands n).target).alive = true
    rw [alive_eq] at hal ⊢
    by_cases hz : z = x
    · subst hz; rw [sig_x] at hj; cases hj
    · rw [sig_o z hz] at hj; exact ha.RAj z j n hal hj hobj
  case W =>
    intro n x' y' hn hxy
    have hxy' : (s.ands n).deps0 = [x', y'] := hxy
    have h0 : (s.ands n).deps0[0]? = some x' := by rw [hxy']; rfl
    have h1 : (s.ands n).deps0[1]? = some y' := by rw [hxy']; rfl
    -- an operand that becomes true now still has its token (else it would be dead, but it is being triggered)
    have w_eq : ∀ i d, (s.ands n).deps0[i]? = some d → wA s' n i d = wA s n i d := by
      intro i d hd
      unfold wA; rw [live_eq n i d hd]
      by_cases hdx : d = x
      · subst hdx
        have hT := ha.TA n i d hd
        by_cases hl1 : liveA s n i d = 1
        · simp [hl1]
        · have hl0 : liveA s n i d = 0 := by omega
          have := ha.LD n i d hn hd hl0 hgo
          rw [hxal] at this; cases this
      · rw [go_back d hdx]
    show (s.ands n).remaining = _
    rw [w_eq 0 x' h0, w_eq 1 y' h1]; exact ha.W n x' y' hn hxy
  case Z =>
    intro n hn hr
    show (s'.sigs (s.ands n).target).go = true ∨ InTodos s' (.goS (s.ands n).target false)
    rcases ha.Z n hn hr with h1 | h1
    · exact Or.inl (go_mono _ h1)
    · by_cases heq : Act.goS (s.ands n).target false = .goS x direct
      · injection heq with h2 h3; left; rw [h2, sig_x]
      · exact Or.inr (st.keep h1 heq)
  case TGA =>
    intro z hj n hb d hd
    rw [built_eq] at hb
    rcases st.sub hj with h1 | h1
    · obtain ⟨j, _, he⟩ := new_form _ h1; cases he
    · exact go_mono d (ha.TGA z h1 n hb d hd)
  case GA1 =>
    intro z n hz hb hg hdir d hd
    rw [built_eq] at hb
    by_cases hzx : z = x
    · subst hzx
      rw [sig_x] at hdir
      simp only at hdir; subst hdir
      exact go_mono d (ha.TGA z hd0 n hb d hd)
    · rw [sig_o z hzx] at hg hdir
      exact go_mono d (ha.GA1 z n hz hb hg hdir d hd)

theorem wA_le_one (s : State) (n i d : Nat) : wA s n i d ≤ 1 := by
  unfold wA; split <;> (try split) <;> omega

theorem wA_zero {s : State} {n i d : Nat} (h : wA s n i d = 0) : (s.sigs d).go = true := by
  unfold wA at h
  split at h
  · cases h
  · split at h
    · assumption
    · cases h

theorem ar_other_zero_l {r a b : Nat} (h : r = a + b) (hb : b ≤ 1) (hr : r - 1 = 0) (h1 : a = 1) : b = 0 := by omega
theorem ar_other_zero_r {r a b : Nat} (h : r = a + b) (ha : a ≤ 1) (hr : r - 1 = 0) (h1 : b = 1) : a = 0 := by omega
theorem ar_dec_l {r a b : Nat} (h : r = a + b) (h1 : a = 1) : r - 1 = 0 + b := by omega
theorem ar_dec_r {r a b : Nat} (h : r = a + b) (h1 : b = 1) : r - 1 = a + 0 := by omega

theorem idx_of_pair {x y d i : Nat} (h : [x, y][i]? = some d) : (i = 0 ∧ d = x) ∨ (i = 1 ∧ d = y) := by
  match i with
  | 0 => simp at h; exact Or.inl ⟨rfl, h.symm⟩
  | 1 => simp at h; exact Or.inr ⟨rfl, h.symm⟩
  | k + 2 => simp at h

/-- AndSignals.done(): one countdown step -/
theorem invA_runDone {s : State} {t n i : Nat} {rest : List Act} (hl : InvL s) (ha : InvA s) (ht : t < NT)
    (hs : s.todo t = Act.run (.andDone n i) :: rest) :
    InvA ({ s with ands := upd s.ands n { s.ands n with remaining := (s.ands n).remaining - 1 } }.setTodo t
      ((if (s.ands n).remaining - 1 = 0 then [Act.goS (s.ands n).target false] else []) ++ rest)) := by
  let new := if (s.ands n).remaining - 1 = 0 then [Act.goS (s.ands n).target false] else []
  let s' := { s with ands := upd s.ands n { s.ands n with remaining := (s.ands n).remaining - 1 } }.setTodo t (new ++ rest)
  have st : TodoStep s s' t (.run (.andDone n i)) rest new := ⟨ht, hs, rfl⟩
  have hd0 : InTodos s (.run (.andDone n i)) := st.head
  have hn : n < s.nAnd := hl.M2a _ _ n hd0 rfl rfl
  obtain ⟨d, hdep, hdgo⟩ := ha.RG n i hd0
  have htal : (s.sigs (s.ands n).target).alive = true := ha.RAt _ _ n hd0 rfl rfl
  have ands_n : s'.ands n = { s.ands n with remaining := (s.ands n).remaining - 1 } := by simp [s', State.setTodo, upd_same]
  have ands_o : ∀ n', n' ≠ n → s'.ands n' = s.ands n' := fun n' h => by simp [s', State.setTodo, upd_other _ _ h]
  have d0_eq : ∀ n', (s'.ands n').deps0 = (s.ands n').deps0 := by
    intro n'; by_cases h : n' = n
    · subst h; rw [ands_n]
    · rw [ands_o n' h]
  have tgt_eq : ∀ n', (s'.ands n').target = (s.ands n').target := by
    intro n'; by_cases h : n' = n
    · subst h; rw [ands_n]
    · rw [ands_o n' h]
  have new_form : ∀ b, b ∈ new → b = .goS (s.ands n).target false ∧ (s.ands n).remaining - 1 = 0 := by
    intro b hb; simp only [new] at hb; split at hb
    · simp only [List.mem_singleton] at hb; exact ⟨hb, by assumption⟩
    · cases hb
  have c_run : cnt s' (.run (.andDone n i)) + 1 = cnt s (.run (.andDone n i)) := by
    have := st.cnt_eq (.run (.andDone n i))
    rw [if_pos rfl, List.count_eq_zero.mpr (by intro hm; obtain ⟨he, _⟩ := new_form _ hm; cases he)] at this; omega
  have c_other : ∀ b, b ≠ .run (.andDone n i) → (∀ z df, b ≠ .goS z df) → cnt s' b = cnt s b := fun b h0 hg =>
    st.cnt_same h0 (by intro hm; obtain ⟨he, _⟩ := new_form _ hm; exact hg _ _ he)
  have in_other : ∀ b, b ≠ .run (.andDone n i) → (∀ z df, b ≠ .goS z df) → (InTodos s' b ↔ InTodos s b) := fun b h0 hg =>
    st.in_same h0 (by intro hm; obtain ⟨he, _⟩ := new_form _ hm; exact hg _ _ he)
  have live_tok : liveA s' n i d + 1 = liveA s n i d := by
    unfold liveA
    rw [c_other (.thenJ d (.andDone n i)) (by intro he; cases he) (by intro z df he; cases he)]
    show cnt s _ + (s.sigs d).jobs.count _ + cnt s' _ + 1 = _
    omega
  have live_other : ∀ n' i' d', ¬ (n' = n ∧ i' = i) → liveA s' n' i' d' = liveA s n' i' d' := by
    intro n' i' d' hne
    have hne2 : Act.run (.andDone n' i') ≠ .run (.andDone n i) := by
      intro he; injection he with h2; injection h2 with h3 h4; exact hne ⟨h3, h4⟩
    exact liveA_congr (c_other _ (by intro he; cases he) (by intro z df he; cases he)) rfl (c_other _ hne2 (by intro z df he; cases he))
  have hlive1 : liveA s n i d = 1 := by have := ha.TA n i d hdep; omega
  have hlive0 : liveA s' n i d = 0 := by omega
  show InvA s'
  constructor
  case D2a => intro n' hn'; rw [d0_eq]; exact ha.D2a n' hn'
  case PA1 => intro z n' i' hj; rw [d0_eq]; exact ha.PA1 z n' i' hj
  case PA2 => intro z n' i' hj; rw [d0_eq]; exact ha.PA2 z n' i' ((in_other _ (by intro he; cases he) (by intro z' df he; cases he)).mp hj)
  case TA =>
    intro n' i' d' hd'; rw [d0_eq] at hd'
    by_cases htok : n' = n ∧ i' = i
    · obtain ⟨h1, h2⟩ := htok; subst h1; subst h2
      have : d' = d := by rw [hdep] at hd'; injection hd' with h; exact h.symm
      subst this; omega
    · rw [live_other n' i' d' htok]; exact ha.TA n' i' d' hd'
  case RG =>
    intro n' i' hj; rw [d0_eq]
    rcases st.sub hj with h1 | h1
    · obtain ⟨he, _⟩ := new_form _ h1; cases he
    · exact ha.RG n' i' h1
  case LD =>
    intro n' i' d' hn' hd' hl0 hg; rw [d0_eq] at hd'
    by_cases htok : n' = n ∧ i' = i
    · obtain ⟨h1, h2⟩ := htok; subst h1; subst h2
      have : d' = d := by rw [hdep] at hd'; injection hd' with h; exact h.symm
      subst this
      have hg' : (s.sigs d').go = false := hg
      rw [hdgo] at hg'; cases hg'
    · rw [live_other n' i' d' htok] at hl0; exact ha.LD n' i' d' hn' hd' hl0 hg
  case GS =>
    intro z df hj
    rcases st.sub hj with h1 | h1
    · obtain ⟨he, _⟩ := new_form _ h1; injection he with h2 _; subst h2; exact htal
    · exact ha.GS z df h1
  case RAt =>
    intro a j n' hj hjob hobj
    show (s.sigs (s'.ands n').target).alive = true
    rw [tgt_eq]
    rcases st.sub hj with h1 | h1
    · obtain ⟨he, _⟩ := new_form _ h1; subst he; cases hjob
    · exact ha.RAt a j n' h1 hjob hobj
  case RAj => intro z j n' hal hj hobj; show (s.sigs (s'.ands n').target).alive = true; rw [tgt_eq]; exact ha.RAj z j n' hal hj hobj
  case W =>
    intro n' x y hn' hxy
    rw [d0_eq] at hxy
    have hxy' : (s.ands n').deps0 = [x, y] := hxy
    have h0 : (s.ands n').deps0[0]? = some x := by rw [hxy']; rfl
    have h1 : (s.ands n').deps0[1]? = some y := by rw [hxy']; rfl
    have hW := ha.W n' x y hn' hxy
    by_cases hnn : n' = n
    · subst hnn
      rw [ands_n]; show (s.ands n').remaining - 1 = _
      -- which operand's token was consumed?
      have w_tok : wA s n' i d = 1 := by unfold wA; simp [hlive1]
      have w_tok' : wA s' n' i d = 0 := by
        unfold wA; rw [hlive0]; simp; exact hdgo
      have hdep' := hdep
      rw [hxy'] at hdep'
      rcases idx_of_pair hdep' with ⟨hi, hdx⟩ | ⟨hi, hdy⟩
      · rw [hi, hdx] at w_tok w_tok'
        have hoth : wA s' n' 1 y = wA s n' 1 y := wA_congr (live_other n' 1 y (by intro h; exact absurd (hi ▸ h.2) (by decide))) rfl
        rw [w_tok', hoth]; exact ar_dec_l hW w_tok
      · rw [hi, hdy] at w_tok w_tok'
        have hoth : wA s' n' 0 x = wA s n' 0 x := wA_congr (live_other n' 0 x (by intro h; exact absurd (hi ▸ h.2) (by decide))) rfl
        rw [w_tok', hoth]; exact ar_dec_r hW w_tok
    · rw [ands_o n' hnn]
      rw [wA_congr (live_other n' 0 x (by intro h; exact hnn h.1)) rfl, wA_congr (live_other n' 1 y (by intro h; exact hnn h.1)) rfl]
      exact hW
  case Z =>
    intro n' hn' hr
    rw [tgt_eq]
    by_cases hnn : n' = n
    · subst hnn
      rw [ands_n] at hr
      right
      exact st.intro (by simp only [new]; rw [if_pos hr]; simp)
    · rw [ands_o n' hnn] at hr
      rcases ha.Z n' hn' hr with h1 | h1
      · exact Or.inl h1
      · exact Or.inr (st.keep h1 (by intro he; cases he))
  case TGA =>
    intro z hj n' hb d' hd'
    rw [d0_eq] at hd'
    rcases st.sub hj with h1 | h1
    · obtain ⟨he, hr0⟩ := new_form _ h1
      injection he with hz _
      have hb0 : (s.sigs z).built = .andOut n' := hb
      show (s.sigs d').go = true
      have hb' : (s.sigs (s.ands n).target).built = .andOut n' := by rw [← hz]; exact hb0
      rw [(hl.F2 n hn).2] at hb'; injection hb' with hnn
      rw [← hnn] at hd'
      -- the countdown reached zero: in the old state it was one, carried by the token that has just run
      obtain ⟨x, y, hxy⟩ := ha.D2a n hn
      have hW := ha.W n x y hn hxy
      have w_tok : wA s n i d = 1 := by unfold wA; simp [hlive1]
      have hx1 := wA_le_one s n 0 x
      have hy1 := wA_le_one s n 1 y
      rw [hxy] at hdep hd'
      simp only [List.mem_cons, List.mem_nil_iff, or_false] at hd'
      rcases idx_of_pair hdep with ⟨hi, hdx⟩ | ⟨hi, hdy⟩
      · rw [hi, hdx] at w_tok
        have hy0 : wA s n 1 y = 0 := ar_other_zero_l hW hy1 hr0 w_tok
        rcases hd' with hd' | hd'
        · rw [hd', ← hdx]; exact hdgo
        · rw [hd']; exact wA_zero hy0
      · rw [hi, hdy] at w_tok
        have hx0 : wA s n 0 x = 0 := ar_other_zero_r hW hx1 hr0 w_tok
        rcases hd' with hd' | hd'
        · rw [hd']; exact wA_zero hx0
        · rw [hd', ← hdy]; exact hdgo
    · exact ha.TGA z h1 n' hb d' hd'
  case GA1 => intro z n' hz hb hg hdir d' hd'; rw [d0_eq] at hd'; exact ha.GA1 z n' hz hb hg hdir d' hd'

/-- `x.go()` on a signal that is already true (or is NEVER): nothing happens -/
theorem invA_goS_noop {s : State} {t x : Nat} {df : Bool} {rest : List Act} (hl : InvL s) (hg : InvG s) (ha : InvA s) (ht : t < NT)
    (hs : s.todo t = Act.goS x df :: rest) (hgn : (s.sigs x).go = true ∨ (s.sigs x).never = true) : InvA (s.setTodo t rest) := by
  have st : TodoStep s (s.setTodo t rest) t (.goS x df) rest [] := ⟨ht, hs, by simp [State.setTodo]⟩
  have hd0 : InTodos s (.goS x df) := st.head
  have c_keep : ∀ b, (∀ z d, b ≠ .goS z d) → cnt (s.setTodo t rest) b = cnt s b := fun b hb =>
    st.cnt_same (fun he => hb _ _ he) (by simp)
  have live_eq : ∀ n i d, liveA (s.setTodo t rest) n i d = liveA s n i d := fun n i d =>
    liveA_congr (c_keep _ (by intro z d' he; cases he)) rfl (c_keep _ (by intro z d' he; cases he))
  constructor
  case D2a => exact ha.D2a
  case PA1 => exact ha.PA1
  case PA2 => intro z n i hj; exact ha.PA2 z n i ((st.sub hj).resolve_left (by simp))
  case TA => intro n i d hd; rw [live_eq]; exact ha.TA n i d hd
  case RG => intro n i hj; exact ha.RG n i ((st.sub hj).resolve_left (by simp))
  case LD => intro n i d hn hd hl0 hgo; rw [live_eq] at hl0; exact ha.LD n i d hn hd hl0 hgo
  case GS => intro z d hj; exact ha.GS z d ((st.sub hj).resolve_left (by simp))
  case RAt => intro a j n hj hjob hobj; exact ha.RAt a j n ((st.sub hj).resolve_left (by simp)) hjob hobj
  case RAj => exact ha.RAj
  case W => intro n x' y' hn hxy; rw [wA_congr (live_eq n 0 x') rfl, wA_congr (live_eq n 1 y') rfl]; exact ha.W n x' y' hn hxy
  case Z =>
    intro n hn hr
    rcases ha.Z n hn hr with h1 | h1
    · exact Or.inl h1
    · by_cases heq : Act.goS (s.ands n).target false = .goS x df
      · injection heq with h2 _
        left
        show (s.sigs (s.ands n).target).go = true
        rw [h2]
        rcases hgn with h3 | h3
        · exact h3
        · have hxl : x < s.nSig := by rw [← h2]; exact (hl.F2 n hn).1
          have := hg.N x hxl (by rw [← h2, (hl.F2 n hn).2]; intro hb; cases hb)
          rw [this] at h3; cases h3
      · exact Or.inr (st.keep h1 heq)
  case TGA => intro z hj; exact ha.TGA z ((st.sub hj).resolve_left (by simp))
  case GA1 => exact ha.GA1

/-- `x & y`: a fresh composite, a fresh AndSignals object with a countdown of two, and the three registrations queued -/
theorem invA_andNew {s : State} {t x y : Nat} {rest : List Act} (hl : InvL s) (ha : InvA s) (ht : t < NT)
    (hs : s.todo t = Act.andNew x y :: rest) :
    InvA ({ s with sigs := upd s.sigs s.nSig (freshSig (.andOut s.nAnd)), nSig := s.nSig + 1,
                   ands := upd s.ands s.nAnd { target := s.nSig, remaining := 2, deps := [x, y], deps0 := [x, y] }, nAnd := s.nAnd + 1 }.setTodo t
          (Act.thenJ x (.andDone s.nAnd 0) :: Act.thenJ y (.andDone s.nAnd 1) :: Act.thenJ s.nSig (.andCleanup s.nAnd) :: Act.ret s.nSig false :: rest)) := by
  let new := [Act.thenJ x (.andDone s.nAnd 0), Act.thenJ y (.andDone s.nAnd 1), Act.thenJ s.nSig (.andCleanup s.nAnd), Act.ret s.nSig false]
  let s' := { s with sigs := upd s.sigs s.nSig (freshSig (.andOut s.nAnd)), nSig := s.nSig + 1,
                     ands := upd s.ands s.nAnd { target := s.nSig, remaining := 2, deps := [x, y], deps0 := [x, y] }, nAnd := s.nAnd + 1 }.setTodo t (new ++ rest)
  have st : TodoStep s s' t (.andNew x y) rest new := ⟨ht, hs, rfl⟩
  have hd0 := st.head
  have hx : x < s.nSig := hl.M1 _ x hd0 (by simp [Act.sigs])
  have hy : y < s.nSig := hl.M1 _ y hd0 (by simp [Act.sigs])
  have fresh := hl.F5 s.nSig (Nat.le_refl _)
  have sig_new : s'.sigs s.nSig = freshSig (.andOut s.nAnd) := by simp [s', State.setTodo, upd_same]
  have sig_o : ∀ z, z ≠ s.nSig → s'.sigs z = s.sigs z := fun z hz => by simp [s', State.setTodo, upd_other _ _ hz]
  have ands_new : s'.ands s.nAnd = { target := s.nSig, remaining := 2, deps := [x, y], deps0 := [x, y] } := by simp [s', State.setTodo, upd_same]
  have ands_o : ∀ n, n ≠ s.nAnd → s'.ands n = s.ands n := fun n hn => by simp [s', State.setTodo, upd_other _ _ hn]
  have jobs_eq : ∀ z, (s'.sigs z).jobs = (s.sigs z).jobs := by
    intro z; by_cases hz : z = s.nSig
    · subst hz; rw [sig_new, fresh.2.1]; rfl
    · rw [sig_o z hz]
  have no_old_job : ∀ z j, j ∈ (s.sigs z).jobs → j.andObj ≠ some s.nAnd := by
    intro z j hj he; have := hl.M3a z j _ hj he; omega
  have no_old_act : ∀ a j, InTodos s a → a.job = some j → j.andObj ≠ some s.nAnd := by
    intro a j hj hjob he; have := hl.M2a a j _ hj hjob he; omega
  have hnd : ∀ b, new.count b ≤ 1 := by
    apply List.nodup_iff_count.mp
    simp only [new, List.nodup_cons, List.mem_cons, List.mem_nil_iff, or_false, not_or, List.nodup_nil, and_true, List.not_mem_nil, not_false_eq_true]
    refine ⟨⟨?_, ?_, ?_⟩, ⟨?_, ?_⟩, ?_⟩ <;> (intro he; first | cases he | (injection he with _ h2; cases h2) | (injection he with _ h2; injection h2 with _ h3; cases h3))
  have old_cnt : ∀ b, b ∉ new → b ≠ .andNew x y → cnt s' b = cnt s b := fun b hn h0 => st.cnt_same h0 hn
  have new_cnt : ∀ b j, b.job = some j → j.andObj = some s.nAnd → cnt s' b = new.count b := by
    intro b j hj he
    have h0 : cnt s b = 0 := cnt_zero.mpr (fun hh => no_old_act b j hh hj he)
    have := st.cnt_eq b
    rw [if_neg (by intro hb; rw [hb] at hj; cases hj), h0] at this
    omega
  have old_in : ∀ b, b ∉ new → b ≠ .andNew x y → (InTodos s' b ↔ InTodos s b) := fun b hn h0 => st.in_same h0 hn
  have not_new_of_old : ∀ b j, b.job = some j → j.andObj ≠ some s.nAnd → b ∉ new := by
    intro b j hj hne hm
    simp only [new, List.mem_cons, List.mem_nil_iff, or_false] at hm
    rcases hm with rfl | rfl | rfl | rfl <;> simp [Act.job] at hj <;> (subst hj; simp [Job.andObj] at hne)
  have go_old : ∀ z, z ≠ s.nSig → (s'.sigs z).go = (s.sigs z).go := fun z hz => by rw [sig_o z hz]
  have alive_old : ∀ z, (s.sigs z).alive = true → (s'.sigs z).alive = true := by
    intro z hz; by_cases hzn : z = s.nSig
    · subst hzn; rw [fresh.1] at hz; cases hz
    · rw [sig_o z hzn]; exact hz
  -- tokens of old objects are untouched
  have live_old : ∀ n i d, n ≠ s.nAnd → liveA s' n i d = liveA s n i d := by
    intro n i d hn
    refine liveA_congr ?_ (by rw [jobs_eq]) ?_
    · exact old_cnt _ (not_new_of_old _ _ rfl (by simp [Job.andObj]; exact hn)) (by intro he; cases he)
    · exact old_cnt _ (not_new_of_old _ _ rfl (by simp [Job.andObj]; exact hn)) (by intro he; cases he)
  have live_new : ∀ i d, liveA s' s.nAnd i d = new.count (.thenJ d (.andDone s.nAnd i)) := by
    intro i d
    unfold liveA
    rw [new_cnt _ _ rfl rfl, new_cnt (.run (.andDone s.nAnd i)) _ rfl rfl, jobs_eq]
    have h1 : (s.sigs d).jobs.count (.andDone s.nAnd i) = 0 := List.count_eq_zero.mpr (fun hm => no_old_job d _ hm rfl)
    have h2 : new.count (.run (.andDone s.nAnd i)) = 0 := List.count_eq_zero.mpr (by simp [new])
    rw [h1, h2]; omega
  show InvA s'
  constructor
  case D2a =>
    intro n hn
    by_cases hnn : n = s.nAnd
    · subst hnn; rw [ands_new]; exact ⟨x, y, rfl⟩
    · rw [ands_o n hnn]; exact ha.D2a n (by have : n < s.nAnd + 1 := hn; omega)
  case PA1 =>
    intro z n i hj; rw [jobs_eq] at hj
    have hnn : n ≠ s.nAnd := by intro he; subst he; exact no_old_job z _ hj rfl
    rw [ands_o n hnn]; exact ha.PA1 z n i hj
  case PA2 =>
    intro z n i hj
    by_cases hnn : n = s.nAnd
    · subst hnn
      rcases st.sub hj with h1 | h1
      · simp only [new, List.mem_cons, List.mem_nil_iff, or_false] at h1
        rw [ands_new]
        rcases h1 with h1 | h1 | h1 | h1
        · injection h1 with h2 h3; injection h3 with _ h4; subst h2; subst h4; rfl
        · injection h1 with h2 h3; injection h3 with _ h4; subst h2; subst h4; rfl
        · cases h1
        · cases h1
      · exact absurd rfl (no_old_act _ _ h1 rfl)
    · rw [ands_o n hnn]
      exact ha.PA2 z n i ((old_in _ (not_new_of_old _ _ rfl (by simp [Job.andObj]; exact hnn)) (by intro he; cases he)).mp hj)
  case TA =>
    intro n i d hd
    by_cases hnn : n = s.nAnd
    · subst hnn; rw [live_new]; exact hnd _
    · rw [ands_o n hnn] at hd; rw [live_old n i d hnn]; exact ha.TA n i d hd
  case RG =>
    intro n i hj
    have hnn : n ≠ s.nAnd := by
      intro he; subst he
      rcases st.sub hj with h1 | h1
      · simp [new] at h1
      · exact no_old_act _ _ h1 rfl rfl
    rw [ands_o n hnn]
    have hj0 := (old_in _ (not_new_of_old _ _ rfl (by simp [Job.andObj]; exact hnn)) (by intro he; cases he)).mp hj
    obtain ⟨d, hd, hg⟩ := ha.RG n i hj0
    have hn : n < s.nAnd := hl.M2a _ _ n hj0 rfl rfl
    have hdl : d < s.nSig := (hl.F7 n hn).1 d (mem_of_getElem?_eq_some hd)
    exact ⟨d, hd, by rw [go_old d (by omega)]; exact hg⟩
  case LD =>
    intro n i d hn hd hl0 hg
    by_cases hnn : n = s.nAnd
    · subst hnn
      rw [ands_new] at hd
      rw [live_new] at hl0
      exfalso
      rcases idx_of_pair hd with ⟨hi, hdx⟩ | ⟨hi, hdy⟩
      · subst hi; subst hdx
        have : 0 < new.count (.thenJ d (.andDone s.nAnd 0)) := List.count_pos_iff.mpr (by simp [new])
        omega
      · subst hi; subst hdy
        have : 0 < new.count (.thenJ d (.andDone s.nAnd 1)) := List.count_pos_iff.mpr (by simp [new])
        omega
    · have hn' : n < s.nAnd := by have : n < s.nAnd + 1 := hn; omega
      rw [ands_o n hnn] at hd
      have hdl : d < s.nSig := (hl.F7 n hn').1 d (mem_of_getElem?_eq_some hd)
      rw [live_old n i d hnn] at hl0; rw [go_old d (by omega)] at hg; rw [sig_o d (by omega)]
      exact ha.LD n i d hn' hd hl0 hg
  case GS =>
    intro z df hj
    rcases st.sub hj with h1 | h1
    · simp [new] at h1
    · exact alive_old z (ha.GS z df h1)
  case RAt =>
    intro a j n hj hjob hobj
    by_cases hnn : n = s.nAnd
    · subst hnn; rw [ands_new]; show (s'.sigs s.nSig).alive = true; rw [sig_new]; rfl
    · rw [ands_o n hnn]
      have hj0 : InTodos s a := by
        rcases st.sub hj with h1 | h1
        · exact absurd h1 (not_new_of_old a j hjob (by rw [hobj]; simp; exact hnn))
        · exact h1
      exact alive_old _ (ha.RAt a j n hj0 hjob hobj)
  case RAj =>
    intro z j n hal hj hobj
    rw [jobs_eq] at hj
    have hnn : n ≠ s.nAnd := by intro he; subst he; exact no_old_job z j hj hobj
    have hzn : z ≠ s.nSig := by intro he; subst he; rw [fresh.2.1] at hj; cases hj
    rw [sig_o z hzn] at hal
    rw [ands_o n hnn]; exact alive_old _ (ha.RAj z j n hal hj hobj)
  case W =>
    intro n x' y' hn hxy
    by_cases hnn : n = s.nAnd
    · subst hnn
      rw [ands_new] at hxy ⊢
      injection hxy with h1 h2; injection h2 with h2 _; subst h1; subst h2
      have l0 : liveA s' s.nAnd 0 x = 1 := by
        have := hnd (.thenJ x (.andDone s.nAnd 0))
        have h2 : 0 < new.count (.thenJ x (.andDone s.nAnd 0)) := List.count_pos_iff.mpr (by simp [new])
        rw [live_new]; omega
      have l1 : liveA s' s.nAnd 1 y = 1 := by
        have := hnd (.thenJ y (.andDone s.nAnd 1))
        have h2 : 0 < new.count (.thenJ y (.andDone s.nAnd 1)) := List.count_pos_iff.mpr (by simp [new])
        rw [live_new]; omega
      show 2 = wA s' s.nAnd 0 x + wA s' s.nAnd 1 y
      unfold wA; rw [l0, l1]; simp
    · have hn' : n < s.nAnd := by have : n < s.nAnd + 1 := hn; omega
      rw [ands_o n hnn] at hxy ⊢
      have hxl : x' < s.nSig := (hl.F7 n hn').1 x' (by rw [hxy]; simp)
      have hyl : y' < s.nSig := (hl.F7 n hn').1 y' (by rw [hxy]; simp)
      rw [wA_congr (live_old n 0 x' hnn) (go_old x' (by omega)), wA_congr (live_old n 1 y' hnn) (go_old y' (by omega))]
      exact ha.W n x' y' hn' hxy
  case Z =>
    intro n hn hr
    by_cases hnn : n = s.nAnd
    · subst hnn; rw [ands_new] at hr; cases hr
    · have hn' : n < s.nAnd := by have : n < s.nAnd + 1 := hn; omega
      rw [ands_o n hnn] at hr ⊢
      rw [go_old _ (by have := (hl.F2 n hn').1; omega)]
      rcases ha.Z n hn' hr with h1 | h1
      · exact Or.inl h1
      · exact Or.inr (st.keep h1 (by intro he; cases he))
  case TGA =>
    intro z hj n hb d hd
    have hj0 : InTodos s (.goS z false) := by
      rcases st.sub hj with h1 | h1
      · simp [new] at h1
      · exact h1
    have hz : z < s.nSig := hl.M1 _ z hj0 (by simp [Act.sigs])
    rw [sig_o z (by omega)] at hb
    have hn := (hl.F4 z n hb).1
    rw [ands_o n (by omega)] at hd
    have hdl : d < s.nSig := (hl.F7 n hn).1 d hd
    rw [go_old d (by omega)]; exact ha.TGA z hj0 n hb d hd
  case GA1 =>
    intro z n hz hb hg hdir d hd
    by_cases hzn : z = s.nSig
    · subst hzn; rw [sig_new] at hg; cases hg
    · rw [sig_o z hzn] at hb hg hdir
      have hzl : z < s.nSig := by have : z < s.nSig + 1 := hz; omega
      have hn := (hl.F4 z n hb).1
      rw [ands_o n (by omega)] at hd
      have hdl : d < s.nSig := (hl.F7 n hn).1 d hd
      rw [go_old d (by omega)]; exact ha.GA1 z n hzl hb hg hdir d hd

/-- reference count zero: `z` is freed (and, for the composite of an OrSignal, its cleanup queued) -/
theorem invA_collect {s s' : State} {t z : Nat} (hl : InvL s) (hh : InvH s) (ha : InvA s) (hc : collect s t z = some s') : InvA s' := by
  unfold collect at hc
  by_cases hcond : t < NT ∧ collectable s z = true
  case neg => simp only [hcond, if_false] at hc; cases hc
  simp only [hcond, and_self, if_true] at hc
  obtain ⟨ht, hcol⟩ := hcond
  have C := collectable_spec hcol
  have key : ∀ (pre : List Act) (s2 : State) (v : Sig), v.alive = false → v.jobs = [] → v.go = (s.sigs z).go → v.built = (s.sigs z).built →
      v.direct = (s.sigs z).direct →
      s2.sigs = upd s.sigs z v → s2.nSig = s.nSig → s2.ands = s.ands → s2.nAnd = s.nAnd →
      (∀ b, b ∈ pre → ∃ o, b = .run (.orCleanup o)) →
      (∀ b, InTodos s2 b → b ∈ pre ∨ InTodos s b) → (∀ b, InTodos s b → InTodos s2 b) →
      (∀ b, cnt s2 b = cnt s b + pre.count b) → InvA s2 := by
    intro pre s2 v hv1 hv2 hv3 hv4 hv6 e1 e2 e5 e6 hpre hsub hkeep hcnt
    have sig_z : s2.sigs z = v := by rw [e1, upd_same]
    have sig_o : ∀ w, w ≠ z → s2.sigs w = s.sigs w := fun w hw => by rw [e1, upd_other _ _ hw]
    have go_eq : ∀ w, (s2.sigs w).go = (s.sigs w).go := by
      intro w; by_cases hw : w = z
      · subst hw; rw [sig_z, hv3]
      · rw [sig_o w hw]
    have built_eq : ∀ w, (s2.sigs w).built = (s.sigs w).built := by
      intro w; by_cases hw : w = z
      · subst hw; rw [sig_z, hv4]
      · rw [sig_o w hw]
    have dir_eq : ∀ w, (s2.sigs w).direct = (s.sigs w).direct := by
      intro w; by_cases hw : w = z
      · subst hw; rw [sig_z, hv6]
      · rw [sig_o w hw]
    have pre_no : ∀ b, (∀ o, b ≠ .run (.orCleanup o)) → b ∉ pre := by
      intro b hb hm; obtain ⟨o, he⟩ := hpre b hm; exact hb o he
    have in_same : ∀ b, (∀ o, b ≠ .run (.orCleanup o)) → (InTodos s2 b ↔ InTodos s b) := fun b hb =>
      ⟨fun hh' => (hsub b hh').resolve_left (pre_no b hb), hkeep b⟩
    have c_same : ∀ b, (∀ o, b ≠ .run (.orCleanup o)) → cnt s2 b = cnt s b := fun b hb => by
      rw [hcnt b, List.count_eq_zero.mpr (pre_no b hb)]; rfl
    have ne_of_mentioned : ∀ a w, InTodos s a → w ∈ a.sigs → w ≠ z := by
      intro a w haa hw he; subst he; exact C.noTodo a haa hw
    have live_le : ∀ n i d, liveA s2 n i d = liveA s n i d - (if d = z then (s.sigs z).jobs.count (.andDone n i) else 0) := by
      intro n i d
      unfold liveA
      rw [c_same _ (by intro o he; cases he), c_same _ (by intro o he; cases he)]
      by_cases hd : d = z
      · subst hd; rw [sig_z, hv2]; simp only [List.count_nil, if_true]; omega
      · rw [sig_o d hd]; simp only [hd, if_false]; omega
    have tgt_ne : ∀ n, n < s.nAnd → andRef s n = true → (s.ands n).target ≠ z := fun n hn hr => (C.noAnd n hn hr).2
    constructor
    case D2a => intro n hn; rw [e5]; rw [e6] at hn; exact ha.D2a n hn
    case PA1 =>
      intro w n i hj; rw [e5]
      by_cases hw : w = z
      · subst hw; rw [sig_z, hv2] at hj; cases hj
      · rw [sig_o w hw] at hj; exact ha.PA1 w n i hj
    case PA2 => intro w n i hj; rw [e5]; exact ha.PA2 w n i ((in_same _ (by intro o he; cases he)).mp hj)
    case TA =>
      intro n i d hd; rw [e5] at hd
      rw [live_le]; have := ha.TA n i d hd; omega
    case RG =>
      intro n i hj; rw [e5]
      obtain ⟨d, hd, hg⟩ := ha.RG n i ((in_same _ (by intro o he; cases he)).mp hj)
      exact ⟨d, hd, by rw [go_eq]; exact hg⟩
    case LD =>
      intro n i d hn hd hl0 hg
      rw [e6] at hn; rw [e5] at hd; rw [go_eq] at hg
      by_cases hdz : d = z
      · subst hdz; rw [sig_z]; exact hv1
      · rw [live_le, if_neg hdz] at hl0
        rw [sig_o d hdz]; exact ha.LD n i d hn hd (by omega) hg
    case GS =>
      intro w df hj
      have hj0 := (in_same _ (by intro o he; cases he)).mp hj
      rw [sig_o w (ne_of_mentioned _ w hj0 (by simp [Act.sigs]))]; exact ha.GS w df hj0
    case RAt =>
      intro a j n hj hjob hobj
      have hj0 : InTodos s a := by
        rcases hsub a hj with h1 | h1
        · obtain ⟨o, he⟩ := hpre a h1; subst he
          simp only [Act.job, Option.some.injEq] at hjob; subst hjob; simp [Job.andObj] at hobj
        · exact h1
      have hn : n < s.nAnd := hl.M2a a j n hj0 hjob hobj
      rw [e5, sig_o _ (tgt_ne n hn (andRef_of_todo hj0 hjob hobj))]; exact ha.RAt a j n hj0 hjob hobj
    case RAj =>
      intro w j n hal hj hobj
      have hwz : w ≠ z := by intro he; subst he; rw [sig_z, hv1] at hal; cases hal
      rw [sig_o w hwz] at hal hj
      have hn : n < s.nAnd := hl.M3a w j n hj hobj
      have hwl : w < s.nSig := by
        rcases Nat.lt_or_ge w s.nSig with h | h
        · exact h
        · have := (hl.F5 w h).1; rw [hal] at this; cases this
      rw [e5, sig_o _ (tgt_ne n hn (andRef_of_job hwl hal hj hobj))]; exact ha.RAj w j n hal hj hobj
    case W =>
      intro n x y hn hxy
      rw [e6] at hn; rw [e5] at hxy ⊢
      have hxy' : (s.ands n).deps0 = [x, y] := hxy
      have w_eq : ∀ i d, (s.ands n).deps0[i]? = some d → wA s2 n i d = wA s n i d := by
        intro i d hd
        unfold wA; rw [go_eq, live_le]
        by_cases hdz : d = z
        · subst hdz
          simp only [if_true]
          by_cases hc0 : (s.sigs d).jobs.count (.andDone n i) = 0
          · rw [hc0]; simp
          · -- the token sits in the dying operand's job list: it was alive, so not yet triggered
            have hmem : Job.andDone n i ∈ (s.sigs d).jobs := List.count_pos_iff.mp (by omega)
            have hgo : (s.sigs d).go = false := by
              cases hg' : (s.sigs d).go with
              | false => rfl
              | true => have := hh.A1 d hg'; rw [this] at hmem; cases hmem
            have hT := ha.TA n i d hd
            have hl1 : liveA s n i d = 1 := by
              have : (s.sigs d).jobs.count (.andDone n i) ≤ liveA s n i d := by unfold liveA; omega
              omega
            have hc1 : (s.sigs d).jobs.count (.andDone n i) = 1 := by
              have : (s.sigs d).jobs.count (.andDone n i) ≤ liveA s n i d := by unfold liveA; omega
              omega
            rw [hl1, hc1, hgo]; simp
        · simp only [hdz, if_false]; rfl
      have h0 : (s.ands n).deps0[0]? = some x := by rw [hxy']; rfl
      have h1 : (s.ands n).deps0[1]? = some y := by rw [hxy']; rfl
      rw [w_eq 0 x h0, w_eq 1 y h1]; exact ha.W n x y hn hxy
    case Z =>
      intro n hn hr
      rw [e6] at hn; rw [e5] at hr ⊢
      rw [go_eq]
      rcases ha.Z n hn hr with h1 | h1
      · exact Or.inl h1
      · exact Or.inr (hkeep _ h1)
    case TGA =>
      intro w hj n hb d hd
      rw [built_eq] at hb; rw [e5] at hd; rw [go_eq]
      exact ha.TGA w ((in_same _ (by intro o he; cases he)).mp hj) n hb d hd
    case GA1 =>
      intro w n hw hb hg hdir d hd
      rw [e2] at hw; rw [built_eq] at hb; rw [go_eq] at hg ⊢; rw [dir_eq] at hdir; rw [e5] at hd
      exact ha.GA1 w n hw hb hg hdir d hd
  cases hb : (s.sigs z).built with
  | leaf =>
    rw [hb] at hc; cases hc
    exact key [] _ { s.sigs z with alive := false, jobs := [], built := Built.leaf } rfl rfl rfl hb.symm rfl rfl rfl rfl rfl (by intro b hb'; cases hb')
      (fun b hb' => Or.inr hb') (fun b hb' => hb') (fun b => by simp [cnt_congr (s := s) rfl b]; rfl)
  | andOut n =>
    rw [hb] at hc; cases hc
    exact key [] _ { s.sigs z with alive := false, jobs := [], built := Built.andOut n } rfl rfl rfl hb.symm rfl rfl rfl rfl rfl (by intro b hb'; cases hb')
      (fun b hb' => Or.inr hb') (fun b hb' => hb') (fun b => by simp [cnt_congr (s := s) rfl b]; rfl)
  | orOut o =>
    rw [hb] at hc; cases hc
    let s1 := s.setSig z { s.sigs z with alive := false, jobs := [], built := Built.orOut o }
    have push : TodoPush s1 (s1.setTodo t (.run (.orCleanup o) :: s1.todo t)) t [.run (.orCleanup o)] := ⟨ht, rfl⟩
    refine key [.run (.orCleanup o)] _ { s.sigs z with alive := false, jobs := [], built := Built.orOut o } rfl rfl rfl hb.symm rfl rfl rfl rfl rfl ?_ ?_ ?_ ?_
    · intro b hb'; simp only [List.mem_singleton] at hb'; exact ⟨o, hb'⟩
    · intro b hb'
      rcases push.sub hb' with h1 | h1
      · exact Or.inl h1
      · exact Or.inr ((inTodos_congr (s := s) (s' := s1) rfl b).mp h1)
    · intro b hb'; exact push.keep ((inTodos_congr (s := s) (s' := s1) rfl b).mpr hb')
    · intro b; rw [push.cnt_eq b, cnt_congr (s := s) (s' := s1) rfl b]

theorem invA_exec {s s' : State} {t : Nat} {a : Act} {rest : List Act} (hl : InvL s) (hh : InvH s) (hg : InvG s) (ha : InvA s)
    (ht : t < NT) (hs : s.todo t = a :: rest) (he : exec s t a rest = some s') : InvA s' := by
  have ex := ext_exec he
  have hd : InTodos s a := ⟨t, ht, by rw [hs]; exact List.mem_cons_self⟩
  have aok := actOK_of_inv hl hd
  have same3 : ∀ z, z ≠ s.nSig → (s.sigs z).go = (s.sigs z).go ∧ (s.sigs z).alive = (s.sigs z).alive ∧ (s.sigs z).direct = (s.sigs z).direct :=
    fun z _ => ⟨rfl, rfl, rfl⟩
  cases a with
  | orTest1 x y w =>
    simp only [exec, Option.some.injEq] at he; subst he
    refine invA_neutral hl ha (new := if (s.sigs x).go then [Act.retDone] else [Act.orTest2 x y w]) ⟨ht, hs, rfl⟩ ex s.nSig (Nat.le_refl _)
      same3 (fun z j _ => rfl) (fun n => ⟨rfl, rfl, rfl⟩) rfl (by intro d' n i h; cases h) (by intro n i h; cases h) (by intro z df h; cases h) ?_ ?_
    · intro b hb; split at hb <;> simp only [List.mem_singleton] at hb <;> subst hb <;> rfl
    · intro z df hm; split at hm <;> simp at hm
  | orTest2 x y w =>
    simp only [exec, Option.some.injEq] at he; subst he
    refine invA_neutral hl ha (new := if (s.sigs y).go then [Act.retDone] else [Act.orNew x y w]) ⟨ht, hs, rfl⟩ ex s.nSig (Nat.le_refl _)
      same3 (fun z j _ => rfl) (fun n => ⟨rfl, rfl, rfl⟩) rfl (by intro d' n i h; cases h) (by intro n i h; cases h) (by intro z df h; cases h) ?_ ?_
    · intro b hb; split at hb <;> simp only [List.mem_singleton] at hb <;> subst hb <;> rfl
    · intro z df hm; split at hm <;> simp at hm
  | orNew x y w =>
    simp only [exec, Option.some.injEq] at he; subst he
    have fresh := hl.F5 s.nSig (Nat.le_refl _)
    refine invA_neutral hl ha (new := [Act.thenJ x (.orHook s.nOr 0), .thenJ y (.orHook s.nOr 1), .thenJ s.nSig (.orCleanup s.nOr), .ret s.nSig w])
      ⟨ht, hs, rfl⟩ ex s.nSig (Nat.le_refl _) ?_ ?_ (fun n => ⟨rfl, rfl, rfl⟩) rfl (by intro d' n i h; cases h) (by intro n i h; cases h) (by intro z df h; cases h) ?_ ?_
    · intro z hz; simp [State.setTodo, upd_other _ _ hz]
    · intro z j _
      by_cases hz : z = s.nSig
      · subst hz; simp [State.setTodo, upd_same, freshSig, fresh.2.1]
      · simp [State.setTodo, upd_other _ _ hz]
    · intro b hb; simp only [List.mem_cons, List.mem_nil_iff, or_false] at hb
      rcases hb with rfl | rfl | rfl | rfl <;> rfl
    · intro z df hm; simp at hm
  | andNew x y =>
    simp only [exec, Option.some.injEq] at he; subst he
    exact invA_andNew hl ha ht hs
  | thenJ d j =>
    simp only [exec] at he
    split at he
    · rename_i hgo; simp only [Option.some.injEq] at he; subst he; exact invA_thenJ_go hl ha ht hs hgo ex
    · rename_i hgo; simp only [Option.some.injEq] at he; subst he
      exact invA_thenJ_reg hl hh ha ht hs (by simpa using hgo)
  | run j =>
    cases j with
    | orHook o i =>
      simp only [exec, Option.some.injEq] at he; subst he
      have ho := aok.jo _ o rfl rfl
      refine invA_neutral hl ha (new := if (s.sigs (s.ors o).target).alive then [Act.goS (s.ors o).target false] else []) ⟨ht, hs, rfl⟩ ex s.nSig
        (Nat.le_refl _) same3 (fun z j _ => rfl) (fun n => ⟨rfl, rfl, rfl⟩) rfl (by intro d' n i h; cases h) (by intro n i h; cases h) (by intro z df h; cases h) ?_ ?_
      · intro b hb; split at hb
        · simp only [List.mem_singleton] at hb; subst hb; rfl
        · cases hb
      · intro z df hm; split at hm
        · rename_i hal
          simp only [List.mem_singleton] at hm; injection hm with h1 h2; subst h1
          refine ⟨(hl.F1 o ho).1, hal, fun _ n hb => ?_⟩
          rw [(hl.F1 o ho).2] at hb; cases hb
        · cases hm
    | orCleanup o =>
      simp only [exec, Option.some.injEq] at he; subst he
      refine invA_neutral hl ha (new := (s.ors o).deps.zipIdx.map fun (p : Nat × Nat) => Act.removeJ p.1 (.orHook o p.2)) ⟨ht, hs, rfl⟩ ex s.nSig
        (Nat.le_refl _) same3 (fun z j _ => rfl) (fun n => ⟨rfl, rfl, rfl⟩) rfl (by intro d' n i h; cases h) (by intro n i h; cases h) (by intro z df h; cases h) ?_ ?_
      · intro b hb; obtain ⟨d, i, _, hb'⟩ := mem_zipIdx_map_removeJ hb; subst hb'; rfl
      · intro z df hm; obtain ⟨d, i, _, hb'⟩ := mem_zipIdx_map_removeJ hm; cases hb'
    | andDone n i =>
      simp only [exec, Option.some.injEq] at he; subst he
      exact invA_runDone hl ha ht hs
    | andCleanup n =>
      simp only [exec, Option.some.injEq] at he; subst he
      refine invA_neutral hl ha (new := []) ⟨ht, hs, rfl⟩ ex s.nSig (Nat.le_refl _) same3 (fun z j _ => rfl) ?_ rfl
        (by intro d' n' i h; cases h) (by intro n' i h; cases h) (by intro z df h; cases h)
        (by intro b hb; cases hb) (by intro z df hm; cases hm)
      intro n'
      by_cases hnn : n' = n
      · subst hnn; simp [State.setTodo, upd_same]
      · simp [State.setTodo, upd_other _ _ hnn]
    | user k =>
      simp only [exec, Option.some.injEq] at he; subst he
      exact invA_neutral hl ha (new := []) ⟨ht, hs, rfl⟩ ex s.nSig (Nat.le_refl _) same3 (fun z j _ => rfl) (fun n => ⟨rfl, rfl, rfl⟩) rfl (by intro d' n i h; cases h) (by intro n i h; cases h)
        (by intro z df h; cases h) (by intro b hb; cases hb) (by intro z df hm; cases hm)
  | goS x direct =>
    simp only [exec] at he
    split at he
    · rename_i hgn
      simp only [Option.some.injEq] at he; subst he
      exact invA_goS_noop hl hg ha ht hs (by simpa [Bool.or_eq_true] using hgn)
    · rename_i hgn
      simp only [Bool.or_eq_true, not_or, Bool.not_eq_true] at hgn
      simp only [Option.some.injEq] at he; subst he
      exact invA_goS hl hh ha ht hs hgn.1
  | removeJ d j =>
    obtain ⟨o, i, hj⟩ := aok.rm d j rfl
    subst hj
    simp only [exec] at he
    split at he
    · simp only [Option.some.injEq] at he; subst he
      exact invA_neutral hl ha (new := []) ⟨ht, hs, rfl⟩ ex s.nSig (Nat.le_refl _) same3 (fun z j _ => rfl) (fun n => ⟨rfl, rfl, rfl⟩) rfl (by intro d' n i h; cases h) (by intro n i h; cases h)
        (by intro z df h; cases h) (by intro b hb; cases hb) (by intro z df hm; cases hm)
    · simp only [Option.some.injEq] at he; subst he
      refine invA_neutral hl ha (new := []) ⟨ht, hs, rfl⟩ ex s.nSig (Nat.le_refl _) ?_ ?_ (fun n => ⟨rfl, rfl, rfl⟩) rfl (by intro d' n i h; cases h) (by intro n i h; cases h)
        (by intro z df h; cases h) (by intro b hb; cases hb) (by intro z df hm; cases hm)
      · intro z _
        by_cases hz : z = d
        · subst hz; simp [State.setTodo, State.setSig, upd_same]
        · simp [State.setTodo, State.setSig, upd_other _ _ hz]
      · intro z j hj
        by_cases hz : z = d
        · subst hz; simp only [State.setTodo, State.setSig, upd_same]
          exact List.count_erase_of_ne (by intro he; subst he; simp [Job.andObj] at hj)
        · simp [State.setTodo, State.setSig, upd_other _ _ hz]
  | ret c w =>
    have hclt : c < s.nSig := aok.sig c (by simp [Act.sigs])
    simp only [exec] at he
    split at he
    · simp only [Option.some.injEq] at he; subst he
      refine invA_neutral hl ha (new := [Act.waitS c]) ⟨ht, hs, rfl⟩ ex s.nSig (Nat.le_refl _) same3 (fun z j _ => rfl) (fun n => ⟨rfl, rfl, rfl⟩) rfl (by intro d' n i h; cases h) (by intro n i h; cases h)
        (by intro z df h; cases h) ?_ (by intro z df hm; simp at hm)
      intro b hb; simp only [List.mem_singleton] at hb; subst hb; rfl
    · simp only [Option.some.injEq] at he; subst he
      refine invA_neutral hl ha (new := []) ⟨ht, hs, rfl⟩ ex s.nSig (Nat.le_refl _) ?_ ?_ (fun n => ⟨rfl, rfl, rfl⟩) rfl (by intro d' n i h; cases h) (by intro n i h; cases h)
        (by intro z df h; cases h) (by intro b hb; cases hb) (by intro z df hm; cases hm)
      · intro z _
        by_cases hz : z = c
        · subst hz; simp [State.setTodo, State.setSig, upd_same]
        · simp [State.setTodo, State.setSig, upd_other _ _ hz]
      · intro z j _
        by_cases hz : z = c
        · subst hz; simp [State.setTodo, State.setSig, upd_same]
        · simp [State.setTodo, State.setSig, upd_other _ _ hz]
  | retDone =>
    simp only [exec, Option.some.injEq] at he; subst he
    exact invA_neutral hl ha (new := []) ⟨ht, hs, rfl⟩ ex s.nSig (Nat.le_refl _) same3 (fun z j _ => rfl) (fun n => ⟨rfl, rfl, rfl⟩) rfl (by intro d' n i h; cases h) (by intro n i h; cases h)
      (by intro z df h; cases h) (by intro b hb; cases hb) (by intro z df hm; cases hm)
  | waitS c =>
    simp only [exec] at he
    split at he
    · simp only [Option.some.injEq] at he; subst he
      exact invA_neutral hl ha (new := []) ⟨ht, hs, rfl⟩ ex s.nSig (Nat.le_refl _) same3 (fun z j _ => rfl) (fun n => ⟨rfl, rfl, rfl⟩) rfl (by intro d' n i h; cases h) (by intro n i h; cases h)
        (by intro z df h; cases h) (by intro b hb; cases hb) (by intro z df hm; cases hm)
    · cases he

/-- one action pushed on an idle thread by the program or the timer daemon -/
theorem invA_push1 {s : State} {t : Nat} {a : Act} (hl : InvL s) (ha : InvA s) (ht : t < NT) (hempty : s.todo t = [])
    (haj : a.andJob = none) (hag : ∀ z df, a = .goS z df → z < s.nSig ∧ (s.sigs z).alive = true ∧ df = true) : InvA (s.setTodo t [a]) := by
  have push : TodoPush s (s.setTodo t [a]) t [a] := ⟨ht, by simp [State.setTodo, hempty]⟩
  refine invA_neutral_push hl ha (fun b hb => push.sub hb) (fun b hb => push.keep hb) (fun b => push.cnt_eq b)
    (ext_same_objs rfl rfl rfl (fun z => ⟨rfl, rfl, rfl, rfl, fun h => h⟩)) s.nSig (Nat.le_refl _) (fun z _ => ⟨rfl, rfl, rfl⟩) (fun z j _ => rfl)
    (fun n => ⟨rfl, rfl, rfl⟩) rfl ?_ ?_
  · intro b hb; simp only [List.mem_singleton] at hb; subst hb; exact haj
  · intro z df hm; simp only [List.mem_singleton] at hm
    obtain ⟨h1, h2, h3⟩ := hag z df hm.symm
    exact ⟨h1, h2, fun hf => by rw [h3] at hf; cases hf⟩

theorem invA_call {s s' : State} {t : Nat} {op : Op} (hl : InvL s) (ha : InvA s) (hc : call s t op = some s') : InvA s' := by
  unfold call at hc
  split at hc
  · rename_i hcond
    obtain ⟨ht, hempty⟩ := hcond
    cases op with
    | mkOr x y => simp only at hc; split at hc
                  · cases hc; exact invA_push1 hl ha ht hempty rfl (by intro z df h; cases h)
                  · cases hc
    | waitOr x y => simp only at hc; split at hc
                    · cases hc; exact invA_push1 hl ha ht hempty rfl (by intro z df h; cases h)
                    · cases hc
    | mkAnd x y => simp only at hc; split at hc
                   · cases hc; exact invA_push1 hl ha ht hempty rfl (by intro z df h; cases h)
                   · cases hc
    | go x => simp only at hc; split at hc
              · rename_i hu; cases hc
                exact invA_push1 hl ha ht hempty rfl (by intro z df h; injection h with h1 h2; subst h1; exact ⟨(usable_spec hu).1, (usable_spec hu).2, h2.symm⟩)
              · cases hc
    | thenUser z k => simp only at hc; split at hc
                      · cases hc; exact invA_push1 hl ha ht hempty rfl (by intro z df h; cases h)
                      · cases hc
    | wait x => simp only at hc; split at hc
                · cases hc; exact invA_push1 hl ha ht hempty rfl (by intro z df h; cases h)
                · cases hc
  · cases hc

theorem invA_fire {s s' : State} {t z : Nat} (hl : InvL s) (ha : InvA s) (hc : fire s t z = some s') : InvA s' := by
  unfold fire at hc
  split at hc
  · rename_i hcond
    obtain ⟨ht, hempty, hz, hal, _⟩ := hcond
    cases hc
    exact invA_push1 hl ha ht hempty rfl (by intro z' df h; injection h with h1 h2; subst h1; exact ⟨hz, hal, h2.symm⟩)
  · cases hc

theorem invA_same_todo {s s' : State} (hl : InvL s) (ha : InvA s) (htd : s'.todo = s.todo) (ex : Ext s s')
    (hsig : ∀ z, z ≠ s.nSig → (s'.sigs z).go = (s.sigs z).go ∧ (s'.sigs z).alive = (s.sigs z).alive ∧ (s'.sigs z).direct = (s.sigs z).direct)
    (hjobs : ∀ z j, j.andObj ≠ none → (s'.sigs z).jobs.count j = (s.sigs z).jobs.count j)
    (hands : s'.ands = s.ands) (hnand : s'.nAnd = s.nAnd) : InvA s' :=
  invA_neutral_push (new := []) hl ha (fun b hb => Or.inr ((inTodos_congr htd b).mp hb)) (fun b hb => (inTodos_congr htd b).mpr hb)
    (fun b => by rw [cnt_congr htd b]; rfl) ex s.nSig (Nat.le_refl _) hsig hjobs (fun n => by rw [hands]; exact ⟨rfl, rfl, rfl⟩) hnand
    (by intro b hb; cases hb) (by intro z df hm; cases hm)

theorem invA_release {s s' : State} {z : Nat} (hl : InvL s) (ha : InvA s) (hc : release s z = some s') : InvA s' := by
  unfold release at hc
  split at hc
  · cases hc
    have hsame : ∀ w, ((s.setSig z { s.sigs z with held := false }).sigs w).go = (s.sigs w).go
        ∧ ((s.setSig z { s.sigs z with held := false }).sigs w).direct = (s.sigs w).direct
        ∧ ((s.setSig z { s.sigs z with held := false }).sigs w).built = (s.sigs w).built
        ∧ ((s.setSig z { s.sigs z with held := false }).sigs w).never = (s.sigs w).never
        ∧ ((s.setSig z { s.sigs z with held := false }).sigs w).jobs = (s.sigs w).jobs
        ∧ ((s.setSig z { s.sigs z with held := false }).sigs w).alive = (s.sigs w).alive := by
      intro w; by_cases hw : w = z
      · subst hw; simp [State.setSig, upd_same]
      · simp [State.setSig, upd_other _ _ hw]
    exact invA_same_todo hl ha rfl (ext_same_objs rfl rfl rfl (fun w => ⟨(hsame w).1, (hsame w).2.1, (hsame w).2.2.1, (hsame w).2.2.2.1,
      fun h => by rw [(hsame w).2.2.2.2.2]; exact h⟩)) (fun w _ => ⟨(hsame w).1, (hsame w).2.2.2.2.2, (hsame w).2.1⟩)
      (fun w j _ => by rw [(hsame w).2.2.2.2.1]) rfl rfl
  · cases hc

theorem invA_newLeaf {s : State} (hl : InvL s) (ha : InvA s) : InvA (newLeaf s) := by
  have sig_o : ∀ z, z ≠ s.nSig → (newLeaf s).sigs z = s.sigs z := fun z hz => by simp [newLeaf, upd_other _ _ hz]
  have fresh := hl.F5 s.nSig (Nat.le_refl _)
  have ex : Ext s (newLeaf s) := by
    refine ⟨fun z hz hg' => by rw [sig_o z (by omega)]; exact hg', fun z hz => by rw [sig_o z (by omega)], fun z hz => by rw [sig_o z (by omega)],
      fun z hz _ => by rw [sig_o z (by omega)], fun o _ => ⟨rfl, rfl⟩, Nat.le_refl _, by simp [newLeaf], fun z hz hlt => by rw [sig_o z (by omega)]; exact hz, ?_⟩
    intro z h1 h2
    have : z = s.nSig := by simp only [newLeaf] at h2; omega
    subst this; simp [newLeaf, upd_same, freshSig]
  refine invA_same_todo hl ha rfl ex (fun z hz => by rw [sig_o z hz]; exact ⟨rfl, rfl, rfl⟩) ?_ rfl rfl
  intro z j _
  by_cases hz : z = s.nSig
  · subst hz; simp [newLeaf, upd_same, freshSig, fresh.2.1]
  · rw [sig_o z hz]

theorem invG_step {s s' : State} {t : Nat} {l : Label} (hl : InvL s) (hh : InvH s) (hg : InvG s) (hs : step s t = some (s', l)) : InvG s' := by
  unfold step at hs
  split at hs
  · rename_i ht
    cases htd : s.todo t with
    | nil => rw [htd] at hs; cases hs
    | cons a rest =>
      rw [htd] at hs; simp only at hs
      cases he : exec s t a rest with
      | none => rw [he] at hs; cases hs
      | some s2 =>
        rw [he] at hs; cases hs
        by_cases hnew : ∃ x y w, a = .orNew x y w
        · obtain ⟨x, y, w, rfl⟩ := hnew
          exact invG_orNew hl hg ht htd he
        · obtain ⟨new, sf⟩ := stepFacts_exec hl ht htd he (by intro x y w ha; exact hnew ⟨x, y, w, ha⟩)
          exact invG_stepFacts hl hh hg sf
  · cases hs

theorem invA_step {s s' : State} {t : Nat} {l : Label} (hl : InvL s) (hh : InvH s) (hg : InvG s) (ha : InvA s)
    (hs : step s t = some (s', l)) : InvA s' := by
  unfold step at hs
  split at hs
  · rename_i ht
    cases htd : s.todo t with
    | nil => rw [htd] at hs; cases hs
    | cons a rest =>
      rw [htd] at hs; simp only at hs
      cases he : exec s t a rest with
      | none => rw [he] at hs; cases hs
      | some s2 => rw [he] at hs; cases hs; exact invA_exec hl hh hg ha ht htd he
  · cases hs

theorem reach_all4 {s : State} (h : sys.Reach s) : InvL s ∧ InvH s ∧ InvG s ∧ InvA s := by
  refine Sys.Reach.invariant sys (P := fun s => InvL s ∧ InvH s ∧ InvG s ∧ InvA s) ?_ ?_ ?_ h
  · intro s hi; cases hi; exact ⟨invL_init, invH_init, invG_init, invA_init⟩
  · intro s s' ⟨hl, hh, hg, ha⟩ he
    rcases he with ⟨t, op, hc⟩ | he | ⟨t, z, hc⟩ | ⟨z, hc⟩ | ⟨t, z, hc⟩
    · exact ⟨invL_call hl hc, invH_call hl hh hc, invG_call hl hg hc, invA_call hl ha hc⟩
    · subst he; exact ⟨invL_newLeaf hl, invH_newLeaf hl hh, invG_newLeaf hl hg, invA_newLeaf hl ha⟩
    · exact ⟨invL_fire hl hc, invH_fire hl hh hc, invG_fire hl hg hc, invA_fire hl ha hc⟩
    · exact ⟨invL_release hl hc, invH_release hl hh hc, invG_release hl hg hc, invA_release hl ha hc⟩
    · exact ⟨invL_collect hl hc, invH_collect hl hh hc, invG_collect hl hh hg hc, invA_collect hl hh ha hc⟩
  · intro s s' t l ⟨hl, hh, hg, ha⟩ hs
    exact ⟨invL_step hl hs, invH_step hl hh hs, invG_step hl hh hg hs, invA_step hl hh hg ha hs⟩

end MoThreads.Composite
