/-
  M6 (Till): list lemmas and the inductive invariant.
-/
import MoThreads.Model.Till
namespace MoThreads.Till

/-! ### insertion sort and the due/rest split -/

theorem mem_insertT {x y : Timer} {l : List Timer} : y ∈ insertT x l ↔ y = x ∨ y ∈ l := by
  induction l with
  | nil => simp [insertT]
  | cons z zs ih =>
    simp only [insertT]; split
    · simp
    · simp [ih]; constructor
      · rintro (h | h | h) <;> simp [h]
      · rintro (h | h | h) <;> simp [h]

theorem mem_sortT {y : Timer} {l : List Timer} : y ∈ sortT l ↔ y ∈ l := by
  induction l with
  | nil => simp [sortT]
  | cons z zs ih => simp [sortT, mem_insertT, ih]

def Sorted (l : List Timer) : Prop := l.Pairwise (fun a b => a.1 ≤ b.1)

theorem sorted_insertT {x : Timer} {l : List Timer} (h : Sorted l) : Sorted (insertT x l) := by
  induction l with
  | nil => simp [insertT, Sorted]
  | cons z zs ih =>
    simp only [insertT]; split
    · rename_i hle
      simp only [Sorted, List.pairwise_cons] at h ⊢
      refine ⟨?_, h⟩
      intro a ha
      rcases List.mem_cons.mp ha with rfl | ha
      · exact hle
      · have := h.1 a ha; omega
    · rename_i hnle
      simp only [Sorted, List.pairwise_cons] at h ⊢
      refine ⟨?_, ih h.2⟩
      intro a ha
      rcases mem_insertT.mp ha with rfl | ha
      · omega
      · exact h.1 a ha

theorem sorted_sortT (l : List Timer) : Sorted (sortT l) := by
  induction l with
  | nil => simp [sortT, Sorted]
  | cons z zs ih => exact sorted_insertT ih

theorem mem_dueOf {n : Int} {y : Timer} {l : List Timer} (h : y ∈ dueOf n l) : y ∈ l ∧ y.1 ≤ n := by
  induction l with
  | nil => simp [dueOf] at h
  | cons z zs ih =>
    simp only [dueOf] at h; split at h
    · cases h
    · rcases List.mem_cons.mp h with rfl | h
      · exact ⟨by simp, by omega⟩
      · have := ih h; exact ⟨by simp [this.1], this.2⟩

theorem mem_restOf {n : Int} {y : Timer} {l : List Timer} (hs : Sorted l) (h : y ∈ restOf n l) : y ∈ l ∧ n < y.1 := by
  induction l with
  | nil => simp [restOf] at h
  | cons z zs ih =>
    simp only [Sorted, List.pairwise_cons] at hs
    simp only [restOf] at h; split at h
    · rename_i hlt
      rcases List.mem_cons.mp h with rfl | h
      · exact ⟨by simp, hlt⟩
      · have := hs.1 y h; exact ⟨by simp [h], by omega⟩
    · have := ih hs.2 h; exact ⟨by simp [this.1], this.2⟩

theorem mem_split {n : Int} {y : Timer} {l : List Timer} (h : y ∈ l) : y ∈ dueOf n l ∨ y ∈ restOf n l := by
  induction l with
  | nil => cases h
  | cons z zs ih =>
    simp only [dueOf, restOf]; split
    · exact Or.inr h
    · rcases List.mem_cons.mp h with rfl | h
      · left; simp
      · rcases ih h with h1 | h1
        · left; simp [h1]
        · exact Or.inr h1

/-! ### pc classifications -/

def DPC.holds : DPC → Bool
  | .d3 _ | .d3r .. | .d6 _ | .d6r .. | .f2 | .f2r _ => true
  | _ => false

def CPC.holds : CPC → Bool
  | .c3 .. | .c3b .. | .c4 .. => true
  | _ => false

/-- between the swap and the split: `sorted` still holds timers that were not due at the PREVIOUS scan -/
def DPC.midScan : DPC → Bool
  | .d6r .. | .d7 .. => true
  | _ => false

/-- daemon is inside a scan (after the swap): the clock equals `lastScan` -/
def DPC.scanning : DPC → Bool
  | .d6r .. | .d7 .. | .d8r _ | .d8w .. | .d9 _ => true
  | _ => false

def DPC.dueWork : DPC → Bool
  | .d8r _ | .d8w .. | .d9 _ => true
  | _ => false

/-- the global `enabled` has been rebound -/
def DPC.final : DPC → Bool
  | .f1 | .f2 | .f2r _ | .f3 _ | .done => true
  | _ => false

def DPC.drained : DPC → Bool
  | .f3 _ | .done => true
  | _ => false

def DPC.postSwap : DPC → Bool
  | .f2r _ | .f3 _ | .done => true
  | _ => false

/-- timers the daemon holds in local variables other than `sorted_timers` -/
def DPC.transit : DPC → List Timer
  | .d6r _ new | .d7 _ new => new
  | .d8r w | .d8w w _ | .d9 w => w
  | .f2r nw => nw
  | .f3 w => w
  | _ => []

/-- the clock value the daemon carries in a local -/
def DPC.clockLocal : DPC → Option Int
  | .d2 n | .d3 n | .d3r n _ | .d4 n _ | .d5 n | .d6 n | .d6r n _ | .d7 n _ => some n
  | _ => none

def DPC.laterLocal : DPC → Option (Int × Int)
  | .d3r n l | .d4 n l => some (n, l)
  | _ => none

/-- the Till this creator is in the middle of making -/
def CPC.making : CPC → Option Nat
  | .c2 _ id | .c3 _ id | .c3b _ id _ | .c4 id true | .c5 id => some id
  | _ => none

def CPC.unregistered : CPC → Option Nat
  | .c2 _ id | .c3 _ id | .c3b _ id _ => some id
  | _ => none

def CPC.pend : CPC → Option (Int × Nat)
  | .c2 d id | .c3 d id | .c3b d id _ => some (d, id)
  | _ => none

theorem DPC.postSwap_final (p : DPC) (h : p.postSwap = true) : p.final = true := by
  cases p <;> simp_all [DPC.postSwap, DPC.final]

/-! pre-generate the equation/congruence lemmas `grind` derives for these functions, so that the
per-case proof files (built in parallel) do not each create their own copies -/
theorem pregen_cpc (p : CPC) (id : Nat) (d : Int) :
    (p.unregistered = some id → p.making = some id) ∧ (p.pend = some (d, id) → p.making = some id) ∧
    (p.unregistered = some id → p.holds = true ∨ p.holds = false) := by
  refine ⟨?_, ?_, ?_⟩ <;> cases p <;> grind [CPC.unregistered, CPC.making, CPC.pend, CPC.holds]

theorem pregen_dpc (p : DPC) :
    (p.postSwap = true → p.final = true) ∧ (p.drained = true → p.postSwap = true) ∧ (p.dueWork = true → p.scanning = true) ∧
    (p.midScan = true → p.scanning = true) ∧ (p.holds = true → p.transit = p.transit) ∧
    (p.clockLocal = none → p.laterLocal = none) := by
  refine ⟨?_, ?_, ?_, ?_, ?_, ?_⟩ <;> cases p <;>
    grind [DPC.postSwap, DPC.final, DPC.drained, DPC.dueWork, DPC.scanning, DPC.midScan, DPC.holds, DPC.transit, DPC.clockLocal, DPC.laterLocal]

def maxI (a b : Int) : Int := if a ≤ b then b else a

structure Inv (s : State) : Prop where
  Ipos   : 0 < s.I
  cz     : s.cpc 0 = .idle
  lk0    : s.dpc.holds = true ↔ s.locker = some 0
  lkt    : ∀ t, t ≠ 0 → ((s.cpc t).holds = true ↔ s.locker = some t)
  g1     : s.started = true ↔ s.dpc ≠ .start
  g2     : s.disabled = true ↔ s.dpc.final = true
  M      : s.lastScan ≤ s.now
  A      : s.dpc ≠ .done → s.now ≤ s.lastScan + s.I
  S      : s.prevScan ≤ s.lastScan ∧ s.lastScan ≤ s.prevScan + s.I
  W      : ∀ w, s.dpc = .asleep w → w ≤ s.lastScan + s.I
  N      : ∀ n, s.dpc.clockLocal = some n → n = s.now
  P      : s.nextPing ≤ s.lastScan + s.I
  V      : ∀ w v, s.dpc = .d8w w v → v ≤ s.lastScan + s.I
  L      : ∀ n l, s.dpc.laterLocal = some (n, l) → n + l ≤ s.lastScan + s.I
  Nw     : s.dpc.scanning = true → s.now = s.lastScan
  E      : ∀ x, (x ∈ s.newTimers ∨ x ∈ s.sorted ∨ x ∈ s.dpc.transit) → x.1 = s.deadline x.2 ∧ s.regd x.2 = true
  B      : ∀ x, x ∈ s.newTimers → s.lastScan ≤ s.regAt x.2
  C      : ∀ x, x ∈ s.sorted → (if s.dpc.midScan then s.prevScan else s.lastScan) < x.1
  Tr     : s.dpc.scanning = true → ∀ x, x ∈ s.dpc.transit → (s.prevScan < x.1 ∨ s.prevScan ≤ s.regAt x.2)
  Due    : s.dpc.dueWork = true → ∀ x, x ∈ s.dpc.transit → x.1 ≤ s.now
  Loc    : ∀ id, s.regd id = true → s.fired id = false →
             (s.deadline id, id) ∈ s.newTimers ∨ (s.deadline id, id) ∈ s.sorted ∨ (s.deadline id, id) ∈ s.dpc.transit
  Ea     : s.early = false
  F1     : ∀ t d id, s.cpc t = .c3b d id true → s.dpc.postSwap = false
  F1'    : s.dpc.postSwap = true → s.newTimers = []
  F2     : s.dpc.drained = true → s.sorted = []
  F3     : ∀ id, s.created id = true → s.regd id = false → s.fired id = false → (s.cpc (s.maker id)).making = some id
  Fr     : ∀ id, s.nextId ≤ id → s.created id = false ∧ s.regd id = false ∧ s.fired id = false
  Rc     : ∀ id, s.regd id = true → s.created id = true
  Mk     : ∀ t id, (s.cpc t).making = some id → s.maker id = t ∧ s.created id = true
  Un     : ∀ t id, (s.cpc t).unregistered = some id → s.regd id = false ∧ s.fired id = false
  Dd     : ∀ t d id, (s.cpc t).pend = some (d, id) → d = s.deadline id
  Rg     : ∀ t id, s.cpc t = .c4 id false → s.regd id = true

end MoThreads.Till
