import MoThreads.Proofs.SignalCoreTac
namespace MoThreads.SignalCore
set_option maxHeartbeats 2000000

theorem step_w0 {s s' : State} {t : Nat} {l : Label} (h : Inv s) (hp : s.pc t = .w0)
    (hs : step s t = some (s', l)) : Inv s' := by
  step_case

theorem step_w1 {s s' : State} {t : Nat} {l : Label} (h : Inv s) (hp : s.pc t = .w1)
    (hs : step s t = some (s', l)) : Inv s' := by
  step_case

theorem step_w2 {s s' : State} {t : Nat} {l : Label} (h : Inv s) (hp : s.pc t = .w2)
    (hs : step s t = some (s', l)) : Inv s' := by
  step_case

theorem step_w2r {s s' : State} {t : Nat} {l : Label} (h : Inv s) (hp : s.pc t = .w2r)
    (hs : step s t = some (s', l)) : Inv s' := by
  step_case

theorem step_w3 {s s' : State} {t : Nat} {l : Label} (h : Inv s) (hp : s.pc t = .w3)
    (hs : step s t = some (s', l)) : Inv s' := by
  step_case

theorem step_w4 {s s' : State} {t : Nat} {l : Label} {x : Nat} (h : Inv s) (hp : s.pc t = .w4 x)
    (hs : step s t = some (s', l)) : Inv s' := by
  step_case

theorem step_w5n {s s' : State} {t : Nat} {l : Label} {x : Nat} (h : Inv s) (hp : s.pc t = .w5n x)
    (hs : step s t = some (s', l)) : Inv s' := by
  step_open; inv_open
  case noLost =>
    intro u y; have := noLost u y; have := lst_eq_nil_of_falsy (emptyW t x hp)
    cases hw : s.winner <;> simp only [hw] at * <;>
      grind [PC.isWinner, PC.pendingS, lst, truthy]
  inv_rest

theorem step_w5a {s s' : State} {t : Nat} {l : Label} {x : Nat} (h : Inv s) (hp : s.pc t = .w5a x)
    (hs : step s t = some (s', l)) : Inv s' := by
  step_case

theorem step_w6 {s s' : State} {t : Nat} {l : Label} {x : Nat} (h : Inv s) (hp : s.pc t = .w6 x)
    (hs : step s t = some (s', l)) : Inv s' := by
  step_case

theorem step_w7 {s s' : State} {t : Nat} {l : Label} {x : Nat} (h : Inv s) (hp : s.pc t = .w7 x)
    (hs : step s t = some (s', l)) : Inv s' := by
  step_case

end MoThreads.SignalCore
