/-
  M8 (ProcessIO): a ranking function.  Without the environment (timeouts, kills, abandoned readers, new calls) every step of
  the child, a reader, the monitor or the caller of join() strictly decreases
    3·|script| + [child alive] + Σ_k (reader position + 2·|pipe k|) + monitor position + caller position.
-/
import MoThreads.Proofs.ProcSteps
namespace MoThreads.ProcessIO
open MoThreads
set_option maxHeartbeats 1000000

def rrank : RPC → Nat
  | .done => 0 | .exiting => 1 | .fin2 => 2 | .fin1 => 3 | .read => 4 | .add _ => 5

def mrank (p : MPC) (rc : Option Nat) : Nat :=
  match p with
  | .test => 9 | .idle => 8 | .wait => 7
  | .chk => if rc.isSome then 6 else 10
  | .post => 5 | .postWait => 4 | .join0 => 3 | .join1 => 2 | .setStopped => 1 | .done => 0

def urank : UPC → Nat
  | .jwait => 3 | .jchk => 2 | .jchk2 => 1 | _ => 0

def R (s : State) (k : Nat) : Nat := rrank (s.rpc k) + 2 * (s.buf k).length

/-- upper bound of the steps the child, the readers, the monitor and the caller of join() can still take without the
environment (timeouts, kills, abandoned readers) -/
def rank (s : State) : Nat :=
  3 * s.script.length + (if s.exited.isSome then 0 else 1) + R s 0 + R s 1 + mrank s.mpc s.rc + urank s.upc

theorem mrank_rc_mono (p : MPC) (rc : Option Nat) (st : Nat) : mrank p (some st) ≤ mrank p rc := by
  cases p <;> simp only [mrank] <;> (try omega)
  cases rc <;> simp

theorem rank_stepChild {s s' : State} {l : Label} (hs : stepChild s = some (s', l)) : rank s' < rank s := by
  unfold stepChild at hs
  cases he : s.exited with
  | some st => rw [he] at hs; cases hs
  | none =>
    rw [he] at hs; simp only at hs
    cases hsc : s.script with
    | nil => rw [hsc] at hs; cases hs; simp only [rank, R, he, hsc]; simp
    | cons kx rest =>
      obtain ⟨k, x⟩ := kx
      rw [hsc] at hs; cases hs
      simp only [rank, R, he, hsc, upd, List.length_cons]
      by_cases h0 : k = 0
      · subst h0; simp; omega
      · by_cases h1 : k = 1
        · subst h1; simp; omega
        · have e0 : ¬ (0 = k) := fun h => h0 h.symm
          have e1 : ¬ (1 = k) := fun h => h1 h.symm
          simp only [e0, e1, if_false]; omega

theorem rank_stepReader {s s' : State} {l : Label} (k : Nat) (hk : k = 0 ∨ k = 1) (hs : stepReader s k = some (s', l)) : rank s' < rank s := by
  unfold stepReader at hs
  cases hp : s.rpc k with
  | read =>
    rw [hp] at hs; simp only at hs
    cases hb : s.buf k with
    | cons x rest =>
      rw [hb] at hs; cases hs
      rcases hk with rfl | rfl <;> (simp only [rank, R, upd] at *; simp [hp, hb, rrank]; omega)
    | nil =>
      rw [hb] at hs; simp only at hs; split at hs
      · cases hs
        rcases hk with rfl | rfl <;> (simp only [rank, R, upd] at *; simp [hp, hb, rrank])
      · cases hs
  | add x =>
    rw [hp] at hs; simp only at hs; split at hs
    · cases hs
      rcases hk with rfl | rfl <;> (simp only [rank, R, upd] at *; simp [hp, rrank])
    · cases hs
      rcases hk with rfl | rfl <;> (simp only [rank, R, upd] at *; simp [hp, rrank])
  | fin1 => rw [hp] at hs; cases hs; rcases hk with rfl | rfl <;> (simp only [rank, R, upd] at *; simp [hp, rrank])
  | fin2 => rw [hp] at hs; cases hs; rcases hk with rfl | rfl <;> (simp only [rank, R, upd] at *; simp [hp, rrank])
  | exiting => rw [hp] at hs; cases hs; rcases hk with rfl | rfl <;> (simp only [rank, R, upd] at *; simp [hp, rrank])
  | done => rw [hp] at hs; cases hs

theorem rank_stepMonitor {s s' : State} {l : Label} (hs : stepMonitor s = some (s', l)) : rank s' < rank s := by
  unfold stepMonitor at hs
  cases hp : s.mpc with
  | test => rw [hp] at hs; cases hs; cases hps : s.pstop <;> simp [rank, R, hp, mrank]
  | idle => rw [hp] at hs; cases hs; simp [rank, R, hp, mrank]
  | wait =>
    rw [hp] at hs; simp only at hs
    cases he : s.exited with
    | none => rw [he] at hs; cases hs
    | some st => rw [he] at hs; cases hs; simp [rank, R, hp, mrank]; (try omega)
  | chk =>
    rw [hp] at hs; cases hs
    simp only [rank, R, hp]
    cases hr : s.rc <;> simp [mrank]
  | post => rw [hp] at hs; cases hs; cases hr : s.rc <;> simp [rank, R, hp, mrank]
  | postWait =>
    rw [hp] at hs; simp only at hs
    cases he : s.exited with
    | none => rw [he] at hs; cases hs
    | some st => rw [he] at hs; cases hs; simp [rank, R, hp, mrank]; (try omega)
  | join0 => rw [hp] at hs; simp only at hs; split at hs <;> (first | (cases hs; done) | (cases hs; simp [rank, R, hp, mrank]))
  | join1 => rw [hp] at hs; simp only at hs; split at hs <;> (first | (cases hs; done) | (cases hs; simp [rank, R, hp, mrank]))
  | setStopped => rw [hp] at hs; cases hs; simp [rank, R, hp, mrank]
  | done => rw [hp] at hs; cases hs

theorem rank_stepUser {s s' : State} {l : Label} (hs : stepUser s = some (s', l)) : rank s' < rank s := by
  unfold stepUser at hs
  cases hp : s.upc with
  | jwait => rw [hp] at hs; simp only at hs; split at hs <;> (first | (cases hs; done) | (cases hs; simp [rank, R, hp, urank]))
  | jchk =>
    rw [hp] at hs; simp only at hs
    cases hr : s.rc with
    | some st => rw [hr] at hs; cases hs; simp [rank, R, hp, hr, urank]
    | none =>
      rw [hr] at hs; cases hs
      unfold doKill
      cases he : s.exited with
      | some st =>
        have := mrank_rc_mono s.mpc none st
        simp only [rank, R, hp, hr, he, urank] at this ⊢; simp; omega
      | none => simp [rank, R, hp, hr, he, urank]; (try omega)
  | jchk2 => rw [hp] at hs; cases hs; by_cases h0 : s.rc = some 0 <;> simp [rank, R, hp, urank, h0]
  | idle => rw [hp] at hs; cases hs
  | returned => rw [hp] at hs; cases hs
  | raisedTimeout => rw [hp] at hs; cases hs
  | raisedFail => rw [hp] at hs; cases hs

theorem rank_step {s s' : State} {t : Nat} {l : Label} (hs : step s t = some (s', l)) : rank s' < rank s := by
  unfold step at hs
  split at hs
  · exact rank_stepChild hs
  · split at hs
    · exact rank_stepReader 0 (Or.inl rfl) hs
    · split at hs
      · exact rank_stepReader 1 (Or.inr rfl) hs
      · split at hs
        · exact rank_stepMonitor hs
        · split at hs
          · exact rank_stepUser hs
          · cases hs

/-- every run without environment moves (no timeout, no kill, no abandoned reader, no new call) takes at most `rank s` steps -/
theorem run_length_le_rank {s s' : State} {tr : List (Nat × Label)} (r : sys.Run s tr s') : tr.length + rank s' ≤ rank s :=
  Sys.Run.length_le_rank sys rank (fun _ _ _ _ hs => rank_step hs) r

end MoThreads.ProcessIO
