import MoThreads.Proofs.TillC_c4
namespace MoThreads.Till
set_option maxHeartbeats 4000000

set_option hygiene false in
macro "c5_common" : tactic => `(tactic| (
    try (case Mk =>
      intro u id' hu
      by_cases hut : u = t
      · subst hut; simp [CPC.making] at hu
      · simp only [hut, if_false] at hu; exact Mk u id' hu)
    try (case lkt =>
      intro u hu
      by_cases hut : u = t
      · subst hut; simp only [if_true, CPC.holds]
        have := lkt u hu; rw [hp] at this; simpa [CPC.holds] using this
      · simp only [hut, if_false]; exact lkt u hu)))

theorem stepC_c5 {s s' : State} {t : Nat} {l : Label} {id : Nat} (h : Inv s) (ht : t ≠ 0) (hp : s.cpc t = .c5 id)
    (hs : stepC s t = some (s', l)) : Inv s' := by
  unfold stepC at hs; rw [hp] at hs; simp only at hs; cases hs
  have hmkt := h.Mk t id (by simp [hp, CPC.making])
  have hum : ∀ u id', (s.cpc u).unregistered = some id' → (s.cpc u).making = some id' := fun u id' hu => by
    cases hc : s.cpc u <;> simp_all [CPC.unregistered, CPC.making]
  have huniq : ∀ u, u ≠ t → (s.cpc u).unregistered ≠ some id := fun u hu hm => hu ((h.Mk u id (hum u id hm)).1.symm.trans hmkt.1)
  unfold fireId
  by_cases hf : s.fired id = true
  · simp only [hf, if_true]
    copen
    c5_common
    case Un =>
      intro u id' hu
      by_cases hut : u = t
      · subst hut; simp [CPC.unregistered] at hu
      · simp only [hut, if_false] at hu; exact Un u id' hu
    case F3 =>
      intro id' h1 h2 h3
      have h4 := F3 id' h1 h2 h3
      by_cases hmt : s.maker id' = t
      · rw [hmt, hp] at h4; simp only [CPC.making, Option.some.injEq] at h4
        subst h4; simp_all
      · simp only [hmt, if_false]; exact h4
    crest
  · have hf' : s.fired id = false := by simpa using hf
    simp only [hf', Bool.false_eq_true, if_false]
    copen
    c5_common
    case Un =>
      intro u id' hu
      by_cases hut : u = t
      · subst hut; simp [CPC.unregistered] at hu
      · simp only [hut, if_false] at hu
        have h1 := Un u id' hu
        have : id' ≠ id := fun he => huniq u hut (he ▸ hu)
        simp [this, h1]
    case Ea => simp [Ea]
    case F3 =>
      intro id' h1 h2 h3
      have hne : id' ≠ id := by intro he; subst he; simp at h3
      have hfx : s.fired id' = false := by simpa [hne] using h3
      have h4 := F3 id' h1 h2 hfx
      by_cases hmt : s.maker id' = t
      · rw [hmt, hp] at h4; simp only [CPC.making, Option.some.injEq] at h4
        exact absurd h4.symm hne
      · simp only [hmt, if_false]; exact h4
    crest
end MoThreads.Till
