/-
  M2: a live, untriggered OR composite holds a STRONG reference to its OrSignal object: the OrSignal's cleanup is
  registered in the composite's callback list, or that registration is still pending in the thread that builds the
  composite.  (The AND counterpart is InvL.Ka.)  With the operand list of the OrSignal intact, the operands are
  reachable from the composite by strong references alone, independently of the weak-reference cycle that also keeps the
  OrSignal alive under reference counting: a cyclic collector cannot free the operands of a reachable composite.
-/
import MoThreads.Proofs.CompAnd
namespace MoThreads.Composite
set_option maxHeartbeats 2000000

def Ko (s : State) : Prop :=
  ∀ o, o < s.nOr → (s.sigs (s.ors o).target).alive = true → (s.sigs (s.ors o).target).go = false →
    Job.orCleanup o ∈ (s.sigs (s.ors o).target).jobs ∨ InTodos s (.thenJ (s.ors o).target (.orCleanup o))

theorem ko_init : Ko init := by
  intro o ho; simp [init] at ho

theorem ko_stepFacts {s s' : State} {t : Nat} {a : Act} {rest new : List Act} (hl : InvL s) (hk : Ko s)
    (sf : StepFacts s s' t a rest new) : Ko s' := by
  intro o ho hal hgo
  have ho0 : o < s.nOr := by rw [← sf.nor]; exact ho
  obtain ⟨_, htg⟩ := sf.ext.ors o ho0
  rw [htg] at hal hgo ⊢
  have hlt := (hl.F1 o ho0).1
  have hal0 : (s.sigs (s.ors o).target).alive = true := by
    cases h : (s.sigs (s.ors o).target).alive with
    | true => rfl
    | false => have := sf.ext.dead _ h hlt; rw [this] at hal; cases hal
  have hgo0 : (s.sigs (s.ors o).target).go = false := by
    cases h : (s.sigs (s.ors o).target).go with
    | false => rfl
    | true => have := sf.ext.go _ hlt h; rw [this] at hgo; cases hgo
  rcases hk o ho0 hal0 hgo0 with h1 | h1
  · rcases sf.jkeep _ _ h1 with h2 | ⟨_, _, hg'⟩ | h2
    · exact Or.inl h2
    · rw [hg'] at hgo; cases hgo
    · have hin : InTodos s a := sf.st.head
      rw [h2] at hin
      obtain ⟨o', i', hj⟩ := hl.B4 _ _ hin
      cases hj
  · by_cases hae : a = .thenJ (s.ors o).target (.orCleanup o)
    · rcases sf.thenReg _ _ hae with ⟨hg1, _⟩ | ⟨_, hj⟩
      · rw [hgo0] at hg1; cases hg1
      · exact Or.inl hj
    · exact Or.inr (sf.st.keep h1 (fun h => hae h.symm))

/-- environment moves that leave signals' callback lists, flags and the OrSignal objects alone and only add pending actions -/
theorem ko_env_same {s s' : State} (hk : Ko s) (hkeep : ∀ b, InTodos s b → InTodos s' b)
    (hors : s'.ors = s.ors) (hnor : s'.nOr = s.nOr)
    (hsig : ∀ o, o < s.nOr → (s'.sigs (s.ors o).target).go = (s.sigs (s.ors o).target).go
        ∧ (s'.sigs (s.ors o).target).jobs = (s.sigs (s.ors o).target).jobs
        ∧ (s'.sigs (s.ors o).target).alive = (s.sigs (s.ors o).target).alive) : Ko s' := by
  intro o ho hal hgo
  rw [hnor] at ho
  rw [hors] at hal hgo ⊢
  obtain ⟨h1, h2, h3⟩ := hsig o ho
  rw [h3] at hal; rw [h1] at hgo; rw [h2]
  exact (hk o ho hal hgo).imp id (hkeep _)

theorem ko_call {s s' : State} {t : Nat} {op : Op} (hk : Ko s) (hc : call s t op = some s') : Ko s' := by
  unfold call at hc
  split at hc
  · rename_i hcond
    obtain ⟨ht, hempty⟩ := hcond
    have key : ∀ a, Ko (s.setTodo t [a]) := by
      intro a
      have push : TodoPush s (s.setTodo t [a]) t [a] := ⟨ht, by simp [State.setTodo, hempty]⟩
      exact ko_env_same hk (fun b hb => push.keep hb) rfl rfl (fun o _ => ⟨rfl, rfl, rfl⟩)
    cases op <;> (simp only at hc; split at hc <;> (first | (cases hc; exact key _) | cases hc))
  · cases hc

theorem ko_fire {s s' : State} {t z : Nat} (hk : Ko s) (hc : fire s t z = some s') : Ko s' := by
  unfold fire at hc
  split at hc
  · rename_i hcond
    obtain ⟨ht, hempty, _⟩ := hcond
    cases hc
    have push : TodoPush s (s.setTodo t [.goS z true]) t [.goS z true] := ⟨ht, by simp [State.setTodo, hempty]⟩
    exact ko_env_same hk (fun b hb => push.keep hb) rfl rfl (fun o _ => ⟨rfl, rfl, rfl⟩)
  · cases hc

theorem ko_release {s s' : State} {z : Nat} (hk : Ko s) (hc : release s z = some s') : Ko s' := by
  unfold release at hc
  split at hc
  · cases hc
    refine ko_env_same hk (fun b hb => hb) rfl rfl (fun o _ => ?_)
    by_cases hw : (s.ors o).target = z
    · rw [hw]; simp [State.setSig, upd_same]
    · simp [State.setSig, upd_other _ _ hw]
  · cases hc

theorem ko_newLeaf {s : State} (hl : InvL s) (hk : Ko s) : Ko (newLeaf s) := by
  refine ko_env_same hk (fun b hb => hb) rfl rfl (fun o ho => ?_)
  have hlt := (hl.F1 o ho).1
  have hne : (s.ors o).target ≠ s.nSig := by omega
  simp [newLeaf, upd_other _ _ hne]

theorem ko_orNew {s s' : State} {t x y : Nat} {w : Bool} {rest : List Act} (hl : InvL s) (hk : Ko s) (ht : t < NT)
    (hs : s.todo t = Act.orNew x y w :: rest) (he : exec s t (.orNew x y w) rest = some s') : Ko s' := by
  simp only [exec, Option.some.injEq] at he; subst he
  intro o ho hal hgo
  by_cases hon : o = s.nOr
  · subst hon
    right
    refine ⟨t, ht, ?_⟩
    simp [State.setTodo, upd_same]
  · have ho0 : o < s.nOr := by simp only [State.setTodo] at ho; omega
    have hlt := (hl.F1 o ho0).1
    have hne : (s.ors o).target ≠ s.nSig := by omega
    simp only [State.setTodo, upd_other _ _ hon, upd_other _ _ hne] at hal hgo ⊢
    rcases hk o ho0 hal hgo with h1 | h1
    · exact Or.inl h1
    · right
      obtain ⟨u, hu, hm⟩ := h1
      refine ⟨u, hu, ?_⟩
      by_cases hut : u = t
      · subst hut
        rw [hs] at hm
        simp only [upd, if_true]
        rcases List.mem_cons.mp hm with h2 | h2
        · cases h2
        · simp [h2]
      · simp only [upd, hut, if_false]; exact hm

theorem ko_collect {s s' : State} {t z : Nat} (hl : InvL s) (hk : Ko s) (hc : collect s t z = some s') : Ko s' := by
  unfold collect at hc
  split at hc
  · rename_i hcond
    obtain ⟨ht, hcol⟩ := hcond
    -- in both branches: signal z dies, other signals are untouched, pending actions are only added
    have key : ∀ s2 : State, s2.ors = s.ors → s2.nOr = s.nOr → (∀ b, InTodos s b → InTodos s2 b) →
        (∀ w, w ≠ z → s2.sigs w = s.sigs w) → (s2.sigs z).alive = false → Ko s2 := by
      intro s2 h1 h2 h3 h4 h5 o ho hal hgo
      rw [h2] at ho
      rw [h1] at hal hgo ⊢
      by_cases hw : (s.ors o).target = z
      · rw [hw, h5] at hal; cases hal
      · rw [h4 _ hw] at hal hgo ⊢
        exact (hk o ho hal hgo).imp id (h3 _)
    cases hb : (s.sigs z).built with
    | orOut o =>
      rw [hb] at hc; simp only at hc; cases hc
      refine key _ rfl rfl ?_ ?_ ?_
      · intro b ⟨u, hu, hm⟩
        refine ⟨u, hu, ?_⟩
        simp only [State.setTodo, State.setSig, upd]
        split
        · rename_i hut; subst hut; exact List.mem_cons_of_mem _ hm
        · exact hm
      · intro w hw; simp [State.setTodo, State.setSig, upd_other _ _ hw]
      · simp [State.setTodo, State.setSig, upd_same]
    | leaf =>
      rw [hb] at hc; simp only at hc; cases hc
      exact key _ rfl rfl (fun b hb => hb) (fun w hw => by simp [State.setSig, upd_other _ _ hw]) (by simp [State.setSig, upd_same])
    | andOut n =>
      rw [hb] at hc; simp only at hc; cases hc
      exact key _ rfl rfl (fun b hb => hb) (fun w hw => by simp [State.setSig, upd_other _ _ hw]) (by simp [State.setSig, upd_same])
  · cases hc

theorem ko_step {s s' : State} {t : Nat} {l : Label} (hl : InvL s) (hk : Ko s) (hs : step s t = some (s', l)) : Ko s' := by
  unfold step at hs
  split at hs
  · rename_i ht
    cases htd : s.todo t with
    | nil => rw [htd] at hs; cases hs
    | cons a rest =>
      rw [htd] at hs; simp only at hs
      cases he : exec s t a rest with
      | none => rw [he] at hs; cases hs
      | some s2 =>
        rw [he] at hs; cases hs
        by_cases hnew : ∃ x y w, a = .orNew x y w
        · obtain ⟨x, y, w, rfl⟩ := hnew
          exact ko_orNew hl hk ht htd he
        · obtain ⟨new, sf⟩ := stepFacts_exec hl ht htd he (by intro x y w ha; exact hnew ⟨x, y, w, ha⟩)
          exact ko_stepFacts hl hk sf
  · cases hs

theorem reach_ko {s : State} (h : sys.Reach s) : InvL s ∧ Ko s := by
  refine Sys.Reach.invariant sys (P := fun s => InvL s ∧ Ko s) ?_ ?_ ?_ h
  · intro s hi; cases hi; exact ⟨invL_init, ko_init⟩
  · intro s s' ⟨hl, hk⟩ he
    rcases he with ⟨t, op, hc⟩ | he | ⟨t, z, hc⟩ | ⟨z, hc⟩ | ⟨t, z, hc⟩
    · exact ⟨invL_call hl hc, ko_call hk hc⟩
    · subst he; exact ⟨invL_newLeaf hl, ko_newLeaf hl hk⟩
    · exact ⟨invL_fire hl hc, ko_fire hk hc⟩
    · exact ⟨invL_release hl hc, ko_release hk hc⟩
    · exact ⟨invL_collect hl hc, ko_collect hl hk hc⟩
  · intro s s' t l ⟨hl, hk⟩ hs
    exact ⟨invL_step hl hs, ko_step hl hk hs⟩

end MoThreads.Composite
