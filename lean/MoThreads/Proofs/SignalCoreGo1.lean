import MoThreads.Proofs.SignalCoreTac
namespace MoThreads.SignalCore
set_option maxHeartbeats 2000000

theorem step_g0 {s s' : State} {t : Nat} {l : Label} (h : Inv s) (hp : s.pc t = .g0)
    (hs : step s t = some (s', l)) : Inv s' := by
  step_case

theorem step_g1 {s s' : State} {t : Nat} {l : Label} (h : Inv s) (hp : s.pc t = .g1)
    (hs : step s t = some (s', l)) : Inv s' := by
  step_case

theorem step_g2 {s s' : State} {t : Nat} {l : Label} (h : Inv s) (hp : s.pc t = .g2)
    (hs : step s t = some (s', l)) : Inv s' := by
  step_case

theorem step_g2r {s s' : State} {t : Nat} {l : Label} (h : Inv s) (hp : s.pc t = .g2r)
    (hs : step s t = some (s', l)) : Inv s' := by
  step_case

theorem step_g3 {s s' : State} {t : Nat} {l : Label} (h : Inv s) (hp : s.pc t = .g3)
    (hs : step s t = some (s', l)) : Inv s' := by
  step_open; inv_open
  case preSet =>
    intro u; have := preSet u; have := mutex u; have := mutex t; have := PC.preSet_holds (s.pc u)
    grind [PC.preSet, PC.holds]
  case win =>
    intro u; have := win u; have := sawGo u; have := preSet t; have := PC.isWinner_sawGo (s.pc u)
    grind [PC.isWinner, PC.preSet]
  case noLost =>
    intro u y; have := noLost u y; have := win t
    rcases hw : s.winner with _ | g <;> simp only [hw] at *
    · grind [PC.isWinner, PC.pendingS, lst, truthy]
    · have := win g; have := sawGo g; have := preSet t; have := PC.isWinner_sawGo (s.pc g)
      grind [PC.isWinner, PC.sawGo, PC.preSet]
  case locD =>
    intro k; have := locD k; have := win t
    rcases hw : s.winner with _ | g <;> simp only [hw] at *
    · grind [PC.isWinner, PC.pendingJ, lst, truthy]
    · have := win g; have := sawGo g; have := preSet t; have := PC.isWinner_sawGo (s.pc g)
      grind [PC.isWinner, PC.sawGo, PC.preSet]
  inv_rest

theorem step_g4 {s s' : State} {t : Nat} {l : Label} (h : Inv s) (hp : s.pc t = .g4)
    (hs : step s t = some (s', l)) : Inv s' := by
  step_case

theorem step_g5 {s s' : State} {t : Nat} {l : Label} (h : Inv s) (hp : s.pc t = .g5)
    (hs : step s t = some (s', l)) : Inv s' := by
  step_case

end MoThreads.SignalCore
