/-
  Line-protocol replay of M10 (PyProxy).
    run <id> m10
    call <t> out <code|none> log|nolog | call <t> err nolog
    step <t|reader|worker> acq PL | rel PL | W|R done sig<k>|DONE | W|R response <code|none> | W|R error none|err
                            | request | reply out <code|none> | reply err
    ret <t> value <code|none> | ret <t> raised | ret <t> discard
    end done|stuck|bound [stuck callers]
  Hidden model steps (the hand-off of the request line to the worker's stdin, a waiter waking up, the
  reader popping a line) are taken eagerly.
-/
import MoThreads.Model.PyProxy
namespace MoThreads.Driver.M10
open MoThreads.PyProxy

def showVal : Option Nat → String
  | none => "none"
  | some v => toString v

def showDone : DoneRef → String
  | .DONE => "DONE"
  | .sig k => s!"sig{k}"

def showErr (e : Bool) : String := if e then "err" else "none"

def labelShow : Label → String
  | .acq => "acq PL"
  | .rel => "rel PL"
  | .wDone d => "W done " ++ showDone d
  | .rDone d => "R done " ++ showDone d
  | .wResp v => "W response " ++ showVal v
  | .rResp v => "R response " ++ showVal v
  | .wErr e => "W error " ++ showErr e
  | .rErr e => "R error " ++ showErr e
  | .send => "send"
  | .request _ => "request"
  | .reply (.out v) => "reply out " ++ showVal v
  | .reply .err => "reply err"
  | .reply .log => "reply log"
  | .tau => "tau"

def hidden : Label → Bool
  | .send | .tau => true
  | _ => false

structure Sim where
  s : State := init
  n : Nat := 2            -- thread ids below n have been seen
  steps : Nat := 0

/-- one pass over all threads taking a hidden step where possible -/
def pass (n : Nat) (s : State) : Nat → State × Nat
  | 0 => (s, 0)
  | t + 1 =>
    let (s1, k1) := pass n s t
    match step s1 t with
    | some (s2, l) => if hidden l then (s2, k1 + 1) else (s1, k1)
    | none => (s1, k1)

def closure (fuel : Nat) (n : Nat) (s : State) : State × Nat :=
  match fuel with
  | 0 => (s, 0)
  | fuel + 1 =>
    let (s1, k) := pass n s n
    if k == 0 then (s1, 0) else let (s2, k2) := closure fuel n s1; (s2, k + k2)

def parseVal (w : String) : Option (Option Nat) :=
  if w == "none" then some none else w.toNat?.map some

def tid (w : String) : Option Nat :=
  if w == "reader" then some 0 else if w == "worker" then some 1 else w.toNat?.map (· + 2)

def feed (m : Sim) (ws : List String) : Except String Sim :=
  match ws with
  | "call" :: t :: rest =>
    match t.toNat? with
    | none => .error "bad thread"
    | some t0 =>
      let t := t0 + 2
      let ans? : Option (Reply × Bool) := match rest with
        | ["out", v, wl] => (parseVal v).map fun v => (Reply.out v, wl == "log")
        | ["err", wl] => some (.err, wl == "log")
        | _ => none
      match ans? with
      | none => .error "bad call"
      | some (ans, wl) =>
        match call m.s t ans wl with
        | none => .error s!"model: thread {t0} cannot start a call here"
        | some s' =>
          let n := max m.n (t + 1)
          let (s'', k) := closure 64 n s'
          .ok { m with s := s'', n := n, steps := m.steps + k }
  | "step" :: who :: lab =>
    match tid who with
    | none => .error "bad thread"
    | some t =>
      let want := " ".intercalate lab
      match step m.s t with
      | none => .error s!"model: {who} cannot move but the implementation did: {want}"
      | some (s', l) =>
        if labelShow l != want then .error s!"labels differ for {who}: model=`{labelShow l}` impl=`{want}`"
        else
          let n := max m.n (t + 1)
          let (s'', k) := closure 64 n s'
          .ok { m with s := s'', n := n, steps := m.steps + 1 + k }
  | ["ret", t, "raised"] =>
    match t.toNat? with
    | none => .error "bad thread"
    | some t => if m.s.cpc (t + 2) == .idle .raised then .ok m else .error s!"return differs: the implementation raised, the model is at {repr (m.s.cpc (t + 2))}"
  | ["ret", t, "value", v] =>
    match t.toNat?, parseVal v with
    | some t, some v => if m.s.cpc (t + 2) == .idle (.value v) then .ok m else .error s!"return differs: the implementation returned {showVal v}, the model is at {repr (m.s.cpc (t + 2))}"
    | _, _ => .error "bad ret"
  | ["ret", t, "discard"] =>
    match t.toNat? with
    | none => .error "bad thread"
    | some t => match m.s.cpc (t + 2) with
      | .idle (.value _) => .ok m
      | p => .error s!"return differs: the implementation returned, the model is at {repr p}"
  | "end" :: kind :: _ =>
    if kind == "bound" then .ok m
    else
      let movers := (List.range m.n).filter fun t => (step m.s t).isSome
      let busy := (List.range m.n).filter fun t => match m.s.cpc t with | .idle _ => false | _ => true
      if kind == "done" then
        if busy.isEmpty then .ok m else .error s!"implementation finished but model callers {busy} have not returned"
      else
        if movers.isEmpty then .ok m else .error s!"implementation is stuck but model threads {movers} can move"
  | [] => .ok m
  | w :: _ => .error s!"unknown line kind {w}"

end MoThreads.Driver.M10
