/-
  Line-protocol replay of M5 (ThreadTree).  Trace acceptance at the granularity of Model/ThreadTree.lean.
    run <id> m5
    call <t> spawn | spawn_orphan | stop <u> | join <u> <till|-> | join_all <u,u,..> <till|-> | release <u> | finish ok <v> | finish fail | main_stop
    env fire <x> | env expire <t>
    step <t> all+ <u> | all- <u> | snap <u> [c,..] | reg <c> <p> | unreg <c> <p> <True|False> | clear <p> | peek <p>
             | pstop <u> | stopped <u> | joiner <u> | waited <u> <True|False> | start <c> | snapall [u,..]
    ret <t> <kind> <result>
    end done|stuck <t>..
  Thread-local model steps (label tau) are taken eagerly after each visible step of the same thread.
-/
import MoThreads.Model.ThreadTree
namespace MoThreads.Driver.M5
open MoThreads.ThreadTree

def showList (l : List Nat) : String := "[" ++ ",".intercalate (l.map toString) ++ "]"
def showBool (b : Bool) : String := if b then "True" else "False"

def labelShow : Label → String
  | .allAdd u => s!"all+ {u}"
  | .allDel u => s!"all- {u}"
  | .outcome u ok => s!"outcome {u} " ++ showBool ok
  | .snap u cs => s!"snap {u} " ++ showList cs
  | .reg c p => s!"reg {c} {p}"
  | .unreg c p b => s!"unreg {c} {p} " ++ showBool b
  | .clear p => s!"clear {p}"
  | .peek p => s!"peek {p}"
  | .firePstop u => s!"pstop {u}"
  | .fireStopped u => s!"stopped {u}"
  | .fireJoiner u => s!"joiner {u}"
  | .waited u b => s!"waited {u} " ++ showBool b
  | .startThread c => s!"start {c}"
  | .snapAll res => "snapall " ++ showList res
  | .tau => "tau"

def retShow : Ret → String
  | .none => "?"
  | .done => "done"
  | .value v => s!"value {v}"
  | .raised => "raised"
  | .timeout => "timeout"
  | .values l => "values " ++ "[" ++ ",".intercalate (l.map fun o => match o with | some v => toString v | none => "-") ++ "]"
  | .allRaised => "allraised"

structure Sim where
  s : State
  threads : List Nat := [0]
  steps : Nat := 0

def insertSorted (t : Nat) : List Nat → List Nat
  | [] => [t]
  | x :: xs => if t < x then t :: x :: xs else if t = x then x :: xs else x :: insertSorted t xs

def closure (fuel : Nat) (s : State) (t : Nat) : State × Nat :=
  match fuel with
  | 0 => (s, 0)
  | fuel + 1 =>
    match step s t with
    | some (s', .tau) => let (s'', k) := closure fuel s' t; (s'', k + 1)
    | _ => (s, 0)

/-- take thread-local steps of `t` until its next step carries the wanted label; then take that step -/
def stepTo (fuel : Nat) (s : State) (t : Nat) (want : String) : Except String (State × Nat) :=
  match fuel with
  | 0 => .error "too many thread-local steps"
  | fuel + 1 =>
    match step s t with
    | none => .error s!"model: thread {t} cannot move but the implementation did: {want}"
    | some (s', l) =>
      if labelShow l == want then .ok (s', 1)
      else if l == .tau then
        match stepTo fuel s' t want with
        | .ok (s'', k) => .ok (s'', k + 1)
        | .error e => .error e
      else .error s!"labels differ for thread {t}: model=`{labelShow l}` impl=`{want}`"

def parseTill (w : String) : Option (Option Nat) := if w == "-" then some none else w.toNat?.map some
def parseList (w : String) : Option (List Nat) := if w == "" || w == "-" then some [] else (w.splitOn ",").mapM String.toNat?

def start : Sim := { s := init }

def busy (s : State) (t : Nat) : Bool :=
  match s.phase t with
  | .absent | .dead | .linger => false
  | .running => (match s.call t with | .idle _ => false | _ => true) && true
  | _ => true

def feed (m : Sim) (ws : List String) : Except String Sim :=
  match ws with
  | "call" :: t :: rest =>
    match t.toNat? with
    | none => .error "bad thread"
    | some t =>
      let op? : Option Op := match rest with
        | ["spawn"] => some .spawn
        | ["spawn_orphan"] => some .spawnOrphan
        | ["stop", u] => u.toNat?.map Op.stop
        | ["join", u, tl] => match u.toNat?, parseTill tl with
          | some u, some tl => some (.join u tl)
          | _, _ => none
        | ["join_all", us, tl] => match parseList us, parseTill tl with
          | some us, some tl => some (.joinAll us tl)
          | _, _ => none
        | ["release", u] => u.toNat?.map Op.release
        | ["finish", "ok", v] => v.toNat?.map fun v => Op.finish (.ok v)
        | ["finish", "fail"] => some (.finish .fail)
        | ["main_stop"] => some .mainStop
        | _ => none
      match op? with
      | none => .error s!"bad op {rest}"
      | some op =>
        match call m.s t op with
        | none => .error s!"model rejects call {rest} by thread {t}"
        | some s' =>
          let (s'', k) := closure 64 s' t
          let ths := match op with
            | .spawn => insertSorted m.s.nextId (insertSorted t m.threads)
            | .spawnOrphan => insertSorted m.s.nextId (insertSorted t m.threads)
            | _ => insertSorted t m.threads
          .ok { m with s := s'', threads := ths, steps := m.steps + k }
  | ["env", "fire", x] => match x.toNat? with
    | some x => .ok { m with s := fireTill m.s x }
    | none => .error "bad till"
  | ["env", "expire", t] => match t.toNat? with
    | some t =>
      -- the thread's sixty seconds are over; what it does then without touching anything shared is thread-local
      let s1 := expire m.s t
      let (s2, k) := closure 64 s1 t
      .ok { m with s := s2, steps := m.steps + k }
    | none => .error "bad thread"
  | "step" :: t :: lab =>
    match t.toNat? with
    | none => .error "bad thread"
    | some t =>
      match stepTo 64 m.s t (" ".intercalate lab) with
      | .error e => .error e
      | .ok (s', k1) =>
        let (s'', k) := closure 64 s' t
        .ok { m with s := s'', steps := m.steps + k1 + k }
  | "ret" :: t :: _kind :: res =>
    match t.toNat? with
    | none => .error "bad thread"
    | some t =>
      let m := { m with s := (closure 64 m.s t).1 }
      match m.s.call t with
      | .idle r => if retShow r == " ".intercalate res then .ok m
                   else .error s!"result differs for thread {t}: model=`{retShow r}` impl=`{" ".intercalate res}`"
      | _ => .error s!"model: call of thread {t} has not returned but the implementation's has ({res})"
  | "end" :: kind :: rest =>
    match rest.mapM String.toNat? with
    | none => .error "bad end line"
    | some ts =>
      -- threads woken by others (e.g. a lingering thread whose joiner fired) finish their thread-local steps
      let sfin := m.threads.foldl (fun s t => (closure 64 s t).1) m.s
      let m := { m with s := sfin }
      let b := m.threads.filter fun t => busy m.s t
      let en := m.threads.filter fun t => (step m.s t).isSome
      if kind == "bound" then .ok m
      else if b != ts then .error s!"unfinished threads differ: model={b} impl={ts}"
      else if en != [] then .error s!"implementation ended ({kind}) but the model can still move: {en}"
      else .ok m
  | [] => .ok m
  | w :: _ => .error s!"unknown line kind {w}"

end MoThreads.Driver.M5
