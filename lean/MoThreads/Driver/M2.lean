/-
  Line-protocol replay of M2 (Composite).
    run <id> m2
    newleaf                                   -- the program creates a plain signal / Till (id = next signal id)
    call <t> mkOr x y | mkAnd x y | waitOr x y | go x | thenUser z k | wait x
    fire <t> z | release z | collect <t> z
    step <t> <action>     -- orTest1 x y | orTest2 x y | orNew x y | andNew x y | thenJ d <job> | run <job> | goS x
                          -- | removeJ d <job> | ret c | retDone | waitS c        (ghost indices are not printed)
    obs z go=<0|1> jobs=<n> alive=<0|1>
    end done|stuck|bound
-/
import MoThreads.Model.Composite
namespace MoThreads.Driver.M2
open MoThreads.Composite

def jobShow : Job → String
  | .orHook o _ => s!"orHook {o}"
  | .orCleanup o => s!"orCleanup {o}"
  | .andDone n _ => s!"andDone {n}"
  | .andCleanup n => s!"andCleanup {n}"
  | .user k => s!"user {k}"

def actShow : Act → String
  | .orTest1 x y _ => s!"orTest1 {x} {y}"
  | .orTest2 x y _ => s!"orTest2 {x} {y}"
  | .orNew x y _ => s!"orNew {x} {y}"
  | .andNew x y => s!"andNew {x} {y}"
  | .thenJ d j => s!"thenJ {d} " ++ jobShow j
  | .run j => "run " ++ jobShow j
  | .goS x _ => s!"goS {x}"
  | .removeJ d j => s!"removeJ {d} " ++ jobShow j
  | .ret c _ => s!"ret {c}"
  | .retDone => "retDone"
  | .waitS c => s!"waitS {c}"

structure Sim where
  s : State := init
  steps : Nat := 0

def nat2 (a b : String) : Option (Nat × Nat) :=
  match a.toNat?, b.toNat? with
  | some a, some b => some (a, b)
  | _, _ => none

def parseOp (ws : List String) : Option Op :=
  match ws with
  | ["mkOr", x, y] => (nat2 x y).map fun (x, y) => .mkOr x y
  | ["mkAnd", x, y] => (nat2 x y).map fun (x, y) => .mkAnd x y
  | ["waitOr", x, y] => (nat2 x y).map fun (x, y) => .waitOr x y
  | ["go", x] => x.toNat?.map .go
  | ["thenUser", z, k] => (nat2 z k).map fun (z, k) => .thenUser z k
  | ["wait", x] => x.toNat?.map .wait
  | _ => none

def b01 (b : Bool) : String := if b then "1" else "0"

def feed (m : Sim) (ws : List String) : Except String Sim :=
  match ws with
  | ["newleaf"] => .ok { m with s := newLeaf m.s }
  | "call" :: t :: rest =>
    match t.toNat?, parseOp rest with
    | some t, some op =>
      match call m.s t op with
      | some s' => .ok { m with s := s' }
      | none => .error s!"model: thread {t} cannot start {rest} here (busy, or an operand is not a live signal the program holds)"
    | _, _ => .error "bad call"
  | ["fire", t, z] =>
    match nat2 t z with
    | some (t, z) => match fire m.s t z with
      | some s' => .ok { m with s := s' }
      | none => .error s!"model: signal {z} cannot be fired by thread {t}"
    | none => .error "bad fire"
  | ["release", z] =>
    match z.toNat? with
    | some z => match release m.s z with
      | some s' => .ok { m with s := s' }
      | none => .error s!"model: the program does not hold signal {z}"
    | none => .error "bad release"
  | ["collect", t, z] =>
    match nat2 t z with
    | some (t, z) => match collect m.s t z with
      | some s' => .ok { m with s := s' }
      | none => .error s!"model: signal {z} was freed by the implementation but is still referenced in the model"
    | none => .error "bad collect"
  | "step" :: t :: lab =>
    match t.toNat? with
    | none => .error "bad thread"
    | some t =>
      let want := " ".intercalate lab
      match m.s.todo t with
      | [] => .error s!"model: thread {t} has nothing to do but the implementation did: {want}"
      | a :: _ =>
        if actShow a != want then .error s!"actions differ for thread {t}: model=`{actShow a}` impl=`{want}`"
        else match step m.s t with
          | some (s', _) => .ok { m with s := s', steps := m.steps + 1 }
          | none => .error s!"model: thread {t} is blocked at `{actShow a}` but the implementation moved"
  | ["obs", z, g, j, a] =>
    match z.toNat? with
    | none => .error "bad obs"
    | some z =>
      let sg := m.s.sigs z
      let got := s!"go={b01 sg.go} jobs={sg.jobs.length} alive={b01 sg.alive}"
      let want := s!"{g} {j} {a}"
      if got == want then .ok m else .error s!"signal {z} differs: model {got}, implementation {want}"
  | "end" :: kind :: _ =>
    if kind == "bound" then .ok m
    else
      let busy := (List.range NT).filter fun t => !(m.s.todo t).isEmpty
      let movers := (List.range NT).filter fun t => (step m.s t).isSome
      -- freed objects the implementation never reported
      let garbage := (List.range m.s.nSig).filter fun z => collectable m.s z
      if !garbage.isEmpty then .error s!"model: signals {garbage} are unreferenced but the implementation never freed them"
      else if kind == "done" then
        if busy.isEmpty then .ok m else .error s!"implementation finished but model threads {busy} still have pending actions"
      else if movers.isEmpty then .ok m else .error s!"implementation is stuck but model threads {movers} can move"
  | [] => .ok m
  | w :: _ => .error s!"unknown line kind {w}"

end MoThreads.Driver.M2
