/-
  Pure-function differential for M9 (Command): every line carries an input and the result the REAL code
  produced; the driver recomputes it with the Lean functions and reports a mismatch.
  Strings are encoded as code points in hex separated by '.', the empty string as "-".
    run <id> m9
    quote <arg> <arg> ... = <line>            -- " ".join(cmd_escape(p) for p in params)
    parse <line> = <arg> <arg> ...  |  parse <line> = none
    wparse <tok> ... = <line> ... ; <rc>      -- tok: L:<str> | M:<str> | S:<n>
    pool <op> ... = avail:<k>/<pid>,.. inuse:<k>/<pid>,..      -- op: g<k> | r<pid>
-/
import MoThreads.Model.Command
namespace MoThreads.Driver.M9
open MoThreads.Command

def hexVal (c : Char) : Option Nat :=
  if c.isDigit then some (c.toNat - '0'.toNat)
  else if 'a' ≤ c ∧ c ≤ 'f' then some (c.toNat - 'a'.toNat + 10)
  else none

def parseHex (s : String) : Option Nat :=
  s.toList.foldl (fun acc c => match acc, hexVal c with | some a, some v => some (a * 16 + v) | _, _ => none) (some 0)

def decodeStr (w : String) : Option (List Char) :=
  if w == "-" then some []
  else (w.splitOn ".").mapM fun h => (parseHex h).map Char.ofNat

def hexDigit (n : Nat) : Char := if n < 10 then Char.ofNat (n + 48) else Char.ofNat (n - 10 + 97)
def toHex (n : Nat) : String :=
  if n < 16 then String.singleton (hexDigit n) else
  let rec go (fuel n : Nat) (acc : List Char) : List Char :=
    match fuel with
    | 0 => acc
    | fuel + 1 => if n = 0 then acc else go fuel (n / 16) (hexDigit (n % 16) :: acc)
  String.ofList (go 8 n [])

def encodeStr (l : List Char) : String :=
  if l = [] then "-" else ".".intercalate (l.map fun c => toHex c.toNat)

structure Sim where
  steps : Nat := 0

def splitEq (ws : List String) : List String × List String :=
  let pre := ws.takeWhile (· ≠ "=")
  (pre, (ws.dropWhile (· ≠ "=")).drop 1)

def parseTok (w : String) : Option Tok :=
  if w.startsWith "L:" then (decodeStr (w.drop 2).toString).map Tok.line
  else if w.startsWith "M:" then (decodeStr (w.drop 2).toString).map Tok.marker
  else if w.startsWith "S:" then (w.drop 2).toString.toNat?.map Tok.status
  else none

def showPool (l : List (Nat × Nat)) : String := ",".intercalate (l.map fun x => s!"{x.1}/{x.2}")

def parseOp (w : String) : Option PoolOp :=
  if w.startsWith "g" then (w.drop 1).toString.toNat?.map PoolOp.get
  else if w.startsWith "r" then (w.drop 1).toString.toNat?.map PoolOp.ret
  else none

def feed (m : Sim) (ws : List String) : Except String Sim :=
  match ws with
  | "quote" :: rest =>
    let (args, exp) := splitEq rest
    match args.mapM decodeStr, exp with
    | some as, [e] =>
      let mine := encodeStr (commandLine as)
      if mine == e then .ok { m with steps := m.steps + 1 } else .error s!"quote differs: lean={mine} real={e}"
    | _, _ => .error "bad quote line"
  | "parse" :: rest =>
    let (inp, exp) := splitEq rest
    match inp with
    | [l] =>
      match decodeStr l with
      | none => .error "bad parse input"
      | some line =>
        let mine := match shParse line with
          | none => ["none"]
          | some wsx => wsx.map encodeStr
        if mine == exp then .ok { m with steps := m.steps + 1 } else .error s!"parse differs: lean={mine} real={exp}"
    | _ => .error "bad parse line"
  | "wparse" :: rest =>
    let (toks, exp) := splitEq rest
    match toks.mapM parseTok with
    | none => .error "bad token"
    | some ts =>
      let mine := match workerParse ts with
        | none => ["none"]
        | some (ls, rc, _) => ls.map encodeStr ++ [";", toString rc]
      if mine == exp then .ok { m with steps := m.steps + 1 } else .error s!"workerParse differs: lean={mine} real={exp}"
  | "pool" :: rest =>
    let (ops, exp) := splitEq rest
    match ops.mapM parseOp with
    | none => .error "bad pool op"
    | some os =>
      let p := Pool.init.run os
      let mine := ["avail:" ++ showPool p.avail, "inuse:" ++ showPool p.inuse]
      if mine == exp then .ok { m with steps := m.steps + 1 } else .error s!"pool differs: lean={mine} real={exp}"
  | "end" :: _ => .ok m
  | [] => .ok m
  | w :: _ => .error s!"unknown line kind {w}"

end MoThreads.Driver.M9
