/-
  Line-protocol replay of M3 (Monitor = mo_threads.lock.Lock).  Trace acceptance: the harness runs the
  REAL Lock (with the real Signal/OrSignal underneath, interleaved at lock-operation granularity) and
  records only events of the model's granularity; every one must be a step the model can take, with
  the same label (values read from `Lock.waiting` included).
    run <id> m3
    call <t> enter | exit | set <i> <v> | wait <c> <till>      c = i:v or - ; till = x or -
    env fire <x>
    step <t> acq M | rel M | R waiting [w,..] | W waiting [w,..] | fire <w>
    ret <t> wait True|False
    end done|stuck|bound <t> ...
-/
import MoThreads.Model.Monitor
namespace MoThreads.Driver.M3
open MoThreads.Monitor

def showList (l : List Nat) : String := "[" ++ ",".intercalate (l.map toString) ++ "]"

def Label.show : Label → String
  | .acq => "acq M"
  | .rel => "rel M"
  | .rWaiting l => "R waiting " ++ showList l
  | .wWaiting l => "W waiting " ++ showList l
  | .fire w => "fire " ++ toString w

structure Sim where
  s : State
  threads : List Nat := []
  steps : Nat := 0

def insertSorted (t : Nat) : List Nat → List Nat
  | [] => [t]
  | x :: xs => if t < x then t :: x :: xs else if t = x then x :: xs else x :: insertSorted t xs

def parseCond (w : String) : Option Cond :=
  if w == "-" then some none else
  match w.splitOn ":" with
  | [i, v] => match i.toNat?, v.toNat? with
    | some i, some v => some (some (i, v))
    | _, _ => none
  | _ => none

def parseTill (w : String) : Option (Option Nat) :=
  if w == "-" then some none else w.toNat?.map some

def isOutside (p : PC) : Bool := match p with | .idle _ => true | _ => false

def start : Sim := { s := init }

def feed (m : Sim) (ws : List String) : Except String Sim :=
  match ws with
  | "call" :: t :: rest =>
    match t.toNat? with
    | none => .error "bad thread"
    | some t =>
      let op? : Option Op := match rest with
        | ["enter"] => some .enter
        | ["exit"] => some .exit
        | ["set", i, v] => match i.toNat?, v.toNat? with
          | some i, some v => some (.set i v)
          | _, _ => none
        | ["wait", c, tl] => match parseCond c, parseTill tl with
          | some c, some tl => some (.wait c tl)
          | _, _ => none
        | _ => none
      match op? with
      | none => .error s!"bad op {rest}"
      | some op =>
        match call m.s t op with
        | none => .error s!"model rejects call {rest} by thread {t} (monitor discipline / not idle)"
        | some s' => .ok { m with s := s', threads := insertSorted t m.threads }
  | ["env", "fire", x] =>
    match x.toNat? with
    | none => .error "bad till"
    | some x => .ok { m with s := fireTill m.s x }
  | "step" :: t :: lab =>
    match t.toNat? with
    | none => .error "bad thread"
    | some t =>
      match step m.s t with
      | none => .error s!"model: thread {t} cannot move but the implementation did: {" ".intercalate lab}"
      | some (s', l) =>
        let ls := Label.show l
        if ls == " ".intercalate lab then .ok { m with s := s', steps := m.steps + 1 }
        else .error s!"labels differ for thread {t}: model=`{ls}` impl=`{" ".intercalate lab}`"
  | ["ret", t, "wait", v] =>
    match t.toNat? with
    | none => .error "bad thread"
    | some t =>
      match m.s.pc t with
      | .inside (.waited b) =>
        if (if b then "True" else "False") == v then .ok m
        else .error s!"wait() return value differs for thread {t}: model={b} impl={v}"
      | _ => .error s!"model: thread {t} has not returned from wait() but the implementation has"
  | "end" :: kind :: rest =>
    match rest.mapM String.toNat? with
    | none => .error "bad end line"
    | some ts =>
      let busy := m.threads.filter fun t => !isOutside (m.s.pc t)
      let en := m.threads.filter fun t => (step m.s t).isSome
      if kind == "bound" then .ok m
      else if busy != ts then .error s!"unfinished threads differ: model={busy} impl={ts}"
      else if en != [] then .error s!"implementation ended ({kind}) but the model can still move: {en}"
      else .ok m
  | [] => .ok m
  | w :: _ => .error s!"unknown line kind {w}"

end MoThreads.Driver.M3
