/-
  Line-protocol replay of M7 (TQWorker).
    run <id> m7 batch=<n> fails=<0|1,...>
    add <v>|M            -- a producer / stop() appended to the worker's own queue
    env timer <k> | env pstop
    step looptest <b> | popped <v|M|None> | ntest <b> | newtimer <k> | extend [..] ok|fail | requeue | pstop | sinkmarker
    end done|stuck|bound
-/
import MoThreads.Model.TQWorker
namespace MoThreads.Driver.M7
open MoThreads.TQWorker

def showBool (b : Bool) : String := if b then "True" else "False"
def showItem : Option Item → String
  | none => "None"
  | some .marker => "M"
  | some (.val v) => toString v

def labelShow : Label → String
  | .looptest b => "looptest " ++ showBool b
  | .popped x => "popped " ++ showItem x
  | .newtimer k => s!"newtimer {k}"
  | .extend b ok => "extend [" ++ ",".intercalate (b.map toString) ++ "] " ++ (if ok then "ok" else "fail")
  | .requeue => "requeue"
  | .pstop => "pstop"
  | .sinkmarker => "sinkmarker"
  | .tau => "tau"
  | .tauLazy => "tauLazy"
  | .ntest b => "ntest " ++ showBool b

structure Sim where
  s : State
  steps : Nat := 0

def closure (fuel : Nat) (s : State) : State × Nat :=
  match fuel with
  | 0 => (s, 0)
  | fuel + 1 =>
    match step s with
    | some (s', .tau) => let (s'', k) := closure fuel s'; (s'', k + 1)
    | _ => (s, 0)

def stepTo (fuel : Nat) (s : State) (want : String) : Except String (State × Nat) :=
  match fuel with
  | 0 => .error "too many thread-local steps"
  | fuel + 1 =>
    match step s with
    | none =>
      .error s!"model: the worker cannot move but the implementation did: {want}"
    | some (s', l) =>
      if labelShow l == want then .ok (s', 1)
      else if l == .tau || l == .tauLazy then
        -- the optional timer renewal after a blocking pop
        if l == .tauLazy && want.startsWith "newtimer" then
          match optTimer s with
          | some s2 => if want == s!"newtimer {s.nextT}" then .ok (s2, 1) else .error s!"timer id differs: model={s.nextT} impl=`{want}`"
          | none => .error "optTimer not allowed"
        else
          match stepTo fuel s' want with
          | .ok (s'', k) => .ok (s'', k + 1)
          | .error e => .error e
      else .error s!"labels differ: model=`{labelShow l}` impl=`{want}`"

def start (batch : Nat) (fails : List Bool) : Sim := { s := (closure 8 (init batch fails)).1 }

def feed (m : Sim) (ws : List String) : Except String Sim :=
  match ws with
  | ["add", x] =>
    let it? : Option Item := if x == "M" then some .marker else x.toNat?.map Item.val
    match it? with
    | none => .error "bad item"
    | some it => .ok { m with s := add m.s it }
  | ["env", "timer", k] => match k.toNat? with
    | some k => .ok { m with s := fireTimer m.s k }
    | none => .error "bad timer"
  | ["env", "pstop"] => .ok { m with s := externalStop m.s }
  | "step" :: lab =>
    match stepTo 64 m.s (" ".intercalate lab) with
    | .error e => .error e
    | .ok (s', k1) =>
      let (s'', k) := closure 64 s'
      .ok { m with s := s'', steps := m.steps + k1 + k }
  | "stop" :: _ => .ok m
  | "end" :: kind :: _ =>
    let (sfin, _) := closure 64 m.s
    -- lazily skippable steps may remain (the optional timer renewal, the `next_push` test): the code has taken them
    let lazy1 (x : State) : State := match step x with
      | some (s', .tauLazy) => (closure 64 s').1
      | _ => x
    let sfin := lazy1 sfin
    if kind == "bound" then .ok m
    else match step sfin with
      | some (_, l) => .error s!"implementation ended ({kind}) but the model worker can still move: {labelShow l}"
      | none => if kind == "done" && sfin.pc != .done && sfin.pc != .crashed then .error s!"implementation finished but the model worker is blocked"
                else .ok { m with s := sfin }
  | [] => .ok m
  | w :: _ => .error s!"unknown line kind {w}"

end MoThreads.Driver.M7
