/-
  Line-protocol replay of M1 (SignalCore).  The harness runs the REAL Signal under the deterministic
  scheduler and writes, per run:
    run <id> m1 never=<0|1> raises=<k,k,...>
    call <t> wait|go|bool|then|remove [k]
    enabled <t> <t> ...          -- threads the scheduler considered runnable before the next step
    step <t> <label>             -- the visible operation the implementation performed
    ret <t> <wait|go|bool|then|remove> [True|False]
    end done|stuck <t> <t> ...
  `replay` feeds them to the model's `call`/`step` and reports the first disagreement.
-/
import MoThreads.Model.SignalCore
namespace MoThreads.Driver.M1
open MoThreads.SignalCore

def showList (l : List Nat) (pfx : String) : String :=
  "[" ++ ",".intercalate (l.map fun x => pfx ++ toString x) ++ "]"

def showOpt (v : Option (List Nat)) (pfx : String) : String :=
  match v with
  | none => "None"
  | some l => showList l pfx

def showBool (b : Bool) : String := if b then "True" else "False"

def Label.show : Label → String
  | .rGo b => "R _go " ++ showBool b
  | .wGo => "W _go True"
  | .acq => "acq L"
  | .rel => "rel L"
  | .acqS x => "acq #" ++ toString x
  | .relS x => "rel #" ++ toString x
  | .rJobs v => "R job_queue " ++ showOpt v ""
  | .wJobs v => "W job_queue " ++ showOpt v ""
  | .rWait v => "R waiting_threads " ++ showOpt v "#"
  | .wWait v => "W waiting_threads " ++ showOpt v "#"
  | .cb k => "cb " ++ toString k
  | .err k => "err " ++ toString k

structure Sim where
  s : State
  threads : List Nat := []     -- threads seen so far
  steps : Nat := 0
  pendingEnabled : Option (List Nat) := none   -- the scheduler's runnable set before the next step

def isIdle (p : PC) : Bool := match p with | .idle _ => true | _ => false

def enabledThreads (m : Sim) : List Nat :=
  m.threads.filter fun t => (step m.s t).isSome

def insertSorted (t : Nat) : List Nat → List Nat
  | [] => [t]
  | x :: xs => if t < x then t :: x :: xs else if t = x then x :: xs else x :: insertSorted t xs

def parseNats (ws : List String) : Option (List Nat) := ws.mapM String.toNat?

def retMatches (r : Ret) (kind : String) (val : String) : Bool :=
  match r, kind with
  | .waitTrue, "wait" => val == "True"
  | .goSelf, "go" => true
  | .boolV b, "bool" => val == showBool b
  | .thenSelf, "then" => true
  | .removeNone, "remove" => true
  | _, _ => false

def start (never : Bool) (raising : List Nat) : Sim :=
  { s := init never (fun k => raising.contains k) }

/-- process one line; `Except` carries the disagreement -/
def feed (m : Sim) (ws : List String) : Except String Sim :=
  match ws with
  | "call" :: t :: op :: rest =>
    match t.toNat? with
    | none => .error "bad thread"
    | some t =>
      let op? : Option Op := match op, rest with
        | "wait", _ => some .wait
        | "go", _ => some .go
        | "bool", _ => some .bool
        | "then", _ => some .then_
        | "remove", [k] => k.toNat?.map Op.remove
        | _, _ => none
      match op? with
      | none => .error "bad op"
      | some op =>
        match call m.s t op with
        | none => .error s!"model: thread {t} is not idle at call"
        | some s' => .ok { m with s := s', threads := insertSorted t m.threads }
  | "enabled" :: rest =>
    match parseNats rest with
    | none => .error "bad enabled line"
    | some ts => .ok { m with pendingEnabled := some ts }
  | "step" :: t :: lab =>
    match t.toNat? with
    | none => .error "bad thread"
    | some t =>
      let me := enabledThreads m
      if m.pendingEnabled.isSome && m.pendingEnabled != some me then
        .error s!"enabled sets differ: model={me} impl={m.pendingEnabled.getD []}"
      else
      let m := { m with pendingEnabled := none }
      match step m.s t with
      | none => .error s!"model: thread {t} is blocked/idle but the implementation stepped: {" ".intercalate lab}"
      | some (s', l) =>
        let ls := Label.show l
        if ls == " ".intercalate lab then .ok { m with s := s', steps := m.steps + 1 }
        else .error s!"labels differ for thread {t}: model=`{ls}` impl=`{" ".intercalate lab}`"
  | "ret" :: t :: kind :: rest =>
    match t.toNat? with
    | none => .error "bad thread"
    | some t =>
      match m.s.pc t with
      | .idle r =>
        if retMatches r kind (rest.headD "") then .ok m
        else .error s!"return value differs for thread {t}: impl={kind} {rest}"
      | _ => .error s!"model: thread {t} has not returned but the implementation has ({kind})"
  | "end" :: kind :: rest =>
    match parseNats rest with
    | none => .error "bad end line"
    | some ts =>
      let busy := m.threads.filter fun t => !isIdle (m.s.pc t)
      let en := enabledThreads m
      if busy != ts then .error s!"unfinished threads differ: model={busy} impl={ts}"
      else if en != [] then .error s!"implementation ended ({kind}) but the model can still move: {en}"
      else .ok m
  | "final" :: rest =>
    -- final go flag, ran counts ... : "final go=True ran=0:1,1:1 errs=0:1"
    let goS := "go=" ++ showBool m.s.go
    let ks := List.range m.s.nextK
    let ranS := "ran=" ++ ",".intercalate (ks.map fun k => s!"{k}:{m.s.ran k}")
    let errS := "errs=" ++ ",".intercalate (ks.map fun k => s!"{k}:{m.s.errs k}")
    let mine := [goS, ranS, errS]
    if mine == rest then .ok m else .error s!"final state differs: model={mine} impl={rest}"
  | [] => .ok m
  | w :: _ => .error s!"unknown line kind {w}"

end MoThreads.Driver.M1
