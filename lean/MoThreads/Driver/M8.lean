/-
  Line-protocol replay of M8 (ProcessIO).
    run <id> m8 script=<k>:<i>,... status=<n>
    step child write <k> <i> | step child exit <st>
    step r<k> read <k> <i|eof> | add <k> | pstop | close <k>
    step mon mtest <b> | wait reaped <st> | wait timeout | kill killed|late | close <k> | stopped
    step main kill killed|late | step main pstop | step wr pstop
    userstop | join called | join returned|timeout|fail
    end done|stuck|bound
  Thread-local steps (tau) are taken lazily, when the next visible label of that thread needs them.
-/
import MoThreads.Model.ProcessIO
namespace MoThreads.Driver.M8
open MoThreads.ProcessIO

def showBool (b : Bool) : String := if b then "True" else "False"

def labelShow : Label → String
  | .write k x => s!"write {k} {x}"
  | .exit st => s!"exit {st}"
  | .read k (some x) => s!"read {k} {x}"
  | .read k none => s!"read {k} eof"
  | .add k => s!"add {k}"
  | .pstop => "pstop"
  | .close k => s!"close {k}"
  | .mtest b => "mtest " ++ showBool b
  | .waitReaped st => s!"wait reaped {st}"
  | .waitTimeout => "wait timeout"
  | .kill late => "kill " ++ (if late then "late" else "killed")
  | .stopped => "stopped"
  | .tau => "tau"

structure Sim where
  s : State
  steps : Nat := 0
  joined : Bool := false

def parseScript (w : String) : List (Nat × Nat) :=
  (w.splitOn ",").filterMap fun p =>
    match p.splitOn ":" with
    | [a, b] => match a.toNat?, b.toNat? with
      | some a, some b => some (a, b)
      | _, _ => none
    | _ => none

def start (script : String) (status : Nat) : Sim := { s := init (parseScript script) status }

/-- advance thread t through tau steps until it produces the wanted label -/
def stepTo (fuel : Nat) (s : State) (t : Nat) (want : String) : Except String (State × Nat) :=
  match fuel with
  | 0 => .error "too many thread-local steps"
  | fuel + 1 =>
    match step s t with
    | none => .error s!"model: thread {t} cannot move but the implementation did: {want}"
    | some (s', l) =>
      if labelShow l == want then .ok (s', 1)
      else if l == .tau then
        match stepTo fuel s' t want with
        | .ok (s'', k) => .ok (s'', k + 1)
        | .error e => .error e
      else .error s!"labels differ for thread {t}: model=`{labelShow l}` impl=`{want}`"

/-- advance thread t through tau steps until `p` holds -/
def tauUntil (fuel : Nat) (s : State) (t : Nat) (p : State → Bool) : Option (State × Nat) :=
  match fuel with
  | 0 => none
  | fuel + 1 =>
    if p s then some (s, 0)
    else match step s t with
      | some (s', .tau) => (tauUntil fuel s' t p).map fun (s'', k) => (s'', k + 1)
      | _ => none

def closureT (fuel : Nat) (s : State) (t : Nat) : State × Nat :=
  match fuel with
  | 0 => (s, 0)
  | fuel + 1 =>
    match step s t with
    | some (s', .tau) => let (s'', k) := closureT fuel s' t; (s'', k + 1)
    | _ => (s, 0)

def closureAll (s : State) : State × Nat :=
  let (s1, k1) := closureT 16 s 1
  let (s2, k2) := closureT 16 s1 2
  let (s3, k3) := closureT 16 s2 3
  let (s4, k4) := closureT 16 s3 4
  let (s5, k5) := closureT 16 s4 3
  let (s6, k6) := closureT 16 s5 4
  (s6, k1 + k2 + k3 + k4 + k5 + k6)

/-- the monitor's next visible label; a join that blocks lets the readers finish their thread-local steps first -/
def monStepTo (fuel : Nat) (s : State) (want : String) : Except String (State × Nat) :=
  match fuel with
  | 0 => .error "too many thread-local steps"
  | fuel + 1 =>
    match step s 3 with
    | none =>
      let (s1, k1) := closureT 4 s 1
      let (s2, k2) := closureT 4 s1 2
      if k1 + k2 == 0 then .error s!"model: the monitor cannot move but the implementation did: {want}"
      else match monStepTo fuel s2 want with
        | .ok (s3, k) => .ok (s3, k + k1 + k2)
        | .error e => .error e
    | some (s', l) =>
      if labelShow l == want then .ok (s', 1)
      else if l == .tau then
        match monStepTo fuel s' want with
        | .ok (s'', k) => .ok (s'', k + 1)
        | .error e => .error e
      else .error s!"labels differ for the monitor: model=`{labelShow l}` impl=`{want}`"

/-- advance the monitor through tau steps (letting readers finish when a join blocks) until `p` holds -/
def monUntil (fuel : Nat) (s : State) (p : State → Bool) : Option (State × Nat) :=
  match fuel with
  | 0 => none
  | fuel + 1 =>
    if p s then some (s, 0)
    else match step s 3 with
      | some (s', .tau) => (monUntil fuel s' p).map fun (s'', k) => (s'', k + 1)
      | none =>
        let (s1, k1) := closureT 4 s 1
        let (s2, k2) := closureT 4 s1 2
        if k1 + k2 == 0 then none else (monUntil fuel s2 p).map fun (s3, k) => (s3, k + k1 + k2)
      | _ => none

/-- the same, letting only reader thread `r` (1 = stdout reader, 2 = stderr reader) finish its thread-local steps -/
def monUntilOnly (fuel : Nat) (s : State) (r : Nat) (p : State → Bool) : Option (State × Nat) :=
  match fuel with
  | 0 => none
  | fuel + 1 =>
    if p s then some (s, 0)
    else match step s 3 with
      | some (s', .tau) => (monUntilOnly fuel s' r p).map fun (s'', k) => (s'', k + 1)
      | none =>
        let (s1, k1) := closureT 4 s r
        if k1 == 0 then none else (monUntilOnly fuel s1 r p).map fun (s3, k) => (s3, k + k1)
      | _ => none

def tid (w : String) : Option Nat :=
  if w == "child" then some 0 else if w == "r0" then some 1 else if w == "r1" then some 2
  else if w == "mon" then some 3 else if w == "main" then some 4 else none

def feed (m : Sim) (ws : List String) : Except String Sim :=
  match ws with
  | ["userstop"] => .ok m
  | ["join", "called"] =>
    match callJoin m.s with
    | some s' => .ok { m with s := s' }
    | none => .error "model: join cannot be called here"
  | ["join", res] =>
    let (s', k) := closureT 16 m.s 4
    let ok := match res, s'.upc with
      | "returned", .returned => true
      | "timeout", .raisedTimeout => true
      | "fail", .raisedFail => true
      | _, _ => false
    if ok then .ok { m with s := s', steps := m.steps + k, joined := true }
    else .error s!"join() result differs: implementation `{res}`, model {repr s'.upc} (returncode {repr s'.rc}, exited {repr s'.exited})"
  | ["step", "wr", "pstop"] =>
    match monUntil 12 m.s (fun s => s.mpc == .setStopped || s.mpc == .done) with
    | none => .error "model: the writer cannot see its queue closed before the monitor has dealt with the readers"
    | some (s1, k) => match writerStop s1 with
      | some s2 => .ok { m with s := s2, steps := m.steps + k }
      | none => .error "model: writerStop not enabled"
  | ["step", "main", "pstop"] => .ok { m with s := userStop m.s }
  | ["step", "mon", "wait", "timeout"] =>
    match monUntil 12 m.s (fun s => s.mpc == .wait || s.mpc == .postWait) with
    | none => .error "model: the monitor is not at a wait()"
    | some (s1, k) =>
      match waitTimeout s1 with
      | some s2 => .ok { m with s := s2, steps := m.steps + k + 1 }
      | none => .error "model: wait() cannot time out here (the child has exited)"
  | ["step", "mon", "kill", what] =>
    match monUntil 12 m.s (fun s => s.mpc == .idle) with
    | none => .error "model: the monitor is not at its idle test"
    | some (s1, k) =>
      let late := (doKill s1).2
      if (what == "late") != late then .error s!"kill outcome differs: implementation {what}, model late={late}"
      else match idleKill s1 with
        | some s2 => .ok { m with s := s2, steps := m.steps + k + 1 }
        | none => .error "model: idleKill not enabled"
  | ["step", "mon", "close", k] =>
    match k.toNat? with
    | none => .error "bad stream"
    | some k =>
      -- (on the way to join1 only the stdout reader may be let to finish: the reader that is about to be abandoned has closed its
      -- queue, perhaps, but its thread has not ended — that is why the monitor's wait for it ran out)
      match monUntilOnly 12 m.s 1 (fun s => if k == 0 then s.mpc == .join0 else s.mpc == .join1) with
      | none => .error s!"model: the monitor is not joining reader {k}"
      | some (s1, n) =>
        match abandon s1 k with
        | some s2 => .ok { m with s := s2, steps := m.steps + n + 1 }
        | none => .error s!"model: reader {k} has finished, the monitor cannot abandon it"
  | "step" :: "main" :: "kill" :: _ =>
    if m.joined then .ok m     -- a second join() (main thread shutdown) kills again: after the modelled call
    else match stepTo 16 m.s 4 (" ".intercalate (ws.drop 2)) with
      | .error e => .error e
      | .ok (s', k) => .ok { m with s := s', steps := m.steps + k }
  | "step" :: "mon" :: lab =>
    match monStepTo 24 m.s (" ".intercalate lab) with
    | .error e => .error e
    | .ok (s', k) => .ok { m with s := s', steps := m.steps + k }
  | "step" :: who :: lab =>
    match tid who with
    | none => .error s!"unknown thread {who}"
    | some t =>
      match stepTo 16 m.s t (" ".intercalate lab) with
      | .error e => .error e
      | .ok (s', k) => .ok { m with s := s', steps := m.steps + k }
  | "end" :: kind :: _ =>
    if kind == "bound" then .ok m
    else
      let (sfin, _) := closureAll m.s
      let movers := [0, 1, 2, 3, 4].filter fun t => (step sfin t).isSome
      if kind == "done" then
        if m.joined then .ok { m with s := sfin } else .error "implementation finished but join() never completed in the trace"
      else if movers.isEmpty then .ok { m with s := sfin }
      else .error s!"implementation is stuck but model threads {movers} can move"
  | [] => .ok m
  | w :: _ => .error s!"unknown line kind {w}"

end MoThreads.Driver.M8
