/-
  Line-protocol replay of M4 (Queue).  Trace acceptance at the granularity of Model/Queue.lean.
    run <id> m4 max=<n> allow=<0|1> silent=<0|1> prefill=<v,v,..>
    call <t> add <v> <till|-> <force 0|1> | push <v> | extend <v,v> | pop <till|-> | pop_one | pop_all | len | close | add_stop
    env fire <x> | env signal <t> | env stall <t> | env close
    step <t> acq M | rel M | park | woke True|False | closed <b> | till <x> <b> | len <n> | append <v> | appendleft <v>
             | popleft <v> | clear [..] | close
    ret <t> <kind> <result>
    end done|stuck|bound <t>..
    final dq=[..] closed=<b>
-/
import MoThreads.Model.Queue
namespace MoThreads.Driver.M4
open MoThreads.Queue

def showList (l : List Nat) : String := "[" ++ ",".intercalate (l.map toString) ++ "]"
def showBool (b : Bool) : String := if b then "True" else "False"

def Label.show : Label → String
  | .acq => "acq M"
  | .rel => "rel M"
  | .park => "park"
  | .woke r => "woke " ++ showBool r
  | .closedR b => "closed " ++ showBool b
  | .tillR x b => s!"till {x} " ++ showBool b
  | .lenR n => s!"len {n}"
  | .append v => s!"append {v}"
  | .appendleft v => s!"appendleft {v}"
  | .popleft v => s!"popleft {v}"
  | .clear l => "clear " ++ showList l
  | .close => "close"

def Res.show : Res → String
  | .none => "?"
  | .ok => "ok"
  | .timeout => "timeout"
  | .closedErr => "closederr"
  | .val v => toString v
  | .stop => "STOP"
  | .nothing => "None"
  | .vals l => showList l
  | .num n => toString n

structure Sim where
  s : State
  threads : List Nat := []
  steps : Nat := 0

def insertSorted (t : Nat) : List Nat → List Nat
  | [] => [t]
  | x :: xs => if t < x then t :: x :: xs else if t = x then x :: xs else x :: insertSorted t xs

def parseTill (w : String) : Option (Option Nat) :=
  if w == "-" then some none else w.toNat?.map some

def parseList (w : String) : Option (List Nat) :=
  if w == "" then some [] else (w.splitOn ",").mapM String.toNat?

def isIdle (p : PC) : Bool := match p with | .idle _ => true | _ => false

def start (max : Nat) (allow : Bool) (silent : Bool) (dq0 : List Nat) : Sim := { s := init max allow silent dq0 }

def feed (m : Sim) (ws : List String) : Except String Sim :=
  match ws with
  | "call" :: t :: rest =>
    match t.toNat? with
    | none => .error "bad thread"
    | some t =>
      let op? : Option Op := match rest with
        | ["add", v, tl, f] => match v.toNat?, parseTill tl with
          | some v, some tl => some (.add v tl (f == "1"))
          | _, _ => none
        | ["push", v] => v.toNat?.map Op.push
        | ["extend", vs] => (parseList vs).map Op.extend
        | ["extend"] => some (.extend [])
        | ["pop", tl] => (parseTill tl).map Op.pop
        | ["pop_one"] => some .popOne
        | ["pop_all"] => some .popAll
        | ["len"] => some .len
        | ["close"] => some .close
        | ["add_stop"] => some .addStop
        | _ => none
      match op? with
      | none => .error s!"bad op {rest}"
      | some op =>
        match call m.s t op with
        | none => .error s!"model: thread {t} is not idle at call {rest}"
        | some s' => .ok { m with s := s', threads := insertSorted t m.threads }
  | ["env", "fire", x] => match x.toNat? with
    | some x => .ok { m with s := fireTill m.s x }
    | none => .error "bad till"
  | ["env", "signal", t] => match t.toNat? with
    | some t => .ok { m with s := signal m.s t }
    | none => .error "bad thread"
  | ["env", "stall", t] => match t.toNat? with
    | some t => .ok { m with s := stall m.s t }
    | none => .error "bad thread"
  | ["env", "close"] => .ok { m with s := envClose m.s }
  | "step" :: t :: lab =>
    match t.toNat? with
    | none => .error "bad thread"
    | some t =>
      match step m.s t with
      | none => .error s!"model: thread {t} cannot move but the implementation did: {" ".intercalate lab}"
      | some (s', l) =>
        let ls := Label.show l
        if ls == " ".intercalate lab then .ok { m with s := s', steps := m.steps + 1 }
        else .error s!"labels differ for thread {t}: model=`{ls}` impl=`{" ".intercalate lab}`"
  | ["ret", t, _kind, v] =>
    match t.toNat? with
    | none => .error "bad thread"
    | some t =>
      match m.s.pc t with
      | .idle r => if Res.show r == v then .ok m else .error s!"result differs for thread {t}: model={Res.show r} impl={v}"
      | _ => .error s!"model: thread {t} has not returned but the implementation has ({v})"
  | "end" :: kind :: rest =>
    match rest.mapM String.toNat? with
    | none => .error "bad end line"
    | some ts =>
      let busy := m.threads.filter fun t => !isIdle (m.s.pc t)
      let en := m.threads.filter fun t => (step m.s t).isSome
      if kind == "bound" then .ok m
      else if busy != ts then .error s!"unfinished threads differ: model={busy} impl={ts}"
      else if en != [] then .error s!"implementation ended ({kind}) but the model can still move: {en}"
      else .ok m
  | ["final", dq, cl] =>
    let mine := ["dq=" ++ showList m.s.dq, "closed=" ++ showBool m.s.closed]
    if mine == [dq, cl] then .ok m else .error s!"final state differs: model={mine} impl={[dq, cl]}"
  | [] => .ok m
  | w :: _ => .error s!"unknown line kind {w}"

end MoThreads.Driver.M4
