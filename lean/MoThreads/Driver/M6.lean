/-
  Line-protocol replay of M6 (Till).  The harness runs the REAL till.daemon and Till() under the
  deterministic scheduler on a virtual clock (ticks of 1/1024 s, INTERVAL patched to 128 ticks) and
  records the events visible at lock granularity and the unlocked read and write of next_ping in the scan
  (a pre-emption point lies between the two); thread-local steps of the model (`tau`, the rebinding of
  `enabled`) are taken eagerly after each visible step of the same thread, exactly as the implementation
  runs on to its next yield point.
    run <id> m6 I=<ticks>
    call <t> till <secs> | call <t> tillabs <secs>      (Till(seconds=secs) / Till(till=now+secs))
    env stop | env tick <d>
    step <t> enable | loopTest <b> | clock <n> | acq | rel <np> <nt> | sleep <w> | wake | fire <id> | cEnabled <b> | rPing <v> | wPing <v>
    end done|stuck <t>..
    final fired=<id,id,..> np=<n> now=<n>
-/
import MoThreads.Model.Till
namespace MoThreads.Driver.M6
open MoThreads.Till

def showBool (b : Bool) : String := if b then "True" else "False"

def labelShow : Label → String
  | .enable => "enable"
  | .loopTest b => "loopTest " ++ showBool b
  | .clock n => s!"clock {n}"
  | .acq => "acq"
  | .rel np nt => s!"rel {np} {nt}"
  | .tau => "tau"
  | .sleep w => s!"sleep {w}"
  | .wake => "wake"
  | .rPing v => s!"rPing {v}"
  | .wPing v => s!"wPing {v}"
  | .fire id => s!"fire {id}"
  | .disable => "disable"
  | .cEnabled b => "cEnabled " ++ showBool b

def labelSilent : Label → Bool
  | .tau | .disable => true
  | _ => false

structure Sim where
  s : State
  threads : List Nat := [0]
  steps : Nat := 0

def insertSorted (t : Nat) : List Nat → List Nat
  | [] => [t]
  | x :: xs => if t < x then t :: x :: xs else if t = x then x :: xs else x :: insertSorted t xs

/-- run thread-local steps of `t` until its next visible operation -/
def closure (fuel : Nat) (s : State) (t : Nat) : State × Nat :=
  match fuel with
  | 0 => (s, 0)
  | fuel + 1 =>
    match step s t with
    | some (s', l) => if labelSilent l then let (s'', k) := closure fuel s' t; (s'', k + 1) else (s, 0)
    | none => (s, 0)

def start (I : Int) : Sim := { s := init I }

def isDone (s : State) (t : Nat) : Bool :=
  if t = 0 then s.dpc == .done else s.cpc t == .idle

def parseInt (w : String) : Option Int :=
  if w.startsWith "-" then (w.drop 1).toString.toNat?.map fun n => -(n : Int) else w.toNat?.map fun n => (n : Int)

def feed (m : Sim) (ws : List String) : Except String Sim :=
  match ws with
  | ["call", t, "till", secs] =>
    match t.toNat?, parseInt secs with
    | some t, some secs =>
      match callTill m.s t secs with
      | none => .error s!"model: thread {t} is not idle at call"
      | some s' => .ok { m with s := s', threads := insertSorted t m.threads }
    | _, _ => .error "bad call"
  | ["call", t, "tillabs", secs] =>
    match t.toNat?, parseInt secs with
    | some t, some secs =>
      match callTillAbs m.s t secs with
      | none => .error s!"model: thread {t} is not idle at call"
      | some s' => .ok { m with s := s', threads := insertSorted t m.threads }
    | _, _ => .error "bad call"
  | ["env", "stop"] => .ok { m with s := requestStop m.s }
  | ["env", "tick", d] =>
    match parseInt d with
    | none => .error "bad tick"
    | some d =>
      -- tickOk is checked executably: daemon asleep, not past its wake-up, every known creator idle
      let okSleep := match m.s.dpc with
        | .asleep w => decide (0 < d ∧ m.s.now + d ≤ w)
        | .done => decide (0 < d)
        | _ => false
      let okIdle := m.threads.all fun t => t == 0 || m.s.cpc t == .idle
      if okSleep && okIdle then .ok { m with s := tick m.s d }
      else .error s!"model: time may not advance by {d} here (daemon not asleep that long, or a creator is busy)"
  | "step" :: t :: lab =>
    match t.toNat? with
    | none => .error "bad thread"
    | some t =>
      match step m.s t with
      | none => .error s!"model: thread {t} cannot move but the implementation did: {" ".intercalate lab}"
      | some (s', l) =>
        let ls := labelShow l
        if ls == " ".intercalate lab then
          let (s'', k) := closure 64 s' t
          .ok { m with s := s'', steps := m.steps + 1 + k }
        else .error s!"labels differ for thread {t}: model=`{ls}` impl=`{" ".intercalate lab}`"
  | "end" :: kind :: rest =>
    match rest.mapM String.toNat? with
    | none => .error "bad end line"
    | some ts =>
      let busy := m.threads.filter fun t => t != 0 && !isDone m.s t
      let en := m.threads.filter fun t => t != 0 && (step m.s t).isSome
      if kind == "bound" then .ok m
      else if busy != ts then .error s!"unfinished creators differ: model={busy} impl={ts}"
      else if en != [] then .error s!"implementation ended ({kind}) but the model can still move: {en}"
      else .ok m
  | ["final", fired, np, now] =>
    let ids := (List.range m.s.nextId).filter fun i => m.s.fired i
    let mine := ["fired=" ++ ",".intercalate (ids.map toString), s!"np={m.s.nextPing}", s!"now={m.s.now}"]
    if mine == [fired, np, now] then .ok m else .error s!"final state differs: model={mine} impl={[fired, np, now]}"
  | [] => .ok m
  | w :: _ => .error s!"unknown line kind {w}"

end MoThreads.Driver.M6
