/-
  M10 — PyProxy: `mo_threads.python.Python._execute` and `_watch_stdout` (python.py:65-111, as REPAIRED for C19)
  with a FIFO worker that answers every request line with exactly one reply line (possibly preceded by
  log lines).  Any number of calling threads; granularity: every access to the shared attributes
  `done`, `response`, `error`, the proxy lock, queue hand-offs to and from the worker.
  Values are naturals (codes of JSON values, falsy ones included); `none` = Python None.
-/
import MoThreads.Model.Sched
namespace MoThreads.PyProxy

inductive Reply
  | out (v : Option Nat)      -- {"out": v}
  | err                       -- {"err": …}
  | log                       -- {"log": …}
  deriving DecidableEq, Repr

/-- a request as seen by the worker: who sent it (ghost) and what the worker will answer -/
structure Req where
  owner : Nat
  ans : Reply
  withLog : Bool
  deriving DecidableEq, Repr

inductive DoneRef | DONE | sig (k : Nat)
  deriving DecidableEq, Repr

inductive Ret | none | value (v : Option Nat) | raised
  deriving DecidableEq, Repr

inductive CPC
  | idle (r : Ret)
  | c0 (q : Req)                 -- with self.lock  (acquire)
  | c1 (q : Req)                 -- self.done = done = Signal()
  | c2 (q : Req) (k : Nat)       -- self.response = None
  | c3 (q : Req) (k : Nat)       -- self.error = None
  | c4 (q : Req) (k : Nat)       -- self.process.stdin.add(…)
  | c5 (k : Nat)                 -- done.wait()
  | c6                           -- if self.error
  | c6b                          -- Except(**self.error)   (the error is read a second time)
  | c7                           -- return self.response
  | c8 (r : Ret)                 -- finally: self.done = DONE
  | c9 (r : Ret)                 -- self.response = None
  | c10 (r : Ret)                -- self.error = None
  | c11 (r : Ret)                -- release
  deriving DecidableEq, Repr

inductive RPC     -- the stdout reader thread
  | r0                           -- line = self.process.stdout.pop()
  | r1 (v : Option Nat)          -- self.response = data.out
  | e1                           -- self.error = data.err
  | r2                           -- self.done.go()
  deriving DecidableEq, Repr

inductive WPC     -- the worker process
  | w0                           -- read a request line
  | w1 (q : Req)                 -- answer it
  deriving DecidableEq, Repr

inductive Label
  | acq | rel
  | wDone (d : DoneRef) | rDone (d : DoneRef)
  | wResp (v : Option Nat) | rResp (v : Option Nat) | wErr (e : Bool) | rErr (e : Bool)
  | send | request (owner : Nat) | reply (r : Reply)
  | tau
  deriving DecidableEq, Repr

structure State where
  lock : Option Nat
  done : DoneRef
  fired : Nat → Bool
  response : Option Nat
  error : Bool
  nextSig : Nat
  inQ : List Req                 -- worker's stdin
  outQ : List Reply              -- worker's stdout
  cpc : Nat → CPC
  rpc : RPC
  wpc : WPC
  want : Nat → Reply             -- ghost: what the worker answers to thread t's current request

def init : State :=
  { lock := none, done := .DONE, fired := fun _ => false, response := none, error := false, nextSig := 0,
    inQ := [], outQ := [], cpc := fun _ => .idle .none, rpc := .r0, wpc := .w0, want := fun _ => .err }

def State.setC (s : State) (t : Nat) (p : CPC) : State := { s with cpc := fun u => if u = t then p else s.cpc u }

/-- a thread calls through the proxy; the worker will answer this request with `ans` -/
def call (s : State) (t : Nat) (ans : Reply) (withLog : Bool) : Option State :=
  if t < 2 then none else        -- thread ids 0 and 1 are the reader and the worker
  if ans = .log then none else   -- a request is answered by out/err; log lines are extra
  match s.cpc t with
  | .idle _ => some ({ s with want := fun u => if u = t then ans else s.want u }.setC t (.c0 { owner := t, ans, withLog }))
  | _ => none

def stepC (s : State) (t : Nat) : Option (State × Label) :=
  match s.cpc t with
  | .idle _ => none
  | .c0 q => if s.lock = none then some ({ s with lock := some t }.setC t (.c1 q), .acq) else none
  | .c1 q => some ({ s with done := .sig s.nextSig, nextSig := s.nextSig + 1 }.setC t (.c2 q s.nextSig), .wDone (.sig s.nextSig))
  | .c2 q k => some ({ s with response := none }.setC t (.c3 q k), .wResp none)
  | .c3 q k => some ({ s with error := false }.setC t (.c4 q k), .wErr false)
  | .c4 q k => some ({ s with inQ := s.inQ ++ [q] }.setC t (.c5 k), .send)
  | .c5 k => if s.fired k then some (s.setC t .c6, .tau) else none
  | .c6 => some (s.setC t (if s.error then .c6b else .c7), .rErr s.error)
  | .c6b => some (s.setC t (.c8 .raised), .rErr s.error)
  | .c7 => some (s.setC t (.c8 (.value s.response)), .rResp s.response)
  | .c8 r => some ({ s with done := .DONE }.setC t (.c9 r), .wDone .DONE)
  | .c9 r => some ({ s with response := none }.setC t (.c10 r), .wResp none)
  | .c10 r => some ({ s with error := false }.setC t (.c11 r), .wErr false)
  | .c11 r => some ({ s with lock := none }.setC t (.idle r), .rel)

def stepR (s : State) : Option (State × Label) :=
  match s.rpc with
  | .r0 =>
    match s.outQ with
    | [] => none
    | .log :: rest => some ({ s with outQ := rest }, .tau)
    | .out v :: rest => some ({ s with outQ := rest, rpc := .r1 v }, .tau)
    | .err :: rest => some ({ s with outQ := rest, rpc := .e1 }, .tau)
  | .r1 v => some ({ s with response := v, rpc := .r2 }, .wResp v)
  | .e1 => some ({ s with error := true, rpc := .r2 }, .wErr true)
  | .r2 =>
    match s.done with
    | .DONE => some ({ s with rpc := .r0 }, .rDone .DONE)
    | .sig k => some ({ s with fired := fun j => if j = k then true else s.fired j, rpc := .r0 }, .rDone (.sig k))

def stepW (s : State) : Option (State × Label) :=
  match s.wpc with
  | .w0 =>
    match s.inQ with
    | [] => none
    | q :: rest => some ({ s with inQ := rest, wpc := .w1 q }, .request q.owner)
  | .w1 q => some ({ s with outQ := s.outQ ++ (if q.withLog then [.log, q.ans] else [q.ans]), wpc := .w0 }, .reply q.ans)

/-- thread 0 = reader, thread 1 = worker, threads ≥ 2 = callers -/
def step (s : State) (t : Nat) : Option (State × Label) :=
  if t = 0 then stepR s else if t = 1 then stepW s else stepC s t

def sys : Sys State Label where
  init s := s = init
  env s s' := ∃ t ans wl, call s t ans wl = some s'
  step := step

end MoThreads.PyProxy
