/-
  M2 — Composite: `Signal.__or__`, `Signal.__and__` (as REPAIRED for C04), `or_signal`, `OrSignal`, `AndSignals`,
  `wait(till=…)`, on a heap of signals with reference counting.

  Granularity: one step = one atomic Signal operation (`then`, `go`'s flag-and-detach, `remove_then`, one callback).
  That `then`/`go`/`remove_then` are atomic with respect to each other is what C01/C02 prove about M1.
  A thread executes a list of pending actions (`todo`): nested calls (a callback that triggers another signal) push
  their actions in front.  Objects die by reference counting: `collect z` is enabled when nothing refers to `z`
  strongly (the program, a pending action, the operand list of a composite object that is itself referenced);
  collecting the weakly referenced target of an OrSignal runs its cleanup (the weakref callback).
  Jobs and hooks carry the operand index (0 / 1) as a ghost so that every hook is a distinct token.
-/
import MoThreads.Model.Sched
namespace MoThreads.Composite

/-- number of program threads -/
def NT : Nat := 6

inductive Job
  | orHook (o i : Nat)           -- OrSignal.__call__ registered on operand i
  | orCleanup (o : Nat)          -- OrSignal.cleanup registered on the composite
  | andDone (n i : Nat)          -- AndSignals.done registered on operand i
  | andCleanup (n : Nat)         -- AndSignals.cleanup registered on the composite
  | user (k : Nat)               -- a callback of the program
  deriving DecidableEq, Repr

inductive Built | leaf | orOut (o : Nat) | andOut (n : Nat)
  deriving DecidableEq, Repr

structure Sig where
  go : Bool
  jobs : List Job
  alive : Bool
  held : Bool                    -- the program holds a reference
  never : Bool                   -- class Never: go() does nothing
  built : Built                  -- ghost: how it was made
  direct : Bool                  -- ghost: go() was called on it by the program (not by a hook)
  deriving Repr

structure OrObj where
  deps : List Nat                -- OrSignal.dependencies (emptied by cleanup)
  target : Nat                   -- OrSignal.signal, a weak reference
  deps0 : List Nat               -- ghost: the operands
  deriving Repr

structure AndObj where
  target : Nat                   -- AndSignals.signal
  remaining : Nat
  deps : List Nat                -- AndSignals.dependencies (dropped by cleanup)
  deps0 : List Nat
  deriving Repr

inductive Act
  | orTest1 (x y : Nat) (w : Bool)     -- `if self or other`: read self
  | orTest2 (x y : Nat) (w : Bool)     --                     read other
  | orNew (x y : Nat) (w : Bool)       -- output = Signal(); OrSignal(output, (x, y))
  | andNew (x y : Nat)                 -- output = Signal(); gen = AndSignals(output, 2, (x, y))
  | thenJ (d : Nat) (j : Job)          -- d.then(j)
  | run (j : Job)                      -- call j
  | goS (x : Nat) (direct : Bool)      -- x.go()
  | removeJ (d : Nat) (j : Job)        -- d.remove_then(j)
  | ret (c : Nat) (w : Bool)           -- hand the composite to the program / to `.wait()`
  | retDone                            -- the expression is DONE
  | waitS (c : Nat)                    -- c.wait()
  deriving DecidableEq, Repr

structure State where
  sigs : Nat → Sig
  nSig : Nat
  ors : Nat → OrObj
  nOr : Nat
  ands : Nat → AndObj
  nAnd : Nat
  todo : Nat → List Act
  result : Nat → Option Nat      -- what the last expression of thread t returned (0 = DONE)

def deadSig : Sig := { go := false, jobs := [], alive := false, held := false, never := false, built := .leaf, direct := false }
def doneSig : Sig := { go := true, jobs := [], alive := true, held := true, never := false, built := .leaf, direct := false }
def neverSig : Sig := { go := false, jobs := [], alive := true, held := true, never := true, built := .leaf, direct := false }
def freshSig (b : Built) : Sig := { go := false, jobs := [], alive := true, held := false, never := false, built := b, direct := false }

/-- signal 0 is DONE, signal 1 is NEVER -/
def init : State :=
  { sigs := fun i => if i = 0 then doneSig else if i = 1 then neverSig else deadSig, nSig := 2,
    ors := fun _ => { deps := [], target := 0, deps0 := [] }, nOr := 0,
    ands := fun _ => { target := 0, remaining := 0, deps := [], deps0 := [] }, nAnd := 0,
    todo := fun _ => [], result := fun _ => none }

def upd {α : Type} (f : Nat → α) (k : Nat) (v : α) : Nat → α := fun j => if j = k then v else f j

def State.setSig (s : State) (z : Nat) (v : Sig) : State := { s with sigs := upd s.sigs z v }
def State.setTodo (s : State) (t : Nat) (l : List Act) : State := { s with todo := upd s.todo t l }

/-! ### references -/

/-- objects a job refers to strongly (an OrSignal refers to its composite only weakly) -/
def Job.orObj : Job → Option Nat
  | .orHook o _ | .orCleanup o => some o
  | _ => none
def Job.andObj : Job → Option Nat
  | .andDone n _ | .andCleanup n => some n
  | _ => none

/-- signals an action refers to strongly -/
def Act.sigs : Act → List Nat
  | .orTest1 x y _ | .orTest2 x y _ | .orNew x y _ | .andNew x y => [x, y]
  | .thenJ d _ | .removeJ d _ => [d]
  | .goS x _ | .ret x _ | .waitS x => [x]
  | .run _ | .retDone => []
def Act.job : Act → Option Job
  | .thenJ _ j | .run j | .removeJ _ j => some j
  | _ => none

def anyThread (p : Nat → Bool) : Bool := (List.range NT).any p
def anyBelow (n : Nat) (p : Nat → Bool) : Bool := (List.range n).any p

def sigInTodos (s : State) (z : Nat) : Bool := anyThread fun t => (s.todo t).any fun a => a.sigs.contains z
def orInTodos (s : State) (o : Nat) : Bool := anyThread fun t => (s.todo t).any fun a => (a.job.bind Job.orObj) == some o
def andInTodos (s : State) (n : Nat) : Bool := anyThread fun t => (s.todo t).any fun a => (a.job.bind Job.andObj) == some n

/-- an OrSignal object is alive: a live signal's job list or a pending action refers to it, or its composite is alive
(the weak reference it holds to the composite owns the bound method `self.cleanup`: a cycle that only the death of
the composite breaks) -/
def orRef (s : State) (o : Nat) : Bool :=
  orInTodos s o || (s.sigs (s.ors o).target).alive
  || anyBelow s.nSig fun z => (s.sigs z).alive && (s.sigs z).jobs.any fun j => j.orObj == some o
def andRef (s : State) (n : Nat) : Bool :=
  andInTodos s n || anyBelow s.nSig fun z => (s.sigs z).alive && (s.sigs z).jobs.any fun j => j.andObj == some n

/-- reference count of signal z is zero -/
def collectable (s : State) (z : Nat) : Bool :=
  2 ≤ z && z < s.nSig && (s.sigs z).alive && !(s.sigs z).held && !sigInTodos s z
  && !(anyBelow s.nOr fun o => orRef s o && (s.ors o).deps.contains z)
  && !(anyBelow s.nAnd fun n => andRef s n && ((s.ands n).deps.contains z || (s.ands n).target == z))

/-! ### the code -/

def exec (s : State) (t : Nat) (a : Act) (rest : List Act) : Option State :=
  match a with
  | .orTest1 x y w => some (s.setTodo t ((if (s.sigs x).go then [Act.retDone] else [Act.orTest2 x y w]) ++ rest))
  | .orTest2 x y w => some (s.setTodo t ((if (s.sigs y).go then [Act.retDone] else [Act.orNew x y w]) ++ rest))
  | .orNew x y w =>
    let c := s.nSig
    let o := s.nOr
    some ({ s with sigs := upd s.sigs c (freshSig (.orOut o)), nSig := c + 1,
                   ors := upd s.ors o { deps := [x, y], target := c, deps0 := [x, y] }, nOr := o + 1 }.setTodo t
          (Act.thenJ x (.orHook o 0) :: Act.thenJ y (.orHook o 1) :: Act.thenJ c (.orCleanup o) :: Act.ret c w :: rest))
  | .andNew x y =>
    let c := s.nSig
    let n := s.nAnd
    some ({ s with sigs := upd s.sigs c (freshSig (.andOut n)), nSig := c + 1,
                   ands := upd s.ands n { target := c, remaining := 2, deps := [x, y], deps0 := [x, y] }, nAnd := n + 1 }.setTodo t
          (Act.thenJ x (.andDone n 0) :: Act.thenJ y (.andDone n 1) :: Act.thenJ c (.andCleanup n) :: Act.ret c false :: rest))
  | .thenJ d j =>
    if (s.sigs d).go then some (s.setTodo t (.run j :: rest))
    else some ((s.setSig d { s.sigs d with jobs := (s.sigs d).jobs ++ [j] }).setTodo t rest)
  | .run j =>
    match j with
    | .orHook o _ =>
      let c := (s.ors o).target
      some (s.setTodo t ((if (s.sigs c).alive then [Act.goS c false] else []) ++ rest))
    | .orCleanup o =>
      let ds := (s.ors o).deps
      some ({ s with ors := upd s.ors o { s.ors o with deps := [] } }.setTodo t
            ((ds.zipIdx.map fun (d, i) => Act.removeJ d (.orHook o i)) ++ rest))
    | .andDone n _ =>
      let r := (s.ands n).remaining - 1
      some ({ s with ands := upd s.ands n { s.ands n with remaining := r } }.setTodo t
            ((if r = 0 then [Act.goS (s.ands n).target false] else []) ++ rest))
    | .andCleanup n => some ({ s with ands := upd s.ands n { s.ands n with deps := [] } }.setTodo t rest)
    | .user _ => some (s.setTodo t rest)
  | .goS x direct =>
    if (s.sigs x).go || (s.sigs x).never then some (s.setTodo t rest)
    else some ((s.setSig x { s.sigs x with go := true, jobs := [], direct := direct }).setTodo t
               ((s.sigs x).jobs.map Act.run ++ rest))
  | .removeJ d j =>
    if (s.sigs d).go then some (s.setTodo t rest)
    else some ((s.setSig d { s.sigs d with jobs := (s.sigs d).jobs.erase j }).setTodo t rest)
  | .ret c w =>
    if w then some ({ s with result := upd s.result t (some c) }.setTodo t (.waitS c :: rest))
    else some ({ (s.setSig c { s.sigs c with held := true }) with result := upd s.result t (some c) }.setTodo t rest)
  | .retDone => some ({ s with result := upd s.result t (some 0) }.setTodo t rest)
  | .waitS c => if (s.sigs c).go then some (s.setTodo t rest) else none

inductive Label | act (a : Act)
  deriving DecidableEq, Repr

def step (s : State) (t : Nat) : Option (State × Label) :=
  if t < NT then
    match s.todo t with
    | [] => none
    | a :: rest => (exec s t a rest).map fun s' => (s', .act a)
  else none

/-! ### the program and the collector (environment) -/

inductive Op
  | mkOr (x y : Nat) | mkAnd (x y : Nat) | waitOr (x y : Nat) | go (x : Nat) | thenUser (z k : Nat) | wait (x : Nat)
  deriving DecidableEq, Repr

def usable (s : State) (z : Nat) : Bool := z < s.nSig && (s.sigs z).alive && (s.sigs z).held

/-- a program thread starts an operation on signals it holds -/
def call (s : State) (t : Nat) (op : Op) : Option State :=
  if t < NT ∧ s.todo t = [] then
    match op with
    | .mkOr x y => if usable s x && usable s y then some (s.setTodo t [.orTest1 x y false]) else none
    | .waitOr x y => if usable s x && usable s y then some (s.setTodo t [.orTest1 x y true]) else none
    | .mkAnd x y => if usable s x && usable s y then some (s.setTodo t [.andNew x y]) else none
    | .go x => if usable s x then some (s.setTodo t [.goS x true]) else none
    | .thenUser z k => if usable s z then some (s.setTodo t [.thenJ z (.user k)]) else none
    | .wait x => if usable s x then some (s.setTodo t [.waitS x]) else none
  else none

/-- a new plain signal (or Till) held by the program -/
def newLeaf (s : State) : State :=
  { s with sigs := upd s.sigs s.nSig { freshSig .leaf with held := true }, nSig := s.nSig + 1 }

/-- the timer daemon fires a Till it only references weakly: any live leaf, held or not -/
def fire (s : State) (t z : Nat) : Option State :=
  if t < NT ∧ s.todo t = [] ∧ z < s.nSig ∧ (s.sigs z).alive = true ∧ (s.sigs z).built = .leaf then some (s.setTodo t [.goS z true]) else none

/-- the program drops its reference -/
def release (s : State) (z : Nat) : Option State :=
  if 2 ≤ z ∧ z < s.nSig ∧ (s.sigs z).held = true then some (s.setSig z { s.sigs z with held := false }) else none

/-- reference count zero: the object is freed by thread t; the weakref callback of an OrSignal that is still alive runs -/
def collect (s : State) (t z : Nat) : Option State :=
  if t < NT ∧ collectable s z = true then
    let s1 := s.setSig z { s.sigs z with alive := false, jobs := [] }
    match (s.sigs z).built with
    -- the composite's weak reference is cleared: its callback, OrSignal.cleanup, runs in the thread that dropped the last reference
    | .orOut o => some (s1.setTodo t (.run (.orCleanup o) :: s1.todo t))
    | _ => some s1
  else none

def sys : Sys State Label where
  init s := s = init
  env s s' := (∃ t op, call s t op = some s') ∨ s' = newLeaf s ∨ (∃ t z, fire s t z = some s') ∨ (∃ z, release s z = some s')
              ∨ (∃ t z, collect s t z = some s')
  step := step

end MoThreads.Composite
