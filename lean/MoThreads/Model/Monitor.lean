/-
  M3 — Monitor: `mo_threads.lock.Lock` (lock.py:38-91), any number of threads, generic user state σ.

  Granularity: every access to `Lock.lock` (acquire/release) and `Lock.waiting`, every `waiter.go()`
  (at its linearisation point, the flag write of the waiter Signal — justified by M1), parking and
  re-acquisition.  Thread programs are NOT fixed: the environment issues the API calls
  (`enter`, `exit`, `wait`, `set`) subject only to the monitor discipline
    * `exit`/`wait`/`set` only while inside the `with` block,
    * `wait c` only when the declared condition `c` is currently false (the caller just tested it),
  so the theorems hold for every monitor program, not just the library's.
  `till` signals are fired by the environment at any time.  No imports.
-/
import MoThreads.Model.Sched
namespace MoThreads.Monitor

/-- a declared wait condition `σ i ≥ v` (none = bare wait) -/
abbrev Cond := Option (Nat × Nat)

def Cond.holds (c : Cond) (σ : Nat → Nat) : Bool :=
  match c with
  | none => false
  | some (i, v) => decide (v ≤ σ i)

inductive Ret
  | none | entered | exited | waited (signalled : Bool) | didSet
  deriving DecidableEq, Repr

inductive PC
  | idle (r : Ret)                                  -- outside any `with lock:`
  | inside (r : Ret)                                -- holding the lock, between calls
  | e0                                              -- :40  self.lock.acquire()
  -- __exit__
  | x0                                              -- :45  R waiting (truth test)
  | x1                                              -- :48  R waiting ; pop()
  | x2 (w : Nat)                                    -- :49  waiter.go()
  | x3                                              -- :50  self.lock.release()
  -- wait(till)       own waiter `w`, declared condition `c`, till id `tl`
  | a0 (w : Nat) (c : Cond) (tl : Option Nat)       -- :61  R waiting (truth test)
  | a1 (w : Nat) (c : Cond) (tl : Option Nat)       -- :64  R waiting ; pop()
  | a2 (w : Nat) (c : Cond) (tl : Option Nat) (o : Nat) -- :65 other.go()
  | a3 (w : Nat) (c : Cond) (tl : Option Nat)       -- :67  R waiting ; insert(0, waiter)
  | a4 (w : Nat) (c : Cond) (tl : Option Nat)       -- :70  W waiting := [waiter]
  | a5 (w : Nat) (c : Cond) (tl : Option Nat)       -- :74  self.lock.release()
  | parked (w : Nat) (c : Cond) (tl : Option Nat)   -- :77  both.wait() … :82 self.lock.acquire()
  | a6 (w : Nat) (c : Cond) (tl : Option Nat)       -- :86  R waiting ; remove(waiter)
  deriving DecidableEq, Repr

inductive Label
  | acq | rel
  | rWaiting (l : List Nat)       -- value read (front of the Python list first)
  | wWaiting (l : List Nat)
  | fire (w : Nat)
  deriving DecidableEq, Repr

inductive Op
  | enter | exit | wait (c : Cond) (tl : Option Nat) | set (i v : Nat)
  deriving DecidableEq, Repr

structure State where
  mutex : Option Nat               -- Lock.lock owner
  waiting : List Nat               -- Lock.waiting (None ≙ []), Python order: index 0 first, pop() takes the LAST
  fired : Nat → Bool               -- waiter signal w has been triggered
  tillFired : Nat → Bool           -- till signal x has been triggered (environment)
  σ : Nat → Nat                    -- user state guarded by the lock
  nextW : Nat
  pc : Nat → PC
  -- ghosts
  hot : List Nat                   -- fired waiters whose owner has not re-acquired yet
  owner : Nat → Nat                -- waiter -> thread that created it
  hand : Option Nat                -- waiter popped by the current holder and not yet fired

def State.setPc (s : State) (t : Nat) (p : PC) : State :=
  { s with pc := fun u => if u = t then p else s.pc u }

def init : State :=
  { mutex := none, waiting := [], fired := fun _ => false, tillFired := fun _ => false, σ := fun _ => 0,
    nextW := 0, pc := fun _ => .idle .none, hot := [], owner := fun _ => 0, hand := none }

def tillOn (s : State) (tl : Option Nat) : Bool :=
  match tl with
  | none => false
  | some x => s.tillFired x

/-- API calls (environment).  `wait` allocates the waiter id. -/
def call (s : State) (t : Nat) (op : Op) : Option State :=
  match s.pc t, op with
  | .idle _, .enter => some (s.setPc t .e0)
  | .inside _, .exit => some (s.setPc t .x0)
  | .inside _, .set i v => some ({ s with σ := fun j => if j = i then v else s.σ j }.setPc t (.inside .didSet))
  | .inside _, .wait c tl =>
    if c.holds s.σ then none     -- discipline: wait only when the declared condition is false
    else some ({ s with nextW := s.nextW + 1, owner := fun w => if w = s.nextW then t else s.owner w }.setPc t (.a0 s.nextW c tl))
  | _, _ => none

/-- the environment fires a till signal -/
def fireTill (s : State) (x : Nat) : State := { s with tillFired := fun y => if y = x then true else s.tillFired y }

def step (s : State) (t : Nat) : Option (State × Label) :=
  match s.pc t with
  | .idle _ => none
  | .inside _ => none
  | .e0 => if s.mutex = none then some ({ s with mutex := some t }.setPc t (.inside .entered), .acq) else none
  | .x0 => some (s.setPc t (if s.waiting = [] then .x3 else .x1), .rWaiting s.waiting)
  | .x1 =>
    match s.waiting.getLast? with
    | none => none          -- unreachable: x1 only when non-empty
    | some w => some ({ s with waiting := s.waiting.dropLast, hand := some w }.setPc t (.x2 w), .rWaiting s.waiting)
  | .x2 w => some ({ s with fired := fun y => if y = w then true else s.fired y,
                            hot := if s.fired w then s.hot else w :: s.hot, hand := none }.setPc t .x3, .fire w)
  | .x3 => some ({ s with mutex := none }.setPc t (.idle .exited), .rel)
  | .a0 w c tl => some (s.setPc t (if s.waiting = [] then .a4 w c tl else .a1 w c tl), .rWaiting s.waiting)
  | .a1 w c tl =>
    match s.waiting.getLast? with
    | none => none
    | some o => some ({ s with waiting := s.waiting.dropLast, hand := some o }.setPc t (.a2 w c tl o), .rWaiting s.waiting)
  | .a2 w c tl o => some ({ s with fired := fun y => if y = o then true else s.fired y,
                                   hot := if s.fired o then s.hot else o :: s.hot, hand := none }.setPc t (.a3 w c tl), .fire o)
  | .a3 w c tl => some ({ s with waiting := w :: s.waiting }.setPc t (.a5 w c tl), .rWaiting s.waiting)
  | .a4 w c tl => some ({ s with waiting := [w] }.setPc t (.a5 w c tl), .wWaiting [w])
  | .a5 w c tl => some ({ s with mutex := none }.setPc t (.parked w c tl), .rel)
  | .parked w c tl =>
    if (s.fired w || tillOn s tl) && s.mutex = none then
      some ({ s with mutex := some t, hot := s.hot.erase w }.setPc t (.a6 w c tl), .acq)
    else none
  | .a6 w _ _ => some ({ s with waiting := s.waiting.erase w }.setPc t (.inside (.waited (s.fired w))), .rWaiting s.waiting)

def sys : Sys State Label where
  init s := s = init
  env s s' := (∃ t op, call s t op = some s') ∨ (∃ x, s' = fireTill s x)
  step := step

end MoThreads.Monitor
