/-
  M7 — TQWorker: `mo_threads.queues.ThreadedQueue.worker_bee` (queues.py:466-545, as REPAIRED for C16: the
  stop marker is put back when the flush that handles it fails), `add`, `stop`.

  One worker draining its own FIFO into a slow queue ("sink") in batches.  The sink's `extend()` fails
  according to an arbitrary finite pattern `fails : List Bool` (head = next attempt; exhausted = succeed);
  a failed attempt delivers nothing.  Producers and `stop()` are the environment: they append values /
  the stop marker to the worker's own queue at any time; flush timers fire at any time.
  Granularity: one step per loop test, pop, sink call, timer creation, marker re-queue, please_stop
  trigger; thread-local bookkeeping steps are `tau`.
-/
import MoThreads.Model.Sched
namespace MoThreads.TQWorker

inductive Item
  | val (v : Nat) | marker
  deriving DecidableEq, Repr

inductive WPC
  | init0                         -- :475 next_push = Till(till=now + period)
  | loop                          -- :488 while not please_stop
  | popE                          -- :491 item = self.pop()                (buffer empty: blocks until something arrives)
  | afterPopE (x : Item)          -- :493 if now > last_push + period: next_push = Till(...)   (time-dependent, optional)
  | popT                          -- :496 item = self.pop(till=next_push)  (buffer non-empty)
  | dispatch (x : Option Item)    -- :499-512
  | flushM                        -- :501 push_to_queue()  while handling the stop marker
  | requeue                       -- :505 self.queue.appendleft(PLEASE_STOP)   (repair)
  | setStop                       -- :507 please_stop.go()
  | second                        -- :525 if len(_buffer) >= batch_size or next_push
  | flush2                        -- :527 push_to_queue()
  | newT                          -- :529 next_push = Till(till=now + period)
  | final                         -- :547 if _buffer
  | finalFlush                    -- :549 push_to_queue()   (no error handling)
  | sendMarker                    -- :550 self.slow_queue.add(PLEASE_STOP)
  | done
  | crashed
  deriving DecidableEq, Repr

inductive Label
  | looptest (b : Bool) | popped (x : Option Item) | newtimer (k : Nat)
  | extend (batch : List Nat) (ok : Bool) | requeue | pstop | sinkmarker
  | tau | tauLazy
  | ntest (b : Bool)                          -- :525 the truth test of `next_push` (made only when the buffer is below the batch size)
  deriving DecidableEq, Repr

structure State where
  batch : Nat                     -- batch_size
  q : List Item                   -- the worker's own queue, head first
  buffer : List Nat               -- _buffer
  sink : List (List Nat)          -- batches accepted by the slow queue, oldest first
  markers : Nat                   -- stop markers handed to the slow queue
  fails : List Bool               -- remaining failure pattern of slow_queue.extend
  pstop : Bool                    -- the worker thread's please_stop
  cur : Nat                       -- id of the current next_push timer
  nextT : Nat
  fired : Nat → Bool
  pc : WPC
  -- ghosts
  added : List Nat                -- every value appended to the own queue, in order
  stopReq : Bool                  -- a stop marker has been appended
  extStop : Bool                  -- please_stop was triggered from outside (abort path)

def init (batch : Nat) (fails : List Bool) : State :=
  { batch, q := [], buffer := [], sink := [], markers := 0, fails, pstop := false, cur := 0, nextT := 0,
    fired := fun _ => false, pc := .init0, added := [], stopReq := false, extStop := false }

def vals : List Item → List Nat
  | [] => []
  | .val v :: r => v :: vals r
  | .marker :: r => vals r

def flat (l : List (List Nat)) : List Nat := l.foldr (· ++ ·) []

/-- environment: a producer (or stop()) appends to the worker's own queue -/
def add (s : State) (x : Item) : State :=
  match x with
  | .val v => { s with q := s.q ++ [x], added := s.added ++ [v] }
  | .marker => { s with q := s.q ++ [x], stopReq := true }

def fireTimer (s : State) (k : Nat) : State := { s with fired := fun j => if j = k then true else s.fired j }
def externalStop (s : State) : State := { s with pstop := true, extStop := true }

/-- environment: the time-dependent optional timer renewal after a blocking pop -/
def optTimer (s : State) : Option State :=
  match s.pc with
  | .afterPopE _ => some { s with cur := s.nextT, nextT := s.nextT + 1 }
  | _ => none

/-- outcome of the next slow_queue.extend attempt -/
def nextOk (s : State) : Bool := match s.fails with | [] => true | f :: _ => !f

def step (s : State) : Option (State × Label) :=
  match s.pc with
  | .init0 => some ({ s with cur := s.nextT, nextT := s.nextT + 1, pc := .loop }, .newtimer s.nextT)
  | .loop => some ({ s with pc := if s.pstop then .final else (if s.buffer = [] then .popE else .popT) }, .looptest s.pstop)
  | .popE =>
    match s.q with
    | [] => none
    | x :: r => some ({ s with q := r, pc := .afterPopE x }, .popped (some x))
  | .afterPopE x => some ({ s with pc := .dispatch (some x) }, .tauLazy)
  | .popT =>
    match s.q with
    | x :: r => some ({ s with q := r, pc := .dispatch (some x) }, .popped (some x))
    | [] => if s.fired s.cur then some ({ s with pc := .dispatch none }, .popped none) else none
  | .dispatch x =>
    match x with
    | some .marker => some ({ s with pc := .flushM }, .tau)
    | some (.val v) => some ({ s with buffer := s.buffer ++ [v], pc := .second }, .tau)
    | none => some ({ s with pc := .second }, .tau)
  | .flushM =>
    if nextOk s then some ({ s with sink := s.sink ++ [s.buffer], buffer := [], fails := s.fails.tail, pc := .setStop }, .extend s.buffer true)
    else some ({ s with fails := s.fails.tail, pc := .requeue }, .extend s.buffer false)
  | .requeue => some ({ s with q := .marker :: s.q, pc := .second }, .requeue)
  | .setStop => some ({ s with pstop := true, pc := .final }, if s.pstop then .tau else .pstop)
  | .second =>
    some ({ s with pc := if s.batch ≤ s.buffer.length ∨ s.fired s.cur = true then (if s.buffer = [] then .newT else .flush2) else .loop },
          if s.batch ≤ s.buffer.length then .tau else .ntest (s.fired s.cur))
  | .flush2 =>
    if nextOk s then some ({ s with sink := s.sink ++ [s.buffer], buffer := [], fails := s.fails.tail, pc := .newT }, .extend s.buffer true)
    else some ({ s with fails := s.fails.tail, pc := .loop }, .extend s.buffer false)
  | .newT => some ({ s with cur := s.nextT, nextT := s.nextT + 1, pc := .loop }, .newtimer s.nextT)
  | .final => some ({ s with pc := if s.buffer = [] then .sendMarker else .finalFlush }, .tau)
  | .finalFlush =>
    if nextOk s then some ({ s with sink := s.sink ++ [s.buffer], buffer := [], fails := s.fails.tail, pc := .sendMarker }, .extend s.buffer true)
    else some ({ s with fails := s.fails.tail, pc := .crashed }, .extend s.buffer false)
  | .sendMarker => some ({ s with markers := s.markers + 1, pc := .done }, .sinkmarker)
  | .done => none
  | .crashed => none

/-- single worker: thread id is ignored -/
def sys : Sys State Label where
  init s := ∃ b f, s = init b f
  env s s' := (∃ x, s' = add s x) ∨ (∃ k, s' = fireTimer s k) ∨ s' = externalStop s ∨ optTimer s = some s'
  step s t := if t = 0 then step s else none

end MoThreads.TQWorker
