/-
  M6 — Till: `mo_threads.till` (till.py: Till.__new__ 42-56, Till.__init__ 58-87, daemon 90-153).

  One timer daemon (thread 0), any number of creating threads (ids ≥ 1), an `Int` clock in ticks,
  polling interval `I > 0` (parameter).  Granularity: every locked section of `Till.locker` is split
  into acquire / body / release; the UNLOCKED read-modify-write of `Till.next_ping` (till.py:125) is
  two steps; every `s.go()` of a timer is a step.  "Otherwise idle system": steps cost no time — the
  clock moves only through the environment move `tick`, allowed only while the daemon sleeps, never
  past its wake-up time, and only when no creator is in the middle of a creation.
  `Till(seconds=…)` and `Till(till=…)` (absolute, possibly already past).  Timers are `(deadline, id)`; weak references are not modelled (every Till stays referenced).
  The model is of the REPAIRED `__init__` (re-tests `enabled` under the locker; DESIGN §7 C14).
-/
import MoThreads.Model.Sched
namespace MoThreads.Till

abbrev Timer := Int × Nat      -- (deadline, id)

inductive DPC   -- the daemon
  | start                                   -- :92  enabled.go()
  | d0                                      -- :96  while not please_stop
  | d1                                      -- :97  now = time()
  | d2 (n : Int)                            -- :99  with Till.locker  (acquire)
  | d3 (n : Int)                            -- :100 later = Till.next_ping - now
  | d3r (n : Int) (later : Int)             --      release
  | d4 (n : Int) (later : Int)              -- :102 if later > 0: sleep(min(later, INTERVAL))
  | asleep (wake : Int)                     --      sleeping until the clock reaches `wake`
  | d5 (n : Int)                            -- :111 with Till.locker (acquire)
  | d6 (n : Int)                            -- :112-113 next_ping = now + INTERVAL ; swap new_timers
  | d6r (n : Int) (new : List Timer)        --      release
  | d7 (n : Int) (new : List Timer)         -- :121-133 extend + sort + split into due / not due
  | d8r (work : List Timer)                 -- :128 R Till.next_ping (unlocked)
  | d8w (work : List Timer) (v : Int)       -- :128 W Till.next_ping := min(v, sorted[0])
  | d9 (work : List Timer)                  -- :139-142 fire the due timers one by one
  | f0                                      -- :147 enabled = Signal()   (finally)
  | f1                                      -- :149 with Till.locker (acquire)
  | f2                                      -- :150 swap new_timers
  | f2r (nw : List Timer)                   --      release
  | f3 (work : List Timer)                  -- :151-154 fire everything that is left
  | done
  deriving DecidableEq, Repr

inductive CPC   -- a creating thread
  | idle
  | c0 (secs : Int) (g0 : Bool)             -- :43  if not enabled (g0: the global loaded is the first signal) / :52 seconds <= 0
  | c0a (secs : Int) (g0 : Bool)            -- the same for `Till(till=<absolute time>)`: no `seconds <= 0` shortcut, a deadline in the past is registered
  | c1 (secs : Int)                         -- :66  now = time()
  | c2 (d : Int) (id : Nat)                 -- :80  with Till.locker (acquire)
  | c3 (d : Int) (id : Nat)                 -- :81 load the global `enabled`
  | c3b (d : Int) (id : Nat) (g0 : Bool)    -- :81-85 test it; next_ping = min(..); new_timers.append
  | c4 (id : Nat) (late : Bool)             --      release
  | c5 (id : Nat)                           -- :87  self.go()  (timers were shut down meanwhile)
  deriving DecidableEq, Repr

inductive Label
  | enable | loopTest (stop : Bool) | clock (n : Int) | acq | rel (np : Int) (nt : Nat)
  | tau                                      -- thread-local computation (no shared access)
  | sleep (wake : Int) | wake
  | rPing (v : Int) | wPing (v : Int) | fire (id : Nat) | disable
  | cEnabled (b : Bool)
  deriving DecidableEq, Repr

structure State where
  I : Int                          -- INTERVAL, > 0
  now : Int                        -- the clock
  nextPing : Int                   -- Till.next_ping
  newTimers : List Timer           -- Till.new_timers
  sorted : List Timer              -- the daemon's sorted_timers
  started : Bool                   -- the first `enabled` signal has been triggered (daemon start)
  disabled : Bool                  -- the global `enabled` has been rebound to a fresh, never-triggered signal (shutdown)
  stopReq : Bool                   -- the daemon's please_stop
  locker : Option Nat              -- Till.locker owner
  dpc : DPC
  cpc : Nat → CPC
  fired : Nat → Bool
  nextId : Nat
  -- ghosts
  lastScan : Int                   -- clock reading of the last swap (d6)
  prevScan : Int                   -- the one before
  regAt : Nat → Int                -- clock at registration of timer id
  regd : Nat → Bool                -- timer id was appended to new_timers
  deadline : Nat → Int
  firedAt : Nat → Int              -- clock when id was fired
  early : Bool                     -- some timer was fired by the normal loop before its deadline
  created : Nat → Bool             -- a Till object with this id exists
  maker : Nat → Nat                -- the thread that created it

def init (I : Int) : State :=
  { I, now := 0, nextPing := 0, newTimers := [], sorted := [], started := false, disabled := false, stopReq := false, locker := none,
    dpc := .start, cpc := fun _ => .idle, fired := fun _ => false, nextId := 0, lastScan := 0, prevScan := 0,
    regAt := fun _ => 0, regd := fun _ => false, deadline := fun _ => 0, firedAt := fun _ => 0, early := false,
    created := fun _ => false, maker := fun _ => 0 }

def State.setC (s : State) (t : Nat) (p : CPC) : State :=
  { s with cpc := fun u => if u = t then p else s.cpc u }

/-- insertion into a list sorted by deadline; together with `sortT` (which inserts from the right) this is
a stable sort, as Python's `list.sort(key=...)` is -/
def insertT (x : Timer) : List Timer → List Timer
  | [] => [x]
  | y :: ys => if x.1 ≤ y.1 then x :: y :: ys else y :: insertT x ys

def sortT : List Timer → List Timer
  | [] => []
  | x :: xs => insertT x (sortT xs)

/-- the due prefix (`not (now < t)`) of a sorted list, and the rest -/
def dueOf (n : Int) : List Timer → List Timer
  | [] => []
  | x :: xs => if n < x.1 then [] else x :: dueOf n xs

def restOf (n : Int) : List Timer → List Timer
  | [] => []
  | x :: xs => if n < x.1 then x :: xs else restOf n xs

/-- environment: a creator starts `Till(seconds=secs)` -/
def callTill (s : State) (t : Nat) (secs : Int) : Option State :=
  if t = 0 then none else
  match s.cpc t with
  | .idle => some (s.setC t (.c0 secs (!s.disabled)))
  | _ => none

/-- environment: a creator starts `Till(till=now + secs)` (an absolute deadline, possibly in the past) -/
def callTillAbs (s : State) (t : Nat) (secs : Int) : Option State :=
  if t = 0 then none else
  match s.cpc t with
  | .idle => some (s.setC t (.c0a secs (!s.disabled)))
  | _ => none

/-- environment: somebody asks the daemon to stop -/
def requestStop (s : State) : State := { s with stopReq := true }

/-- environment: time passes — only while the daemon sleeps (not past its wake-up time) or after it has
ended, and only while every creator is idle (an otherwise idle system: steps cost no time) -/
def tick (s : State) (d : Int) : State := { s with now := s.now + d }

def tickOk (s : State) (d : Int) : Prop :=
  0 < d ∧ ((∃ w, s.dpc = .asleep w ∧ s.now + d ≤ w) ∨ s.dpc = .done) ∧ ∀ t, s.cpc t = .idle

def fireId (s : State) (id : Nat) (normal : Bool) : State :=
  if s.fired id then s else
  { s with fired := fun j => if j = id then true else s.fired j,
           firedAt := fun j => if j = id then s.now else s.firedAt j,
           early := s.early || (normal && decide (s.now < s.deadline id)) }

def minI (a b : Int) : Int := if a ≤ b then a else b

/-- the daemon's step (thread 0) -/
def stepD (s : State) : Option (State × Label) :=
  match s.dpc with
  | .start => some ({ s with started := true, dpc := .d0 }, .enable)
  | .d0 => some ({ s with dpc := if s.stopReq then .f0 else .d1 }, .loopTest s.stopReq)
  | .d1 => some ({ s with dpc := .d2 s.now }, .clock s.now)
  | .d2 n => if s.locker = none then some ({ s with locker := some 0, dpc := .d3 n }, .acq) else none
  | .d3 n => some ({ s with dpc := .d3r n (s.nextPing - n) }, .tau)
  | .d3r n later => some ({ s with locker := none, dpc := .d4 n later }, .rel s.nextPing s.newTimers.length)
  | .d4 n later =>
    if 0 < later then some ({ s with dpc := .asleep (s.now + minI later s.I) }, .sleep (s.now + minI later s.I))
    else some ({ s with dpc := .d5 n }, .tau)
  | .asleep w => if w ≤ s.now then some ({ s with dpc := .d0 }, .wake) else none
  | .d5 n => if s.locker = none then some ({ s with locker := some 0, dpc := .d6 n }, .acq) else none
  | .d6 n => some ({ s with nextPing := n + s.I, newTimers := [], prevScan := s.lastScan, lastScan := n, dpc := .d6r n s.newTimers }, .tau)
  | .d6r n new => some ({ s with locker := none, dpc := .d7 n new }, .rel s.nextPing s.newTimers.length)
  | .d7 n new =>
    let merged := sortT (s.sorted ++ new)
    let due := dueOf n merged
    let rest := restOf n merged
    some ({ s with sorted := rest, dpc := if rest = [] then .d9 due else .d8r due }, .tau)
  | .d8r work => some ({ s with dpc := .d8w work s.nextPing }, .rPing s.nextPing)
  | .d8w work v =>
    match s.sorted with
    | [] => none
    | x :: _ => some ({ s with nextPing := minI v x.1, dpc := .d9 work }, .wPing (minI v x.1))
  | .d9 work =>
    match work with
    | [] => some ({ s with dpc := .d0 }, .tau)
    | x :: rest => some ({ (fireId s x.2 true) with dpc := .d9 rest }, if s.fired x.2 then .tau else .fire x.2)
  | .f0 => some ({ s with disabled := true, dpc := .f1 }, .disable)
  | .f1 => if s.locker = none then some ({ s with locker := some 0, dpc := .f2 }, .acq) else none
  | .f2 => some ({ s with newTimers := [], dpc := .f2r s.newTimers }, .tau)
  | .f2r nw => some ({ s with locker := none, dpc := .f3 (nw ++ s.sorted), sorted := [] }, .rel s.nextPing s.newTimers.length)
  | .f3 work =>
    match work with
    | [] => some ({ s with dpc := .done }, .tau)
    | x :: rest => some ({ (fireId s x.2 false) with dpc := .f3 rest }, if s.fired x.2 then .tau else .fire x.2)
  | .done => none

/-- a creator's step (thread t ≥ 1) -/
def stepC (s : State) (t : Nat) : Option (State × Label) :=
  match s.cpc t with
  | .idle => none
  | .c0 secs g0 =>
    let e := g0 && s.started
    some (s.setC t (if !e then .idle else if secs ≤ 0 then .idle else .c1 secs), .cEnabled e)
  | .c0a secs g0 =>
    let e := g0 && s.started
    some (s.setC t (if !e then .idle else .c1 secs), .cEnabled e)
  | .c1 secs =>
    some ({ s with nextId := s.nextId + 1,
                   deadline := fun j => if j = s.nextId then s.now + secs else s.deadline j,
                   created := fun j => if j = s.nextId then true else s.created j,
                   maker := fun j => if j = s.nextId then t else s.maker j }.setC t (.c2 (s.now + secs) s.nextId),
          .clock s.now)
  | .c2 d id => if s.locker = none then some ({ s with locker := some t }.setC t (.c3 d id), .acq) else none
  | .c3 d id => some (s.setC t (.c3b d id (!s.disabled)), .tau)
  | .c3b d id g0 =>
    if g0 && s.started then
      some ({ s with nextPing := minI s.nextPing d, newTimers := s.newTimers ++ [(d, id)],
                     regAt := fun j => if j = id then s.now else s.regAt j,
                     regd := fun j => if j = id then true else s.regd j }.setC t (.c4 id false), .cEnabled true)
    else some (s.setC t (.c4 id true), .cEnabled false)
  | .c4 id late => some ({ s with locker := none }.setC t (if late then .c5 id else .idle), .rel s.nextPing s.newTimers.length)
  | .c5 id => some ((fireId s id false).setC t .idle, if s.fired id then .tau else .fire id)

def step (s : State) (t : Nat) : Option (State × Label) :=
  if t = 0 then stepD s else stepC s t

def sys : Sys State Label where
  init s := ∃ I, 0 < I ∧ s = init I
  env s s' := (∃ t secs, callTill s t secs = some s') ∨ (∃ t secs, callTillAbs s t secs = some s') ∨ s' = requestStop s ∨ (∃ d, tickOk s d ∧ s' = tick s d)
  step := step

end MoThreads.Till
