/-
  Generic labelled transition systems shared by all models.

  A model is: an initial-state predicate, environment moves (`call`: start an API call on an
  idle thread, `env`: fire a timeout, advance the clock, ...) and system moves
  `step : σ → Nat → Option (σ × L)` (thread `t` performs its next visible operation;
  `none` = blocked or nothing to do).  No imports: the driver links against this.
-/
namespace MoThreads

structure Sys (σ L : Type) where
  init : σ → Prop
  env  : σ → σ → Prop                      -- environment moves (calls, timeouts firing, clock)
  step : σ → Nat → Option (σ × L)          -- the code

namespace Sys
variable {σ L : Type} (S : Sys σ L)

/-- States reachable by any interleaving of environment and system moves. -/
inductive Reach : σ → Prop
  | init {s} : S.init s → Reach s
  | env  {s s'} : Reach s → S.env s s' → Reach s'
  | step {s s' t l} : Reach s → S.step s t = some (s', l) → Reach s'

/-- Nobody can move: every thread is idle or blocked. -/
def Quiescent (s : σ) : Prop := ∀ t, S.step s t = none

/-- System-only runs (no environment move): the reflexive-transitive closure of `step`. -/
inductive Run : σ → List (Nat × L) → σ → Prop
  | nil {s} : Run s [] s
  | cons {s s' s'' t l tr} : S.step s t = some (s', l) → Run s' tr s'' → Run s ((t, l) :: tr) s''

theorem Reach.run {s s' : σ} {tr} (h : S.Reach s) (r : S.Run s tr s') : S.Reach s' := by
  induction r with
  | nil => exact h
  | cons hs _ ih => exact ih (Reach.step h hs)

/-- An inductive invariant holds in every reachable state. -/
theorem Reach.invariant {P : σ → Prop}
    (hinit : ∀ s, S.init s → P s)
    (henv : ∀ s s', P s → S.env s s' → P s')
    (hstep : ∀ s s' t l, P s → S.step s t = some (s', l) → P s')
    {s : σ} (h : S.Reach s) : P s := by
  induction h with
  | init h => exact hinit _ h
  | env _ he ih => exact henv _ _ ih he
  | step _ hs ih => exact hstep _ _ _ _ ih hs

/-- Ranking lemma: if every system step strictly decreases a `Nat` rank, every system-only
run from `s` has length at most `rank s` (so it ends, under any scheduler, fair or not). -/
theorem Run.length_le_rank (rank : σ → Nat)
    (hdec : ∀ s s' t l, S.step s t = some (s', l) → rank s' < rank s)
    {s s' : σ} {tr} (r : S.Run s tr s') : tr.length + rank s' ≤ rank s := by
  induction r with
  | nil => simp
  | cons hs _ ih =>
    have := hdec _ _ _ _ hs
    simp only [List.length_cons]; omega

/-- Same, for a rank that only decreases on states satisfying an invariant `P` preserved by steps. -/
theorem Run.length_le_rank_inv (rank : σ → Nat) (P : σ → Prop)
    (hP : ∀ s s' t l, P s → S.step s t = some (s', l) → P s')
    (hdec : ∀ s s' t l, P s → S.step s t = some (s', l) → rank s' < rank s)
    {s s' : σ} {tr} (r : S.Run s tr s') (h : P s) : tr.length + rank s' ≤ rank s := by
  induction r with
  | nil => simp
  | cons hs _ ih =>
    have := hdec _ _ _ _ h hs
    have := ih (hP _ _ _ _ h hs)
    simp only [List.length_cons]; omega

end Sys

/-- Finite sums over thread ids `0 … n-1`, used by ranking functions. -/
def sumTo (n : Nat) (f : Nat → Nat) : Nat :=
  match n with
  | 0 => 0
  | n + 1 => sumTo n f + f n

theorem sumTo_congr {n : Nat} {f g : Nat → Nat} (h : ∀ i, i < n → f i = g i) : sumTo n f = sumTo n g := by
  induction n with
  | zero => rfl
  | succ n ih =>
    simp only [sumTo]
    rw [ih (fun i hi => h i (by omega)), h n (by omega)]

/-- Updating one point `t < n` of the summand. -/
theorem sumTo_update {n : Nat} {f g : Nat → Nat} {t : Nat} (ht : t < n)
    (h : ∀ i, i ≠ t → f i = g i) : sumTo n g + f t = sumTo n f + g t := by
  induction n with
  | zero => omega
  | succ n ih =>
    simp only [sumTo]
    by_cases htn : t = n
    · subst htn
      have : sumTo t f = sumTo t g := sumTo_congr (fun i hi => h i (by omega))
      omega
    · have := ih (by omega)
      have := h n (by omega)
      omega

end MoThreads
