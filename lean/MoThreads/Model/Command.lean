/-
  M9 — Command: the protocol logic of `mo_threads.commands` (commands.py).

  * `quote`      = `shlex.quote` as used by `cmd_escape` (commands.py:373-376): the exact CPython algorithm.
  * `shParse`    = the POSIX-sh word splitting rules for the fragment `quote` can emit: unquoted safe
                   characters, '…' (everything literal), "…" containing only `'`; anything else is rejected
                   (`none`), so the round-trip theorem never relies on shell features outside that fragment.
  * `frame` / `workerParse` = the in-band END-OF-COMMAND-MARKER framing (commands.py:79-81, 120-128, 379).
  * `Pool`       = LifetimeManager's avail/inuse bookkeeping (commands.py:170-252).
  Characters are `Char`, strings `List Char`.  No imports.
-/
namespace MoThreads.Command

/-! ### shlex.quote -/

/-- ASCII letters, digits and `_ @ % + = : , . / -` : the characters `shlex.quote` leaves unquoted (re.ASCII) -/
def safe (c : Char) : Bool :=
  c.isAlphanum || c == '_' || c == '@' || c == '%' || c == '+' || c == '=' || c == ':' || c == ',' || c == '.' || c == '/' || c == '-'

/-- `s.replace("'", "'\"'\"'")` -/
def escBody : List Char → List Char
  | [] => []
  | c :: r => if c = '\'' then '\'' :: '"' :: '\'' :: '"' :: '\'' :: escBody r else c :: escBody r

def quote (s : List Char) : List Char :=
  if s = [] then ['\'', '\'']
  else if s.all safe then s
  else '\'' :: (escBody s ++ ['\''])

def joinSp : List (List Char) → List Char
  | [] => []
  | [w] => w
  | w :: r => w ++ ' ' :: joinSp r

/-- the command line `Command.__init__` sends to the shell -/
def commandLine (params : List (List Char)) : List Char := joinSp (params.map quote)

/-! ### the shell's word splitting, restricted to what `quote` emits -/

inductive Mode | out | sq | dq
  deriving DecidableEq, Repr

def pushWord (cur : Option (List Char)) (acc : List (List Char)) : List (List Char) :=
  match cur with
  | none => acc
  | some w => acc ++ [w]

def app (cur : Option (List Char)) (c : Char) : Option (List Char) := some (cur.getD [] ++ [c])

def shParseAux : Mode → Option (List Char) → List (List Char) → List Char → Option (List (List Char))
  | .out, cur, acc, [] => some (pushWord cur acc)
  | .out, cur, acc, c :: r =>
    if c = ' ' then shParseAux .out none (pushWord cur acc) r
    else if c = '\'' then shParseAux .sq (some (cur.getD [])) acc r
    else if c = '"' then shParseAux .dq (some (cur.getD [])) acc r
    else if safe c then shParseAux .out (app cur c) acc r
    else none
  | .sq, _, _, [] => none
  | .sq, cur, acc, c :: r =>
    if c = '\'' then shParseAux .out cur acc r else shParseAux .sq (app cur c) acc r
  | .dq, _, _, [] => none
  | .dq, cur, acc, c :: r =>
    if c = '"' then shParseAux .out cur acc r
    else if c = '\'' then shParseAux .dq (app cur c) acc r
    else none

def shParse (line : List Char) : Option (List (List Char)) := shParseAux .out none [] line

/-! ### in-band framing of one shell's stdout -/

/-- what the shell prints on stdout, line by line -/
inductive Tok
  | line (s : List Char)          -- a line of program output
  | marker (rest : List Char)     -- a line starting with END-OF-COMMAND-MARKER (rest = what follows on it)
  | status (n : Nat)              -- the line printed by `echo $__rc`
  deriving DecidableEq, Repr

/-- stdout of one command followed by LAST_RETURN_CODE -/
def frame (out : List (List Char)) (rc : Nat) : List Tok := out.map .line ++ [.marker [], .status rc]

/-- `Command._worker`: relay lines until one starts with the marker, then read the status line.
Returns (lines relayed, returncode, rest of the stream); `none` = stream ended first / status unreadable. -/
def workerParse : List Tok → Option (List (List Char) × Nat × List Tok)
  | [] => none
  | .line s :: r => (workerParse r).map fun (ls, rc, rest) => (s :: ls, rc, rest)
  | .marker _ :: .status n :: r => some ([], n, r)
  | .marker _ :: _ => none
  | .status _ :: _ => none        -- a bare number is an ordinary line for the worker; never produced before a marker by `frame`

/-- a whole session on one recycled shell -/
def session : List (List (List Char) × Nat) → List Tok
  | [] => []
  | (o, rc) :: r => frame o rc ++ session r

def parseSession : Nat → List Tok → Option (List (List (List Char) × Nat))
  | 0, _ => some []
  | n + 1, toks => match workerParse toks with
    | none => none
    | some (ls, rc, rest) => (parseSession n rest).map fun l => (ls, rc) :: l

/-! ### LifetimeManager: avail / inuse -/

structure Pool where
  avail : List (Nat × Nat)         -- (key, process id), as appended by return_process
  inuse : List (Nat × Nat)
  nextPid : Nat

def Pool.init : Pool := { avail := [], inuse := [], nextPid := 0 }

/-- first available process with the wanted key -/
def findKey (k : Nat) : List (Nat × Nat) → Option (Nat × Nat)
  | [] => none
  | x :: r => if x.1 = k then some x else findKey k r

/-- get_or_create_process(key): reuse the first available shell with that key, else start a new one -/
def Pool.get (p : Pool) (k : Nat) : Pool × Nat :=
  match findKey k p.avail with
  | some x => ({ p with avail := p.avail.erase x, inuse := p.inuse ++ [x] }, x.2)
  | none => ({ p with inuse := p.inuse ++ [(k, p.nextPid)], nextPid := p.nextPid + 1 }, p.nextPid)

/-- return_process(process) -/
def Pool.ret (p : Pool) (pid : Nat) : Option Pool :=
  match p.inuse.find? (fun x => x.2 = pid) with
  | some x => some { p with inuse := p.inuse.erase x, avail := p.avail ++ [x] }
  | none => none                   -- logger.error("process not found")

inductive PoolOp | get (k : Nat) | ret (pid : Nat)
  deriving DecidableEq, Repr

def Pool.run (p : Pool) : List PoolOp → Pool
  | [] => p
  | .get k :: r => ((p.get k).1).run r
  | .ret pid :: r => match p.ret pid with
    | some p' => p'.run r
    | none => p.run r

end MoThreads.Command
