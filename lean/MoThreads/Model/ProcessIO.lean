/-
  M8 — ProcessIO: `mo_threads.processes.Process` (processes.py, as REPAIRED for C17): the two pipe readers
  (`_reader`), the monitor (`_monitor`), `stop()`, `join()`, `kill()`, around an abstract child.

  The child writes whole lines (natural numbers) to stream 0 (stdout) or 1 (stderr) following a script and
  then exits with `status`; its pipes reach end-of-file exactly when it exits or is killed (OS assumption,
  recorded in the trusted base).  Time is the environment: a `wait(timeout)` may time out while the child
  runs, the monitor may find the child idle for too long and kill it, the monitor's wait limit on a reader
  may expire (the reader is abandoned).  Thread ids: 0 child, 1 stdout reader, 2 stderr reader, 3 monitor,
  4 the thread calling join().
-/
import MoThreads.Model.Sched
namespace MoThreads.ProcessIO

/-- exit status reported for a killed child -/
def KILLED : Nat := 1000

inductive RPC        -- `_reader`
  | read                         -- data = pipe.readline()
  | add (x : Nat)                -- receive.add(line)
  | fin1                         -- finally: self.please_stop.go()
  | fin2                         -- receive.close()
  | exiting                      -- the function has returned; Thread._run triggers the thread's `stopped` last
  | done
  deriving DecidableEq, Repr

inductive MPC        -- `_monitor`
  | test                         -- while not please_stop
  | idle                         -- if took > self.timeout: kill_once(); break
  | wait                         -- self.service.wait(timeout=self.monitor_period)
  | chk                          -- if self.service.returncode is not None: break
  | post                         -- if self.service.returncode is None   (repair)
  | postWait                     --     self.service.wait(timeout=self.monitor_period)
  | join0                        -- stdout_thread.join(till=wait_limit)  / except: close, abandon
  | join1                        -- stderr_thread.join(till=wait_limit)
  | setStopped                   -- self.stopped.go()
  | done
  deriving DecidableEq, Repr

inductive UPC        -- the caller of join()
  | idle
  | jwait                        -- self.stopped.wait()
  | jchk                         -- if self.returncode is None: kill(); error TIMEOUT
  | jchk2                        -- if self.returncode != 0: error FAIL
  | returned | raisedTimeout | raisedFail
  deriving DecidableEq, Repr

inductive Label
  | write (k x : Nat) | exit (st : Nat)
  | read (k : Nat) (x : Option Nat) | add (k : Nat) | pstop | close (k : Nat)
  | mtest (b : Bool) | waitReaped (st : Nat) | waitTimeout | kill (late : Bool) | stopped
  | tau
  deriving DecidableEq, Repr

structure State where
  script : List (Nat × Nat)      -- what the child will still write: (stream, line)
  status : Nat                   -- its own exit status
  exited : Option Nat
  killed : Bool
  buf : Nat → List Nat           -- the pipes
  q : Nat → List Nat             -- process.stdout / process.stderr
  closed : Nat → Bool
  rpc : Nat → RPC
  mpc : MPC
  upc : UPC
  pstop : Bool
  rc : Option Nat                -- service.returncode
  stopped : Bool
  -- ghosts
  written : Nat → List Nat
  abandoned : Nat → Bool
  userStop : Bool
  script0 : List (Nat × Nat)

def init (script : List (Nat × Nat)) (status : Nat) : State :=
  { script, status, exited := none, killed := false, buf := fun _ => [], q := fun _ => [], closed := fun _ => false,
    rpc := fun _ => .read, mpc := .test, upc := .idle, pstop := false, rc := none, stopped := false,
    written := fun _ => [], abandoned := fun _ => false, userStop := false, script0 := script }

def upd {α : Type} (f : Nat → α) (k : Nat) (v : α) : Nat → α := fun j => if j = k then v else f j

def linesOf (k : Nat) : List (Nat × Nat) → List Nat
  | [] => []
  | (j, x) :: r => if j = k then x :: linesOf k r else linesOf k r

/-- the child -/
def stepChild (s : State) : Option (State × Label) :=
  match s.exited with
  | some _ => none
  | none =>
    match s.script with
    | (k, x) :: rest => some ({ s with script := rest, buf := upd s.buf k (s.buf k ++ [x]), written := upd s.written k (s.written k ++ [x]) }, .write k x)
    | [] => some ({ s with exited := some s.status }, .exit s.status)

/-- reader of stream k -/
def stepReader (s : State) (k : Nat) : Option (State × Label) :=
  match s.rpc k with
  | .read =>
    match s.buf k with
    | x :: rest => some ({ s with buf := upd s.buf k rest, rpc := upd s.rpc k (.add x) }, .read k (some x))
    | [] => if s.exited.isSome then some ({ s with rpc := upd s.rpc k .fin1 }, .read k none) else none
  | .add x =>
    if s.closed k then some ({ s with rpc := upd s.rpc k .fin1 }, .tau)      -- "Do not add to closed queue" (abandoned reader)
    else some ({ s with q := upd s.q k (s.q k ++ [x]), rpc := upd s.rpc k .read }, .add k)
  | .fin1 => some ({ s with pstop := true, rpc := upd s.rpc k .fin2 }, if s.pstop then .tau else .pstop)
  | .fin2 => some ({ s with closed := upd s.closed k true, rpc := upd s.rpc k .exiting }, .close k)
  | .exiting => some ({ s with rpc := upd s.rpc k .done }, .tau)
  | .done => none

/-- `kill()`: Popen polls first, a child that has already exited is reaped instead -/
def doKill (s : State) : State × Bool :=
  match s.exited with
  | some st => ({ s with rc := some st }, true)
  | none => ({ s with exited := some KILLED, killed := true }, false)

def stepMonitor (s : State) : Option (State × Label) :=
  match s.mpc with
  | .test => some ({ s with mpc := if s.pstop then .post else .idle }, .mtest s.pstop)
  | .idle => some ({ s with mpc := .wait }, .tau)
  | .wait =>
    match s.exited with
    | some st => some ({ s with rc := some st, mpc := .chk }, .waitReaped st)
    | none => none
  | .chk => some ({ s with mpc := if s.rc.isSome then .post else .test }, .tau)
  | .post => some ({ s with mpc := if s.rc.isSome then .join0 else .postWait }, .tau)
  | .postWait =>
    match s.exited with
    | some st => some ({ s with rc := some st, mpc := .join0 }, .waitReaped st)
    | none => none
  | .join0 => if s.rpc 0 = .done then some ({ s with mpc := .join1 }, .tau) else none
  | .join1 => if s.rpc 1 = .done then some ({ s with mpc := .setStopped }, .tau) else none
  | .setStopped => some ({ s with stopped := true, mpc := .done }, .stopped)
  | .done => none

def stepUser (s : State) : Option (State × Label) :=
  match s.upc with
  | .jwait => if s.stopped then some ({ s with upc := .jchk }, .tau) else none
  | .jchk =>
    match s.rc with
    | some _ => some ({ s with upc := .jchk2 }, .tau)
    | none => let (s', late) := doKill s; some ({ s' with upc := .raisedTimeout }, .kill late)
  | .jchk2 => some ({ s with upc := if s.rc = some 0 then .returned else .raisedFail }, .tau)
  | _ => none

def step (s : State) (t : Nat) : Option (State × Label) :=
  if t = 0 then stepChild s
  else if t = 1 then stepReader s 0
  else if t = 2 then stepReader s 1
  else if t = 3 then stepMonitor s
  else if t = 4 then stepUser s
  else none

/-! ### the environment: time and the user -/

/-- `service.wait(timeout)` times out: only while the child runs -/
def waitTimeout (s : State) : Option State :=
  match s.exited with
  | some _ => none
  | none =>
    match s.mpc with
    | .wait => some { s with mpc := .test }
    | .postWait => some { s with mpc := .join0 }
    | _ => none

/-- the monitor finds the child silent for longer than `timeout`: kill_once(), break -/
def idleKill (s : State) : Option State :=
  match s.mpc with
  | .idle => some { (doKill s).1 with mpc := .post }
  | _ => none

/-- the wait limit on reader k expires: the monitor closes the queue and abandons the reader -/
def abandon (s : State) (k : Nat) : Option State :=
  match s.mpc, k with
  | .join0, 0 => if s.rpc 0 = .done then none else some { s with closed := upd s.closed 0 true, abandoned := upd s.abandoned 0 true, mpc := .join1 }
  | .join1, 1 => if s.rpc 1 = .done then none else some { s with closed := upd s.closed 1 true, abandoned := upd s.abandoned 1 true, mpc := .setStopped }
  | _, _ => none

def userStop (s : State) : State := { s with pstop := true, userStop := true }

/-- the stdin writer sees its queue closed (the monitor closes it after the readers) and triggers please_stop -/
def writerStop (s : State) : Option State :=
  match s.mpc with
  | .setStopped | .done => some { s with pstop := true }
  | _ => none

def callJoin (s : State) : Option State :=
  match s.upc with
  | .idle => some { s with upc := .jwait }
  | _ => none

def sys : Sys State Label where
  init s := ∃ sc st, st < 256 ∧ s = init sc st
  env s s' := waitTimeout s = some s' ∨ idleKill s = some s' ∨ (∃ k, abandon s k = some s') ∨ s' = userStop s ∨ callJoin s = some s' ∨ writerStop s = some s'
  step := step

end MoThreads.ProcessIO
