/-
  M5 — ThreadTree: `mo_threads.threads` (Thread.__init__ 276-308, stop 332-347, _run 352-421, join 431-472,
  join_all_threads 636-656), as REPAIRED for C10/C11 (DESIGN §7): join() waits for the thread even when a child
  failed; children stay registered until joined.

  A dynamic forest of threads.  Thread 0 is the main thread (always running its "target").  Threads are children of the thread that creates them,
  or orphans (`parent_thread=Null`: registered in ALL only, as the pipe threads of a Process are); MainThread.stop()
  ends with a sweep of whatever is still registered in ALL.  Every thread
  runs `_run`: register in ALL, target, outcome, shutdown block (snapshot children, stop each, join each,
  clear, unregister from ALL, trigger `stopped`).  While its target runs, a thread issues API calls chosen by
  the environment: spawn a child, stop(u), join(u, till?), join_all(us), release(u), finish.
  The recursive calls (`stop` → children's `stop`, `join` → children's `join`) are flattened into work
  lists, which is exact because neither recursion exits early (join_all_threads and the repaired join()
  collect failures and raise at the end).  Granularity: every locked access to a `children` list, every
  signal trigger, every ALL registry update, every blocking wait.
-/
import MoThreads.Model.Sched
namespace MoThreads.ThreadTree

inductive Outcome
  | ok (v : Nat) | fail
  deriving DecidableEq, Repr

inductive SAct      -- flattened stop()
  | visit (u : Nat)               -- with u.child_locker: children = list(u.children)
  | fire (u : Nat)                -- u.please_stop.go()
  deriving DecidableEq, Repr

inductive JAct      -- flattened join()
  | start (u : Nat)               -- with u.child_locker: children = list(u.children) ; then join each
  | mark (u : Nat)                -- u.joiner_is_waiting.go()
  | wait (u : Nat)                -- u.stopped.wait(till)
  | unreg (u : Nat)               -- u.parent.remove_child(u)
  | finish (u : Nat) (cs : List Nat)   -- raise children's failure / own failure, or return response
  deriving DecidableEq, Repr

/-- what the top-level call returned -/
inductive Ret
  | none | done | value (v : Nat) | raised | timeout | values (l : List (Option Nat)) | allRaised
  deriving DecidableEq, Repr

inductive Call
  | idle (r : Ret)
  | spawn (c : Nat)                                   -- Thread.__init__ … parent.add_child(self) ; start()   (no add_child for an orphan)
  | releasing (u : Nat)                               -- :424 self.joiner_is_waiting.go()
  | stopping (work : List SAct)
  | joining (top : List Nat) (work : List JAct) (till : Option Nat) (raised : List Nat) (all : Bool)
  -- MainThread.stop()
  | m0                                                  -- :205 self.please_stop.go()
  | m1                                                  -- :207 with child_locker: children = list(self.children)
  | mS (cs : List Nat) (work : List SAct)               -- :209 for c in reversed(children): c.stop()
  | mJ (cs : List Nat) (work : List JAct) (raised : List Nat)   -- :215 join_all_threads(children)
  | m2 (cs : List Nat) (raised : List Nat)              -- :236 with ALL_LOCK: del ALL[self.ident]; residue = list(ALL.values())
  | mRS (cs raised res : List Nat) (work : List SAct)   -- :243 for t in residue: t.stop()
  | mRJ (cs raised res : List Nat) (work : List JAct) (raised2 : List Nat)   -- :245 join_all_threads(residue)
  deriving DecidableEq, Repr

inductive Phase
  | absent                      -- no such thread yet
  | created                     -- Thread object exists (registered under its parent), OS thread not running yet
  | running                     -- target is running (API calls allowed)
  | peek (o : Outcome)          -- :355 target raised: `self not in self.parent.children`
  | fin1                        -- :359 with child_locker: children = list(self.children)
  | fin2 (cs : List Nat)        -- :362 for c in children: c.stop()
  | fin3 (cs : List Nat)        -- :366 join_all_threads(children)
  | fin4 (cs : List Nat)        -- :372 with child_locker: self.children = []
  | fin5 (cs : List Nat)        -- :375 del ALL[ident]
  | fin6 (cs : List Nat)        -- :378 self.stopped.go()
  | linger                      -- :387 (Till(60) | joiner_is_waiting).wait()
  | dead
  deriving DecidableEq, Repr

inductive Label
  | allAdd (u : Nat) | allDel (u : Nat)
  | outcome (u : Nat) (ok : Bool)
  | snap (u : Nat) (cs : List Nat)          -- R children (snapshot)
  | reg (c p : Nat) | unreg (c p : Nat) (present : Bool) | clear (p : Nat) | peek (p : Nat)
  | firePstop (u : Nat) | fireStopped (u : Nat) | fireJoiner (u : Nat)
  | waited (u : Nat) (stopped : Bool)
  | startThread (c : Nat)
  | snapAll (res : List Nat)                -- R ALL (what is left after the main thread took itself out)
  | tau
  deriving DecidableEq, Repr

inductive Op
  | spawn | spawnOrphan | stop (u : Nat) | join (u : Nat) (till : Option Nat) | joinAll (us : List Nat) (till : Option Nat)
  | release (u : Nat) | finish (o : Outcome) | mainStop
  deriving DecidableEq, Repr

structure State where
  phase : Nat → Phase
  call : Nat → Call
  children : Nat → List Nat
  parent : Nat → Nat
  pstop : Nat → Bool
  stopped : Nat → Bool
  joiner : Nat → Bool
  inAll : Nat → Bool
  allOrder : List Nat               -- the registry ALL as a dict: idents in insertion order
  orphan : Nat → Bool               -- created with parent_thread=Null
  outcome : Nat → Option Outcome
  tillFired : Nat → Bool
  lingerFired : Nat → Bool          -- the 60 s a finished thread waits for somebody to collect its result have passed
  nextId : Nat
  -- ghosts
  everChild : Nat → List Nat        -- every thread ever registered under p

def init : State :=
  { phase := fun t => if t = 0 then .running else .absent, call := fun _ => .idle .none, children := fun _ => [],
    parent := fun _ => 0, pstop := fun _ => false, stopped := fun _ => false, joiner := fun _ => false,
    inAll := fun t => t = 0, allOrder := [0], orphan := fun _ => false, outcome := fun _ => none, tillFired := fun _ => false, lingerFired := fun _ => false, nextId := 1, everChild := fun _ => [] }

def upd {α : Type} (f : Nat → α) (t : Nat) (v : α) : Nat → α := fun u => if u = t then v else f u

def tillOn (s : State) (tl : Option Nat) : Bool :=
  match tl with
  | none => false
  | some x => s.tillFired x

/-- the environment (= the running target's program) starts an API call -/
def call (s : State) (t : Nat) (op : Op) : Option State :=
  match s.phase t, s.call t with
  | .running, .idle _ =>
    match op with
    | .spawn => some { s with call := upd s.call t (.spawn s.nextId), nextId := s.nextId + 1, parent := upd s.parent s.nextId t }
    | .spawnOrphan => some { s with call := upd s.call t (.spawn s.nextId), nextId := s.nextId + 1, parent := upd s.parent s.nextId s.nextId,
                                    orphan := upd s.orphan s.nextId true }
    | .stop u => some { s with call := upd s.call t (.stopping [.visit u]) }
    | .join u tl => some { s with call := upd s.call t (.joining [u] [.start u] tl [] false) }
    | .joinAll us tl => some { s with call := upd s.call t (.joining us (us.map .start) tl [] true) }
    | .mainStop => if t = 0 then some { s with call := upd s.call t .m0 } else none
    | .release u => some { s with call := upd s.call t (.releasing u) }
    | .finish o => if t = 0 then none else some { s with outcome := upd s.outcome t (some o), phase := upd s.phase t (match o with | .ok _ => .fin1 | .fail => .peek o) }
  | _, _ => none

def fireTill (s : State) (x : Nat) : State := { s with tillFired := upd s.tillFired x true }

/-- environment: sixty seconds have passed since thread `t` finished (its `Till(seconds=60)` fires) -/
def expire (s : State) (t : Nat) : State := { s with lingerFired := upd s.lingerFired t true }

/-- one step of a flattened stop() -/
def stepStop (s : State) (t : Nat) (work : List SAct) (k : List SAct → Call) : Option (State × Label) :=
  match work with
  | [] => none
  | .visit u :: rest => some ({ s with call := upd s.call t (k ((s.children u).map .visit ++ [.fire u] ++ rest)) }, .snap u (s.children u))
  | .fire u :: rest => some ({ s with pstop := upd s.pstop u true, call := upd s.call t (k rest) }, if s.pstop u then .tau else .firePstop u)

def didRaise (s : State) (raised : List Nat) (u : Nat) (cs : List Nat) : Bool :=
  raised.contains u || cs.any raised.contains || (s.outcome u == some .fail)

/-- one step of a flattened join() / join_all_threads() -/
def stepJoin (s : State) (t : Nat) (top : List Nat) (work : List JAct) (tl : Option Nat) (raised : List Nat) (all : Bool)
    (k : List JAct → List Nat → Call) : Option (State × Label) :=
  match work with
  | [] => none
  | .start u :: rest =>
    some ({ s with call := upd s.call t (k ((s.children u).map .start ++ [.mark u, .wait u, .unreg u, .finish u (s.children u)] ++ rest) raised) },
          .snap u (s.children u))
  | .mark u :: rest => some ({ s with joiner := upd s.joiner u true, call := upd s.call t (k rest raised) },
                             if s.joiner u then .tau else .fireJoiner u)
  | .wait u :: rest =>
    if s.stopped u then some ({ s with call := upd s.call t (k rest raised) }, .waited u true)
    else if tillOn s tl then
      -- timed out: THREAD_TIMEOUT is raised, the unregistration is skipped
      some ({ s with call := upd s.call t (k (rest.filter (· ≠ .unreg u)) (u :: raised)) }, .waited u false)
    else none
  | .unreg u :: rest =>
    some ({ s with children := upd s.children (s.parent u) ((s.children (s.parent u)).erase u), call := upd s.call t (k rest raised) },
          if s.orphan u then .tau else .unreg u (s.parent u) ((s.children (s.parent u)).contains u))   -- Null.remove_child: nothing happens
  | .finish u cs :: rest =>
    some ({ s with call := upd s.call t (k rest (if didRaise s raised u cs then (if raised.contains u then raised else u :: raised) else raised)) }, .tau)

/-- the value join_all_threads puts in the result slot of `u` -/
def resultOf (s : State) (u : Nat) : Option Nat :=
  match s.outcome u with
  | some (.ok v) => some v
  | _ => none

/-- result of a single join(u) -/
def joinRet1 (s : State) (u : Nat) (raised : List Nat) : Ret :=
  if raised.contains u then (if s.stopped u then .raised else .timeout)
  else match s.outcome u with
    | some (.ok v) => .value v
    | _ => .raised

def joinRet (s : State) (top : List Nat) (raised : List Nat) (all : Bool) : Ret :=
  if all then (if top.any raised.contains then .allRaised else .values (top.map (resultOf s)))
  else match top with
    | [u] => joinRet1 s u raised
    | _ => .none

def step (s : State) (t : Nat) : Option (State × Label) :=
  match s.phase t with
  | .absent => none
  | .dead => none
  | .created => some ({ s with phase := upd s.phase t .running, inAll := upd s.inAll t true,
                                allOrder := if s.inAll t then s.allOrder else s.allOrder ++ [t] }, .allAdd t)
  | .running =>
    match s.call t with
    | .idle _ => none
    | .spawn c =>
      if c ∈ s.children t ∨ s.orphan c = true then     -- an orphan (parent_thread=Null) is registered nowhere: started at once
        some ({ s with call := upd s.call t (.idle .done), phase := upd s.phase c .created }, .startThread c)   -- start(): the new OS thread exists from now on
      else
        some ({ s with children := upd s.children t (s.children t ++ [c]), everChild := upd s.everChild t (s.everChild t ++ [c]) }, .reg c t)
    | .releasing u => some ({ s with joiner := upd s.joiner u true, call := upd s.call t (.idle .done) }, if s.joiner u then .tau else .fireJoiner u)
    | .stopping work =>
      match work with
      | [] => some ({ s with call := upd s.call t (.idle .done) }, .tau)
      | _ => stepStop s t work .stopping
    | .joining top work tl raised all =>
      match work with
      | [] => some ({ s with call := upd s.call t (.idle (joinRet s top raised all)) }, .tau)
      | _ => stepJoin s t top work tl raised all (fun w r => .joining top w tl r all)
    | .m0 => some ({ s with pstop := upd s.pstop t true, call := upd s.call t .m1 }, if s.pstop t then .tau else .firePstop t)
    | .m1 => some ({ s with call := upd s.call t (.mS (s.children t) ((s.children t).reverse.map .visit)) }, .snap t (s.children t))
    | .mS cs work =>
      match work with
      | [] => some ({ s with call := upd s.call t (.mJ cs (cs.map .start) []) }, .tau)
      | _ => stepStop s t work (.mS cs)
    | .mJ cs work raised =>
      match work with
      | [] => some ({ s with call := upd s.call t (.m2 cs raised) }, .tau)
      | _ => stepJoin s t cs work none raised true (fun w r => .mJ cs w r)
    | .m2 cs raised =>
      let res := s.allOrder.erase t
      some ({ s with inAll := upd s.inAll t false, allOrder := res, call := upd s.call t (.mRS cs raised res (res.map .visit)) }, .snapAll res)
    | .mRS cs raised res work =>
      match work with
      | [] => some ({ s with call := upd s.call t (.mRJ cs raised res (res.map .start) []) }, .tau)
      | _ => stepStop s t work (.mRS cs raised res)
    | .mRJ cs raised res work raised2 =>
      match work with
      | [] => some ({ s with call := upd s.call t (.idle (if res.any raised2.contains || cs.any raised.contains then .allRaised else .done)) }, .tau)
      | _ => stepJoin s t res work none raised2 true (fun w r => .mRJ cs raised res w r)
  | .peek o => some ({ s with phase := upd s.phase t .fin1 }, if s.orphan t then .tau else .peek (s.parent t))
  | .fin1 => some ({ s with phase := upd s.phase t (.fin2 (s.children t)), call := upd s.call t (.stopping ((s.children t).map .visit)) },
                   .snap t (s.children t))
  | .fin2 cs =>
    match s.call t with
    | .stopping [] => some ({ s with phase := upd s.phase t (.fin3 cs), call := upd s.call t (.joining cs (cs.map .start) none [] true) }, .tau)
    | .stopping work => stepStop s t work .stopping
    | _ => none
  | .fin3 cs =>
    match s.call t with
    | .joining _ [] _ _ _ => some ({ s with phase := upd s.phase t (.fin4 cs), call := upd s.call t (.idle .done) }, .tau)
    | .joining top work tl raised all => stepJoin s t top work tl raised all (fun w r => .joining top w tl r all)
    | _ => none
  | .fin4 cs => some ({ s with children := upd s.children t [], phase := upd s.phase t (.fin5 cs) }, .clear t)
  | .fin5 cs => some ({ s with inAll := upd s.inAll t false, allOrder := s.allOrder.erase t, phase := upd s.phase t (.fin6 cs) }, .allDel t)
  | .fin6 _ => some ({ s with stopped := upd s.stopped t true, phase := upd s.phase t .linger }, .fireStopped t)
  | .linger =>
    if s.joiner t then some ({ s with phase := upd s.phase t .dead }, .tau)
    else if s.lingerFired t then
      -- :389-414 nobody came for the result: a failure is logged (and the method returns there); otherwise the thread
      -- unregisters itself from a parent that is a Thread (not the main thread, not Null)
      if s.outcome t = some .fail ∨ s.orphan t = true ∨ s.parent t = 0 then some ({ s with phase := upd s.phase t .dead }, .tau)
      else some ({ s with children := upd s.children (s.parent t) ((s.children (s.parent t)).erase t), phase := upd s.phase t .dead },
                 .unreg t (s.parent t) ((s.children (s.parent t)).contains t))
    else none

def sys : Sys State Label where
  init s := s = init
  env s s' := (∃ t op, call s t op = some s') ∨ (∃ x, s' = fireTill s x) ∨ (∃ t, s' = expire s t)
  step := step

end MoThreads.ThreadTree
